(* Proofs about Model/QueueCursor.v: the invariant established by the repaired popFront (all entries ever
   allocated form ONE chain in allocation order; no link is ever rewritten), and what it gives the iterator. *)
From FunV Require Import Base.Tac Model.QueueCursor.

(* ---------------------------------------------------------------- basics *)

Arguments wake_all : simpl never.
Arguments upd : simpl never.

Lemma upd_same {A} (f : nat -> A) k v : upd f k v k = v.
Proof. unfold upd. now rewrite Nat.eqb_refl. Qed.

Lemma upd_other {A} (f : nat -> A) k v x : x <> k -> upd f k v x = f x.
Proof. unfold upd. intros H. destruct (Nat.eqb_spec x k); [contradiction|reflexivity]. Qed.

Definition items (q : queue) (a n : nat) : list Z := map (fun k => item (heap q k)) (seq a n).

(* every value ever added, oldest first *)
Definition added (q : queue) : list Z := items q 1 (nxt q - 1).
(* what the queue contains (what Remove would return, in order) *)
Definition contents (q : queue) : list Z := items q (S (front q)) (qlen q).

Definition pos (t : iter) : nat := match cur t with Some c => c | None => start t end.

Definition q_ok (q : queue) : Prop :=
  1 <= nxt q /\ back q = nxt q - 1 /\ front q <= back q /\ qlen q = back q - front q /\
  (forall k, k < nxt q -> link (heap q k) = if S k <? nxt q then Some (S k) else None).

Definition hist_ok (q : queue) (t : iter) : Prop :=
  start t <= pos t /\ pos t < nxt q /\ yielded t = items q (S (start t)) (pos t - start t).

Definition pc_ok (q : queue) (t : iter) : Prop :=
  match ipc t with
  | Ready | Called => True
  | Window | Woken => cur t <> None
  | AfterWait => exists c, cur t = Some c /\ S c < nxt q
  | Parked => exists c, cur t = Some c /\ S c = nxt q /\ closed q = false /\ cancelled t = false
  | Crashed => False
  end.

Definition thr_ok (q : queue) (t : iter) : Prop := hist_ok q t /\ pc_ok q t.

Definition inv (s : state) : Prop := q_ok (sq s) /\ forall i, thr_ok (sq s) (its s i).

Inductive reach : state -> Prop :=
| reach0 : reach s0
| reachS s l : reach s -> reach (fst (step s l)).

(* ---------------------------------------------------------------- list facts *)

Lemma items_snoc q a n : items q a (S n) = items q a n ++ [item (heap q (a + n))].
Proof. unfold items. rewrite seq_S, map_app. reflexivity. Qed.

Lemma items_ext q q' a n :
  (forall k, a <= k < a + n -> item (heap q' k) = item (heap q k)) -> items q' a n = items q a n.
Proof.
  intros H. unfold items. apply map_ext_in. intros k Hk. apply in_seq in Hk. apply H. lia.
Qed.

Lemma skipn_seq a n k : skipn k (seq a n) = seq (a + k) (n - k).
Proof.
  revert a n. induction k as [|k IH]; intros a n; simpl.
  - now rewrite Nat.add_0_r, Nat.sub_0_r.
  - destruct n as [|n]; simpl; [reflexivity|]. rewrite IH. f_equal. lia.
Qed.

Lemma firstn_seq a n k : k <= n -> firstn k (seq a n) = seq a k.
Proof.
  revert a n. induction k as [|k IH]; intros a n H; simpl; [reflexivity|].
  destruct n as [|n]; [lia|]. simpl. f_equal. apply IH. lia.
Qed.

Lemma in_firstn {A} n : forall (l : list A) x, In x (firstn n l) -> In x l.
Proof. induction n as [|n IH]; intros [|a l] x; simpl; try tauto. intros [->|H]; [now left|right; auto]. Qed.

Lemma in_skipn {A} n : forall (l : list A) x, In x (skipn n l) -> In x l.
Proof. induction n as [|n IH]; intros [|a l] x; simpl; try tauto. intros H. right. auto. Qed.

Lemma items_segment q a n :
  a + n <= nxt q - 1 -> items q (S a) n = firstn n (skipn a (added q)).
Proof.
  intros H. unfold added, items. rewrite skipn_map, firstn_map. f_equal.
  rewrite skipn_seq, firstn_seq by lia. reflexivity.
Qed.

(* ---------------------------------------------------------------- queue operations *)

(* q' extends q: more entries, the items of the old ones unchanged *)
Definition q_ext (q q' : queue) : Prop :=
  nxt q <= nxt q' /\ forall k, k < nxt q -> item (heap q' k) = item (heap q k).

Lemma q_ext_refl q : q_ext q q.
Proof. split; auto. Qed.

Lemma do_add_ok q v q' : q_ok q -> do_add q v = Some q' -> q_ok q' /\ q_ext q q' /\ closed q' = closed q.
Proof.
  unfold do_add. intros (H1 & H2 & H3 & H4 & H5). destruct (closed q) eqn:Hc; [discriminate|].
  intros E. inv E. simpl. split; [|split].
  - unfold q_ok; simpl. repeat split; try lia.
    intros k Hk. destruct (Nat.eq_dec k (back q)) as [->|Hkb].
    + rewrite upd_same. simpl. destruct (Nat.ltb_spec (S (back q)) (S (nxt q))); [f_equal; lia|lia].
    + rewrite upd_other by assumption. destruct (Nat.eq_dec k (nxt q)) as [->|Hkn].
      * rewrite upd_same. simpl. destruct (Nat.ltb_spec (S (nxt q)) (S (nxt q))); [lia|reflexivity].
      * rewrite upd_other by assumption. rewrite H5 by lia.
        destruct (Nat.ltb_spec (S k) (nxt q)); destruct (Nat.ltb_spec (S k) (S (nxt q))); try reflexivity; lia.
  - split; simpl; [lia|]. intros k Hk. destruct (Nat.eq_dec k (back q)) as [->|Hkb].
    + rewrite upd_same. simpl. rewrite upd_other by lia. reflexivity.
    + rewrite upd_other by assumption. rewrite upd_other by lia. reflexivity.
  - congruence.
Qed.

Lemma pop_front_ok q : q_ok q -> qlen q <> 0 ->
  exists q' v, pop_front q = Some (q', v) /\ q_ok q' /\ q_ext q q' /\ closed q' = closed q /\
               v = item (heap q (S (front q))) /\ front q' = S (front q).
Proof.
  intros (H1 & H2 & H3 & H4 & H5) Hl. unfold pop_front. rewrite H5 by lia.
  destruct (Nat.ltb_spec (S (front q)) (nxt q)); [|lia].
  eexists _, _. split; [reflexivity|]. simpl. repeat split; simpl; auto; lia.
Qed.

(* ---------------------------------------------------------------- threads under queue changes *)

Definition wake1 (t : iter) : iter := match ipc t with Parked => set_pc t Woken | _ => t end.

Lemma wake_all_eq f i : wake_all f i = wake1 (f i).
Proof. reflexivity. Qed.

Lemma hist_ext q q' t : q_ext q q' -> hist_ok q t -> hist_ok q' t.
Proof.
  intros (Hn & Hi) (A & B & C). repeat split; [assumption|lia|].
  rewrite C. symmetry. apply items_ext. intros k Hk. apply Hi. lia.
Qed.

Lemma thr_ext_wake q q' t : q_ext q q' -> thr_ok q t -> thr_ok q' (wake1 t).
Proof.
  intros He (Hh & Hp). pose proof (hist_ext _ _ _ He Hh) as Hh'. destruct He as (Hn & _).
  unfold wake1. unfold thr_ok, pc_ok in *. destruct (ipc t) eqn:E.
  - rewrite E. split; [exact Hh'|exact I].
  - rewrite E. split; [exact Hh'|exact I].
  - rewrite E. split; [exact Hh'|exact Hp].
  - destruct Hp as (c & Hc & _). split; [exact Hh'|]. simpl. congruence.
  - rewrite E. split; [exact Hh'|exact Hp].
  - rewrite E. destruct Hp as (c & Hc & Hlt). split; [exact Hh'|]. exists c. split; [assumption|lia].
  - contradiction.
Qed.

Lemma thr_ext_nopark q q' t : q_ext q q' -> thr_ok q t -> ipc t <> Parked -> thr_ok q' t.
Proof.
  intros He Ht Hn. pose proof (thr_ext_wake _ _ _ He Ht) as H. unfold wake1 in H.
  destruct (ipc t); try exact H. contradiction.
Qed.

(* only the closed flag changes *)
Lemma thr_close_wake q t :
  thr_ok q t -> thr_ok (mkQ (heap q) (nxt q) (front q) (back q) true (qlen q)) (wake1 t).
Proof.
  intros (Hh & Hp). unfold wake1. unfold thr_ok, pc_ok in *. destruct (ipc t) eqn:E.
  - rewrite E. split; [exact Hh|exact I].
  - rewrite E. split; [exact Hh|exact I].
  - rewrite E. split; [exact Hh|exact Hp].
  - destruct Hp as (c & Hc & _). split; [exact Hh|]. simpl. congruence.
  - rewrite E. split; [exact Hh|exact Hp].
  - rewrite E. split; [exact Hh|exact Hp].
  - contradiction.
Qed.

(* ---------------------------------------------------------------- the invariant *)

Lemma inv_s0 : inv s0.
Proof.
  split.
  - unfold q_ok; simpl. repeat split; try lia.
  - intros i. unfold thr_ok, hist_ok, pc_ok, pos; simpl. repeat split; try lia.
Qed.

Lemma advance_ok q t c :
  q_ok q -> hist_ok q t -> cur t = Some c -> S c < nxt q -> thr_ok q (advance q t (S c)).
Proof.
  intros Hq (A & B & C) Hc Hlt. unfold pos in *. rewrite Hc in *.
  assert (E : S c - start t = S (c - start t)) by lia.
  unfold thr_ok, hist_ok, pc_ok, advance, pos. cbn [cur ipc start yielded cancelled].
  split; [|exact I]. split; [lia|]. split; [lia|].
  rewrite E, items_snoc, C. replace (S (start t) + (c - start t)) with (S c) by lia. reflexivity.
Qed.

Lemma link_of q c : q_ok q -> c < nxt q ->
  link (heap q c) = if S c <? nxt q then Some (S c) else None.
Proof. intros (_ & _ & _ & _ & H). apply H. Qed.

Lemma check_ok q f i :
  q_ok q -> (forall j, thr_ok q (f j)) -> cur (f i) <> None -> ipc (f i) <> Parked ->
  (forall j, thr_ok q (fst (check q f i) j)) /\ (forall j, snd (check q f i) <> EvRes j RPanic).
Proof.
  intros Hq Hf Hc Hnp. unfold check. destruct (cur (f i)) as [c|] eqn:Ec; [|contradiction].
  destruct (Hf i) as (Hh & Hp). pose proof Hh as (A & B & C). unfold pos in B. rewrite Ec in B.
  rewrite (link_of _ _ Hq B).
  assert (Hset : forall p, pc_ok q (set_pc (f i) p) -> thr_ok q (set_pc (f i) p)).
  { intros p Hpp. split; [exact Hh|exact Hpp]. }
  assert (Hw : forall g, (forall j, thr_ok q (g j)) -> forall j, thr_ok q (wake_all g j)).
  { intros g Hg j. rewrite wake_all_eq. apply thr_ext_wake with (q := q); [apply q_ext_refl|apply Hg]. }
  assert (Hu : forall t', thr_ok q t' -> forall j, thr_ok q (upd f i t' j)).
  { intros t' Ht' j. destruct (Nat.eq_dec j i) as [->|Hj]; [now rewrite upd_same|rewrite upd_other by assumption; apply Hf]. }
  destruct (Nat.ltb_spec (S c) (nxt q)).
  - split; [|intros j; discriminate]. simpl. apply Hw, Hu, Hset. unfold pc_ok; simpl. eauto.
  - destruct (closed q) eqn:Ecl; [split; [|intros j; discriminate]; simpl; apply Hw, Hu, Hset; exact I|].
    destruct (cancelled (f i)) eqn:Eca; [split; [|intros j; discriminate]; simpl; apply Hw, Hu, Hset; exact I|].
    split; [|intros j; discriminate]. simpl. apply Hu, Hset. unfold pc_ok; simpl.
    exists c. repeat split; auto; lia.
Qed.

Lemma run_iter_ok q f i :
  q_ok q -> (forall j, thr_ok q (f j)) ->
  (forall j, thr_ok q (fst (run_iter q f i) j)) /\ (forall j, snd (run_iter q f i) <> EvRes j RPanic).
Proof.
  intros Hq Hf. unfold run_iter.
  destruct (Hf i) as (Hh & Hp). pose proof Hh as (A & B & C).
  assert (Hu : forall t', thr_ok q t' -> forall j, thr_ok q (upd f i t' j)).
  { intros t' Ht' j. destruct (Nat.eq_dec j i) as [->|Hj]; [now rewrite upd_same|rewrite upd_other by assumption; apply Hf]. }
  assert (Hset : forall p, pc_ok q (set_pc (f i) p) -> thr_ok q (set_pc (f i) p)).
  { intros p Hpp. split; [exact Hh|exact Hpp]. }
  destruct (ipc (f i)) eqn:Epc.
  - split; [exact Hf|intros j; discriminate].
  - (* Called *)
    destruct (cur (f i)) as [c|] eqn:Ec.
    + unfold pos in B. rewrite Ec in B. rewrite (link_of _ _ Hq B).
      destruct (Nat.ltb_spec (S c) (nxt q)).
      * destruct (Nat.eqb_spec (S c) c); [lia|]. split; [|intros j; discriminate]. simpl.
        apply Hu. apply advance_ok; auto.
      * destruct (closed q); (split; [|intros j; discriminate]); simpl; apply Hu, Hset; unfold pc_ok; simpl; auto.
        congruence.
    + split; [|intros j; discriminate]. simpl. apply Hu.
      destruct Hq as (Q1 & Q2 & Q3 & Q4 & Q5).
      unfold pos in *. rewrite Ec in *. assert (yielded (f i) = []) as Hy.
      { rewrite C. rewrite Nat.sub_diag. reflexivity. }
      unfold thr_ok, hist_ok, pc_ok, pos; simpl. rewrite Hy, Nat.sub_diag. repeat split; try lia; try reflexivity.
  - (* Window *)
    apply check_ok; auto; [unfold pc_ok in Hp; rewrite Epc in Hp; exact Hp|congruence].
  - split; [exact Hf|intros j; discriminate].
  - (* Woken *)
    apply check_ok; auto; [unfold pc_ok in Hp; rewrite Epc in Hp; exact Hp|congruence].
  - (* AfterWait *)
    unfold pc_ok in Hp. rewrite Epc in Hp. destruct Hp as (c & Ec & Hlt). rewrite Ec.
    rewrite (link_of _ _ Hq) by lia. destruct (Nat.ltb_spec (S c) (nxt q)); [|lia].
    split; [|intros j; discriminate]. simpl. apply Hu. apply advance_ok; auto.
  - unfold pc_ok in Hp. rewrite Epc in Hp. contradiction.
Qed.

Lemma step_inv s l : inv s -> inv (fst (step s l)).
Proof.
  intros (Hq & Ht). destruct l as [v| | |i|i|i|v]; simpl.
  - destruct (do_add (sq s) v) as [q'|] eqn:E; simpl; [|split; assumption].
    destruct (do_add_ok _ _ _ Hq E) as (Hq' & He & _). split; [assumption|].
    intros i. simpl. rewrite wake_all_eq. eapply thr_ext_wake; eauto.
  - destruct (Nat.eqb_spec (qlen (sq s)) 0); simpl; [split; assumption|].
    destruct (pop_front_ok _ Hq n) as (q' & v & E & Hq' & He & _). rewrite E. simpl. split; [assumption|].
    intros i. simpl. rewrite wake_all_eq. eapply thr_ext_wake; eauto.
  - split; simpl.
    + destruct Hq as (Q1 & Q2 & Q3 & Q4 & Q5). unfold q_ok; simpl. auto.
    + intros i. rewrite wake_all_eq. apply thr_close_wake. apply Ht.
  - split; simpl; [assumption|]. intros j. rewrite wake_all_eq.
    destruct (Nat.eq_dec j i) as [->|Hj].
    + rewrite upd_same. destruct (Ht i) as (Hh & Hp). unfold wake1; simpl.
      unfold thr_ok, hist_ok, pc_ok, pos in *; simpl in *.
      destruct (ipc (its s i)) eqn:E; simpl; rewrite ?E; auto.
      destruct Hp as (c & Hc & _). split; [exact Hh|congruence].
    + rewrite upd_other by assumption. apply thr_ext_wake with (q := sq s); [apply q_ext_refl|apply Ht].
  - destruct (ipc (its s i)) eqn:E; simpl; try (split; assumption).
    split; simpl; [assumption|]. intros j. destruct (Nat.eq_dec j i) as [->|Hj].
    + rewrite upd_same. destruct (Ht i) as (Hh & Hp). split; [exact Hh|exact I].
    + rewrite upd_other by assumption. apply Ht.
  - destruct (run_iter (sq s) (its s) i) as [f ev] eqn:E. simpl.
    split; [assumption|]. pose proof (run_iter_ok (sq s) (its s) i Hq Ht) as (H & _). rewrite E in H. exact H.
  - split; assumption.
Qed.

Lemma reach_inv s : reach s -> inv s.
Proof. induction 1; [apply inv_s0|apply step_inv; assumption]. Qed.

(* ---------------------------------------------------------------- consequences *)

Lemma step_no_panic s l : inv s ->
  snd (step s l) <> EvPanicOp /\ forall i, snd (step s l) <> EvRes i RPanic.
Proof.
  intros (Hq & Ht). destruct l as [v| | |i|i|i|v]; simpl.
  - destruct (do_add (sq s) v); simpl; split; try intros j; discriminate.
  - destruct (Nat.eqb_spec (qlen (sq s)) 0); simpl; [split; try intros j; discriminate|].
    destruct (pop_front_ok _ Hq n) as (q' & v & E & _). rewrite E. simpl. split; try intros j; discriminate.
  - split; try intros j; discriminate.
  - split; try intros j; discriminate.
  - destruct (ipc (its s i)); simpl; split; try intros j; discriminate.
  - destruct (run_iter (sq s) (its s) i) as [f ev] eqn:E. simpl.
    pose proof (run_iter_ok (sq s) (its s) i Hq Ht) as (_ & H). rewrite E in H. simpl in H.
    split; [|exact H]. unfold run_iter, check in E.
    repeat (match type of E with context [match ?x with _ => _ end] => destruct x end; try (inv E; discriminate)).
  - split; try intros j; discriminate.
Qed.

Lemma no_crash s i : inv s -> ipc (its s i) <> Crashed.
Proof. intros (_ & Ht) E. destruct (Ht i) as (_ & Hp). unfold pc_ok in Hp. rewrite E in Hp. exact Hp. Qed.

Lemma yielded_segment s i : inv s ->
  let t := its s i in
  yielded t = firstn (pos t - start t) (skipn (start t) (added (sq s))).
Proof.
  intros (Hq & Ht). simpl. destruct (Ht i) as ((A & B & C) & _). rewrite C. apply items_segment. lia.
Qed.

Lemma yielded_in_added s i v : inv s -> In v (yielded (its s i)) -> In v (added (sq s)).
Proof.
  intros Hi Hin. rewrite (yielded_segment s i Hi) in Hin.
  eapply in_skipn, in_firstn; eauto.
Qed.

Lemma parked_seen_all s i : inv s -> ipc (its s i) = Parked ->
  cur (its s i) = Some (back (sq s)) /\ closed (sq s) = false /\ cancelled (its s i) = false /\
  yielded (its s i) = skipn (start (its s i)) (added (sq s)).
Proof.
  intros Hi E. pose proof Hi as ((Q1 & Q2 & Q3 & Q4 & Q5) & Ht).
  destruct (Ht i) as ((A & B & C) & Hp). unfold pc_ok in Hp. rewrite E in Hp.
  destruct Hp as (c & Hc & Hn & Hcl & Hca). repeat split; auto.
  - rewrite Hc. f_equal. lia.
  - rewrite (yielded_segment s i Hi). unfold pos in *. rewrite Hc in *.
    apply firstn_all2. rewrite skipn_length. unfold added, items. rewrite map_length, seq_length. lia.
Qed.

(* what the next call / the continuation of a waiting call returns *)
Definition here (q : queue) (t : iter) : nat := match cur t with Some c => c | None => front q end.

Lemma drive_unfold n s i : drive (S n) s i =
  match ipc (its s i) with
  | Parked => (s, RParked)
  | Ready | Crashed => (s, RNothing)
  | _ => let '(s', ev) := step s (LRun i) in
         match ev with EvRes _ r => (s', r) | _ => drive n s' i end
  end.
Proof. reflexivity. Qed.

Lemma step_run s i : step s (LRun i) = (mkS (sq s) (fst (run_iter (sq s) (its s) i)), snd (run_iter (sq s) (its s) i)).
Proof. simpl. destruct (run_iter (sq s) (its s) i). reflexivity. Qed.

Lemma step_S1 s i c : q_ok (sq s) -> ipc (its s i) = Called -> cur (its s i) = Some c -> c < nxt (sq s) ->
  snd (step s (LRun i)) =
    EvRes i (if S c <? nxt (sq s) then RYield (item (heap (sq s) (S c))) else if closed (sq s) then REOF else RWindow).
Proof.
  intros Hq Ep Ec Hc. rewrite step_run. cbn [snd]. unfold run_iter. rewrite Ep, Ec, (link_of _ _ Hq Hc).
  destruct (Nat.ltb_spec (S c) (nxt (sq s))).
  - destruct (Nat.eqb_spec (S c) c); [lia|reflexivity].
  - destruct (closed (sq s)); reflexivity.
Qed.

Lemma step_S0 s i : ipc (its s i) = Called -> cur (its s i) = None ->
  let s' := fst (step s (LRun i)) in
  snd (step s (LRun i)) = EvNone /\ sq s' = sq s /\ ipc (its s' i) = Called /\ cur (its s' i) = Some (front (sq s)).
Proof.
  intros Ep Ec. rewrite step_run. cbn [fst snd sq its]. unfold run_iter. rewrite Ep, Ec. cbn [fst snd].
  rewrite upd_same. auto.
Qed.

Lemma step_check s i c : q_ok (sq s) -> (ipc (its s i) = Window \/ ipc (its s i) = Woken) ->
  cur (its s i) = Some c -> c < nxt (sq s) ->
  let s' := fst (step s (LRun i)) in
  if S c <? nxt (sq s)
  then snd (step s (LRun i)) = EvNone /\ sq s' = sq s /\ ipc (its s' i) = AfterWait /\ cur (its s' i) = Some c
  else snd (step s (LRun i)) =
         EvRes i (if closed (sq s) then RClosed else if cancelled (its s i) then RCtx else RParked).
Proof.
  intros Hq Ep Ec Hc. rewrite step_run. cbn [fst snd sq its].
  assert (E : run_iter (sq s) (its s) i = check (sq s) (its s) i).
  { unfold run_iter. destruct Ep as [Ep|Ep]; rewrite Ep; reflexivity. }
  rewrite E. unfold check. rewrite Ec, (link_of _ _ Hq Hc).
  destruct (Nat.ltb_spec (S c) (nxt (sq s))).
  - cbn [fst snd]. rewrite wake_all_eq, upd_same. unfold wake1. cbn [ipc set_pc cur]. auto.
  - destruct (closed (sq s)); [reflexivity|]. destruct (cancelled (its s i)); reflexivity.
Qed.

Lemma step_S3 s i c : q_ok (sq s) -> ipc (its s i) = AfterWait -> cur (its s i) = Some c -> S c < nxt (sq s) ->
  snd (step s (LRun i)) = EvRes i (RYield (item (heap (sq s) (S c)))).
Proof.
  intros Hq Ep Ec Hc. rewrite step_run. cbn [snd]. unfold run_iter. rewrite Ep, Ec, (link_of _ _ Hq) by lia.
  destruct (Nat.ltb_spec (S c) (nxt (sq s))); [reflexivity|lia].
Qed.

Lemma drive_res n s i j r :
  (ipc (its s i) = Called \/ ipc (its s i) = Window \/ ipc (its s i) = Woken \/ ipc (its s i) = AfterWait) ->
  snd (step s (LRun i)) = EvRes j r -> snd (drive (S n) s i) = r.
Proof.
  intros Ep Ev. rewrite drive_unfold. destruct (step s (LRun i)) as [s' ev]. cbn [snd] in Ev. subst ev.
  destruct Ep as [Ep|[Ep|[Ep|Ep]]]; rewrite Ep; reflexivity.
Qed.

Lemma drive_none n s i :
  (ipc (its s i) = Called \/ ipc (its s i) = Window \/ ipc (its s i) = Woken \/ ipc (its s i) = AfterWait) ->
  snd (step s (LRun i)) = EvNone -> drive (S n) s i = drive n (fst (step s (LRun i))) i.
Proof.
  intros Ep Ev. rewrite drive_unfold. destruct (step s (LRun i)) as [s' ev]. cbn [fst snd] in *. subst ev.
  destruct Ep as [Ep|[Ep|[Ep|Ep]]]; rewrite Ep; reflexivity.
Qed.

Lemma call_result s i : inv s -> ipc (its s i) = Ready ->
  let q := sq s in let p := here q (its s i) in
  snd (qstep s (QCall i)) =
    ObIt (if S p <? nxt q then RYield (item (heap q (S p))) else if closed q then REOF else RWindow).
Proof.
  intros (Hq & Ht) E. cbv zeta. unfold qstep. rewrite E.
  assert (Hs : step s (LCall i) = (mkS (sq s) (upd (its s) i (set_pc (its s i) Called)), EvNone)).
  { simpl. rewrite E. reflexivity. }
  rewrite Hs. cbn [fst]. set (s1 := mkS (sq s) (upd (its s) i (set_pc (its s i) Called))).
  assert (P1 : ipc (its s1 i) = Called) by (unfold s1; cbn [its]; rewrite upd_same; reflexivity).
  assert (C1 : cur (its s1 i) = cur (its s i)) by (unfold s1; cbn [its]; rewrite upd_same; reflexivity).
  assert (Q1 : sq s1 = sq s) by reflexivity.
  destruct (Ht i) as ((A & B & C) & _). unfold pos in B. unfold here.
  destruct (cur (its s i)) as [c|] eqn:Ec.
  - assert (R := step_S1 s1 i c). rewrite Q1 in R. specialize (R Hq P1 C1 B).
    destruct (drive 4 s1 i) as [s' r] eqn:D. replace r with (snd (drive 4 s1 i)) by now rewrite D.
    cbn [snd]. f_equal. exact (drive_res 3 s1 i i _ (or_introl P1) R).
  - destruct (step_S0 s1 i P1 C1) as (N & Q2 & P2 & C2). rewrite Q1 in *.
    rewrite drive_none by auto. set (s2 := fst (step s1 (LRun i))) in *.
    assert (Hf : front (sq s) < nxt (sq s)) by (destruct Hq as (? & ? & ? & ? & ?); lia).
    assert (R := step_S1 s2 i (front (sq s))). rewrite Q2 in R. specialize (R Hq P2 C2 Hf).
    destruct (drive 3 s2 i) as [s' r] eqn:D. replace r with (snd (drive 3 s2 i)) by now rewrite D.
    cbn [snd]. f_equal. exact (drive_res 2 s2 i i _ (or_introl P2) R).
Qed.

Lemma go_result s i c : inv s -> (ipc (its s i) = Window \/ ipc (its s i) = Woken) -> cur (its s i) = Some c ->
  let q := sq s in
  snd (qstep s (QGo i)) =
    ObIt (if S c <? nxt q then RYield (item (heap q (S c)))
          else if closed q then RClosed else if cancelled (its s i) then RCtx else RParked).
Proof.
  intros (Hq & Ht) E Ec. cbv zeta. unfold qstep.
  destruct (Ht i) as ((A & B & C) & _). unfold pos in B. rewrite Ec in B.
  assert (R := step_check s i c Hq E Ec B). cbv zeta in R.
  destruct (drive 4 s i) as [s' r] eqn:D. replace r with (snd (drive 4 s i)) by now rewrite D.
  cbn [snd]. f_equal. clear D s' r.
  destruct (Nat.ltb_spec (S c) (nxt (sq s))).
  - destruct R as (N & Q2 & P2 & C2). rewrite drive_none by tauto.
    set (s2 := fst (step s (LRun i))) in *.
    assert (R := step_S3 s2 i c). rewrite Q2 in R. specialize (R Hq P2 C2 H).
    erewrite drive_res; eauto.
  - erewrite drive_res; eauto. tauto.
Qed.

(* the iterator's steps do not touch the queue *)
Lemma iter_steps_keep_queue s i : sq (fst (step s (LCall i))) = sq s /\ sq (fst (step s (LRun i))) = sq s.
Proof.
  split; simpl.
  - destruct (ipc (its s i)); reflexivity.
  - destruct (run_iter (sq s) (its s) i). reflexivity.
Qed.

(* ---------------------------------------------------------------- the ghost history is what the events say *)

Definition yields_of (i : nat) (e : event) : list Z :=
  match e with EvRes j (RYield v) => if Nat.eqb j i then [v] else [] | _ => [] end.

Lemma wake1_yielded t : yielded (wake1 t) = yielded t.
Proof. unfold wake1. destruct (ipc t); reflexivity. Qed.

Lemma step_history s l i :
  yielded (its (fst (step s l)) i) = yielded (its s i) ++ yields_of i (snd (step s l)).
Proof.
  destruct l as [v| | |k|k|k|v]; simpl.
  - destruct (do_add (sq s) v); simpl; rewrite ?wake_all_eq, ?wake1_yielded, app_nil_r; reflexivity.
  - destruct (Nat.eqb (qlen (sq s)) 0); simpl; [now rewrite app_nil_r|].
    destruct (pop_front (sq s)) as [[q' v]|]; simpl; rewrite ?wake_all_eq, ?wake1_yielded, app_nil_r; reflexivity.
  - rewrite wake_all_eq, wake1_yielded, app_nil_r. reflexivity.
  - rewrite wake_all_eq, wake1_yielded, app_nil_r. unfold upd. destruct (Nat.eqb i k) eqn:E; [|reflexivity].
    apply Nat.eqb_eq in E. subst. reflexivity.
  - destruct (ipc (its s k)) eqn:E; simpl; rewrite app_nil_r; try reflexivity.
    unfold upd. destruct (Nat.eqb_spec i k); [subst; reflexivity|reflexivity].
  - destruct (run_iter (sq s) (its s) k) as [f ev] eqn:E. simpl.
    unfold run_iter, check, advance in E.
    repeat (match type of E with context [match ?x with _ => _ end] => destruct x eqn:? end);
      inv E; simpl; rewrite ?wake_all_eq, ?wake1_yielded; unfold upd;
      destruct (Nat.eqb_spec i k); subst; simpl; rewrite ?Nat.eqb_refl, ?app_nil_r; try reflexivity;
      try (destruct (Nat.eqb_spec k i); [congruence|]); rewrite ?app_nil_r; reflexivity.
  - now rewrite app_nil_r.
Qed.

Lemma run_history ls : forall s i,
  yielded (its (fst (run s ls)) i) = yielded (its s i) ++ flat_map (yields_of i) (snd (run s ls)).
Proof.
  induction ls as [|l r IH]; intros s i; simpl; [now rewrite app_nil_r|].
  destruct (step s l) as [s1 e] eqn:E1. destruct (run s1 r) as [s2 es] eqn:E2. simpl.
  specialize (IH s1 i). rewrite E2 in IH. simpl in IH. rewrite IH.
  pose proof (step_history s l i) as H. rewrite E1 in H. simpl in H. rewrite H, <- app_assoc. reflexivity.
Qed.

Lemma run_reach ls : forall s, reach s -> reach (fst (run s ls)).
Proof.
  induction ls as [|l r IH]; intros s H; simpl; [assumption|].
  destruct (step s l) as [s1 e] eqn:E1. destruct (run s1 r) as [s2 es] eqn:E2. simpl.
  specialize (IH s1). rewrite E2 in IH. apply IH. replace s1 with (fst (step s l)) by now rewrite E1.
  constructor. assumption.
Qed.

(* ---------------------------------------------------------------- non-vacuity *)

(* Add 1; iterator 0 yields 1, goes to wait, parks; Remove (the cursor's entry becomes the sentinel);
   Add 2 wakes it; it yields 2; Close; EOF.  Iterator 1 starts after the Remove and sees only 2. *)
Example ex_schedule :
  qrun s0 [QAdd 1; QCall 0; QCall 0; QGo 0; QRemove; QGo 0; QAdd 2; QGo 0; QCall 1; QClose; QCall 0; QCall 1]%Z =
  [ObAdd true; ObIt (RYield 1); ObIt RWindow; ObIt RParked; ObRem (Some 1); ObIt RParked; ObAdd true;
   ObIt (RYield 2); ObIt (RYield 2); ObUnit; ObIt REOF; ObIt REOF]%Z.
Proof. vm_compute. reflexivity. Qed.

(* an Add landing in the unlocked window is not waited for *)
Example ex_add_in_window :
  qrun s0 [QAdd 1; QCall 0; QCall 0; QAdd 2; QGo 0]%Z =
  [ObAdd true; ObIt (RYield 1); ObIt RWindow; ObAdd true; ObIt (RYield 2)]%Z.
Proof. vm_compute. reflexivity. Qed.

Example ex_reach_parked :
  let s := fst (run s0 [LCall 0; LRun 0; LRun 0; LRun 0]) in reach s /\ ipc (its s 0) = Parked.
Proof. split; [apply run_reach; constructor|vm_compute; reflexivity]. Qed.

(* ---------------------------------------------------------------- contents, Close *)

Lemma contents_eq s : inv s -> contents (sq s) = skipn (front (sq s)) (added (sq s)).
Proof.
  intros ((Q1 & Q2 & Q3 & Q4 & Q5) & _). unfold contents. rewrite items_segment by lia.
  apply firstn_all2. rewrite skipn_length. unfold added, items. rewrite map_length, seq_length. lia.
Qed.

(* S0 records the front it saw: from then on the iterator's history is measured from there *)
Lemma start_is_front s i : ipc (its s i) = Called -> cur (its s i) = None ->
  start (its (fst (step s (LRun i))) i) = front (sq s).
Proof.
  intros Ep Ec. rewrite step_run. cbn [fst its]. unfold run_iter. rewrite Ep, Ec. cbn [fst]. rewrite upd_same. reflexivity.
Qed.

Lemma closed_stable s l : inv s -> closed (sq s) = true ->
  closed (sq (fst (step s l))) = true /\ added (sq (fst (step s l))) = added (sq s).
Proof.
  intros (Hq & _) Hc. destruct l as [v| | |i|i|i|v]; simpl.
  - unfold do_add. rewrite Hc. simpl. auto.
  - destruct (Nat.eqb_spec (qlen (sq s)) 0); simpl; [auto|].
    destruct (pop_front_ok _ Hq n) as (q' & v & E & _ & _ & Hc' & _). rewrite E. simpl.
    unfold pop_front in E. destruct (link (heap (sq s) (front (sq s)))); inv E. simpl. auto.
  - auto.
  - auto.
  - destruct (ipc (its s i)); simpl; auto.
  - destruct (run_iter (sq s) (its s) i). simpl. auto.
  - auto.
Qed.

(* an Add that is rejected (by the tracker, or because the queue is closed) is invisible: nothing is
   allocated or linked, no iterator can ever yield its value or be moved by it *)
Lemma rejected_add_invisible s v :
  step s (LAddRej v) = (s, EvAdd false) /\
  (closed (sq s) = true -> step s (LAdd v) = (s, EvAdd false)).
Proof.
  split; [reflexivity|]. intros Hc. simpl. unfold do_add. rewrite Hc. reflexivity.
Qed.

Lemma eof_after_close s i : inv s -> closed (sq s) = true ->
  let q := sq s in
  ipc (its s i) <> Parked /\
  (ipc (its s i) = Ready ->
     snd (qstep s (QCall i)) =
       ObIt (let p := here q (its s i) in if S p <? nxt q then RYield (item (heap q (S p))) else REOF)) /\
  (forall c, ipc (its s i) = Window \/ ipc (its s i) = Woken -> cur (its s i) = Some c ->
     snd (qstep s (QGo i)) = ObIt (if S c <? nxt q then RYield (item (heap q (S c))) else RClosed)).
Proof.
  intros Hi Hc. cbv zeta. split; [|split].
  - intros E. destruct (parked_seen_all s i Hi E) as (_ & Hf & _). congruence.
  - intros E. rewrite (call_result s i Hi E). cbv zeta. rewrite Hc. reflexivity.
  - intros c E Ec. rewrite (go_result s i c Hi E Ec). cbv zeta. rewrite Hc. reflexivity.
Qed.
