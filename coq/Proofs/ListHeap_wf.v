(* Well-formedness of worlds (the C16 invariant) and the effect of the two splices
   uncheckedAppend / uncheckedRemove on it. *)
From FunV Require Import Base.Tac Base.ListX Model.SortSpec Model.ListHeap Proofs.ListHeap_ring.
Local Open Scope Z_scope.

Record lwf (w : world) (l r : nat) (es : list nat) : Prop := {
  lw_ring : ring (nodes w) r es;
  lw_len : llen (lists w l) = Z.of_nat (List.length es);
  lw_rok : nok (nodes w r) = false;
  lw_eok : Forall (fun n => nok (nodes w n) = true) es }.

(* the ring of list l: sentinel followed by the elements (empty for a zero-value list) *)
Definition cyc_of (w : world) (E : nat -> list nat) (l : nat) : list nat :=
  match lroot (lists w l) with Some r => r :: E l | None => [] end.

(* E l = the element nodes of list l, front to back (ghost state of the invariant) *)
Record WF (w : world) (E : nat -> list nat) : Prop := {
  wf_lists : forall l, (l < lfresh w)%nat ->
       match lroot (lists w l) with
       | None => llen (lists w l) = 0 /\ E l = []
       | Some r => lwf w l r (E l)
       end;
  wf_own : forall n l, (n < nfresh w)%nat ->
       (nowner (nodes w n) = Some l <-> (l < lfresh w)%nat /\ In n (cyc_of w E l));
  wf_lt : forall l n, (l < lfresh w)%nat -> In n (cyc_of w E l) -> (n < nfresh w)%nat }.

Definition abs (w : world) (E : nat -> list nat) (l : nat) : list Z := items w (E l).

Ltac hs :=
  unfold wnode, wlist, upd in *; simpl in *;
  repeat (match goal with |- context [Nat.eqb ?a ?b] => destruct (Nat.eqb_spec a b) end);
  subst; simpl in *; try congruence; auto.

(* ---------------------------------------------------------------- basic consequences *)
Lemma WF_root_in w E l r : WF w E -> (l < lfresh w)%nat -> lroot (lists w l) = Some r ->
  nowner (nodes w r) = Some l /\ (r < nfresh w)%nat.
Proof.
  intros W Hl Hr.
  assert (I : In r (cyc_of w E l)) by (unfold cyc_of; rewrite Hr; left; reflexivity).
  pose proof (wf_lt _ _ W l r Hl I) as Hlt. split; auto.
  apply (wf_own _ _ W r l Hlt). auto.
Qed.

Lemma WF_elem_in w E l r n : WF w E -> (l < lfresh w)%nat -> lroot (lists w l) = Some r -> In n (r :: E l) ->
  nowner (nodes w n) = Some l /\ (n < nfresh w)%nat.
Proof.
  intros W Hl Hr Hn.
  assert (I : In n (cyc_of w E l)) by (unfold cyc_of; rewrite Hr; exact Hn).
  pose proof (wf_lt _ _ W l n Hl I) as Hlt. split; auto.
  apply (wf_own _ _ W n l Hlt). auto.
Qed.

Lemma WF_owner_inv w E n l : WF w E -> (n < nfresh w)%nat -> nowner (nodes w n) = Some l ->
  (l < lfresh w)%nat /\ exists r, lroot (lists w l) = Some r /\ In n (r :: E l) /\ lwf w l r (E l).
Proof.
  intros W Hn Ho. apply (wf_own _ _ W n l Hn) in Ho. destruct Ho as [Hl I]. split; auto.
  unfold cyc_of in I. pose proof (wf_lists _ _ W l Hl) as L.
  destruct (lroot (lists w l)) as [r|]; [|destruct I]. exists r. auto.
Qed.

Lemma lwf_frame w w' l r es :
  (forall x, In x (r :: es) -> nnext (nodes w' x) = nnext (nodes w x) /\ nprev (nodes w' x) = nprev (nodes w x) /\
                               nok (nodes w' x) = nok (nodes w x)) ->
  llen (lists w' l) = llen (lists w l) ->
  lwf w l r es -> lwf w' l r es.
Proof.
  intros F Hl [[ND [Df Db]] Len Rok Eok]. split.
  - split; [exact ND|]. split.
    + eapply dlinks_frame; [|exact Df]. intros x Hx. apply F. exact Hx.
    + eapply dlinks_frame; [|exact Db]. intros x Hx. apply F.
      destruct Hx as [->|Hx]; [left; reflexivity|right; apply in_rev; exact Hx].
  - rewrite Hl. exact Len.
  - destruct (F r) as (_ & _ & ->); [left; reflexivity|exact Rok].
  - rewrite Forall_forall in *. intros x Hx. destruct (F x) as (_ & _ & ->); [right; exact Hx|auto].
Qed.

(* attached nodes may change only their item; detached nodes stay detached; lists untouched *)
Lemma WF_frame w w' E :
  WF w E -> lists w' = lists w -> lfresh w' = lfresh w -> (nfresh w <= nfresh w')%nat ->
  (forall x, (x < nfresh w)%nat -> nowner (nodes w x) <> None ->
       nnext (nodes w' x) = nnext (nodes w x) /\ nprev (nodes w' x) = nprev (nodes w x) /\
       nowner (nodes w' x) = nowner (nodes w x) /\ nok (nodes w' x) = nok (nodes w x)) ->
  (forall x, (x < nfresh w')%nat -> ((x < nfresh w)%nat -> nowner (nodes w x) = None) -> nowner (nodes w' x) = None) ->
  WF w' E.
Proof.
  intros W HL Hlf Hnf Fa Fd.
  assert (C : forall l, cyc_of w' E l = cyc_of w E l) by (intros l; unfold cyc_of; rewrite HL; reflexivity).
  assert (A : forall l x, (l < lfresh w)%nat -> In x (cyc_of w E l) -> (x < nfresh w)%nat /\ nowner (nodes w x) <> None).
  { intros l x Hl Hx. pose proof (wf_lt _ _ W l x Hl Hx) as Hlt. split; auto.
    assert (O : nowner (nodes w x) = Some l) by (apply (wf_own _ _ W x l Hlt); auto). congruence. }
  split.
  - intros l Hl. rewrite Hlf in Hl. pose proof (wf_lists _ _ W l Hl) as L. rewrite HL.
    destruct (lroot (lists w l)) as [r|] eqn:Hr; [|exact L].
    eapply lwf_frame; [| |exact L]; [|rewrite HL; reflexivity].
    intros x Hx. destruct (A l x Hl) as [Hlt Ho]; [unfold cyc_of; rewrite Hr; exact Hx|].
    destruct (Fa x Hlt Ho) as (a & b & _ & d). auto.
  - intros n l Hn. rewrite Hlf, C.
    destruct (lt_dec n (nfresh w)) as [Hlt|Hge].
    + destruct (nowner (nodes w n)) as [l0|] eqn:Ho.
      * destruct (Fa n Hlt) as (_ & _ & -> & _); [congruence|]. rewrite Ho. rewrite <- Ho. apply (wf_own _ _ W n l Hlt).
      * rewrite (Fd n Hn); [|auto]. rewrite <- Ho. apply (wf_own _ _ W n l Hlt).
    + rewrite (Fd n Hn); [|intros; lia]. split; [discriminate|]. intros [Hl I].
      destruct (A l n Hl I). lia.
  - intros l n Hl I. rewrite Hlf in Hl. rewrite C in I. pose proof (wf_lt _ _ W l n Hl I). lia.
Qed.

(* ---------------------------------------------------------------- allocation *)
Lemma alloc_WF w E nd :
  WF w E -> nowner nd = None ->
  exists w', alloc nd w = Ret (Some (nfresh w)) w' /\ WF w' E /\
             nodes w' (nfresh w) = nd /\ nfresh w' = S (nfresh w) /\ lists w' = lists w /\ lfresh w' = lfresh w /\
             (forall x, x <> nfresh w -> nodes w' x = nodes w x).
Proof.
  intros W Ho. eexists. split; [reflexivity|]. simpl.
  split; [|split; [apply upd_same|repeat split; auto; intros; apply upd_other; auto]].
  apply (WF_frame w); simpl; auto.
  - intros x Hx _. rewrite upd_other by lia. auto.
  - intros x Hx Hd. unfold upd. destruct (Nat.eqb_spec x (nfresh w)); [exact Ho|]. apply Hd. lia.
Qed.

Lemma alloc_list_WF w E :
  WF w E ->
  exists w', alloc_list w = Ret (lfresh w) w' /\ WF w' (upd E (lfresh w) []) /\
             nodes w' = nodes w /\ nfresh w' = nfresh w /\ lfresh w' = S (lfresh w) /\
             lists w' (lfresh w) = empty_lrec /\ (forall l, l <> lfresh w -> lists w' l = lists w l).
Proof.
  intros W. eexists. split; [reflexivity|]. simpl.
  split; [|repeat split; auto; [apply upd_same|intros; apply upd_other; auto]].
  assert (C : forall l, l <> lfresh w -> cyc_of (mkW (nodes w) (nfresh w) (upd (lists w) (lfresh w) empty_lrec) (S (lfresh w))) (upd E (lfresh w) []) l = cyc_of w E l).
  { intros l Hl. unfold cyc_of. simpl. rewrite !upd_other by auto. reflexivity. }
  assert (C0 : cyc_of (mkW (nodes w) (nfresh w) (upd (lists w) (lfresh w) empty_lrec) (S (lfresh w))) (upd E (lfresh w) []) (lfresh w) = []).
  { unfold cyc_of. simpl. rewrite upd_same. reflexivity. }
  split; simpl.
  - intros l Hl. destruct (Nat.eq_dec l (lfresh w)) as [->|Hne].
    + rewrite !upd_same. simpl. auto.
    + rewrite !upd_other by auto. pose proof (wf_lists _ _ W l ltac:(lia)) as L.
      destruct (lroot (lists w l)); [|exact L].
      destruct L as [R Len Rok Eok]. split; auto. simpl. rewrite upd_other by auto. exact Len.
  - intros n l Hn. destruct (Nat.eq_dec l (lfresh w)) as [->|Hne].
    + rewrite C0. split; [|intros [_ []]]. intros Ho. apply (wf_own _ _ W n _ Hn) in Ho. lia.
    + rewrite C by auto. rewrite (wf_own _ _ W n l Hn). split; intros [a b]; split; auto; try lia.
  - intros l n Hl I. destruct (Nat.eq_dec l (lfresh w)) as [->|Hne].
    + rewrite C0 in I. destruct I.
    + rewrite C in I by auto. apply (wf_lt _ _ W l n); [lia|exact I].
Qed.

(* ---------------------------------------------------------------- uncheckedAppend *)
Definition ua_world (w : world) (l e n s : nat) : world :=
  let w1 := wlist w l (fun x => set_len x (llen x + 1)) in
  let w2 := wnode w1 n (fun x => set_owner x (Some l)) in
  let w3 := wnode w2 n (fun x => set_prev x (Some e)) in
  let w4 := wnode w3 n (fun x => set_next x (Some s)) in
  let w5 := wnode w4 e (fun x => set_next x (Some n)) in
  wnode w5 s (fun x => set_prev x (Some n)).

Lemma ua_run w l e n s :
  nowner (nodes w e) = Some l -> nnext (nodes w e) = Some s -> e <> n ->
  uncheckedAppend (Some e) (Some n) w = Ret tt (ua_world w l e n s).
Proof.
  intros Ho Hn Hne.
  unfold uncheckedAppend, ua_world, bind, fld, wr, deref, get, modify, ret. simpl.
  rewrite Ho. simpl. rewrite Ho. simpl.
  rewrite !(upd_other _ n _ e) by exact Hne. rewrite Hn.
  rewrite !upd_same. unfold set_next, set_prev, set_owner; simpl.
  assert (Hne' : n <> e) by auto.
  unfold wnode at 1; simpl.
  rewrite !(upd_other _ e _ n) by exact Hne'. rewrite !upd_same. simpl. reflexivity.
Qed.

Section UA.
Variables (w : world) (l e n s : nat).
Hypothesis Hen : e <> n.
Hypothesis Hsn : s <> n.
Let w' := ua_world w l e n s.

Lemma ua_next x : x <> e -> x <> n -> nnext (nodes w' x) = nnext (nodes w x).
Proof. intros. subst w'. unfold ua_world. hs. Qed.
Lemma ua_prev x : x <> s -> x <> n -> nprev (nodes w' x) = nprev (nodes w x).
Proof. intros. subst w'. unfold ua_world. hs. Qed.
Lemma ua_owner x : x <> n -> nowner (nodes w' x) = nowner (nodes w x).
Proof. intros. subst w'. unfold ua_world. hs. Qed.
Lemma ua_ok x : nok (nodes w' x) = nok (nodes w x).
Proof. subst w'. unfold ua_world. hs. Qed.
Lemma ua_item x : nitem (nodes w' x) = nitem (nodes w x).
Proof. subst w'. unfold ua_world. hs. Qed.
Lemma ua_next_e : nnext (nodes w' e) = Some n.
Proof. subst w'. unfold ua_world. hs. Qed.
Lemma ua_next_n : nnext (nodes w' n) = Some s.
Proof. subst w'. unfold ua_world. hs. Qed.
Lemma ua_prev_s : nprev (nodes w' s) = Some n.
Proof. subst w'. unfold ua_world. hs. Qed.
Lemma ua_prev_n : nprev (nodes w' n) = Some e.
Proof. subst w'. unfold ua_world. hs. Qed.
Lemma ua_owner_n : nowner (nodes w' n) = Some l.
Proof. subst w'. unfold ua_world. hs. Qed.
Lemma ua_lists_l : lists w' l = set_len (lists w l) (llen (lists w l) + 1).
Proof. subst w'. unfold ua_world. hs. Qed.
Lemma ua_lists x : x <> l -> lists w' x = lists w x.
Proof. intros. subst w'. unfold ua_world. hs. Qed.
Lemma ua_roots x : lroot (lists w' x) = lroot (lists w x).
Proof. subst w'. unfold ua_world. hs. Qed.
Lemma ua_nfresh : nfresh w' = nfresh w. Proof. reflexivity. Qed.
Lemma ua_lfresh : lfresh w' = lfresh w. Proof. reflexivity. Qed.
End UA.

(* ---------------------------------------------------------------- uncheckedRemove *)
Definition ur_world (w : world) (l e p s : nat) : world :=
  let w1 := wlist w l (fun x => set_len x (llen x - 1)) in
  let w2 := wnode w1 p (fun x => set_next x (Some s)) in
  let w3 := wnode w2 s (fun x => set_prev x (Some p)) in
  wnode w3 e (fun x => set_owner x None).

Lemma ur_run w l e p s :
  nowner (nodes w e) = Some l -> nnext (nodes w e) = Some s -> nprev (nodes w e) = Some p -> e <> p -> e <> s ->
  uncheckedRemove (Some e) w = Ret tt (ur_world w l e p s).
Proof.
  intros Ho Hn Hp Hep Hes.
  unfold uncheckedRemove, ur_world, bind, fld, wr, deref, get, modify, ret. simpl.
  rewrite Ho. simpl. rewrite Hp, Hn. simpl.
  apply Nat.eqb_neq in Hep. unfold upd at 1 2. rewrite Hep. rewrite Hn, Hp. simpl. reflexivity.
Qed.

Section UR.
Variables (w : world) (l e p s : nat).
Hypothesis Hep : e <> p.
Hypothesis Hes : e <> s.
Let w' := ur_world w l e p s.

Lemma ur_next x : x <> p -> nnext (nodes w' x) = nnext (nodes w x).
Proof. intros. subst w'. unfold ur_world. hs. Qed.
Lemma ur_prev x : x <> s -> nprev (nodes w' x) = nprev (nodes w x).
Proof. intros. subst w'. unfold ur_world. hs. Qed.
Lemma ur_owner x : x <> e -> nowner (nodes w' x) = nowner (nodes w x).
Proof. intros. subst w'. unfold ur_world. hs. Qed.
Lemma ur_ok x : nok (nodes w' x) = nok (nodes w x).
Proof. subst w'. unfold ur_world. hs. Qed.
Lemma ur_item x : nitem (nodes w' x) = nitem (nodes w x).
Proof. subst w'. unfold ur_world. hs. Qed.
Lemma ur_next_p : nnext (nodes w' p) = Some s.
Proof. subst w'. unfold ur_world. hs. Qed.
Lemma ur_prev_s : nprev (nodes w' s) = Some p.
Proof. subst w'. unfold ur_world. hs. Qed.
Lemma ur_owner_e : nowner (nodes w' e) = None.
Proof. subst w'. unfold ur_world. hs. Qed.
Lemma ur_next_e : nnext (nodes w' e) = nnext (nodes w e).
Proof. subst w'. unfold ur_world. hs. Qed.
Lemma ur_prev_e : nprev (nodes w' e) = nprev (nodes w e).
Proof. subst w'. unfold ur_world. hs. Qed.
Lemma ur_lists_l : lists w' l = set_len (lists w l) (llen (lists w l) - 1).
Proof. subst w'. unfold ur_world. hs. Qed.
Lemma ur_lists x : x <> l -> lists w' x = lists w x.
Proof. intros. subst w'. unfold ur_world. hs. Qed.
Lemma ur_roots x : lroot (lists w' x) = lroot (lists w x).
Proof. subst w'. unfold ur_world. hs. Qed.
End UR.

(* the ghost function only matters pointwise *)
Lemma WF_ext w E E' : (forall l, E l = E' l) -> WF w E -> WF w E'.
Proof.
  intros X W.
  assert (C : forall l, cyc_of w E' l = cyc_of w E l) by (intros l; unfold cyc_of; rewrite X; reflexivity).
  split.
  - intros l Hl. rewrite <- X. apply (wf_lists _ _ W l Hl).
  - intros n l Hn. rewrite C. apply (wf_own _ _ W n l Hn).
  - intros l n Hl. rewrite C. apply (wf_lt _ _ W l n Hl).
Qed.
