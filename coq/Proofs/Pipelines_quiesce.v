(* C04, generic part: in a quiescent state in which the guard of every blocked select is cancelled,
   no goroutine of the network is still running and nobody is parked in once.Do.
   (i)   which instructions can block, and under which guard: [instr_guards], [unguarded_wait];
   (ii)  "the guards are cancelled" is proved per network from its stop action (Pipelines_nets.v);
   (iii) [exec_enabled]: a goroutine at a ctx-guarded select whose context is cancelled can step. *)
From FunV Require Import Base.Tac Base.ListX Model.Pipelines Proofs.Pipelines_conserve.

(* ---- static side ---- *)
Definition instr_guards (i : instr) : list gd :=
  match i with
  | IRecv _ g _ _ _ | ISend _ g _ _ _ => [g]
  | IWgWait (Some g) _ => [g]
  | _ => []
  end.

Definition unguarded_wait (i : instr) : bool := match i with IWgWait None _ => true | _ => false end.

Definition targets (i : instr) : list nat :=
  match i with
  | ISrc _ _ a b c | IRecv _ _ a b c | ISend _ _ a b c => [a; b; c]
  | IDeliver k | IClose _ k | ICancel _ k | ISpawn _ _ k | IGoOnce _ _ k | IWgWait _ k | IGoto k => [k]
  | ICheck _ a b => [a; b]
  | IExit => []
  end.

Definition once_target_ok (once : pid) (i : instr) : bool :=
  match i with IGoOnce q _ _ => q =? once | _ => true end.

Definition wf_desc (once : pid) (d : pdesc) : bool :=
  (0 <? length (d_prog d))
  && forallb (fun i => forallb (fun k => k <? length (d_prog d)) (targets i) && once_target_ok once i) (d_prog d)
  && (negb (d_wg d) || forallb (fun i => negb (unguarded_wait i)) (d_prog d)).

Definition wf_net (N : net) : bool :=
  forallb (wf_desc (n_once N)) (n_procs N)
  && match nth_error (n_procs N) (n_once N) with Some d => negb (d_user d) | None => true end.

(* ---- counters ---- *)
Definition runb (pr : proc) : bool := match p_st pr with PRun => true | _ => false end.

Fixpoint wgc (ps : list proc) (ds : list pdesc) : nat :=
  match ps, ds with
  | pr :: ps', d :: ds' => (if d_wg d && runb pr then 1 else 0) + wgc ps' ds'
  | _, _ => 0
  end.

Lemma wgc_upd ps ds p pr pr' d :
  nth_error ps p = Some pr -> nth_error ds p = Some d ->
  wgc (upd ps p pr') ds + (if d_wg d && runb pr then 1 else 0) = wgc ps ds + (if d_wg d && runb pr' then 1 else 0).
Proof.
  revert ds p; induction ps as [|a ps IH]; intros [|d0 ds] [|p] H1 H2; simpl in *; try discriminate.
  - inv H1. inv H2. lia.
  - specialize (IH _ _ H1 H2). lia.
Qed.

Lemma wgc_upd_nodesc ps ds p pr' : nth_error ds p = None -> wgc (upd ps p pr') ds = wgc ps ds.
Proof.
  revert ds p; induction ps as [|a ps IH]; intros [|d0 ds] [|p] H; simpl in *; try discriminate; auto;
    try (destruct ps; reflexivity); try (rewrite IH; auto).
Qed.

Lemma wgc_zero ps ds :
  (forall p pr d, nth_error ps p = Some pr -> nth_error ds p = Some d -> d_wg d = true -> runb pr = false) -> wgc ps ds = 0.
Proof.
  revert ds; induction ps as [|a ps IH]; intros [|d ds] H; simpl; auto.
  rewrite IH; [|intros p pr d' H1 H2; apply (H (S p)); assumption].
  destruct (d_wg d) eqn:E; simpl; auto. rewrite (H 0 a d eq_refl eq_refl E). reflexivity.
Qed.

(* ---- (iii) enabledness ---- *)
Lemma exec_enabled N s p pr d i :
  unguarded_wait i = false ->
  (forall g, In g (instr_guards i) -> cancelledb N s (resolve pr g) = true) ->
  exists arm s', exec N s p pr d i arm = Some s'.
Proof.
  intros Hu Hg. destruct i; cbn [exec].
  - exists false. destruct (cancelledb N s (resolve pr g)); [eauto|].
    destruct (nth_error (s_srcs s) src) as [[|v r]|]; eauto.
  - exists true. rewrite (Hg g (or_introl eq_refl)). eauto.
  - destruct (p_hand pr); [exists true; rewrite (Hg g (or_introl eq_refl))|exists false]; eauto.
  - exists false; eauto.
  - exists false. destruct (nth_error (s_chans s) ch); eauto.
  - exists false; eauto.
  - exists false. destruct (nth_error (s_procs s) q) as [qp|]; [destruct (p_st qp)|]; eauto.
  - exists false. destruct (nth_error (s_procs s) q) as [qp|]; [destruct (p_st qp)|]; eauto.
  - destruct g as [g|]; [|discriminate]. exists true. rewrite (Hg g (or_introl eq_refl)). eauto.
  - exists false; eauto.
  - exists false; eauto.
  - exists false; eauto.
Qed.

(* ctx_guarded_enabled, as a statement about the network: a goroutine blocked at a ctx-guarded
   select whose context is cancelled has an enabled step *)
Lemma ctx_guarded_enabled N s p pr d i :
  cur_instr N s p = Some (pr, d, i) -> unguarded_wait i = false ->
  (forall g, In g (instr_guards i) -> cancelledb N s (resolve pr g) = true) ->
  exists arm s', step N s (LStep p arm) = Some s'.
Proof.
  intros Hc Hu Hg. destruct (exec_enabled N s p pr d i Hu Hg) as (arm & s' & E).
  exists arm, s'. cbn [step]. rewrite Hc. exact E.
Qed.

Lemma wgwait_enabled N s p pr d k :
  cur_instr N s p = Some (pr, d, IWgWait None k) -> s_wg s = 0 -> exists s', step N s (LStep p false) = Some s'.
Proof. intros Hc Hw. cbn [step]. rewrite Hc. cbn [exec]. rewrite Hw. simpl. eauto. Qed.

(* ---- what one instruction does to the goroutine table, the wait group and the once-parking ---- *)
Definition instr_ctxs (i : instr) : list gd :=
  instr_guards i ++ match i with ISpawn _ g _ | IGoOnce _ g _ => [g] | _ => [] end.

Definition moved (pr pr' : proc) (i : instr) : Prop := p_st pr' = PRun /\ In (p_pc pr') (targets i) /\ p_ctx pr' = p_ctx pr.

Inductive pshape (N : net) (s : state) (p : pid) (pr : proc) (d : pdesc) (i : instr) (s' : state) : Prop :=
| sh_plain pr' :
    s_procs s' = upd (s_procs s) p pr' -> s_wg s' = s_wg s -> s_oncew s' = s_oncew s -> moved pr pr' i -> pshape N s p pr d i s'
| sh_exit pr' :
    i = IExit -> p_st pr' = PDone -> p_ctx pr' = p_ctx pr ->
    s_procs s' = upd (s_procs s) p pr' -> s_wg s' = (if d_wg d then pred (s_wg s) else s_wg s) -> s_oncew s' = s_oncew s ->
    pshape N s p pr d i s'
| sh_start q qp c pr' :
    q <> p -> nth_error (s_procs s) q = Some qp -> p_st qp = PNotStarted -> (exists g, In g (instr_ctxs i) /\ c = resolve pr g) -> (exists g k, i = ISpawn q g k \/ i = IGoOnce q g k) ->
    s_procs s' = upd (upd (s_procs s) q (mkProc PRun 0 (p_hand qp) c)) p pr' ->
    s_wg s' = (if is_wg N q then S (s_wg s) else s_wg s) -> s_oncew s' = s_oncew s -> moved pr pr' i -> pshape N s p pr d i s'
| sh_once q g k qp pr' :
    i = IGoOnce q g k -> nth_error (s_procs s) q = Some qp -> p_st qp <> PNotStarted ->
    s_procs s' = upd (s_procs s) p pr' -> s_wg s' = s_wg s -> s_oncew s' = S (s_oncew s) -> moved pr pr' i -> pshape N s p pr d i s'.

Ltac plain := eapply sh_plain; [reflexivity|reflexivity|reflexivity|split; [reflexivity|split; [cbn [targets p_pc goto goto_h]; auto with datatypes|reflexivity]]].

Lemma start_procs s N q qp c : s_procs (start s N q qp c) = upd (s_procs s) q (mkProc PRun 0 (p_hand qp) c).
Proof. unfold start. cbv zeta. destruct (is_wg N q); reflexivity. Qed.
Lemma start_wg s N q qp c : s_wg (start s N q qp c) = if is_wg N q then S (s_wg s) else s_wg s.
Proof. unfold start. cbv zeta. destruct (is_wg N q); reflexivity. Qed.
Lemma start_oncew s N q qp c : s_oncew (start s N q qp c) = s_oncew s.
Proof. unfold start. cbv zeta. destruct (is_wg N q); reflexivity. Qed.

Lemma exec_shape N s p pr d i arm s' :
  nth_error (s_procs s) p = Some pr -> p_st pr = PRun -> exec N s p pr d i arm = Some s' -> pshape N s p pr d i s'.
Proof.
  intros Hp Hr H. destruct i; cbn [exec] in H.
  - destruct arm; [discriminate|]. destruct (cancelledb N s (resolve pr g)); [inv H; plain|].
    destruct (nth_error (s_srcs s) src) as [[|v r]|]; inv H; plain.
  - destruct arm.
    + destruct (cancelledb N s (resolve pr g)); inv H; plain.
    + destruct (nth_error (s_chans s) ch) as [c|]; [|discriminate].
      destruct (c_buf c); [destruct (c_closed c); inv H; plain|inv H; plain].
  - destruct (p_hand pr).
    + destruct arm.
      * destruct (cancelledb N s (resolve pr g)); inv H; plain.
      * destruct (nth_error (s_chans s) ch) as [c|]; [|discriminate].
        destruct (c_closed c); [inv H; plain|]. destruct (length (c_buf c) <? c_cap c); inv H; plain.
    + destruct arm; inv H; plain.
  - destruct arm; inv H; plain.
  - destruct arm; [discriminate|]. destruct (nth_error (s_chans s) ch); inv H; plain.
  - destruct arm; inv H; plain.
  - destruct arm; [discriminate|]. destruct (nth_error (s_procs s) q) as [qp|] eqn:Eq; [|inv H; plain].
    destruct (p_st qp) eqn:Est; inv H; try plain.
    eapply (sh_start _ _ _ _ _ _ _ q qp); eauto.
    + intros ->. rewrite Hp in Eq. inv Eq. congruence.
    + exists g. split; [cbn; auto|reflexivity].
    + unfold setp, set_procs; prj. rewrite start_procs. reflexivity.
    + unfold setp, set_procs; prj. apply start_wg.
    + unfold setp, set_procs; prj. apply start_oncew.
    + split; [reflexivity|split; [cbn; auto|reflexivity]].
  - destruct arm; [discriminate|]. destruct (nth_error (s_procs s) q) as [qp|] eqn:Eq; [|inv H; plain].
    destruct (p_st qp) eqn:Est; inv H.
    + eapply (sh_start _ _ _ _ _ _ _ q qp); eauto.
      * intros ->. rewrite Hp in Eq. inv Eq. congruence.
      * exists g. split; [cbn; auto|reflexivity].
      * unfold setp, set_procs; prj. rewrite start_procs. reflexivity.
      * unfold setp, set_procs; prj. apply start_wg.
      * unfold setp, set_procs; prj. apply start_oncew.
      * split; [reflexivity|split; [cbn; auto|reflexivity]].
    + eapply sh_once; eauto; try reflexivity; [congruence|split; [reflexivity|split; [cbn; auto|reflexivity]]].
    + eapply sh_once; eauto; try reflexivity; [congruence|split; [reflexivity|split; [cbn; auto|reflexivity]]].
    + eapply sh_once; eauto; try reflexivity; [congruence|split; [reflexivity|split; [cbn; auto|reflexivity]]].
  - destruct arm.
    + destruct g as [g|]; [|discriminate]. destruct (cancelledb N s (resolve pr g)); inv H; plain.
    + destruct (s_wg s =? 0); inv H; plain.
  - destruct arm; inv H. eapply sh_plain; try reflexivity. split; [reflexivity|split; [|reflexivity]].
    cbn [targets p_pc goto]. destruct (cancelledb N s (resolve pr g)); auto with datatypes.
  - destruct arm; inv H; plain.
  - destruct arm; inv H. eapply sh_exit with (pr' := mkProc PDone (p_pc pr) None (p_ctx pr)); try reflexivity.
    + unfold setp, set_procs, dropped, set_drop; prj. destruct (d_wg d); reflexivity.
    + unfold setp, set_procs, dropped, set_drop; prj. destruct (d_wg d); reflexivity.
    + unfold setp, set_procs, dropped, set_drop; prj. destruct (d_wg d); reflexivity.
Qed.

(* ---- consequences of the static check ---- *)
Lemma wf_net_desc N p d : wf_net N = true -> nth_error (n_procs N) p = Some d -> wf_desc (n_once N) d = true.
Proof.
  unfold wf_net. intros H Hd. apply andb_prop in H as [H _].
  rewrite forallb_forall in H. apply H. eapply nth_error_In; eauto.
Qed.

Lemma wf_desc_target once d i k :
  wf_desc once d = true -> In i (d_prog d) -> In k (targets i) -> k < length (d_prog d).
Proof.
  unfold wf_desc. intros H Hi Hk. apply andb_prop in H as [H _]. apply andb_prop in H as [_ H].
  rewrite forallb_forall in H. specialize (H i Hi). apply andb_prop in H as [H _].
  rewrite forallb_forall in H. specialize (H k Hk). now apply Nat.ltb_lt in H.
Qed.

Lemma wf_desc_once once d q g k : wf_desc once d = true -> In (IGoOnce q g k) (d_prog d) -> q = once.
Proof.
  unfold wf_desc. intros H Hi. apply andb_prop in H as [H _]. apply andb_prop in H as [_ H].
  rewrite forallb_forall in H. specialize (H _ Hi). apply andb_prop in H as [_ H]. now apply Nat.eqb_eq in H.
Qed.

Lemma wf_desc_nonempty once d : wf_desc once d = true -> 0 < length (d_prog d).
Proof.
  unfold wf_desc. intros H. apply andb_prop in H as [H _]. apply andb_prop in H as [H _]. now apply Nat.ltb_lt in H.
Qed.

Lemma wf_desc_wg once d i : wf_desc once d = true -> d_wg d = true -> In i (d_prog d) -> unguarded_wait i = false.
Proof.
  unfold wf_desc. intros H Hw Hi. apply andb_prop in H as [_ H]. rewrite Hw in H. simpl in H.
  rewrite forallb_forall in H. specialize (H _ Hi). now destruct (unguarded_wait i).
Qed.

(* ---- the invariant of every network ---- *)
Record ginv (N : net) (s : state) : Prop := {
  gi_wg : s_wg s = wgc (s_procs s) (n_procs N);
  gi_once : 0 < s_oncew s -> exists pr, nth_error (s_procs s) (n_once N) = Some pr /\ p_st pr <> PNotStarted;
  gi_pc : forall p pr d, nth_error (s_procs s) p = Some pr -> nth_error (n_procs N) p = Some d -> p_st pr = PRun ->
                         p_pc pr < length (d_prog d);
  gi_ab : forall p pr d, nth_error (s_procs s) p = Some pr -> nth_error (n_procs N) p = Some d -> p_st pr = PAbandoned ->
                         d_user d = true;
  gi_len : length (s_procs s) = length (n_procs N)
}.

Lemma nth_error_upd {A} (l : list A) i j x y :
  nth_error (upd l i y) j = Some x -> (i = j /\ x = y) \/ (i <> j /\ nth_error l j = Some x).
Proof.
  intros H. destruct (Nat.eq_dec i j) as [->|Hn].
  - left. split; auto. destruct (nth_error l j) eqn:E.
    + rewrite (nth_error_upd_same _ _ _ y E) in H. congruence.
    + rewrite (upd_none _ _ _ E) in H. congruence.
  - right. split; auto. rewrite nth_error_upd_other in H; auto.
Qed.

Lemma is_wg_desc N q d : nth_error (n_procs N) q = Some d -> is_wg N q = d_wg d.
Proof. unfold is_wg. now intros ->. Qed.

Lemma ginv_exec N s p pr d i s' :
  wf_net N = true -> ginv N s ->
  nth_error (s_procs s) p = Some pr -> nth_error (n_procs N) p = Some d -> p_st pr = PRun ->
  nth_error (d_prog d) (p_pc pr) = Some i ->
  pshape N s p pr d i s' -> ginv N s'.
Proof.
  intros Hwf [I1 I2 I3 I4 I5] Hp Hd Hr Hi Hsh.
  pose proof (wf_net_desc N p d Hwf Hd) as Hwd.
  assert (Hin : In i (d_prog d)) by (eapply nth_error_In; eauto).
  assert (Hrun : runb pr = true) by (unfold runb; now rewrite Hr).
  destruct Hsh as [pr' E1 E2 E3 (M1 & M2 & _) | pr' Ei Est _ E1 E2 E3 | q qp c pr' Hqp Hq Hqs _ _ E1 E2 E3 (M1 & M2 & _) | q g k qp pr' Ei Hq Hqs E1 E2 E3 (M1 & M2 & _)].
  - (* plain *)
    split.
    + rewrite E1, E2, I1. pose proof (wgc_upd _ _ _ _ pr' _ Hp Hd) as W.
      assert (runb pr' = true) by (unfold runb; now rewrite M1). rewrite Hrun, H in W. lia.
    + rewrite E1, E3. intros Ho. destruct (I2 Ho) as (po & Hpo & Hns).
      destruct (Nat.eq_dec p (n_once N)) as [->|Hn].
      * exists pr'. split; [eapply nth_error_upd_same; eauto|congruence].
      * exists po. split; [rewrite nth_error_upd_other; auto|auto].
    + rewrite E1. intros p0 pr0 d0 H0 Hd0 Hr0. apply nth_error_upd in H0 as [[-> ->]|[Hn H0]].
      * rewrite Hd in Hd0. inv Hd0. eapply wf_desc_target; eauto.
      * eapply I3; eauto.
    + rewrite E1. intros p0 pr0 d0 H0 Hd0 Ha0. apply nth_error_upd in H0 as [[-> ->]|[Hn H0]]; [congruence|eapply I4; eauto].
    + rewrite E1, ?length_upd. exact I5.
  - (* exit *)
    split.
    + rewrite E1, E2, I1. pose proof (wgc_upd _ _ _ _ pr' _ Hp Hd) as W.
      assert (runb pr' = false) by (unfold runb; now rewrite Est). rewrite Hrun, H in W.
      destruct (d_wg d); simpl in W; lia.
    + rewrite E1, E3. intros Ho. destruct (I2 Ho) as (po & Hpo & Hns).
      destruct (Nat.eq_dec p (n_once N)) as [->|Hn].
      * exists pr'. split; [eapply nth_error_upd_same; eauto|congruence].
      * exists po. split; [rewrite nth_error_upd_other; auto|auto].
    + rewrite E1. intros p0 pr0 d0 H0 Hd0 Hr0. apply nth_error_upd in H0 as [[-> ->]|[Hn H0]]; [congruence|eapply I3; eauto].
    + rewrite E1. intros p0 pr0 d0 H0 Hd0 Ha0. apply nth_error_upd in H0 as [[-> ->]|[Hn H0]]; [congruence|eapply I4; eauto].
    + rewrite E1, ?length_upd. exact I5.
  - (* start q *)
    assert (Hp2 : nth_error (upd (s_procs s) q (mkProc PRun 0 (p_hand qp) c)) p = Some pr) by (rewrite nth_error_upd_other; auto).
    split.
    + rewrite E1, E2, I1.
      assert (runb pr' = true) by (unfold runb; now rewrite M1).
      pose proof (wgc_upd _ (n_procs N) _ _ pr' _ Hp2 Hd) as W. rewrite Hrun, H in W.
      destruct (nth_error (n_procs N) q) as [dq|] eqn:Edq.
      * pose proof (wgc_upd _ _ _ _ (mkProc PRun 0 (p_hand qp) c) _ Hq Edq) as W2.
        unfold runb in W2 at 1 2. rewrite Hqs in W2. cbn [p_st] in W2. rewrite (is_wg_desc _ _ _ Edq).
        destruct (d_wg dq); simpl in W2; lia.
      * rewrite (wgc_upd_nodesc _ _ _ _ Edq) in W. unfold is_wg. rewrite Edq. lia.
    + rewrite E1, E3. intros Ho. destruct (I2 Ho) as (po & Hpo & Hns).
      destruct (Nat.eq_dec p (n_once N)) as [->|Hn].
      * exists pr'. split; [eapply nth_error_upd_same; eauto|congruence].
      * rewrite nth_error_upd_other; auto. destruct (Nat.eq_dec q (n_once N)) as [->|Hn2].
        -- eexists. split; [eapply nth_error_upd_same; eauto|cbn; congruence].
        -- exists po. rewrite nth_error_upd_other; auto.
    + rewrite E1. intros p0 pr0 d0 H0 Hd0 Hr0. apply nth_error_upd in H0 as [[-> ->]|[Hn H0]].
      * rewrite Hd in Hd0. inv Hd0. eapply wf_desc_target; eauto.
      * apply nth_error_upd in H0 as [[-> ->]|[Hn2 H0]]; [|eapply I3; eauto].
        cbn [p_pc]. eapply wf_desc_nonempty, wf_net_desc; eauto.
    + rewrite E1. intros p0 pr0 d0 H0 Hd0 Ha0. apply nth_error_upd in H0 as [[-> ->]|[Hn H0]]; [congruence|].
      apply nth_error_upd in H0 as [[-> ->]|[Hn2 H0]]; [discriminate|eapply I4; eauto].
    + rewrite E1, ?length_upd. exact I5.
  - (* a goroutine parks in once.Do *)
    subst i. pose proof (wf_desc_once _ _ _ _ _ Hwd Hin) as ->.
    split.
    + rewrite E1, E2, I1. pose proof (wgc_upd _ _ _ _ pr' _ Hp Hd) as W.
      assert (runb pr' = true) by (unfold runb; now rewrite M1). rewrite Hrun, H in W. lia.
    + rewrite E1. intros _. destruct (Nat.eq_dec p (n_once N)) as [->|Hn].
      * exists pr'. split; [eapply nth_error_upd_same; eauto|congruence].
      * exists qp. split; [rewrite nth_error_upd_other; auto|auto].
    + rewrite E1. intros p0 pr0 d0 H0 Hd0 Hr0. apply nth_error_upd in H0 as [[-> ->]|[Hn H0]].
      * rewrite Hd in Hd0. inv Hd0. eapply wf_desc_target; eauto.
      * eapply I3; eauto.
    + rewrite E1. intros p0 pr0 d0 H0 Hd0 Ha0. apply nth_error_upd in H0 as [[-> ->]|[Hn H0]]; [congruence|eapply I4; eauto].
    + rewrite E1, ?length_upd. exact I5.
Qed.

Lemma ginv_step N s l s' : wf_net N = true -> ginv N s -> step N s l = Some s' -> ginv N s'.
Proof.
  intros Hwf I H. destruct l; cbn [step] in H.
  - destruct (cur_instr N s p) as [[[pr d] i]|] eqn:Ec; [|discriminate].
    apply cur_instr_inv in Ec as (Hp & Hd & Hr & Hi).
    eapply ginv_exec; eauto. eapply exec_shape; eauto.
  - destruct (p =? q) eqn:Epq; [discriminate|]. apply Nat.eqb_neq in Epq.
    destruct (cur_instr N s p) as [[[pr d] i]|] eqn:Ec; [|discriminate].
    destruct i; try discriminate.
    destruct (cur_instr N s q) as [[[qr dq] iq]|] eqn:Eq; [|discriminate].
    destruct iq; try discriminate.
    apply cur_instr_inv in Ec as (Hp & Hd & Hr & Hi). apply cur_instr_inv in Eq as (Hq & Hdq & Hrq & Hiq).
    destruct (p_hand pr) as [v|]; [|discriminate].
    destruct (nth_error (s_chans s) ch) as [c|]; [|discriminate].
    destruct ((ch =? ch0) && (c_cap c =? 0) && negb (c_closed c)); inv H.
    set (s1 := setp (dropped s (p_hand qr)) p (goto_h pr k_ok None)).
    assert (I1 : ginv N s1).
    { eapply ginv_exec with (p := p) (pr := pr); eauto.
      eapply sh_plain; try reflexivity. split; [reflexivity|split; [cbn; auto|reflexivity]]. }
    eapply ginv_exec with (s := s1) (p := q) (pr := qr); eauto.
    + unfold s1, setp, set_procs; prj. rewrite nth_error_upd_other; auto.
    + eapply sh_plain; try reflexivity. split; [reflexivity|split; [cbn; auto|reflexivity]].
  - destruct ((0 <? s_oncew s) && is_done s (n_once N)); inv H. destruct I as [I1 I2 I3 I4 I5].
    split; auto. unfold set_oncew; prj. intros Ho. apply I2. lia.
  - inv H. destruct I as [I1 I2 I3 I4 I5]. split; auto.
  - inv H. destruct I as [I1 I2 I3 I4 I5]. split; auto.
  - destruct (nth_error (s_procs s) p) as [pr|] eqn:Hp; [|discriminate].
    destruct (nth_error (n_procs N) p) as [d|] eqn:Hd; [|discriminate].
    destruct (d_user d && negb (d_wg d)) eqn:Eu; [|discriminate]. apply andb_prop in Eu as [Eu Ew].
    destruct (p_st pr) eqn:Est; inv H. destruct I as [I1 I2 I3 I4 I5].
    set (pa := mkProc PAbandoned (p_pc pr) (p_hand pr) (p_ctx pr)).
    split; unfold set_stopped, setp, set_procs; prj.
    + rewrite I1. pose proof (wgc_upd _ _ _ _ pa _ Hp Hd) as W. destruct (d_wg d); [discriminate|]. simpl in W. lia.
    + intros Ho. destruct (I2 Ho) as (po & Hpo & Hns). destruct (Nat.eq_dec p (n_once N)) as [->|Hn].
      * exists pa. split; [eapply nth_error_upd_same; eauto|discriminate].
      * exists po. rewrite nth_error_upd_other; auto.
    + intros p0 pr0 d0 H0 Hd0 Hr0. apply nth_error_upd in H0 as [[-> ->]|[Hn H0]]; [discriminate|eapply I3; eauto].
    + intros p0 pr0 d0 H0 Hd0 Ha0. apply nth_error_upd in H0 as [[-> ->]|[Hn H0]]; [congruence|eapply I4; eauto].
    + rewrite length_upd. exact I5.
Qed.

Lemma ginv_reach N s0 s : wf_net N = true -> ginv N s0 -> reach N s0 s -> ginv N s.
Proof. intros Hwf I0 R. induction R; auto. eapply ginv_step; eauto. Qed.

(* the guard of whatever select a running goroutine is blocked in is cancelled *)
Definition guards_cancelled (N : net) (s : state) : Prop :=
  forall p pr d i g, cur_instr N s p = Some (pr, d, i) -> In g (instr_guards i) -> cancelledb N s (resolve pr g) = true.

(* C04_quiescent_all_done, generic form *)
Theorem quiescent_all_done N s :
  wf_net N = true -> ginv N s -> quiescent N s -> guards_cancelled N s ->
  (forall p pr, nth_error (s_procs s) p = Some pr -> p_st pr <> PRun) /\ s_oncew s = 0.
Proof.
  intros Hwf I Q G.
  (* 1: a running goroutine can only be at an unguarded wg.Wait *)
  assert (S1 : forall p pr d i, cur_instr N s p = Some (pr, d, i) -> unguarded_wait i = true).
  { intros p pr d i Hc. destruct (unguarded_wait i) eqn:E; auto.
    destruct (ctx_guarded_enabled N s p pr d i Hc E) as (arm & s' & Hs); [intros g Hg; eapply G; eauto|].
    rewrite (Q (LStep p arm) eq_refl) in Hs. discriminate. }
  (* 2: members of the wait group never wait unguarded, so none is running and the counter is zero *)
  assert (S2 : s_wg s = 0).
  { rewrite (gi_wg _ _ I). apply wgc_zero. intros p pr d Hp Hd Hw. unfold runb. destruct (p_st pr) eqn:Est; auto.
    pose proof (gi_pc _ _ I p pr d Hp Hd Est) as Hpc.
    destruct (nth_error (d_prog d) (p_pc pr)) as [i|] eqn:Ei; [|apply nth_error_None in Ei; lia].
    assert (Hc : cur_instr N s p = Some (pr, d, i)) by (unfold cur_instr; now rewrite Hp, Hd, Est, Ei).
    pose proof (S1 _ _ _ _ Hc) as U.
    rewrite (wf_desc_wg _ _ _ (wf_net_desc _ _ _ Hwf Hd) Hw (nth_error_In _ _ Ei)) in U. discriminate. }
  (* 3: hence nobody is running *)
  assert (S3 : forall p pr, nth_error (s_procs s) p = Some pr -> p_st pr <> PRun).
  { intros p pr Hp Est.
    destruct (nth_error (n_procs N) p) as [d|] eqn:Hd.
    - pose proof (gi_pc _ _ I p pr d Hp Hd Est) as Hpc.
      destruct (nth_error (d_prog d) (p_pc pr)) as [i|] eqn:Ei; [|apply nth_error_None in Ei; lia].
      assert (Hc : cur_instr N s p = Some (pr, d, i)) by (unfold cur_instr; now rewrite Hp, Hd, Est, Ei).
      pose proof (S1 _ _ _ _ Hc) as U. destruct i; try discriminate. destruct g; try discriminate.
      destruct (wgwait_enabled N s p pr d k Hc S2) as (s' & Hs). rewrite (Q (LStep p false) eq_refl) in Hs. discriminate.
    - apply nth_error_None in Hd. rewrite <- (gi_len _ _ I) in Hd.
      assert (p < length (s_procs s)) by (apply nth_error_Some; congruence). lia. }
  split; [exact S3|].
  destruct (s_oncew s) as [|k] eqn:Eo; auto. exfalso.
  destruct (gi_once _ _ I) as (po & Hpo & Hns); [lia|].
  assert (Hd : is_done s (n_once N) = true).
  { unfold is_done. rewrite Hpo. destruct (p_st po) eqn:Est; auto.
    - exfalso. eapply S3; eauto.
    - unfold wf_net in Hwf. apply andb_prop in Hwf as [_ Hu].
      destruct (nth_error (n_procs N) (n_once N)) as [d|] eqn:Ed.
      + rewrite (gi_ab _ _ I _ _ _ Hpo Ed Est) in Hu. discriminate.
      + apply nth_error_None in Ed. rewrite <- (gi_len _ _ I) in Ed.
        assert (n_once N < length (s_procs s)) by (apply nth_error_Some; congruence). lia. }
  pose proof (Q LOnceRel eq_refl) as Hs. cbn [step] in Hs. rewrite Eo, Hd in Hs. discriminate.
Qed.

(* ---- (ii) generic: every context a goroutine ever selects on lies under a root r ---- *)
Definition gd_under (N : net) (r : cid) (g : gd) : bool := match g with GOwn => true | GId c => n_desc N r c end.

Definition static_under (N : net) (r : cid) : bool :=
  forallb (fun d => forallb (fun i => forallb (gd_under N r) (instr_ctxs i)) (d_prog d)) (n_procs N).

Definition ctx_under (N : net) (r : cid) (s : state) : Prop :=
  forall p pr, nth_error (s_procs s) p = Some pr -> p_st pr <> PNotStarted -> n_desc N r (p_ctx pr) = true.

Lemma static_under_instr N r p d i g :
  static_under N r = true -> nth_error (n_procs N) p = Some d -> In i (d_prog d) -> In g (instr_ctxs i) -> gd_under N r g = true.
Proof.
  unfold static_under. intros H Hd Hi Hg. rewrite forallb_forall in H. specialize (H d (nth_error_In _ _ Hd)).
  rewrite forallb_forall in H. specialize (H i Hi). rewrite forallb_forall in H. exact (H g Hg).
Qed.

Lemma ctx_under_step N r s l s' :
  static_under N r = true -> ctx_under N r s -> step N s l = Some s' -> ctx_under N r s'.
Proof.
  intros Hst U H.
  assert (KEEP : forall p pr pr', nth_error (s_procs s) p = Some pr -> p_st pr <> PNotStarted -> p_ctx pr' = p_ctx pr ->
                 forall ps, (forall q qr, nth_error ps q = Some qr -> p_st qr <> PNotStarted -> n_desc N r (p_ctx qr) = true) ->
                 forall q qr, nth_error (upd ps p pr') q = Some qr -> p_st qr <> PNotStarted -> n_desc N r (p_ctx qr) = true).
  { intros p pr pr' Hp Hs Hc ps Hps q qr Hq Hqs. apply nth_error_upd in Hq as [[-> ->]|[Hn Hq]].
    - rewrite Hc. eapply U; eauto.
    - eapply Hps; eauto. }
  destruct l; cbn [step] in H.
  - destruct (cur_instr N s p) as [[[pr d] i]|] eqn:Ec; [|discriminate].
    apply cur_instr_inv in Ec as (Hp & Hd & Hr & Hi).
    assert (Hns : p_st pr <> PNotStarted) by congruence.
    pose proof (exec_shape _ _ _ _ _ _ _ _ Hp Hr H) as Hsh.
    destruct Hsh as [pr' E1 _ _ (_ & _ & Mc) | pr' _ _ Mc E1 _ _ | q qp c pr' _ Hq _ (g & Hg & ->) _ E1 _ _ (_ & _ & Mc) | q g k qp pr' _ _ _ E1 _ _ (_ & _ & Mc)];
      unfold ctx_under; rewrite E1; try (eapply KEEP; eauto; fail).
    eapply KEEP; eauto. intros q0 qr Hq0 Hqs. apply nth_error_upd in Hq0 as [[-> ->]|[Hn Hq0]]; [|eapply U; eauto].
    cbn [p_ctx]. pose proof (static_under_instr N r p d i g Hst Hd (nth_error_In _ _ Hi) Hg) as Hu.
    destruct g as [|c]; cbn [resolve gd_under] in *; [eapply U; eauto|exact Hu].
  - destruct (p =? q) eqn:Epq; [discriminate|]. apply Nat.eqb_neq in Epq.
    destruct (cur_instr N s p) as [[[pr d] i]|] eqn:Ec; [|discriminate].
    destruct i; try discriminate.
    destruct (cur_instr N s q) as [[[qr dq] iq]|] eqn:Eq; [|discriminate].
    destruct iq; try discriminate.
    apply cur_instr_inv in Ec as (Hp & _ & Hr & _). apply cur_instr_inv in Eq as (Hq & _ & Hrq & _).
    destruct (p_hand pr) as [v|]; [|discriminate].
    destruct (nth_error (s_chans s) ch) as [c|]; [|discriminate].
    destruct ((ch =? ch0) && (c_cap c =? 0) && negb (c_closed c)); inv H.
    unfold ctx_under, setp, set_procs, dropped, set_drop; prj.
    eapply (KEEP q qr); eauto; [congruence|]. eapply (KEEP p pr); eauto. congruence.
  - destruct ((0 <? s_oncew s) && is_done s (n_once N)); inv H. exact U.
  - inv H. exact U.
  - inv H. exact U.
  - destruct (nth_error (s_procs s) p) as [pr|] eqn:Hp; [|discriminate].
    destruct (nth_error (n_procs N) p) as [d|]; [|discriminate].
    destruct (d_user d && negb (d_wg d)); [|discriminate].
    destruct (p_st pr) eqn:Est; inv H. unfold ctx_under, set_stopped, setp, set_procs; prj.
    eapply (KEEP p pr); eauto. congruence.
Qed.

Lemma canc_mono N s l s' c : step N s l = Some s' -> In c (s_canc s) -> In c (s_canc s').
Proof.
  intros H Hc. destruct l; cbn [step] in H.
  - destruct (cur_instr N s p) as [[[pr d] i]|] eqn:Ec; [|discriminate].
    destruct i; cbn [exec] in H;
      repeat match type of H with
             | (if ?b then _ else _) = Some _ => destruct b
             | match ?x with _ => _ end = Some _ => destruct x
             end; try discriminate; inv H; unfold setp, set_procs, dropped, set_drop, set_canc, set_chans, set_srcs, set_deliv, set_oncew, set_wg, start; cbv zeta;
      repeat match goal with |- context [if ?b then _ else _] => destruct b end; prj; auto with datatypes.
  - destruct (p =? q); [discriminate|].
    destruct (cur_instr N s p) as [[[pr d] i]|]; [|discriminate]. destruct i; try discriminate.
    destruct (cur_instr N s q) as [[[qr dq] iq]|]; [|discriminate]. destruct iq; try discriminate.
    destruct (p_hand pr); [|discriminate]. destruct (nth_error (s_chans s) ch); [|discriminate].
    destruct ((ch =? ch0) && (c_cap c0 =? 0) && negb (c_closed c0)); inv H. exact Hc.
  - destruct ((0 <? s_oncew s) && is_done s (n_once N)); inv H. exact Hc.
  - inv H. right. exact Hc.
  - inv H. right. exact Hc.
  - destruct (nth_error (s_procs s) p) as [pr|]; [|discriminate].
    destruct (nth_error (n_procs N) p) as [d|]; [|discriminate].
    destruct (d_user d && negb (d_wg d)); [|discriminate]. destruct (p_st pr); inv H. exact Hc.
Qed.

Lemma under_root_cancelled N r s :
  static_under N r = true -> ctx_under N r s -> In r (s_canc s) -> guards_cancelled N s.
Proof.
  intros Hst U Hr p pr d i g Hc Hg. apply cur_instr_inv in Hc as (Hp & Hd & Hrun & Hi).
  unfold cancelledb. apply existsb_exists. exists r. split; auto.
  pose proof (static_under_instr N r p d i g Hst Hd (nth_error_In _ _ Hi)) as Hu.
  assert (In g (instr_ctxs i)) by (unfold instr_ctxs; apply in_or_app; auto). specialize (Hu H).
  destruct g as [|c]; cbn [resolve gd_under] in *; auto. eapply U; eauto. congruence.
Qed.

(* C04 for any network whose goroutines all live under the context r that the stop action cancels *)
Theorem stop_quiescent_all_done N r s0 s :
  wf_net N = true -> static_under N r = true -> ginv N s0 -> ctx_under N r s0 ->
  reach N s0 s -> In r (s_canc s) -> quiescent N s ->
  (forall p pr, nth_error (s_procs s) p = Some pr -> p_st pr <> PRun) /\ s_oncew s = 0.
Proof.
  intros Hwf Hst I0 U0 R Hr Q.
  assert (ginv N s /\ ctx_under N r s) as [I U].
  { clear Hr Q. induction R as [|s l s' R [I U] H]; auto. split; [eapply ginv_step|eapply ctx_under_step]; eauto. }
  apply (quiescent_all_done N s); auto. eapply under_root_cancelled; eauto.
Qed.

(* ---- the executable quiescence test is sound ---- *)
Lemma first_enabled_none N s ls : first_enabled N s ls = None -> forall l, In l ls -> step N s l = None.
Proof.
  induction ls as [|a ls IH]; intros H l Hl; [destruct Hl|].
  simpl in H. destruct (step N s a) eqn:E; [discriminate|]. destruct Hl as [<-|Hl]; auto.
Qed.

Lemma cur_instr_oob N s p : length (s_procs s) <= p -> cur_instr N s p = None.
Proof. intros H. unfold cur_instr. apply nth_error_None in H. now rewrite H. Qed.

Lemma quiescentb_sound N s : quiescentb N s = true -> quiescent N s.
Proof.
  unfold quiescentb. destruct (first_enabled N s (cand_labels s 0 false)) eqn:E; [discriminate|]. intros _.
  pose proof (first_enabled_none _ _ _ E) as Hn. clear E.
  assert (Hrot : rotate 0 (seq 0 (length (s_procs s))) = seq 0 (length (s_procs s))).
  { unfold rotate. destruct (length (seq 0 (length (s_procs s)))); simpl; [now rewrite app_nil_r|].
    rewrite Nat.sub_diag. simpl. now rewrite app_nil_r. }
  unfold cand_labels in Hn. rewrite Hrot in Hn.
  intros l Hl. destruct l; try discriminate.
  - destruct (Nat.lt_ge_cases p (length (s_procs s))) as [Hp|Hp].
    + apply Hn. destruct arm.
      * apply in_or_app. right. apply in_map_iff. exists p. split; [reflexivity|apply in_seq; lia].
      * apply in_or_app. left. apply in_or_app. left. apply in_map_iff. exists p. split; [reflexivity|apply in_seq; lia].
    + cbn [step]. now rewrite cur_instr_oob.
  - destruct (Nat.lt_ge_cases p (length (s_procs s))) as [Hp|Hp]; [destruct (Nat.lt_ge_cases q (length (s_procs s))) as [Hq|Hq]|].
    + apply Hn. apply in_or_app. left. apply in_or_app. right. apply in_or_app. left.
      apply in_flat_map. exists p. split; [apply in_seq; lia|]. apply in_map_iff. exists q. split; [reflexivity|apply in_seq; lia].
    + cbn [step]. destruct (p =? q); auto. rewrite (cur_instr_oob N s q Hq).
      destruct (cur_instr N s p) as [[[pr d] i]|]; auto. destruct i; auto.
    + cbn [step]. destruct (p =? q); auto. now rewrite (cur_instr_oob N s p Hp).
  - apply Hn. apply in_or_app. left. apply in_or_app. right. apply in_or_app. right. left. reflexivity.
Qed.

Lemma reach_apply_all N s0 ls s :
  fold_left (fun o l => match o with Some s => step N s l | None => None end) ls (Some s0) = Some s -> reach N s0 s.
Proof.
  intros H. assert (G : forall ls s1 s2, reach N s0 s1 ->
     fold_left (fun o l => match o with Some s => step N s l | None => None end) ls (Some s1) = Some s2 -> reach N s0 s2).
  { clear. induction ls as [|l ls IH]; intros s1 s2 R H; simpl in H.
    - inv H. exact R.
    - destruct (step N s1 l) eqn:E.
      + eapply IH; [eapply reach_step; eauto|exact H].
      + exfalso. clear -H. induction ls; simpl in H; [discriminate|auto]. }
  eapply G; [apply reach_init|exact H].
Qed.
