(* C02 — the property-level statements: run = denote for every terminal consumer, skip removal,
   nothing after an error, Reduce = fold, Count = length; characterisation of dedupe; examples. *)
From FunV Require Import Base.Tac Model.IterAlgebra Proofs.IterAlgebra_base Proofs.IterAlgebra_ops
  Proofs.IterAlgebra_main.

Arguments rd : simpl never.
Arguments do_close : simpl never.

Lemma tree_iterspec t : IterSpec (init t) (dvals t) (dfin t) (derrs t).
Proof. apply (tree_spec t). Qed.

(* ------------------------------------------------------------------ run = denote *)

(* ReadOne until the first error yields exactly fst (denote t); the error is dfin t; the next two ReadOne
   calls return io.EOF; Close reports exactly the error ids snd (denote t). For every tree, every input,
   every table; for every fuel above a bound (so the retry loops terminate). *)
Theorem run_eq_denote t : exists n0, forall n, n0 <= n -> exists es,
  run n TReadAll (init t) = Some (mkObs (dvals t) (dfin t) [OEof; OEof] 0 [] es) /\ same_set es (derrs t).
Proof.
  destruct (tree_iterspec t) as (Ht & s' & R & Hc & Hes).
  destruct (drain_of_ReadsI _ _ _ _ R) as [n0 Hn].
  exists (S n0). intros n Hle. exists (errs_of s'). split; [|exact Hes].
  unfold run. rewrite Hn by lia. simpl app.
  destruct n as [|n]; [lia|]. rewrite (closed_step _ Hc n). cbv beta iota. rewrite (closed_step _ Hc n). cbv beta iota.
  rewrite (do_close_closed _ Hc). reflexivity.
Qed.

Theorem run_next_eq_denote t : exists n0, forall n, n0 <= n -> exists es,
  run n TNext (init t) = Some (mkObs (dvals t) OEof [OEof; OEof] 0 [] es) /\ same_set es (derrs t).
Proof.
  destruct (tree_iterspec t) as (Ht & s' & R & Hc & Hes).
  destruct (drain_of_ReadsI _ _ _ _ R) as [n0 Hn].
  exists (S n0). intros n Hle. exists (errs_of s'). split; [|exact Hes].
  unfold run. rewrite Hn by lia. simpl app.
  destruct n as [|n]; [lia|]. rewrite (closed_step _ Hc n). cbv beta iota. rewrite (closed_step _ Hc n). cbv beta iota.
  rewrite (do_close_closed _ Hc). reflexivity.
Qed.

Theorem count_is_length t : exists n0, forall n, n0 <= n -> exists es,
  run n TCount (init t) = Some (mkObs [] OEof [] (Z.of_nat (length (dvals t))) [] es) /\ same_set es (derrs t).
Proof.
  destruct (tree_iterspec t) as (Ht & s' & R & Hc & Hes).
  destruct (drain_of_ReadsI _ _ _ _ R) as [n0 Hn].
  exists n0. intros n Hle. exists (errs_of s'). split; [|exact Hes].
  unfold run. rewrite Hn by lia. cbv beta iota. rewrite (do_close_closed _ Hc). reflexivity.
Qed.

Theorem slice_eq_denote t : exists n0, forall n, n0 <= n -> exists es,
  run n TSlice (init t) = Some (mkObs (dvals t) OEof [] 0 (es ++ ctx_err (dfin t)) es) /\ same_set es (derrs t).
Proof.
  destruct (tree_iterspec t) as (Ht & s' & R & Hc & Hes).
  destruct (drain_of_ReadsI _ _ _ _ R) as [n0 Hn].
  exists n0. intros n Hle. exists (errs_of s'). split; [|exact Hes].
  unfold run. rewrite Hn by lia. cbv beta iota. rewrite (do_close_closed _ Hc). reflexivity.
Qed.

(* ------------------------------------------------------------------ Reduce = fold *)

Lemma reduce_of_ReadsI r s vs o s' : ReadsI s vs o s' ->
  exists n0, forall n k calls v, n0 <= n -> n0 <= k ->
    exists s'', reduce_loop (rd n) r k calls v s = Some (fst (fold_den r calls v vs), snd (fold_den r calls v vs), s'').
Proof.
  induction 1 as [s o s' H Hs|s x sa vs o s' H HR IH].
  - destruct (step_ge _ _ _ H) as [n0 Hn]. exists (S n0). intros n k calls v Hle Hk.
    destruct k as [|k]; [lia|]. simpl. rewrite Hn by lia. exists s'.
    destruct o; simpl in Hs; try tauto; reflexivity.
  - destruct (step_ge _ _ _ H) as [n0 Hn]. destruct IH as [n1 IH].
    exists (S (n0 + n1)). intros n k calls v Hle Hk.
    destruct k as [|k]; [lia|]. simpl. rewrite Hn by lia.
    destruct (r calls x v) eqn:Er; try (eexists; reflexivity).
    + apply IH; lia.
    + apply IH; lia.
Qed.

Theorem reduce_is_fold r t : exists n0, forall n, n0 <= n ->
  run n (TReduce r) (init t) =
  Some (mkObs [] OEof [] (fst (fold_den r 0 0 (dvals t))) (snd (fold_den r 0 0 (dvals t))) []).
Proof.
  destruct (tree_iterspec t) as (Ht & s' & R & Hc & Hes).
  destruct (reduce_of_ReadsI r _ _ _ _ R) as [n0 Hn].
  exists n0. intros n Hle. destruct (Hn n n 0 0%Z Hle Hle) as [s'' E].
  unfold run. rewrite E. reflexivity.
Qed.

(* for a reducer that never fails, this is List.fold_left *)
Lemma fold_den_pure (g : Z -> Z -> Z) l : forall k v,
  fold_den (fun _ x a => OVal (g x a)) k v l = (fold_left (fun a x => g x a) l v, []).
Proof. induction l as [|x l IH]; intros k v; simpl; [reflexivity|]. apply IH. Qed.

Theorem reduce_is_fold_left (g : Z -> Z -> Z) t : exists n0, forall n, n0 <= n ->
  run n (TReduce (fun _ x a => OVal (g x a))) (init t) =
  Some (mkObs [] OEof [] (fold_left (fun a x => g x a) (dvals t) 0%Z) [] []).
Proof.
  destruct (reduce_is_fold (fun _ x a => OVal (g x a)) t) as [n0 H]. exists n0. intros n Hle.
  rewrite (H n Hle), fold_den_pure. reflexivity.
Qed.

(* ------------------------------------------------------------------ Contains *)

Lemma contains_of_ReadsI x s vs o s' : ReadsI s vs o s' ->
  exists n0, forall n k, n0 <= n -> n0 <= k ->
    exists s'', contains_loop (rd n) k x s = Some (existsb (fun v => (v =? x)%Z) vs, s'').
Proof.
  induction 1 as [s o s' H Hs|s v sa vs o s' H HR IH].
  - destruct (step_ge _ _ _ H) as [n0 Hn]. exists (S n0). intros n k Hle Hk.
    destruct k as [|k]; [lia|]. simpl. rewrite Hn by lia. exists s'.
    destruct o; simpl in Hs; try tauto; reflexivity.
  - destruct (step_ge _ _ _ H) as [n0 Hn]. destruct IH as [n1 IH].
    exists (S (n0 + n1)). intros n k Hle Hk.
    destruct k as [|k]; [lia|]. simpl. rewrite Hn by lia.
    destruct (v =? x)%Z; [eexists; reflexivity|]. apply IH; lia.
Qed.

Theorem contains_spec x t : exists n0, forall n, n0 <= n ->
  run n (TContains x) (init t) =
  Some (mkObs [] OEof [] (if existsb (fun v => (v =? x)%Z) (dvals t) then 1 else 0)%Z [] []).
Proof.
  destruct (tree_iterspec t) as (Ht & s' & R & Hc & Hes).
  destruct (contains_of_ReadsI x _ _ _ _ R) as [n0 Hn].
  exists n0. intros n Hle. destruct (Hn n n Hle Hle) as [s'' E].
  unfold run. rewrite E. reflexivity.
Qed.

(* ------------------------------------------------------------------ nothing after an error *)

(* For EVERY iterator state (not only initial ones): once ReadOne has returned anything but a value, the
   iterator is closed, and every later ReadOne returns io.EOF and leaves it unchanged. *)
Theorem after_error_nothing c es h p n o s' :
  rd n (SIter c es h p) = Some (o, s') -> is_val o = false ->
  term o /\ forall m, rd (S m) s' = Some (OEof, s').
Proof.
  intros H Hv. destruct (iter_step_closes _ _ _ _ _ _ _ H Hv) as (Hc & _ & Ht).
  split; [exact Ht|]. intros m. apply closed_step. exact Hc.
Qed.

Lemma init_is_iter t : exists h p, init t = SIter false [] h p.
Proof. destruct t; simpl; unfold iter; eauto. Qed.

(* ------------------------------------------------------------------ a skip removes exactly that element *)

Lemma dvals_transform f t : dvals (Transform f t) = fst (tvals f 0 (dvals t)).
Proof.
  unfold dvals. simpl. destruct (den t) as [[vs fin] es]. simpl.
  destruct (tvals f 0 vs) as [ys [o|]]; [destruct o|]; reflexivity.
Qed.

Lemma tvals_skip_at f : forall l1 k x l2, f (k + length l1) x = OSkip ->
  tvals f k (l1 ++ x :: l2) =
  match tvals f k l1 with
  | (ys, None) => let '(zs, e) := tvals f (S (k + length l1)) l2 in (ys ++ zs, e)
  | r => r
  end.
Proof.
  induction l1 as [|a l1 IH]; intros k x l2 Hf; simpl in *.
  - rewrite Nat.add_0_r in *. rewrite Hf. destruct (tvals f (S k) l2). reflexivity.
  - destruct (f k a) eqn:Ea; try reflexivity.
    + rewrite (IH (S k) x l2) by (rewrite <- Hf; f_equal; lia).
      replace (S k + length l1) with (k + S (length l1)) by lia.
      destruct (tvals f (S k) l1) as [ys [o|]]; [reflexivity|].
      destruct (tvals f (S (k + S (length l1))) l2). reflexivity.
    + rewrite (IH (S k) x l2) by (rewrite <- Hf; f_equal; lia).
      replace (S k + length l1) with (k + S (length l1)) by lia. reflexivity.
Qed.

(* index-dependent user function: the element at which f answers ErrIteratorSkip contributes nothing,
   every other element is processed with its own call index *)
Theorem skip_removes_exactly_one_indexed f t l1 x l2 :
  dvals t = l1 ++ x :: l2 -> f (length l1) x = OSkip -> snd (tvals f 0 l1) = None ->
  dvals (Transform f t) = fst (tvals f 0 l1) ++ fst (tvals f (S (length l1)) l2).
Proof.
  intros Hd Hf Hn. rewrite dvals_transform, Hd, (tvals_skip_at f l1 0 x l2 Hf). simpl.
  destruct (tvals f 0 l1) as [ys e]. simpl in Hn. subst e.
  destruct (tvals f (S (length l1)) l2). reflexivity.
Qed.

Definition pure (g : Z -> out) : ufun := fun _ x => g x.

Lemma tvals_pure_shift g l : forall k k', tvals (pure g) k l = tvals (pure g) k' l.
Proof.
  induction l as [|x l IH]; intros k k'; simpl; [reflexivity|].
  change (pure g k x) with (g x). change (pure g k' x) with (g x).
  destruct (g x); try reflexivity.
  - rewrite (IH (S k) (S k')). reflexivity.
  - apply IH.
Qed.

Lemma tvals_pure_remove g l1 x l2 : g x = OSkip ->
  tvals (pure g) 0 (l1 ++ x :: l2) = tvals (pure g) 0 (l1 ++ l2).
Proof.
  intros Hg. generalize 0 at 1 2. induction l1 as [|a l1 IH]; intros k; simpl.
  - change (pure g k x) with (g x). rewrite Hg. apply tvals_pure_shift.
  - change (pure g k a) with (g a). destruct (g a); try reflexivity.
    + rewrite IH. reflexivity.
    + apply IH.
Qed.

(* the REAL run of Transform(g) over a tree whose values are l1 ++ x :: l2, with g x = ErrIteratorSkip,
   yields exactly what the functional map yields on l1 ++ l2 *)
Theorem skip_removes_exactly_one g t l1 x l2 :
  dvals t = l1 ++ x :: l2 -> g x = OSkip ->
  exists n0, forall n, n0 <= n -> exists fin es,
    run n TReadAll (init (Transform (pure g) t)) =
    Some (mkObs (fst (tvals (pure g) 0 (l1 ++ l2))) fin [OEof; OEof] 0 [] es).
Proof.
  intros Hd Hg. destruct (run_eq_denote (Transform (pure g) t)) as [n0 H]. exists n0. intros n Hle.
  destruct (H n Hle) as (es & E & _). exists (dfin (Transform (pure g) t)), es.
  rewrite E, dvals_transform, Hd, (tvals_pure_remove g l1 x l2 Hg). reflexivity.
Qed.

(* a skip entry in a generator's table likewise contributes nothing *)
Theorem gen_skip_removed pre post : den (Gen (pre ++ OSkip :: post)) = den (Gen (pre ++ post)).
Proof.
  simpl. induction pre as [|o pre IH]; simpl; [reflexivity|].
  destruct o; try reflexivity; [rewrite IH; reflexivity|exact IH].
Qed.

(* ------------------------------------------------------------------ dedupe keeps each value once *)

Lemma existsb_eqb_In x l : existsb (Z.eqb x) l = true <-> In x l.
Proof.
  rewrite existsb_exists. split.
  - intros (y & Hy & E). apply Z.eqb_eq in E. subst. exact Hy.
  - intros H. exists x. split; [exact H|apply Z.eqb_refl].
Qed.

Lemma dedupe_in l : forall seen x, In x (dedupe seen l) <-> In x l /\ ~ In x seen.
Proof.
  induction l as [|a l IH]; intros seen x; simpl; [tauto|].
  destruct (existsb (Z.eqb a) seen) eqn:E.
  - apply existsb_eqb_In in E. rewrite IH. split; [tauto|]. intros [[->|H] Hn]; tauto.
  - assert (Hna : ~ In a seen) by (rewrite <- existsb_eqb_In, E; discriminate).
    simpl. rewrite IH. simpl. split.
    + intros [->|[H Hn]]; tauto.
    + intros [[->|H] Hn]; [tauto|]. destruct (Z.eq_dec a x); [tauto|]. right. tauto.
Qed.

Lemma dedupe_nodup l : forall seen, NoDup (dedupe seen l).
Proof.
  induction l as [|a l IH]; intros seen; simpl; [constructor|].
  destruct (existsb (Z.eqb a) seen); [apply IH|].
  constructor; [|apply IH]. rewrite dedupe_in. simpl. tauto.
Qed.

(* ------------------------------------------------------------------ non-vacuity *)

Local Open Scope Z_scope.

(* the documented reading: [1,(err),3] joined with [7,8] yields [1,7,8] *)
Example ex_join_continues :
  run 60 TReadAll (init (Join (Transform (mk_fun [] [(2, OErr 1)] 1 0) (Slice [1; 2; 3])) [Slice [7; 8]]))
  = Some (mkObs [1; 7; 8] OEof [OEof; OEof] 0 [] []).
Proof. vm_compute. reflexivity. Qed.

(* the failed operand's own Close reports the error, through Uniq/Buffer hooks up to the root *)
Example ex_error_reported :
  run 80 TReadAll (init (Buffer 2 (Uniq (Transform (mk_fun [(2%nat, OErr 3)] [] 2 0) (Slice [4; 4; 5; 6])))))
  = Some (mkObs [8] OEof [OEof; OEof] 0 [] [3; 3]).
Proof. vm_compute. reflexivity. Qed.

Example ex_abort_is_sticky :
  run 60 TReadAll (init (Join (Gen [OVal 1; OAbort; OVal 2]) [Slice [9]]))
  = Some (mkObs [1] OAbort [OEof; OEof] 0 [] []).
Proof. vm_compute. reflexivity. Qed.

Example ex_skip :
  dvals (Transform (mk_fun [(1%nat, OSkip)] [] 1 10) (Slice [1; 2; 3])) = [11; 13].
Proof. reflexivity. Qed.

Example ex_out_of_fuel : run 3 TReadAll (init (Filter (mk_pred [] false) (Slice [1; 2; 3; 4; 5]))) = None.
Proof. vm_compute. reflexivity. Qed.

Example ex_reduce :
  run 60 (TReduce (mk_red [(2%nat, OErr 4)] 2)) (init (Slice [1; 2; 3; 4]))
  = Some (mkObs [] OEof [] 4 [4] []).
Proof. vm_compute. reflexivity. Qed.
