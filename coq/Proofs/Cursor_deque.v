(* Proofs about Model/DequeCursor.v: invariants of the transition system (any number of iterators of the
   four variants, any schedule of pushes/pops at both ends, Close, cancellation and iterator segments). *)
From FunV Require Import Base.Tac Base.ListX Model.QueueCursor Model.DequeCursor Proofs.Cursor_queue Proofs.Cursor_ring.

Arguments upd : simpl never.
Arguments dwake_all : simpl never.

Definition cursor (t : diter) : nat := match dcur t with Some c => c | None => root end.

(* every value ever pushed *)
Definition dpushed (d : deque) : list Z := map (fun k => eitem (dheap d k)) (seq 1 (dnxt d - 1)).

Definition dpc_ok (d : deque) (t : diter) : Prop :=
  match dipc t with
  | DReady | DCalled => True
  | DWoken cap => cap = Some root /\ v_blocking (dvar t) = true
  | DParked cap =>
      cap = Some root /\ get (v_rev (dvar t)) (dheap d (cursor t)) = Some root /\
      dclosed d = false /\ dcancelled t = false /\ v_blocking (dvar t) = true
  | DCrashed => False
  end.

Definition dthr_ok (d : deque) (t : diter) : Prop :=
  cursor t < dnxt d /\ dpc_ok d t /\
  (forall v, In v (dyielded t) -> exists k, 1 <= k < dnxt d /\ eitem (dheap d k) = v).

Definition dinv (s : dstate) : Prop :=
  (exists l, ring (sd s) l) /\ el_ok (sd s) /\ forall i, dthr_ok (sd s) (dits s i).

Inductive dreach (vars : list variant) : dstate -> Prop :=
| dreach0 : dreach vars (ds0 vars)
| dreachS s l : dreach vars s -> dreach vars (fst (dstep s l)).

Definition dwake1 (t : diter) : diter := match dipc t with DParked c => dset_pc t (DWoken c) | _ => t end.

Lemma dwake_all_eq f i : dwake_all f i = dwake1 (f i).
Proof. reflexivity. Qed.

Lemma optnat_eqb_refl a : optnat_eqb a a = true.
Proof. destruct a; simpl; [apply Nat.eqb_refl|reflexivity]. Qed.

Lemma optnat_eqb_eq a b : optnat_eqb a b = true -> a = b.
Proof. destruct a, b; simpl; try discriminate; auto. intros H. apply Nat.eqb_eq in H. congruence. Qed.

Lemma d_ext_refl d : d_ext d d.
Proof. split; auto. Qed.

Lemma dthr_ext_wake d d' t : d_ext d d' -> dthr_ok d t -> dthr_ok d' (dwake1 t).
Proof.
  intros (Hn & Hi) (A & B & C).
  assert (C' : forall v, In v (dyielded t) -> exists k, 1 <= k < dnxt d' /\ eitem (dheap d' k) = v).
  { intros v Hv. destruct (C v Hv) as (k & Hk & E). exists k. split; [lia|]. rewrite Hi by lia. exact E. }
  unfold dwake1, dthr_ok, dpc_ok in *. destruct (dipc t) eqn:E.
  - rewrite E. split; [lia|split; [exact I|exact C']].
  - rewrite E. split; [lia|split; [exact I|exact C']].
  - destruct B as (B1 & _ & _ & _ & B5). unfold cursor in *. simpl. split; [lia|split; [split; assumption|exact C']].
  - rewrite E. split; [lia|split; [exact B|exact C']].
  - contradiction.
Qed.

Lemma dinv0 vars : dinv (ds0 vars).
Proof.
  split; [exists []; apply ring_d0|]. split; [apply el_ok_d0|].
  intros i. unfold dthr_ok, dpc_ok, cursor; simpl. repeat split; auto. intros v [].
Qed.

(* ---------------------------------------------------------------- iterator segments *)

Definition end_result (d : deque) (t : diter) : res :=
  if v_blocking (dvar t)
  then (if dclosed d then RClosed else if dcancelled t then RCtx else RParked)
  else REOF.

Definition call_result_of (d : deque) (t : diter) (n : nat) : res :=
  if Nat.eqb n root then end_result d t else RYield (eitem (dheap d n)).

Lemma drun_iter_eq d f i : drun_iter d f i =
  let t := f i in
  let c := cursor t in
  let rv := v_rev (dvar t) in
  match dipc t with
  | DCalled =>
      if optnat_eqb (get rv (dheap d c)) (Some root) && v_blocking (dvar t) then
        match get rv (dheap d c) with
        | None => (upd f i (dset_pc t DCrashed), EvRes i RPanic)
        | Some _ => wait_loop d f i c (get rv (dheap d c))
        end
      else finish d f i c
  | DWoken captured => wait_loop d f i c captured
  | DReady | DParked _ | DCrashed => (f, EvNone)
  end.
Proof. reflexivity. Qed.

Lemma drun_iter_ok d f i :
  el_ok d -> (forall j, dthr_ok d (f j)) ->
  (forall j, dthr_ok d (fst (drun_iter d f i) j)) /\ (forall j, snd (drun_iter d f i) <> EvRes j RPanic).
Proof.
  intros Hel Hf. destruct (Hf i) as (A & B & C).
  assert (Hu : forall t', dthr_ok d t' -> forall j, dthr_ok d (upd f i t' j)).
  { intros t' Ht' j. destruct (Nat.eq_dec j i) as [->|Hj]; [now rewrite upd_same|rewrite upd_other by assumption; apply Hf]. }
  assert (Hw : forall g, (forall j, dthr_ok d (g j)) -> forall j, dthr_ok d (dwake_all g j)).
  { intros g Hg j. rewrite dwake_all_eq. apply dthr_ext_wake with (d := d); [apply d_ext_refl|apply Hg]. }
  set (c := cursor (f i)) in *.
  destruct (Hel c A) as (n & p & En & Ep & Hn & Hp).
  set (rv := v_rev (dvar (f i))).
  assert (Hg : exists m, get rv (dheap d c) = Some m /\ m < dnxt d).
  { unfold get. destruct rv; eauto. }
  destruct Hg as (m & Eg & Hm).
  (* finish *)
  assert (Hfin : forall g, (forall j, dthr_ok d (g j)) -> dvar (g i) = dvar (f i) -> dyielded (g i) = dyielded (f i) ->
            (forall j, dthr_ok d (fst (finish d g i c) j)) /\ (forall j, snd (finish d g i c) <> EvRes j RPanic)).
  { intros g Hg Hv Hy. unfold finish. rewrite Hv. fold rv. rewrite Eg.
    assert (Hgu : forall t', dthr_ok d t' -> forall j, dthr_ok d (upd g i t' j)).
    { intros t' Ht' j. destruct (Nat.eq_dec j i) as [->|Hj]; [now rewrite upd_same|rewrite upd_other by assumption; apply Hg]. }
    destruct (Nat.eqb_spec m root).
    - split; [|intros j; discriminate]. simpl. apply Hgu. unfold dthr_ok, dpc_ok, cursor; simpl.
      repeat split; auto. rewrite Hy. exact C.
    - split; [|intros j; discriminate]. simpl. apply Hgu. unfold dthr_ok, dpc_ok, cursor; simpl.
      repeat split; auto. intros v Hv'. rewrite Hy in Hv'. apply in_app_or in Hv'. destruct Hv' as [Hv'|[<-|[]]]; [auto|].
      exists m. unfold root in *. split; [lia|reflexivity]. }
  (* the wait loop with a captured value equal to Some root *)
  assert (Hwl : forall cap, cap = Some root -> v_blocking (dvar (f i)) = true ->
            dipc (f i) = DCalled \/ dipc (f i) = DWoken cap ->
            (forall j, dthr_ok d (fst (wait_loop d f i c cap) j)) /\ (forall j, snd (wait_loop d f i c cap) <> EvRes j RPanic)).
  { intros cap -> Hblk Hpc. unfold wait_loop. cbv zeta. fold rv. rewrite Eg.
    set (t' := mkDI (dvar (f i)) (Some c) (dipc (f i)) (dcancelled (f i)) (dyielded (f i))).
    assert (Ht'r : forall p0, dpc_ok d (dset_pc t' p0) -> dthr_ok d (dset_pc t' p0)).
    { intros p0 Hp0. unfold dthr_ok. split; [unfold cursor; simpl; exact A|]. split; [exact Hp0|exact C]. }
    destruct (optnat_eqb (Some root) (Some m)) eqn:Eq.
    - apply optnat_eqb_eq in Eq. inv Eq.
      destruct (dclosed d) eqn:Ecl; [split; [|intros j; discriminate]; simpl; apply Hw, Hu, Ht'r; exact I|].
      destruct (dcancelled (f i)) eqn:Eca; [split; [|intros j; discriminate]; simpl; apply Hw, Hu, Ht'r; exact I|].
      split; [|intros j; discriminate]. simpl. apply Hu, Ht'r. unfold dpc_ok, cursor; simpl. fold rv.
      repeat split; auto.
    - assert (Hg' : forall j, dthr_ok d (upd f i t' j)).
      { apply Hu. unfold dthr_ok. split; [unfold cursor; simpl; exact A|]. split; [|exact C].
        unfold dpc_ok, t'; simpl. destruct Hpc as [Hpc|Hpc]; rewrite Hpc; auto. }
      destruct (Hfin (upd f i t')) as (F1 & F2); auto; try (rewrite upd_same; reflexivity).
      destruct (finish d (upd f i t') i c) as [f' ev]. simpl in *. split; [apply Hw; exact F1|exact F2]. }
  rewrite drun_iter_eq. cbv zeta. fold c. fold rv. rewrite Eg.
  destruct (dipc (f i)) eqn:Epc.
  - split; [exact Hf|intros j; discriminate].
  - destruct (optnat_eqb (Some m) (Some root) && v_blocking (dvar (f i))) eqn:Eb.
    + apply andb_prop in Eb. destruct Eb as (Eb1 & Eb2). apply optnat_eqb_eq in Eb1. inv Eb1.
      apply Hwl; auto.
    + apply Hfin; auto.
  - split; [exact Hf|intros j; discriminate].
  - unfold dpc_ok in B. rewrite Epc in B. destruct B as (-> & Hb). apply Hwl; auto.
  - unfold dpc_ok in B. rewrite Epc in B. contradiction.
Qed.

Lemma finish_ev d f i c : snd (finish d f i c) <> EvPanicOp.
Proof. unfold finish. cbv zeta. destruct (get _ _); [destruct (Nat.eqb _ _)|]; discriminate. Qed.

Lemma wait_loop_ev d f i c cap : snd (wait_loop d f i c cap) <> EvPanicOp.
Proof.
  unfold wait_loop. cbv zeta. destruct (optnat_eqb _ _).
  - destruct (dclosed d); [discriminate|]. destruct (dcancelled (f i)); discriminate.
  - match goal with |- context [finish ?a ?b ?c ?e] => pose proof (finish_ev a b c e) as H; destruct (finish a b c e) end.
    exact H.
Qed.

Lemma drun_iter_ev d f i : snd (drun_iter d f i) <> EvPanicOp.
Proof.
  rewrite drun_iter_eq. cbv zeta. destruct (dipc (f i)); try discriminate.
  - destruct (_ && _); [|apply finish_ev]. destruct (get _ _); [apply wait_loop_ev|discriminate].
  - apply wait_loop_ev.
Qed.

(* ---------------------------------------------------------------- all steps *)

Lemma ring_flag d l b : ring d l -> ring (mkD (dheap d) (dnxt d) b (dlen d)) l.
Proof. intros H. exact H. Qed.

Lemma wake_threads d d' f : d_ext d d' -> (forall i, dthr_ok d (f i)) -> forall i, dthr_ok d' (dwake_all f i).
Proof. intros He Hf i. rewrite dwake_all_eq. eapply dthr_ext_wake; eauto. Qed.

Lemma push_ok s v back : dinv s ->
  dinv (fst (push s v back)) /\ snd (push s v back) <> EvPanicOp /\ forall j, snd (push s v back) <> EvRes j RPanic.
Proof.
  intros ((l & Hr) & Hel & Ht). unfold push, root. destruct (dclosed (sd s)) eqn:Ecl.
  - simpl. split; [split; eauto|split; [discriminate|intros j; discriminate]].
  - destruct back.
    + destruct (push_back_ring _ _ v Hr) as (a & d' & Ea & Ha & Eadd & Hr'). rewrite Ea, Eadd. simpl.
      destruct (add_after_ext _ _ _ _ Eadd Ha Hel) as (He & Hel' & _).
      split; [|split; [discriminate|intros j; discriminate]].
      split; [eauto|]. split; [assumption|]. apply wake_threads with (d := sd s); assumption.
    + destruct (push_front_ring _ _ v Hr) as (d' & Eadd & Hr'). rewrite Eadd. simpl.
      assert (Ha : 0 < dnxt (sd s)) by (destruct Hr as (_ & _ & ? & _); lia).
      destruct (add_after_ext _ _ _ _ Eadd Ha Hel) as (He & Hel' & _).
      split; [|split; [discriminate|intros j; discriminate]].
      split; [eauto|]. split; [assumption|]. apply wake_threads with (d := sd s); assumption.
Qed.

Lemma pop_ok s back : dinv s ->
  dinv (fst (pop s back)) /\ snd (pop s back) <> EvPanicOp /\ forall j, snd (pop s back) <> EvRes j RPanic.
Proof.
  intros ((l & Hr) & Hel & Ht). unfold pop, root. destruct (dclosed (sd s)) eqn:Ecl.
  - simpl. split; [split; eauto|split; [discriminate|intros j; discriminate]].
  - destruct back.
    + destruct (pop_back_ring _ _ Hr Hel) as (P0 & P1).
      destruct (list_snoc_cases l) as [->|(l1 & x & ->)].
      * rewrite (P0 eq_refl). simpl. split; [split; eauto|split; [discriminate|intros j; discriminate]].
      * destruct (P1 l1 x eq_refl) as (Ex & Hx0 & Hx & d' & Eu & Hr'). rewrite Ex.
        destruct (Nat.eqb_spec x 0); [contradiction|]. rewrite Eu. simpl.
        destruct (unlink_ext _ _ _ _ Eu Hx Hel) as (He & Hel' & _).
        split; [|split; [discriminate|intros j; discriminate]].
        split; [eauto|]. split; [assumption|]. apply wake_threads with (d := sd s); assumption.
    + pose proof (pop_front_ring _ _ Hr Hel) as P. destruct l as [|x l'].
      * rewrite P. simpl. split; [split; eauto|split; [discriminate|intros j; discriminate]].
      * destruct P as (Ex & Hx0 & Hx & d' & Eu & Hr'). rewrite Ex.
        destruct (Nat.eqb_spec x 0); [contradiction|]. rewrite Eu. simpl.
        destruct (unlink_ext _ _ _ _ Eu Hx Hel) as (He & Hel' & _).
        split; [|split; [discriminate|intros j; discriminate]].
        split; [eauto|]. split; [assumption|]. apply wake_threads with (d := sd s); assumption.
Qed.

Lemma dstep_ok s l : dinv s ->
  dinv (fst (dstep s l)) /\ snd (dstep s l) <> EvPanicOp /\ forall j, snd (dstep s l) <> EvRes j RPanic.
Proof.
  intros Hi. destruct l as [v|v| | | |i|i|i|v back full|v]; simpl.
  - apply push_ok; assumption.
  - apply push_ok; assumption.
  - apply pop_ok; assumption.
  - apply pop_ok; assumption.
  - destruct Hi as ((l & Hr) & Hel & Ht). split; [|split; [discriminate|intros j; discriminate]].
    split; [exists l; exact Hr|]. split; [exact Hel|]. simpl.
    apply wake_threads with (d := sd s); [split; auto|assumption].
  - destruct Hi as ((l & Hr) & Hel & Ht). split; [|split; [discriminate|intros j; discriminate]].
    split; [eauto|]. split; [assumption|]. simpl. intros j. rewrite dwake_all_eq.
    destruct (Nat.eq_dec j i) as [->|Hj].
    + rewrite upd_same. destruct (Ht i) as (A & B & C). unfold dwake1, dthr_ok, dpc_ok, cursor in *. simpl.
      destruct (dipc (dits s i)) eqn:E; simpl; rewrite ?E; try (split; [exact A|split; [exact B|exact C]]).
      destruct B as (B1 & _ & _ & _ & B5). split; [exact A|split; [split; assumption|exact C]].
    + rewrite upd_other by assumption. apply dthr_ext_wake with (d := sd s); [apply d_ext_refl|apply Ht].
  - destruct Hi as ((l & Hr) & Hel & Ht).
    destruct (dipc (dits s i)) eqn:E; simpl; (split; [|split; [discriminate|intros j; discriminate]]);
      try (split; [eauto|split; assumption]).
    split; [eauto|]. split; [assumption|]. simpl. intros j.
    destruct (Nat.eq_dec j i) as [->|Hj]; [rewrite upd_same|rewrite upd_other by assumption; apply Ht].
    destruct (Ht i) as (A & B & C). split; [exact A|split; [exact I|exact C]].
  - destruct Hi as ((l & Hr) & Hel & Ht).
    pose proof (drun_iter_ok (sd s) (dits s) i Hel Ht) as (H1 & H2).
    destruct (drun_iter (sd s) (dits s) i) as [f ev] eqn:E. simpl in *.
    split; [split; [eauto|split; assumption]|]. split; [|exact H2].
    pose proof (drun_iter_ev (sd s) (dits s) i) as H3. rewrite E in H3. exact H3.
  - apply push_ok. destruct full; [apply pop_ok|]; assumption.
  - destruct Hi as ((l & Hr) & Hel & Ht).
    destruct (dclosed (sd s)); simpl; (split; [|split; [discriminate|intros j; discriminate]]).
    + split; [eauto|split; assumption].
    + split; [eauto|]. split; [assumption|]. simpl. apply wake_threads with (d := sd s); [apply d_ext_refl|assumption].
Qed.

(* Force pushes keep the ring well-formed: evicting at one end and inserting at the other (with the insertion
   point read after the eviction) is a pop followed by a push, each of which preserves `ring`. *)
Lemma force_push_ring s v back full : dinv s ->
  exists l, ring (sd (fst (dstep s (LForcePush v back full)))) l.
Proof. intros Hi. destruct (dstep_ok s (LForcePush v back full) Hi) as ((Hl & _) & _). exact Hl. Qed.

Lemma dreach_inv vars s : dreach vars s -> dinv s.
Proof. induction 1; [apply dinv0|apply dstep_ok; assumption]. Qed.

(* ---------------------------------------------------------------- consequences *)

Lemma d_no_crash s i : dinv s -> dipc (dits s i) <> DCrashed.
Proof. intros (_ & _ & Ht) E. destruct (Ht i) as (_ & B & _). unfold dpc_ok in B. rewrite E in B. exact B. Qed.

Lemma d_yielded_pushed s i v : dinv s -> In v (dyielded (dits s i)) -> In v (dpushed (sd s)).
Proof.
  intros (_ & _ & Ht) Hv. destruct (Ht i) as (_ & _ & C). destruct (C v Hv) as (k & Hk & E).
  unfold dpushed. apply in_map_iff. exists k. split; [assumption|]. apply in_seq. lia.
Qed.

Lemma d_parked_at_end s i cap : dinv s -> dipc (dits s i) = DParked cap ->
  let t := dits s i in
  v_blocking (dvar t) = true /\ get (v_rev (dvar t)) (dheap (sd s) (cursor t)) = Some root /\
  dclosed (sd s) = false /\ dcancelled t = false.
Proof.
  intros (_ & _ & Ht) E. destruct (Ht i) as (_ & B & _). unfold dpc_ok in B. rewrite E in B. simpl. tauto.
Qed.

(* container order as seen by a direction: root, the elements, root *)
Definition order (rv : bool) (l : list nat) : list nat := 0 :: (if rv then rev l else l) ++ [0].

Lemma get_order d l rv c : ring d l -> In c (0 :: l) -> get rv (dheap d c) = next_after c (order rv l).
Proof.
  intros (Hnd & _ & _ & Hc & _) Hin. unfold get, order. destruct rv.
  - apply chain_prev; auto.
    + inv Hnd. apply NoDup_snoc; assumption.
    + destruct Hin as [<-|Hin]; rewrite in_app_iff; simpl; tauto.
  - apply chain_next'; auto.
Qed.

Lemma drun_called d f i n : dipc (f i) = DCalled ->
  get (v_rev (dvar (f i))) (dheap d (cursor (f i))) = Some n ->
  snd (drun_iter d f i) = EvRes i (call_result_of d (f i) n).
Proof.
  intros Ep Eg. rewrite drun_iter_eq. cbv zeta. rewrite Ep, Eg. unfold call_result_of, end_result.
  simpl optnat_eqb. destruct (Nat.eqb_spec n root) as [->|Hn].
  - destruct (v_blocking (dvar (f i))); simpl.
    + unfold wait_loop. cbv zeta. rewrite Eg, optnat_eqb_refl.
      destruct (dclosed d); [reflexivity|]. destruct (dcancelled (f i)); reflexivity.
    + unfold finish. cbv zeta. rewrite Eg. reflexivity.
  - simpl. unfold finish. cbv zeta. rewrite Eg. destruct (Nat.eqb_spec n root); [contradiction|reflexivity].
Qed.

Lemma ddrive_unfold n s i : ddrive (S n) s i =
  match dipc (dits s i) with
  | DParked _ => (s, RParked)
  | DReady | DCrashed => (s, RNothing)
  | _ => let '(s', ev) := dstep s (LDRun i) in
         match ev with EvRes _ r => (s', r) | _ => ddrive n s' i end
  end.
Proof. reflexivity. Qed.

Lemma dcall_step s i n : dipc (dits s i) = DReady ->
  get (v_rev (dvar (dits s i))) (dheap (sd s) (cursor (dits s i))) = Some n ->
  exists s', dqstep s (DCall i) = (s', ObIt (call_result_of (sd s) (dits s i) n)) /\ sd s' = sd s /\
    (v_blocking (dvar (dits s i)) = false -> n <> root ->
       dits s' i = mkDI (dvar (dits s i)) (Some n) DReady (dcancelled (dits s i))
                        (dyielded (dits s i) ++ [eitem (dheap (sd s) n)])).
Proof.
  intros Ep Eg. unfold dqstep. rewrite Ep.
  assert (Hs : dstep s (LDCall i) = (mkDS (sd s) (upd (dits s) i (dset_pc (dits s i) DCalled)), EvNone)).
  { simpl. rewrite Ep. reflexivity. }
  rewrite Hs. cbn [fst]. set (f1 := upd (dits s) i (dset_pc (dits s i) DCalled)).
  assert (F1 : f1 i = dset_pc (dits s i) DCalled) by apply upd_same.
  rewrite ddrive_unfold. cbn [dits]. rewrite F1. cbn [dipc dset_pc].
  assert (R := drun_called (sd s) f1 i n). rewrite F1 in R. specialize (R eq_refl Eg).
  cbn [dstep sd dits]. destruct (drun_iter (sd s) f1 i) as [f2 ev] eqn:E. cbn [snd] in R. subst ev.
  eexists. split; [reflexivity|]. split; [reflexivity|].
  intros Hb Hn. cbn [dits]. rewrite drun_iter_eq in E. cbv zeta in E. rewrite F1 in E. cbn [dipc dset_pc dvar] in E.
  unfold cursor in *. cbn [dcur dset_pc] in E. rewrite Eg, Hb, andb_false_r in E. unfold finish in E. cbv zeta in E.
  rewrite F1 in E. cbn [dvar dset_pc] in E. rewrite Eg in E.
  destruct (Nat.eqb_spec n root); [contradiction|]. inv E. rewrite upd_same. reflexivity.
Qed.

Lemma dcall_result s i l : dinv s -> ring (sd s) l -> dipc (dits s i) = DReady -> In (cursor (dits s i)) (0 :: l) ->
  let t := dits s i in
  exists n, next_after (cursor t) (order (v_rev (dvar t)) l) = Some n /\
            snd (dqstep s (DCall i)) = ObIt (call_result_of (sd s) t n).
Proof.
  intros (_ & Hel & Ht) Hr Ep Hin. cbv zeta.
  destruct (Ht i) as (A & _). destruct (Hel _ A) as (n1 & p1 & En & Epv & _).
  pose proof (get_order (sd s) l (v_rev (dvar (dits s i))) _ Hr Hin) as Hg.
  assert (exists n, get (v_rev (dvar (dits s i))) (dheap (sd s) (cursor (dits s i))) = Some n) as (n & Eg).
  { unfold get. destruct (v_rev _); eauto. }
  exists n. split; [rewrite <- Hg; exact Eg|]. destruct (dcall_step s i n Ep Eg) as (s' & E & _). rewrite E. reflexivity.
Qed.

(* a non-blocking iterator running alone walks the whole chain and then reports EOF *)
Definition dirh (rv : bool) (h : nat -> elem) : nat -> elem := if rv then flip h else h.

Lemma solo_walk rest : forall s i c,
  let t := dits s i in
  dipc t = DReady -> v_blocking (dvar t) = false -> cursor t = c ->
  chain (dirh (v_rev (dvar t)) (dheap (sd s))) c rest 0 -> ~ In 0 rest ->
  dqrun s (repeat (DCall i) (S (length rest))) =
    map (fun k => ObIt (RYield (eitem (dheap (sd s) k)))) rest ++ [ObIt REOF].
Proof.
  induction rest as [|x r IH]; intros s i c t Ep Hb Hc Hch H0; subst t.
  - simpl in Hch. destruct Hch as (A & _).
    assert (Eg : get (v_rev (dvar (dits s i))) (dheap (sd s) (cursor (dits s i))) = Some root).
    { rewrite Hc. unfold get, dirh, flip in *. destruct (v_rev _); simpl in A; exact A. }
    destruct (dcall_step s i root Ep Eg) as (s' & E & _).
    change (repeat (DCall i) (S (length (@nil nat)))) with [DCall i]. cbn [dqrun]. rewrite E.
    unfold call_result_of, end_result. rewrite Hb. reflexivity.
  - simpl in Hch. destruct Hch as (A & _ & C).
    assert (Hx : x <> root) by (intros ->; apply H0; now left).
    assert (Eg : get (v_rev (dvar (dits s i))) (dheap (sd s) (cursor (dits s i))) = Some x).
    { rewrite Hc. unfold get, dirh, flip in *. destruct (v_rev _); simpl in A; exact A. }
    destruct (dcall_step s i x Ep Eg) as (s' & E & Hsd & Hit). specialize (Hit Hb Hx).
    change (repeat (DCall i) (S (length (x :: r)))) with (DCall i :: repeat (DCall i) (S (length r))).
    cbn [dqrun]. rewrite E. unfold call_result_of. destruct (Nat.eqb_spec x root); [contradiction|].
    cbn [map app]. f_equal. rewrite <- Hsd.
    apply (IH s' i x); rewrite ?Hit, ?Hsd; cbn [dipc dvar dcur cursor]; auto.
    intros H. apply H0. now right.
Qed.

Lemma solo_run s i l : ring (sd s) l ->
  let t := dits s i in
  dipc t = DReady -> v_blocking (dvar t) = false -> dcur t = None ->
  dqrun s (repeat (DCall i) (S (length l))) =
    map (fun k => ObIt (RYield (eitem (dheap (sd s) k)))) (if v_rev (dvar t) then rev l else l) ++ [ObIt REOF].
Proof.
  intros (Hnd & _ & _ & Hc & _) t Ep Hb Hcur. subst t. inv Hnd.
  destruct (v_rev (dvar (dits s i))) eqn:Erv.
  - rewrite <- (rev_length l). apply (solo_walk (rev l) s i 0); auto.
    + unfold cursor. rewrite Hcur. reflexivity.
    + rewrite Erv. unfold dirh. apply chain_flip. exact Hc.
    + rewrite <- in_rev. assumption.
  - apply (solo_walk l s i 0); auto.
    + unfold cursor. rewrite Hcur. reflexivity.
    + rewrite Erv. exact Hc.
Qed.

(* pops never touch the iterators' cursors, and pushes never unlink anything: a cursor that is on the ring
   stays on it as long as its own element is not popped *)
Definition live (l : list nat) (t : diter) : Prop := In (cursor t) (0 :: l).

(* ---------------------------------------------------------------- non-vacuity *)

Example ex_deque_schedule :
  dqrun (ds0 [VFwdB; VRev])
    [DPushBack 1; DCall 0; DCall 0; DPushBack 2; DGo 0; DPushFront 3; DCall 1; DCall 1; DCall 1; DCall 1; DClose; DCall 0]%Z =
  [ObAdd true; ObIt (RYield 1); ObIt RParked; ObAdd true; ObIt (RYield 2); ObAdd true;
   ObIt (RYield 2); ObIt (RYield 1); ObIt (RYield 3); ObIt REOF; ObUnit; ObIt RClosed]%Z.
Proof. vm_compute. reflexivity. Qed.

(* the cursor's element is popped while the blocking iterator waits: it stays parked (allowed under
   concurrent removal), never panics, and Close releases it *)
Example ex_deque_orphan :
  dqrun (ds0 [VFwdB]) [DPushBack 1; DCall 0; DCall 0; DPopFront; DGo 0; DPushBack 2; DGo 0; DClose; DGo 0]%Z =
  [ObAdd true; ObIt (RYield 1); ObIt RParked; ObRem (Some 1); ObIt RParked; ObAdd true; ObIt RParked; ObUnit; ObIt RClosed]%Z.
Proof. vm_compute. reflexivity. Qed.

(* ---------------------------------------------------------------- absent removals every cursor stays on the ring *)

Definition is_pop (l : dlabel) : bool :=
  match l with LPopFront | LPopBack => true | LForcePush _ _ full => full | _ => false end.

Inductive dreach_np (vars : list variant) : dstate -> Prop :=
| dnp0 : dreach_np vars (ds0 vars)
| dnpS s l : dreach_np vars s -> is_pop l = false -> dreach_np vars (fst (dstep s l)).

Lemma dreach_np_reach vars s : dreach_np vars s -> dreach vars s.
Proof. induction 1; [constructor|constructor; assumption]. Qed.

Lemma cursor_wake t : cursor (dwake1 t) = cursor t.
Proof. unfold dwake1. destruct (dipc t); reflexivity. Qed.

Lemma next_after_in c xs : forall n, next_after c xs = Some n -> In n xs.
Proof.
  induction xs as [|x xs IH]; intros n; simpl; [discriminate|].
  destruct xs as [|y ys]; [discriminate|]. destruct (Nat.eqb x c).
  - intros E. inv E. right. now left.
  - intros E. right. apply IH. exact E.
Qed.

Lemma order_in rv l n : In n (order rv l) -> In n (0 :: l).
Proof.
  unfold order. simpl. rewrite in_app_iff. simpl. intros [H|[H|[H|[]]]]; auto.
  destruct rv; [apply in_rev in H|]; auto.
Qed.

Lemma finish_cursor d f i c j :
  let c' := cursor (fst (finish d f i c) j) in
  (j <> i /\ c' = cursor (f j)) \/ (j = i /\ (c' = c \/ get (v_rev (dvar (f i))) (dheap d c) = Some c')).
Proof.
  unfold finish. cbv zeta.
  destruct (Nat.eq_dec j i) as [->|Hj]; [right; split; [reflexivity|]|left; split; [assumption|]].
  - destruct (get _ _) as [n|]; [destruct (Nat.eqb n root)|]; cbn [fst]; rewrite upd_same; unfold cursor; simpl; auto.
  - destruct (get _ _) as [n|]; [destruct (Nat.eqb n root)|]; cbn [fst]; rewrite upd_other by assumption; reflexivity.
Qed.

Lemma drun_cursor d f i j :
  let c' := cursor (fst (drun_iter d f i) j) in
  c' = cursor (f j) \/ (j = i /\ get (v_rev (dvar (f i))) (dheap d (cursor (f i))) = Some c').
Proof.
  rewrite drun_iter_eq. cbv zeta.
  assert (Hfin : forall g, g i = f i \/ (dvar (g i) = dvar (f i)) ->
            (forall k, k <> i -> g k = f k) -> dvar (g i) = dvar (f i) ->
            let c' := cursor (fst (finish d g i (cursor (f i))) j) in
            c' = cursor (f j) \/ (j = i /\ get (v_rev (dvar (f i))) (dheap d (cursor (f i))) = Some c')).
  { intros g _ Hg Hv. cbv zeta. destruct (finish_cursor d g i (cursor (f i)) j) as [(Hj & E)|(-> & [E|E])].
    - left. rewrite E, Hg by assumption. reflexivity.
    - left. exact E.
    - right. split; [reflexivity|]. rewrite <- Hv. exact E. }
  assert (Hwl : forall cap,
            let c' := cursor (fst (wait_loop d f i (cursor (f i)) cap) j) in
            c' = cursor (f j) \/ (j = i /\ get (v_rev (dvar (f i))) (dheap d (cursor (f i))) = Some c')).
  { intros cap. unfold wait_loop. cbv zeta.
    set (t' := mkDI (dvar (f i)) (Some (cursor (f i))) (dipc (f i)) (dcancelled (f i)) (dyielded (f i))).
    assert (Hsame : forall p k, cursor (upd f i (dset_pc t' p) k) = cursor (f k)).
    { intros p k. destruct (Nat.eq_dec k i) as [->|Hk]; [rewrite upd_same; reflexivity|rewrite upd_other by assumption; reflexivity]. }
    destruct (optnat_eqb _ _).
    - destruct (dclosed d); [left; cbn [fst]; rewrite dwake_all_eq, cursor_wake; apply Hsame|].
      destruct (dcancelled (f i)); [left; cbn [fst]; rewrite dwake_all_eq, cursor_wake; apply Hsame|].
      left. cbn [fst]. apply Hsame.
    - pose proof (Hfin (upd f i t')) as H. cbv zeta in H.
      destruct (finish d (upd f i t') i (cursor (f i))) as [f' ev] eqn:E. cbn [fst] in *.
      rewrite dwake_all_eq, cursor_wake. apply H.
      + right. rewrite upd_same. reflexivity.
      + intros k Hk. rewrite upd_other by assumption. reflexivity.
      + rewrite upd_same. reflexivity. }
  destruct (dipc (f i)); try (left; reflexivity).
  - destruct (_ && _).
    + destruct (get _ _) eqn:Eg; [|left; cbn [fst]; destruct (Nat.eq_dec j i) as [->|Hj];
        [rewrite upd_same; reflexivity|rewrite upd_other by assumption; reflexivity]].
      apply Hwl.
    + apply (Hfin f); auto.
  - apply Hwl.
Qed.

Lemma np_live vars s : dreach_np vars s -> exists l, ring (sd s) l /\ forall i, live l (dits s i).
Proof.
  induction 1 as [|s lab Hreach (l & Hr & Hl) Hnp].
  - exists []. split; [apply ring_d0|]. intros i. unfold live, cursor; simpl. auto.
  - pose proof (dreach_inv _ _ (dreach_np_reach _ _ Hreach)) as (_ & Hel & Ht).
    assert (Hpush : forall v back, exists l', ring (sd (fst (push s v back))) l' /\
               forall i, live l' (dits (fst (push s v back)) i)).
    { intros v back. unfold push, root. destruct (dclosed (sd s)); [exists l; simpl; auto|]. destruct back.
      - destruct (push_back_ring _ _ v Hr) as (a & d' & Ea & Ha & Eadd & Hr'). rewrite Ea, Eadd. simpl.
        eexists. split; [exact Hr'|]. intros i. unfold live. rewrite dwake_all_eq, cursor_wake.
        destruct (Hl i) as [H|H]; [left; exact H|right; rewrite in_app_iff; tauto].
      - destruct (push_front_ring _ _ v Hr) as (d' & Eadd & Hr'). rewrite Eadd. simpl.
        eexists. split; [exact Hr'|]. intros i. unfold live. rewrite dwake_all_eq, cursor_wake.
        destruct (Hl i) as [H|H]; [left; exact H|right; right; exact H]. }
    destruct lab as [v|v| | | |i|i|i|v back full|v]; try discriminate; simpl.
    + apply Hpush.
    + apply Hpush.
    + exists l. split; [exact Hr|]. intros i. unfold live. rewrite dwake_all_eq, cursor_wake. apply Hl.
    + exists l. split; [exact Hr|]. intros j. unfold live. rewrite dwake_all_eq, cursor_wake.
      destruct (Nat.eq_dec j i) as [->|Hj]; [rewrite upd_same|rewrite upd_other by assumption]; apply Hl.
    + exists l. destruct (dipc (dits s i)); simpl; (split; [exact Hr|]); try exact Hl.
      intros j. unfold live. destruct (Nat.eq_dec j i) as [->|Hj]; [rewrite upd_same|rewrite upd_other by assumption]; apply Hl.
    + exists l. pose proof (drun_cursor (sd s) (dits s) i) as Hc.
      destruct (drun_iter (sd s) (dits s) i) as [f ev]. simpl in *. split; [exact Hr|].
      intros j. unfold live. destruct (Hc j) as [E|(-> & E)]; [rewrite E; apply Hl|].
      rewrite (get_order _ _ _ _ Hr (Hl i)) in E. apply next_after_in in E. apply order_in in E. exact E.
    + simpl in Hnp. subst full. apply Hpush.
    + exists l. destruct (dclosed (sd s)); simpl; (split; [exact Hr|]); [exact Hl|].
      intros i. unfold live. rewrite dwake_all_eq, cursor_wake. apply Hl.
Qed.

Lemma np_call_result vars s i : dreach_np vars s -> dipc (dits s i) = DReady ->
  let t := dits s i in
  exists l n, ring (sd s) l /\ next_after (cursor t) (order (v_rev (dvar t)) l) = Some n /\
              snd (dqstep s (DCall i)) = ObIt (call_result_of (sd s) t n).
Proof.
  intros Hnp Ep. destruct (np_live _ _ Hnp) as (l & Hr & Hl).
  pose proof (dreach_inv _ _ (dreach_np_reach _ _ Hnp)) as Hi.
  destruct (dcall_result s i l Hi Hr Ep (Hl i)) as (n & A & B). exists l, n. auto.
Qed.

Lemma np_parked_no_successor vars s i cap : dreach_np vars s -> dipc (dits s i) = DParked cap ->
  let t := dits s i in
  exists l, ring (sd s) l /\ next_after (cursor t) (order (v_rev (dvar t)) l) = Some root /\
            v_blocking (dvar t) = true /\ dclosed (sd s) = false /\ dcancelled t = false.
Proof.
  intros Hnp Ep. destruct (np_live _ _ Hnp) as (l & Hr & Hl).
  pose proof (dreach_inv _ _ (dreach_np_reach _ _ Hnp)) as Hi.
  destruct (d_parked_at_end s i cap Hi Ep) as (A & B & C & D). exists l. split; [exact Hr|].
  rewrite <- (get_order _ _ _ _ Hr (Hl i)). auto.
Qed.

Lemma d_closed_not_parked s i cap : dinv s -> dclosed (sd s) = true -> dipc (dits s i) <> DParked cap.
Proof. intros Hi Hc E. destruct (d_parked_at_end s i cap Hi E) as (_ & _ & C & _). congruence. Qed.
