(* C15 — limitExec under contention: invariant of the net over every reachable state. *)
From FunV Require Import Base.Tac Model.LaunchNet Proofs.Wrappers_lock Proofs.Wrappers_once_net.
Local Open Scope Z_scope.

Section LimitNet.
Variables (n : Z) (val : nat -> Z).
Hypothesis Hn : 0 < n.

(* the program counter of the mutex holder (LIdle if the mutex is free) *)
Definition hpc (s : lstate) : lpc := match l_mtx s with Some h => l_pc s h | None => LIdle end.
(* 1 while an execution of op is in progress (counter not yet bumped) *)
Definition phase (s : lstate) : Z := match hpc s with LRunning _ | LWrote _ => 1 | _ => 0 end.
(* executions whose result has been stored in output *)
Definition completed (s : lstate) : nat := match hpc s with LRunning _ => pred (l_runs s) | _ => l_runs s end.
(* 1 while the holder has executed op but not yet returned *)
Definition pending_ran (s : lstate) : nat := match hpc s with LRunning _ | LWrote _ | LUnlocking _ true => 1%nat | _ => 0%nat end.
(* output's initial zero value, then the value of the k-th execution *)
Definition lastval (k : nat) : Z := match k with O => 0 | _ => val k end.

(* the value clause of a returning / returned call *)
Definition ret_ok (s : lstate) (v : Z) (ran : bool) : Prop :=
  if ran then exists k, (1 <= k)%nat /\ Z.of_nat k <= n /\ v = val k
  else v = val (Z.to_nat n) /\ l_counter s = n.

Definition thread_ok (s : lstate) (t : Z) : Prop :=
  match l_pc s t with
  | LIdle => ~ In t (l_active s) /\ l_mtx s <> Some t
  | LEntry | LWaitLock => In t (l_active s) /\ l_mtx s <> Some t
  | LLocked => In t (l_active s) /\ l_mtx s = Some t
  | LRunning num | LWrote num => In t (l_active s) /\ l_mtx s = Some t /\ num = l_counter s /\ l_counter s < n
  | LUnlocking v ran => In t (l_active s) /\ l_mtx s = Some t /\ ret_ok s v ran
  | LDone v ran => ~ In t (l_active s) /\ l_mtx s <> Some t /\ ret_ok s v ran
  end.

Record linv (s : lstate) : Prop := {
  li_cnt : 0 <= l_counter s <= n;
  li_thr : forall t, thread_ok s t;
  li_nodup : NoDup (l_active s);
  li_runs : Z.of_nat (l_runs s) = l_counter s + phase s;
  li_out : l_output s = lastval (completed s);
  li_calls : l_calls s = (l_rets_ran s + l_rets_cached s + length (l_active s))%nat;
  li_ran : (l_rets_ran s + pending_ran s = l_runs s)%nat;
  li_cached : (0 < l_rets_cached s)%nat -> l_counter s = n
}.

Lemma linv_init : linv linit.
Proof.
  constructor; simpl; try lia.
  - intros t. unfold thread_ok. simpl. split; [tauto|discriminate].
  - constructor.
  - reflexivity.
  - reflexivity.
Qed.

Lemma remove1_in t x l : In x (remove1 t l) <-> In x l /\ x <> t.
Proof.
  unfold remove1. rewrite filter_In. split; intros [A B]; split; auto.
  - apply negb_true_iff, Z.eqb_neq in B. exact B.
  - apply negb_true_iff, Z.eqb_neq. exact B.
Qed.

Lemma remove1_nodup t l : NoDup l -> NoDup (remove1 t l).
Proof. intros. unfold remove1. now apply NoDup_filter. Qed.

Lemma remove1_length t l : NoDup l -> In t l -> S (length (remove1 t l)) = length l.
Proof.
  induction l as [|a l IH]; intros ND Hin; [destruct Hin|].
  inv ND. simpl. destruct (Z.eq_dec a t) as [->|N].
  - rewrite Z.eqb_refl. simpl. f_equal.
    unfold remove1. clear IH Hin. induction l as [|b l IH]; [reflexivity|].
    simpl. destruct (Z.eq_dec b t) as [->|N]; [exfalso; apply H1; now left|].
    apply Z.eqb_neq in N. rewrite N. simpl. f_equal. apply IH.
    + intros X. apply H1. now right.
    + now inv H2.
  - destruct Hin as [->|Hin]; [congruence|]. apply Z.eqb_neq in N. rewrite N. simpl. f_equal. apply IH; assumption.
Qed.


(* mutex untouched, the mover does not hold it: the holder's pc is unchanged *)
Ltac keep_holder t :=
  unfold phase, completed, pending_ran, hpc in *; simpl in *;
  match goal with
  | Hm : l_mtx ?s <> Some t |- _ =>
      destruct (l_mtx s) as [h|] eqn:M; [assert (h <> t) by congruence; rewrite ?upd_other in * by assumption|]
  end.

Ltac others Ithr x :=
  let Hx := fresh "Hx" in
  pose proof (Ithr x) as Hx; unfold thread_ok, ret_ok in Hx |- *; simpl in *;
  destruct (l_pc _ x) eqn:?; repeat match goal with b : bool |- _ => destruct b end; rewrite ?remove1_in; simpl;
  intuition (try congruence; try lia).

Lemma lastval_pos k : (1 <= k)%nat -> lastval k = val k.
Proof. destruct k; [lia|reflexivity]. Qed.

(* once the counter has reached n: no execution is in progress, n executions happened, output is the n-th result *)
Lemma at_limit s : linv s -> l_counter s = n ->
  phase s = 0 /\ Z.of_nat (l_runs s) = n /\ completed s = l_runs s /\ l_output s = val (Z.to_nat n).
Proof.
  intros [Icnt Ithr Ind Iruns Iout Icalls Iran Icached] Cn.
  assert (P : phase s = 0 /\ completed s = l_runs s).
  { unfold phase, completed, hpc. destruct (l_mtx s) as [h|] eqn:M; [|split; reflexivity].
    pose proof (Ithr h) as Hh. unfold thread_ok in Hh. destruct (l_pc s h); try (split; reflexivity); lia. }
  destruct P as [P C]. rewrite P in Iruns. rewrite C in Iout.
  repeat split; try assumption; try lia.
  rewrite Iout. rewrite lastval_pos by lia. f_equal. lia.
Qed.

Ltac holder_is t Hmt Pt :=
  unfold phase, completed, pending_ran, hpc in *; simpl in *;
  rewrite ?Hmt in *; rewrite ?upd_same in *; rewrite ?Pt in *; simpl in *.

Lemma linv_step s l s' : linv s -> lstep_exec n val s l = Some s' -> linv s'.
Proof.
  intros I H. pose proof I as [Icnt Ithr Ind Iruns Iout Icalls Iran Icached].
  destruct l as [t|t|t|t|t|t|t|t|t]; simpl in H;
    pose proof (Ithr t) as Ht; unfold thread_ok in Ht;
    destruct (l_pc s t) eqn:Pt; try discriminate.
  - (* call *)
    inv H. destruct Ht as [Ha Hm]. constructor; simpl; auto; try lia.
    + intros x. unfold thread_ok. simpl. upd_cases x t; [simpl; tauto|]. others Ithr x.
    + constructor; assumption.
    + keep_holder t; assumption.
    + keep_holder t; assumption.
    + keep_holder t; assumption.
  - (* fast path *)
    destruct (l_counter s =? n) eqn:Cn; inv H. apply Z.eqb_eq in Cn. destruct Ht as [Ha Hm].
    destruct (at_limit s I Cn) as (P0 & Rn & Cm & Out).
    constructor; simpl; auto; try lia.
    + intros x. unfold thread_ok. simpl. upd_cases x t.
      * simpl. rewrite remove1_in. unfold ret_ok. simpl. intuition.
      * others Ithr x.
    + now apply remove1_nodup.
    + keep_holder t; assumption.
    + keep_holder t; assumption.
    + pose proof (remove1_length t (l_active s) Ind Ha). lia.
    + keep_holder t; assumption.
  - (* slow path *)
    destruct (l_counter s =? n) eqn:Cn; inv H. destruct Ht as [Ha Hm].
    constructor; simpl; auto; try lia.
    + intros x. unfold thread_ok. simpl. upd_cases x t; [simpl; tauto|]. others Ithr x.
    + keep_holder t; assumption.
    + keep_holder t; assumption.
    + keep_holder t; assumption.
  - (* lock *)
    destruct (l_mtx s) eqn:M; inv H. destruct Ht as [Ha Hm].
    constructor; simpl; auto; try lia.
    + intros x. unfold thread_ok. simpl. upd_cases x t; [simpl; tauto|]. others Ithr x.
    + holder_is t M Pt. assumption.
    + holder_is t M Pt. assumption.
    + holder_is t M Pt. assumption.
  - (* load, below the limit: op starts *)
    destruct (l_counter s <? n) eqn:Cn; inv H. apply Z.ltb_lt in Cn. destruct Ht as [Ha Hm].
    constructor; simpl; auto; try lia.
    + intros x. unfold thread_ok. simpl. upd_cases x t; [simpl; tauto|]. others Ithr x.
    + holder_is t Hm Pt. lia.
    + holder_is t Hm Pt. assumption.
    + holder_is t Hm Pt. lia.
  - (* load, limit reached *)
    destruct (l_counter s <? n) eqn:Cn; inv H. apply Z.ltb_ge in Cn. destruct Ht as [Ha Hm].
    assert (Ce : l_counter s = n) by lia.
    destruct (at_limit s I Ce) as (P0 & Rn & Cm & Out).
    constructor; simpl; auto; try lia.
    + intros x. unfold thread_ok. simpl. upd_cases x t; [simpl; unfold ret_ok; simpl; tauto|]. others Ithr x.
    + holder_is t Hm Pt. assumption.
    + holder_is t Hm Pt. assumption.
    + holder_is t Hm Pt. assumption.
  - (* op returned: output = op() *)
    inv H. destruct Ht as (Ha & Hm & Hnum & Hlt).
    constructor; simpl; auto; try lia.
    + intros x. unfold thread_ok. simpl. upd_cases x t; [simpl; tauto|]. others Ithr x.
    + holder_is t Hm Pt. assumption.
    + holder_is t Hm Pt. symmetry. apply lastval_pos. lia.
    + holder_is t Hm Pt. assumption.
  - (* counter.Store(min(n, num+1)) *)
    inv H. destruct Ht as (Ha & Hm & Hnum & Hlt). subst num.
    assert (Mn : Z.min n (l_counter s + 1) = l_counter s + 1) by lia.
    constructor; simpl; auto; try lia.
    + intros x. unfold thread_ok. simpl. upd_cases x t.
      * simpl. unfold ret_ok. split; [assumption|]. split; [assumption|].
        exists (l_runs s). holder_is t Hm Pt. rewrite Iout. split; [lia|]. split; [lia|]. apply lastval_pos. lia.
      * others Ithr x.
    + holder_is t Hm Pt. lia.
    + holder_is t Hm Pt. assumption.
    + holder_is t Hm Pt. assumption.
  - (* unlock and return *)
    inv H. destruct Ht as (Ha & Hm & Hret).
    constructor; simpl; auto; try lia.
    + intros x. unfold thread_ok. simpl. upd_cases x t.
      * simpl. rewrite remove1_in. unfold ret_ok in *. simpl. intuition; try discriminate.
      * others Ithr x.
    + now apply remove1_nodup.
    + holder_is t Hm Pt. destruct ran; lia.
    + holder_is t Hm Pt. destruct ran; assumption.
    + pose proof (remove1_length t (l_active s) Ind Ha). destruct ran; lia.
    + holder_is t Hm Pt. destruct ran; lia.
    + destruct ran; [assumption|]. intros _. unfold ret_ok in Hret. tauto.
Qed.

Lemma linv_reach s : lreach n val s -> linv s.
Proof. induction 1; eauto using linv_init, linv_step. Qed.

(* Every reachable state, any number of goroutines, any interleaving:
   - op never runs more than n times, and never twice at once (it runs under the mutex);
   - when no call is in progress (quiescence) it has run exactly min(n, calls) times;
   - cached-output invariant: a call that did not run op itself returned the result of the n-th (last) execution,
     and a call that ran op returned the result of its own execution. *)
Theorem limit_net_proof s : lreach n val s ->
  Z.of_nat (l_runs s) <= n /\
  (lquiescent s -> Z.of_nat (l_runs s) = Z.min n (Z.of_nat (l_calls s))) /\
  (forall t v, l_pc s t = LDone v false -> v = val (Z.to_nat n) /\ l_counter s = n) /\
  (forall t v, l_pc s t = LDone v true -> exists k, (1 <= k)%nat /\ Z.of_nat k <= n /\ v = val k) /\
  (forall t1 t2 a b, (l_pc s t1 = LRunning a \/ l_pc s t1 = LWrote a) -> (l_pc s t2 = LRunning b \/ l_pc s t2 = LWrote b) -> t1 = t2).
Proof.
  intros Hr. apply linv_reach in Hr. pose proof Hr as [Icnt Ithr Ind Iruns Iout Icalls Iran Icached].
  assert (Ph : 0 <= phase s <= 1 /\ (phase s = 1 -> l_counter s < n)).
  { unfold phase, hpc. destruct (l_mtx s) as [h|] eqn:M; [|lia].
    pose proof (Ithr h) as Hh. unfold thread_ok in Hh. destruct (l_pc s h); lia. }
  split; [lia|]. split; [|split; [|split]].
  - intros Q. unfold lquiescent in Q.
    assert (M : l_mtx s = None).
    { destruct (l_mtx s) as [h|] eqn:M; [|reflexivity]. exfalso.
      pose proof (Ithr h) as Hh. unfold thread_ok in Hh. rewrite Q in Hh.
      destruct (l_pc s h); simpl in Hh; intuition congruence. }
    unfold phase, pending_ran, hpc in *. rewrite M in *. rewrite Q in Icalls. simpl in Icalls.
    destruct (l_rets_cached s) eqn:RC; [lia|]. assert (l_counter s = n) by (apply Icached; lia). lia.
  - intros t v Pt. pose proof (Ithr t) as Ht. unfold thread_ok in Ht. rewrite Pt in Ht. unfold ret_ok in Ht. tauto.
  - intros t v Pt. pose proof (Ithr t) as Ht. unfold thread_ok in Ht. rewrite Pt in Ht. unfold ret_ok in Ht. tauto.
  - intros t1 t2 a b H1 H2.
    pose proof (Ithr t1) as A. pose proof (Ithr t2) as B. unfold thread_ok in A, B.
    destruct H1 as [H1|H1], H2 as [H2|H2]; rewrite H1 in A; rewrite H2 in B; intuition congruence.
Qed.
End LimitNet.

(* non-vacuity: n = 2, three callers; two run op (under the mutex, one after the other), the third gets the cached result of the second run *)
Definition limit_example_labels : list llabel :=
  [LCall 1; LCall 2; LSlow 1; LSlow 2; LLock 2; LLoadLt 2; LCall 3; LSlow 3; LOpEnd 2; LStore 2; LUnlock 2;
   LLock 1; LLoadLt 1; LOpEnd 1; LStore 1; LUnlock 1; LLock 3; LLoadGe 3; LUnlock 3; LCall 4; LFast 4].
Definition limit_example_state : lstate :=
  match steps (lstep_exec 2 idval) linit limit_example_labels with Some s => s | None => linit end.

Lemma lreach_steps n val ls : forall s s', lreach n val s -> steps (lstep_exec n val) s ls = Some s' -> lreach n val s'.
Proof.
  induction ls as [|l ls IH]; intros s s' Hr H; simpl in H; [now inv H|].
  destruct (lstep_exec n val s l) eqn:E; [|discriminate]. eapply IH; [|exact H]. eapply lreach_step; eauto.
Qed.

Example limit_net_nonvacuous :
  lreach 2 idval limit_example_state /\ lquiescent limit_example_state /\
  l_runs limit_example_state = 2%nat /\ l_calls limit_example_state = 4%nat /\
  l_pc limit_example_state 2 = LDone 1 true /\ l_pc limit_example_state 1 = LDone 2 true /\
  l_pc limit_example_state 3 = LDone 2 false /\ l_pc limit_example_state 4 = LDone 2 false.
Proof.
  split.
  - apply (lreach_steps 2 idval limit_example_labels linit); [apply lreach_init|]. vm_compute. reflexivity.
  - repeat split; vm_compute; reflexivity.
Qed.
