(* Progress and shutdown: in every reachable state with no enabled internal step
   - no dispatch worker is inside dispatchMessage;
   - if the context is live: the distributor is empty, the loop is back at its select, every API call
     has returned and every accepted message has been dispatched (or evicted by a load-shedding
     back-end);
   - if the context has ended: the loop and every worker have called wg.Done (Wait returns).
   The back-end's wake-up discipline enters as the hypothesis `wake_spec`. *)
From FunV Require Import Base.Tac Model.BrokerModel Proofs.Broker_base Proofs.Broker_safety Proofs.Broker_order.

Definition wf_cfg (c : cfg) : Prop := dpol c = PBlock -> dcap c <> Some 0.

Section S.
Variable c : cfg.
Variable wake : state -> nat -> bool.
(* the repaired worker: ErrCurrentOpSkip from Receive makes it take the next item, not return *)
Hypothesis SK : skipstop c = false.

Record InvL (st : state) : Prop := {
  il_must : forall w m r v mu p, wk st w = WBusy m r v mu p -> incl mu (subs st);
  il_ldone : loop st = LDone -> live st = false;
  il_wdone : forall w, wk st w = WDone -> live st = false;
  il_stats : sigbuf c = true -> (forall k, loop st <> LStats k) /\ (forall k, call st k = CStats2 -> sigready st k = true);
  il_park : chanb c = true -> forall w, wk st w <> WParked
}.

Lemma InvL_init : InvL init.
Proof.
  constructor; simpl; intros; try discriminate; try tauto.
  split; intros; discriminate.
Qed.

Lemma del_must_eq : forall s w x, del_must s w = x -> (forall m r v mu p, x <> WBusy m r v mu p) -> w = x.
Proof. destruct w; simpl; intros; subst; auto. exfalso; eapply H0; eauto. Qed.

Lemma InvL_step : forall st e st', InvL st -> step c wake st e = Some st' -> InvL st'.
Proof.
  intros st e st' [M LD WD ST PK] H. step_inv H; ssimpl.
  all: constructor; ssimpl; auto.
  all: try (intros; busy_unsub; eauto; fail).
  all: try (wsolve; fail).
  all: try congruence.
  all: try (intros X; destruct (ST X) as [S1 S2]; split; intros; upd_cases; try congruence; eauto; fail).
  all: try (intros; upd_cases; try congruence; eauto; fail).
  all: try match goal with
       | |- forall w m r v mu p, wk _ w = WBusy m r v mu p -> incl mu (sadd _ _) =>
           intros w0 m0 r0 v0 mu0 p0 E x Hx; apply In_sadd; right; eapply M; eauto
       | |- forall w m r v mu p, del_must _ _ = WBusy m r v mu p -> incl mu (rem _ _) =>
           intros w0 m0 r0 v0 mu0 p0 E x Hx; busy_unsub; apply In_rem in Hx as [Hx Hn]; apply In_rem; split; auto;
           eapply M; eauto
       | |- forall w, del_must _ _ = WDone -> _ =>
           intros w0 E; apply del_must_eq in E; [eauto | intros; discriminate]
       | |- chanb c = true -> forall w, del_must _ _ <> WParked =>
           intros X w0 E; apply del_must_eq in E; [eapply PK; eauto | intros; discriminate]
       end.
  - intros X. destruct (ST eq_refl) as [S1 S2]. split; [congruence|]. intros; upd_cases; auto.
  - intros X. destruct (ST eq_refl) as [S1 S2]. split; [congruence|]. intros; upd_cases; try discriminate; auto.
Qed.

Lemma invl_reach : forall st, reach c wake st -> InvL st.
Proof. induction 1; [apply InvL_init|]. eapply InvL_step; eauto. Qed.

(* every accepted message is done, evicted, still buffered, or being dispatched *)
Definition acc_inv (st : state) : Prop :=
  forall m, In m (acc st) -> In m (done st) \/ In m (evicted st ++ skipped st) \/ In m (dist st)
                             \/ exists w r v mu p, wk st w = WBusy m r v mu p.

Ltac acc_old AC :=
  let m' := fresh "m'" in let Hm := fresh "Hm" in
  intros m' Hm; try (rewrite in_app_iff in Hm; simpl in Hm);
  repeat match goal with Hm : _ \/ _ |- _ => destruct Hm as [Hm|Hm] end; subst; try tauto.

Lemma acc_step : forall st e st', acc_inv st -> step c wake st e = Some st' -> acc_inv st'.
Proof.
  unfold acc_inv. intros st e st' AC H. step_inv H; ssimpl; auto.
  all: intros m' Hm; try (rewrite in_app_iff in Hm; simpl in Hm; destruct Hm as [Hm|[Hm|[]]]; subst).
  all: try (rewrite ?in_app_iff; simpl; tauto).
  all: try (right; right; right; exists w; rewrite upd_same; eauto 8; fail).
  all: destruct (AC _ Hm) as [D|[E|[Di|(w0 & r0 & v0 & mu0 & p0 & Hw)]]]; rewrite ?in_app_iff; simpl; auto.
  all: try (repeat match goal with X : dist _ = _ |- _ => rewrite X in *; simpl in * end;
            rewrite ?in_app_iff in *; simpl in *; intuition (subst; auto); fail).
  all: try (right; right; right; exists w0; rewrite Hw; simpl; eauto 8; fail).
  all: try (right; right; right; exists w0; eauto 8; fail).
  all: try (destruct (Nat.eq_dec w0 w) as [->|Hne];
            [ rewrite Hw in *; try discriminate; winv;
              first [ left; auto; fail | right; right; right; exists w; rewrite upd_same; eauto 8 ]
            | right; right; right; exists w0; rewrite upd_other by auto; eauto 8 ]; fail).
  destruct Di as [->|Di]; auto. right; right; right. exists w. rewrite upd_same; eauto 8.
Qed.

Lemma acc_reach : forall st, reach c wake st -> acc_inv st.
Proof. induction 1; [intros m []|]. eapply acc_step; eauto. Qed.

(* ---------- quiescence *)
Lemma busy_not_quiescent : forall st w m r v mu p, InvL st ->
  wk st w = WBusy m r v mu p -> quiescent c wake st -> False.
Proof.
  intros st w m r v mu p IL Hw Q.
  destruct p as [|s p'].
  - destruct r.
    + destruct (negb (live st) || subset mu v) eqn:E.
      * pose proof (Q (ERangeEnd w) eq_refl) as X. unfold step in X. rewrite Hw, E in X. discriminate.
      * apply orb_false_iff in E as [_ E]. apply subset_false in E as (s & Hs & Hn).
        pose proof (Q (ERangeNext w s) eq_refl) as X. unfold step in X. rewrite Hw in X.
        assert (memb s (subs st) = true) by (apply memb_In; eapply il_must; eauto).
        assert (memb s v = false) by (apply memb_false; auto).
        rewrite H, H0 in X. simpl in X. rewrite orb_true_r in X. discriminate.
    + pose proof (Q (EEnd w) eq_refl) as X. unfold step in X. rewrite Hw in X. discriminate.
  - pose proof (Q (ESend w s) eq_refl) as X. unfold step in X. rewrite Hw in X.
    simpl in X. rewrite Nat.eqb_refl in X. simpl in X.
    destruct (Nat.eqb_spec (bufsz c) 0); [discriminate|].
    destruct (Nat.ltb_spec (length (ch st s)) (bufsz c)); [discriminate|].
    pose proof (Q (ERecv s) eq_refl) as Y. unfold step in Y.
    destruct (ch st s); [simpl in *; lia| discriminate].
Qed.

Hypothesis wake_spec : forall st w, wk st w = WParked -> (dist st <> [] \/ live st = false) -> wake st w = true.

Lemma nw_pos : 0 < nw c.
Proof. unfold nw; lia. Qed.

Lemma quiescent_live : forall st, wf_cfg c -> sigbuf c = true -> reach c wake st ->
  quiescent c wake st -> live st = true ->
  dist st = [] /\ loop st = LIdle /\ subq st = [] /\ unsubq st = [] /\
  (forall k, call st k = CIdle) /\
  (forall w, w < nw c -> wk st w = WIdle \/ wk st w = WParked) /\
  (forall m, In m (acc st) -> In m (done st) \/ In m (evicted st) \/ In m (skipped st)).
Proof.
  intros st WF SB R Q LV.
  pose proof (invl_reach st R) as IL. pose proof (invo_reach c wake st R) as IO. pose proof (acc_reach st R) as AC.
  assert (WK : forall w, w < nw c -> wk st w = WIdle \/ wk st w = WParked).
  { intros w Hw. destruct (wk st w) eqn:E; auto.
    - exfalso; eapply busy_not_quiescent; eauto.
    - apply (il_wdone _ IL) in E. congruence. }
  assert (D : dist st = []).
  { destruct (dist st) as [|m d] eqn:E; auto. exfalso.
    destruct (WK 0 nw_pos) as [W0|W0].
    - destruct (chanb c) eqn:CB; [rewrite (io_chan _ _ IO CB) in E; discriminate|].
      destruct (Nat.ltb_spec 0 (nw c)); [|pose proof nw_pos; lia].
      destruct (passes (outmod c) m) eqn:PO.
      + pose proof (Q (ETake 0) eq_refl) as X. unfold step in X. rewrite W0, E, CB, PO in X.
        destruct (Nat.ltb_spec 0 (nw c)); [discriminate|lia].
      + pose proof (Q (ESkip 0) eq_refl) as X. unfold step in X. rewrite W0, E, CB, PO in X.
        destruct (Nat.ltb_spec 0 (nw c)); [discriminate|lia].
    - pose proof (Q (EWake 0) eq_refl) as X. unfold step in X. rewrite W0 in X.
      destruct (Nat.ltb_spec 0 (nw c)); [|pose proof nw_pos; lia].
      rewrite wake_spec in X; auto; [discriminate|]. left; rewrite E; discriminate. }
  assert (L : loop st = LIdle).
  { destruct (loop st) as [|m|k|] eqn:E; auto; exfalso.
    - destruct (passes (inmod c) m) eqn:PI;
        [|pose proof (Q ELoopFilter eq_refl) as X; unfold step in X; rewrite E, PI in X; discriminate].
      destruct (chanb c) eqn:CB.
      + destruct (WK 0 nw_pos) as [W0|W0]; [|eapply il_park; eauto].
        destruct (passes (outmod c) m) eqn:PO.
        * pose proof (Q (ETake 0) eq_refl) as X. unfold step in X. rewrite W0, E, CB, PI, PO in X.
          destruct (Nat.ltb_spec 0 (nw c)); [discriminate|pose proof nw_pos; lia].
        * pose proof (Q (ESkip 0) eq_refl) as X. unfold step in X. rewrite W0, E, CB, PI, PO in X.
          destruct (Nat.ltb_spec 0 (nw c)); [discriminate|pose proof nw_pos; lia].
      + pose proof (Q ELoopPush eq_refl) as X. unfold step in X. rewrite CB, E, D, PI in X.
        unfold room in X. unfold wf_cfg in WF. simpl in X.
        destruct (dcap c) as [k|] eqn:DC; [|discriminate].
        destruct k; [|discriminate]. simpl in X.
        destruct (dpol c); try discriminate. apply WF; auto.
    - destruct (il_stats _ IL SB) as [S1 _]. eapply S1; eauto.
    - apply (il_ldone _ IL) in E. congruence. }
  assert (SQ : subq st = []).
  { destruct (subq st) eqn:E; auto. pose proof (Q ELoopSub eq_refl) as X. unfold step in X. rewrite L, E in X. discriminate. }
  assert (UQ : unsubq st = []).
  { destruct (unsubq st) eqn:E; auto. pose proof (Q ELoopUnsub eq_refl) as X. unfold step in X. rewrite L, E in X. discriminate. }
  repeat split; auto.
  - intros k. destruct (call st k) eqn:E; auto; exfalso.
    + pose proof (Q (EPub k) eq_refl) as X. unfold step in X. rewrite E, L in X. discriminate.
    + pose proof (Q (ESubSend k) eq_refl) as X. unfold step in X. rewrite E, L, SQ in X.
      destruct (Nat.eqb_spec (bufsz c) 0); [discriminate|]. simpl in X.
      destruct (Nat.ltb_spec 0 (bufsz c)); [discriminate|lia].
    + pose proof (Q (EUnsubSend k) eq_refl) as X. unfold step in X. rewrite E, L, UQ in X.
      destruct (Nat.eqb_spec (bufsz c) 0); [discriminate|]. simpl in X.
      destruct (Nat.ltb_spec 0 (bufsz c)); [discriminate|lia].
    + pose proof (Q (EStats1 k) eq_refl) as X. unfold step in X. rewrite E, L, SB in X. discriminate.
    + pose proof (Q (EStats2 k) eq_refl) as X. unfold step in X. rewrite E, SB in X.
      destruct (il_stats _ IL SB) as [_ S2]. rewrite (S2 _ E) in X. discriminate.
  - intros m Hm. destruct (AC m Hm) as [?|[G|[Di|(w & r & v & mu & p & Hw)]]]; auto.
    + apply in_app_or in G. tauto.
    + rewrite D in Di. destruct Di.
    + exfalso. eapply busy_not_quiescent; eauto.
Qed.

(* Broker.Wait returns *)
Lemma quiescent_dead : forall st, sigbuf c = true -> reach c wake st ->
  quiescent c wake st -> live st = false -> all_done c st = true.
Proof.
  intros st SB R Q LV.
  pose proof (invl_reach st R) as IL. pose proof (invo_reach c wake st R) as IO.
  unfold all_done. apply andb_true_iff. split.
  - destruct (loop st) as [|m|k|] eqn:E; auto; exfalso.
    + pose proof (Q ELoopExit eq_refl) as X. unfold step in X. rewrite E, LV in X. discriminate.
    + destruct (blocking_backend c) eqn:BB.
      * pose proof (Q ELoopAbort eq_refl) as X. unfold step in X. rewrite E, LV, BB in X. discriminate.
      * unfold blocking_backend in BB. apply orb_false_iff in BB as [CB BP].
        destruct (passes (inmod c) m) eqn:PI;
          [|pose proof (Q ELoopFilter eq_refl) as X; unfold step in X; rewrite E, PI in X; discriminate].
        pose proof (Q ELoopPush eq_refl) as X. unfold step in X. rewrite CB, E, PI in X. simpl in X.
        destruct (room c (dist st)); [discriminate|].
        destruct (dpol c); try discriminate. destruct (dist st); discriminate.
    + destruct (il_stats _ IL SB) as [S1 _]. eapply S1; eauto.
  - apply forallb_forall. intros w Hw. apply in_seq in Hw. simpl in Hw.
    assert (WL : (w <? nw c) = true) by (apply Nat.ltb_lt; lia).
    destruct (wk st w) eqn:E; auto; exfalso.
    + destruct (chanb c) eqn:CB.
      * pose proof (Q (EWExit w) eq_refl) as X. unfold step in X. rewrite WL, E, LV, CB in X. discriminate.
      * destruct (dist st) eqn:D.
        -- pose proof (Q (EWExit w) eq_refl) as X. unfold step in X. rewrite WL, E, LV, CB, D in X. discriminate.
        -- destruct (passes (outmod c) m) eqn:PO.
           ++ pose proof (Q (ETake w) eq_refl) as X. unfold step in X. rewrite WL, E, CB, D, PO in X. discriminate.
           ++ pose proof (Q (ESkip w) eq_refl) as X. unfold step in X. rewrite WL, E, CB, D, PO in X. discriminate.
    + pose proof (Q (EWake w) eq_refl) as X. unfold step in X. rewrite WL, E in X.
      rewrite wake_spec in X; auto. discriminate.
    + eapply busy_not_quiescent; eauto.
Qed.

(* every blocking point of an API call has a ctx.Done arm: once the caller's context is cancelled the
   call can return, whatever the broker is doing (also when it is stopped, wedged or has exited) *)
Lemma api_ctx_bounded : forall st k, call st k <> CIdle -> cctx st k = false ->
  exists st', step c wake st (ECallerAbort k) = Some st' /\ call st' k = CIdle.
Proof.
  intros st k H C. unfold step. rewrite C. destruct (call st k) eqn:E; [congruence| | | | |];
    eexists; (split; [reflexivity|]); ssimpl; apply upd_same.
Qed.

End S.
