(* C15 — Once under any number of concurrent callers: invariant of the Once net over every reachable state. *)
From FunV Require Import Base.Tac Model.LaunchNet Proofs.Wrappers_lock.
Local Open Scope Z_scope.

Ltac upd_cases x t :=
  destruct (Z.eq_dec x t) as [->|?]; [rewrite ?upd_same in * | rewrite ?upd_other in * by assumption].

Definition in_do (p : opc) : Prop := p = OInBody \/ p = OWrote.

Record oinv (R : Z) (s : ostate) : Prop := {
  oi_in : forall t, in_do (o_pc s t) -> o_running s = true;
  oi_rd : o_running s = true -> o_done s = false;
  oi_uniq : forall t1 t2, in_do (o_pc s t1) -> in_do (o_pc s t2) -> t1 = t2;
  oi_free : o_running s = false -> forall t, ~ in_do (o_pc s t);
  oi_execs : o_execs s = if o_running s || o_done s then 1%nat else 0%nat;
  oi_cache : o_done s = true -> o_cache s = R;
  oi_wrote : forall t, o_pc s t = OWrote -> o_cache s = R;
  oi_after : forall t, o_pc s t = OAfter -> o_done s = true;
  oi_ret : forall t v, o_pc s t = ODone v -> o_done s = true /\ v = R
}.

Lemma opc_eqb_true a b : opc_eqb a b = true -> a = b.
Proof. destruct a, b; simpl; congruence. Qed.

Ltac crush :=
  intros; unfold in_do in *;
  repeat match goal with
  | H : context [upd _ ?t _ ?x] |- _ => upd_cases x t
  | |- context [upd _ ?t _ ?x] => upd_cases x t
  end;
  try solve [eauto | intuition (try discriminate; try congruence; eauto)].

Lemma oinv_init R : oinv R oinit.
Proof. constructor; simpl; crush. Qed.

Lemma oinv_step R s l s' : oinv R s -> ostep_exec R s l = Some s' -> oinv R s'.
Proof.
  intros I H. destruct I as [Iin Ird Iuq Ifr Iex Ica Iwr Iaf Irt].
  destruct l as [t|t|t|t|t|t]; simpl in H.
  - (* call *)
    destruct (opc_eqb (o_pc s t) OIdle) eqn:E; inv H. apply opc_eqb_true in E.
    constructor; simpl; crush.
  - (* enter *)
    destruct (opc_eqb (o_pc s t) OCalled && negb (o_done s) && negb (o_running s)) eqn:E; inv H.
    apply andb_prop in E. destruct E as [E E3]. apply andb_prop in E. destruct E as [E1 E2].
    apply opc_eqb_true in E1. apply negb_true_iff in E2. apply negb_true_iff in E3.
    constructor; simpl; crush.
    + exfalso. eapply Ifr; eauto.
    + exfalso. eapply Ifr; eauto.
    + rewrite Iex, E2, E3. reflexivity.
    + pose proof (Iaf _ H). congruence.
    + destruct (Irt _ _ H). congruence.
  - (* body end *)
    destruct (opc_eqb (o_pc s t) OInBody) eqn:E; inv H. apply opc_eqb_true in E.
    assert (T : in_do (o_pc s t)) by (left; exact E).
    constructor; simpl; crush.
  - (* Do returns *)
    destruct (opc_eqb (o_pc s t) OWrote) eqn:E; inv H. apply opc_eqb_true in E.
    assert (T : in_do (o_pc s t)) by (right; exact E).
    constructor; simpl; crush.
    + rewrite Iex. rewrite (Iin t T). reflexivity.
    + destruct (Irt _ _ H). auto.
  - (* pass *)
    destruct (opc_eqb (o_pc s t) OCalled && o_done s) eqn:E; inv H.
    apply andb_prop in E. destruct E as [E1 E2]. apply opc_eqb_true in E1.
    constructor; simpl; crush.
  - (* return *)
    destruct (opc_eqb (o_pc s t) OAfter) eqn:E; inv H. apply opc_eqb_true in E.
    constructor; simpl; crush.
    + inv H. pose proof (Iaf _ E). auto.
Qed.

Lemma oinv_reach R s : oreach R s -> oinv R s.
Proof. induction 1; eauto using oinv_init, oinv_step. Qed.

(* In every reachable state (any number of callers, any interleaving): the wrapped function has been started at most
   once and at most one caller is inside it; a caller that has returned did so after the execution finished
   (done is set only after the body returned), the function was executed exactly once, and the caller saw its result. *)
Theorem once_net_proof R s : oreach R s ->
  (o_execs s <= 1)%nat /\
  (forall t1 t2, in_do (o_pc s t1) -> in_do (o_pc s t2) -> t1 = t2) /\
  (forall t v, o_pc s t = ODone v -> o_done s = true /\ o_execs s = 1%nat /\ v = R).
Proof.
  intros Hr. apply oinv_reach in Hr. destruct Hr as [Iin Ird Iuq Ifr Iex Ica Iwr Iaf Irt].
  split; [rewrite Iex; destruct (o_running s || o_done s); lia|]. split; [exact Iuq|].
  intros t v Hd. destruct (Irt t v Hd) as [D V]. repeat split; auto. rewrite Iex, D, orb_true_r. reflexivity.
Qed.

(* a caller that arrives while the execution is in progress cannot get past once.Do: neither of its two
   continuations is enabled, it can only wait (this is sync.Once's contract, built into the step function) *)
Lemma once_blocked_while_running R s t : oreach R s -> o_running s = true -> o_pc s t = OCalled ->
  ostep_exec R s (OPass t) = None /\ ostep_exec R s (OEnter t) = None.
Proof.
  intros Hr Run Pc. apply oinv_reach in Hr. simpl. rewrite Pc. simpl.
  rewrite (oi_rd R s Hr Run), Run. split; reflexivity.
Qed.

Lemma oreach_steps R ls : forall s s', oreach R s -> steps (ostep_exec R) s ls = Some s' -> oreach R s'.
Proof.
  induction ls as [|l ls IH]; intros s s' Hr H; simpl in H; [now inv H|].
  destruct (ostep_exec R s l) eqn:E; [|discriminate]. eapply IH; [|exact H]. eapply oreach_step; eauto.
Qed.

(* non-vacuity: three callers, one runs the body, all see 42 *)
Definition once_example_labels : list olabel :=
  [OCall 1; OCall 2; OEnter 2; OCall 3; OBodyEnd 2; ODoEnd 2; ORet 2; OPass 1; ORet 1; OPass 3; ORet 3].
Definition once_example_state : ostate :=
  match steps (ostep_exec 42) oinit once_example_labels with Some s => s | None => oinit end.

Example once_net_nonvacuous :
  oreach 42 once_example_state /\
  o_pc once_example_state 1 = ODone 42 /\ o_pc once_example_state 2 = ODone 42 /\ o_pc once_example_state 3 = ODone 42 /\
  o_execs once_example_state = 1%nat.
Proof.
  split.
  - apply (oreach_steps 42 once_example_labels oinit); [apply oreach_init|]. vm_compute. reflexivity.
  - repeat split; vm_compute; reflexivity.
Qed.
