(* The decision table of CanContinueOnError against the contract of the property text, for ALL
   configurations (the ExcludedErrors list is arbitrary). *)
From FunV Require Import Base.Tac Model.WorkerConf.
Open Scope Z_scope.

Lemma is_nil t : is [] t = false.
Proof. reflexivity. Qed.

Lemma is_cons e a t : is (a :: e) t = (t =? a) || is e t.
Proof. reflexivity. Qed.

Lemma is_app e1 e2 t : is (e1 ++ e2) t = is e1 t || is e2 t.
Proof. unfold is. apply existsb_app. Qed.

Lemma is_true_iff e t : is e t = true <-> In t e.
Proof.
  unfold is. rewrite existsb_exists. split.
  - intros (x & Hx & E). apply Z.eqb_eq in E. subst. exact Hx.
  - intros H. exists t. split; [exact H|apply Z.eqb_refl].
Qed.

Lemma is_any_true_iff e ts : is_any e ts = true <-> exists t, In t ts /\ In t e.
Proof.
  unfold is_any. rewrite existsb_exists. split; intros (t & H1 & H2); exists t; split; auto; apply is_true_iff; auto.
Qed.

Lemma is_any_false e ts : (forall t, In t ts -> ~ In t e) -> is_any e ts = false.
Proof.
  intros H. destruct (is_any e ts) eqn:E; [|reflexivity].
  apply is_any_true_iff in E. destruct E as (t & H1 & H2). exfalso. eapply H; eauto.
Qed.

(* ---------------------------------------------------------------- semantic reading of the switch *)

(* every arm, as a statement about the error's errors.Is-profile; all confs, all errors *)
Theorem can_continue_arms (c : conf) (e : err) :
  let d := can_continue c (Some e) in
  (is e id_panic = true -> record d = true /\ continue d = continue_on_panic c) /\
  (is e id_panic = false -> is e id_skip = true -> record d = false /\ continue d = true) /\
  (is e id_panic = false -> is e id_skip = false -> is e id_eof = true -> record d = false /\ continue d = false) /\
  (is e id_panic = false -> is e id_skip = false -> is e id_eof = false ->
     is e id_canceled || is e id_deadline = true -> record d = include_ctx c /\ continue d = false) /\
  (is e id_panic = false -> is e id_skip = false -> is e id_eof = false ->
     is e id_canceled || is e id_deadline = false ->
       (is_any e (excluded c) = true -> record d = false /\ continue d = true) /\
       (is_any e (excluded c) = false -> record d = true /\ continue d = continue_on_error c)).
Proof.
  unfold can_continue. cbv zeta.
  destruct (is e id_panic), (continue_on_panic c), (is e id_skip), (is e id_eof),
    (is e id_canceled || is e id_deadline), (is_any e (excluded c)); simpl;
    repeat split; intros; try discriminate; reflexivity.
Qed.

Lemma can_continue_nil c : can_continue c None = mkdec false true.
Proof. reflexivity. Qed.

(* ---------------------------------------------------------------- the table by failure kind *)

Definition table_cell (c : conf) (k : errkind) (id : errid) (tagged : bool) : Prop :=
  classify c k id tagged = contract c k /\
  (exists e, err_of k id tagged = Some e /\
     (is_panic_kind k = true -> is e id_panic = true) /\          (* ErrRecoveredPanic is found for a panic *)
     (carries_id k tagged = true -> is e id = true)).             (* the original error is found *)

Definition classify_table_statement : Prop :=
  forall c k id tagged, well_formed c k id -> table_cell c k id tagged.

Ltac neg_eqb id :=
  repeat match goal with
  | |- context [?a =? id] => let H := fresh in assert (H : (a =? id) = false) by (apply Z.eqb_neq; unfold id_panic, id_skip, id_eof, id_canceled, id_deadline, id_abort; lia); rewrite H; clear H
  end.

Theorem classify_table :
  forall c k id tagged, well_formed c k id -> avoids_error_slice k = true -> table_cell c k id tagged.
Proof.
  intros c k id tagged (Hid & Hex & Hnex & Hab) Hav.
  assert (P : forall t : Z, t < 0 -> (t =? id) = false) by (intros; apply Z.eqb_neq; lia).
  unfold table_cell, classify, err_of.
  destruct k; try discriminate Hav; simpl outcome_of; simpl with_recover; simpl contract; simpl is_panic_kind; simpl carries_id.
  - (* Plain *)
    split.
    + unfold can_continue. rewrite !is_cons, !is_nil. rewrite !P by (cbv; reflexivity). simpl.
      rewrite is_any_false; [reflexivity|]. intros t Ht [E|[]]. subst. apply Hnex; [discriminate|exact Ht].
    + eexists; split; [reflexivity|]. split; [discriminate|]. intros _. rewrite is_cons, Z.eqb_refl. reflexivity.
  - (* Wrapped *)
    split.
    + unfold can_continue. rewrite !is_cons, !is_nil. rewrite !P by (cbv; reflexivity). simpl.
      rewrite is_any_false; [reflexivity|]. intros t Ht [E|[]]. subst. apply Hnex; [discriminate|exact Ht].
    + eexists; split; [reflexivity|]. split; [discriminate|]. intros _. rewrite is_cons, Z.eqb_refl. reflexivity.
  - (* PanicErr *)
    split.
    + unfold can_continue. rewrite !is_cons, !is_nil. rewrite !P by (cbv; reflexivity). simpl.
      destruct (continue_on_panic c); reflexivity.
    + eexists; split; [reflexivity|]. split; intros _.
      * rewrite !is_cons. rewrite Z.eqb_refl. apply orb_true_r.
      * rewrite is_cons, Z.eqb_refl. reflexivity.
  - (* PanicStr *)
    split.
    + unfold can_continue. simpl. destruct (continue_on_panic c); reflexivity.
    + eexists; split; [reflexivity|]. split; [reflexivity|discriminate].
  - (* PanicOther *)
    split.
    + unfold can_continue. simpl. destruct (continue_on_panic c); reflexivity.
    + eexists; split; [reflexivity|]. split; [reflexivity|discriminate].
  - (* Skip *)
    split.
    + unfold can_continue. destruct tagged; rewrite !is_cons, ?is_nil; rewrite ?P by (cbv; reflexivity); reflexivity.
    + eexists; split; [reflexivity|]. split; [discriminate|]. destruct tagged; [|discriminate]. intros _.
      rewrite !is_cons, Z.eqb_refl. apply orb_true_r.
  - (* Eof *)
    split.
    + unfold can_continue. destruct tagged; rewrite !is_cons, ?is_nil; rewrite ?P by (cbv; reflexivity); reflexivity.
    + eexists; split; [reflexivity|]. split; [discriminate|]. destruct tagged; [|discriminate]. intros _.
      rewrite !is_cons, Z.eqb_refl. apply orb_true_r.
  - (* Abort *)
    split.
    + unfold can_continue.
      assert (X : is_any (id_abort :: (if tagged then [id] else [])) (excluded c) = false).
      { apply is_any_false. intros t Ht Hin. destruct Hin as [E|Hin].
        - subst. apply Hab; [reflexivity|exact Ht].
        - destruct tagged; [|destruct Hin]. destruct Hin as [E|[]]. subst. apply Hnex; [discriminate|exact Ht]. }
      rewrite X. destruct tagged; rewrite !is_cons, ?is_nil; rewrite ?P by (cbv; reflexivity); reflexivity.
    + eexists; split; [reflexivity|]. split; [discriminate|]. destruct tagged; [|discriminate]. intros _.
      rewrite !is_cons, Z.eqb_refl. apply orb_true_r.
  - (* CtxCanceled *)
    split.
    + unfold can_continue. destruct tagged; rewrite !is_cons, ?is_nil; rewrite ?P by (cbv; reflexivity); reflexivity.
    + eexists; split; [reflexivity|]. split; [discriminate|]. destruct tagged; [|discriminate]. intros _.
      rewrite !is_cons, Z.eqb_refl. apply orb_true_r.
  - (* CtxDeadline *)
    split.
    + unfold can_continue. destruct tagged; rewrite !is_cons, ?is_nil; rewrite ?P by (cbv; reflexivity); reflexivity.
    + eexists; split; [reflexivity|]. split; [discriminate|]. destruct tagged; [|discriminate]. intros _.
      rewrite !is_cons, Z.eqb_refl. apply orb_true_r.
  - (* Excluded *)
    split.
    + unfold can_continue. rewrite !is_cons, !is_nil. rewrite !P by (cbv; reflexivity). simpl.
      assert (X : is_any [id] (excluded c) = true).
      { apply is_any_true_iff. exists id. split; [apply Hex; reflexivity|left; reflexivity]. }
      rewrite X. reflexivity.
    + eexists; split; [reflexivity|]. split; [discriminate|]. intros _. rewrite is_cons, Z.eqb_refl. reflexivity.
  - (* PanicWrap t: whatever sentinel the panic value is or wraps, the panic arm comes first *)
    assert (X : is (t :: ((if tagged then [id] else []) ++ [id_panic])) id_panic = true).
    { rewrite is_cons, is_app. apply orb_true_iff. right. apply orb_true_iff. right. reflexivity. }
    split.
    + unfold can_continue. rewrite X. destruct (continue_on_panic c); reflexivity.
    + eexists; split; [reflexivity|]. split; [intros _; exact X|]. destruct tagged; [|discriminate]. intros _.
      simpl app. rewrite !is_cons, Z.eqb_refl. simpl. apply orb_true_r.
  - (* RetMarked *)
    split.
    + unfold can_continue. rewrite !is_cons. simpl. destruct (continue_on_panic c); reflexivity.
    + eexists; split; [reflexivity|]. split; intros _; rewrite !is_cons; [reflexivity|].
      rewrite Z.eqb_refl. apply orb_true_r.
Qed.

(* Panics are always recorded and governed by ContinueOnPanic, WHATEVER ELSE their value matches:
   for every configuration and every error profile that contains ErrRecoveredPanic (any subset of
   io.EOF / ErrIteratorSkip / ErrCurrentOpAbort / context errors / user and excluded sentinels
   besides it). *)
Theorem panic_always_recorded (c : conf) (e : err) :
  is e id_panic = true ->
  can_continue c (Some e) = mkdec true (continue_on_panic c).
Proof.
  intros H. unfold can_continue. rewrite H. destruct (continue_on_panic c); reflexivity.
Qed.

(* ... in particular for every value a user function can panic with, except the []error finding *)
Theorem recovered_panic_always_recorded (c : conf) (v : panicval) :
  match v with
  | PVErrSlice _ => True
  | _ => can_continue c (with_recover (OPanic v)) = mkdec true (continue_on_panic c)
  end.
Proof.
  destruct v; auto; simpl with_recover; simpl parse_panic; simpl join; apply panic_always_recorded;
    rewrite ?is_app; simpl; rewrite ?orb_true_r; reflexivity.
Qed.

Example panic_eof_recorded : classify (mkconf false true false []) (PanicWrap id_eof) 5 false = mkdec true true.
Proof. reflexivity. Qed.
Example panic_ctx_recorded : classify (mkconf true false false [5]) (PanicWrap id_canceled) 5 true = mkdec true false.
Proof. reflexivity. Qed.

(* The unguarded statement is false: a panic whose value is []error is parsed without
   ErrRecoveredPanic (ers.ParsePanic; pinned by TestPanics/ParsePanic/ErrorSlice) and is therefore
   classified by ContinueOnError. *)
Theorem classify_table_refuted : ~ classify_table_statement.
Proof.
  intros H.
  destruct (H (mkconf true false false []) PanicErrSlice 0 false) as (E & _).
  - repeat split; try lia; try discriminate; intros _ [].
  - vm_compute in E. discriminate E.
Qed.

(* what the code does with that kind, exactly *)
Theorem classify_error_slice c id tagged :
  0 <= id -> ~ In id (excluded c) ->
  classify c PanicErrSlice id tagged = mkdec true (continue_on_error c) /\
  (forall e, err_of PanicErrSlice id tagged = Some e -> is e id_panic = false /\ is e id = true).
Proof.
  intros Hid Hn.
  assert (P : forall t : Z, t < 0 -> (t =? id) = false) by (intros; apply Z.eqb_neq; lia).
  split.
  - unfold classify, err_of. cbn [outcome_of with_recover parse_panic join concat app]. unfold can_continue.
    rewrite !is_cons, !is_nil. rewrite !P by (cbv; reflexivity). simpl.
    rewrite is_any_false; [reflexivity|]. intros t Ht [E|[]]. subst. auto.
  - intros e E. unfold err_of in E. cbn [outcome_of with_recover parse_panic join concat app] in E. inv E.
    rewrite !is_cons, is_nil. rewrite P by (cbv; reflexivity).
    rewrite Z.eqb_refl. split; reflexivity.
Qed.

(* non-vacuity *)
Example table_cell_plain : table_cell (mkconf false true false [7; 9]) Plain 3 false.
Proof. apply classify_table; [repeat split; try lia; try discriminate; simpl; intuition lia|reflexivity]. Qed.
Example table_cell_excluded : classify (mkconf false false true [7; 9]) Excluded 9 false = mkdec false true.
Proof. reflexivity. Qed.

(* ---------------------------------------------------------------- WithRecover / ParsePanic *)

(* a panic never yields nil and always carries ErrRecoveredPanic — except through the []error arm *)
Theorem parse_panic_marked v :
  match v with PVErrSlice _ => True | _ => exists e, parse_panic (Some v) = Some e /\ is e id_panic = true end.
Proof.
  destruct v; simpl; auto; eexists; (split; [reflexivity|]); rewrite ?is_app; simpl; try reflexivity.
  apply orb_true_r.
Qed.

Theorem parse_panic_error_slice_unmarked es :
  Forall (fun e => is e id_panic = false) es ->
  match parse_panic (Some (PVErrSlice es)) with None => es = [] | Some e => is e id_panic = false end.
Proof.
  intros H. simpl. destruct es as [|a es]; [reflexivity|].
  remember (a :: es) as l. clear Heql. induction H; simpl; [reflexivity|]. rewrite is_app, H, IHForall. reflexivity.
Qed.

Theorem with_recover_ret e : with_recover (ORet e) = e.
Proof. destruct e; reflexivity. Qed.

Theorem with_recover_panic v : with_recover (OPanic v) = parse_panic (Some v).
Proof. reflexivity. Qed.
