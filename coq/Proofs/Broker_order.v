(* Order: the pipeline (taken ++ dist ++ in-loop) keeps publications in rendezvous order for every
   back-end of the model (all FIFO); with one dispatch worker every subscriber's log is in pipeline
   order, hence all subscribers agree and each publisher's order is preserved. *)
From Coq Require Import Permutation.
From FunV Require Import Base.Tac Model.BrokerModel Proofs.Broker_base Proofs.Broker_safety.

Lemma before_snoc_inv : forall l m a b, before (l ++ [m]) a b -> before l a b \/ (In a l /\ b = m).
Proof.
  induction l as [|x l IH]; simpl; intros m a b H.
  - destruct H as (l1 & l2 & l3 & E). destruct l1 as [|? [|? ?]]; simpl in E; inv E.
    + destruct l2; discriminate.
  - apply before_cons_inv in H as [[-> Hb]|H].
    + rewrite in_app_iff in Hb; simpl in Hb. destruct Hb as [Hb|[Hb|[]]].
      * left. apply before_cons_head; auto.
      * right; auto.
    + apply IH in H as [H|[H ->]]; [left; apply before_cons; auto| right; auto].
Qed.

Lemma before_insert_mid_inv : forall (a b : list nat) m x y, before (a ++ m :: b) x y ->
  before (a ++ b) x y \/ x = m \/ y = m.
Proof.
  induction a as [|z a IH]; simpl; intros b m x y H.
  - apply before_cons_inv in H as [[-> _]|H]; auto.
  - apply before_cons_inv in H as [[-> Hy]|H].
    + rewrite in_app_iff in Hy; simpl in Hy. destruct Hy as [Hy|[Hy|Hy]]; auto;
        left; apply before_cons_head; rewrite in_app_iff; auto.
    + apply IH in H as [H|H]; auto. left; apply before_cons; auto.
Qed.

Section S.
Variable c : cfg.
Variable wake : state -> nat -> bool.

Record InvO (st : state) : Prop := {
  io_chan : chanb c = true -> dist st = [];
  io_flow : forall a b, before (flow st) a b -> before (pubd st) a b;
  io_wlt : forall w m r v mu p, wk st w = WBusy m r v mu p -> w < nw c;
  io_ch0 : bufsz c = 0 -> forall s, ch st s = []
}.

Lemma InvO_init : InvO init.
Proof.
  constructor; simpl; intros; auto; try discriminate.
Qed.

Lemma InvO_step : forall st e st', InvFlow st -> InvO st -> step c wake st e = Some st' -> InvO st'.
Proof.
  intros st e st' [_ FI] [C F WL C0] H. unfold flow in *. step_inv H; ssimpl.
  all: constructor; unfold flow; ssimpl; auto.
  all: try (intros; busy_unsub; eauto; fail).
  all: try (wsolve; fail).
  all: try (intros; upd_cases; auto; fail).
  all: try congruence.
  all: repeat match goal with
       | E : loop _ = _ |- _ => rewrite E in *; clear E
       | E : dist _ = _ |- _ => rewrite E in *; clear E
       end; simpl in *; rewrite ?app_nil_r in *.
  all: try (intros ? ?; rewrite <- ?app_assoc; simpl; auto; fail).
  all: try (intros a0 b0 Hb; apply F; rewrite app_assoc; apply before_app_r; auto; fail).
  all: try (intros; upd_cases; winv; eauto; apply Nat.ltb_lt; auto; fail).
  - (* EPub *) intros a b Hb. rewrite app_assoc in Hb. apply before_snoc_inv in Hb as [Hb|[Ha ->]].
    + apply before_app_r; auto.
    + apply before_snoc. apply FI; auto.
  - (* evict, empty dist *) intros a b Hb. apply F. apply before_app_r; auto.
  - (* evict head *) intros a b Hb. apply F. apply before_remove_mid; auto.
  - (* take, channel *) rewrite (C eq_refl) in *; simpl in *. intros a b Hb. rewrite app_nil_r in *. auto.
  - (* send buffered: bufsz = 0 contradiction *) intros E. rewrite E in *. discriminate.
  - (* recv *) intros E. rewrite (C0 E) in *. discriminate.
  - (* skip: the output filter removes the head *) intros a b Hb. apply F. simpl. apply before_remove_mid; auto.
  - intros a b Hb. apply F. simpl. apply before_remove_mid; auto.
Qed.

Lemma invo_reach : forall st, reach c wake st -> InvO st.
Proof.
  induction 1; [apply InvO_init|]. eapply InvO_step; eauto. apply (safe_reach c wake st H).
Qed.

(* the delivery order is the publication (rendezvous) order of the pipeline, for any number of workers *)
Lemma taken_order : forall st, reach c wake st -> forall a b, before (taken st) a b -> before (pubd st) a b.
Proof.
  intros st R a b H. apply (io_flow _ (invo_reach st R)). unfold flow. apply before_app_r; auto.
Qed.

(* ---------- one dispatch worker *)
Hypothesis W1 : nw c = 1.

Record InvS (st : state) : Prop := {
  is_last : forall m r v mu p, wk st 0 = WBusy m r v mu p -> exists t, taken st = t ++ [m];
  is_log : forall s a b, before (log st s) a b -> before (taken st) a b
}.

Lemma InvS_init : InvS init.
Proof.
  constructor; unfold log; simpl; intros; try discriminate.
  destruct H as (l1 & ? & ? & E); destruct l1; discriminate.
Qed.

Lemma InvS_step : forall st e st', InvW st -> InvO st -> InvS st -> step c wake st e = Some st' -> InvS st'.
Proof.
  intros st e st' [T U LT LN P] [C F WL C0] [L G] H. unfold log in *. step_inv H; ssimpl.
  all: try (constructor; unfold log; ssimpl; auto; fail).
  all: constructor; unfold log; ssimpl; auto.
  all: try (intros; busy_unsub; eauto; fail).
  all: try (intros; apply before_app_r; eauto; fail).
  all: try match goal with Hw : wk _ ?w = WBusy _ _ _ _ _ |- _ =>
         assert (w = 0) by (apply WL in Hw; lia); subst w end.
  all: try match goal with Hw : (?w <? nw c) = true |- _ =>
         assert (w = 0) by (apply Nat.ltb_lt in Hw; lia); subst w end.
  all: try (intros; upd_cases; winv; try congruence; eauto; fail).
  - (* send, rendezvous *) intros s0 a b Hb. upd_cases; eauto. apply Nat.eqb_eq in Heqb0.
    rewrite (C0 Heqb0) in *. rewrite app_nil_r in *. boolp.
    destruct (L _ _ _ _ _ Heqw0) as [t Et]. destruct (P _ _ _ _ _ _ Heqw0) as (_ & _ & L1).
    apply before_snoc_inv in Hb as [Hb|[Ha ->]]; [apply G with s; rewrite (C0 Heqb0), app_nil_r; auto|].
    assert (Hat : In a (taken st)) by (apply LT with s; rewrite (C0 Heqb0), app_nil_r; auto).
    assert (Hnm : a <> m).
    { intros ->. assert (X : In m (rcv st s ++ ch st s)) by (rewrite (C0 Heqb0), app_nil_r; auto). apply L1 in X. tauto. }
    rewrite Et in *. apply before_snoc. rewrite in_app_iff in Hat; simpl in Hat.
    destruct Hat as [?|[E|[]]]; auto. congruence.
  - (* send, buffered *) intros s0 a b Hb. upd_cases; eauto. boolp.
    destruct (L _ _ _ _ _ Heqw0) as [t Et]. destruct (P _ _ _ _ _ _ Heqw0) as (_ & _ & L1).
    rewrite app_assoc in Hb. apply before_snoc_inv in Hb as [Hb|[Ha ->]]; [apply G with s; auto|].
    assert (Hat : In a (taken st)) by (apply LT with s; auto).
    assert (Hnm : a <> m) by (intros ->; apply L1 in Ha; tauto).
    rewrite Et in *. apply before_snoc. rewrite in_app_iff in Hat; simpl in Hat.
    destruct Hat as [?|[E|[]]]; auto. congruence.
  - (* recv *) intros s0 a b Hb. upd_cases; eauto. apply G with s. rewrite Heql. rewrite log_recv in Hb. auto.
Qed.

Lemma invs_reach : forall st, reach c wake st -> InvS st.
Proof.
  induction 1; [apply InvS_init|]. eapply InvS_step; eauto.
  - apply (safe_reach c wake st H).
  - apply invo_reach; auto.
Qed.

Lemma before_app_l_inv_sub : forall (r cc : list nat) a b, before r a b -> before (r ++ cc) a b.
Proof. intros; apply before_app_r; auto. Qed.

(* C08 order, W = 1: each log is in pipeline order, which is publication order; two subscribers never
   disagree on the relative order of two messages *)
Lemma single_worker_order : forall st, reach c wake st ->
  (forall s a b, before (rcv st s) a b -> before (taken st) a b /\ before (pubd st) a b) /\
  (forall s s' a b, before (rcv st s) a b -> before (rcv st s') b a -> False).
Proof.
  intros st R. pose proof (invs_reach st R) as [L G]. pose proof (safe_reach c wake st R) as [[_ _ _ NP] _ _].
  assert (X : forall s a b, before (rcv st s) a b -> before (taken st) a b /\ before (pubd st) a b).
  { intros s a b H. assert (before (taken st) a b) by (apply G with s; unfold log; apply before_app_r; auto).
    split; auto. apply taken_order; auto. }
  split; auto. intros s s' a b H1 H2. apply X in H1 as [_ H1]. apply X in H2 as [_ H2].
  eapply before_asym; eauto.
Qed.

End S.
