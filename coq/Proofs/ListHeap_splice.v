(* uncheckedAppend / uncheckedRemove preserve the invariant, with the exact effect on the
   ghost element lists. *)
From FunV Require Import Base.Tac Base.ListX Model.SortSpec Model.ListHeap Proofs.ListHeap_ring Proofs.ListHeap_wf.
Local Open Scope Z_scope.

(* data that splices never touch *)
Record same_data (w w' : world) : Prop := {
  sd_item : forall x, nitem (nodes w' x) = nitem (nodes w x);
  sd_ok : forall x, nok (nodes w' x) = nok (nodes w x);
  sd_nfresh : nfresh w' = nfresh w;
  sd_lfresh : lfresh w' = lfresh w;
  sd_root : forall l, lroot (lists w' l) = lroot (lists w l) }.

Lemma same_data_refl w : same_data w w.
Proof. split; auto. Qed.
Lemma same_data_trans a b c : same_data a b -> same_data b c -> same_data a c.
Proof.
  intros [i1 o1 n1 l1 r1] [i2 o2 n2 l2 r2].
  split; intros; [rewrite i2, i1|rewrite o2, o1|rewrite n2, n1|rewrite l2, l1|rewrite r2, r1]; reflexivity.
Qed.

(* ---------------------------------------------------------------- uncheckedAppend *)
Lemma ua_WF w E l r e n :
  WF w E -> (l < lfresh w)%nat -> lroot (lists w l) = Some r -> In e (r :: E l) ->
  (n < nfresh w)%nat -> nowner (nodes w n) = None -> nok (nodes w n) = true ->
  exists w', uncheckedAppend (Some e) (Some n) w = Ret tt w' /\
             WF w' (upd E l (ins_cyc e n r (E l))) /\ same_data w w' /\
             (forall x, x <> n -> nowner (nodes w' x) = nowner (nodes w x)) /\
             nowner (nodes w' n) = Some l /\
             llen (lists w' l) = llen (lists w l) + 1 /\
             (forall l', l' <> l -> lists w' l' = lists w l').
Proof.
  intros W Hl Hr He Hn Hon Hokn.
  pose proof (wf_lists _ _ W l Hl) as L. rewrite Hr in L. destruct L as [RG Len Rok Eok].
  pose proof RG as [ND [Df Db]].
  destruct (WF_elem_in _ _ _ _ _ W Hl Hr He) as [Hoe Hlte].
  assert (Hnin : ~ In n (r :: E l)).
  { intros I. destruct (WF_elem_in _ _ _ _ _ W Hl Hr I). congruence. }
  assert (Hen : e <> n) by (intros ->; auto).
  assert (Hs : exists s, nnext (nodes w e) = Some s /\ In s (r :: E l)).
  { destruct He as [<-|I].
    - exists (first (E l) r). split; [apply (dlinks_root _ _ _ _ Df)|].
      destruct (E l); simpl; auto.
    - apply in_split in I. destruct I as (pre & suf & EQ). rewrite EQ in Df.
      exists (first suf r). split; [apply (dlinks_succ _ _ _ _ _ _ Df)|].
      rewrite EQ. destruct suf; simpl; auto. right. apply in_or_app. right. right. left. reflexivity. }
  destruct Hs as (s & Hns & Hsin).
  assert (Hsn : s <> n) by (intros ->; auto).
  exists (ua_world w l e n s). split; [apply ua_run; auto|].
  set (w' := ua_world w l e n s).
  assert (SD : same_data w w').
  { split; intros; subst w'; [apply ua_item; auto|apply ua_ok; auto|reflexivity|reflexivity|apply ua_roots; auto]. }
  split; [|split; [exact SD|split; [intros; apply ua_owner; auto|split; [apply ua_owner_n; auto|split]]]].
  2:{ subst w'. rewrite ua_lists_l. reflexivity. }
  2:{ intros. apply ua_lists; auto. }
  assert (RING : ring (nodes w') r (ins_cyc e n r (E l))).
  { apply (ring_insert (nodes w) (nodes w') r (E l) e n s); auto; subst w'.
    - apply ua_next_e; auto. - apply ua_next_n; auto. - apply ua_prev_s; auto. - apply ua_prev_n; auto.
    - intros; apply ua_next; auto. - intros; apply ua_prev; auto. }
  assert (MEM : forall x, In x (r :: ins_cyc e n r (E l)) <-> x = n \/ In x (r :: E l)).
  { intros x. destruct (ins_cyc_cases e n r (E l) ND He) as [[-> ->]|(Hner & pre & suf & EQ & ->)].
    - simpl. intuition congruence.
    - rewrite EQ. simpl. rewrite !in_app_iff. simpl. intuition congruence. }
  assert (CYC : forall l0, cyc_of w' (upd E l (ins_cyc e n r (E l))) l0 =
                           if Nat.eqb l0 l then r :: ins_cyc e n r (E l) else cyc_of w E l0).
  { intros l0. unfold cyc_of. subst w'. rewrite ua_roots. unfold upd.
    destruct (Nat.eqb_spec l0 l); [subst; rewrite Hr; reflexivity|reflexivity]. }
  split.
  - intros l0 Hl0. change (lfresh w') with (lfresh w) in Hl0. subst w'. rewrite ua_roots.
    destruct (Nat.eq_dec l0 l) as [->|Hne].
    + rewrite Hr, upd_same. split; auto.
      * rewrite ua_lists_l. simpl. rewrite Len.
        destruct (ins_cyc_cases e n r (E l) ND He) as [[-> ->]|(Hner & pre & suf & EQ & ->)].
        -- simpl length. lia.
        -- rewrite EQ, !app_length. simpl. lia.
      * rewrite ua_ok by auto. exact Rok.
      * rewrite Forall_forall in *. intros x Hx. rewrite ua_ok by auto.
        assert (M : x = n \/ In x (r :: E l)) by (apply MEM; right; exact Hx).
        destruct M as [->|[->|M]]; auto. exfalso.
        destruct RING as [ND2 _]. inv ND2. auto.
    + rewrite upd_other by auto. pose proof (wf_lists _ _ W l0 Hl0) as L0.
      destruct (lroot (lists w l0)) as [r0|] eqn:Hr0.
      * eapply lwf_frame; [| |exact L0]; [|rewrite ua_lists; auto].
        intros x Hx. destruct (WF_elem_in _ _ _ _ _ W Hl0 Hr0 Hx) as [Hox _].
        assert (x <> n) by congruence.
        assert (x <> e) by congruence.
        assert (x <> s) by (destruct (WF_elem_in _ _ _ _ _ W Hl Hr Hsin); congruence).
        rewrite ua_next, ua_prev, ua_ok by auto. auto.
      * rewrite ua_lists; auto.
  - intros x l0 Hx. change (nfresh w') with (nfresh w) in Hx. change (lfresh w') with (lfresh w).
    rewrite CYC. destruct (Nat.eq_dec x n) as [->|Hxn].
    + subst w'. rewrite ua_owner_n; auto. destruct (Nat.eqb_spec l0 l) as [->|Hne].
      * split; auto. intros _. split; auto. apply MEM. auto.
      * split; [congruence|]. intros [Hl0 I]. exfalso.
        assert (nowner (nodes w n) = Some l0) by (apply (wf_own _ _ W n l0 Hn); auto). congruence.
    + subst w'. rewrite ua_owner by auto. rewrite (wf_own _ _ W x l0 Hx).
      destruct (Nat.eqb_spec l0 l) as [->|Hne]; [|tauto].
      unfold cyc_of. rewrite Hr. rewrite MEM. intuition congruence.
  - intros l0 x Hl0 I. change (nfresh w') with (nfresh w). change (lfresh w') with (lfresh w) in Hl0.
    rewrite CYC in I. destruct (Nat.eqb_spec l0 l) as [->|Hne].
    + apply MEM in I. destruct I as [->|I]; auto. apply (WF_elem_in _ _ _ _ _ W Hl Hr I).
    + apply (wf_lt _ _ W l0 x Hl0 I).
Qed.

(* ---------------------------------------------------------------- uncheckedRemove *)
Lemma ur_WF w E l r e :
  WF w E -> (l < lfresh w)%nat -> lroot (lists w l) = Some r -> In e (E l) ->
  exists w', uncheckedRemove (Some e) w = Ret tt w' /\
             WF w' (upd E l (del e (E l))) /\ same_data w w' /\
             (forall x, x <> e -> nowner (nodes w' x) = nowner (nodes w x)) /\
             nowner (nodes w' e) = None /\
             llen (lists w' l) = llen (lists w l) - 1 /\
             (forall l', l' <> l -> lists w' l' = lists w l').
Proof.
  intros W Hl Hr He.
  pose proof (wf_lists _ _ W l Hl) as L. rewrite Hr in L. destruct L as [RG Len Rok Eok].
  pose proof RG as [ND [Df Db]].
  assert (He' : In e (r :: E l)) by (right; exact He).
  destruct (WF_elem_in _ _ _ _ _ W Hl Hr He') as [Hoe Hlte].
  assert (Hsp : exists s p, nnext (nodes w e) = Some s /\ nprev (nodes w e) = Some p).
  { destruct (in_split _ _ He) as (pre & suf & EQ). rewrite EQ in Df, Db.
    rewrite rev_app_distr in Db. simpl in Db. rewrite <- app_assoc in Db. simpl in Db.
    eexists. eexists. split; [apply (dlinks_succ _ _ _ _ _ _ Df)|apply (dlinks_succ _ _ _ _ _ _ Db)]. }
  destruct Hsp as (s & p & Hns & Hnp).
  destruct (ring_neighbours _ _ _ _ _ _ RG He Hns Hnp) as (Ip & Is & Hep & Hes & ND' & MEM & Hnd).
  exists (ur_world w l e p s). split; [apply ur_run; auto|].
  set (w' := ur_world w l e p s).
  assert (SD : same_data w w').
  { split; intros; subst w'; [apply ur_item; auto|apply ur_ok; auto|reflexivity|reflexivity|apply ur_roots; auto]. }
  split; [|split; [exact SD|split; [intros; apply ur_owner; auto|split; [apply ur_owner_e; auto|split]]]].
  2:{ subst w'. rewrite ur_lists_l. reflexivity. }
  2:{ intros. apply ur_lists; auto. }
  assert (RING : ring (nodes w') r (del e (E l))).
  { apply (ring_remove (nodes w) (nodes w') r (E l) e p s); auto; subst w'.
    - apply ur_next_p; auto. - apply ur_prev_s; auto.
    - intros; apply ur_next; auto. - intros; apply ur_prev; auto. }
  assert (CYC : forall l0, cyc_of w' (upd E l (del e (E l))) l0 =
                           if Nat.eqb l0 l then r :: del e (E l) else cyc_of w E l0).
  { intros l0. unfold cyc_of. subst w'. rewrite ur_roots. unfold upd.
    destruct (Nat.eqb_spec l0 l); [subst; rewrite Hr; reflexivity|reflexivity]. }
  split.
  - intros l0 Hl0. change (lfresh w') with (lfresh w) in Hl0. subst w'. rewrite ur_roots.
    destruct (Nat.eq_dec l0 l) as [->|Hne].
    + rewrite Hr, upd_same. split; auto.
      * rewrite ur_lists_l. simpl. rewrite Len.
        destruct (in_split _ _ He) as (pre & suf & EQ). rewrite EQ in *.
        rewrite del_split.
        -- rewrite !app_length. simpl. lia.
        -- inv ND. apply NoDup_mid_notin in H2. intros I. apply H2. apply in_or_app. auto.
      * rewrite ur_ok by auto. exact Rok.
      * rewrite Forall_forall in *. intros x Hx. rewrite ur_ok by auto.
        assert (M : In x (r :: E l)) by (apply MEM; right; right; exact Hx).
        destruct M as [->|M]; auto. exfalso. inv ND'. auto.
    + rewrite upd_other by auto. pose proof (wf_lists _ _ W l0 Hl0) as L0.
      destruct (lroot (lists w l0)) as [r0|] eqn:Hr0.
      * eapply lwf_frame; [| |exact L0]; [|rewrite ur_lists; auto].
        intros x Hx. destruct (WF_elem_in _ _ _ _ _ W Hl0 Hr0 Hx) as [Hox _].
        assert (Ip' : In p (r :: E l)) by (apply MEM; right; exact Ip).
        assert (Is' : In s (r :: E l)) by (apply MEM; right; exact Is).
        assert (x <> p) by (destruct (WF_elem_in _ _ _ _ _ W Hl Hr Ip'); congruence).
        assert (x <> s) by (destruct (WF_elem_in _ _ _ _ _ W Hl Hr Is'); congruence).
        rewrite ur_next, ur_prev, ur_ok by auto. auto.
      * rewrite ur_lists; auto.
  - intros x l0 Hx. change (nfresh w') with (nfresh w) in Hx. change (lfresh w') with (lfresh w).
    rewrite CYC. destruct (Nat.eq_dec x e) as [->|Hxe].
    + subst w'. rewrite ur_owner_e; auto. split; [discriminate|]. intros [Hl0 I]. exfalso.
      destruct (Nat.eqb_spec l0 l) as [->|Hne]; [auto|].
      assert (nowner (nodes w e) = Some l0) by (apply (wf_own _ _ W e l0 Hx); auto). congruence.
    + subst w'. rewrite ur_owner by auto. rewrite (wf_own _ _ W x l0 Hx).
      destruct (Nat.eqb_spec l0 l) as [->|Hne]; [|tauto].
      unfold cyc_of. rewrite Hr. rewrite MEM. intuition congruence.
  - intros l0 x Hl0 I. change (nfresh w') with (nfresh w). change (lfresh w') with (lfresh w) in Hl0.
    rewrite CYC in I. destruct (Nat.eqb_spec l0 l) as [->|Hne].
    + apply (WF_elem_in _ _ _ _ _ W Hl Hr). apply MEM. auto.
    + apply (wf_lt _ _ W l0 x Hl0 I).
Qed.
