(* SetInv (hash <-> element-store bijection), the reference set, the abstraction relation and the
   per-operation simulation lemmas for Model/SetModel.v. *)
From FunV Require Import Base.Tac Base.ListX Model.SetModel Proofs.SetModel_base.
Local Open Scope Z_scope.

(* ------------------------------------------------------------------ the invariant *)
Definition store_ok (m : hmap) (st : store) (nx : handle) : Prop :=
  NoDup (map fst st) /\ NoDup (st_items st) /\
  (forall k e, h_get m k = Some e -> exists h, e = Some h /\ In (h, k) st) /\
  (forall h k, In (h, k) st -> h_get m k = Some (Some h)) /\
  (forall h k, In (h, k) st -> h < nx).

(* ordered -> hash keys and list elements are in bijection: each key maps to Some e with e attached
   and item e = key (and conversely), handles and items are duplicate-free; the hash is a proper map. *)
Definition SetInv (s : set) : Prop :=
  h_sorted (hm s) /\
  match s_list s with None => True | Some st => store_ok (hm s) st (s_next s) end.

Lemma store_ok_perm m st nx : h_sorted m -> store_ok m st nx -> Permutation (h_keys m) (st_items st).
Proof.
  intros Hs (ND1 & ND2 & A & B & _). apply NoDup_Permutation; [apply h_sorted_nodup, Hs|exact ND2|].
  intros x. split.
  - intros Hin. apply h_get_in in Hin. destruct (h_get m x) as [e|] eqn:E; [|congruence].
    destruct (A x e E) as (h & -> & Hin'). unfold st_items. apply in_map_iff. exists (h, x). auto.
  - intros Hin. unfold st_items in Hin. apply in_map_iff in Hin. destruct Hin as ([h k] & E & Hin). simpl in E. subst.
    apply h_get_in. rewrite (B h x Hin). discriminate.
Qed.

Lemma nodup_snoc {A} (l : list A) (x : A) : NoDup l -> ~ In x l -> NoDup (l ++ [x]).
Proof.
  intros ND N. apply (Permutation_NoDup (l := x :: l)); [apply Permutation_cons_append|constructor; assumption].
Qed.

Lemma st_remove_items' st h k :
  NoDup (map fst st) -> NoDup (st_items st) -> In (h, k) st ->
  st_items (fst (st_remove st h)) = filter (fun x => negb (Z.eqb x k)) (st_items st).
Proof. intros A B C. destruct (st_remove_items st h k A C) as [E|N]; [exact E|contradiction]. Qed.

(* ------------------------------------------------------------------ the reference set *)
(* A finite set with insertion order: duplicate-free list of members, oldest first. For an
   unordered set the order of [r_elems] carries no meaning (observations are up to permutation). *)
Record rset := mkR { r_elems : list Z; r_ordered : bool }.

Definition r_empty : rset := mkR [] false.
Definition r_mem (r : rset) (v : Z) : bool := existsb (Z.eqb v) (r_elems r).
Definition r_add (r : rset) (v : Z) : rset * bool :=
  if r_mem r v then (r, true) else (mkR (r_elems r ++ [v]) (r_ordered r), false).
Definition r_del (r : rset) (v : Z) : rset * bool :=
  if r_mem r v then (mkR (filter (fun x => negb (Z.eqb x v)) (r_elems r)) (r_ordered r), true) else (r, false).
Definition r_populate (r : rset) (vs : list Z) : rset := fold_left (fun r v => fst (r_add r v)) vs r.
Definition r_len (r : rset) : Z := Z.of_nat (length (r_elems r)).
Definition r_order (r : rset) : rset * bool :=
  if r_ordered r then (r, false)
  else match r_elems r with [] => (mkR [] true, false) | _ => (r, true) end.
Definition r_sort (lt : Z -> Z -> bool) (choice : list Z) (r : rset) : option rset :=
  if r_ordered r then Some (mkR (v_sort lt (r_elems r)) true)
  else if perm_b choice (r_elems r) then Some (mkR (v_sort lt choice) true) else None.
Definition r_iterate (r : rset) (choice : list Z) : option (list Z) :=
  if r_ordered r then Some (r_elems r)
  else if perm_b choice (r_elems r) then Some choice else None.
Definition r_equal (r o : rset) : bool :=
  Bool.eqb (r_ordered r) (r_ordered o) &&
  (if r_ordered r then (if list_eq_dec Z.eq_dec (r_elems r) (r_elems o) then true else false)
   else perm_b (r_elems r) (r_elems o)).
Fixpoint r_unmarshal (r : rset) (items : list (option Z)) : rset * bool :=
  match items with
  | [] => (r, false)
  | Some v :: rest => r_unmarshal (fst (r_add r v)) rest
  | None :: _ => (r, true)
  end.

(* ------------------------------------------------------------------ abstraction *)
Definition abs (s : set) (r : rset) : Prop :=
  SetInv s /\ is_ordered s = r_ordered r /\ Permutation (h_keys (hm s)) (r_elems r) /\
  match s_list s with Some st => st_items st = r_elems r | None => True end.

Lemma hm_lock s : hm (s_lock s) = hm s.
Proof. destruct s as [[h|] l n m]; reflexivity. Qed.
Lemma list_lock s : s_list (s_lock s) = s_list s.
Proof. destruct s as [[h|] l n m]; reflexivity. Qed.
Lemma next_lock s : s_next (s_lock s) = s_next s.
Proof. destruct s as [[h|] l n m]; reflexivity. Qed.
Lemma mtx_lock s : s_mtx (s_lock s) = s_mtx s.
Proof. destruct s as [[h|] l n m]; reflexivity. Qed.
Lemma hash_lock s : s_hash (s_lock s) = Some (hm s).
Proof. destruct s as [[h|] l n m]; reflexivity. Qed.
Lemma lock_idem s : s_lock (s_lock s) = s_lock s.
Proof. unfold s_lock at 1. rewrite hash_lock. reflexivity. Qed.

Lemma SetInv_lock s : SetInv s -> SetInv (s_lock s).
Proof. unfold SetInv. rewrite hm_lock, list_lock, next_lock. tauto. Qed.

Lemma abs_lock s r : abs s r -> abs (s_lock s) r.
Proof.
  unfold abs, is_ordered. intros (I & O & P & L). rewrite hm_lock, list_lock.
  split; [apply SetInv_lock, I|]. tauto.
Qed.

Lemma abs_mem s r v : abs s r -> h_check (hm s) v = r_mem r v.
Proof.
  intros (_ & _ & P & _). apply bool_eq_iff. unfold r_mem. rewrite h_check_in, existsb_eqb_In.
  split; intros H; [eapply Permutation_in; eauto|eapply Permutation_in; [symmetry; exact P|exact H]].
Qed.

Lemma abs_len s r : abs s r -> h_len (hm s) = r_len r.
Proof.
  intros (_ & _ & P & _). unfold h_len, r_len. f_equal. apply Permutation_length in P.
  unfold h_keys in P. rewrite map_length in P. exact P.
Qed.

Lemma abs_nodup s r : abs s r -> NoDup (r_elems r).
Proof.
  intros ((Hs & _) & _ & P & _). eapply Permutation_NoDup; [exact P|apply h_sorted_nodup, Hs].
Qed.

(* introduction rule for ordered sets: the permutation follows from the bijection *)
Lemma abs_ordered_intro s st r :
  SetInv s -> s_list s = Some st -> r_ordered r = true -> st_items st = r_elems r -> abs s r.
Proof.
  intros I L O E. unfold abs, is_ordered. rewrite L.
  split; [exact I|]. split; [symmetry; exact O|]. split; [|exact E].
  destruct I as [Hs Ok]. rewrite L in Ok. rewrite <- E. eapply store_ok_perm; eauto.
Qed.

(* every state satisfying the invariant has an abstract counterpart *)
Definition abs_of (s : set) : rset :=
  mkR (match s_list s with Some st => st_items st | None => h_keys (hm s) end) (is_ordered s).

Lemma abs_abs_of s : SetInv s -> abs s (abs_of s).
Proof.
  intros I. destruct (s_list s) as [st|] eqn:L.
  - apply abs_ordered_intro with (st := st); auto; unfold abs_of, is_ordered; simpl; rewrite L; reflexivity.
  - unfold abs, abs_of, is_ordered. simpl. rewrite L. split; [exact I|]. split; [reflexivity|]. split; [reflexivity|exact Logic.I].
Qed.

(* ------------------------------------------------------------------ AddCheck *)
Lemma r_mem_in r v : r_mem r v = true <-> In v (r_elems r).
Proof. apply existsb_eqb_In. Qed.

Lemma abs_add s r v :
  abs s r -> abs (fst (add_check s v)) (fst (r_add r v)) /\ snd (add_check s v) = snd (r_add r v).
Proof.
  intros A0. pose proof (abs_lock _ _ A0) as A. unfold add_check, r_add.
  rewrite (abs_mem _ _ v A). destruct (r_mem r v) eqn:M; [simpl; auto|].
  assert (Nk : ~ In v (h_keys (hm (s_lock s)))).
  { rewrite <- h_check_in, (abs_mem _ _ v A), M. discriminate. }
  destruct A as ((Hs & Ok) & O & P & L).
  destruct (s_list (s_lock s)) as [st|] eqn:EL; simpl; split; auto.
  - (* ordered: fresh element appended and indexed *)
    destruct Ok as (ND1 & ND2 & G1 & G2 & Fr).
    assert (Nit : ~ In v (st_items st)).
    { intros Hin. apply Nk. eapply Permutation_in; [symmetry; eapply store_ok_perm; eauto|exact Hin].
      repeat split; eauto. }
    eapply abs_ordered_intro with (st := st_push_back st (s_next (s_lock s)) v); simpl; auto.
    + unfold SetInv, hm; simpl. split; [apply h_sorted_set, Hs|].
      unfold store_ok. repeat split.
      * unfold st_push_back. rewrite map_app. simpl. apply nodup_snoc; [exact ND1|].
        intros Hin. apply in_map_iff in Hin. destruct Hin as ([h k] & E & Hin). simpl in E. subst.
        specialize (Fr _ _ Hin). lia.
      * rewrite st_items_push. apply nodup_snoc; assumption.
      * intros k e E. destruct (Z.eq_dec k v) as [->|N].
        -- rewrite h_get_set_same in E. inv E. eexists. split; [reflexivity|].
           unfold st_push_back. apply in_or_app. right. left. reflexivity.
        -- rewrite h_get_set_other in E by exact N. destruct (G1 k e E) as (h & -> & Hin).
           exists h. split; [reflexivity|]. unfold st_push_back. apply in_or_app. auto.
      * intros h k Hin. unfold st_push_back in Hin. apply in_app_or in Hin. destruct Hin as [Hin|[E|[]]].
        -- assert (k <> v).
           { intros ->. apply Nit. unfold st_items. apply in_map_iff. exists (h, v). auto. }
           rewrite h_get_set_other by assumption. apply G2, Hin.
        -- inv E. apply h_get_set_same.
      * intros h k Hin. unfold st_push_back in Hin. apply in_app_or in Hin. destruct Hin as [Hin|[E|[]]].
        -- specialize (Fr _ _ Hin). lia.
        -- inv E. lia.
    + unfold is_ordered in O. rewrite EL in O. auto.
    + rewrite st_items_push, L. reflexivity.
  - (* unordered: SetDefault *)
    unfold abs, SetInv, is_ordered, hm; simpl. repeat split; auto.
    + apply h_sorted_set, Hs.
    + unfold is_ordered in O. rewrite EL in O. exact O.
    + rewrite h_keys_set_absent by exact Nk. apply Permutation_app_tail. exact P.
Qed.
