(* Refinement: the pointer-level model of dt.Stack (Model/StackHeap.v) simulates the plain-list
   reference (Proofs/StackHeap_ref.v), operation by operation. *)
From FunV Require Import Base.Tac Model.StackHeap Proofs.StackHeap_ref Proofs.StackHeap_wf.
Local Open Scope Z_scope.

Arguments fuel_of : simpl never.

Record R (w : world) (r : rstate) : Prop := {
  r_wf : WF w (rseq r) (rsen r);
  r_val : forall x, ivalue (items w x) = rval r x;
  r_ok : forall x, iok (items w x) = rok r x;
  r_nx : forall x, istack (items w x) = None -> inext (items w x) = rnx r x;
  r_if : ifresh w = rif r;
  r_sf : sfresh w = rsf r;
}.

(* ------------------------------------------------------------------ list facts *)

Lemma mem_In x l : mem x l = true <-> In x l.
Proof.
  unfold mem. rewrite existsb_exists. split.
  - intros (y & I & E). apply Nat.eqb_eq in E. now subst.
  - intros I. exists x. split; [exact I|apply Nat.eqb_refl].
Qed.

Lemma mem_false x l : mem x l = false <-> ~ In x l.
Proof. rewrite <- mem_In. destruct (mem x l); split; congruence. Qed.

Lemma find_unique (f : nat -> bool) l s :
  In s l -> f s = true -> (forall t, f t = true -> t = s) -> find f l = Some s.
Proof.
  induction l as [|a l IH]; simpl; intros I F U; [contradiction|].
  destruct (f a) eqn:Fa; [f_equal; auto|].
  destruct I as [->|I]; [congruence|auto].
Qed.

Lemma find_all_false (f : nat -> bool) l : (forall t, f t = false) -> find f l = None.
Proof. intros F. induction l as [|a l IH]; simpl; [reflexivity|]. now rewrite F. Qed.

(* ------------------------------------------------------------------ the owner field is membership *)

Lemma owner_sim w r x : R w r -> r_owner r x = istack (items w x).
Proof.
  intros HR. pose proof (r_wf _ _ HR) as W. unfold r_owner.
  assert (IFF : forall s, r_in r x s = true <-> istack (items w x) = Some s).
  { intros s. rewrite (wf_owner_iff _ _ _ W). unfold r_in. rewrite orb_true_iff, mem_In.
    destruct (onat_eqb_spec (rsen r s) (Some x)); intuition congruence. }
  destruct (istack (items w x)) as [s|] eqn:E.
  - apply find_unique.
    + apply in_seq. split; [lia|]. simpl. rewrite <- (r_sf _ _ HR). eapply wf_sfresh; eassumption.
    + now apply IFF.
    + intros t T. apply IFF in T. congruence.
  - apply find_all_false. intros t. destruct (r_in r x t) eqn:T; [|reflexivity].
    apply IFF in T. congruence.
Qed.

Lemma mem_sim w r x s : R w r -> istack (items w x) = Some s -> mem x (rseq r s) = iok (items w x).
Proof.
  intros HR E. pose proof (r_wf _ _ HR) as W. pose proof (wf_owner _ _ _ W _ _ E) as O.
  destruct (iok (items w x)) eqn:K.
  - now apply mem_In.
  - apply mem_false. intros I. apply (wf_member _ _ _ W) in I. destruct I. congruence.
Qed.

(* Next() *)
Lemma next_sim w r x : R w r -> r_next r x = inext (items w x).
Proof.
  intros HR. pose proof (r_wf _ _ HR) as W. unfold r_next. rewrite (owner_sim _ _ _ HR).
  destruct (istack (items w x)) as [s|] eqn:E; [|symmetry; now apply (r_nx _ _ HR)].
  rewrite (mem_sim _ _ _ _ HR E). pose proof (wf_owner _ _ _ W _ _ E) as O.
  destruct (iok (items w x)).
  - assert (exists h, shead (stacks w s) = Some h) as (h & Hd).
    { destruct (shead (stacks w s)) eqn:Hd; [eauto|]. apply (wf_uninit _ _ _ W) in Hd. destruct Hd as (Hd & _).
      rewrite Hd in O. contradiction. }
    destruct (wf_chain _ _ _ W _ _ Hd) as (e & Se & C). rewrite Se.
    symmetry. eapply chain_next; [exact C|apply (wf_nodup _ _ _ W)|exact O].
  - apply (wf_sentinel _ _ _ W) in O. symmetry. tauto.
Qed.

(* ------------------------------------------------------------------ primitive transitions
   Each lemma takes the new world through a pointwise description, so that it can be applied to
   whatever sequence of field writes the code performs. *)

Lemma R_rsen_fresh w r s : R w r -> (rsf r <= s)%nat -> rsen r s = None /\ rseq r s = [].
Proof.
  intros HR G. pose proof (r_wf _ _ HR) as W. rewrite <- (r_sf _ _ HR) in G.
  apply (wf_shead_fresh _ _ _ W) in G. apply (wf_uninit _ _ _ W) in G. tauto.
Qed.

(* &Item{value: v, ok: k}  (next and stack nil) *)
Lemma alloc_sim w r v k : R w r ->
  R (fst (alloc_item w (mkItem None None k v))) (fst (r_alloc r v k)) /\ snd (r_alloc r v k) = ifresh w.
Proof.
  intros HR. pose proof (r_wf _ _ HR) as W. destruct HR as [_ V K N FI FS].
  unfold alloc_item, r_alloc; simpl. split; [|auto]. rewrite <- FI.
  constructor; simpl; auto.
  - constructor; simpl.
    + apply (wf_uninit _ _ _ W).
    + intros s h Hd. destruct (wf_chain _ _ _ W _ _ Hd) as (e & Se & C). exists e. split; [exact Se|].
      eapply chain_frame; [|exact C]. intros x I. simpl.
      apply (wf_member_lt _ _ _ W) in I. rewrite upd_other by lia. reflexivity.
    + apply (wf_len _ _ _ W).
    + apply (wf_nodup _ _ _ W).
    + intros s x I. pose proof (wf_member_lt _ _ _ W _ _ I). rewrite upd_other by lia.
      now apply (wf_member _ _ _ W).
    + intros s e Se. pose proof (wf_sentinel _ _ _ W _ _ Se) as (E1 & E2 & E3).
      pose proof (wf_item_lt _ _ _ W _ _ E1). rewrite upd_other by lia. auto.
    + intros x s. unfold upd. destruct (Nat.eqb_spec x (ifresh w)); simpl; [discriminate|].
      apply (wf_owner _ _ _ W).
    + intros x G. unfold upd. destruct (Nat.eqb_spec x (ifresh w)); simpl; [reflexivity|].
      apply (wf_ifresh _ _ _ W). lia.
    + intros x y L. unfold upd. destruct (Nat.eqb_spec x (ifresh w)); simpl; [discriminate|].
      intros E. assert (y < ifresh w)%nat by (eapply (wf_next_lt _ _ _ W); [|exact E]; lia). lia.
    + intros x s. unfold upd. destruct (Nat.eqb_spec x (ifresh w)); simpl; [discriminate|].
      apply (wf_sfresh _ _ _ W).
    + apply (wf_shead_fresh _ _ _ W).
  - intros x. unfold upd. destruct (Nat.eqb_spec x (ifresh w)); simpl; auto.
  - intros x. unfold upd. destruct (Nat.eqb_spec x (ifresh w)); simpl; auto.
  - intros x. unfold upd. destruct (Nat.eqb_spec x (ifresh w)); simpl; auto.
Qed.

(* ---- lazyInit on a zero-value stack *)
Lemma lazy_init_items w s x : shead (stacks w s) = None ->
  items (lazy_init w s) x = if Nat.eqb x (ifresh w) then mkItem None (Some s) false 0 else items w x.
Proof.
  intros Hd. unfold lazy_init. rewrite Hd. heap_unfold. unfold upd. rewrite !Nat.eqb_refl. simpl.
  destruct (Nat.eqb x (ifresh w)); reflexivity.
Qed.

Lemma lazy_init_stacks w s t : shead (stacks w s) = None ->
  stacks (lazy_init w s) t = if Nat.eqb t s then mkSrec (Some (ifresh w)) 0 else stacks w t.
Proof.
  intros Hd. unfold lazy_init. rewrite Hd. heap_unfold. unfold upd. rewrite !Nat.eqb_refl. simpl.
  destruct (Nat.eqb t s); reflexivity.
Qed.

Lemma lazy_init_fresh w s : shead (stacks w s) = None ->
  ifresh (lazy_init w s) = S (ifresh w) /\ sfresh (lazy_init w s) = sfresh w.
Proof. intros Hd. unfold lazy_init. rewrite Hd. heap_unfold. auto. Qed.

Lemma lazy_init_id w s h : shead (stacks w s) = Some h -> lazy_init w s = w.
Proof. intros Hd. unfold lazy_init. now rewrite Hd. Qed.

Lemma lazy_init_sim w r s : R w r -> (s < sfresh w)%nat -> R (lazy_init w s) (r_init r s).
Proof.
  intros HR Ls. pose proof (r_wf _ _ HR) as W.
  destruct (shead (stacks w s)) as [h|] eqn:Hd.
  { rewrite (lazy_init_id _ _ _ Hd). destruct (wf_sn_of_head _ _ _ W _ _ Hd) as (e & Se).
    unfold r_init. now rewrite Se. }
  destruct (wf_uninit _ _ _ W _ Hd) as (Cs & Ss).
  destruct (lazy_init_fresh _ _ Hd) as (F1 & F2).
  pose proof (lazy_init_items w s) as HI. pose proof (lazy_init_stacks w s) as HS.
  destruct HR as [_ V K N FI FS].
  unfold r_init. rewrite Ss. unfold r_alloc. simpl. rewrite <- FI.
  set (i := ifresh w) in *.
  constructor; simpl; auto; try lia.
  - constructor; simpl.
    + intros t. rewrite HS by exact Hd. destruct (Nat.eqb_spec t s); simpl; [discriminate|].
      rewrite upd_other by assumption. apply (wf_uninit _ _ _ W).
    + intros t h. rewrite HS by exact Hd. destruct (Nat.eqb_spec t s); simpl.
      * subst t. intros E. inv E. exists i. rewrite upd_same. split; [reflexivity|]. rewrite Cs. reflexivity.
      * intros Ht. destruct (wf_chain _ _ _ W _ _ Ht) as (e & Se & C). exists e. rewrite upd_other by assumption.
        split; [exact Se|]. eapply chain_frame; [|exact C]. intros x I. rewrite HI by exact Hd.
        apply (wf_member_lt _ _ _ W) in I. destruct (Nat.eqb_spec x i); [lia|reflexivity].
    + intros t. rewrite HS by exact Hd. destruct (Nat.eqb_spec t s); simpl; [subst; now rewrite Cs|].
      apply (wf_len _ _ _ W).
    + apply (wf_nodup _ _ _ W).
    + intros t x I. rewrite HI by exact Hd. pose proof (wf_member_lt _ _ _ W _ _ I).
      destruct (Nat.eqb_spec x i); [lia|]. now apply (wf_member _ _ _ W).
    + intros t e. unfold upd. destruct (Nat.eqb_spec t s).
      * intros E. inv E. rewrite HI by exact Hd. fold i. rewrite Nat.eqb_refl. simpl. auto.
      * intros Se. rewrite HI by exact Hd. pose proof (wf_sentinel _ _ _ W _ _ Se) as (E1 & E2 & E3).
        pose proof (wf_item_lt _ _ _ W _ _ E1). destruct (Nat.eqb_spec e i); [lia|auto].
    + intros x t. rewrite HI by exact Hd. destruct (Nat.eqb_spec x i); simpl.
      * intros E. inv E. now rewrite upd_same.
      * intros E. pose proof (wf_owner _ _ _ W _ _ E) as O. destruct (iok (items w x)); [exact O|].
        unfold upd. destruct (Nat.eqb_spec t s); [subst; congruence|exact O].
    + intros x G. rewrite HI by exact Hd. destruct (Nat.eqb_spec x i); [lia|]. apply (wf_ifresh _ _ _ W). lia.
    + intros x y L. rewrite HI by exact Hd. destruct (Nat.eqb_spec x i); simpl; [discriminate|].
      intros E. assert (y < ifresh w)%nat by (eapply (wf_next_lt _ _ _ W); [|exact E]; lia). lia.
    + intros x t. rewrite HI by exact Hd. destruct (Nat.eqb_spec x i); simpl.
      * intros E. inv E. lia.
      * rewrite F2. apply (wf_sfresh _ _ _ W).
    + intros t G. rewrite HS by exact Hd. destruct (Nat.eqb_spec t s); [lia|]. apply (wf_shead_fresh _ _ _ W). lia.
  - intros x. rewrite HI by exact Hd. unfold upd. destruct (Nat.eqb_spec x i); simpl; auto.
  - intros x. rewrite HI by exact Hd. unfold upd. destruct (Nat.eqb_spec x i); simpl; auto.
  - intros x. rewrite HI by exact Hd. unfold upd. destruct (Nat.eqb_spec x i); simpl; [discriminate|auto].
Qed.

(* facts about an initialised stack *)
Lemma R_head_owner w r s h : R w r -> shead (stacks w s) = Some h ->
  istack (items w h) = Some s /\ (h < ifresh w)%nat /\ (s < sfresh w)%nat.
Proof.
  intros HR Hd. pose proof (r_wf _ _ HR) as W. pose proof (wf_head_top _ _ _ W _ _ Hd) as T.
  assert (E : istack (items w h) = Some s).
  { apply (wf_owner_iff _ _ _ W). destruct (rseq r s) as [|x l] eqn:L.
    - right. congruence.
    - left. inv T. now left. }
  split; [exact E|]. split; [eapply wf_item_lt; eassumption|eapply wf_stack_lt; eassumption].
Qed.

(* ---- linking a free, valid item n on top of the initialised stack s  (the writes of Item.Append) *)
Lemma link_sim w w' r s n h :
  R w r -> shead (stacks w s) = Some h ->
  istack (items w n) = None -> iok (items w n) = true -> (n < ifresh w)%nat ->
  (forall x, items w' x = upd (items w) n (mkItem (Some h) (Some s) true (ivalue (items w n))) x) ->
  (forall t, stacks w' t = upd (stacks w) s (mkSrec (Some n) (slen (stacks w s) + 1)) t) ->
  ifresh w' = ifresh w -> sfresh w' = sfresh w ->
  R w' (r_cons r s n).
Proof.
  intros HR Hd Sn Kn Ln HI HS F1 F2. pose proof (r_wf _ _ HR) as W.
  destruct (R_head_owner _ _ _ _ HR Hd) as (Eh & Lh & Ls).
  destruct HR as [_ V K N FI FS].
  assert (NM : forall t x, In x (rseq r t) -> x <> n).
  { intros t x I ->. apply (wf_member _ _ _ W) in I. destruct I. congruence. }
  unfold r_cons, set_rseq. constructor; simpl; auto; try congruence.
  - constructor; simpl.
    + intros t. rewrite HS. unfold upd. destruct (Nat.eqb_spec t s); simpl; [discriminate|]. apply (wf_uninit _ _ _ W).
    + intros t h'. rewrite HS. unfold upd at 1 2. destruct (Nat.eqb_spec t s); simpl.
      * subst t. intros E. inv E. destruct (wf_chain _ _ _ W _ _ Hd) as (e & Se & C). exists e. split; [exact Se|].
        simpl. split; [reflexivity|]. exists h. split; [rewrite HI, upd_same; reflexivity|].
        eapply chain_frame; [|exact C]. intros x I. rewrite HI, upd_other by (eapply NM; eassumption). reflexivity.
      * intros Ht. destruct (wf_chain _ _ _ W _ _ Ht) as (e & Se & C). exists e. split; [exact Se|].
        eapply chain_frame; [|exact C]. intros x I. rewrite HI, upd_other by (eapply NM; eassumption). reflexivity.
    + intros t. rewrite HS. unfold upd. destruct (Nat.eqb_spec t s); simpl.
      * subst t. rewrite (wf_len _ _ _ W). lia.
      * apply (wf_len _ _ _ W).
    + intros t. unfold upd. destruct (Nat.eqb_spec t s); [|apply (wf_nodup _ _ _ W)].
      subst t. constructor; [|apply (wf_nodup _ _ _ W)]. intros I. eapply NM; eauto.
    + intros t x. unfold upd at 1. destruct (Nat.eqb_spec t s).
      * subst t. intros [<-|I].
        -- rewrite HI, upd_same. simpl. auto.
        -- rewrite HI, upd_other by (eapply NM; eassumption). now apply (wf_member _ _ _ W).
      * intros I. rewrite HI, upd_other by (eapply NM; eassumption). now apply (wf_member _ _ _ W).
    + intros t e Se. pose proof (wf_sentinel _ _ _ W _ _ Se) as (E1 & E2 & E3).
      rewrite HI, upd_other by congruence. auto.
    + intros x t. rewrite HI. unfold upd at 1 2. destruct (Nat.eqb_spec x n); simpl.
      * intros E. inv E. rewrite upd_same. now left.
      * intros E. pose proof (wf_owner _ _ _ W _ _ E) as O. destruct (iok (items w x)); [|exact O].
        unfold upd. destruct (Nat.eqb_spec t s); [subst; now right|exact O].
    + intros x G. rewrite HI, upd_other by lia. apply (wf_ifresh _ _ _ W). lia.
    + intros x y L. rewrite HI. unfold upd. destruct (Nat.eqb_spec x n); simpl.
      * intros E. inv E. lia.
      * rewrite F1. apply (wf_next_lt _ _ _ W). lia.
    + intros x t. rewrite HI. unfold upd. destruct (Nat.eqb_spec x n); simpl.
      * intros E. inv E. lia.
      * rewrite F2. apply (wf_sfresh _ _ _ W).
    + intros t G. rewrite HS. unfold upd. destruct (Nat.eqb_spec t s); [lia|]. apply (wf_shead_fresh _ _ _ W). lia.
  - intros x. rewrite HI. unfold upd. destruct (Nat.eqb_spec x n); simpl; [subst; auto|auto].
  - intros x. rewrite HI. unfold upd. destruct (Nat.eqb_spec x n); simpl; [subst; rewrite <- K; auto|auto].
  - intros x. rewrite HI. unfold upd. destruct (Nat.eqb_spec x n); simpl; [discriminate|auto].
Qed.

Lemma R_owner_init w r x s : R w r -> istack (items w x) = Some s -> exists h, shead (stacks w s) = Some h.
Proof.
  intros HR E. pose proof (r_wf _ _ HR) as W. apply (wf_owner_iff _ _ _ W) in E.
  destruct (shead (stacks w s)) as [h|] eqn:Hd; [eauto|]. apply (wf_uninit _ _ _ W) in Hd. destruct Hd as (C & S).
  rewrite C, S in E. destruct E as [[]|]; discriminate.
Qed.

Ltac pointwise :=
  let y := fresh "y" in
  intros y; heap_unfold; unfold upd; rewrite ?Nat.eqb_refl; simpl;
  repeat match goal with |- context [Nat.eqb ?a ?b] => destruct (Nat.eqb a b) end; reflexivity.

(* ---- Item.Append *)
Lemma append_sim w r it n :
  R w r -> (forall i, n = Some i -> (i < ifresh w)%nat) ->
  match i_append w it n, r_append r it n with
  | Ok (w', x), Ok (r', x') => x = x' /\ R w' r'
  | Panic, Panic => True
  | _, _ => False
  end.
Proof.
  intros HR Ln. unfold i_append, r_append.
  destruct n as [n|]; [|auto]. destruct it as [i|]; [|exact I].
  rewrite !(owner_sim _ _ _ HR). destruct (istack (items w i)) as [s|] eqn:Ei; [|auto].
  destruct (istack (items w n)) as [t|] eqn:En; [auto|].
  rewrite <- (r_ok _ _ HR). destruct (iok (items w n)) eqn:Kn; simpl; [|auto].
  split; [reflexivity|].
  destruct (R_owner_init _ _ _ _ HR Ei) as (h & Hd). rewrite (lazy_init_id _ _ _ Hd).
  eapply link_sim; try eassumption; try (heap_unfold; reflexivity).
  - auto.
  - intros x. heap_unfold. rewrite Hd. unfold upd. rewrite !Nat.eqb_refl. simpl.
    destruct (Nat.eqb x n); [rewrite Kn|]; reflexivity.
  - intros t. heap_unfold. unfold upd. rewrite !Nat.eqb_refl. simpl. destruct (Nat.eqb t s); reflexivity.
Qed.

(* ---- taking the top item h off stack s  (the writes of Stack.Pop) *)
Lemma unlink_top_sim w w' r s h l :
  R w r -> shead (stacks w s) = Some h -> rseq r s = h :: l ->
  (forall x, items w' x = upd (items w) h (mkItem (inext (items w h)) None (iok (items w h)) (ivalue (items w h))) x) ->
  (forall t, stacks w' t = upd (stacks w) s (mkSrec (inext (items w h)) (slen (stacks w s) - 1)) t) ->
  ifresh w' = ifresh w -> sfresh w' = sfresh w ->
  R w' (set_rseq (set_rnx r (upd (rnx r) h (match l with y :: _ => Some y | [] => rsen r s end))) s l).
Proof.
  intros HR Hd L HI HS F1 F2. pose proof (r_wf _ _ HR) as W.
  destruct (R_head_owner _ _ _ _ HR Hd) as (Eh & Lh & Ls).
  destruct (wf_chain _ _ _ W _ _ Hd) as (e & Se & C). rewrite L in C. simpl in C.
  destruct C as (_ & nx & Nx & C).
  pose proof (wf_nodup _ _ _ W s) as ND. rewrite L in ND. inv ND. rename H1 into NI. rename H2 into ND.
  assert (NM : forall t x, In x (rseq r t) -> (t = s -> In x l) -> x <> h).
  { intros t x I Q ->. assert (t = s). { eapply (wf_disjoint _ _ _ W); [exact I|rewrite L; now left]. }
    auto. }
  destruct HR as [_ V K N FI FS].
  unfold set_rseq, set_rnx. constructor; simpl; auto; try congruence.
  - constructor; simpl.
    + intros t. rewrite HS. unfold upd. destruct (Nat.eqb_spec t s); simpl; [congruence|]. apply (wf_uninit _ _ _ W).
    + intros t h'. rewrite HS. unfold upd at 1 2. destruct (Nat.eqb_spec t s); simpl.
      * subst t. rewrite Nx. intros E. inv E. exists e. split; [exact Se|].
        eapply chain_frame; [|exact C]. intros x I. rewrite HI, upd_other by (intros ->; contradiction). reflexivity.
      * intros Ht. destruct (wf_chain _ _ _ W _ _ Ht) as (e' & Se' & C'). exists e'. split; [exact Se'|].
        eapply chain_frame; [|exact C']. intros x I. rewrite HI, upd_other by (eapply NM; [exact I|congruence]). reflexivity.
    + intros t. rewrite HS. unfold upd. destruct (Nat.eqb_spec t s); simpl.
      * subst t. rewrite (wf_len _ _ _ W), L. simpl length. lia.
      * apply (wf_len _ _ _ W).
    + intros t. unfold upd. destruct (Nat.eqb_spec t s); [exact ND|apply (wf_nodup _ _ _ W)].
    + intros t x. unfold upd at 1. destruct (Nat.eqb_spec t s).
      * subst t. intros I. rewrite HI, upd_other by (intros ->; contradiction). apply (wf_member _ _ _ W). rewrite L. now right.
      * intros I. rewrite HI, upd_other by (eapply NM; [exact I|congruence]). now apply (wf_member _ _ _ W).
    + intros t e' Se'. pose proof (wf_sentinel _ _ _ W _ _ Se') as (E1 & E2 & E3).
      assert (e' <> h). { intros ->. eapply (wf_sentinel_notin _ _ _ W _ _ Se' s). rewrite L. now left. }
      rewrite HI, upd_other by assumption. auto.
    + intros x t. rewrite HI. unfold upd at 1 2. destruct (Nat.eqb_spec x h); simpl; [discriminate|].
      intros E. pose proof (wf_owner _ _ _ W _ _ E) as O. destruct (iok (items w x)); [|exact O].
      unfold upd. destruct (Nat.eqb_spec t s); [|exact O]. subst t. rewrite L in O. destruct O; [congruence|assumption].
    + intros x G. rewrite HI. unfold upd. destruct (Nat.eqb_spec x h); simpl; [reflexivity|]. apply (wf_ifresh _ _ _ W). lia.
    + intros x y Lx. rewrite HI. rewrite F1 in *. unfold upd. destruct (Nat.eqb_spec x h); simpl.
      * subst x. apply (wf_next_lt _ _ _ W). lia.
      * apply (wf_next_lt _ _ _ W). lia.
    + intros x t. rewrite HI. unfold upd. destruct (Nat.eqb_spec x h); simpl; [discriminate|].
      rewrite F2. apply (wf_sfresh _ _ _ W).
    + intros t G. rewrite HS. unfold upd. destruct (Nat.eqb_spec t s); [lia|]. apply (wf_shead_fresh _ _ _ W). lia.
  - intros x. rewrite HI. unfold upd. destruct (Nat.eqb_spec x h); simpl; [subst; auto|auto].
  - intros x. rewrite HI. unfold upd. destruct (Nat.eqb_spec x h); simpl; [subst; auto|auto].
  - intros x. rewrite HI. destruct (Nat.eq_dec x h) as [->|NE].
    + rewrite !upd_same. simpl. intros _. rewrite Nx. apply chain_hd in C. destruct l; congruence.
    + rewrite !upd_other by assumption. auto.
Qed.

(* ---- Stack.Pop *)
Lemma pop_sim w r s : R w r -> (s < sfresh w)%nat ->
  snd (s_pop w s) = snd (r_pop r s) /\ R (fst (s_pop w s)) (fst (r_pop r s)).
Proof.
  intros HR Ls. pose proof (r_wf _ _ HR) as W. unfold s_pop, r_pop.
  pose proof (lazy_init_sim _ _ _ HR Ls) as HR1.
  destruct (shead (stacks w s)) as [h|] eqn:Hd.
  - rewrite (lazy_init_id _ _ _ Hd) in HR1.
    destruct (wf_sn_of_head _ _ _ W _ _ Hd) as (e & Se).
    assert (r_init r s = r) as -> by (unfold r_init; now rewrite Se).
    pose proof (wf_head_top _ _ _ W _ _ Hd) as T. pose proof (wf_len _ _ _ W s) as Len.
    destruct (rseq r s) as [|x l] eqn:L; simpl in *.
    + rewrite Len. simpl. split; [congruence|exact HR].
    + inv T. destruct (Z.eqb_spec (slen (stacks w s)) 0) as [Z0|_]; [lia|]. simpl. split; [reflexivity|].
      eapply unlink_top_sim; try eassumption; try (heap_unfold; reflexivity).
      all: pointwise.
  - destruct (wf_uninit _ _ _ W _ Hd) as (Cs & Ss). simpl.
    pose proof (r_wf _ _ HR1) as W1.
    assert (Q : rseq (r_init r s) s = []). { unfold r_init. rewrite Ss. simpl. exact Cs. }
    rewrite Q. simpl. split; [|exact HR1].
    rewrite lazy_init_stacks by exact Hd. rewrite Nat.eqb_refl. simpl.
    unfold r_init. rewrite Ss. simpl. rewrite upd_same. now rewrite (r_if _ _ HR).
Qed.

Lemma lazy_init_head w r s : R w r -> (s < sfresh w)%nat ->
  exists h, shead (stacks (lazy_init w s) s) = Some h /\ top (r_init r s) s = Some h /\
            sfresh (lazy_init w s) = sfresh w.
Proof.
  intros HR Ls. pose proof (lazy_init_sim _ _ _ HR Ls) as HR1. pose proof (r_wf _ _ HR1) as W1.
  assert (exists h, shead (stacks (lazy_init w s) s) = Some h) as (h & Hd).
  { destruct (shead (stacks w s)) as [h|] eqn:Hd.
    - rewrite (lazy_init_id _ _ _ Hd). eauto.
    - rewrite lazy_init_stacks by exact Hd. rewrite Nat.eqb_refl. simpl. eauto. }
  exists h. split; [exact Hd|]. split.
  - pose proof (wf_head_top _ _ _ W1 _ _ Hd) as T. unfold top. destruct (rseq (r_init r s) s); congruence.
  - destruct (shead (stacks w s)) as [h'|] eqn:Hd'.
    + now rewrite (lazy_init_id _ _ _ Hd').
    + apply lazy_init_fresh. exact Hd'.
Qed.

(* ---- Stack.Push *)
Lemma push_sim w r s v : R w r -> (s < sfresh w)%nat ->
  exists w', s_push w s v = Ok w' /\ R w' (r_push r s v) /\ sfresh w' = sfresh w.
Proof.
  intros HR Ls. unfold s_push, r_push.
  pose proof (lazy_init_sim _ _ _ HR Ls) as HR1.
  destruct (lazy_init_head _ _ _ HR Ls) as (h & Hd & _ & SF).
  set (w1 := lazy_init w s) in *. set (r1 := r_init r s) in *.
  destruct (alloc_sim w1 r1 v true HR1) as (HR2 & Ex).
  unfold make_item. destruct (alloc_item w1 (mkItem None None true v)) as (w2, n) eqn:A.
  destruct (r_alloc r1 v true) as (r2, x) eqn:RA. simpl in *.
  assert (n = ifresh w1) by (unfold alloc_item in A; now inv A). subst n x.
  assert (Hd2 : shead (stacks w2 s) = Some h) by (unfold alloc_item in A; inv A; exact Hd).
  assert (In2 : items w2 (ifresh w1) = mkItem None None true v) by (unfold alloc_item in A; inv A; simpl; apply upd_same).
  assert (F2 : ifresh w2 = S (ifresh w1) /\ sfresh w2 = sfresh w1) by (unfold alloc_item in A; inv A; auto).
  rewrite Hd.
  destruct (R_head_owner _ _ _ _ HR2 Hd2) as (Eh & _ & _).
  unfold i_append. rewrite Eh, In2. simpl. rewrite (lazy_init_id _ _ _ Hd2).
  eexists. split; [reflexivity|]. destruct F2 as (F2 & F3). split.
  - eapply link_sim with (h := h); try eassumption; try (rewrite In2; reflexivity); try lia; try (heap_unfold; reflexivity).
    + intros x. heap_unfold. unfold upd. rewrite ?Nat.eqb_refl. simpl. rewrite Hd2, In2. simpl.
      destruct (Nat.eqb x (ifresh w1)); reflexivity.
    + pointwise.
  - heap_unfold. congruence.
Qed.

(* ---- Stack.Head *)
Lemma head_sim w r s : R w r -> (s < sfresh w)%nat ->
  snd (s_head w s) = snd (r_head r s) /\ R (fst (s_head w s)) (fst (r_head r s)).
Proof.
  intros HR Ls. unfold s_head, r_head. simpl. split; [|now apply lazy_init_sim].
  destruct (lazy_init_head _ _ _ HR Ls) as (h & Hd & T & _). congruence.
Qed.

Lemma succ_in_some x l e : exists y, succ_in x l (Some e) = Some y.
Proof.
  induction l as [|a l IH]; simpl; [eauto|]. destruct (Nat.eqb x a); [destruct l; eauto|exact IH].
Qed.

Lemma R_attached_next w r x s : R w r -> istack (items w x) = Some s -> iok (items w x) = true ->
  exists y, inext (items w x) = Some y.
Proof.
  intros HR E K. pose proof (r_wf _ _ HR) as W. pose proof (wf_owner _ _ _ W _ _ E) as O. rewrite K in O.
  destruct (R_owner_init _ _ _ _ HR E) as (h & Hd). destruct (wf_chain _ _ _ W _ _ Hd) as (e & Se & C).
  rewrite (chain_next _ _ _ _ _ C (wf_nodup _ _ _ W s) O). apply succ_in_some.
Qed.

(* ---- it.ok = true; it.value = v  on an item that is not a sentinel *)
Lemma setval_sim w w' r i v :
  R w r -> (istack (items w i) = None \/ iok (items w i) = true) ->
  (forall x, items w' x = upd (items w) i (mkItem (inext (items w i)) (istack (items w i)) true v) x) ->
  (forall t, stacks w' t = stacks w t) -> ifresh w' = ifresh w -> sfresh w' = sfresh w ->
  R w' (mkR (rseq r) (rsen r) (upd (rval r) i v) (upd (rok r) i true) (rnx r) (rif r) (rsf r)).
Proof.
  intros HR Hi HI HS F1 F2. pose proof (r_wf _ _ HR) as W. destruct HR as [_ V K N FI FS].
  assert (FN : forall x, inext (items w' x) = inext (items w x)).
  { intros x. rewrite HI. unfold upd. destruct (Nat.eqb_spec x i); [subst|]; reflexivity. }
  assert (FS' : forall x, istack (items w' x) = istack (items w x)).
  { intros x. rewrite HI. unfold upd. destruct (Nat.eqb_spec x i); [subst|]; reflexivity. }
  constructor; simpl; auto; try congruence.
  - constructor; simpl.
    + intros t. rewrite HS. apply (wf_uninit _ _ _ W).
    + intros t h. rewrite HS. intros Ht. destruct (wf_chain _ _ _ W _ _ Ht) as (e & Se & C). exists e. split; [exact Se|].
      eapply chain_frame; [|exact C]. intros x _. apply FN.
    + intros t. rewrite HS. apply (wf_len _ _ _ W).
    + apply (wf_nodup _ _ _ W).
    + intros t x I. rewrite FS'. destruct (wf_member _ _ _ W _ _ I) as (E1 & E2). split; [exact E1|].
      rewrite HI. unfold upd. destruct (Nat.eqb_spec x i); [reflexivity|exact E2].
    + intros t e Se. rewrite FS', FN. destruct (wf_sentinel _ _ _ W _ _ Se) as (E1 & E2 & E3). repeat split; auto.
      rewrite HI. unfold upd. destruct (Nat.eqb_spec e i); [|exact E2]. subst e. destruct Hi; congruence.
    + intros x t. rewrite FS'. intros E. pose proof (wf_owner _ _ _ W _ _ E) as O.
      rewrite HI. unfold upd. destruct (Nat.eqb_spec x i); [|exact O]. subst x. simpl.
      destruct Hi as [Hi|Hi]; [congruence|]. now rewrite Hi in O.
    + intros x G. rewrite FS'. apply (wf_ifresh _ _ _ W). lia.
    + intros x y. rewrite FN, F1. apply (wf_next_lt _ _ _ W).
    + intros x t. rewrite FS', F2. apply (wf_sfresh _ _ _ W).
    + intros t. rewrite HS, F2. apply (wf_shead_fresh _ _ _ W).
  - intros x. rewrite HI. unfold upd. destruct (Nat.eqb_spec x i); simpl; auto.
  - intros x. rewrite HI. unfold upd. destruct (Nat.eqb_spec x i); simpl; auto.
  - intros x. rewrite FS', FN. auto.
Qed.

(* ---- Item.Set *)
Lemma set_sim w r it v : R w r ->
  match i_set w it v, r_set r it v with
  | Ok (w', b), Ok (r', b') => b = b' /\ R w' r' /\ sfresh w' = sfresh w /\ ifresh w' = ifresh w
  | Panic, Panic => True
  | _, _ => False
  end.
Proof.
  intros HR. pose proof (r_wf _ _ HR) as W. unfold i_set, r_set. destruct it as [i|]; [|exact I].
  unfold r_is_sentinel. rewrite (owner_sim _ _ _ HR).
  destruct (istack (items w i)) as [s|] eqn:E.
  - rewrite (mem_sim _ _ _ _ HR E). destruct (iok (items w i)) eqn:K; simpl.
    + destruct (R_attached_next _ _ _ _ HR E K) as (y & Ny). rewrite Ny.
      split; [reflexivity|]. split; [|auto]. eapply setval_sim; try eassumption; auto; try (heap_unfold; reflexivity).
      intros x. heap_unfold. unfold upd. rewrite ?Nat.eqb_refl. simpl. rewrite E, Ny. destruct (Nat.eqb x i); reflexivity.
    + pose proof (wf_owner _ _ _ W _ _ E) as O. rewrite K in O. destruct (wf_sentinel _ _ _ W _ _ O) as (_ & _ & Nn).
      rewrite Nn. auto.
  - simpl. split; [reflexivity|]. split; [|auto]. eapply setval_sim; try eassumption; auto; try (heap_unfold; reflexivity).
    intros x. heap_unfold. unfold upd. rewrite ?Nat.eqb_refl. simpl. rewrite E. destruct (Nat.eqb x i); reflexivity.
Qed.

(* ---- Item.Remove of an item that is not the top of its stack *)
Fixpoint last_or (l : list nat) (d : option nat) : option nat :=
  match l with [] => d | x :: l' => last_or l' (Some x) end.

Lemma last_or_snoc l p d : last_or (l ++ [p]) d = Some p.
Proof. revert d. induction l as [|a l IH]; simpl; intros d; [reflexivity|apply IH]. Qed.

Lemma remove_loop_find w i s l1 : forall cur prev fuel l2 e,
  chain w cur (l1 ++ i :: l2) e -> ~ In i l1 -> (forall x, In x l1 -> iok (items w x) = true) ->
  iok (items w i) = true -> (length l1 < fuel)%nat ->
  remove_loop fuel w i s (Some cur) prev =
    Ok (let w2 := set_stack (set_len w s (slen (stacks w s) - 1)) i None in
        match last_or l1 prev with Some p => set_next w2 p (inext (items w2 i)) | None => w2 end, true).
Proof.
  induction l1 as [|x l1 IH]; intros cur prev fuel l2 e C NI OKs Ki F; destruct fuel; simpl in F; try lia.
  - simpl in C. destruct C as (-> & _). simpl. rewrite Ki, Nat.eqb_refl. reflexivity.
  - simpl in C. destruct C as (-> & nx & Nx & C). simpl.
    rewrite OKs by (now left). simpl. destruct (Nat.eqb_spec x i) as [->|NE]; [exfalso; apply NI; now left|].
    rewrite Nx. apply IH with (l2 := l2) (e := e); auto.
    + intros I. apply NI. now right.
    + intros y I. apply OKs. now right.
    + lia.
Qed.

Lemma filter_neq_nodup i l0 l2 : ~ In i l0 -> ~ In i l2 ->
  filter (fun y => negb (Nat.eqb i y)) (l0 ++ i :: l2) = l0 ++ l2.
Proof.
  intros N0 N2. rewrite filter_app. simpl. rewrite Nat.eqb_refl. simpl.
  assert (Q : forall l, ~ In i l -> filter (fun y => negb (Nat.eqb i y)) l = l).
  { induction l as [|a l IH]; simpl; intros NI; [reflexivity|].
    destruct (Nat.eqb_spec i a); [exfalso; apply NI; now left|]. simpl. f_equal. apply IH. tauto. }
  now rewrite !Q.
Qed.

Lemma unlink_mid_sim w w' r s l0 p i l2 :
  R w r -> rseq r s = l0 ++ p :: i :: l2 ->
  (forall x, items w' x =
     upd (upd (items w) i (mkItem (inext (items w i)) None (iok (items w i)) (ivalue (items w i))))
         p (mkItem (inext (items w i)) (istack (items w p)) (iok (items w p)) (ivalue (items w p))) x) ->
  (forall t, stacks w' t = upd (stacks w) s (mkSrec (shead (stacks w s)) (slen (stacks w s) - 1)) t) ->
  ifresh w' = ifresh w -> sfresh w' = sfresh w ->
  R w' (set_rseq (set_rnx r (upd (rnx r) i (succ_in i (rseq r s) (rsen r s)))) s
                 (filter (fun y => negb (Nat.eqb i y)) (rseq r s))).
Proof.
  intros HR L HI HS F1 F2. pose proof (r_wf _ _ HR) as W.
  pose proof (wf_nodup _ _ _ W s) as ND. rewrite L in ND.
  assert (ND' := ND). apply NoDup_remove in ND'. destruct ND' as (ND1 & Np).
  assert (ND2 : NoDup (l0 ++ p :: l2) /\ ~ In i (l0 ++ p :: l2)).
  { replace (l0 ++ p :: i :: l2) with ((l0 ++ [p]) ++ i :: l2) in ND by (rewrite <- app_assoc; reflexivity).
    apply NoDup_remove in ND. rewrite <- app_assoc in ND. exact ND. }
  destruct ND2 as (NDn & Ni).
  assert (Ipi : p <> i). { intros ->. apply Ni. apply in_or_app. right. now left. }
  assert (Mi : In i (rseq r s)) by (rewrite L; apply in_or_app; right; right; now left).
  assert (Mp : In p (rseq r s)) by (rewrite L; apply in_or_app; right; now left).
  destruct (wf_member _ _ _ W _ _ Mi) as (Ei & Ki). destruct (wf_member _ _ _ W _ _ Mp) as (Ep & Kp).
  destruct (R_owner_init _ _ _ _ HR Ei) as (h & Hd).
  destruct (wf_chain _ _ _ W _ _ Hd) as (e & Se & C).
  pose proof (chain_next _ _ _ _ _ C (wf_nodup _ _ _ W s) Mi) as Ni'.
  rewrite L in C. apply chain_app in C. destruct C as (m & C0 & C). simpl in C.
  destruct C as (-> & nx1 & Np1 & -> & nx2 & Ni2 & C2).
  assert (FL : filter (fun y => negb (Nat.eqb i y)) (rseq r s) = l0 ++ p :: l2).
  { rewrite L. replace (l0 ++ p :: i :: l2) with ((l0 ++ [p]) ++ i :: l2) by (rewrite <- app_assoc; reflexivity).
    rewrite filter_neq_nodup; [rewrite <- app_assoc; reflexivity| |].
    - intros I. apply Ni. apply in_app_or in I. apply in_or_app. destruct I as [I|[<-|[]]]; [now left|right; now left].
    - intros I. apply Ni. apply in_or_app. right. now right. }
  rewrite FL.
  assert (OTH : forall t x, In x (rseq r t) -> (t = s -> In x (l0 ++ p :: l2)) -> x <> i).
  { intros t x I Q ->. assert (t = s) by (eapply (wf_disjoint _ _ _ W); eassumption). auto. }
  assert (FRAME : forall x, x <> i -> x <> p -> items w' x = items w x).
  { intros x N1 N2. rewrite HI, !upd_other by assumption. reflexivity. }
  assert (FSt : forall x, x <> i -> istack (items w' x) = istack (items w x) /\ iok (items w' x) = iok (items w x)).
  { intros x N1. rewrite HI. unfold upd. destruct (Nat.eqb_spec x p); [subst|]; simpl.
    - auto.
    - destruct (Nat.eqb_spec x i); [contradiction|auto]. }
  destruct HR as [_ V K N FI FS].
  unfold set_rseq, set_rnx. constructor; simpl; auto; try congruence.
  - constructor; simpl.
    + intros t. rewrite HS. unfold upd. destruct (Nat.eqb_spec t s); simpl; [congruence|]. apply (wf_uninit _ _ _ W).
    + intros t h'. rewrite HS. unfold upd at 1 2. destruct (Nat.eqb_spec t s); simpl.
      * subst t. rewrite Hd. intros E. inv E. exists e. split; [exact Se|].
        apply chain_app. exists p. split.
        -- eapply chain_frame; [|exact C0]. intros x I. rewrite FRAME; [reflexivity| |].
           ++ intros ->. apply Ni. apply in_or_app. now left.
           ++ intros ->. apply Np. apply in_or_app. now left.
        -- simpl. split; [reflexivity|]. exists nx2. split.
           ++ rewrite HI, upd_same. simpl. exact Ni2.
           ++ eapply chain_frame; [|exact C2]. intros x I. rewrite FRAME; [reflexivity| |].
              ** intros ->. apply Ni. apply in_or_app. right. now right.
              ** intros ->. apply Np. apply in_or_app. right. now right.
      * intros Ht. destruct (wf_chain _ _ _ W _ _ Ht) as (e' & Se' & C'). exists e'. split; [exact Se'|].
        eapply chain_frame; [|exact C']. intros x I. rewrite FRAME; [reflexivity| |].
        -- eapply OTH; [exact I|congruence].
        -- intros ->. apply n. eapply (wf_disjoint _ _ _ W); eassumption.
    + intros t. rewrite HS. unfold upd. destruct (Nat.eqb_spec t s); simpl.
      * subst t. rewrite (wf_len _ _ _ W), L. rewrite !app_length. simpl length. lia.
      * apply (wf_len _ _ _ W).
    + intros t. unfold upd. destruct (Nat.eqb_spec t s); [exact NDn|apply (wf_nodup _ _ _ W)].
    + intros t x. unfold upd at 1. destruct (Nat.eqb_spec t s).
      * subst t. intros I. assert (x <> i) by (intros ->; contradiction).
        destruct (FSt x H) as (-> & ->). apply (wf_member _ _ _ W). rewrite L.
        apply in_app_or in I. apply in_or_app. destruct I as [I|[<-|I]]; [now left|right; now left|right; right; now right].
      * intros I. assert (x <> i) by (eapply OTH; [exact I|congruence]).
        destruct (FSt x H) as (-> & ->). now apply (wf_member _ _ _ W).
    + intros t e' Se'. pose proof (wf_sentinel _ _ _ W _ _ Se') as (E1 & E2 & E3).
      rewrite FRAME; auto.
      * intros ->. eapply (wf_sentinel_notin _ _ _ W _ _ Se'); exact Mi.
      * intros ->. eapply (wf_sentinel_notin _ _ _ W _ _ Se'); exact Mp.
    + intros x t. destruct (Nat.eq_dec x i) as [->|NE].
      * rewrite HI, upd_other, upd_same by congruence. simpl. discriminate.
      * destruct (FSt x NE) as (-> & ->). intros E. pose proof (wf_owner _ _ _ W _ _ E) as O.
        destruct (iok (items w x)); [|exact O]. unfold upd. destruct (Nat.eqb_spec t s); [|exact O].
        subst t. rewrite L in O. apply in_app_or in O. apply in_or_app.
        destruct O as [O|[<-|[<-|O]]]; [now left|right; now left|congruence|right; now right].
    + intros x G. destruct (Nat.eq_dec x i) as [->|NE].
      * rewrite HI, upd_other, upd_same by congruence. reflexivity.
      * destruct (FSt x NE) as (-> & _). apply (wf_ifresh _ _ _ W). lia.
    + intros x y Lx. rewrite F1 in *. rewrite HI. unfold upd. destruct (Nat.eqb_spec x p); simpl.
      * rewrite Ni2. intros E. inv E. eapply (wf_next_lt _ _ _ W); [|exact Ni2]. eapply wf_item_lt; eassumption.
      * destruct (Nat.eqb_spec x i); simpl; [subst|]; apply (wf_next_lt _ _ _ W); lia.
    + intros x t. destruct (Nat.eq_dec x i) as [->|NE].
      * rewrite HI, upd_other, upd_same by congruence. simpl. discriminate.
      * destruct (FSt x NE) as (-> & _). rewrite F2. apply (wf_sfresh _ _ _ W).
    + intros t G. rewrite HS. unfold upd. destruct (Nat.eqb_spec t s); [|apply (wf_shead_fresh _ _ _ W); lia].
      subst t. pose proof (wf_stack_lt _ _ _ W _ _ Hd). lia.
  - intros x. rewrite HI. unfold upd. destruct (Nat.eqb_spec x p); simpl; [subst; auto|].
    destruct (Nat.eqb_spec x i); simpl; [subst; auto|auto].
  - intros x. rewrite HI. unfold upd. destruct (Nat.eqb_spec x p); simpl; [subst; auto|].
    destruct (Nat.eqb_spec x i); simpl; [subst; auto|auto].
  - intros x. destruct (Nat.eq_dec x i) as [->|NE].
    + rewrite HI, upd_other, !upd_same by congruence. simpl. intros _. rewrite Se. exact Ni'.
    + destruct (FSt x NE) as (-> & _). rewrite (upd_other _ i) by assumption. intros E.
      rewrite HI. unfold upd. destruct (Nat.eqb_spec x p); [subst; congruence|].
      destruct (Nat.eqb_spec x i); [contradiction|auto].
Qed.

Lemma remove_sim w r it : R w r ->
  match it with Some i => r_is_top r i = false | None => True end ->
  match i_remove w it with
  | Ok (w', b) => b = snd (r_remove r it) /\ R w' (fst (r_remove r it)) /\ sfresh w' = sfresh w /\ ifresh w' = ifresh w
  | _ => False
  end.
Proof.
  intros HR G. pose proof (r_wf _ _ HR) as W. unfold i_remove, r_remove. destruct it as [i|]; [|simpl; auto].
  unfold r_is_top in G. rewrite (owner_sim _ _ _ HR) in *.
  destruct (istack (items w i)) as [s|] eqn:E; [|simpl; auto].
  rewrite (mem_sim _ _ _ _ HR E). destruct (iok (items w i)) eqn:K; cbn [negb]; [|simpl; auto].
  pose proof (wf_owner _ _ _ W _ _ E) as O. rewrite K in O.
  destruct (in_split _ _ O) as (l1 & l2 & L).
  pose proof (wf_nodup _ _ _ W s) as ND. rewrite L in ND.
  assert (NI : ~ In i l1). { apply NoDup_remove_2 in ND. intros I. apply ND. apply in_or_app. now left. }
  destruct (exists_last (l := l1)) as (l0 & p & ->).
  { intros ->. rewrite L in G. simpl in G. now rewrite Nat.eqb_refl in G. }
  destruct (R_owner_init _ _ _ _ HR E) as (h & Hd). rewrite Hd.
  destruct (wf_chain _ _ _ W _ _ Hd) as (e & Se & C). rewrite L in C.
  rewrite (remove_loop_find w i s (l0 ++ [p]) h None (fuel_of w) l2 e C NI); auto.
  - rewrite last_or_snoc. split; [reflexivity|]. rewrite <- app_assoc in L. simpl in L. split.
    + eapply unlink_mid_sim; try eassumption; try (heap_unfold; reflexivity); try pointwise.
      intros x. heap_unfold. unfold upd. rewrite ?Nat.eqb_refl. simpl.
      destruct (Nat.eqb_spec p i) as [->|NE].
      { exfalso. apply NI. apply in_or_app. right. now left. }
      destruct (Nat.eqb x p); reflexivity.
    + heap_unfold. auto.
  - intros x I. apply (wf_member _ _ _ W s). rewrite L. apply in_or_app. now left.
  - unfold fuel_of. pose proof (wf_len_le _ _ _ W s) as LL. rewrite L, app_length in LL. lia.
Qed.

(* ---- iterator, Head/Next walk, MarshalJSON *)
Lemma values_sim w r s : R w r -> map (fun x => ivalue (items w x)) (rseq r s) = r_values r s.
Proof. intros HR. unfold r_values. apply map_ext. intros x. apply (r_val _ _ HR). Qed.

Lemma chain_walk_facts w r s h : R w r -> shead (stacks w s) = Some h ->
  exists e, chain w h (rseq r s) e /\ (forall x, In x (rseq r s) -> iok (items w x) = true) /\ iok (items w e) = false.
Proof.
  intros HR Hd. pose proof (r_wf _ _ HR) as W. destruct (wf_chain _ _ _ W _ _ Hd) as (e & Se & C).
  exists e. split; [exact C|]. split.
  - intros x I. now apply (wf_member _ _ _ W) in I.
  - now apply (wf_sentinel _ _ _ W) in Se.
Qed.

Lemma iter_sim w r s : R w r -> s_iter w s = Ok (r_values r s).
Proof.
  intros HR. pose proof (r_wf _ _ HR) as W. unfold s_iter.
  destruct (shead (stacks w s)) as [h|] eqn:Hd.
  - destruct (chain_walk_facts _ _ _ _ HR Hd) as (e & C & OKs & Ke).
    rewrite (walk_from_chain _ _ _ _ _ C OKs Ke), (values_sim _ _ _ HR); [reflexivity|].
    unfold fuel_of. pose proof (wf_len_le _ _ _ W s). lia.
  - destruct (wf_uninit _ _ _ W _ Hd) as (Cs & _). unfold r_values. rewrite Cs. reflexivity.
Qed.

Lemma walk_sim w r s : R w r -> (s < sfresh w)%nat ->
  s_walk w s = Ok (lazy_init w s, r_values (r_init r s) s).
Proof.
  intros HR Ls. unfold s_walk, s_head.
  pose proof (lazy_init_sim _ _ _ HR Ls) as HR1. pose proof (iter_sim _ _ s HR1) as IT.
  unfold s_iter in IT. rewrite IT. reflexivity.
Qed.

Lemma walk_bounded_sim w r s : R w r ->
  walk_bounded (bound_of w s) w (shead (stacks w s)) = r_values r s.
Proof.
  intros HR. pose proof (r_wf _ _ HR) as W.
  destruct (shead (stacks w s)) as [h|] eqn:Hd.
  - destruct (chain_walk_facts _ _ _ _ HR Hd) as (e & C & OKs & Ke).
    rewrite (walk_bounded_chain _ _ _ _ _ C OKs Ke), (values_sim _ _ _ HR); [reflexivity|].
    unfold bound_of. rewrite (wf_len _ _ _ W). lia.
  - destruct (wf_uninit _ _ _ W _ Hd) as (Cs & _). unfold r_values. rewrite Cs. apply walk_bounded_none.
Qed.

Lemma len_sim w r s : R w r -> s_len w s = Z.of_nat (length (rseq r s)).
Proof. intros HR. unfold s_len. apply (wf_len _ _ _ (r_wf _ _ HR)). Qed.

(* ------------------------------------------------------------------ loops *)

Lemma r_in_sim w r x s : R w r -> r_in r x s = true <-> istack (items w x) = Some s.
Proof.
  intros HR. pose proof (r_wf _ _ HR) as W. rewrite (wf_owner_iff _ _ _ W). unfold r_in.
  rewrite orb_true_iff, mem_In. destruct (onat_eqb_spec (rsen r s) (Some x)); intuition congruence.
Qed.

Lemma r_init_id w r t : R w r -> rseq r t <> [] -> r_init r t = r.
Proof.
  intros HR NE. pose proof (r_wf _ _ HR) as W. unfold r_init.
  destruct (shead (stacks w t)) as [h|] eqn:Hd.
  - destruct (wf_sn_of_head _ _ _ W _ _ Hd) as (e & ->). reflexivity.
  - apply (wf_uninit _ _ _ W) in Hd. destruct Hd. contradiction.
Qed.

Lemma r_init_rseq r s t : rseq (r_init r s) t = rseq r t.
Proof. unfold r_init. destruct (rsen r s); reflexivity. Qed.

Lemma r_init_rsf r s : rsf (r_init r s) = rsf r.
Proof. unfold r_init. destruct (rsen r s); reflexivity. Qed.

Lemma r_pop_rsf r s : rsf (fst (r_pop r s)) = rsf r.
Proof.
  unfold r_pop. destruct (rseq (r_init r s) s); simpl; apply r_init_rsf.
Qed.

Lemma r_pop_nil r s : rseq r s = [] -> r_pop r s = (r_init r s, rsen (r_init r s) s).
Proof. intros E. unfold r_pop. now rewrite r_init_rseq, E. Qed.

Lemma r_pop_cons w r s x l : R w r -> rseq r s = x :: l ->
  r_pop r s = (set_rseq (set_rnx r (upd (rnx r) x (match l with y :: _ => Some y | [] => rsen r s end))) s l, Some x).
Proof.
  intros HR E. unfold r_pop. rewrite (r_init_id _ _ _ HR) by (rewrite E; discriminate). now rewrite E.
Qed.

Lemma R_sfresh_pop w r s : R w r -> (s < sfresh w)%nat -> sfresh (fst (s_pop w s)) = sfresh w.
Proof.
  intros HR Ls. destruct (pop_sim _ _ _ HR Ls) as (_ & HR1).
  rewrite (r_sf _ _ HR1), r_pop_rsf. symmetry. apply (r_sf _ _ HR).
Qed.

Lemma appendv_sim vs : forall w r s, R w r -> (s < sfresh w)%nat ->
  exists w', s_appendv w s vs = Ok w' /\ R w' (r_appendv r s vs) /\ sfresh w' = sfresh w.
Proof.
  induction vs as [|v vs IH]; intros w r s HR Ls; simpl.
  - eauto.
  - destruct (push_sim _ _ _ v HR Ls) as (w1 & E1 & HR1 & F1). rewrite E1. simpl.
    destruct (IH w1 (r_push r s v) s HR1) as (w2 & E2 & HR2 & F2); [lia|].
    exists w2. split; [exact E2|]. split; [exact HR2|congruence].
Qed.

(* the popped item is not what the stack's head becomes *)
Lemma pop_head_changes w r s x l : R w r -> rseq r s = x :: l -> (s < sfresh w)%nat ->
  shead (stacks (fst (s_pop w s)) s) <> Some x.
Proof.
  intros HR L Ls. pose proof (r_wf _ _ HR) as W. destruct (pop_sim _ _ _ HR Ls) as (_ & HR1).
  rewrite (r_pop_cons _ _ _ _ _ HR L) in HR1. simpl in HR1. pose proof (r_wf _ _ HR1) as W1.
  intros Hd. pose proof (wf_head_top _ _ _ W1 _ _ Hd) as T. simpl in T. rewrite upd_same in T.
  pose proof (wf_nodup _ _ _ W s) as ND. rewrite L in ND. inv ND.
  destruct l as [|y l'].
  - symmetry in T. eapply (wf_sentinel_notin _ _ _ W _ _ T s). rewrite L. now left.
  - inv T. apply H1. now left.
Qed.

Lemma popiter_loop_sim : forall l w r s fuel, R w r -> (s < sfresh w)%nat -> rseq r s = l -> (length l < fuel)%nat ->
  exists w', s_popiter fuel w s = Ok (w', map (rval r) l) /\ R w' (r_pop_all (length l) r s) /\ sfresh w' = sfresh w.
Proof.
  induction l as [|x l IH]; intros w r s fuel HR Ls L F; destruct fuel; simpl in F; try lia; simpl.
  - destruct (pop_sim _ _ _ HR Ls) as (E & HR1). pose proof (R_sfresh_pop _ _ _ HR Ls) as SF.
    destruct (s_pop w s) as (w1, it). simpl in *.
    rewrite (r_pop_nil _ _ L) in *. simpl in *.
    assert (exists e, it = Some e /\ shead (stacks w1 s) = Some e) as (e & -> & ->).
    { pose proof (r_wf _ _ HR1) as W1. subst it.
      assert (exists e, rsen (r_init r s) s = Some e) as (e & Se').
      { unfold r_init. destruct (rsen r s) as [e|] eqn:Se; simpl; [eauto|rewrite upd_same; eauto]. }
      exists e. split; [exact Se'|].
      destruct (wf_sn_init _ _ _ W1 _ _ Se') as (h & Hd). rewrite Hd.
      pose proof (wf_head_top _ _ _ W1 _ _ Hd) as T. rewrite r_init_rseq, L in T. congruence. }
    rewrite onat_eqb_refl. eauto.
  - destruct (pop_sim _ _ _ HR Ls) as (E & HR1). pose proof (R_sfresh_pop _ _ _ HR Ls) as SF.
    pose proof (pop_head_changes _ _ _ _ _ HR L Ls) as NH.
    destruct (s_pop w s) as (w1, it). simpl in *.
    rewrite (r_pop_cons _ _ _ _ _ HR L) in *. simpl in *. subst it.
    destruct (onat_eqb_spec (Some x) (shead (stacks w1 s))) as [Q|_]; [congruence|].
    simpl. destruct (IH w1 _ s fuel HR1) as (w2 & E2 & HR2 & F2); [lia|simpl; apply upd_same|lia|].
    rewrite E2. simpl. exists w2. split; [|split; [exact HR2|congruence]].
    rewrite (r_val _ _ HR1). reflexivity.
Qed.

Lemma popiter_sim w r s : R w r -> (s < sfresh w)%nat ->
  exists w', s_popiter (fuel_of w) w s = Ok (w', snd (r_popiter r s)) /\ R w' (fst (r_popiter r s)) /\ sfresh w' = sfresh w.
Proof.
  intros HR Ls. unfold r_popiter, r_values. cbn [fst snd]. apply popiter_loop_sim; auto.
  unfold fuel_of. pose proof (wf_len_le _ _ _ (r_wf _ _ HR) s). lia.
Qed.

(* ---- one round of Attach / UnmarshalJSON's second loop: pop x off t, hand it to i.Append *)
Lemma move_step w r i t x l : R w r -> (t < sfresh w)%nat -> rseq r t = x :: l -> r_in r i t = false ->
  exists w1 r1 w2 r2 y,
    s_pop w t = (w1, Some x) /\ r_pop r t = (r1, Some x) /\ i_ok w1 (Some x) = true /\
    i_append w1 (Some i) (Some x) = Ok (w2, y) /\ r_append r1 (Some i) (Some x) = Ok (r2, y) /\ R w2 r2 /\
    (y = Some i \/ y = Some x) /\ rseq r2 t = l /\ r_in r2 i t = false /\ r_in r2 x t = false /\
    sfresh w2 = sfresh w.
Proof.
  intros HR Ls L NI. pose proof (r_wf _ _ HR) as W.
  destruct (pop_sim _ _ _ HR Ls) as (E & HR1).
  rewrite (r_pop_cons _ _ _ _ _ HR L) in E, HR1 |- *. cbn [fst snd] in E, HR1.
  destruct (s_pop w t) as (w1, n). cbn [fst snd] in E, HR1. subst n.
  set (r1 := set_rseq (set_rnx r (upd (rnx r) x match l with [] => rsen r t | y :: _ => Some y end)) t l) in *.
  assert (Mx : In x (rseq r t)) by (rewrite L; now left).
  assert (Kx : iok (items w1 x) = true).
  { rewrite (r_ok _ _ HR1). simpl. rewrite <- (r_ok _ _ HR). now apply (wf_member _ _ _ W) in Mx. }
  assert (Lx : forall j, Some x = Some j -> (j < ifresh w1)%nat).
  { intros j Ej. inv Ej. rewrite (r_if _ _ HR1). simpl. rewrite <- (r_if _ _ HR). eapply wf_member_lt; eassumption. }
  pose proof (append_sim w1 r1 (Some i) (Some x) HR1 Lx) as AS.
  pose proof (wf_nodup _ _ _ W t) as ND. rewrite L in ND. inv ND.
  assert (NIl : mem i l = false /\ onat_eqb (rsen r t) (Some i) = false).
  { unfold r_in in NI. rewrite L in NI. apply orb_false_iff in NI. destruct NI as (M & S). split; [|exact S].
    apply mem_false. apply mem_false in M. intros I. apply M. now right. }
  assert (NXl : mem x l = false /\ onat_eqb (rsen r t) (Some x) = false).
  { split; [now apply mem_false|]. destruct (onat_eqb_spec (rsen r t) (Some x)) as [Q|]; [|reflexivity].
    exfalso. eapply (wf_sentinel_notin _ _ _ W _ _ Q). exact Mx. }
  assert (Rin1 : forall z, r_in r1 z t = mem z l || onat_eqb (rsen r t) (Some z)).
  { intros z. unfold r_in, r1. simpl. now rewrite upd_same. }
  destruct (i_append w1 (Some i) (Some x)) as [[w2 y]| |] eqn:IA;
    destruct (r_append r1 (Some i) (Some x)) as [[r2 y']| |] eqn:RA; try contradiction.
  2:{ exfalso. unfold i_append in IA.
      destruct (istack (items w1 i)); [destruct (istack (items w1 x)); [|destruct (negb (iok (items w1 x)))]|]; discriminate. }
  destruct AS as (<- & HR2).
  exists w1, r1, w2, r2, y. split; [reflexivity|]. split; [reflexivity|]. split; [exact Kx|].
  split; [exact IA|]. split; [exact RA|]. split; [exact HR2|].
  unfold r_append in RA. destruct (r_owner r1 i) as [s|] eqn:Oi.
  - destruct (r_owner r1 x); [inv RA|destruct (negb (rok r1 x)); inv RA].
    1,2: (split; [now left|]; split; [simpl; apply upd_same|]; rewrite !Rin1; destruct NIl, NXl;
          split; [now apply orb_false_iff|]; split; [now apply orb_false_iff|];
          rewrite (r_sf _ _ HR2); simpl; symmetry; apply (r_sf _ _ HR)).
    assert (s <> t).
    { intros ->. unfold r_owner in Oi. apply find_some in Oi. destruct Oi as (_ & Oi). rewrite Rin1 in Oi.
      destruct NIl as (A & B). rewrite A, B in Oi. discriminate. }
    split; [now right|]. split; [simpl; rewrite upd_other by congruence; apply upd_same|].
    assert (Rin2 : forall z, r_in (r_cons r1 s x) z t = r_in r1 z t).
    { intros z. unfold r_in, r_cons. simpl. rewrite (upd_other _ s) by congruence. reflexivity. }
    rewrite !Rin2, !Rin1. destruct NIl, NXl.
    split; [now apply orb_false_iff|]. split; [now apply orb_false_iff|].
    rewrite (r_sf _ _ HR2). simpl. symmetry. apply (r_sf _ _ HR).
  - inv RA. split; [now left|]. split; [simpl; apply upd_same|]. rewrite !Rin1. destruct NIl, NXl.
    split; [now apply orb_false_iff|]. split; [now apply orb_false_iff|].
    rewrite (r_sf _ _ HR2). simpl. symmetry. apply (r_sf _ _ HR).
Qed.

Lemma pop_empty_sim w r t : R w r -> (t < sfresh w)%nat -> rseq r t = [] ->
  exists w1 e, s_pop w t = (w1, Some e) /\ i_ok w1 (Some e) = false /\ R w1 (fst (r_pop r t)) /\ sfresh w1 = sfresh w.
Proof.
  intros HR Ls L. destruct (pop_sim _ _ _ HR Ls) as (E & HR1). pose proof (R_sfresh_pop _ _ _ HR Ls) as SF.
  destruct (s_pop w t) as (w1, n). simpl in *. rewrite (r_pop_nil _ _ L) in *. simpl in *.
  assert (exists e, rsen (r_init r t) t = Some e) as (e & Se).
  { unfold r_init. destruct (rsen r t) as [e|] eqn:Se; simpl; [eauto|rewrite upd_same; eauto]. }
  exists w1, e. split; [congruence|]. split; [|auto].
  simpl. now apply (wf_sentinel _ _ _ (r_wf _ _ HR1)) in Se.
Qed.

Lemma attach_loop_sim : forall l w r i t fuel,
  R w r -> (t < sfresh w)%nat -> rseq r t = l -> r_in r i t = false -> (length l < fuel)%nat ->
  exists w' r', attach_loop fuel w (Some i) t = Ok w' /\ r_move_all (length l) true r (Some i) t = Ok r' /\
                R w' r' /\ sfresh w' = sfresh w.
Proof.
  induction l as [|x l IH]; intros w r i t fuel HR Ls L NI F; destruct fuel; simpl in F; try lia; simpl.
  - destruct (pop_empty_sim _ _ _ HR Ls L) as (w1 & e & P & K & HR1 & SF). rewrite P, K. simpl.
    exists w1, (fst (r_pop r t)). auto.
  - destruct (move_step _ _ _ _ _ _ HR Ls L NI) as (w1 & r1 & w2 & r2 & y & P & RP & K & IA & RA & HR2 & Y & L2 & NI2 & NX2 & SF).
    rewrite P, RP, K, IA, RA. simpl.
    destruct Y as [->| ->].
    + destruct (IH w2 r2 i t fuel HR2) as (w' & r' & A & B & C & D); auto; try lia.
      exists w', r'. repeat (split; [assumption|]). congruence.
    + destruct (IH w2 r2 x t fuel HR2) as (w' & r' & A & B & C & D); auto; try lia.
      exists w', r'. repeat (split; [assumption|]). congruence.
Qed.

Lemma drain_loop_sim : forall l w r i t fuel,
  R w r -> (t < sfresh w)%nat -> rseq r t = l -> r_in r i t = false -> (length l < fuel)%nat ->
  exists w' r', unmarshal_drain fuel w t (Some i) = Ok w' /\ r_move_all (length l) false r (Some i) t = Ok r' /\
                R w' r' /\ sfresh w' = sfresh w.
Proof.
  induction l as [|x l IH]; intros w r i t fuel HR Ls L NI F; destruct fuel; simpl in F; try lia; simpl.
  - destruct (pop_empty_sim _ _ _ HR Ls L) as (w1 & e & P & K & HR1 & SF). rewrite P, K. simpl.
    exists w1, (fst (r_pop r t)). auto.
  - destruct (move_step _ _ _ _ _ _ HR Ls L NI) as (w1 & r1 & w2 & r2 & y & P & RP & K & IA & RA & HR2 & Y & L2 & NI2 & NX2 & SF).
    rewrite P, RP, K, IA, RA. simpl.
    destruct (IH w2 r2 i t fuel HR2) as (w' & r' & A & B & C & D); auto; try lia.
    exists w', r'. repeat (split; [assumption|]). congruence.
Qed.

(* ---- Item.Attach *)
Lemma attach_sim w r it st : R w r -> (forall t, st = Some t -> (t < sfresh w)%nat) ->
  match i_attach w it st, r_attach r it st with
  | Ok (w', b), Ok (r', b') => b = b' /\ R w' r' /\ sfresh w' = sfresh w
  | Panic, Panic => True
  | _, _ => False
  end.
Proof.
  intros HR Lt. pose proof (r_wf _ _ HR) as W. unfold i_attach, r_attach.
  destruct st as [t|]; [|auto]. specialize (Lt t eq_refl).
  rewrite (len_sim _ _ _ HR). destruct (rseq r t) as [|x l] eqn:L; [simpl; auto|].
  cbn [length]. destruct (Z.eqb_spec (Z.of_nat (S (length l))) 0) as [Q|_]; [lia|].
  destruct it as [i|]; [|exact I].
  rewrite (owner_sim _ _ _ HR).
  destruct (onat_eqb_spec (Some t) (istack (items w i))) as [Q|NQ]; [auto|].
  assert (NI : r_in r i t = false).
  { destruct (r_in r i t) eqn:RI; [|reflexivity]. apply (r_in_sim _ _ _ _ HR) in RI. congruence. }
  destruct (attach_loop_sim (x :: l) w r i t (fuel_of w) HR Lt L NI) as (w' & r' & A & B & C & D).
  { unfold fuel_of. pose proof (wf_len_le _ _ _ W t) as LL. rewrite L in LL. lia. }
  rewrite A. cbn [length] in B. rewrite B. simpl. auto.
Qed.

(* ---- &Stack{} *)
Lemma alloc_stack_sim w r : R w r ->
  R (fst (alloc_stack w (mkSrec None 0))) (mkR (rseq r) (rsen r) (rval r) (rok r) (rnx r) (rif r) (S (rsf r))).
Proof.
  intros HR. pose proof (r_wf _ _ HR) as W. destruct HR as [_ V K N FI FS].
  unfold alloc_stack. simpl.
  assert (ST : forall t, upd (stacks w) (sfresh w) (mkSrec None 0) t = stacks w t \/
                         (t = sfresh w /\ upd (stacks w) (sfresh w) (mkSrec None 0) t = mkSrec None 0)).
  { intros t. unfold upd. destruct (Nat.eqb_spec t (sfresh w)); auto. }
  assert (FR : shead (stacks w (sfresh w)) = None) by (apply (wf_shead_fresh _ _ _ W); lia).
  destruct (wf_uninit _ _ _ W _ FR) as (Cs & Ss).
  constructor; simpl; auto; try lia.
  constructor; simpl.
  - intros t. destruct (ST t) as [->|(-> & ->)]; [apply (wf_uninit _ _ _ W)|auto].
  - intros t h. destruct (ST t) as [->|(-> & ->)]; [|discriminate].
    intros Ht. destruct (wf_chain _ _ _ W _ _ Ht) as (e & Se & C). exists e. split; [exact Se|].
    eapply chain_frame; [|exact C]. reflexivity.
  - intros t. destruct (ST t) as [->|(-> & ->)]; [apply (wf_len _ _ _ W)|now rewrite Cs].
  - apply (wf_nodup _ _ _ W).
  - apply (wf_member _ _ _ W).
  - apply (wf_sentinel _ _ _ W).
  - apply (wf_owner _ _ _ W).
  - apply (wf_ifresh _ _ _ W).
  - apply (wf_next_lt _ _ _ W).
  - intros x t E. apply (wf_sfresh _ _ _ W) in E. lia.
  - intros t G. destruct (ST t) as [->|(-> & ->)]; [apply (wf_shead_fresh _ _ _ W); lia|reflexivity].
Qed.

(* ---- UnmarshalJSON, first loop *)
Lemma fill_sim vs : forall w r head, R w r ->
  match unmarshal_fill w head vs, r_fill r head vs with
  | Ok (w', h), Ok (r', h') => h = h' /\ R w' r' /\ sfresh w' = sfresh w
  | Panic, Panic => True
  | _, _ => False
  end.
Proof.
  induction vs as [|v vs IH]; intros w r head HR; [simpl; auto|].
  cbn [unmarshal_fill r_fill].
  destruct (alloc_sim w r 0 true HR) as (HR1 & Ex).
  unfold make_item. destruct (alloc_item w (mkItem None None true 0)) as (w1, e) eqn:A.
  destruct (r_alloc r 0 true) as (r1, e') eqn:RA. cbn [fst snd] in HR1, Ex. subst e'.
  assert (e = ifresh w) by (unfold alloc_item in A; now inv A). subst e.
  assert (F1 : ifresh w1 = S (ifresh w) /\ sfresh w1 = sfresh w) by (unfold alloc_item in A; inv A; auto).
  destruct F1 as (F1 & F1').
  pose proof (set_sim w1 r1 (Some (ifresh w)) v HR1) as SS.
  destruct (i_set w1 (Some (ifresh w)) v) as [[w2 b]| |]; destruct (r_set r1 (Some (ifresh w)) v) as [[r2 b']| |];
    try contradiction; cbn [bind fst snd]; [|exact SS].
  destruct SS as (_ & HR2 & F2 & F2').
  assert (Ln : forall i, Some (ifresh w) = Some i -> (i < ifresh w2)%nat) by (intros i E; inv E; lia).
  pose proof (append_sim w2 r2 head (Some (ifresh w)) HR2 Ln) as AS.
  assert (SF3 : forall w3 y, i_append w2 head (Some (ifresh w)) = Ok (w3, y) -> sfresh w3 = sfresh w2).
  { intros w3 y IA. unfold i_append in IA. destruct head as [i|]; [|discriminate].
    destruct (istack (items w2 i)) as [s|] eqn:Ei; [|now inv IA].
    destruct (istack (items w2 (ifresh w))); [now inv IA|].
    destruct (negb (iok (items w2 (ifresh w)))); [now inv IA|].
    destruct (R_owner_init _ _ _ _ HR2 Ei) as (h & Hd). rewrite (lazy_init_id _ _ _ Hd) in IA. inv IA. reflexivity. }
  destruct (i_append w2 head (Some (ifresh w))) as [[w3 y]| |] eqn:IA;
    destruct (r_append r2 head (Some (ifresh w))) as [[r3 y']| |]; try contradiction; cbn [bind fst snd]; [|exact I].
  destruct AS as (<- & HR3). specialize (IH w3 r3 y HR3).
  destruct (unmarshal_fill w3 y vs) as [[w4 h]| |]; destruct (r_fill r3 y vs) as [[r4 h']| |]; try contradiction; [|exact I].
  destruct IH as (-> & HR4 & F4). split; [reflexivity|]. split; [exact HR4|].
  rewrite F4, (SF3 _ _ eq_refl). congruence.
Qed.

(* ---- UnmarshalJSON *)
Lemma unmarshal_sim w r s vs : R w r -> (s < sfresh w)%nat ->
  match s_unmarshal w s vs, r_unmarshal r s vs with
  | Ok w', Ok r' => R w' r' /\ (sfresh w <= sfresh w')%nat
  | Panic, Panic => True
  | _, _ => False
  end.
Proof.
  intros HR Ls. unfold s_unmarshal, r_unmarshal.
  pose proof (alloc_stack_sim _ _ HR) as HR0. rewrite <- (r_sf _ _ HR) in HR0 |- *.
  unfold alloc_stack in *. cbn [fst] in HR0.
  set (w1 := mkWorld (items w) (upd (stacks w) (sfresh w) (mkSrec None 0)) (ifresh w) (S (sfresh w))) in *.
  set (r0 := mkR (rseq r) (rsen r) (rval r) (rok r) (rnx r) (rif r) (S (sfresh w))) in *.
  assert (L1 : (sfresh w < sfresh w1)%nat) by (simpl; lia).
  destruct (head_sim w1 r0 (sfresh w) HR0 L1) as (E1 & HR1).
  destruct (lazy_init_head _ _ _ HR0 L1) as (_ & _ & _ & SF1).
  destruct (s_head w1 (sfresh w)) as (w2, head) eqn:SH1. destruct (r_head r0 (sfresh w)) as (r1, head1) eqn:RH1.
  cbn [fst snd] in E1, HR1. subst head1.
  assert (SF2 : sfresh w2 = S (sfresh w)) by (unfold s_head in SH1; inv SH1; exact SF1).
  pose proof (fill_sim vs w2 r1 head HR1) as FS.
  destruct (unmarshal_fill w2 head vs) as [[w3 h]| |]; destruct (r_fill r1 head vs) as [[r2 h']| |];
    try contradiction; cbn [bind fst snd]; [|exact I].
  destruct FS as (_ & HR2 & SF3).
  assert (L3 : (s < sfresh w3)%nat) by lia.
  destruct (head_sim w3 r2 s HR2 L3) as (E4 & HR4).
  destruct (lazy_init_head _ _ _ HR2 L3) as (i & Hd4 & _ & SF4).
  destruct (s_head w3 s) as (w4, head') eqn:SH4. destruct (r_head r2 s) as (r3, head4) eqn:RH4.
  cbn [fst snd] in E4, HR4. subst head4.
  assert (w4 = lazy_init w3 s /\ head' = Some i) as (-> & ->) by (unfold s_head in SH4; inv SH4; auto).
  assert (NI : r_in r3 i (sfresh w) = false).
  { destruct (r_in r3 i (sfresh w)) eqn:RI; [|reflexivity]. apply (r_in_sim _ _ _ _ HR4) in RI.
    destruct (R_head_owner _ _ _ _ HR4 Hd4) as (Eh & _). rewrite Eh in RI. inv RI. lia. }
  destruct (drain_loop_sim (rseq r3 (sfresh w)) (lazy_init w3 s) r3 i (sfresh w) (fuel_of (lazy_init w3 s)) HR4)
    as (w' & r' & A & B & C & D); auto; try lia.
  { unfold fuel_of. pose proof (wf_len_le _ _ _ (r_wf _ _ HR4) (sfresh w)). lia. }
  rewrite A, B. split; [exact C|]. lia.
Qed.

(* ------------------------------------------------------------------ the reference only ever hands out new identities *)

Definition rle (r r' : rstate) : Prop := (rif r <= rif r')%nat /\ (rsf r <= rsf r')%nat.

Lemma rle_refl r : rle r r. Proof. split; lia. Qed.
Lemma rle_trans a b c : rle a b -> rle b c -> rle a c. Proof. unfold rle. intros (? & ?) (? & ?). split; lia. Qed.

Ltac rle_tac := first [apply rle_refl | (unfold rle; simpl; lia)].

Lemma r_init_le r s : rle r (r_init r s).
Proof. unfold r_init, rle. destruct (rsen r s); simpl; lia. Qed.

Lemma r_alloc_le r v k : rle r (fst (r_alloc r v k)).
Proof. unfold rle. simpl. lia. Qed.

Lemma r_push_le r s v : rle r (r_push r s v).
Proof. unfold r_push. eapply rle_trans; [apply (r_init_le r s)|]. unfold rle. simpl. lia. Qed.

Lemma r_pop_le r s : rle r (fst (r_pop r s)).
Proof.
  unfold r_pop. eapply rle_trans; [apply (r_init_le r s)|]. destruct (rseq (r_init r s) s); simpl; [apply rle_refl|].
  unfold rle. simpl. lia.
Qed.

Lemma r_appendv_le vs : forall r s, rle r (r_appendv r s vs).
Proof. induction vs as [|v vs IH]; intros r s; simpl; [apply rle_refl|]. eapply rle_trans; [apply r_push_le|apply IH]. Qed.

Lemma r_pop_all_le n : forall r s, rle r (r_pop_all n r s).
Proof.
  induction n as [|n IH]; intros r s; simpl; [apply r_pop_le|]. eapply rle_trans; [apply r_pop_le|apply IH].
Qed.

Lemma r_append_le r it n r' y : r_append r it n = Ok (r', y) -> rle r r'.
Proof.
  unfold r_append. intros E. destruct n as [n|]; [|inv E; rle_tac]. destruct it as [i|]; [|discriminate].
  destruct (r_owner r i); [|inv E; rle_tac]. destruct (r_owner r n); [inv E; rle_tac|].
  destruct (negb (rok r n)); inv E; rle_tac.
Qed.

Lemma r_set_le r it v r' b : r_set r it v = Ok (r', b) -> rle r r'.
Proof.
  unfold r_set. intros E. destruct it as [i|]; [|discriminate]. destruct (r_is_sentinel r i); inv E; rle_tac.
Qed.

Lemma r_remove_le r it : rle r (fst (r_remove r it)).
Proof.
  unfold r_remove. destruct it as [i|]; [|rle_tac]. destruct (r_owner r i) as [s|]; [|rle_tac].
  destruct (negb (mem i (rseq r s))); rle_tac.
Qed.

Lemma r_move_all_le n f : forall r it t r', r_move_all n f r it t = Ok r' -> rle r r'.
Proof.
  induction n as [|n IH]; intros r it t r' E; cbn [r_move_all] in E.
  - inv E. apply r_pop_le.
  - pose proof (r_pop_le r t) as P. destruct (r_pop r t) as (r1, x). cbn [fst] in P.
    destruct (r_append r1 it x) as [[r2 y]| |] eqn:A; cbn [bind fst snd] in E; try discriminate.
    eapply rle_trans; [exact P|]. eapply rle_trans; [eapply r_append_le; exact A|]. eapply IH; exact E.
Qed.

Lemma r_attach_le r it st r' b : r_attach r it st = Ok (r', b) -> rle r r'.
Proof.
  unfold r_attach. intros E. destruct st as [t|]; [|inv E; rle_tac].
  destruct (rseq r t); [inv E; rle_tac|]. destruct it as [i|]; [|discriminate].
  destruct (onat_eqb (Some t) (r_owner r i)); [inv E; rle_tac|].
  destruct (r_move_all _ true r (Some i) t) as [r1| |] eqn:M; simpl in E; try discriminate. inv E.
  eapply r_move_all_le; exact M.
Qed.

Lemma r_fill_le vs : forall r h r' h', r_fill r h vs = Ok (r', h') -> rle r r'.
Proof.
  induction vs as [|v vs IH]; intros r h r' h' E; [simpl in E; inv E; rle_tac|].
  cbn [r_fill] in E. pose proof (r_alloc_le r 0 true) as P0.
  destruct (r_alloc r 0 true) as (r1, e). cbn [fst] in P0.
  destruct (r_set r1 (Some e) v) as [[r2 b]| |] eqn:S; cbn [bind fst snd] in E; try discriminate.
  destruct (r_append r2 h (Some e)) as [[r3 y]| |] eqn:A; cbn [bind fst snd] in E; try discriminate.
  eapply rle_trans; [exact P0|]. eapply rle_trans; [eapply r_set_le; exact S|].
  eapply rle_trans; [eapply r_append_le; exact A|]. eapply IH; exact E.
Qed.

Lemma r_unmarshal_le r s vs r' : r_unmarshal r s vs = Ok r' -> rle r r'.
Proof.
  unfold r_unmarshal, r_head. intros E.
  destruct (r_fill _ _ vs) as [[r2 h]| |] eqn:F; cbn [bind fst snd] in E; try discriminate.
  eapply rle_trans; [|eapply r_move_all_le; exact E].
  eapply rle_trans; [|apply r_init_le]. eapply rle_trans; [|eapply r_fill_le; exact F].
  eapply rle_trans; [|apply r_init_le]. unfold rle. simpl. lia.
Qed.

(* ------------------------------------------------------------------ sessions *)

Record RS (ss : sess) (rs : rsess) : Prop := {
  rs_R : R (sw ss) (rsr rs);
  rs_htab : htab ss = rhtab rs;
  rs_stab : stab ss = rstab rs;
  rs_hlt : Forall (fun i => (i < ifresh (sw ss))%nat) (htab ss);
  rs_slt : Forall (fun s => (s < sfresh (sw ss))%nat) (stab ss);
  rs_s0 : (0 < sfresh (sw ss))%nat;
}.

Lemma RS_handle ss rs h : RS ss rs -> handle ss h = rhandle rs h.
Proof. intros H. unfold handle, rhandle. now rewrite (rs_htab _ _ H). Qed.

Lemma RS_handle_lt ss rs h i : RS ss rs -> handle ss h = Some i -> (i < ifresh (sw ss))%nat.
Proof.
  intros H. unfold handle. destruct (h <? 0); [discriminate|]. intros E. apply nth_error_In in E.
  pose proof (rs_hlt _ _ H) as F. rewrite Forall_forall in F. now apply F.
Qed.

Lemma RS_stack_at ss rs k : RS ss rs -> stack_at ss k = rstack_at rs k /\ (stack_at ss k < sfresh (sw ss))%nat.
Proof.
  intros H. unfold stack_at, rstack_at. rewrite <- (rs_stab _ _ H). split; [reflexivity|].
  destruct (nth_in_or_default k (stab ss) 0%nat) as [I | E0]; [|rewrite E0; apply (rs_s0 _ _ H)].
  pose proof (rs_slt _ _ H) as F. rewrite Forall_forall in F. now apply F.
Qed.

Lemma RS_with ss rs w' r' : RS ss rs -> R w' r' -> rle (rsr rs) r' -> RS (with_world ss w') (rwith rs r').
Proof.
  intros H HR (L1 & L2). pose proof (rs_R _ _ H) as HR0.
  constructor; simpl; try apply H; auto.
  - eapply Forall_impl; [|apply (rs_hlt _ _ H)]. intros i Li. simpl in Li.
    rewrite (r_if _ _ HR). rewrite (r_if _ _ HR0) in Li. lia.
  - eapply Forall_impl; [|apply (rs_slt _ _ H)]. intros i Li. simpl in Li.
    rewrite (r_sf _ _ HR). rewrite (r_sf _ _ HR0) in Li. lia.
  - pose proof (rs_s0 _ _ H) as Z0. rewrite (r_sf _ _ HR). rewrite (r_sf _ _ HR0) in Z0. lia.
Qed.

Lemma RS_ret_item ss rs w' r' it : RS ss rs -> R w' r' -> rle (rsr rs) r' ->
  (forall i, it = Some i -> (i < ifresh w')%nat) ->
  snd (ret_item ss w' it) = snd (rret_item rs r' it) /\ RS (fst (ret_item ss w' it)) (fst (rret_item rs r' it)).
Proof.
  intros H HR LE Li. pose proof (RS_with _ _ _ _ H HR LE) as H1.
  unfold ret_item, rret_item. rewrite <- (rs_htab _ _ H).
  destruct (note_item (htab ss) it) as (tab, h) eqn:NI. simpl. split; [reflexivity|].
  constructor; simpl; try apply H1; try apply H; auto.
  unfold note_item in NI. destruct it as [i|]; [|inv NI; apply (rs_hlt _ _ H1)].
  destruct (index_of i (htab ss)); inv NI; [apply (rs_hlt _ _ H1)|].
  apply Forall_app. split; [apply (rs_hlt _ _ H1)|]. constructor; [|constructor]. auto.
Qed.

Lemma index_of_lt x l k : index_of x l = Some k -> (k < length l)%nat.
Proof.
  revert k. induction l as [|y l IH]; simpl; intros k E; [discriminate|].
  destruct (Nat.eqb x y); [inv E; lia|]. destruct (index_of x l) as [j|]; [|discriminate]. inv E.
  specialize (IH j eq_refl). lia.
Qed.

Lemma lt_mono w r w' r' i : R w r -> R w' r' -> rle r r' -> (i < ifresh w)%nat -> (i < ifresh w')%nat.
Proof. intros HR HR' (L & _) Li. rewrite (r_if _ _ HR'). rewrite (r_if _ _ HR) in Li. lia. Qed.

Lemma pop_ret_lt w r s i : R w r -> (s < sfresh w)%nat -> snd (s_pop w s) = Some i -> (i < ifresh (fst (s_pop w s)))%nat.
Proof.
  intros HR Ls. unfold s_pop. destruct (shead (stacks w s)) as [h|] eqn:Hd.
  - destruct (R_head_owner _ _ _ _ HR Hd) as (_ & Lh & _).
    destruct (slen (stacks w s) =? 0); simpl; intros E; inv E; exact Lh.
  - simpl. rewrite lazy_init_stacks by exact Hd. rewrite Nat.eqb_refl. simpl. intros E. inv E.
    destruct (lazy_init_fresh _ _ Hd) as (-> & _). lia.
Qed.

Lemma head_ret_lt w r s i : R w r -> (s < sfresh w)%nat -> snd (s_head w s) = Some i -> (i < ifresh (fst (s_head w s)))%nat.
Proof.
  intros HR Ls. unfold s_head. simpl. intros E.
  pose proof (lazy_init_sim _ _ _ HR Ls) as HR1. now destruct (R_head_owner _ _ _ _ HR1 E) as (_ & Lh & _).
Qed.

Ltac fin_pair H :=
  let E := fresh "E" in let HS := fresh "HS" in
  destruct H as (E & HS);
  match goal with
  | |- context [ret_item ?a ?b ?c] => destruct (ret_item a b c)
  end;
  match goal with
  | |- context [rret_item ?a ?b ?c] => destruct (rret_item a b c)
  end; simpl in E, HS; split; [f_equal; exact E|exact HS].

Theorem step_sim ss rs o : RS ss rs -> rguard rs o = true ->
  match step ss o, rstep rs o with
  | Ok (ss', x), Ok (rs', x') => x = x' /\ RS ss' rs'
  | Panic, Panic => True
  | _, _ => False
  end.
Proof.
  intros H G. pose proof (rs_R _ _ H) as HR.
  destruct o; unfold step, rstep; cbn [rguard] in G;
    try (destruct (RS_stack_at _ _ s H) as (Es & Ls); rewrite <- Es);
    try rewrite <- (RS_handle _ _ h H); try rewrite <- (RS_handle _ _ n H).
  - (* Push *)
    destruct (push_sim _ _ _ v HR Ls) as (w' & E1 & HR1 & _). rewrite E1. cbn [bind]. split; [reflexivity|].
    apply RS_with; auto. apply r_push_le.
  - (* Pop *)
    destruct (pop_sim _ _ _ HR Ls) as (E1 & HR1). pose proof (fun i => pop_ret_lt _ _ _ i HR Ls) as LT. pose proof (r_pop_le (rsr rs) (stack_at ss s)) as LE.
    destruct (s_pop (sw ss) (stack_at ss s)) as (w1, it). destruct (r_pop (rsr rs) (stack_at ss s)) as (r1, it').
    cbn [fst snd] in *. subst it'.
    fin_pair (RS_ret_item _ _ w1 r1 it H HR1 LE (fun i E => LT i E)).
  - (* Head *)
    destruct (head_sim _ _ _ HR Ls) as (E1 & HR1). pose proof (fun i => head_ret_lt _ _ _ i HR Ls) as LT.
    assert (LE : rle (rsr rs) (fst (r_head (rsr rs) (stack_at ss s)))) by apply r_init_le.
    destruct (s_head (sw ss) (stack_at ss s)) as (w1, it). destruct (r_head (rsr rs) (stack_at ss s)) as (r1, it').
    cbn [fst snd] in *. subst it'.
    fin_pair (RS_ret_item _ _ w1 r1 it H HR1 LE (fun i E => LT i E)).
  - (* Len *) rewrite (len_sim _ _ _ HR). auto.
  - (* Append(vs...) *)
    destruct (appendv_sim vs _ _ _ HR Ls) as (w' & E1 & HR1 & _). rewrite E1. cbn [bind]. split; [reflexivity|].
    apply RS_with; auto. apply r_appendv_le.
  - (* Iterator *) rewrite (iter_sim _ _ _ HR). cbn [bind]. auto.
  - (* PopIterator *)
    destruct (popiter_sim _ _ _ HR Ls) as (w' & E1 & HR1 & _). rewrite E1. cbn [bind fst snd].
    unfold r_popiter in *. cbn [fst snd] in *. split; [reflexivity|].
    apply RS_with; auto. apply r_pop_all_le.
  - (* Head/Next walk *)
    rewrite (walk_sim _ _ _ HR Ls). cbn [bind fst snd]. unfold r_walk. split; [reflexivity|].
    apply RS_with; [auto|now apply lazy_init_sim|apply r_init_le].
  - (* MarshalJSON *)
    unfold s_marshal. rewrite (walk_sim _ _ _ HR Ls). cbn [bind fst snd]. unfold r_walk. split; [reflexivity|].
    apply RS_with; [auto|now apply lazy_init_sim|apply r_init_le].
  - (* UnmarshalJSON *)
    pose proof (unmarshal_sim _ _ _ vs HR Ls) as US.
    destruct (s_unmarshal (sw ss) (stack_at ss s) vs) as [w'| |];
      destruct (r_unmarshal (rsr rs) (stack_at ss s) vs) as [r'| |] eqn:RU; try contradiction; cbn [bind]; [|exact I].
    destruct US as (HR1 & _). split; [reflexivity|]. apply RS_with; auto. eapply r_unmarshal_le; exact RU.
  - (* malformed JSON *) auto.
  - (* NewItem *)
    destruct (alloc_sim _ _ v true HR) as (HR1 & Ex). unfold make_item.
    destruct (alloc_item (sw ss) (mkItem None None true v)) as (w1, i) eqn:A. destruct (r_alloc (rsr rs) v true) as (r1, i') eqn:RA.
    cbn [fst snd] in *. subst i'. assert (i = ifresh (sw ss) /\ ifresh w1 = S (ifresh (sw ss))) as (-> & F1) by (unfold alloc_item in A; inv A; auto).
    assert (LE : rle (rsr rs) r1) by (pose proof (r_alloc_le (rsr rs) v true) as P; now rewrite RA in P).
    fin_pair (RS_ret_item _ _ w1 r1 (Some (ifresh (sw ss))) H HR1 LE ltac:(intros j Ej; inv Ej; lia)).
  - (* &Item{} *)
    destruct (alloc_sim _ _ 0 false HR) as (HR1 & Ex). unfold zero_item.
    destruct (alloc_item (sw ss) (mkItem None None false 0)) as (w1, i) eqn:A. destruct (r_alloc (rsr rs) 0 false) as (r1, i') eqn:RA.
    cbn [fst snd] in *. subst i'. assert (i = ifresh (sw ss) /\ ifresh w1 = S (ifresh (sw ss))) as (-> & F1) by (unfold alloc_item in A; inv A; auto).
    assert (LE : rle (rsr rs) r1) by (pose proof (r_alloc_le (rsr rs) 0 false) as P; now rewrite RA in P).
    fin_pair (RS_ret_item _ _ w1 r1 (Some (ifresh (sw ss))) H HR1 LE ltac:(intros j Ej; inv Ej; lia)).
  - (* Next *)
    destruct (handle ss h) as [i|] eqn:Eh; cbn [i_next bind]; [|exact I].
    rewrite (next_sim _ _ i HR).
    assert (LT : forall j, inext (items (sw ss) i) = Some j -> (j < ifresh (sw ss))%nat).
    { intros j Ej. eapply (wf_next_lt _ _ _ (r_wf _ _ HR)); [|exact Ej]. eapply RS_handle_lt; eassumption. }
    fin_pair (RS_ret_item _ _ (sw ss) (rsr rs) (inext (items (sw ss) i)) H HR (rle_refl _) LT).
  - (* Ok *)
    split; [|exact H]. f_equal. destruct (handle ss h) as [i|]; simpl; [apply (r_ok _ _ HR)|reflexivity].
  - (* In *)
    destruct (handle ss h) as [i|]; cbn [i_in bind]; [|exact I]. rewrite (owner_sim _ _ i HR). auto.
  - (* Value *)
    destruct (handle ss h) as [i|]; cbn [i_value bind]; [|exact I]. rewrite (r_val _ _ HR). auto.
  - (* Set *)
    pose proof (set_sim _ _ (handle ss h) v HR) as SS.
    destruct (i_set (sw ss) (handle ss h) v) as [[w1 b]| |]; destruct (r_set (rsr rs) (handle ss h) v) as [[r1 b']| |] eqn:RSet;
      try contradiction; cbn [bind fst snd]; [|exact I].
    destruct SS as (-> & HR1 & _). split; [reflexivity|]. apply RS_with; auto. eapply r_set_le; exact RSet.
  - (* Append *)
    assert (Ln : forall i, handle ss n = Some i -> (i < ifresh (sw ss))%nat) by (intros i; apply (RS_handle_lt _ _ _ _ H)).
    pose proof (append_sim _ _ (handle ss h) (handle ss n) HR Ln) as AS.
    destruct (i_append (sw ss) (handle ss h) (handle ss n)) as [[w1 y]| |] eqn:IA;
      destruct (r_append (rsr rs) (handle ss h) (handle ss n)) as [[r1 y']| |] eqn:RA; try contradiction; cbn [bind fst snd]; [|exact I].
    destruct AS as (<- & HR1). pose proof (r_append_le _ _ _ _ _ RA) as LE.
    assert (LT : forall j, y = Some j -> (j < ifresh w1)%nat).
    { intros j ->. eapply lt_mono; [exact HR|exact HR1|exact LE|].
      unfold r_append in RA. destruct (handle ss n) as [n'|] eqn:En.
      - destruct (handle ss h) as [i|] eqn:Eh; [|discriminate].
        assert (Li : (i < ifresh (sw ss))%nat) by (eapply RS_handle_lt; eassumption).
        assert (Ln' : (n' < ifresh (sw ss))%nat) by (eapply RS_handle_lt; eassumption).
        destruct (r_owner (rsr rs) i); [|now inv RA]. destruct (r_owner (rsr rs) n'); [now inv RA|].
        destruct (negb (rok (rsr rs) n')); now inv RA.
      - inv RA. eapply RS_handle_lt; eassumption. }
    fin_pair (RS_ret_item _ _ w1 r1 y H HR1 LE LT).
  - (* Remove *)
    assert (G' : match handle ss h with Some i => r_is_top (rsr rs) i = false | None => True end).
    { rewrite (RS_handle _ _ h H). destruct (rhandle rs h); [now apply negb_true_iff in G|exact I]. }
    pose proof (remove_sim _ _ (handle ss h) HR G') as RM. pose proof (r_remove_le (rsr rs) (handle ss h)) as LE.
    destruct (i_remove (sw ss) (handle ss h)) as [[w1 b]| |]; try contradiction. cbn [bind fst snd].
    destruct (r_remove (rsr rs) (handle ss h)) as (r1, b'). cbn [fst snd] in *.
    destruct RM as (-> & HR1 & _). split; [reflexivity|]. apply RS_with; auto.
  - (* Attach *)
    assert (Lt : forall t, option_map (stack_at ss) s = Some t -> (t < sfresh (sw ss))%nat).
    { intros t E. destruct s as [k|]; [|discriminate]. inv E. now destruct (RS_stack_at _ _ k H). }
    assert (Es : option_map (stack_at ss) s = option_map (rstack_at rs) s).
    { destruct s as [k|]; [|reflexivity]. simpl. f_equal. now destruct (RS_stack_at _ _ k H). }
    rewrite <- Es. pose proof (attach_sim _ _ (handle ss h) _ HR Lt) as AT.
    destruct (i_attach (sw ss) (handle ss h) (option_map (stack_at ss) s)) as [[w1 b]| |];
      destruct (r_attach (rsr rs) (handle ss h) (option_map (stack_at ss) s)) as [[r1 b']| |] eqn:RA; try contradiction; cbn [bind fst snd]; [|exact I].
    destruct AT as (-> & HR1 & _). split; [reflexivity|]. apply RS_with; auto. eapply r_attach_le; exact RA.
  - (* Detach: excluded *) discriminate.
Qed.

(* ------------------------------------------------------------------ observations and whole runs *)

Lemma observe_stacks_sim eager : forall l w r, R w r -> Forall (fun s => (s < sfresh w)%nat) l ->
  snd (observe_stacks eager w l) = snd (robserve_stacks eager r l) /\
  R (fst (observe_stacks eager w l)) (fst (robserve_stacks eager r l)) /\
  rle r (fst (robserve_stacks eager r l)).
Proof.
  induction l as [|s l IH]; intros w r HR F.
  - simpl. split; [reflexivity|]. split; [exact HR|apply rle_refl].
  - cbn [observe_stacks robserve_stacks]. inv F. rename H1 into Ls. rename H2 into F.
    set (w1 := if eager then lazy_init w s else w).
    set (r1 := if eager then r_init r s else r).
    assert (HR1 : R w1 r1) by (unfold w1, r1; destruct eager; [now apply lazy_init_sim|exact HR]).
    assert (SF : sfresh w1 = sfresh w).
    { unfold w1. destruct eager; [|reflexivity]. now destruct (lazy_init_head _ _ _ HR Ls) as (_ & _ & _ & ?). }
    assert (LE : rle r r1) by (unfold r1; destruct eager; [apply r_init_le|apply rle_refl]).
    assert (F1 : Forall (fun s => (s < sfresh w1)%nat) l) by (rewrite SF; exact F).
    destruct (IH w1 r1 HR1 F1) as (E & HR2 & LE2).
    assert (EQ : (if eager then let '(w1, h) := s_head w s in (w1, walk_bounded (bound_of w1 s) w1 h) else (w, []))
                 = (w1, if eager then r_values r1 s else [])).
    { unfold w1, r1. destruct eager; [|reflexivity]. unfold s_head. f_equal.
      apply (walk_bounded_sim _ _ s (lazy_init_sim _ _ _ HR Ls)). }
    rewrite EQ. rewrite (walk_bounded_sim _ _ s HR1), (len_sim _ _ s HR1). fold r1.
    destruct (observe_stacks eager w1 l) as (w2, os). destruct (robserve_stacks eager r1 l) as (r2, os').
    simpl in *. subst os'. split; [reflexivity|]. split; [exact HR2|]. eapply rle_trans; eassumption.
Qed.

Lemma observe_handle_sim w r s0 s1 i : R w r -> observe_handle w s0 s1 i = robserve_handle r s0 s1 i.
Proof.
  intros HR. unfold observe_handle, robserve_handle.
  now rewrite !(owner_sim _ _ _ HR), (r_ok _ _ HR), (r_val _ _ HR).
Qed.

Lemma observe_sim eager ss rs : RS ss rs ->
  snd (observe eager ss) = snd (robserve eager rs) /\ RS (fst (observe eager ss)) (fst (robserve eager rs)).
Proof.
  intros H. pose proof (rs_R _ _ H) as HR. unfold observe, robserve.
  destruct (observe_stacks_sim eager (stab ss) _ _ HR (rs_slt _ _ H)) as (E & HR1 & LE).
  rewrite <- (rs_stab _ _ H), <- (rs_htab _ _ H).
  destruct (RS_stack_at _ _ 0 H) as (<- & _). destruct (RS_stack_at _ _ 1 H) as (<- & _).
  destruct (observe_stacks eager (sw ss) (stab ss)) as (w1, os).
  destruct (robserve_stacks eager (rsr rs) (stab ss)) as (r1, os').
  simpl in *. subst os'. split.
  - f_equal. apply map_ext. intros i. now apply observe_handle_sim.
  - now apply RS_with.
Qed.

Theorem run_sim eager : forall ops ss rs, RS ss rs -> avoids_remove_head eager rs ops = true ->
  run eager ss ops = rrun eager rs ops.
Proof.
  induction ops as [|o ops IH]; intros ss rs H A; simpl; [reflexivity|].
  simpl in A. apply andb_true_iff in A. destruct A as (G & A).
  pose proof (step_sim _ _ o H G) as SS.
  destruct (step ss o) as [[ss1 x]| |]; destruct (rstep rs o) as [[rs1 x']| |]; try contradiction; try reflexivity.
  destruct SS as (<- & H1). destruct (observe_sim eager _ _ H1) as (E & H2).
  destruct (observe eager ss1) as (ss2, (os, hs)). destruct (robserve eager rs1) as (rs2, (os', hs')).
  simpl in *. inv E. f_equal. now apply IH.
Qed.

Lemma R_init : R empty_world rinit.
Proof.
  constructor; simpl; auto.
  constructor; simpl; auto; try discriminate; try (intros; constructor); try (intros; lia).
Qed.

Lemma RS_init : RS init_sess rsinit.
Proof.
  constructor; simpl; auto; try apply R_init.
Qed.
