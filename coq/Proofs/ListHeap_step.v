(* Every operation preserves the invariant (basic operations; the loops are in ListHeap_loops.v). *)
From FunV Require Import Base.Tac Base.ListX Model.SortSpec Model.ListHeap
  Proofs.ListHeap_ring Proofs.ListHeap_wf Proofs.ListHeap_splice Proofs.ListHeap_ops Proofs.ListHeap_obs.
Local Open Scope Z_scope.

Definition rvalid (w : world) (e : ref) : Prop := match e with Some n => (n < nfresh w)%nat | None => True end.
Definition lvalid (w : world) (l : nat) : Prop := (l < lfresh w)%nat.

(* handles are allocated elements or nil; lists are allocated lists; Extend never gets the same list twice *)
Definition op_valid (w : world) (o : op) : Prop :=
  match o with
  | OPushFront l _ | OPushBack l _ | OPopFront l | OPopBack l | OFront l | OBack l
  | OCopy l | OSlice l | OIter _ l | OSortQuick l _ | OSortMerge l _ | OIsSorted l _ => lvalid w l
  | ONewElement _ => True
  | ONext e | OPrev e | ORemove e | ODrop e | OSet e _ => rvalid w e
  | OAppend e n | OSwap e n => rvalid w e /\ rvalid w n
  | OExtend l i => lvalid w l /\ lvalid w i /\ l <> i
  | OJSON s d => lvalid w s /\ lvalid w d
  end.

(* methods that dereference their receiver: a nil receiver panics in Go and in the model *)
Definition nil_receiver (w : world) (o : op) : bool :=
  match o with
  | ONext None | OPrev None | ORemove None | ODrop None => true
  | OAppend None (Some n) => nok (nodes w n)    (* appendable tests new.ok before it touches e.list *)
  | _ => false
  end.

Definition step_good (w : world) (o : op) : Prop :=
  exists out w' E', step o w = Ret out w' /\ WF w' E' /\ ext w w'.

Definition basic (o : op) : bool :=
  match o with
  | OExtend _ _ | OCopy _ | OSlice _ | OIter _ _ | OJSON _ _ | OSortQuick _ _ | OSortMerge _ _ | OIsSorted _ _ => false
  | _ => true
  end.

Lemma lazy_ext w E l w' : WF w E -> (l < lfresh w)%nat -> lazySetup l w = Ret tt w' -> WF w' E /\ ext w w'.
Proof.
  intros W Hl Run. destruct (lazySetup_spec w E l W Hl) as (w1 & r & Run1 & W1 & _ & Ex & _).
  rewrite Run in Run1. inv Run1. auto.
Qed.

Lemma alloc_ext w nd r w' : alloc nd w = Ret r w' -> ext w w'.
Proof. unfold alloc. intros H. inv H. split; simpl; lia. Qed.

Lemma nil_receiver_panics w o : nil_receiver w o = true -> step o w = Panic.
Proof.
  destruct o; simpl; try discriminate; try (destruct e; [discriminate|reflexivity]).
  destruct e; [discriminate|]. destruct n; [|discriminate]. intros H.
  unfold Append, appendable, bind. simpl. unfold bind. simpl. rewrite H. reflexivity.
Qed.

Theorem step_WF_basic w E o :
  WF w E -> op_valid w o -> avoids_swap w o = true -> basic o = true -> nil_receiver w o = false ->
  step_good w o.
Proof.
  intros W V AS B NR. unfold step_good. destruct o; simpl in B; try discriminate; simpl in V; simpl step.
  - (* PushFront *)
    destruct (Push_spec true w E l v W V) as (w' & n & Run & W' & _ & _ & _ & P & _).
    unfold bind. simpl in Run. rewrite Run. eauto 10 using pr_ext.
  - destruct (Push_spec false w E l v W V) as (w' & n & Run & W' & _ & _ & _ & P & _).
    unfold bind. simpl in Run. rewrite Run. eauto 10 using pr_ext.
  - (* PopFront *)
    destruct (E l) as [|x t] eqn:EQ.
    + destruct (PopFront_nil w E l W V EQ) as (w1 & w' & r & Run1 & _ & W1 & Run & A & W' & _).
      unfold bind. rewrite Run. do 3 eexists. split; [reflexivity|]. split; [exact W'|].
      eapply ext_trans; [apply (lazy_ext w E l w1 W V Run1)|eapply alloc_ext; eauto].
    + destruct (PopFront_cons w E l x t W V EQ) as (w' & Run & W' & SD & _).
      unfold bind. rewrite Run. eauto 10 using same_data_ext.
  - (* PopBack *)
    destruct (list_snoc_cases (E l)) as [EQ|(t & x & EQ)].
    + destruct (PopBack_nil w E l W V EQ) as (w1 & w' & r & Run1 & _ & W1 & Run & A & W' & _).
      unfold bind. rewrite Run. do 3 eexists. split; [reflexivity|]. split; [exact W'|].
      eapply ext_trans; [apply (lazy_ext w E l w1 W V Run1)|eapply alloc_ext; eauto].
    + destruct (PopBack_snoc w E l x t W V EQ) as (w' & Run & W' & SD & _).
      unfold bind. rewrite Run. eauto 10 using same_data_ext.
  - (* Front *)
    destruct (Front_spec w E l W V) as (w' & r & Run & Run1 & _ & W').
    unfold bind. rewrite Run. do 3 eexists. split; [reflexivity|]. split; [exact W'|]. apply (lazy_ext w E l w' W V Run1).
  - destruct (Back_spec w E l W V) as (w' & r & Run & Run1 & _ & W').
    unfold bind. rewrite Run. do 3 eexists. split; [reflexivity|]. split; [exact W'|]. apply (lazy_ext w E l w' W V Run1).
  - (* NewElement *)
    destruct (alloc_WF w E (mkNode None None None true v) W eq_refl) as (w' & A & W' & _).
    unfold bind, NewElement, makeElem. rewrite A. do 3 eexists. split; [reflexivity|]. split; [exact W'|]. eapply alloc_ext; eauto.
  - (* Next *)
    destruct e as [e|]; [|discriminate]. unfold bind, Next, fld. mrun. eauto 10 using ext_refl.
  - destruct e as [e|]; [|discriminate]. unfold bind, Previous, fld. mrun. eauto 10 using ext_refl.
  - (* Append *)
    destruct V as [Ve Vn]. destruct e as [e|].
    + destruct (can_append w e n) eqn:C.
      * destruct n as [nn|]; [|discriminate].
        destruct (Append_accept w E e nn W Ve Vn C) as (l & r & w' & _ & _ & _ & _ & _ & _ & Run & W' & SD & _).
        unfold bind. rewrite Run. eauto 10 using same_data_ext.
      * unfold bind. rewrite (Append_reject _ _ _ C). eauto 10 using ext_refl.
    + destruct n as [nn|].
      * simpl in NR. unfold bind, Append, appendable. simpl. unfold bind. simpl. rewrite NR. simpl. eauto 10 using ext_refl.
      * unfold bind, Append, appendable. simpl. eauto 10 using ext_refl.
  - (* Remove *)
    destruct e as [e|]; [|discriminate]. destruct (can_remove w e) eqn:C.
    + destruct (Remove_accept w E e W V C) as (l & r & w' & _ & _ & _ & _ & Run & W' & SD & _).
      unfold bind. rewrite Run. eauto 10 using same_data_ext.
    + unfold bind. rewrite (Remove_reject _ _ C). eauto 10 using ext_refl.
  - (* Drop *)
    destruct e as [e|]; [|discriminate]. destruct (can_remove w e) eqn:C.
    + destruct (Drop_accept w E e W V C) as (l & r & w' & _ & _ & _ & _ & Run & W' & _ & _ & _ & _ & Hn & Hlf & _).
      unfold bind. rewrite Run. do 3 eexists. split; [reflexivity|]. split; [exact W'|]. split; lia.
    + unfold bind. rewrite (Drop_reject _ _ C). eauto 10 using ext_refl.
  - (* Swap: only the rejected ones *)
    simpl in AS. apply negb_true_iff in AS. unfold bind. rewrite (Swap_reject _ _ _ AS). eauto 10 using ext_refl.
  - (* Set *)
    destruct e as [e|].
    + unfold bind. rewrite SetV_run. destruct (is_root w e) eqn:R.
      * eauto 10 using ext_refl.
      * do 3 eexists. split; [reflexivity|]. split; [apply set_world_WF; eauto|]. split; simpl; lia.
    + unfold bind. simpl. eauto 10 using ext_refl.
Qed.
