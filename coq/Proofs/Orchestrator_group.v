(* C11 - srv.Group: inductive invariants and the two group theorems. *)
From FunV Require Import Base.Tac Model.OrchestratorModel Proofs.Orchestrator_base.
Import Grp.

Definition rank (p : gpc) : nat :=
  match p with
  | GNotStarted => 0 | GLoop => 1 | GWaitStart => 2 | GClose => 3 | GBlock _ => 4
  | GReturn => 5 | GCleanIter _ => 6 | GCleanWait => 7 | GFinished => 8
  end.

Section Proofs.
Variable n : nat.
Variable oc : nat -> outcome.
Notation step := (Grp.step n oc).

Ltac open_step s e H :=
  destruct s as [ce wc p k ct w gs ge cl ws gw v e0 ex d r res]; destruct e; simpl in H; destr_step H;
  inversion H; subst; clear H; simpl in *.

Definition all_fin (s : st) (j : nat) : Prop := forall k, k < j -> k < nsp s -> sv s k = SFinished.

Definition inv_runs (s : st) : Prop :=
  forall i, (sv s i = SIdle \/ sv s i = SStarted -> runs s i = 0) /\
            (sv s i = SRunning \/ sv s i = SFinished -> runs s i = 1).
Definition inv_nsp (s : st) : Prop := nsp s <= n /\ forall k, nsp s <= k -> sv s k = SIdle.
Definition inv_wg (s : st) : Prop := wg s = length (gstart s) + length (genq s) + length (gwait s).
Definition inv_pc (s : st) : Prop :=
  (3 <= rank (pc s) -> gstart s = [] /\ genq s = []) /\
  (closed s = true -> 4 <= rank (pc s)) /\
  (wcancel s = true -> 6 <= rank (pc s)) /\
  (rank (pc s) <= 5 -> gwait s = []) /\
  (2 <= rank (pc s) -> nsp s = n \/ ctxend s = true) /\
  (rank (pc s) <= 1 -> wcancel s = false).
Definition inv_mem (s : st) : Prop :=
  (forall k, k < nsp s -> In k (gstart s) \/ In k (genq s) \/ In k (waiters s)) /\
  (forall k, In k (gstart s) \/ In k (genq s) \/ In k (waiters s) -> k < nsp s) /\
  (forall k, In k (genq s) \/ In k (waiters s) -> sv s k <> SIdle).
Definition inv_blk (s : st) : Prop :=
  (forall j, pc s = GBlock j -> ctxend s = true \/ all_fin s j) /\
  (pc s = GReturn -> ctxend s = true \/ all_fin s (nsp s)) /\
  (wcancel s = true -> ctxend s = true \/ (nsp s = n /\ all_fin s (nsp s))).
Definition inv_blocking (s : st) : Prop :=
  forall k, blocking (oc k) = true -> sv s k = SFinished -> ctxend s = true.
Definition inv_ec (s : st) : Prop := forall i, In i (ec s) -> fails (oc i) = true.
Definition inv_dn (s : st) : Prop :=
  forall i, In i (dn s) -> sv s i = SFinished /\ (fails (oc i) = true -> In i (ec s)).
Definition inv_cov (s : st) : Prop :=
  (forall j, pc s = GCleanIter j -> forall m i, m < j -> nth_error (waiters s) m = Some i -> In i (gwait s) \/ In i (dn s)) /\
  (7 <= rank (pc s) -> forall i, In i (waiters s) -> In i (gwait s) \/ In i (dn s)).
Definition inv_done (s : st) : Prop := pc s = GFinished -> result s = Some (ec s) /\ wg s = 0.

Lemma inv_runs_step s e s' : inv_runs s -> step s e = Some s' -> inv_runs s'.
Proof.
  unfold inv_runs. intros R H. open_step s e H; try assumption; intros i0; specialize (R i0) as [R0 R1].
  all: phase_facts; upd_all.
  all: try (split; intros [X|X]; try discriminate X; try congruence; auto).
Qed.

Lemma inv_nsp_step s e s' : inv_mem s -> inv_nsp s -> step s e = Some s' -> inv_nsp s'.
Proof.
  unfold inv_nsp, inv_mem. intros (_ & M2 & _) [N1 N2] H. open_step s e H; try (split; assumption); phase_facts.
  all: split; try lia; try assumption.
  all: intros k0 Hk; try (upd_all; try (apply N2; lia); try (rewrite N2 in *; [discriminate|lia]); fail).
  all: try (apply N2; lia).
  assert (i < k) by (apply M2; auto). rewrite upd_other by lia. apply N2; lia.
Qed.

Lemma inv_wg_step s e s' : inv_wg s -> step s e = Some s' -> inv_wg s'.
Proof.
  unfold inv_wg. intros W H. open_step s e H; try assumption; phase_facts; simpl; try lia.
  all: try (match goal with Hin : In ?i ?l |- context [rm1 ?i ?l] => pose proof (length_rm1 i l Hin) end; try rewrite app_length; simpl; lia).
Qed.

Lemma len0_nil {A} (l : list A) : length l = 0 -> l = [].
Proof. destruct l; simpl; [reflexivity|discriminate]. Qed.

Lemma inv_pc_step s e s' : inv_wg s -> inv_pc s -> step s e = Some s' -> inv_pc s'.
Proof.
  unfold inv_wg, inv_pc. intros W (P1 & P2 & P3 & P4 & P5 & P6) H.
  open_step s e H; try (repeat split; assumption); phase_facts.
  all: repeat split; intros; try lia; try discriminate; try tauto; try reflexivity.
  all: try (apply P1; lia); try (apply P2; auto; fail); try (apply P3; auto; fail); try (apply P4; lia);
       try (apply P5; lia); try (apply P6; lia).
  all: try (match goal with X : 3 <= rank _ |- _ => destruct (P1 X) as [-> ->]; simpl in *; tauto end).
  all: try (match goal with X : rank _ <= 5 |- _ => rewrite (P4 X) in *; simpl in *; tauto end).
  all: try (apply len0_nil; lia).
Qed.

Lemma inv_mem_step s e s' : inv_pc s -> inv_mem s -> step s e = Some s' -> inv_mem s'.
Proof.
  unfold inv_pc, inv_mem. intros (P1 & P2 & _) (M1 & M2 & M3) H.
  open_step s e H; try (repeat split; assumption); phase_facts.
  all: try (match goal with X : In _ ?l |- _ =>
              assert (4 <= rank p) as Hr by (apply P2; reflexivity);
              destruct P1 as [E1 E2]; [lia|]; subst; simpl in X; tauto end).
  all: split; [intros k0 Hk|split; intros k0 Hk].
  (* clause 3 for steps that only touch sv *)
  all: try (apply M3 in Hk; upd_all; congruence).
  all: try (apply M1; assumption); try (apply M2; assumption).
  - (* ENext, clause 1 *)
    assert (X : k0 < k \/ k0 = k) by lia. destruct X as [X| ->]; [apply M1 in X; tauto|tauto].
  - destruct Hk as [[<-|Hk]|Hk]; [lia| |]; assert (k0 < k) by (apply M2; auto); lia.
  - (* EGStart idle *)
    apply M1 in Hk. destruct Hk as [Hk|[Hk|Hk]]; try tauto.
    destruct (In_rm1_or k0 i gs Hk) as [->|?]; tauto.
  - destruct Hk as [Hk|[[<-|Hk]|Hk]]; try (apply In_rm1 in Hk); apply M2; tauto.
  - destruct Hk as [[<-|Hk]|Hk]; upd_all; try congruence; apply M3; tauto.
  - (* EGStart not idle *)
    apply M1 in Hk. destruct Hk as [Hk|[Hk|Hk]]; try tauto.
    destruct (In_rm1_or k0 i gs Hk) as [->|?]; tauto.
  - destruct Hk as [Hk|[[<-|Hk]|Hk]]; try (apply In_rm1 in Hk); apply M2; tauto.
  - destruct Hk as [[<-|Hk]|Hk]; [assumption|apply M3; tauto|apply M3; tauto].
  - (* EGEnq *)
    apply M1 in Hk. destruct Hk as [Hk|[Hk|Hk]]; [tauto| |right; right; apply in_or_app; tauto].
    destruct (In_rm1_or k0 i ge Hk) as [->|?]; [right; right; apply in_or_app; simpl; tauto|tauto].
  - destruct Hk as [Hk|[Hk|Hk]]; [apply M2; tauto|apply In_rm1 in Hk; apply M2; tauto|].
    apply in_app_or in Hk. destruct Hk as [Hk|[<-|[]]]; apply M2; tauto.
  - destruct Hk as [Hk|Hk]; [apply In_rm1 in Hk; apply M3; tauto|].
    apply in_app_or in Hk. destruct Hk as [Hk|[<-|[]]]; apply M3; tauto.
Qed.

Lemma inv_blk_step s e s' : inv_pc s -> inv_mem s -> inv_blk s -> step s e = Some s' -> inv_blk s'.
Proof.
  unfold inv_pc, inv_mem, inv_blk, all_fin. intros (P1 & P2 & P3 & P4 & P5 & P6) (M1 & M2 & M3) (B1 & B2 & B3) H.
  open_step s e H; try (repeat split; assumption); phase_facts.
  all: try (repeat split; intros; left; reflexivity).     (* ECancel *)
  (* steps that only change sv: finished members stay finished *)
  all: try (split; [intros j Hj; destruct (B1 j Hj) as [?|A]; [now left|right]|
            split; [intros Hj; destruct (B2 Hj) as [?|A]; [now left|right]|
                    intros Hj; destruct (B3 Hj) as [?|[? A]]; [now left|right; split; [assumption|]]]];
            intros k0 Hk0 Hk1; specialize (A k0 Hk0 Hk1); upd_all; congruence).
  all: repeat split; try discriminate; try (intros; discriminate).
  all: try (intros X; rewrite P6 in X by (simpl; lia); discriminate).
  all: try (intros X; apply P3 in X; simpl in X; lia).
  all: try (intros j Hj; inversion Hj; subst; clear Hj).
  all: try (intros X; apply B3 in X; exact X).
  - right. intros; lia.
  - (* EBlockNext, member j passed *)
    intros j0 Hj0. inversion Hj0; subst; clear Hj0.
    destruct (B1 j eq_refl) as [?|A]; [now left|].
    match goal with X : orb _ _ = true |- _ => rename X into HB end.
    apply orb_true_iff in HB. destruct HB as [X|X].
    + apply orb_true_iff in X. destruct X as [X|X].
      * apply is_finished_true in X. right. intros k0 Hk0 Hk1.
        assert (Y : k0 < j \/ k0 = j) by lia. destruct Y as [Y| ->]; auto.
      * apply orb_true_iff in X. destruct X as [X|X]; [now left|].
        apply P3 in X. simpl in X. lia.
    + apply is_idle_true in X. exfalso.
      destruct P1 as [-> ->]; [simpl; lia|].
      destruct (M1 j) as [Y|[Y|Y]]; try assumption; try (now inversion Y).
      apply (M3 j); auto.
  - (* EBlockNext, loop finished *)
    intros _. destruct (B1 j eq_refl) as [?|A]; [now left|]. right. intros k0 _ Hk. apply A; lia.
  - (* EReturn *)
    intros _. destruct (B2 eq_refl) as [?|A]; [now left|].
    destruct P5 as [?| ->]; [simpl; lia| |now left]. right. split; assumption.
Qed.

Lemma inv_blocking_step s e s' : inv_nsp s -> inv_blk s -> inv_blocking s -> step s e = Some s' -> inv_blocking s'.
Proof.
  unfold inv_nsp, inv_blk, inv_blocking, all_fin. intros (N1 & N2) (_ & _ & B3) K H.
  open_step s e H; try assumption; try (intros; reflexivity); intros k0 Hb Hf.
  all: try (upd_all; try discriminate; eapply K; eauto; fail).
  destruct (Nat.eq_dec k0 i) as [->|Hne]; [|rewrite upd_other in Hf by assumption; eapply K; eauto].
  rewrite Hb in *. simpl in *. destruct ce; [reflexivity|]. simpl in *. subst.
  destruct (B3 eq_refl) as [?|[_ A]]; [assumption|].
  assert (i < k). { destruct (Nat.lt_ge_cases i k); [assumption|]. rewrite N2 in *; [discriminate|assumption]. }
  rewrite A in *; [discriminate|assumption|assumption].
Qed.

Lemma inv_ec_step s e s' : inv_ec s -> step s e = Some s' -> inv_ec s'.
Proof.
  unfold inv_ec. intros E H. open_step s e H; try assumption; intros j Hj.
  all: apply In_add_err in Hj; destruct Hj as [[-> F]|Hj]; auto.
Qed.

Lemma inv_dn_step s e s' : inv_dn s -> step s e = Some s' -> inv_dn s'.
Proof.
  unfold inv_dn. intros D H. open_step s e H; try assumption; intros j Hj; phase_facts.
  all: try (destruct Hj as [<-|Hj]; [split; [assumption|intros F; apply In_add_err; now left]|]).
  all: try (specialize (D j Hj) as [D1 D2]; upd_all; split; try congruence; auto using In_add_err_mono; fail).
Qed.

Lemma inv_done_step s e s' : inv_wg s -> inv_done s -> step s e = Some s' -> inv_done s'.
Proof.
  unfold inv_wg, inv_done. intros W D H. open_step s e H; try assumption; try discriminate; phase_facts.
  all: try (intros X; specialize (D X) as [D1 D2]; subst; split; auto; fail).
  all: try (intros X; specialize (D X) as [D1 D2]; subst;
            exfalso; match goal with Hin : In _ ?l |- _ => destruct l; [inversion Hin|simpl in *; lia] end).
  all: try (intros _; split; reflexivity).
Qed.

Lemma inv_cov_step s e s' : inv_pc s -> inv_cov s -> step s e = Some s' -> inv_cov s'.
Proof.
  unfold inv_pc, inv_cov. intros (P1 & _) (C1 & C2) H.
  open_step s e H; try (split; assumption); phase_facts.
  all: try (split; [intros j Hj; discriminate Hj|intros X; simpl in X; lia]).
  all: try (destruct (Nat.le_gt_cases 3 (rank p)) as [X|X];
            [destruct (P1 X) as [-> ->]; simpl in *; tauto|
             split; [intros j Hj; subst; simpl in X; lia|intros Y; lia]]).
  - split; [intros j0 Hj0; discriminate|intros; lia].
  - split; [intros j0 Hj0; discriminate|intros; lia].
  - (* EReturn *) split; [intros j Hj; inversion Hj; subst; intros; lia|simpl; lia].
  - (* ECleanNext *)
    split; [|simpl; lia]. intros j0 Hj0. inversion Hj0; subst; clear Hj0. intros m i0 Hm Hn.
    assert (Y : m < j \/ m = j) by lia. destruct Y as [Y| ->].
    + destruct (C1 j eq_refl m i0 Y Hn); [left; now right|now right].
    + left. left. congruence.
  - (* ECleanEnd *)
    split; [intros j0 Hj0; discriminate|]. intros _ i0 Hi.
    destruct (In_nth_error _ _ Hi) as (m & Hm).
    assert (m < length ws) by (apply nth_error_Some; congruence).
    apply (C1 j eq_refl m i0); [lia|assumption].
  - (* EGWait *)
    split.
    + intros j Hj m i0 Hm Hn. destruct (C1 j Hj m i0 Hm Hn) as [Y|Y]; [|right; now right].
      destruct (In_rm1_or i0 i gw Y) as [->|?]; [right; now left|now left].
    + intros X i0 Hi. destruct (C2 X i0 Hi) as [Y|Y]; [|right; now right].
      destruct (In_rm1_or i0 i gw Y) as [->|?]; [right; now left|now left].
  - (* EFinish *)
    split; [intros j Hj; discriminate|]. intros _. apply C2. simpl. lia.
Qed.

Record inv (s : st) : Prop := {
  i_runs : inv_runs s; i_nsp : inv_nsp s; i_wg : inv_wg s; i_pc : inv_pc s; i_mem : inv_mem s;
  i_blk : inv_blk s; i_blocking : inv_blocking s; i_ec : inv_ec s; i_dn : inv_dn s; i_cov : inv_cov s;
  i_done : inv_done s }.

Lemma inv_init : inv init.
Proof.
  constructor; red; simpl; try tauto.
  - intros i. split; intros [H|H]; try discriminate H; reflexivity.
  - split; [lia|reflexivity].
  - repeat split; intros; try lia; try discriminate; reflexivity.
  - repeat split; intros; try lia; try tauto.
  - repeat split; intros; discriminate.
  - discriminate.
  - split; [intros; discriminate|lia].
  - discriminate.
Qed.

Lemma inv_step s e s' : inv s -> step s e = Some s' -> inv s'.
Proof.
  intros [R N W P M B K E D C F] H. constructor.
  - eapply inv_runs_step; eauto.
  - eapply inv_nsp_step; eauto.
  - eapply inv_wg_step; eauto.
  - eapply inv_pc_step; eauto.
  - eapply inv_mem_step; eauto.
  - eapply inv_blk_step; eauto.
  - eapply inv_blocking_step; eauto.
  - eapply inv_ec_step; eauto.
  - eapply inv_dn_step; eauto.
  - eapply inv_cov_step; eauto.
  - eapply inv_done_step; eauto.
Qed.

Lemma reach_inv s : reach n oc s -> inv s.
Proof. intros (tr & Htr). eapply invariant_run; [apply inv_step|apply inv_init|exact Htr]. Qed.
End Proofs.

(* ---------------------------------------------------------------- theorems *)

(* n = number of members the iterator yields; nsp s = members handed to a starter goroutine so far;
   ctxend s = the group's own context has ended; mctx s = the context the members run under is done. *)
Lemma group_all_started_and_awaited_lemma :
  forall (n : nat) (oc : nat -> outcome) (s : st), reach n oc s ->
    (forall i, runs s i <= 1) /\
    (forall k, nsp s <= k -> runs s k = 0) /\
    (forall obs s', Grp.step n oc s (EWaitRet obs) = Some s' ->
       (nsp s = n \/ ctxend s = true) /\
       (forall k, k < nsp s -> sv s k = SFinished /\ runs s k = 1 /\ (fails (oc k) = true -> In k obs)) /\
       (forall k, In k obs -> fails (oc k) = true)).
Proof.
  intros n oc s Hr. destruct (reach_inv n oc s Hr) as [R N W P M B K E D C F].
  split; [|split].
  - intros i. destruct (R i) as [R0 R1]. destruct (sv s i) eqn:V; [rewrite R0|rewrite R0|rewrite R1|rewrite R1]; auto.
  - intros k Hk. destruct N as [_ N2]. apply R. left. now apply N2.
  - intros obs s' Hs.
    assert (X : pc s = GFinished /\ same_set obs (ec s) = true).
    { destruct s; simpl in *. destruct pc0; try discriminate. destruct (F eq_refl) as [F1 _]. simpl in F1. subst.
      destruct (same_set obs ec0) eqn:X; [auto|discriminate]. }
    destruct X as [X S]. rewrite same_set_spec in S.
    destruct (F X) as [_ W0]. red in W. rewrite W0 in W.
    destruct P as (P1 & P2 & P3 & P4 & P5 & P6). destruct M as (M1 & M2 & M3). destruct C as [_ C2].
    rewrite X in *. simpl in *.
    destruct P1 as [G1 G2]; [lia|].
    assert (GW : gwait s = []) by (destruct (gwait s); [reflexivity|simpl in W; lia]).
    split; [apply P5; lia|]. split.
    + intros k Hk. destruct (M1 k Hk) as [Y|[Y|Y]]; [rewrite G1 in Y; inversion Y|rewrite G2 in Y; inversion Y|].
      destruct (C2 ltac:(lia) k Y) as [Z|Z]; [rewrite GW in Z; inversion Z|].
      destruct (D k Z) as [D1 D2]. split; [assumption|]. split; [apply R; now right|].
      intros Fk. apply S. now apply D2.
    + intros k Hk. apply E. now apply S.
Qed.

Lemma group_members_run_until_return_or_ctx_lemma :
  forall (n : nat) (oc : nat -> outcome) (s : st), reach n oc s ->
    (mctx s = true -> ctxend s = true \/ (nsp s = n /\ forall k, k < n -> sv s k = SFinished)) /\
    (forall k, blocking (oc k) = true -> sv s k = SFinished -> ctxend s = true).
Proof.
  intros n oc s Hr. destruct (reach_inv n oc s Hr) as [R N W P M B K E D C F].
  split; [|exact K].
  unfold mctx. intros X. apply orb_true_iff in X. destruct X as [X|X]; [now left|].
  destruct B as (_ & _ & B3). destruct (B3 X) as [?|[Y A]]; [now left|right].
  split; [assumption|]. intros k Hk. apply A; lia.
Qed.

(* non-vacuity: three members (one returns an error, one blocks until the context ends, one is ok);
   the wrapper cancels only after the context has ended; Wait reports the error *)
Definition ex_oc (i : nat) : outcome := match i with 0 => Err | 1 => Blk | _ => Ok end.
Definition ex_trace : list ev :=
  [EStart; ENext; ENext; EGStart 1; ENext; EGStart 0; EGStart 2; ERunBegin 1; ENextEnd; EGEnq 1; EGEnq 0;
   ERunBegin 0; ERunEnd 0; EGEnq 2; EStartersDone; EClose; ERunBegin 2; EBlockNext; ERunEnd 2; ECancel;
   EBlockNext; EBlockNext; EBlockNext; EReturn; ERunEnd 1; ECleanNext; ECleanNext; ECleanNext; ECleanEnd;
   EGWait 2; EGWait 1; EGWait 0; EFinish; EWaitRet [0]].
Example group_nonvacuous :
  exists s, run (Grp.step 3 ex_oc) init ex_trace = Some s /\ pc s = GFinished /\ nsp s = 3
            /\ result s = Some [0] /\ wcancel s = true /\ ctxend s = true.
Proof. eexists. split; [vm_compute; reflexivity|]. repeat split. Qed.
(* the defect that was repaired (the wrapper cancelling the members once they were all started) is not a
   behaviour of the model: a blocking member cannot end before the context does *)
Example group_blocking_member_cannot_end_early :
  Grp.accepts 3 ex_oc [EStart; ERunBegin 0; ERunBegin 1; ERunBegin 2; ERunEnd 0; ERunEnd 2; ERunEnd 1] = false.
Proof. vm_compute. reflexivity. Qed.
Example group_accepts_example : Grp.accepts 3 ex_oc (filter observable ex_trace) = true.
Proof. vm_compute. reflexivity. Qed.
