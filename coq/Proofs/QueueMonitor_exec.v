(* Proofs/QueueMonitor_exec.v — the executable step function of Model/QueueMonitor.v (part 1) is sound for
   the step relation of Conc/Monitor.v: a schedule replayed with vm_compute yields a reachable state. *)
From FunV Require Import Base.Tac Conc.Monitor Model.QueueMonitor.

Section ExecSound.
Variable Data : Type.
Variable prog : tid -> op Data.
Variable d0 : Data.
Variable hl : bool.
Variable n : nat.

(* threads n, n+1, ... have never been invoked *)
Definition bounded (s : state Data) : Prop := forall u, n <= u -> thr s u = Idle.

Lemma parked_on_true th c u :
  parked_on Data prog th c u = true -> th u = Parked /\ cond_of Data prog u = Some c.
Proof.
  unfold parked_on. destruct (th u); try discriminate. destruct (cond_of Data prog u); try discriminate.
  intros H. apply Nat.eqb_eq in H. subst. auto.
Qed.

Lemma parked_on_false th c u :
  parked_on Data prog th c u = false -> cond_of Data prog u = Some c -> th u <> Parked.
Proof.
  unfold parked_on. intros H Hc E. rewrite E, Hc, Nat.eqb_refl in H. discriminate.
Qed.

Lemma exec_sigs_sound sg : forall tg th th',
  (forall u, n <= u -> th u = Idle) ->
  exec_sigs Data prog n sg tg th = Some th' ->
  sigs_steps Data prog sg th th' /\ (forall u, n <= u -> th' u = Idle).
Proof.
  induction sg as [|x r IH]; intros tg th th' B H; simpl in H.
  - destruct tg; inv H. split; [constructor|assumption].
  - destruct x as [c|c].
    + destruct tg as [|[u|] tg']; try discriminate.
      * destruct (parked_on Data prog th c u) eqn:E; try discriminate.
        apply parked_on_true in E. destruct E as [E1 E2].
        assert (B' : forall v, n <= v -> upd th u Woken v = Idle).
        { intros v Hv. rewrite upd_other; auto. intros ->. rewrite (B u Hv) in E1. discriminate. }
        destruct (IH _ _ _ B' H) as [S1 S2]. split; auto.
        econstructor; eauto. constructor; auto.
      * destruct (forallb _ _) eqn:E; try discriminate.
        destruct (IH _ _ _ B H) as [S1 S2]. split; auto.
        econstructor; eauto. apply ss_sig_none. intros u Hc.
        destruct (le_lt_dec n u) as [L|L].
        -- rewrite (B u L). discriminate.
        -- rewrite forallb_forall in E. specialize (E u). rewrite in_seq in E.
           assert (X : negb (parked_on Data prog th c u) = true) by (apply E; lia).
           apply negb_true_iff in X. eapply parked_on_false; eauto.
    + assert (B' : forall v, n <= v -> wake_all Data prog c th v = Idle).
      { intros v Hv. destruct (wake_all_cases Data prog c th v) as [->|(E & _)]; auto.
        rewrite (B v Hv) in E. discriminate. }
      destruct (IH _ _ _ B' H) as [S1 S2]. split; auto.
      econstructor; eauto. constructor.
Qed.

Lemma is_none_true {A} (o : option A) : is_none o = true -> o = None.
Proof. destruct o; simpl; congruence. Qed.

Ltac bnd B := intros u Hu; simpl; try (rewrite upd_other; [auto|intros ->; match goal with H : thr _ _ = _ |- _ => rewrite (B _ Hu) in H; discriminate end]); auto.

Theorem exec_step_sound s l s' :
  bounded s -> exec_step prog hl n s l = Some s' -> step Data prog hl s (erase l) s' /\ bounded s'.
Proof.
  intros B H. destruct l as [t|t|t tg|t|t|c|t]; simpl in H.
  - (* invoke *)
    destruct (thr s t) eqn:E; try discriminate.
    destruct (Nat.ltb_spec t n); try discriminate. inv H. split; [constructor; auto|].
    intros u Hu; simpl. rewrite upd_other by lia. auto.
  - (* acquire *)
    destruct (is_none (lock s)) eqn:L; try discriminate. apply is_none_true in L.
    destruct (thr s t) eqn:E; try discriminate.
    + destruct (prog t) as [e|w] eqn:P; inv H.
      * split; [eapply st_acquire_effect; eauto|bnd B].
      * split; [eapply st_acquire_waiter; eauto|bnd B].
    + inv H. split; [eapply st_reacquire; eauto|bnd B].
  - (* body *)
    destruct (thr s t) eqn:E; try discriminate.
    destruct (prog t) as [e|w] eqn:P.
    + destruct (e (dat s)) as [d' sg] eqn:Ee.
      destruct (exec_sigs Data prog n sg tg (thr s)) as [th'|] eqn:X; inv H.
      destruct (exec_sigs_sound _ _ _ _ B X) as [S1 S2].
      split; [eapply st_effect; eauto|].
      intros u Hu; simpl. rewrite upd_other; auto. intros ->. rewrite (B _ Hu) in E. discriminate.
    + destruct (w_P w (dat s)) eqn:HP.
      * destruct (w_succ w (dat s)) as [d' sg] eqn:Ee.
        destruct (exec_sigs Data prog n sg tg (thr s)) as [th'|] eqn:X; inv H.
        destruct (exec_sigs_sound _ _ _ _ B X) as [S1 S2].
        split; [eapply st_wait_ok; eauto|].
        intros u Hu; simpl. rewrite upd_other; auto. intros ->. rewrite (B _ Hu) in E. discriminate.
      * destruct tg; try discriminate.
        destruct (w_closed w (dat s)) eqn:HC; [inv H; split; [eapply st_wait_closed; eauto|bnd B]|].
        destruct (ended s t) eqn:HE; inv H.
        -- split; [eapply st_wait_cancelled; eauto|bnd B].
        -- split; [eapply st_wait_decide; eauto|bnd B].
  - (* park *)
    destruct (thr s t) eqn:E; try discriminate. inv H. split; [constructor; auto|bnd B].
  - (* ctx end *)
    destruct (prog t) as [e|w] eqn:P; try discriminate.
    destruct (ended s t) eqn:HE; try discriminate. inv H.
    split; [eapply st_ctx_end; eauto|]. intros u Hu; simpl; auto.
  - (* helper *)
    destruct (existsb (Nat.eqb c) (pendingB s) && (negb hl || is_none (lock s))) eqn:X; try discriminate. inv H.
    apply andb_true_iff in X. destruct X as [X1 X2].
    apply existsb_exists in X1. destruct X1 as (c' & Hin & Hc). apply Nat.eqb_eq in Hc. subst c'.
    split.
    + constructor; auto. intros ->. simpl in X2. apply is_none_true in X2. auto.
    + intros u Hu; simpl. destruct (wake_all_cases Data prog c (thr s) u) as [->|(E & _)]; auto.
      rewrite (B u Hu) in E. discriminate.
  - (* spurious *)
    destruct (thr s t) eqn:E; try discriminate. inv H. split; [constructor; auto|bnd B].
Qed.

Lemma exec_run_sound ls : forall s s',
  reachable Data prog d0 hl s -> bounded s -> exec_run prog hl n s ls = Some s' ->
  reachable Data prog d0 hl s' /\ bounded s'.
Proof.
  induction ls as [|l r IH]; intros s s' R B H; simpl in H.
  - inv H. auto.
  - destruct (exec_step prog hl n s l) as [s1|] eqn:E; try discriminate.
    destruct (exec_step_sound _ _ _ B E) as [S1 S2].
    eapply IH; [|exact S2|exact H]. eapply reach_step; eauto. exact I.
Qed.

(* a schedule replayed from the initial state *)
Theorem exec_from_init ls s :
  exec_run prog hl n (init Data d0) ls = Some s -> reachable Data prog d0 hl s /\ bounded s.
Proof.
  intros H. eapply exec_run_sound; eauto; [constructor|intros u _; reflexivity].
Qed.

(* the same for schedules without the cancellation race *)
Definition no_raceb (s : state Data) (l : elabel) : bool :=
  match l with ECtxEnd t => match thr s t with Parking => false | _ => true end | _ => true end.

Fixpoint exec_run_nr (s : state Data) (ls : list elabel) : option (state Data) :=
  match ls with
  | [] => Some s
  | l :: r => if no_raceb s l then match exec_step prog hl n s l with Some s' => exec_run_nr s' r | None => None end else None
  end.

Lemma exec_run_nr_sound ls : forall s s',
  reach Data prog d0 hl (@no_ctx_race Data) s -> bounded s -> exec_run_nr s ls = Some s' ->
  reach Data prog d0 hl (@no_ctx_race Data) s' /\ bounded s'.
Proof.
  induction ls as [|l r IH]; intros s s' R B H; simpl in H.
  - inv H. auto.
  - destruct (no_raceb s l) eqn:NR; try discriminate.
    destruct (exec_step prog hl n s l) as [s1|] eqn:E; try discriminate.
    destruct (exec_step_sound _ _ _ B E) as [S1 S2].
    eapply IH; [|exact S2|exact H]. eapply reach_step; eauto.
    destruct l; simpl; auto. simpl in NR. intros X. rewrite X in NR. discriminate.
Qed.

Theorem exec_nr_from_init ls s :
  exec_run_nr (init Data d0) ls = Some s -> reach Data prog d0 hl (@no_ctx_race Data) s /\ bounded s.
Proof.
  intros H. eapply exec_run_nr_sound; eauto; [constructor|intros u _; reflexivity].
Qed.

Theorem quiescentb_sound s : bounded s -> quiescentb n s = true -> @quiescent Data s.
Proof.
  intros B H. unfold quiescentb in H. apply andb_true_iff in H. destruct H as [H H3].
  apply andb_true_iff in H. destruct H as [H1 H2].
  apply is_none_true in H1. destruct (pendingB s) eqn:P; try discriminate.
  repeat split; auto. intros t. destruct (le_lt_dec n t) as [L|L].
  - rewrite (B t L). reflexivity.
  - rewrite forallb_forall in H3. specialize (H3 t). rewrite in_seq in H3.
    apply negb_true_iff. apply H3. lia.
Qed.

End ExecSound.

(* ---- schedules all of whose steps satisfy an arbitrary decidable guard *)
Section ExecGuard.
Variable Data : Type.
Variable prog : tid -> op Data.
Variable d0 : Data.
Variable hl : bool.
Variable n : nat.
Variable okb : state Data -> elabel -> bool.
Variable ok : state Data -> label -> Prop.
Hypothesis okb_ok : forall s l, okb s l = true -> ok s (erase l).

Fixpoint exec_run_g (s : state Data) (ls : list elabel) : option (state Data) :=
  match ls with
  | [] => Some s
  | l :: r => if okb s l then match exec_step prog hl n s l with Some s' => exec_run_g s' r | None => None end else None
  end.

Lemma exec_run_g_sound ls : forall s s',
  reach Data prog d0 hl ok s -> bounded Data n s -> exec_run_g s ls = Some s' ->
  reach Data prog d0 hl ok s' /\ bounded Data n s'.
Proof.
  induction ls as [|l r IH]; intros s s' R B H; simpl in H.
  - inv H. auto.
  - destruct (okb s l) eqn:G; try discriminate.
    destruct (exec_step prog hl n s l) as [s1|] eqn:E; try discriminate.
    destruct (exec_step_sound Data prog hl n _ _ _ B E) as [S1 S2].
    eapply IH; [|exact S2|exact H]. eapply reach_step; eauto.
Qed.

Theorem exec_g_from_init ls s :
  exec_run_g (init Data d0) ls = Some s -> reach Data prog d0 hl ok s /\ bounded Data n s.
Proof.
  intros H. eapply exec_run_g_sound; eauto; [constructor|intros u _; reflexivity].
Qed.
End ExecGuard.
