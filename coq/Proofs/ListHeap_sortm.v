(* SortMerge: split / merge / mergeSort on the heap model refine the list-level msort_ref. *)
From FunV Require Import Base.Tac Base.ListX Model.SortSpec Model.ListHeap
  Proofs.ListHeap_ring Proofs.ListHeap_wf Proofs.ListHeap_splice Proofs.ListHeap_ops Proofs.ListHeap_obs
  Proofs.ListHeap_step Proofs.ListHeap_loops Proofs.ListHeap_msort.
Local Open Scope Z_scope.

Lemma Back_some w E l r : WF w E -> (l < lfresh w)%nat -> lroot (lists w l) = Some r ->
  Back l w = Ret (Some (last (E l) r)) w.
Proof.
  intros W Hl Hr. unfold Back. mrun. rewrite (lazySetup_some _ _ _ Hr). unfold Root. mrun. rewrite Hr. simpl.
  destruct (root_next w E l r W Hl Hr) as [_ ->]. reflexivity.
Qed.

Lemma Front_some w E l r : WF w E -> (l < lfresh w)%nat -> lroot (lists w l) = Some r ->
  Front l w = Ret (Some (hd r (E l))) w.
Proof.
  intros W Hl Hr. unfold Front. mrun. rewrite (lazySetup_some _ _ _ Hr). unfold Root. mrun. rewrite Hr. simpl.
  destruct (root_next w E l r W Hl Hr) as [-> _]. reflexivity.
Qed.

Lemma WF_llen w E l : WF w E -> (l < lfresh w)%nat -> llen (lists w l) = Z.of_nat (List.length (E l)).
Proof.
  intros W Hl. pose proof (wf_lists _ _ W l Hl) as L. destruct (lroot (lists w l)); [destruct L; auto|].
  destruct L as [-> ->]. reflexivity.
Qed.

(* move the front element of [src] behind the back of [dst] *)
Lemma move_front w E src dst rd x t :
  WF w E -> (src < lfresh w)%nat -> (dst < lfresh w)%nat -> src <> dst ->
  lroot (lists w dst) = Some rd -> E src = x :: t ->
  exists w1 w2, PopFront src w = Ret (Some x) w1 /\ Append (Some (last (E dst) rd)) (Some x) w1 = Ret (Some x) w2 /\
     WF w2 (upd (upd E src t) dst (E dst ++ [x])) /\ same_data w w2 /\
     (forall l', l' <> src -> l' <> dst -> lists w2 l' = lists w l').
Proof.
  intros W Hs Hd Hne Hrd EQ.
  destruct (PopFront_cons w E src x t W Hs EQ) as (w1 & Run1 & W1 & SD1 & O1 & Ox1 & Len1 & Oth1).
  assert (Hxin : In x (E src)) by (rewrite EQ; left; reflexivity).
  pose proof (wf_lists _ _ W src Hs) as Li.
  destruct (lroot (lists w src)) as [ri|] eqn:Hri; [|destruct Li; congruence].
  destruct (WF_elem_in _ _ _ _ _ W Hs Hri (or_intror Hxin)) as [_ Hxlt].
  destruct Li as [_ _ _ Eok]. rewrite Forall_forall in Eok. pose proof (Eok x Hxin) as Okx.
  assert (Hd1 : (dst < lfresh w1)%nat) by (rewrite (sd_lfresh _ _ SD1); exact Hd).
  assert (Hrd1 : lroot (lists w1 dst) = Some rd) by (rewrite (sd_root _ _ SD1); exact Hrd).
  assert (Hx1 : (x < nfresh w1)%nat) by (rewrite (sd_nfresh _ _ SD1); exact Hxlt).
  assert (Ok1 : nok (nodes w1 x) = true) by (rewrite (sd_ok _ _ SD1); exact Okx).
  destruct (Append_back w1 (upd E src t) dst rd x W1 Hd1 Hrd1 Hx1 Ox1 Ok1) as (w2 & Run2 & W2 & SD2 & O2 & Len2 & Oth2).
  rewrite (upd_other _ src t dst) in Run2, W2 by auto.
  exists w1, w2. repeat (split; [solve [auto]|]). split; [eapply same_data_trans; eauto|].
  intros l0 H1 H2. rewrite Oth2, Oth1; auto.
Qed.

(* ---------------------------------------------------------------- split *)
Lemma split_loop_spec list out : list <> out ->
  forall mv w E rest ro fuel,
  WF w E -> (list < lfresh w)%nat -> (out < lfresh w)%nat -> lroot (lists w out) = Some ro ->
  E list = mv ++ rest -> (List.length mv < fuel)%nat ->
  exists w', split_loop fuel list out (Z.of_nat (List.length rest)) w = Ret tt w' /\
     WF w' (upd (upd E list rest) out (E out ++ mv)) /\ same_data w w' /\
     (forall l', l' <> list -> l' <> out -> lists w' l' = lists w l').
Proof.
  intros Hne. induction mv as [|x mv IH]; intros w E rest ro fuel W Hl Ho Hro EQ Hf; (destruct fuel; [simpl in Hf; lia|]).
  - exists w. split.
    { simpl. unfold Len. mrun. rewrite (WF_llen w E list W Hl), EQ. simpl.
      destruct (Z.ltb_spec (Z.of_nat (List.length rest)) (Z.of_nat (List.length rest))); [lia|reflexivity]. }
    split; [|split; [apply same_data_refl|auto]].
    apply (WF_ext w E); [|exact W]. intros l0. unfold upd.
    destruct (Nat.eqb_spec l0 out) as [->|]; [rewrite app_nil_r; reflexivity|].
    destruct (Nat.eqb_spec l0 list) as [->|]; auto.
  - simpl in EQ.
    destruct (move_front w E list out ro x (mv ++ rest) W Hl Ho Hne Hro EQ) as (w1 & w2 & Run1 & Run2 & W2 & SD2 & Oth2).
    set (E2 := upd (upd E list (mv ++ rest)) out (E out ++ [x])) in *.
    assert (Hl2 : (list < lfresh w2)%nat) by (rewrite (sd_lfresh _ _ SD2); exact Hl).
    assert (Ho2 : (out < lfresh w2)%nat) by (rewrite (sd_lfresh _ _ SD2); exact Ho).
    assert (Hro2 : lroot (lists w2 out) = Some ro) by (rewrite (sd_root _ _ SD2); exact Hro).
    assert (E2l : E2 list = mv ++ rest) by (unfold E2; rewrite upd_other by auto; apply upd_same).
    assert (E2o : E2 out = E out ++ [x]) by (unfold E2; apply upd_same).
    destruct (IH w2 E2 rest ro fuel W2 Hl2 Ho2 Hro2 E2l ltac:(simpl in Hf; lia)) as (w3 & Run3 & W3 & SD3 & Oth3).
    exists w3. split.
    { assert (LL : llen (lists w list) = Z.of_nat (S (List.length mv + List.length rest))).
      { rewrite (WF_llen w E list W Hl), EQ. simpl List.length. rewrite app_length. reflexivity. }
      simpl. unfold Len. mrun. rewrite LL.
      destruct (Z.ltb_spec (Z.of_nat (List.length rest)) (Z.of_nat (S (List.length mv + List.length rest)))); [|lia].
      rewrite (Back_some w E out ro W Ho Hro). rewrite Run1. rewrite Run2. exact Run3. }
    split.
    { eapply WF_ext; [|exact W3]. intros l0. unfold upd. rewrite E2o. unfold E2, upd.
      destruct (Nat.eqb_spec l0 out) as [->|]; [rewrite <- app_assoc; reflexivity|].
      destruct (Nat.eqb_spec l0 list) as [->|]; reflexivity. }
    split; [eapply same_data_trans; eauto|]. intros l0 H1 H2. rewrite Oth3, Oth2; auto.
Qed.

Arguments split_loop : simpl never.

Lemma nmoved_split (es : list nat) :
  Z.of_nat (List.length (skipn (nmoved es) es)) = Z.quot (Z.of_nat (List.length es)) 2.
Proof.
  rewrite skipn_length. unfold nmoved.
  assert (D : (List.length es / 2 <= List.length es)%nat) by (apply Nat.div_le_upper_bound; lia).
  replace (List.length es - (List.length es - List.length es / 2))%nat with (List.length es / 2)%nat by lia.
  rewrite Z.quot_div_nonneg by lia. rewrite Nat2Z.inj_div. reflexivity.
Qed.

Lemma lsplit_spec w E list :
  WF w E -> (list < lfresh w)%nat ->
  exists w', lsplit list w = Ret (lfresh w) w' /\
     WF w' (upd (upd E list (skipn (nmoved (E list)) (E list))) (lfresh w) (firstn (nmoved (E list)) (E list))) /\
     pres w w' /\ lfresh w' = S (lfresh w) /\
     (forall l', l' <> list -> l' <> lfresh w -> lists w' l' = lists w l').
Proof.
  intros W Hl. set (es := E list).
  destruct (alloc_list_WF w E W) as (w0 & A & W0 & Hnodes & Hnf & Hlf & Hl0 & Oth0).
  set (out := lfresh w) in *. set (E0 := upd E out []) in *.
  assert (Hne : list <> out) by (unfold out; lia).
  assert (Ho0 : (out < lfresh w0)%nat) by lia. assert (Hl0' : (list < lfresh w0)%nat) by lia.
  destruct (lazySetup_spec w0 E0 out W0 Ho0) as (w1 & ro & Run1 & W1 & Hro & Ex1 & Hlf1 & Fr1 & _ & Oth1 & _).
  assert (Hl1 : (list < lfresh w1)%nat) by lia. assert (Ho1 : (out < lfresh w1)%nat) by lia.
  assert (E0l : E0 list = firstn (nmoved es) es ++ skipn (nmoved es) es).
  { unfold E0. rewrite upd_other by auto. rewrite firstn_skipn. reflexivity. }
  assert (Hf : (List.length (firstn (nmoved es) es) < S (nfresh w1 + Z.to_nat (Z.of_nat (List.length es))))%nat).
  { rewrite firstn_length. pose proof (WF_len_bound w E list W Hl). fold es in H. destruct Ex1. lia. }
  destruct (split_loop_spec list out Hne _ w1 E0 _ ro _ W1 Hl1 Ho1 Hro E0l Hf) as (w2 & Run2 & W2 & SD2 & Oth2).
  exists w2. split.
  { unfold lsplit, Len. unfold bind at 1, get. unfold bind at 1. rewrite A. unfold bind at 1. rewrite Run1.
    unfold bind at 1, get. unfold bind at 1.
    rewrite (WF_llen w E list W Hl). fold es. rewrite <- nmoved_split.
    assert (FU : nfresh w1 = nfresh w1) by reflexivity.
    rewrite Run2. reflexivity. }
  split.
  { eapply WF_ext; [|exact W2]. intros l0. unfold upd, E0. unfold upd.
    destruct (Nat.eqb_spec l0 out) as [->|]; [rewrite Nat.eqb_refl; reflexivity|].
    destruct (Nat.eqb_spec l0 list) as [->|]; [reflexivity|].
    destruct (Nat.eqb_spec l0 out); [congruence|reflexivity]. }
  split.
  { apply (pres_trans w w0); [apply frame_pres; [split; lia|intros; rewrite Hnodes; reflexivity]|].
    apply (pres_trans w0 w1); [apply frame_pres; auto|apply same_data_pres; exact SD2]. }
  split; [rewrite (sd_lfresh _ _ SD2); lia|].
  intros l0 H1 H2. rewrite Oth2, Oth1, Oth0; auto.
Qed.

(* ---------------------------------------------------------------- merge *)
Section Merge.
Variable lt : Z -> Z -> bool.

Lemma merge_loop_spec a b out : a <> b -> a <> out -> b <> out ->
  forall n ea eb w E ro fuel key,
  WF w E -> (a < lfresh w)%nat -> (b < lfresh w)%nat -> (out < lfresh w)%nat -> lroot (lists w out) = Some ro ->
  (forall x, nitem (nodes w x) = key x) ->
  E a = ea -> E b = eb -> (List.length ea + List.length eb = n)%nat -> (n < fuel)%nat ->
  exists w' ta ra rb, merge_loop lt fuel a b out w = Ret tt w' /\
     WF w' (upd (upd (upd E a ra) b rb) out (E out ++ ta)) /\ same_data w w' /\
     (ra = [] \/ rb = []) /\ ta ++ ra ++ rb = merge_ref lt key ea eb /\
     (forall l', l' <> a -> l' <> b -> l' <> out -> lists w' l' = lists w l').
Proof.
  intros Hab Hao Hbo. induction n as [|n IH]; intros ea eb w E ro fuel key W Ha Hb Ho Hro Hkey EA EB Hn Hf;
    (destruct fuel; [lia|]).
  - destruct ea; [|simpl in Hn; lia]. destruct eb; [|simpl in Hn; lia].
    exists w, [], [], []. split.
    { simpl. unfold Len. mrun. rewrite (WF_llen w E a W Ha), EA. reflexivity. }
    split; [|split; [apply same_data_refl|auto]].
    apply (WF_ext w E); [|exact W]. intros l0. unfold upd.
    destruct (Nat.eqb_spec l0 out) as [->|]; [rewrite app_nil_r; reflexivity|].
    destruct (Nat.eqb_spec l0 b) as [->|]; [auto|]. destruct (Nat.eqb_spec l0 a) as [->|]; auto.
  - destruct ea as [|x ea1].
    { exists w, [], [], eb. split.
      { simpl. unfold Len. mrun. rewrite (WF_llen w E a W Ha), EA. reflexivity. }
      split; [|split; [apply same_data_refl|auto]].
      apply (WF_ext w E); [|exact W]. intros l0. unfold upd.
      destruct (Nat.eqb_spec l0 out) as [->|]; [rewrite app_nil_r; reflexivity|].
      destruct (Nat.eqb_spec l0 b) as [->|]; [auto|]. destruct (Nat.eqb_spec l0 a) as [->|]; auto. }
    destruct eb as [|y eb1].
    { exists w, [], (x :: ea1), []. split.
      { simpl. unfold Len. mrun. rewrite (WF_llen w E a W Ha), (WF_llen w E b W Hb), EA, EB. reflexivity. }
      split; [|split; [apply same_data_refl|split; [auto|split; [rewrite merge_ref_nil_r, app_nil_r; reflexivity|auto]]]].
      apply (WF_ext w E); [|exact W]. intros l0. unfold upd.
      destruct (Nat.eqb_spec l0 out) as [->|]; [rewrite app_nil_r; reflexivity|].
      destruct (Nat.eqb_spec l0 b) as [->|]; [auto|]. destruct (Nat.eqb_spec l0 a) as [->|]; auto. }
    (* both non-empty *)
    pose proof (wf_lists _ _ W a Ha) as La. destruct (lroot (lists w a)) as [ra0|] eqn:Hra; [|destruct La; congruence].
    pose proof (wf_lists _ _ W b Hb) as Lb. destruct (lroot (lists w b)) as [rb0|] eqn:Hrb; [|destruct Lb; congruence].
    assert (RUNHEAD : forall k : unit, merge_loop lt (S fuel) a b out w =
              (if lt (key x) (key y)
               then (bk <- Back out ;; e <- PopFront a ;; Append bk e) ;;; merge_loop lt fuel a b out
               else (bk <- Back out ;; e <- PopFront b ;; Append bk e) ;;; merge_loop lt fuel a b out) w) .
    { intros _. simpl. unfold Len. mrun. rewrite (WF_llen w E a W Ha), (WF_llen w E b W Hb), EA, EB. simpl.
      rewrite (Front_some w E a ra0 W Ha Hra), EA. simpl. mrun.
      rewrite (Front_some w E b rb0 W Hb Hrb), EB. simpl. mrun.
      rewrite !Hkey. destruct (lt (key x) (key y)); reflexivity. }
    rewrite (RUNHEAD tt). rewrite merge_ref_cons. destruct (lt (key x) (key y)) eqn:C.
    + destruct (move_front w E a out ro x ea1 W Ha Ho Hao Hro EA) as (w1 & w2 & Run1 & Run2 & W2 & SD2 & Oth2).
      set (E2 := upd (upd E a ea1) out (E out ++ [x])) in *.
      assert (E2a : E2 a = ea1) by (unfold E2; rewrite upd_other by auto; apply upd_same).
      assert (E2b : E2 b = y :: eb1) by (unfold E2; rewrite !upd_other by auto; exact EB).
      assert (E2o : E2 out = E out ++ [x]) by (unfold E2; apply upd_same).
      assert (Ha2 : (a < lfresh w2)%nat) by (rewrite (sd_lfresh _ _ SD2); exact Ha).
      assert (Hb2 : (b < lfresh w2)%nat) by (rewrite (sd_lfresh _ _ SD2); exact Hb).
      assert (Ho2 : (out < lfresh w2)%nat) by (rewrite (sd_lfresh _ _ SD2); exact Ho).
      assert (Hro2 : lroot (lists w2 out) = Some ro) by (rewrite (sd_root _ _ SD2); exact Hro).
      assert (Hkey2 : forall z, nitem (nodes w2 z) = key z) by (intros z; rewrite (sd_item _ _ SD2); apply Hkey).
      assert (Hn2 : (List.length ea1 + List.length (y :: eb1) = n)%nat) by (simpl in Hn |- *; lia).
      assert (Hf2 : (n < fuel)%nat) by lia.
      destruct (IH ea1 (y :: eb1) w2 E2 ro fuel key W2 Ha2 Hb2 Ho2 Hro2 Hkey2 E2a E2b Hn2 Hf2) as (w3 & ta & ra & rb & Run3 & W3 & SD3 & Emp & MR & Oth3).
      exists w3, (x :: ta), ra, rb. split.
      { unfold bind at 1. unfold bind at 1. rewrite (Back_some w E out ro W Ho Hro). unfold bind at 1. rewrite Run1. rewrite Run2. exact Run3. }
      split.
      { eapply WF_ext; [|exact W3]. intros l0. unfold upd. rewrite E2o. unfold E2, upd.
        destruct (Nat.eqb_spec l0 out) as [->|]; [rewrite <- app_assoc; reflexivity|].
        destruct (Nat.eqb_spec l0 b) as [->|]; [reflexivity|]. destruct (Nat.eqb_spec l0 a) as [->|]; reflexivity. }
      split; [eapply same_data_trans; eauto|]. split; [exact Emp|]. split; [simpl; rewrite MR; reflexivity|].
      intros l0 H1 H2 H3. rewrite Oth3, Oth2; auto.
    + destruct (move_front w E b out ro y eb1 W Hb Ho Hbo Hro EB) as (w1 & w2 & Run1 & Run2 & W2 & SD2 & Oth2).
      set (E2 := upd (upd E b eb1) out (E out ++ [y])) in *.
      assert (E2a : E2 a = x :: ea1) by (unfold E2; rewrite !upd_other by auto; exact EA).
      assert (E2b : E2 b = eb1) by (unfold E2; rewrite upd_other by auto; apply upd_same).
      assert (E2o : E2 out = E out ++ [y]) by (unfold E2; apply upd_same).
      assert (Ha2 : (a < lfresh w2)%nat) by (rewrite (sd_lfresh _ _ SD2); exact Ha).
      assert (Hb2 : (b < lfresh w2)%nat) by (rewrite (sd_lfresh _ _ SD2); exact Hb).
      assert (Ho2 : (out < lfresh w2)%nat) by (rewrite (sd_lfresh _ _ SD2); exact Ho).
      assert (Hro2 : lroot (lists w2 out) = Some ro) by (rewrite (sd_root _ _ SD2); exact Hro).
      assert (Hkey2 : forall z, nitem (nodes w2 z) = key z) by (intros z; rewrite (sd_item _ _ SD2); apply Hkey).
      assert (Hn2 : (List.length (x :: ea1) + List.length eb1 = n)%nat) by (simpl in Hn |- *; lia).
      assert (Hf2 : (n < fuel)%nat) by lia.
      destruct (IH (x :: ea1) eb1 w2 E2 ro fuel key W2 Ha2 Hb2 Ho2 Hro2 Hkey2 E2a E2b Hn2 Hf2) as (w3 & ta & ra & rb & Run3 & W3 & SD3 & Emp & MR & Oth3).
      exists w3, (y :: ta), ra, rb. split.
      { unfold bind at 1. unfold bind at 1. rewrite (Back_some w E out ro W Ho Hro). unfold bind at 1. rewrite Run1. rewrite Run2. exact Run3. }
      split.
      { eapply WF_ext; [|exact W3]. intros l0. unfold upd. rewrite E2o. unfold E2, upd.
        destruct (Nat.eqb_spec l0 out) as [->|]; [rewrite <- app_assoc; reflexivity|].
        destruct (Nat.eqb_spec l0 b) as [->|]; [reflexivity|]. destruct (Nat.eqb_spec l0 a) as [->|]; reflexivity. }
      split; [eapply same_data_trans; eauto|]. split; [exact Emp|]. split; [simpl; rewrite MR; reflexivity|].
      intros l0 H1 H2 H3. rewrite Oth3, Oth2; auto.
Qed.
End Merge.

Arguments merge_loop : simpl never.
Arguments extend_loop : simpl never.

Lemma lmerge_spec lt w E a b key :
  WF w E -> (a < lfresh w)%nat -> (b < lfresh w)%nat -> a <> b ->
  (forall x, nitem (nodes w x) = key x) ->
  exists w', lmerge lt a b w = Ret (lfresh w) w' /\
     WF w' (upd (upd (upd E a []) b []) (lfresh w) (merge_ref lt key (E a) (E b))) /\
     pres w w' /\ lfresh w' = S (lfresh w) /\
     (forall l', l' <> a -> l' <> b -> l' <> lfresh w -> lists w' l' = lists w l').
Proof.
  intros W Ha Hb Hab Hkey.
  destruct (alloc_list_WF w E W) as (w0 & A & W0 & Hnodes & Hnf & Hlf & Hl0 & Oth0).
  set (out := lfresh w) in *. set (E0 := upd E out []) in *.
  assert (Hao : a <> out) by (unfold out; lia). assert (Hbo : b <> out) by (unfold out; lia).
  assert (Ho0 : (out < lfresh w0)%nat) by lia.
  destruct (lazySetup_spec w0 E0 out W0 Ho0) as (w1 & ro & Run1 & W1 & Hro & Ex1 & Hlf1 & Fr1 & _ & Oth1 & _).
  assert (Ha1 : (a < lfresh w1)%nat) by lia. assert (Hb1 : (b < lfresh w1)%nat) by lia. assert (Ho1 : (out < lfresh w1)%nat) by lia.
  assert (P01 : pres w w1).
  { apply (pres_trans w w0); [apply frame_pres; [split; lia|intros; rewrite Hnodes; reflexivity]|apply frame_pres; auto]. }
  assert (E0a : E0 a = E a) by (unfold E0; apply upd_other; auto).
  assert (E0b : E0 b = E b) by (unfold E0; apply upd_other; auto).
  assert (E0o : E0 out = []) by (unfold E0; apply upd_same).
  assert (Hkey1 : forall x, In x (E a ++ E b) -> nitem (nodes w1 x) = key x).
  { intros x Hx. rewrite (pr_item _ _ P01); [apply Hkey|].
    pose proof (WF_elems_lt w E a W Ha) as Fa. pose proof (WF_elems_lt w E b W Hb) as Fb.
    rewrite Forall_forall in Fa, Fb. apply in_app_or in Hx. destruct Hx; auto. }
  set (key1 := fun x => nitem (nodes w1 x)).
  assert (LA : llen (lists w1 a) = Z.of_nat (List.length (E a))) by (rewrite (WF_llen w1 E0 a W1 Ha1), E0a; reflexivity).
  assert (LB : llen (lists w1 b) = Z.of_nat (List.length (E b))) by (rewrite (WF_llen w1 E0 b W1 Hb1), E0b; reflexivity).
  destruct (merge_loop_spec lt a b out Hab Hao Hbo (List.length (E a) + List.length (E b)) (E a) (E b) w1 E0 ro
              (S (nfresh w1 + Z.to_nat (llen (lists w1 a)) + Z.to_nat (llen (lists w1 b)))) key1 W1 Ha1 Hb1 Ho1 Hro
              (fun x => eq_refl) E0a E0b eq_refl ltac:(rewrite LA, LB; lia))
    as (w2 & ta & ra & rb & Run2 & W2 & SD2 & Emp & MR & Oth2).
  rewrite E0o in W2. simpl app in W2.
  set (E2 := upd (upd (upd E0 a ra) b rb) out ta) in *.
  assert (Ha2 : (a < lfresh w2)%nat) by (rewrite (sd_lfresh _ _ SD2); exact Ha1).
  assert (Hb2 : (b < lfresh w2)%nat) by (rewrite (sd_lfresh _ _ SD2); exact Hb1).
  assert (Ho2 : (out < lfresh w2)%nat) by (rewrite (sd_lfresh _ _ SD2); exact Ho1).
  destruct (Extend_spec w2 E2 out a W2 Ho2 Ha2 ltac:(auto)) as (w3 & Run3 & W3 & P3 & Hlf3 & Oth3).
  set (E3 := upd (upd E2 out (E2 out ++ E2 a)) a []) in *.
  assert (Hb3 : (b < lfresh w3)%nat) by lia. assert (Ho3 : (out < lfresh w3)%nat) by lia.
  destruct (Extend_spec w3 E3 out b W3 Ho3 Hb3 ltac:(auto)) as (w4 & Run4 & W4 & P4 & Hlf4 & Oth4).
  exists w4. split.
  { unfold lmerge. unfold bind at 1. rewrite A. unfold bind at 1. rewrite Run1. unfold bind at 1, get.
    unfold bind at 1. rewrite Run2. unfold bind at 1. rewrite Run3. unfold bind at 1. rewrite Run4. reflexivity. }
  split.
  { eapply WF_ext; [|exact W4]. intros l0. unfold E3, E2, E0, upd.
    rewrite !Nat.eqb_refl.
    destruct (Nat.eqb_spec l0 b) as [->|Nb].
    - destruct (Nat.eqb_spec b out); [congruence|]. reflexivity.
    - destruct (Nat.eqb_spec l0 out) as [->|No].
      + destruct (Nat.eqb_spec out a); [congruence|]. destruct (Nat.eqb_spec a out); [congruence|].
        destruct (Nat.eqb_spec a b); [congruence|]. destruct (Nat.eqb_spec b a); [congruence|].
        destruct (Nat.eqb_spec b out); [congruence|].
        rewrite <- app_assoc. rewrite MR. apply merge_ref_ext. intros x Hx. unfold key1. apply Hkey1. exact Hx.
      + destruct (Nat.eqb_spec l0 a) as [->|Na]; reflexivity. }
  split; [eapply pres_trans; [exact P01|eapply pres_trans; [apply same_data_pres; exact SD2|eapply pres_trans; eauto]]|].
  split; [rewrite Hlf4, Hlf3, (sd_lfresh _ _ SD2); lia|].
  intros l0 H1 H2 H3. rewrite Oth4, Oth3, Oth2, Oth1, Oth0; auto.
Qed.

(* ---------------------------------------------------------------- mergeSort / SortMerge *)
Lemma ltb_len (es : list nat) : (Z.of_nat (List.length es) <? 2) = (List.length es <? 2)%nat.
Proof. destruct (Z.ltb_spec (Z.of_nat (List.length es)) 2), (Nat.ltb_spec (List.length es) 2); auto; lia. Qed.

Lemma mergeSort_spec lt : forall fuel w E head key,
  WF w E -> (head < lfresh w)%nat -> (forall x, In x (E head) -> nitem (nodes w x) = key x) ->
  (List.length (E head) < fuel)%nat ->
  exists w' res E', mergeSort lt fuel head w = Ret res w' /\ WF w' E' /\ pres w w' /\
    (lfresh w <= lfresh w')%nat /\ (res < lfresh w')%nat /\
    E' res = msort_ref lt key fuel (E head) /\
    ((res = head /\ (List.length (E head) < 2)%nat) \/ ((lfresh w <= res)%nat /\ E' head = [])) /\
    (forall l0, (l0 < lfresh w)%nat -> l0 <> head -> E' l0 = E l0 /\ lists w' l0 = lists w l0).
Proof.
  induction fuel as [|f IH]; intros w E head key W Hh Hkey Hf; [lia|].
  set (es := E head) in *.
  simpl mergeSort. unfold Len. unfold bind at 1, get. rewrite (WF_llen w E head W Hh). fold es.
  rewrite ltb_len. simpl msort_ref. destruct (Nat.ltb_spec (List.length es) 2) as [Lt2|Ge2].
  - exists w, head, E. split; [reflexivity|]. split; [exact W|]. split; [apply pres_refl|].
    repeat split; auto.
  - (* split *)
    destruct (lsplit_spec w E head W Hh) as (w1 & Run1 & W1 & P1 & Hlf1 & Oth1). fold es in W1.
    set (tail := lfresh w) in *. set (hs := skipn (nmoved es) es) in *. set (ts := firstn (nmoved es) es) in *.
    set (E1 := upd (upd E head hs) tail ts) in *.
    assert (Hht : head <> tail) by (unfold tail; lia).
    assert (D : (List.length es / 2 < List.length es)%nat) by (apply Nat.div_lt; lia).
    assert (D1 : (1 <= List.length es / 2)%nat) by (apply Nat.div_le_lower_bound; lia).
    assert (Lhs : (List.length hs < f)%nat) by (unfold hs; rewrite skipn_length; unfold nmoved; lia).
    assert (Lts : (List.length ts < f)%nat) by (unfold ts; rewrite firstn_length; unfold nmoved; lia).
    assert (E1h : E1 head = hs) by (unfold E1; rewrite upd_other by auto; apply upd_same).
    assert (E1t : E1 tail = ts) by (unfold E1; apply upd_same).
    assert (ESP : es = ts ++ hs) by (unfold ts, hs; rewrite firstn_skipn; reflexivity).
    assert (ELT : Forall (fun n => (n < nfresh w)%nat) es) by (apply WF_elems_lt; auto).
    assert (Hh1 : (head < lfresh w1)%nat) by lia. assert (Ht1 : (tail < lfresh w1)%nat) by (unfold tail; lia).
    assert (Hkey1 : forall x, In x (E1 head) -> nitem (nodes w1 x) = key x).
    { intros x Hx. rewrite E1h in Hx. assert (Ix : In x es) by (rewrite ESP; apply in_or_app; auto).
      rewrite (pr_item _ _ P1); [apply Hkey; exact Ix|]. rewrite Forall_forall in ELT. auto. }
    (* sort the kept half *)
    destruct (IH w1 E1 head key W1 Hh1 Hkey1 ltac:(rewrite E1h; exact Lhs))
      as (w2 & head' & E2 & Run2 & W2 & P2 & Hlf2 & Hh'2 & E2h' & Dh & Oth2).
    rewrite E1h in E2h'.
    assert (Ht2 : (tail < lfresh w2)%nat) by lia.
    assert (E2t : E2 tail = ts) by (destruct (Oth2 tail Ht1 ltac:(auto)) as [-> _]; exact E1t).
    assert (P02 : pres w w2) by (eapply pres_trans; eauto).
    assert (Hkey2 : forall x, In x (E2 tail) -> nitem (nodes w2 x) = key x).
    { intros x Hx. rewrite E2t in Hx. assert (Ix : In x es) by (rewrite ESP; apply in_or_app; auto).
      rewrite (pr_item _ _ P02); [apply Hkey; exact Ix|]. rewrite Forall_forall in ELT. auto. }
    (* sort the moved half *)
    destruct (IH w2 E2 tail key W2 Ht2 Hkey2 ltac:(rewrite E2t; exact Lts))
      as (w3 & tail' & E3 & Run3 & W3 & P3 & Hlf3 & Ht'3 & E3t' & Dt & Oth3).
    rewrite E2t in E3t'.
    assert (F1 : head' <> tail /\ (head' < lfresh w2)%nat) by (split; [destruct Dh as [[-> _]|[? _]]; [auto|unfold tail in *; lia]|exact Hh'2]).
    destruct F1 as [F1 F1'].
    assert (F2 : tail' <> head') by (destruct Dt as [[-> _]|[? _]]; [auto|lia]).
    assert (F3 : tail' <> head) by (destruct Dt as [[-> _]|[? _]]; [auto|lia]).
    assert (E3h' : E3 head' = msort_ref lt key f hs) by (destruct (Oth3 head' F1' F1) as [-> _]; exact E2h').
    assert (Hh'3 : (head' < lfresh w3)%nat) by lia.
    assert (P03 : pres w w3) by (eapply pres_trans; eauto).
    (* merge *)
    destruct (lmerge_spec lt w3 E3 head' tail' (fun x => nitem (nodes w3 x)) W3 Hh'3 Ht'3 ltac:(auto) (fun x => eq_refl))
      as (w4 & Run4 & W4 & P4 & Hlf4 & Oth4).
    set (out := lfresh w3) in *.
    set (E4 := upd (upd (upd E3 head' []) tail' []) out (merge_ref lt (fun x => nitem (nodes w3 x)) (E3 head') (E3 tail'))) in *.
    exists w4, out, E4. split.
    { unfold bind at 1. rewrite Run1. unfold bind at 1. rewrite Run2. unfold bind at 1. rewrite Run3. exact Run4. }
    split; [exact W4|]. split; [eapply pres_trans; eauto|]. split; [lia|]. split; [unfold out; lia|].
    split.
    { unfold E4. rewrite upd_same. rewrite E3h', E3t'. apply merge_ref_ext.
      intros x Hx. assert (Ix : In x es).
      { rewrite ESP. apply in_app_or in Hx. apply in_or_app. destruct Hx as [Hx|Hx].
        - right. apply (Permutation_in _ (msort_ref_perm lt key f hs)). exact Hx.
        - left. apply (Permutation_in _ (msort_ref_perm lt key f ts)). exact Hx. }
      rewrite (pr_item _ _ P03); [apply Hkey; exact Ix|]. rewrite Forall_forall in ELT. auto. }
    assert (Hout : (lfresh w <= out)%nat) by (unfold out; lia).
    split.
    { right. split; [exact Hout|]. unfold E4. rewrite upd_other by lia. rewrite upd_other by auto.
      destruct Dh as [[-> _]|[Hge E2h]]; [apply upd_same|].
      rewrite upd_other by lia. destruct (Oth3 head ltac:(lia) Hht) as [-> _]. exact E2h. }
    intros l0 Hl0 Hne.
    assert (N1 : l0 <> tail) by (unfold tail; lia).
    assert (N2 : l0 <> head') by (destruct Dh as [[-> _]|[? _]]; [auto|lia]).
    assert (N3 : l0 <> tail') by (destruct Dt as [[-> _]|[? _]]; [auto|lia]).
    assert (N4 : l0 <> out) by lia.
    destruct (Oth3 l0 ltac:(lia) N1) as [A3 B3]. destruct (Oth2 l0 ltac:(lia) Hne) as [A2 B2].
    split.
    + unfold E4. rewrite !upd_other by auto. rewrite A3, A2. unfold E1. rewrite !upd_other by auto. reflexivity.
    + rewrite Oth4, B3, B2, Oth1; auto.
Qed.

Lemma SortMerge_spec lt w E l :
  WF w E -> (l < lfresh w)%nat ->
  exists w' E', SortMerge lt l w = Ret tt w' /\ WF w' E' /\ pres w w' /\ (lfresh w <= lfresh w')%nat /\
    E' l = msort_ref lt (fun x => nitem (nodes w x)) (S (List.length (E l))) (E l) /\
    (forall l0, (l0 < lfresh w)%nat -> l0 <> l -> E' l0 = E l0 /\ lists w' l0 = lists w l0).
Proof.
  intros W Hl. unfold SortMerge, Len. unfold bind at 1, get. rewrite (WF_llen w E l W Hl). rewrite ltb_len.
  simpl msort_ref. destruct (Nat.ltb_spec (List.length (E l)) 2) as [Lt2|Ge2].
  - exists w, E. split; [reflexivity|]. split; [exact W|]. split; [apply pres_refl|]. repeat split; auto.
  - rewrite Nat2Z.id.
    destruct (mergeSort_spec lt (S (List.length (E l))) w E l (fun x => nitem (nodes w x)) W Hl (fun x _ => eq_refl) ltac:(lia))
      as (w1 & s & E1 & Run1 & W1 & P1 & Hlf1 & Hs1 & E1s & Ds & Oth1).
    assert (MS : msort_ref lt (fun x => nitem (nodes w x)) (S (List.length (E l))) (E l) =
                 merge_ref lt (fun x => nitem (nodes w x))
                   (msort_ref lt (fun x => nitem (nodes w x)) (List.length (E l)) (skipn (nmoved (E l)) (E l)))
                   (msort_ref lt (fun x => nitem (nodes w x)) (List.length (E l)) (firstn (nmoved (E l)) (E l)))).
    { simpl. destruct (Nat.ltb_spec (List.length (E l)) 2); [lia|reflexivity]. }
    rewrite <- MS.
    destruct Ds as [[_ Lt]|[Hge E1l]]; [lia|].
    assert (Hl1 : (l < lfresh w1)%nat) by lia.
      destruct (Extend_spec w1 E1 l s W1 Hl1 Hs1 ltac:(lia)) as (w2 & Run2 & W2 & P2 & Hlf2 & Oth2).
      exists w2, (upd (upd E1 l (E1 l ++ E1 s)) s []). split; [unfold bind; rewrite Run1; exact Run2|].
      split; [exact W2|]. split; [eapply pres_trans; eauto|]. split; [lia|].
      split; [rewrite upd_other by lia; rewrite upd_same, E1l, E1s; reflexivity|].
      intros l0 Hl0 Hne. destruct (Oth1 l0 Hl0 Hne) as [A1 B1].
      split; [rewrite !upd_other by lia; exact A1|rewrite Oth2 by lia; exact B1].
Qed.
