(* C15 — Producer.Join: the first producer runs until it returns io.EOF, then the second; once the second
   has run, the first never runs again — over any number of calls and all scripts. *)
From FunV Require Import Base.Tac Model.Wrappers Proofs.Wrappers_retry.
Local Open Scope Z_scope.

Definition only (id : Z) (l : list (Z * Z)) : Prop := Forall (fun ev => fst ev = id) l.

Lemma only_nil id : only id []. Proof. constructor. Qed.
Lemma only_cons id c l : only id l -> only id ((id, c) :: l). Proof. intros; constructor; auto. Qed.
Lemma only_app id a b : only id a -> only id b -> only id (a ++ b). Proof. intros; apply Forall_app; auto. Qed.

Section JoinP.
Variables (k1 k2 : kind) (id1 id2 : Z) (sc1 sc2 : list outcome).
Let F1 := FBase k1 id1 sc1.
Let F2 := FBase k2 id2 sc2.

Lemma second_base : forall fuel fe se s1 rest w,
  exists r stage' fe' se' rest' w' B,
    joinP_second (run F2) fuel fe se s1 (SBase rest) w = (r, SJoinP stage' fe' se' s1 (SBase rest'), w') /\
    wlog w' = B ++ wlog w /\ only id2 B /\ 2 <= stage' <= 4.
Proof.
  induction fuel as [|fuel IH]; intros fe se s1 rest w.
  - cbn. eexists _, _, _, _, _, _, []. repeat split; try apply only_nil; lia.
  - cbn [joinP_second]. unfold F2. rewrite run_base. fold F2. fold (base_world id2 (head_outcome rest) w).
    destruct (outcome_result k2 (head_outcome rest)) as [v e|p].
    + destruct (is_nil e).
      { eexists _, _, _, _, _, _, [_]. split; [reflexivity|]. rewrite base_world_log. repeat split; try (apply only_cons, only_nil); lia. }
      destruct (is_skip e).
      { destruct (IH fe se s1 (tl rest) (base_world id2 (head_outcome rest) w)) as (r & st' & fe' & se' & rest' & w' & B & E & L & O & S).
        rewrite E. eexists _, _, _, _, _, _, (B ++ [_]). split; [reflexivity|]. rewrite L, base_world_log, <- app_assoc.
        repeat split; try lia. apply only_app; [exact O|apply only_cons, only_nil]. }
      destruct (negb (is_eof e));
        (eexists _, _, _, _, _, _, [_]; split; [reflexivity|]; rewrite base_world_log; repeat split; try (apply only_cons, only_nil); lia).
    + eexists _, _, _, _, _, _, [_]. split; [reflexivity|]. rewrite base_world_log. repeat split; try (apply only_cons, only_nil); lia.
Qed.

Lemma first_base : forall fuel fe se rest1 rest2 w,
  exists r stage' fe' se' rest1' rest2' w' A B,
    joinP_first (run F1) (run F2) fuel fe se (SBase rest1) (SBase rest2) w = (r, SJoinP stage' fe' se' (SBase rest1') (SBase rest2'), w') /\
    wlog w' = B ++ A ++ wlog w /\ only id1 A /\ only id2 B /\ 0 <= stage' <= 4 /\ (stage' = 0 -> B = []).
Proof.
  induction fuel as [|fuel IH]; intros fe se rest1 rest2 w.
  - cbn. eexists _, _, _, _, _, _, _, [], []. repeat split; try apply only_nil; lia.
  - cbn [joinP_first]. unfold F1. rewrite run_base. fold F1. fold (base_world id1 (head_outcome rest1) w).
    destruct (outcome_result k1 (head_outcome rest1)) as [v e|p].
    + destruct (is_nil e).
      { eexists _, _, _, _, _, _, _, [_], []. split; [reflexivity|]. rewrite base_world_log.
        repeat split; try apply only_nil; try (apply only_cons, only_nil); lia. }
      destruct (is_skip e).
      { destruct (IH fe se (tl rest1) rest2 (base_world id1 (head_outcome rest1) w)) as (r & st' & fe' & se' & r1' & r2' & w' & A & B & E & L & OA & OB & S & Z0).
        rewrite E. eexists _, _, _, _, _, _, _, (A ++ [_]), B. split; [reflexivity|]. rewrite L, base_world_log, <- !app_assoc.
        repeat split; try lia; try assumption. apply only_app; [exact OA|apply only_cons, only_nil]. }
      destruct (negb (is_eof e)).
      { eexists _, _, _, _, _, _, _, [_], []. split; [reflexivity|]. rewrite base_world_log.
        repeat split; try apply only_nil; try (apply only_cons, only_nil); try lia. }
      destruct (second_base join_fuel fe se (SBase (tl rest1)) rest2 (base_world id1 (head_outcome rest1) w)) as (r & st' & fe' & se' & r2' & w' & B & E & L & OB & S).
      rewrite E. eexists _, _, _, _, _, _, _, [_], B. split; [reflexivity|]. rewrite L, base_world_log.
      repeat split; try (apply only_cons, only_nil); try assumption; lia.
    + eexists _, _, _, _, _, _, _, [_], []. split; [reflexivity|]. rewrite base_world_log.
      repeat split; try apply only_nil; try (apply only_cons, only_nil); lia.
Qed.

Lemma run_joinP f g stage fe se s1 s2 w :
  run (FJoinP f g) (SJoinP stage fe se s1 s2) w =
  if stage =? 3 then (Ret 0 se, SJoinP stage fe se s1 s2, w)
  else if stage =? 1 then (Ret 0 fe, SJoinP stage fe se s1 s2, w)
  else if stage =? 0 then joinP_first (run f) (run g) join_fuel fe se s1 s2 w
  else if stage =? 2 then joinP_second (run g) join_fuel fe se s1 s2 w
  else (Ret 0 [LEOF], SJoinP stage fe se s1 s2, w).
Proof. reflexivity. Qed.

(* invariant over any number of calls: the log (newest first) is [second's executions] ++ [first's executions],
   and while the stage is still runFirstFunc the second has not run *)
Lemma joinP_calls : forall c stage fe se rest1 rest2 w i A B,
  0 <= stage <= 4 -> wlog w = B ++ A -> only id1 A -> only id2 B -> (stage = 0 -> B = []) ->
  exists rs stage' fe' se' rest1' rest2' w' A' B',
    run_calls (FJoinP F1 F2) (SJoinP stage fe se (SBase rest1) (SBase rest2)) w i c
      = (rs, SJoinP stage' fe' se' (SBase rest1') (SBase rest2'), w') /\
    wlog w' = B' ++ A' /\ only id1 A' /\ only id2 B'.
Proof.
  induction c as [|c IH]; intros stage fe se rest1 rest2 w i A B Hs HL OA OB HB.
  - cbn. eexists _, _, _, _, _, _, _, A, B. repeat split; assumption.
  - cbn [run_calls]. rewrite run_joinP.
    assert (HL' : wlog (set_call i w) = B ++ A) by exact HL.
    destruct (stage =? 3) eqn:E3; [|destruct (stage =? 1) eqn:E1; [|destruct (stage =? 0) eqn:E0; [|destruct (stage =? 2) eqn:E2]]].
    + destruct (IH stage fe se rest1 rest2 (set_call i w) (i + 1) A B) as (rs & X); try assumption.
      destruct X as (st' & fe' & se' & r1' & r2' & w' & A' & B' & E & R). rewrite E. eexists _, _, _, _, _, _, _, A', B'. split; [reflexivity|exact R].
    + destruct (IH stage fe se rest1 rest2 (set_call i w) (i + 1) A B) as (rs & X); try assumption.
      destruct X as (st' & fe' & se' & r1' & r2' & w' & A' & B' & E & R). rewrite E. eexists _, _, _, _, _, _, _, A', B'. split; [reflexivity|exact R].
    + apply Z.eqb_eq in E0. rewrite (HB E0) in HL'. cbn [app] in HL'.
      destruct (first_base join_fuel fe se rest1 rest2 (set_call i w)) as (r & st' & fe' & se' & r1' & r2' & w1 & A1 & B1 & E & L & OA1 & OB1 & S1 & Z1).
      rewrite E. rewrite HL' in L.
      destruct (IH st' fe' se' r1' r2' w1 (i + 1) (A1 ++ A) B1) as (rs & X); try assumption; try (apply only_app; assumption).
      destruct X as (st2 & fe2 & se2 & r12 & r22 & w2 & A2 & B2 & E2' & R). rewrite E2'. eexists _, _, _, _, _, _, _, A2, B2. split; [reflexivity|exact R].
    + destruct (second_base join_fuel fe se (SBase rest1) rest2 (set_call i w)) as (r & st' & fe' & se' & r2' & w1 & B1 & E & L & OB1 & S1).
      rewrite E. rewrite HL', app_assoc in L.
      destruct (IH st' fe' se' rest1 r2' w1 (i + 1) A (B1 ++ B)) as (rs & X); try assumption; try lia; try (apply only_app; assumption).
      destruct X as (st2 & fe2 & se2 & r12 & r22 & w2 & A2 & B2 & E2' & R). rewrite E2'. eexists _, _, _, _, _, _, _, A2, B2. split; [reflexivity|exact R].
    + destruct (IH stage fe se rest1 rest2 (set_call i w) (i + 1) A B) as (rs & X); try assumption.
      destruct X as (st' & fe' & se' & r1' & r2' & w' & A' & B' & E & R). rewrite E. eexists _, _, _, _, _, _, _, A', B'. split; [reflexivity|exact R].
Qed.

(* chronological order log of any number of calls: all executions of the first producer, then all of the second *)
Theorem join_order_producer c :
  let F := FJoinP F1 F2 in
  exists A B, snd (observe F c) = A ++ B /\ only id1 A /\ only id2 B.
Proof.
  intros F. unfold observe, F. cbn [init]. unfold F1, F2. cbn [init]. fold F1 F2.
  destruct (joinP_calls c 0 [] [] sc1 sc2 w0 0 [] []) as (rs & st' & fe' & se' & r1' & r2' & w' & A & B & E & L & OA & OB);
    try lia; try reflexivity; try apply only_nil.
  rewrite E. cbn [snd]. exists (rev A), (rev B). rewrite L, rev_app_distr. split; [reflexivity|].
  split; apply Forall_rev; assumption.
Qed.
End JoinP.

Example joinp_example :
  observe (FJoinP (FBase KProducer 1 [OOk 1; OSkip 0; OOk 2; OEOF 0]) (FBase KProducer 2 [OOk 3; OEOF 0])) 6
  = ([Ret 1 []; Ret 2 []; Ret 3 []; Ret 0 [LEOF]; Ret 0 [LEOF]; Ret 0 [LEOF]],
     [(1, 0); (1, 1); (1, 1); (1, 2); (2, 2); (2, 3)]).
Proof. reflexivity. Qed.
