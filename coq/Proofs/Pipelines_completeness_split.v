(* C01_complete / C04_finite_input_eof / C04_progress_exhaust for Iterator.Split(n): one splitter goroutine
   (read the input, hand the item to whichever output is being read, close the pipe on return) and n consumer
   goroutines, one per output, each with its own context; unbuffered pipe. Any n >= 1, any input, any
   interleaving; runs that nothing aborted (no Close / cancel / abandon from outside). *)
From FunV Require Import Base.Tac Base.ListX Model.Pipelines
  Proofs.Pipelines_conserve Proofs.Pipelines_quiesce Proofs.Pipelines_nets Proofs.Pipelines_complete Proofs.Pipelines_closer
  Proofs.Pipelines_release Proofs.Pipelines_nodrop Proofs.Pipelines_completeness Proofs.Pipelines_progress.

(* an unbuffered channel never holds anything *)
Definition unbuffered (s : state) (ch : chid) : Prop :=
  exists c, nth_error (s_chans s) ch = Some c /\ c_cap c = 0 /\ c_buf c = [].

Lemma unbuffered_step N s l s' ch : step N s l = Some s' -> unbuffered s ch -> unbuffered s' ch.
Proof.
  intros H (c & Hc & Hcap & Hb). unfold unbuffered. destruct l; cbn [step] in H.
  - destruct (cur_instr N s p) as [[[pr d] i]|]; [|discriminate].
    destruct i; cbn [exec] in H; exec_cases H; inv H; unfold start; cbv zeta; unf;
      repeat match goal with |- context [if ?b then _ else _] => destruct b end; cbn [s_chans]; eauto;
      (destruct (Nat.eq_dec ch0 ch) as [->|Hne]; [|exists c; rewrite nth_error_upd_other by auto; auto]).
    + exfalso. match goal with E : nth_error (s_chans s) ch = Some ?c1, E2 : c_buf ?c1 = _ :: _ |- _ => rewrite Hc in E; inv E; congruence end.
    + exfalso. match goal with E : nth_error (s_chans s) ch = Some ?c1, E2 : (length (c_buf ?c1) <? c_cap ?c1) = true |- _ =>
                 rewrite Hc in E; inv E; rewrite Hcap in E2; apply Nat.ltb_lt in E2; lia end.
    + match goal with E : nth_error (s_chans s) ch = Some ?c1 |- context [c_buf ?c1] => rewrite Hc in E; inv E end.
      eexists. split; [eapply nth_error_upd_same; eauto|]. cbn [c_cap c_buf]. auto.
  - destruct (p =? q); [discriminate|].
    destruct (cur_instr N s p) as [[[pr d] i]|]; [|discriminate]. destruct i; try discriminate.
    destruct (cur_instr N s q) as [[[qr dq] iq]|]; [|discriminate]. destruct iq; try discriminate.
    exec_cases H. inv H. eauto.
  - exec_cases H. inv H. eauto.
  - inv H. eauto.
  - inv H. eauto.
  - exec_cases H; inv H; eauto.
Qed.

(* a goroutine that stands at its return (or has returned) stays there until it returns *)
Lemma at_exit_step N s l s' p pr d :
  step N s l = Some s' -> nth_error (s_procs s) p = Some pr -> nth_error (n_procs N) p = Some d ->
  (forall q qr, nth_error (s_procs s') q = Some qr -> p_st qr <> PAbandoned) ->
  p_st pr = PDone \/ (p_st pr = PRun /\ nth_error (d_prog d) (p_pc pr) = Some IExit) ->
  exists pr', nth_error (s_procs s') p = Some pr' /\ (p_st pr' = PDone \/ (p_st pr' = PRun /\ p_pc pr' = p_pc pr)).
Proof.
  intros H Hp Hd NA [Ed|(Er & Hi)].
  - exists pr. split; [eapply done_untouched; eauto|auto].
  - assert (Hns : p_st pr <> PNotStarted) by congruence.
    destruct (ctx_stable_step _ _ _ _ _ _ H Hp Hns) as (pr' & Hp' & _ & Hns').
    exists pr'. split; auto. destruct (p_st pr') eqn:Est; auto; [contradiction| |exfalso; eapply NA; eauto].
    right. split; auto.
    assert (CI : forall pr0 d0 i0, cur_instr N s p = Some (pr0, d0, i0) -> i0 = IExit).
    { intros pr0 d0 i0 Hc. apply cur_instr_inv in Hc as (Hp0 & Hd0 & _ & Hi0). rewrite Hp in Hp0. inv Hp0. rewrite Hd in Hd0. inv Hd0. congruence. }
    destruct (pc_step _ _ _ _ _ _ H Hp' Est) as [Same|[(_ & pr0 & Hp0 & E)|[(arm & pr0 & d0 & i & -> & Hc & Hin)|[(q & pr0 & d0 & ch & g & ko & ke & kr & -> & Hc & E)|(q & pr0 & d0 & ch & g & ki & ke & kr & -> & Hc & E)]]]].
    + rewrite Hp in Same. inv Same. reflexivity.
    + rewrite Hp in Hp0. inv Hp0. congruence.
    + rewrite (CI _ _ _ Hc) in Hin. destruct Hin.
    + pose proof (CI _ _ _ Hc). discriminate.
    + pose proof (CI _ _ _ Hc). discriminate.
Qed.

Section SplitN.
Variable n : nat.
Notation N := (split_net n).

Lemma Sw j : j < n -> nth_error (n_procs N) (3 + j) = Some (usr (splitc_prog j)).
Proof. intros H. cbn [split_net n_procs]. exact (nth_workers _ _ _ (fun j => usr (splitc_prog j)) n j H). Qed.
Lemma S1 : nth_error (n_procs N) 1 = Some (bg (pump_prog 0 0)). Proof. reflexivity. Qed.
Lemma Sdesc p d : nth_error (n_procs N) p = Some d ->
  (p = 0 /\ d = bg [IExit]) \/ (p = 1 /\ d = bg (pump_prog 0 0)) \/ (p = 2 /\ d = bg [IExit]) \/
  (exists j, j < n /\ p = 3 + j /\ d = usr (splitc_prog j)).
Proof. intros H. cbn [split_net n_procs] in H. apply nth_workers_inv in H. exact H. Qed.

Lemma hand_disc_split_net : hand_disc N = true.
Proof.
  unfold hand_disc. cbn [split_net n_procs]. apply forallb_app'; [reflexivity|].
  apply forallb_map_seq. intros j _. reflexivity.
Qed.

Lemma s_cons_cur s j c d i :
  j < n -> cur_instr N s (3 + j) = Some (c, d, i) ->
  (p_pc c = 0 /\ i = ICheck GOwn 1 5) \/ (p_pc c = 1 /\ i = ISpawn 1 GOwn 2) \/ (p_pc c = 2 /\ i = IRecv 0 GOwn 3 4 4) \/
  (p_pc c = 3 /\ i = IDeliver 0) \/ (p_pc c = 4 /\ i = ICancel (3 + j) 5) \/ (p_pc c = 5 /\ i = IExit).
Proof.
  intros Hj Hc. apply cur_instr_inv in Hc as (_ & Hd & _ & Hi). rewrite (Sw j Hj) in Hd. inv Hd. cbn [d_prog usr splitc_prog] in Hi.
  destruct (p_pc c) as [|[|[|[|[|[|k]]]]]]; cbn in Hi; inv Hi; auto 8. destruct k; discriminate.
Qed.

Lemma s_pump_cur s pr d i :
  cur_instr N s 1 = Some (pr, d, i) ->
  (p_pc pr = 0 /\ i = ISrc 0 GOwn 1 2 2) \/ (p_pc pr = 1 /\ i = ISend 0 GOwn 0 2 2) \/ (p_pc pr = 2 /\ i = IClose 0 3) \/ (p_pc pr = 3 /\ i = IExit).
Proof. intros Hc. apply cur_instr_inv in Hc as (_ & Hd & _ & Hi). rewrite S1 in Hd. inv Hd. cbn [d_prog bg] in Hi. apply pump_instr in Hi. exact Hi. Qed.

Definition s_past (s : state) (j : nat) : Prop :=
  exists c, nth_error (s_procs s) (3 + j) = Some c /\ (p_st c = PDone \/ (p_st c = PRun /\ p_pc c = 5)).

Definition pump_past (s : state) : Prop :=
  exists pr, nth_error (s_procs s) 1 = Some pr /\ (p_st pr = PDone \/ (p_st pr = PRun /\ p_pc pr = 3)).

Record sv (s : state) : Prop := {
  sv_na : forall p pr, nth_error (s_procs s) p = Some pr -> p_st pr <> PAbandoned;
  sv_len : length (s_chans s) = 1 /\ length (s_srcs s) = 1;
  sv_b : unbuffered s 0;
  sv_d : s_drop s = [];
  sv_u : forall c, In c (s_canc s) -> exists j, j < n /\ c = 3 + j /\ s_past s j;
  sv_cl : forall j c, j < n -> nth_error (s_procs s) (3 + j) = Some c -> p_st c = PDone \/ (p_st c = PRun /\ 4 <= p_pc c) -> closedb s 0 = true;
  sv_pp : closedb s 0 = true -> pump_past s;
  sv_e : forall pr, nth_error (s_procs s) 1 = Some pr -> p_st pr = PDone \/ (p_st pr = PRun /\ 2 <= p_pc pr) -> nth_error (s_srcs s) 0 = Some [];
  sv_k : forall j c, j < n -> nth_error (s_procs s) (3 + j) = Some c -> p_st c = PRun -> 2 <= p_pc c <= 4 -> started s 1
}.

(* in an un-aborted run a context is cancelled only by an output that has already seen the pipe closed *)
Lemma canc_closed s x : sv s -> cancelledb N s x = true -> closedb s 0 = true.
Proof.
  intros V H. unfold cancelledb in H. apply existsb_exists in H as (a & Ha & _).
  destruct (sv_u _ V a Ha) as (j & Hj & _ & (c & Hc & Hfin)). eapply (sv_cl _ V); eauto.
  destruct Hfin as [E|(E & Epc)]; [auto|right; split; auto; lia].
Qed.

(* the splitter, while it has not passed its close, sees neither a cancelled context nor a closed pipe *)
Lemma pump_sees_nothing s pr d i :
  sv s -> cur_instr N s 1 = Some (pr, d, i) -> p_pc pr < 3 ->
  (exists x, cancelledb N s x = true) \/ closedb s 0 = true -> False.
Proof.
  intros V Hc Hpc Hy.
  assert (Cl : closedb s 0 = true) by (destruct Hy as [(x & E)|E]; [eapply canc_closed; eauto|exact E]).
  destruct (sv_pp _ V Cl) as (p0 & Hp0 & Hfin). apply cur_instr_inv in Hc as (Hp & _ & Hr & _). rewrite Hp in Hp0. inv Hp0.
  destruct Hfin as [E|(_ & E)]; [congruence|lia].
Qed.

Lemma cons_ctx_split input s j c :
  reach N (split_init n input) s -> j < n -> nth_error (s_procs s) (3 + j) = Some c -> p_ctx c = 3 + j /\ p_st c <> PNotStarted.
Proof. intros R Hj Hc. eapply split_consumer_ctx; eauto. Qed.

Lemma s_past_step s l s' j :
  j < n -> step N s l = Some s' -> (forall q qr, nth_error (s_procs s') q = Some qr -> p_st qr <> PAbandoned) -> s_past s j -> s_past s' j.
Proof.
  intros Hj H NA (c & Hc & Hfin).
  destruct (at_exit_step N s l s' (3 + j) c _ H Hc (Sw j Hj) NA) as (c' & Hc' & Hfin').
  - destruct Hfin as [E|(E & Epc)]; [auto|right; split; auto]. rewrite Epc. reflexivity.
  - exists c'. split; auto. destruct Hfin' as [E|(E & Epc)]; auto. right. split; auto.
    destruct Hfin as [E0|(_ & E0)]; [|congruence]. exfalso.
    (* it was done: done_untouched says it is the same goroutine record *)
    pose proof (done_untouched _ _ _ _ _ _ H Hc E0) as X. rewrite Hc' in X. inv X. congruence.
Qed.

Lemma pump_past_step s l s' :
  step N s l = Some s' -> (forall q qr, nth_error (s_procs s') q = Some qr -> p_st qr <> PAbandoned) -> pump_past s -> pump_past s'.
Proof.
  intros H NA (c & Hc & Hfin).
  destruct (at_exit_step N s l s' 1 c _ H Hc S1 NA) as (c' & Hc' & Hfin').
  - destruct Hfin as [E|(E & Epc)]; [auto|right; split; auto]. rewrite Epc. reflexivity.
  - exists c'. split; auto. destruct Hfin' as [E|(E & Epc)]; auto. right. split; auto.
    destruct Hfin as [E0|(_ & E0)]; [|congruence]. exfalso.
    pose proof (done_untouched _ _ _ _ _ _ H Hc E0) as X. rewrite Hc' in X. inv X. congruence.
Qed.

Lemma sv_step input s l s' :
  reach N (split_init n input) s -> internal l = true -> sv s -> step N s l = Some s' -> sv s'.
Proof.
  intros R Hint V H.
  assert (I : ginv N s) by (eapply ginv_reach; eauto using wf_split_net, ginv_split_init).
  assert (HI : hinv N s).
  { eapply hinv_reach; eauto using hand_disc_split_net. unfold split_init. apply hinv_mk_init.
    intros pr [<-|[<-|[<-|Hin]]]; auto. apply in_map_iff in Hin as (j & <- & _). reflexivity. }
  assert (NA : forall p pr, nth_error (s_procs s') p = Some pr -> p_st pr <> PAbandoned).
  { eapply no_abandon_step; eauto. apply (sv_na _ V). }
  assert (KC : closedb s 0 = true -> closedb s' 0 = true) by (eapply closed_mono; eauto).
  destruct (lens_step _ _ _ _ H) as (L1 & L2).
  split.
  - exact NA.
  - destruct (sv_len _ V). split; congruence.
  - eapply unbuffered_step; eauto. apply (sv_b _ V).
  - (* nothing is dropped: only the splitter sends, and it cannot see a cancelled context or a closed pipe *)
    destruct (drop_cause N s l s' HI H) as [E|(p & pr & d & ch & g & ko & ke & kr & Hc & Hcause)]; [rewrite E; apply (sv_d _ V)|].
    exfalso. pose proof Hc as Hc0. apply cur_instr_inv in Hc as (Hp & Hd & Hr & Hi).
    apply Sdesc in Hd as [(-> & ->)|[(-> & ->)|[(-> & ->)|(j & Hj & -> & ->)]]].
    + cbn [d_prog bg] in Hi. destruct (p_pc pr) as [|k]; [|destruct k]; cbn in Hi; discriminate.
    + destruct (s_pump_cur _ _ _ _ Hc0) as [(_ & E)|[(Epc & E)|[(_ & E)|(_ & E)]]]; try discriminate. inv E.
      eapply (pump_sees_nothing s); eauto; [lia|]. destruct Hcause as [E|E]; [left; eauto|right; exact E].
    + cbn [d_prog bg] in Hi. destruct (p_pc pr) as [|k]; [|destruct k]; cbn in Hi; discriminate.
    + apply (s_cons_cur s j) in Hc0; auto. intuition discriminate.
  - (* who cancels *)
    intros x Hx.
    destruct (canc_by _ _ _ _ Hint H) as [Ec|(p & pr & d & c & k & -> & Hc)].
    + rewrite Ec in Hx. destruct (sv_u _ V x Hx) as (j & Hj & E & P). exists j. split; auto. split; auto. eapply s_past_step; eauto.
    + pose proof Hc as Hc0. pose proof H as H0. cbn [step] in H. rewrite Hc in H. cbn [exec] in H. inv H. unf. cbn [s_canc s_procs] in *.
      apply cur_instr_inv in Hc as (Hp & Hd & Hr & Hi).
      destruct Hx as [<-|Hx].
      * apply Sdesc in Hd as [(-> & ->)|[(-> & ->)|[(-> & ->)|(j & Hj & -> & ->)]]].
        -- cbn [d_prog bg] in Hi. destruct (p_pc pr) as [|k0]; [|destruct k0]; cbn in Hi; discriminate.
        -- apply s_pump_cur in Hc0. intuition discriminate.
        -- cbn [d_prog bg] in Hi. destruct (p_pc pr) as [|k0]; [|destruct k0]; cbn in Hi; discriminate.
        -- apply (s_cons_cur s j) in Hc0; auto.
           destruct Hc0 as [(_ & E)|[(_ & E)|[(_ & E)|[(_ & E)|[(Epc & E)|(_ & E)]]]]]; try discriminate. inv E.
           exists j. split; auto. split; auto. eexists. split; [unf; cbn [s_procs]; eapply nth_error_upd_same; eauto|]. right. split; reflexivity.
      * destruct (sv_u _ V x Hx) as (j & Hj & E & P). exists j. split; auto. split; auto. eapply s_past_step; eauto.
  - (* an output leaves only after it saw the pipe closed *)
    intros j c' Hj Hc' Hfin.
    destruct Hfin as [Ed|(Er & Epc)].
    + destruct (done_from _ _ _ _ _ _ H Hc' Ed) as [Same|(pr & d & Hc)].
      * apply KC. eapply (sv_cl _ V); eauto.
      * apply KC. pose proof (s_cons_cur s j _ _ _ Hj Hc) as X. apply cur_instr_inv in Hc as (Hp & _ & Hr & _).
        destruct X as [(_ & E)|[(_ & E)|[(_ & E)|[(_ & E)|[(_ & E)|(E5 & _)]]]]]; try discriminate.
        eapply (sv_cl _ V); eauto. right. split; auto. lia.
    + destruct (pc_step _ _ _ _ _ _ H Hc' Er) as [Same|[(E0 & _)|[(arm & pr & d & i & -> & Hc & Hin)|[(q & pr & d & ch & g & ko & ke & kr & -> & Hc & E)|(q & pr & d & ch & g & ki & ke & kr & -> & Hc & E)]]]].
      * apply KC. eapply (sv_cl _ V); eauto.
      * lia.
      * pose proof (s_cons_cur s j _ _ _ Hj Hc) as X. cbn [step] in H. rewrite Hc in H. apply cur_instr_inv in Hc as (Hp & _ & Hr & _).
        apply KC.
        destruct X as [(E0 & ->)|[(E0 & ->)|[(E0 & ->)|[(E0 & ->)|[(E0 & ->)|(E0 & ->)]]]]]; cbn [targets In] in Hin; try lia.
        -- eapply canc_closed; eauto. eapply check_err_cause; eauto. lia.
        -- destruct (recv_end_cause _ _ _ _ _ _ _ _ _ _ _ _ _ H Hc') as [E|(c0 & Hc0 & Hcl0 & _)]; [lia|eapply canc_closed; eauto|].
           unfold closedb. now rewrite Hc0.
        -- eapply (sv_cl _ V); eauto. right. split; auto. lia.
      * exfalso. apply (s_cons_cur s j) in Hc; auto. intuition discriminate.
      * exfalso. apply (s_cons_cur s j) in Hc; auto.
        destruct Hc as [(_ & E1)|[(_ & E1)|[(_ & E1)|[(_ & E1)|[(_ & E1)|(_ & E1)]]]]]; inv E1. lia.
  - (* the pipe is closed by the splitter only, on its way out *)
    intros Hcl'. destruct (closedb s 0) eqn:Ecl; [eapply pump_past_step; eauto; apply (sv_pp _ V); auto|].
    destruct (closed_by _ _ _ _ _ H Ecl Hcl') as (p & pr & d & k & -> & Hc).
    pose proof Hc as Hc0. apply cur_instr_inv in Hc as (Hp & Hd & Hr & Hi).
    apply Sdesc in Hd as [(-> & ->)|[(-> & ->)|[(-> & ->)|(j & Hj & -> & ->)]]].
    + cbn [d_prog bg] in Hi. destruct (p_pc pr) as [|k0]; [|destruct k0]; cbn in Hi; discriminate.
    + destruct (s_pump_cur _ _ _ _ Hc0) as [(_ & E)|[(_ & E)|[(_ & E)|(_ & E)]]]; try discriminate. inv E.
      cbn [step] in H. rewrite Hc0 in H. cbn [exec] in H. exec_cases H; inv H;
        (eexists; split; [unf; cbn [s_procs]; eapply nth_error_upd_same; eauto|right; split; reflexivity]).
    + cbn [d_prog bg] in Hi. destruct (p_pc pr) as [|k0]; [|destruct k0]; cbn in Hi; discriminate.
    + apply (s_cons_cur s j) in Hc0; auto. intuition discriminate.
  - (* the splitter passes to its close only after the input is exhausted *)
    intros pr' Hp' Hfin.
    assert (KEEP : nth_error (s_srcs s) 0 = Some [] -> nth_error (s_srcs s') 0 = Some []) by (eapply src_empty_step; eauto).
    destruct Hfin as [Ed|(Er & Epc)].
    + destruct (done_from _ _ _ _ _ _ H Hp' Ed) as [Same|(pr & d & Hc)].
      * apply KEEP. eapply (sv_e _ V); eauto.
      * apply KEEP. pose proof (s_pump_cur _ _ _ _ Hc) as X. apply cur_instr_inv in Hc as (Hp & _ & Hr & _).
        destruct X as [(_ & E)|[(_ & E)|[(_ & E)|(E3 & _)]]]; try discriminate. eapply (sv_e _ V); eauto. right. split; auto. lia.
    + destruct (pc_step _ _ _ _ _ _ H Hp' Er) as [Same|[(E0 & _)|[(arm & pr & d & i & -> & Hc & Hin)|[(q & pr & d & ch & g & ko & ke & kr & -> & Hc & E)|(q & pr & d & ch & g & ki & ke & kr & -> & Hc & E)]]]].
      * apply KEEP. eapply (sv_e _ V); eauto.
      * lia.
      * pose proof (s_pump_cur _ _ _ _ Hc) as X. pose proof Hc as Hc0. cbn [step] in H. rewrite Hc in H.
        apply cur_instr_inv in Hc as (Hp & _ & Hr & _).
        destruct X as [(E0 & ->)|[(E0 & ->)|[(E0 & ->)|(E0 & ->)]]]; cbn [targets In] in Hin; try lia.
        -- destruct (src_end_cause _ _ _ _ _ _ _ _ _ _ _ _ _ H Hp') as [E|[E|E]]; [lia| |apply KEEP; exact E|].
           ++ exfalso. eapply (pump_sees_nothing s _ _ _ V Hc0); [lia|left; eauto].
           ++ exfalso. destruct (sv_len _ V) as (_ & L). apply nth_error_None in E. lia.
        -- exfalso. destruct (send_err_cause _ _ _ _ _ _ _ _ _ _ _ _ _ H Hp') as [E|E]; [lia| |].
           ++ eapply (pump_sees_nothing s _ _ _ V Hc0); [lia|left; eauto].
           ++ eapply (pump_sees_nothing s _ _ _ V Hc0); [lia|right; exact E].
        -- apply KEEP. eapply (sv_e _ V); eauto. right. split; auto. lia.
      * exfalso. destruct (s_pump_cur _ _ _ _ Hc) as [(_ & E1)|[(_ & E1)|[(_ & E1)|(_ & E1)]]]; inv E1. lia.
      * exfalso. apply s_pump_cur in Hc. intuition discriminate.
  - (* an output that is past its first advance has started the splitter *)
    intros j c' Hj Hc' Er Hpc.
    destruct (pc_step _ _ _ _ _ _ H Hc' Er) as [Same|[(E0 & _)|[(arm & pr & d & i & -> & Hc & Hin)|[(q & pr & d & ch & g & ko & ke & kr & -> & Hc & E)|(q & pr & d & ch & g & ki & ke & kr & -> & Hc & E)]]]].
    + eapply started_mono; eauto. eapply (sv_k _ V); eauto.
    + lia.
    + pose proof (s_cons_cur s j _ _ _ Hj Hc) as X. pose proof Hc as Hc0. apply cur_instr_inv in Hc as (Hp & _ & Hr & _).
      destruct X as [(E0 & ->)|[(E0 & ->)|[(E0 & ->)|[(E0 & ->)|[(E0 & ->)|(E0 & ->)]]]]]; cbn [targets In] in Hin;
        try lia; try (eapply started_mono; eauto; eapply (sv_k _ V); eauto; lia).
      eapply spawn_started; eauto.
      destruct (nth_error (s_procs s) 1) as [q1|] eqn:E1; [eauto|]. exfalso. apply nth_error_None in E1.
      rewrite (gi_len _ _ I) in E1. cbn [split_net n_procs] in E1. rewrite app_length in E1. cbn in E1. lia.
    + exfalso. apply (s_cons_cur s j) in Hc; auto. intuition discriminate.
    + pose proof (s_cons_cur s j _ _ _ Hj Hc) as X. apply cur_instr_inv in Hc as (Hp & _ & Hr & _).
      destruct X as [(_ & E1)|[(_ & E1)|[(E0 & E1)|[(_ & E1)|[(_ & E1)|(_ & E1)]]]]]; try discriminate.
      eapply started_mono; eauto. eapply (sv_k _ V); eauto. lia.
Qed.

Lemma init_cons input j c :
  j < n -> nth_error (s_procs (split_init n input)) (3 + j) = Some c -> c = running (3 + j).
Proof.
  intros Hj Hc. unfold split_init, mk_init in Hc; cbn [s_procs] in Hc. rewrite nth3 in Hc.
  rewrite nth_error_map, (nth_error_nth' _ 0) in Hc by (rewrite seq_length; lia). rewrite seq_nth in Hc by lia. cbn in Hc. inv Hc. reflexivity.
Qed.

Lemma sv_init input : sv (split_init n input).
Proof.
  split.
  - intros p pr Hp. unfold split_init, mk_init in Hp; cbn [s_procs] in Hp. apply nth_error_In in Hp.
    destruct Hp as [<-|[<-|[<-|Hin]]]; try discriminate. apply in_map_iff in Hin as (j & <- & _). discriminate.
  - split; reflexivity.
  - eexists. split; [reflexivity|split; reflexivity].
  - reflexivity.
  - intros c [].
  - intros j c Hj Hc Hfin. apply (init_cons input j c Hj) in Hc. subst. cbn in Hfin. destruct Hfin as [E|(_ & E)]; [discriminate|lia].
  - intros Hc. unfold split_init in Hc. rewrite closedb_mk_init in Hc. discriminate.
  - intros pr Hp Hfin. cbn in Hp. inv Hp. destruct Hfin as [E|(E & _)]; discriminate.
  - intros j c Hj Hc _ Hpc. apply (init_cons input j c Hj) in Hc. subst. cbn in Hpc. lia.
Qed.

Lemma sv_ireach input s : ireach N (split_init n input) s -> sv s.
Proof.
  induction 1 as [|s l s' R IH Hi H]; [apply sv_init|]. eapply sv_step; eauto. apply ireach_reach. exact R.
Qed.

Lemma hinv_split input s : reach N (split_init n input) s -> hinv N s.
Proof.
  intros R. eapply hinv_reach; eauto using hand_disc_split_net. unfold split_init. apply hinv_mk_init.
  intros pr [<-|[<-|[<-|Hin]]]; auto. apply in_map_iff in Hin as (j & <- & _). reflexivity.
Qed.

Lemma cons_exists input s j : reach N (split_init n input) s -> j < n -> exists c, nth_error (s_procs s) (3 + j) = Some c /\ p_st c <> PNotStarted.
Proof.
  intros R Hj. assert (I : ginv N s) by (eapply ginv_reach; eauto using wf_split_net, ginv_split_init).
  destruct (nth_error (s_procs s) (3 + j)) as [c|] eqn:E.
  - exists c. split; auto. eapply split_consumer_ctx; eauto.
  - exfalso. apply nth_error_None in E. rewrite (gi_len _ _ I) in E. cbn [split_net n_procs] in E.
    rewrite app_length, map_length, seq_length in E. cbn in E. lia.
Qed.

(* C01_complete for Split(n), n >= 1: a terminated run that nothing aborted delivered - over all the outputs
   together - a permutation of the input *)
Theorem split_complete input s :
  0 < n -> reach N (split_init n input) s -> s_stopped s = false -> all_done s -> Permutation (s_deliv s) input.
Proof.
  intros Hn R Hs (AD & _). pose proof (sv_ireach input s (reach_unstopped _ _ _ R Hs)) as V.
  pose proof (hinv_split input s R) as HI.
  destruct (cons_exists input s 0 R Hn) as (c & Hc & Hns).
  assert (Dc : p_st c = PDone).
  { destruct (p_st c) eqn:E; auto; [contradiction|exfalso; eapply AD; eauto|exfalso; eapply (sv_na _ V); eauto]. }
  pose proof (sv_cl _ V 0 c Hn Hc (or_introl Dc)) as Cl.
  destruct (sv_pp _ V Cl) as (pr & Hp & Hfin).
  assert (Dp : p_st pr = PDone) by (destruct Hfin as [E|(E & _)]; [auto|exfalso; eapply AD; eauto]).
  pose proof (sv_e _ V pr Hp (or_introl Dp)) as Es.
  destruct (sv_len _ V) as (Lc & Ls). destruct (sv_b _ V) as (c0 & Hc0 & _ & Hb).
  assert (Esrc : concat (s_srcs s) = []).
  { destruct (s_srcs s) as [|l0 [|]]; cbn in Ls; try lia. cbn in Es. inv Es. reflexivity. }
  assert (Ebuf : bufs (s_chans s) = []).
  { unfold bufs. destruct (s_chans s) as [|c1 [|]]; cbn in Lc; try lia. cbn in Hc0. inv Hc0. cbn. now rewrite Hb. }
  assert (Eh : hands (s_procs s) = []).
  { apply hands_none. intros q Hin. apply In_nth_error in Hin as (p & Hq).
    destruct (HI p q Hq) as [E|([E|E] & _)]; auto; exfalso; [eapply AD; eauto|eapply (sv_na _ V); eauto]. }
  pose proof (reach_conserves _ _ _ R) as P. unfold tokens in P at 1.
  rewrite Esrc, Ebuf, Eh, (sv_d _ V) in P. cbn [app] in P. rewrite app_nil_r in P.
  etransitivity; [exact P|]. unfold split_init. rewrite tokens_mk_init; [cbn; now rewrite app_nil_r|].
  apply hands_none. intros q [<-|[<-|[<-|Hin]]]; auto. apply in_map_iff in Hin as (j & <- & _). reflexivity.
Qed.

(* deadlock freedom *)
Theorem split_deadlock_free input s :
  0 < n -> reach N (split_init n input) s -> s_stopped s = false -> quiescent N s -> all_done s.
Proof.
  intros Hn R Hs Q. pose proof (sv_ireach input s (reach_unstopped _ _ _ R Hs)) as V.
  pose proof (hinv_split input s R) as HI.
  assert (I : ginv N s) by (eapply ginv_reach; eauto using wf_split_net, ginv_split_init).
  assert (PI : pinv s).
  { apply (pinv_reach N eq_refl (wf_split_net n) (split_waits n) (split_init n input) s (ginv_split_init n input)); [|exact R].
    unfold split_init. apply pinv_mk_init; [cbn; lia|]. exists idle. split; [reflexivity|left; reflexivity]. }
  assert (STUCK : forall p pr d i, cur_instr N s p = Some (pr, d, i) -> (exists arm s', step N s (LStep p arm) = Some s') -> False).
  { intros p pr d i _ (arm & s' & E). rewrite (Q (LStep p arm) eq_refl) in E. discriminate. }
  assert (CUR : forall p pr, nth_error (s_procs s) p = Some pr -> p_st pr = PRun -> exists d i, cur_instr N s p = Some (pr, d, i)).
  { intros p pr Hp Hr. destruct (nth_error (n_procs N) p) as [d|] eqn:Hd.
    - pose proof (gi_pc _ _ I p pr d Hp Hd Hr) as Hpc.
      destruct (nth_error (d_prog d) (p_pc pr)) as [i|] eqn:Ei; [|apply nth_error_None in Ei; lia].
      exists d, i. apply cur_instr_mk; auto.
    - exfalso. apply nth_error_None in Hd. rewrite <- (gi_len _ _ I) in Hd.
      assert (p < length (s_procs s)) by (apply nth_error_Some; congruence). lia. }
  destruct (sv_b _ V) as (c0 & Hc0 & Hcap & Hb).
  (* 1: no output's consumer is running *)
  assert (C1 : forall j c, j < n -> nth_error (s_procs s) (3 + j) = Some c -> p_st c <> PRun).
  { intros j c Hj Hc Er. destruct (CUR _ _ Hc Er) as (d & i & Hcur).
    destruct (s_cons_cur s j _ _ _ Hj Hcur) as [(_ & ->)|[(_ & ->)|[(Epc & ->)|[(_ & ->)|[(_ & ->)|(_ & ->)]]]]];
      try (eapply STUCK; eauto; apply (enabled_noguard N s _ _ _ _ Hcur); reflexivity).
    (* parked in its receive: the pipe is open; the splitter was started, and it can neither step nor have returned *)
    destruct (c_closed c0) eqn:Ecl;
      [eapply STUCK; eauto; exists false; eexists; cbn [step]; rewrite Hcur; cbn [exec]; rewrite Hc0, Hb, Ecl; reflexivity|].
    destruct (sv_k _ V j c Hj Hc Er) as (pr & Hp & Hps); [lia|].
    destruct (p_st pr) eqn:Ep; [contradiction| | |eapply (sv_na _ V); eauto].
    - destruct (CUR _ _ Hp Ep) as (dp & ip & Hpc).
      destruct (s_pump_cur _ _ _ _ Hpc) as [(_ & ->)|[(_ & ->)|[(_ & ->)|(_ & ->)]]];
        try (eapply STUCK; eauto; apply (enabled_noguard N s _ _ _ _ Hpc); reflexivity).
      destruct (p_hand pr) as [v|] eqn:Eh.
      + pose proof (Q (LRdv 1 (3 + j)) eq_refl) as X. cbn [step] in X. replace (1 =? 3 + j) with false in X by reflexivity.
        rewrite Hpc, Hcur, Eh, Hc0, Hcap, Ecl in X. cbn in X. discriminate.
      + eapply STUCK; eauto. exists false. cbn [step]. rewrite Hpc. cbn [exec]. rewrite Eh. eauto.
    - destruct PI as (_ & PI). pose proof (PI pr Hp (or_introl Ep)) as X. unfold closedb in X. rewrite Hc0 in X. congruence. }
  (* 2: so every consumer has returned, the pipe is closed, the splitter is past its close *)
  destruct (cons_exists input s 0 R Hn) as (c & Hc & Hns).
  assert (Dc : p_st c = PDone).
  { destruct (p_st c) eqn:E; auto; [contradiction|exfalso; eapply C1; eauto|exfalso; eapply (sv_na _ V); eauto]. }
  pose proof (sv_cl _ V 0 c Hn Hc (or_introl Dc)) as Cl.
  destruct (sv_pp _ V Cl) as (pr & Hp & Hfin).
  assert (S3 : forall p q, nth_error (s_procs s) p = Some q -> p_st q <> PRun).
  { intros p q Hq Er. destruct (CUR _ _ Hq Er) as (d & i & Hcur). pose proof Hcur as Hcur0.
    apply cur_instr_inv in Hcur as (_ & Hd & _ & Hi).
    apply Sdesc in Hd as [(-> & ->)|[(-> & ->)|[(-> & ->)|(j & Hj & -> & ->)]]].
    - cbn [d_prog bg] in Hi. destruct (p_pc q) as [|k]; [|destruct k; discriminate]. cbn in Hi. inv Hi.
      eapply STUCK; eauto. apply (enabled_noguard N s _ _ _ _ Hcur0); reflexivity.
    - rewrite Hp in Hq. inv Hq. destruct Hfin as [E|(_ & Epc)]; [congruence|].
      destruct (s_pump_cur _ _ _ _ Hcur0) as [(E0 & _)|[(E0 & _)|[(E0 & _)|(_ & ->)]]]; try lia.
      eapply STUCK; eauto. apply (enabled_noguard N s _ _ _ _ Hcur0); reflexivity.
    - cbn [d_prog bg] in Hi. destruct (p_pc q) as [|k]; [|destruct k; discriminate]. cbn in Hi. inv Hi.
      eapply STUCK; eauto. apply (enabled_noguard N s _ _ _ _ Hcur0); reflexivity.
    - eapply C1; eauto. }
  split; [exact S3|].
  destruct (s_oncew s) as [|k] eqn:Eo; auto. exfalso.
  destruct (gi_once _ _ I) as (po & Hpo & Hnsp); [lia|].
  assert (Hd : is_done s (n_once N) = true).
  { unfold is_done. rewrite Hpo. destruct (p_st po) eqn:Est; auto; [exfalso; eapply S3; eauto|exfalso; eapply (sv_na _ V); eauto]. }
  pose proof (Q LOnceRel eq_refl) as Hs0. cbn [step] in Hs0. rewrite Eo, Hd in Hs0. discriminate.
Qed.

(* C04_finite_input_eof for Split(n): an un-aborted run that can go no further has finished - no goroutine runs -
   and the outputs together delivered a permutation of the whole input *)
Theorem split_finite_input_eof input s :
  0 < n -> reach N (split_init n input) s -> s_stopped s = false -> quiescent N s ->
  all_done s /\ Permutation (s_deliv s) input.
Proof.
  intros Hn R Hs Q. pose proof (split_deadlock_free input s Hn R Hs Q) as A. split; auto. eapply split_complete; eauto.
Qed.

Corollary split_progress input s :
  0 < n -> reach N (split_init n input) s -> s_stopped s = false -> ~ all_done s -> ~ quiescent N s.
Proof. intros Hn R Hs NA Q. apply NA. eapply split_deadlock_free; eauto. Qed.

End SplitN.
