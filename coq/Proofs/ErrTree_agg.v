(* Proofs/ErrTree_agg.v — the C12 statements about the model: nil-iff, identity of the single case, Unwind,
   errors.Is / errors.As through aggregation, ParsePanic, the sequential Collector. *)
From FunV Require Import Base.Tac Base.ListX Model.ErrTree Proofs.ErrTree_base.
Local Open Scope Z_scope.

(* ------------------------------------------------------------------ nil-iff, single identity *)

Theorem join_nil_iff tag es : join tag es = Nil <-> supplied es = [].
Proof.
  rewrite join_spec. pose proof (supplied_plain es) as Hp.
  destruct (supplied es) as [|c [|d cs]]; split; intros H; try reflexivity; try discriminate.
  inv Hp. subst. discriminate.
Qed.

(* nils anywhere are ignored: a list of operands with no constituent at all joins to nil ... *)
Lemma supplied_nil_iff es : supplied es = [] <-> Forall (fun e => constituents e = []) es.
Proof.
  unfold supplied. induction es as [|e es IH]; simpl; [split; constructor|]. split.
  - intros H. apply app_eq_nil in H as [H1 H2]. constructor; [assumption|apply IH; assumption].
  - intros H. inv H. rewrite H2. simpl. apply IH. assumption.
Qed.

(* ... and an operand without constituents is one without any plain node below flattening *)
Lemma constituents_nil_iff e : constituents e = [] <-> forall c, In c (constituents e) -> False.
Proof. destruct (constituents e); split; intros H; try reflexivity; try discriminate; [intros c []|exfalso; apply (H e0); left; reflexivity]. Qed.

Corollary join_all_nil tag es : Forall (fun e => e = Nil) es -> join tag es = Nil.
Proof.
  intros H. apply join_nil_iff, supplied_nil_iff. eapply Forall_impl; [|exact H]. intros e ->. reflexivity.
Qed.

Corollary join_not_nil tag es e : In e es -> plain e = true -> join tag es <> Nil.
Proof.
  intros Hin Hp H. apply join_nil_iff, supplied_nil_iff in H. rewrite Forall_forall in H.
  specialize (H e Hin). rewrite plain_constituents in H by assumption. discriminate.
Qed.

Theorem join_single_identity tag es c : supplied es = [c] -> join tag es = c.
Proof. intros H. rewrite join_spec, H. reflexivity. Qed.

(* the property's wording: Join of one plain error (nils before and after) is that error itself *)
Corollary join_single_plain tag e n m : plain e = true -> join tag (repeat Nil n ++ e :: repeat Nil m) = e.
Proof.
  intros Hp. apply join_single_identity. rewrite supplied_app.
  assert (Hn : forall k, supplied (repeat Nil k) = []) by (induction k; simpl; auto).
  rewrite Hn. simpl. unfold supplied in *. simpl. rewrite plain_constituents by assumption.
  fold (supplied (repeat Nil m)). rewrite Hn. reflexivity.
Qed.

(* ------------------------------------------------------------------ Unwind *)

(* Stack.Unwind() on the stack that Join/Add built: every supplied constituent once, most recent first *)
Theorem stack_unwind_add es : chain_unwind (s_chain (stack_add stack_zero es)) = rev (supplied es).
Proof. rewrite stack_add_zero. simpl. apply chain_unwind_plain, Forall_rev', supplied_plain. Qed.

Theorem unwind_join tag es :
  length (supplied es) <> 1%nat -> unwind (join tag es) = rev (supplied es).
Proof.
  intros Hl. rewrite join_spec. pose proof (supplied_plain es) as Hp.
  destruct (supplied es) as [|c [|d cs]] eqn:E; [reflexivity|simpl in Hl; lia|].
  apply unwind_stk_plain, Forall_rev'. assumption.
Qed.

(* one constituent: the result IS that constituent, so unwinding the result is unwinding it *)
Theorem unwind_join_single tag es c : supplied es = [c] -> unwind (join tag es) = unwind c.
Proof. intros H. rewrite (join_single_identity tag es c H). reflexivity. Qed.

Lemma unwind_head c : plain c = true -> exists r, unwind c = c :: r.
Proof. destruct c; simpl; intros H; try discriminate; eexists; reflexivity. Qed.

Corollary unwind_join_perm tag es :
  length (supplied es) <> 1%nat -> Permutation (unwind (join tag es)) (supplied es).
Proof. intros H. rewrite unwind_join by assumption. symmetry. apply Permutation_rev. Qed.

(* ------------------------------------------------------------------ errors.Is *)

Lemma existsb_rev {A} (f : A -> bool) l : existsb f (rev l) = existsb f l.
Proof.
  induction l; simpl; [reflexivity|]. rewrite existsb_app, IHl. simpl. rewrite orb_false_r. apply orb_comm.
Qed.

Lemma existsb_flat_map {A B} (f : B -> bool) (g : A -> list B) l :
  existsb f (flat_map g l) = existsb (fun x => existsb f (g x)) l.
Proof. induction l; simpl; [reflexivity|]. rewrite existsb_app, IHl. reflexivity. Qed.

Lemma existsb_ext_in {A} (f g : A -> bool) l : Forall (fun x => f x = g x) l -> existsb f l = existsb g l.
Proof. induction 1; simpl; congruence. Qed.

Lemma same_plain_flat e t : plain t = true -> plain e = false -> same e t = false.
Proof. destruct e, t; simpl; intros; try reflexivity; discriminate. Qed.

Lemma eqt_plain_flat e t : plain t = true -> plain e = false -> comparable t && same e t = false.
Proof. intros. rewrite same_plain_flat by assumption. apply andb_false_r. Qed.

Lemma is_Nil t : plain t = true -> is_ t Nil = false.
Proof. destruct t; intros; try discriminate; reflexivity. Qed.

Lemma go_is_plain e t : plain t = true -> go_is e t = is_ t e.
Proof.
  intros Ht. unfold go_is. rewrite (plain_not_nil _ Ht), orb_false_r.
  destruct e; try reflexivity. destruct t; try discriminate; reflexivity.
Qed.

(* the chain of a stack that holds plain errors only is searched completely *)
Lemma chain_is_plain t f l :
  plain t = true -> Forall (fun c => plain c = true) l -> chain_is t f l = existsb f l.
Proof.
  intros Ht. induction 1 as [|x l Hx Hl IH].
  - simpl. apply plain_not_nil. assumption.
  - change (chain_is t f (x :: l)) with
      ((if is_nil x || is_nil t then same x t else f x)
       || match l with [] => false | y :: _ => negb (is_nil y) && chain_is t f l end).
    rewrite (plain_not_nil _ Hx), (plain_not_nil _ Ht). simpl. f_equal.
    destruct l as [|y l]; [reflexivity|]. inv Hl. rewrite (plain_not_nil y) by assumption. simpl negb.
    rewrite andb_true_l. exact IH.
Qed.

(* errors.Is on a well-formed value = errors.Is on one of the constituents it contributes to an aggregation *)
Lemma is_constituents t e : plain t = true -> wf e = true -> is_ t e = existsb (is_ t) (constituents e).
Proof.
  intros Ht. induction e using err_ind'; intros Hw;
    try (simpl constituents; simpl existsb; rewrite orb_false_r; reflexivity).
  - apply is_Nil; assumption.
  - change (is_ t (Multi g es)) with (comparable t && same (Multi g es) t || existsb (is_ t) es).
    rewrite eqt_plain_flat by auto. simpl. rewrite existsb_flat_map. apply existsb_ext_in.
    simpl in Hw. rewrite forallb_forall in Hw. rewrite Forall_forall in *. intros x Hx. apply H; auto.
  - change (is_ t (Stk g n es)) with (comparable t && same (Stk g n es) t || chain_is t (is_ t) es).
    rewrite eqt_plain_flat by auto. simpl.
    simpl in Hw. rewrite forallb_forall in Hw.
    assert (Hp : Forall (fun c => plain c = true) es).
    { apply Forall_forall. intros x Hx. specialize (Hw x Hx). apply andb_true_iff in Hw. tauto. }
    rewrite chain_is_plain by assumption. rewrite flat_map_plain by assumption. reflexivity.
Qed.

Lemma is_supplied t es :
  plain t = true -> Forall (fun e => wf e = true) es -> existsb (is_ t) es = existsb (is_ t) (supplied es).
Proof.
  intros Ht Hw. unfold supplied. rewrite existsb_flat_map. apply existsb_ext_in.
  eapply Forall_impl; [|exact Hw]. intros e He. apply is_constituents; assumption.
Qed.

(* errors.Is on the result of Join = errors.Is on one of the constituents (no hypothesis on the operands) *)
Lemma is_join_supplied t tag es : plain t = true -> is_ t (join tag es) = existsb (is_ t) (supplied es).
Proof.
  intros Ht. rewrite join_spec. pose proof (supplied_plain es) as Hp.
  destruct (supplied es) as [|c [|d cs]] eqn:E.
  - apply is_Nil; assumption.
  - simpl. rewrite orb_false_r. reflexivity.
  - change (is_ t (Stk tag (Z.of_nat (length (c :: d :: cs))) (rev (c :: d :: cs)))) with
      (comparable t && same (Stk tag (Z.of_nat (length (c :: d :: cs))) (rev (c :: d :: cs))) t || chain_is t (is_ t) (rev (c :: d :: cs))).
    rewrite eqt_plain_flat by auto. rewrite chain_is_plain by (auto using Forall_rev').
    rewrite orb_false_l. apply existsb_rev.
Qed.

Theorem is_join_iff tag es t :
  plain t = true -> Forall (fun e => wf e = true) es ->
  go_is (join tag es) t = existsb (fun e => go_is e t) es.
Proof.
  intros Ht Hw. rewrite go_is_plain by assumption. rewrite is_join_supplied by assumption.
  rewrite <- is_supplied by assumption. apply existsb_ext_in. apply Forall_forall. intros e _.
  symmetry. apply go_is_plain. assumption.
Qed.

(* leaves as targets: errors.Is finds exactly the nodes of the tree — it never invents a match *)
Definition leaf (e : err) : bool := match e with Const _ | Ptr _ | Typed _ _ | TypedU _ _ => true | _ => false end.

(* "n is the target t": Go's == for comparable targets; equal type and contents (the type's Is method) for the
   uncomparable user types, for which == is never used *)
Definition eqv (n t : err) : bool :=
  (comparable t && same n t) ||
  match n, t with TypedU a i, TypedU b j => (a =? b) && (i =? j) | _, _ => false end.

Lemma leaf_plain t : leaf t = true -> plain t = true.
Proof. destruct t; simpl; congruence. Qed.

Lemma const_is_leaf t s : leaf t = true -> comparable t && same (Const s) t || const_is t s = eqv (Const s) t.
Proof.
  intros Ht. unfold const_is, eqv. destruct t; try discriminate; simpl.
  - destruct (s =? 0) eqn:E0; simpl.
    + reflexivity.
    + rewrite (Z.eqb_sym s0 s). rewrite orb_diag, orb_false_r. reflexivity.
  - destruct (s =? 0); reflexivity.
  - destruct (s =? 0); reflexivity.
  - destruct (s =? 0); reflexivity.
Qed.

Theorem is_exactly_nodes t e :
  leaf t = true -> wf e = true -> go_is e t = existsb (fun n => eqv n t) (nodes e).
Proof.
  intros Ht. pose proof (leaf_plain _ Ht) as Hp. rewrite go_is_plain by assumption.
  induction e using err_ind'; intros Hw;
    try (simpl nodes; simpl existsb; unfold eqv; simpl is_; rewrite ?orb_false_r; reflexivity).
  - change (is_ t (Const s)) with (comparable t && same (Const s) t || const_is t s). rewrite const_is_leaf by assumption.
    simpl. rewrite orb_false_r. reflexivity.
  - simpl in Hw. simpl nodes. simpl existsb.
    change (is_ t (Wrap1 g e)) with (comparable t && same (Wrap1 g e) t || (if is_nil e then false else is_ t e)).
    unfold eqv at 1. rewrite orb_false_r. f_equal. destruct (is_nil e) eqn:En.
    + destruct e; try discriminate. destruct t; try discriminate; reflexivity.
    + apply IHe. assumption.
  - change (is_ t (Multi g es)) with (comparable t && same (Multi g es) t || existsb (is_ t) es).
    simpl nodes. simpl existsb. unfold eqv at 1. rewrite orb_false_r. f_equal.
    rewrite existsb_flat_map. apply existsb_ext_in.
    simpl in Hw. rewrite forallb_forall in Hw. rewrite Forall_forall in *. intros x Hx. apply H; auto.
  - change (is_ t (Stk g n es)) with (comparable t && same (Stk g n es) t || chain_is t (is_ t) es).
    simpl nodes. simpl existsb. unfold eqv at 1. rewrite orb_false_r. f_equal.
    simpl in Hw. rewrite forallb_forall in Hw.
    assert (Hpl : Forall (fun c => plain c = true) es).
    { apply Forall_forall. intros x Hx. specialize (Hw x Hx). apply andb_true_iff in Hw. tauto. }
    rewrite chain_is_plain by assumption. rewrite existsb_flat_map. apply existsb_ext_in.
    rewrite Forall_forall in *. intros x Hx. apply H; auto. specialize (Hw x Hx). apply andb_true_iff in Hw. tauto.
Qed.

(* ------------------------------------------------------------------ errors.As *)

Fixpoint first_some {A B} (f : A -> option B) (l : list A) : option B :=
  match l with
  | [] => None
  | x :: r => match f x with Some v => Some v | None => first_some f r end
  end.

Definition is_some {A} (o : option A) : bool := match o with Some _ => true | None => false end.

Lemma first_some_one {A B} (f : A -> option B) x : first_some f [x] = f x.
Proof. simpl. destruct (f x); reflexivity. Qed.

Lemma first_some_app {A B} (f : A -> option B) a b :
  first_some f (a ++ b) = match first_some f a with Some v => Some v | None => first_some f b end.
Proof. induction a; simpl; [reflexivity|]. destruct (f a); auto. Qed.

Lemma first_some_flat_map {A B C} (f : B -> option C) (g : A -> list B) l :
  first_some f (flat_map g l) = first_some (fun x => first_some f (g x)) l.
Proof. induction l; simpl; [reflexivity|]. rewrite first_some_app, IHl. reflexivity. Qed.

Lemma first_some_ext_in {A B} (f g : A -> option B) l :
  Forall (fun x => f x = g x) l -> first_some f l = first_some g l.
Proof. induction 1; simpl; [reflexivity|]. rewrite H, IHForall. reflexivity. Qed.

Lemma is_some_first_some {A B} (f : A -> option B) l : is_some (first_some f l) = existsb (fun x => is_some (f x)) l.
Proof. induction l; simpl; [reflexivity|]. destruct (f a); simpl; auto. Qed.

Lemma as_nil k : as_ k Nil = None.
Proof. destruct k; reflexivity. Qed.

Lemma go_as_as e k : go_as e k = as_ k e.
Proof. unfold go_as. destruct e, k; reflexivity. Qed.

Lemma first_as_spec k l : first_as (as_ k) l = first_some (as_ k) l.
Proof.
  induction l as [|x l IH]; [reflexivity|].
  change (first_as (as_ k) (x :: l)) with
    (if is_nil x then first_as (as_ k) l else match as_ k x with Some v => Some v | None => first_as (as_ k) l end).
  simpl first_some. rewrite IH. destruct x; simpl is_nil; cbv iota; reflexivity.
Qed.

Lemma chain_as_plain f l : Forall (fun c => plain c = true) l -> chain_as f l = first_some f l.
Proof.
  induction 1 as [|x l Hx Hl IH]; [reflexivity|].
  change (chain_as f (x :: l)) with
    (match (if is_nil x then None else f x) with
     | Some v => Some v
     | None => match l with [] => None | y :: _ => if is_nil y then None else chain_as f l end
     end).
  rewrite (plain_not_nil _ Hx). simpl first_some. destruct (f x); [reflexivity|].
  destruct l as [|y l]; [reflexivity|]. inv Hl. rewrite (plain_not_nil y) by assumption. exact IH.
Qed.

Lemma as_constituents k e : wf e = true -> as_ k e = first_some (as_ k) (constituents e).
Proof.
  induction e using err_ind'; intros Hw;
    try (rewrite plain_constituents by reflexivity; symmetry; apply first_some_one).
  - apply as_nil.
  - change (as_ k (Multi g es)) with (if assignable k (Multi g es) then Some (Multi g es) else first_as (as_ k) es).
    replace (assignable k (Multi g es)) with false by (destruct k; reflexivity).
    rewrite first_as_spec. simpl constituents. rewrite first_some_flat_map. apply first_some_ext_in.
    simpl in Hw. rewrite forallb_forall in Hw. rewrite Forall_forall in *. intros x Hx. apply H; auto.
  - change (as_ k (Stk g n es)) with (if assignable k (Stk g n es) then Some (Stk g n es) else chain_as (as_ k) es).
    replace (assignable k (Stk g n es)) with false by (destruct k; reflexivity).
    simpl in Hw. rewrite forallb_forall in Hw.
    assert (Hp : Forall (fun c => plain c = true) es).
    { apply Forall_forall. intros x Hx. specialize (Hw x Hx). apply andb_true_iff in Hw. tauto. }
    rewrite chain_as_plain by assumption. simpl constituents. rewrite flat_map_plain by assumption. reflexivity.
Qed.

(* errors.As on the result of Join: the first success among the constituents, most recent first *)
Theorem as_join tag es k :
  go_as (join tag es) k = first_some (fun c => go_as c k) (rev (supplied es)).
Proof.
  rewrite go_as_as. rewrite (first_some_ext_in (fun c => go_as c k) (as_ k)) by (apply Forall_forall; intros; apply go_as_as).
  rewrite join_spec. pose proof (supplied_plain es) as Hp.
  destruct (supplied es) as [|c [|d cs]] eqn:E.
  - apply as_nil.
  - simpl. destruct (as_ k c); reflexivity.
  - change (as_ k (Stk tag (Z.of_nat (length (c :: d :: cs))) (rev (c :: d :: cs)))) with
      (if assignable k (Stk tag (Z.of_nat (length (c :: d :: cs))) (rev (c :: d :: cs))) then Some (Stk tag (Z.of_nat (length (c :: d :: cs))) (rev (c :: d :: cs))) else chain_as (as_ k) (rev (c :: d :: cs))).
    replace (assignable k (Stk tag (Z.of_nat (length (c :: d :: cs))) (rev (c :: d :: cs)))) with false by (destruct k; reflexivity).
    apply chain_as_plain, Forall_rev'. assumption.
Qed.

(* ... hence it succeeds exactly when it succeeds on one of the operands *)
Theorem as_join_iff tag es k :
  Forall (fun e => wf e = true) es ->
  is_some (go_as (join tag es) k) = existsb (fun e => is_some (go_as e k)) es.
Proof.
  intros Hw. rewrite as_join, is_some_first_some, existsb_rev. unfold supplied. rewrite existsb_flat_map.
  apply existsb_ext_in. eapply Forall_impl; [|exact Hw]. intros e He. simpl.
  rewrite <- is_some_first_some. rewrite (go_as_as e), (as_constituents k e He).
  f_equal. apply first_some_ext_in. apply Forall_forall. intros; apply go_as_as.
Qed.

(* what errors.As stores in the target is a node of the tree, of the requested type *)
Theorem as_genuine k e v : as_ k e = Some v -> assignable k v = true /\ In v (nodes e).
Proof.
  revert v. induction e using err_ind'; intros v.
  - rewrite as_nil. discriminate.
  - simpl. destruct k; simpl; intros Hv; inv Hv; auto.
  - simpl. destruct k; simpl; intros Hv; inv Hv.
  - simpl. destruct k; simpl; [discriminate|]. destruct (t =? ty) eqn:E; intros Hv; inv Hv. simpl. rewrite E. auto.
  - simpl. destruct k; simpl; [discriminate|]. destruct (t =? ty) eqn:E; intros Hv; inv Hv. simpl. rewrite E. auto.
  - change (as_ k (Wrap1 g e)) with (if assignable k (Wrap1 g e) then Some (Wrap1 g e) else if is_nil e then None else as_ k e).
    replace (assignable k (Wrap1 g e)) with false by (destruct k; reflexivity).
    destruct (is_nil e); [discriminate|]. intros Hv. apply IHe in Hv as [H1 H2]. split; [assumption|]. simpl. auto.
  - change (as_ k (Multi g es)) with (if assignable k (Multi g es) then Some (Multi g es) else first_as (as_ k) es).
    replace (assignable k (Multi g es)) with false by (destruct k; reflexivity).
    rewrite first_as_spec. intros Hv. simpl nodes.
    induction H as [|x l Hx _ IH]; simpl in Hv; [discriminate|].
    destruct (as_ k x) eqn:Ex.
    + inv Hv. destruct (Hx v eq_refl) as [H1 H2]. split; [assumption|]. simpl. right. apply in_or_app. auto.
    + apply IH in Hv as [H1 H2]. split; [assumption|]. simpl. right. apply in_or_app. right.
      simpl in H2. destruct H2 as [H2|H2]; [subst v; destruct k; discriminate|assumption].
  - change (as_ k (Stk g n es)) with (if assignable k (Stk g n es) then Some (Stk g n es) else chain_as (as_ k) es).
    replace (assignable k (Stk g n es)) with false by (destruct k; reflexivity).
    intros Hv. simpl nodes.
    induction H as [|x l Hx _ IH]; [discriminate|].
    change (chain_as (as_ k) (x :: l)) with
      (match (if is_nil x then None else as_ k x) with
       | Some v => Some v
       | None => match l with [] => None | y :: _ => if is_nil y then None else chain_as (as_ k) l end
       end) in Hv.
    destruct (if is_nil x then None else as_ k x) eqn:Ex.
    + inv Hv. destruct (is_nil x); [discriminate|]. apply Hx in Ex as [H1 H2]. split; [assumption|].
      simpl. right. apply in_or_app. auto.
    + assert (Hv' : chain_as (as_ k) l = Some v).
      { destruct l as [|y l]; [discriminate|]. destruct (is_nil y); [discriminate|]. exact Hv. }
      apply IH in Hv' as [H1 H2]. split; [assumption|]. simpl. right. apply in_or_app. right.
      simpl in H2. destruct H2 as [H2|H2]; [subst v; destruct k; discriminate|assumption].
Qed.

(* ------------------------------------------------------------------ ParsePanic (known finding #27) *)

(* r != nil *)
Definition panics (p : panicval) : bool :=
  match p with PNil => false | PErr e => negb (is_nil e) | _ => true end.

Definition avoids_error_slice (p : panicval) : bool :=
  match p with PErrs _ => false | _ => true end.

(* the full statement: every recovered panic is marked with ErrRecoveredPanic *)
Definition parse_panic_marked_statement : Prop :=
  forall tag p, panics p = true -> go_is (parse_panic tag p) ErrRecoveredPanic = true.

Lemma is_join_marker tag e : go_is (join tag [e; ErrRecoveredPanic]) ErrRecoveredPanic = true.
Proof.
  rewrite go_is_plain by reflexivity. rewrite is_join_supplied by reflexivity.
  change [e; ErrRecoveredPanic] with ([e] ++ [ErrRecoveredPanic]). rewrite supplied_app, existsb_app.
  apply orb_true_iff. right. reflexivity.
Qed.

Theorem parse_panic_marked tag p :
  panics p = true -> avoids_error_slice p = true -> go_is (parse_panic tag p) ErrRecoveredPanic = true.
Proof.
  destruct p; simpl; intros Hp Ha; try discriminate.
  - destruct (is_nil e); [discriminate|]. apply is_join_marker.
  - apply is_join_marker.
  - apply is_join_marker.
Qed.

(* the code as it is violates the full statement: ParsePanic([]error{e}) is e itself, unmarked *)
Theorem parse_panic_marked_refuted : ~ parse_panic_marked_statement.
Proof.
  intros H. specialize (H 1000 (PErrs [Ptr 100; Ptr 101]) eq_refl). vm_compute in H. discriminate.
Qed.

(* what the []error arm does instead *)
Theorem parse_panic_error_slice tag es : parse_panic tag (PErrs es) = join tag es.
Proof. reflexivity. Qed.

Theorem parse_panic_nil tag p : panics p = false -> parse_panic tag p = Nil.
Proof. destruct p; simpl; try discriminate; [reflexivity|]. destruct (is_nil e); [reflexivity|discriminate]. Qed.

(* ------------------------------------------------------------------ Collector, sequential *)

Theorem collector_holds_exactly tag es :
  let c := coll_adds coll_zero es in
  coll_len c = Z.of_nat (length (supplied es))
  /\ (coll_resolve tag c = Nil <-> supplied es = [])
  /\ unwind (coll_resolve tag c) = rev (supplied es)
  /\ (forall t, plain t = true -> Forall (fun e => wf e = true) es ->
        go_is (coll_resolve tag c) t = existsb (fun e => go_is e t) es).
Proof.
  cbv zeta. rewrite coll_adds_zero. unfold coll_resolve, coll_len, stack_len. simpl s_count. simpl s_chain.
  pose proof (supplied_plain es) as Hp.
  split; [reflexivity|]. destruct (supplied es) as [|c cs] eqn:E.
  - simpl. split; [tauto|]. split; [reflexivity|]. intros t Ht Hw.
    rewrite (existsb_ext_in _ (is_ t)) by (apply Forall_forall; intros; apply go_is_plain; assumption).
    rewrite is_supplied, E by assumption. destruct t; try discriminate; reflexivity.
  - replace (Z.of_nat (length (c :: cs)) =? 0) with false by (simpl length; lia).
    split; [split; discriminate|]. split; [apply unwind_stk_plain, Forall_rev'; assumption|].
    intros t Ht Hw. rewrite go_is_plain by assumption.
    rewrite (existsb_ext_in _ (is_ t)) by (apply Forall_forall; intros; apply go_is_plain; assumption).
    rewrite is_supplied, E by assumption.
    change (is_ t (Stk tag (Z.of_nat (length (c :: cs))) (rev (c :: cs)))) with (comparable t && same (Stk tag (Z.of_nat (length (c :: cs))) (rev (c :: cs))) t || chain_is t (is_ t) (rev (c :: cs))).
    rewrite eqt_plain_flat by auto. rewrite chain_is_plain by (auto using Forall_rev'). rewrite orb_false_l. apply existsb_rev.
Qed.

(* when only nils and plain errors are added: Len is the number of non-nil Adds, Resolve is nil iff there was none *)
Lemma supplied_plain_or_nil es :
  Forall (fun e => is_nil e = true \/ plain e = true) es -> supplied es = filter (fun e => negb (is_nil e)) es.
Proof.
  unfold supplied. induction 1 as [|e es He _ IH]; simpl; [reflexivity|]. rewrite IH. destruct He as [He|He].
  - destruct e; try discriminate. reflexivity.
  - rewrite plain_constituents, (plain_not_nil _ He) by assumption. reflexivity.
Qed.

Corollary collector_counts_non_nil tag es :
  Forall (fun e => is_nil e = true \/ plain e = true) es ->
  let c := coll_adds coll_zero es in
  coll_len c = Z.of_nat (length (filter (fun e => negb (is_nil e)) es))
  /\ (coll_resolve tag c = Nil <-> Forall (fun e => e = Nil) es)
  /\ unwind (coll_resolve tag c) = rev (filter (fun e => negb (is_nil e)) es).
Proof.
  intros H. destruct (collector_holds_exactly tag es) as (H1 & H2 & H3 & _). cbv zeta in *.
  rewrite (supplied_plain_or_nil es H) in *. split; [assumption|]. split; [|assumption].
  rewrite H2. clear. induction es as [|e es IH]; simpl; [split; constructor|].
  destruct e; simpl; split; intros H; try discriminate; try (inv H; discriminate).
  - constructor; [reflexivity|]. apply IH. assumption.
  - inv H. apply IH. assumption.
Qed.

(* ------------------------------------------------------------------ Ok / Wrap / RemoveOk / inner layers *)

(* Wrap returns nil exactly for an operand that reports Ok, and such an operand holds nothing *)
Theorem wrap_nil_iff tag ann e : wrap tag ann e = Nil <-> ok e = true.
Proof.
  unfold wrap. destruct (ok e) eqn:E; split; intros H; try reflexivity; try discriminate.
  exfalso. apply (join_not_nil tag [e; Ptr ann] (Ptr ann)); [simpl; auto|reflexivity|assumption].
Qed.

(* an operand that still holds constituents is never dropped: the result is non-nil and Unwind lists the
   annotation and then every constituent of the operand, most recent first *)
Theorem wrap_keeps tag ann e :
  constituents e <> [] ->
  wrap tag ann e <> Nil /\ unwind (wrap tag ann e) = Ptr ann :: rev (constituents e).
Proof.
  intros H. assert (Hok : ok e = false).
  { destruct (ok e) eqn:E; [apply ok_no_constituents in E; contradiction|reflexivity]. }
  split; [intros Hn; apply wrap_nil_iff in Hn; congruence|].
  unfold wrap. rewrite Hok. assert (Hs : supplied [e; Ptr ann] = constituents e ++ [Ptr ann]).
  { unfold supplied. simpl. reflexivity. }
  rewrite unwind_join; rewrite Hs.
  - rewrite rev_app_distr. reflexivity.
  - rewrite app_length. simpl. destruct (constituents e); [contradiction|simpl; lia].
Qed.

Theorem wrap_is tag ann e t :
  plain t = true -> wf e = true -> ok e = false ->
  go_is (wrap tag ann e) t = go_is e t || same (Ptr ann) t.
Proof.
  intros Ht Hw Hok. unfold wrap. rewrite Hok. rewrite is_join_iff by (repeat constructor; assumption).
  simpl. rewrite orb_false_r. f_equal. rewrite go_is_plain by assumption. destruct t; try discriminate; simpl; rewrite ?orb_false_r; reflexivity.
Qed.

(* RemoveOk / Append drop only operands that hold nothing: joining what they keep is joining everything *)
Theorem join_remove_ok tag es : join tag (remove_ok es) = join tag es.
Proof. rewrite !join_spec, supplied_remove_ok. reflexivity. Qed.

Theorem remove_ok_keeps es e : In e es -> constituents e <> [] -> In e (remove_ok es).
Proof.
  intros Hi Hc. apply filter_In. split; [assumption|]. unfold is_error.
  destruct (ok e) eqn:E; [apply ok_no_constituents in E; contradiction|reflexivity].
Qed.

(* the inner layer of an aggregate (errors.Unwrap of a stack of >= 2 errors): its count is 0, yet it is not Ok,
   it holds everything but the most recent constituent, and Wrap / Join of it lose nothing *)
Theorem inner_layer_kept tag g n es :
  wf (Stk g n es) = true -> (2 <= length es)%nat ->
  let inner := unwrap1 tag (Stk g n es) in
  value_len inner = 0 /\ ok inner = false /\ unwind inner = tl es /\ supplied [inner] = tl es
  /\ (forall tag' ann, wrap tag' ann inner <> Nil /\ unwind (wrap tag' ann inner) = Ptr ann :: rev (tl es))
  /\ (forall tag', join tag' [inner] <> Nil).
Proof.
  intros Hw Hl. cbv zeta. destruct (unwrap1_stack tag g n es Hw Hl) as [Hu Hc]. rewrite Hu in *.
  assert (Hne : tl es <> []) by (destruct es as [|x [|y r]]; simpl in *; try lia; discriminate).
  assert (Hp : Forall (fun c => plain c = true) (tl es)).
  { rewrite <- Hc. apply constituents_plain. }
  split; [reflexivity|]. split.
  { simpl. destruct (tl es); [contradiction|]. unfold chain_ok. rewrite andb_false_r. reflexivity. }
  split; [apply unwind_stk_plain; assumption|].
  split; [unfold supplied; simpl flat_map; rewrite app_nil_r; exact Hc|].
  split.
  - intros tag' ann. destruct (wrap_keeps tag' ann (Stk tag 0 (tl es))) as [A B]; [rewrite Hc; assumption|].
    rewrite Hc in B. split; assumption.
  - intros tag' Hn. apply join_nil_iff in Hn.
    assert (Hs : supplied [Stk tag 0 (tl es)] = tl es) by (unfold supplied; simpl flat_map; rewrite app_nil_r; exact Hc).
    rewrite Hs in Hn. contradiction.
Qed.

(* ------------------------------------------------------------------ FilterExclude, erc.Consume / Stream *)

Theorem filter_exclude_result excl e : filter_exclude excl e = Nil \/ filter_exclude excl e = e.
Proof. unfold filter_exclude. destruct excl; auto. destruct (ok e || ers_is e (e0 :: excl)); auto. Qed.

Theorem filter_exclude_keeps excl e : ok e = false -> ers_is e excl = false -> filter_exclude excl e = e.
Proof. unfold filter_exclude. intros -> ->. destruct excl; reflexivity. Qed.

(* the subtlety: the filter is all-or-nothing — one excluded constituent drops the whole aggregate, and with it
   every other error the aggregate holds *)
Theorem filter_exclude_aggregate tag es t :
  plain t = true -> Forall (fun e => wf e = true) es -> existsb (fun e => go_is e t) es = true ->
  filter_exclude [t] (join tag es) = Nil.
Proof.
  intros Ht Hw Hex. unfold filter_exclude. destruct (ok (join tag es)) eqn:Eo; [reflexivity|].
  unfold ers_is. simpl existsb. rewrite is_join_iff, Hex by assumption.
  destruct (join tag es); try reflexivity. discriminate.
Qed.

(* Consume / Stream: the collector ends up holding exactly what was added before, what the stream delivered,
   what the iterator carried (AddError, failing source) and — when the loop was cancelled — the context error *)
Theorem consume_holds_exactly tag adds pre steps cancelled :
  let c := consume (coll_adds coll_zero adds) pre steps cancelled in
  let held := supplied adds ++ consumed pre steps cancelled in
  coll_len c = Z.of_nat (length held)
  /\ (coll_resolve tag c = Nil <-> held = [])
  /\ unwind (coll_resolve tag c) = rev held
  /\ (forall t, plain t = true -> Forall (fun e => wf e = true) held ->
        go_is (coll_resolve tag c) t = existsb (fun e => go_is e t) held).
Proof.
  cbv zeta. set (held := supplied adds ++ consumed pre steps cancelled).
  assert (Hp : Forall (fun c => plain c = true) held).
  { apply Forall_app. split; [apply supplied_plain|apply consumed_plain]. }
  assert (Hs : supplied held = held) by (apply flat_map_plain; assumption).
  assert (Hc : consume (coll_adds coll_zero adds) pre steps cancelled = coll_adds coll_zero held).
  { rewrite consume_spec, !coll_adds_spec, Hs, pushed_app. reflexivity. }
  rewrite Hc. pose proof (collector_holds_exactly tag held) as H. cbv zeta in H. rewrite Hs in H. exact H.
Qed.

(* never loses: everything supplied is held ... *)
Theorem consume_never_loses adds pre steps cancelled d f cn x c :
  observe_spec steps cancelled = (d, f, cn) ->
  In x adds \/ In x pre \/ In x d \/ In x f -> In c (constituents x) ->
  In c (supplied adds ++ consumed pre steps cancelled).
Proof.
  intros E Hx Hc. unfold consumed. rewrite E. unfold supplied. rewrite !in_app_iff, !in_flat_map.
  destruct Hx as [Hx|[Hx|[Hx|Hx]]].
  - left. eauto.
  - right. right. right. exists x. split; [apply in_or_app; auto|assumption].
  - right. left. eauto.
  - right. right. right. exists x. split; [apply in_or_app; auto|assumption].
Qed.

(* ... never invents: everything held was supplied, or is the context error of a cancelled loop *)
Theorem consume_never_invents adds pre steps cancelled d f cn c :
  observe_spec steps cancelled = (d, f, cn) ->
  In c (supplied adds ++ consumed pre steps cancelled) ->
  (cn = true /\ c = ctx_canceled) \/ exists x, (In x adds \/ In x pre \/ In x d \/ In x f) /\ In c (constituents x).
Proof.
  intros E. unfold consumed. rewrite E. unfold supplied. rewrite !in_app_iff, !in_flat_map.
  intros [(x & H1 & H2)|[(x & H1 & H2)|[H|(x & H1 & H2)]]].
  - right. eauto.
  - right. exists x. auto.
  - destruct cn; [|destruct H]. destruct H as [H|[]]. left. auto.
  - right. exists x. apply in_app_or in H1. split; [tauto|assumption].
Qed.

Example ex_consume :
  (* two iterator errors, one delivered item, then the context is cancelled: nothing is lost *)
  let c := consume (coll_adds coll_zero [Const 2]) [Const 3; Typed 1 210] [(0, Ptr 100); (2, Ptr 101); (0, Ptr 102)] false in
  unwind (coll_resolve 9 c) = [Typed 1 210; Const 3; ctx_canceled; Ptr 101; Ptr 100; Const 2]
  /\ filter_exclude [ctx_canceled] (join 1 [join 2 [Const 3; Typed 1 210]; ctx_canceled]) = Nil.
Proof. vm_compute. split; reflexivity. Qed.

Example ex_uncomparable :
  let u := TypedU 4 240 in let r := join 1 [u; Const 2] in
  go_is r (TypedU 4 240) = true /\ go_is r (TypedU 4 241) = false /\ go_is r (TypedU 5 240) = false
  /\ go_as r (KTyped 4) = Some u.
Proof. vm_compute. repeat split. Qed.

(* ------------------------------------------------------------------ programs *)

(* the statements above for operands that are arbitrary programs: their values are well-formed *)
Theorem is_join_iff_programs tag xs t :
  plain t = true ->
  go_is (eval (XJoin tag xs)) t = existsb (fun x => go_is (eval x) t) xs.
Proof.
  intros Ht. simpl eval. rewrite is_join_iff; [|assumption|].
  - induction xs; simpl; congruence.
  - apply Forall_map_eval. apply Forall_forall. intros x _. apply wf_eval.
Qed.

Theorem as_join_iff_programs tag xs k :
  is_some (go_as (eval (XJoin tag xs)) k) = existsb (fun x => is_some (go_as (eval x) k)) xs.
Proof.
  simpl eval. rewrite as_join_iff.
  - induction xs; simpl; congruence.
  - apply Forall_map_eval. apply Forall_forall. intros x _. apply wf_eval.
Qed.

(* ------------------------------------------------------------------ non-vacuity *)

Example ex_nested :
  let a := Const 2 in let b := Ptr 100 in let c := Typed 1 210 in let w := Wrap1 7 (Const 3) in
  let inner := join 1 [a; Nil; b] in
  let m := Multi 2 [c; Nil; w] in
  let r := join 3 [Nil; inner; m; Stk 4 0 []] in
  r = Stk 3 4 [w; c; a; b]
  /\ unwind r = [w; c; a; b]
  /\ go_is r (Const 3) = true /\ go_is r (Const 4) = false /\ go_is r b = true
  /\ go_as r (KTyped 1) = Some c /\ go_as r (KTyped 2) = None /\ go_as r KConst = Some (Const 3)
  /\ wf r = true.
Proof. vm_compute. repeat split. Qed.

Example ex_single : join 9 [Nil; Multi 1 [Nil; Stk 2 1 [Wrap1 3 (Ptr 5)]]; Nil] = Wrap1 3 (Ptr 5).
Proof. reflexivity. Qed.

Example ex_nil : join 9 [Nil; Multi 1 [Nil; Stk 2 0 []]; Stk 3 0 []] = Nil.
Proof. reflexivity. Qed.

Example ex_panic_marked :
  panics (PErr (Ptr 100)) = true /\ avoids_error_slice (PErr (Ptr 100)) = true
  /\ parse_panic 1 (PErr (Ptr 100)) = Stk 1 2 [ErrRecoveredPanic; Ptr 100].
Proof. repeat split. Qed.

Example ex_collector :
  let c := coll_adds coll_zero [Ptr 100; Nil; Multi 1 [Const 2; Const 3]; Wrap1 2 (Const 4)] in
  coll_len c = 4 /\ unwind (coll_resolve 5 c) = [Wrap1 2 (Const 4); Const 3; Const 2; Ptr 100].
Proof. vm_compute. repeat split. Qed.

Example ex_inner_layer :
  let st := join 1 [Const 2; Ptr 100; Typed 1 210] in
  let inner := unwrap1 5 st in
  st = Stk 1 3 [Typed 1 210; Ptr 100; Const 2]
  /\ inner = Stk 5 0 [Ptr 100; Const 2] /\ ok inner = false
  /\ wrap 6 7 inner = Stk 6 3 [Ptr 7; Const 2; Ptr 100]
  /\ unwrap1 8 inner = Stk 8 0 [Const 2] /\ unwrap1 9 (unwrap1 8 inner) = Nil
  /\ join 9 (remove_ok [Nil; inner; Stk 3 0 []]) = Stk 9 2 [Const 2; Ptr 100].
Proof. vm_compute. repeat split. Qed.

Example ex_wf_needed :
  (* why is_join_iff asks for well-formed operands: a chain with a nil in the middle cannot be built by the API *)
  let bad := Stk 1 3 [Const 2; Nil; Const 3] in
  wf bad = false /\ go_is bad (Const 3) = false /\ go_is (join 2 [bad; Ptr 100]) (Const 3) = true.
Proof. vm_compute. repeat split. Qed.
