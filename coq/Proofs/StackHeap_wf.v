(* Well-formedness of the dt.Stack heap model and the basic chain / frame lemmas. *)
From FunV Require Import Base.Tac Model.StackHeap Proofs.StackHeap_ref.
Local Open Scope Z_scope.

(* ------------------------------------------------------------------ small facts *)

Lemma upd_same {A} (f : nat -> A) k v : upd f k v k = v.
Proof. unfold upd. now rewrite Nat.eqb_refl. Qed.

Lemma upd_other {A} (f : nat -> A) k v x : x <> k -> upd f k v x = f x.
Proof. unfold upd. intros H. destruct (Nat.eqb_spec x k); congruence. Qed.

Lemma onat_eqb_spec a b : reflect (a = b) (onat_eqb a b).
Proof.
  destruct a as [x|], b as [y|]; simpl; try (constructor; congruence).
  destruct (Nat.eqb_spec x y); constructor; congruence.
Qed.

Lemma onat_eqb_refl a : onat_eqb a a = true.
Proof. destruct (onat_eqb_spec a a); congruence. Qed.

(* unfold every field write down to `upd`, then decide the index comparisons *)
Ltac heap_unfold :=
  unfold set_next, set_stack, set_ok, set_value, set_head, set_len, set_item, set_srec,
         make_item, alloc_item, alloc_stack in *; simpl in *.

Ltac upd_cases :=
  repeat match goal with
         | |- context [upd _ ?k _ ?x] =>
             first [ rewrite upd_same
                   | rewrite (upd_other _ k _ x) by (first [assumption | congruence | lia])
                   | let E := fresh "E" in unfold upd at 1; destruct (Nat.eqb_spec x k) as [E|E]; [try subst|] ]
         | H : context [upd _ ?k _ ?x] |- _ =>
             first [ rewrite upd_same in H
                   | rewrite (upd_other _ k _ x) in H by (first [assumption | congruence | lia]) ]
         end.

(* ------------------------------------------------------------------ chains *)

(* h is the first of the items l, linked by next, and after the last one comes e *)
Fixpoint chain (w : world) (h : nat) (l : list nat) (e : nat) : Prop :=
  match l with
  | [] => h = e
  | x :: l' => h = x /\ exists nx, inext (items w x) = Some nx /\ chain w nx l' e
  end.

Lemma chain_frame w w' h l e :
  (forall x, In x l -> inext (items w' x) = inext (items w x)) ->
  chain w h l e -> chain w' h l e.
Proof.
  revert h. induction l as [|x l IH]; simpl; intros h F C; [exact C|].
  destruct C as (-> & nx & N & C). split; [reflexivity|]. exists nx. split.
  - rewrite F by (left; reflexivity). exact N.
  - apply IH; [intros y Hy; apply F; right; exact Hy|exact C].
Qed.

Lemma chain_app w h l1 l2 e :
  chain w h (l1 ++ l2) e <-> exists m, chain w h l1 m /\ chain w m l2 e.
Proof.
  revert h. induction l1 as [|x l1 IH]; simpl; intros h.
  - split; [intros C; exists h; split; [reflexivity|exact C]|intros (m & -> & C); exact C].
  - split.
    + intros (-> & nx & N & C). apply IH in C. destruct C as (m & C1 & C2).
      exists m. split; [split; [reflexivity|exists nx; split; assumption]|assumption].
    + intros (m & (-> & nx & N & C1) & C2). split; [reflexivity|]. exists nx. split; [exact N|].
      apply IH. exists m. split; assumption.
Qed.

Lemma chain_fun w h l e e' : chain w h l e -> chain w h l e' -> e = e'.
Proof.
  revert h. induction l as [|x l IH]; simpl; intros h C1 C2; [congruence|].
  destruct C1 as (_ & nx & N & C1), C2 as (_ & nx' & N' & C2).
  rewrite N in N'. inv N'. eapply IH; eassumption.
Qed.

Lemma chain_hd w h l e : chain w h l e -> Some h = match l with x :: _ => Some x | [] => Some e end.
Proof. destruct l; simpl; [intros ->; reflexivity|intros (-> & _); reflexivity]. Qed.

Lemma chain_next w h l e x :
  chain w h l e -> NoDup l -> In x l -> inext (items w x) = succ_in x l (Some e).
Proof.
  revert h. induction l as [|y l IH]; simpl; intros h C ND I; [contradiction|].
  destruct C as (-> & nx & N & C). inv ND.
  destruct (Nat.eqb_spec x y) as [->|NE].
  - rewrite N. apply chain_hd in C. destruct l; congruence.
  - destruct I as [->|I]; [congruence|]. eapply IH; eassumption.
Qed.

(* ------------------------------------------------------------------ well-formedness
   ch s = the items of stack s (top first), sn s = its sentinel once it has been initialised. *)

Record WF (w : world) (ch : nat -> list nat) (sn : nat -> option nat) : Prop := {
  wf_uninit : forall s, shead (stacks w s) = None -> ch s = [] /\ sn s = None;
  wf_chain : forall s h, shead (stacks w s) = Some h -> exists e, sn s = Some e /\ chain w h (ch s) e;
  wf_len : forall s, slen (stacks w s) = Z.of_nat (length (ch s));
  wf_nodup : forall s, NoDup (ch s);
  wf_member : forall s x, In x (ch s) -> istack (items w x) = Some s /\ iok (items w x) = true;
  wf_sentinel : forall s e, sn s = Some e ->
      istack (items w e) = Some s /\ iok (items w e) = false /\ inext (items w e) = None;
  wf_owner : forall x s, istack (items w x) = Some s ->
      if iok (items w x) then In x (ch s) else sn s = Some x;
  wf_ifresh : forall x, (ifresh w <= x)%nat -> istack (items w x) = None;
  wf_next_lt : forall x y, (x < ifresh w)%nat -> inext (items w x) = Some y -> (y < ifresh w)%nat;
  wf_sfresh : forall x s, istack (items w x) = Some s -> (s < sfresh w)%nat;
  wf_shead_fresh : forall s, (sfresh w <= s)%nat -> shead (stacks w s) = None;
}.

Definition WFs (w : world) : Prop := exists ch sn, WF w ch sn.

Section WFfacts.
Variables (w : world) (ch : nat -> list nat) (sn : nat -> option nat).
Hypothesis H : WF w ch sn.

Lemma wf_item_lt x s : istack (items w x) = Some s -> (x < ifresh w)%nat.
Proof.
  intros E. destruct (Nat.lt_ge_cases x (ifresh w)) as [L|G]; [exact L|].
  apply (wf_ifresh _ _ _ H) in G. congruence.
Qed.

Lemma wf_member_lt s x : In x (ch s) -> (x < ifresh w)%nat.
Proof. intros I. apply (wf_member _ _ _ H) in I. destruct I as (E & _). eapply wf_item_lt; eassumption. Qed.

Lemma wf_sn_init s e : sn s = Some e -> exists h, shead (stacks w s) = Some h.
Proof.
  intros E. destruct (shead (stacks w s)) as [h|] eqn:Hd; [eauto|].
  apply (wf_uninit _ _ _ H) in Hd. destruct Hd. congruence.
Qed.

Lemma wf_sn_of_head s h : shead (stacks w s) = Some h -> exists e, sn s = Some e.
Proof. intros E. destruct (wf_chain _ _ _ H _ _ E) as (e & E1 & _). eauto. Qed.

Lemma wf_sentinel_notin s e : sn s = Some e -> forall t, ~ In e (ch t).
Proof.
  intros E t I. apply (wf_member _ _ _ H) in I. apply (wf_sentinel _ _ _ H) in E.
  destruct I as (_ & I), E as (_ & E & _). congruence.
Qed.

Lemma wf_disjoint s t x : In x (ch s) -> In x (ch t) -> s = t.
Proof.
  intros I1 I2. apply (wf_member _ _ _ H) in I1. apply (wf_member _ _ _ H) in I2.
  destruct I1 as (E1 & _), I2 as (E2 & _). congruence.
Qed.

Lemma wf_head_top s h : shead (stacks w s) = Some h ->
  Some h = match ch s with x :: _ => Some x | [] => sn s end.
Proof.
  intros E. destruct (wf_chain _ _ _ H _ _ E) as (e & E1 & C). apply chain_hd in C.
  destruct (ch s); congruence.
Qed.

Lemma wf_len_le s : (length (ch s) <= ifresh w)%nat.
Proof.
  rewrite <- (seq_length (ifresh w) 0). apply NoDup_incl_length; [apply (wf_nodup _ _ _ H)|].
  intros x I. apply in_seq. split; [lia|]. simpl. eapply wf_member_lt; eassumption.
Qed.

Lemma wf_stack_lt s h : shead (stacks w s) = Some h -> (s < sfresh w)%nat.
Proof.
  intros E. destruct (Nat.lt_ge_cases s (sfresh w)) as [L|G]; [exact L|].
  apply (wf_shead_fresh _ _ _ H) in G. congruence.
Qed.

(* the owner field says exactly which list / sentinel an item is *)
Lemma wf_owner_iff x s :
  istack (items w x) = Some s <-> (In x (ch s) \/ sn s = Some x).
Proof.
  split.
  - intros E. pose proof (wf_owner _ _ _ H _ _ E) as O. destruct (iok (items w x)); auto.
  - intros [I|E]; [apply (wf_member _ _ _ H) in I; tauto|apply (wf_sentinel _ _ _ H) in E; tauto].
Qed.

End WFfacts.

(* ------------------------------------------------------------------ walking a chain *)

Lemma walk_from_chain w h l e fuel :
  chain w h l e -> (forall x, In x l -> iok (items w x) = true) -> iok (items w e) = false ->
  (length l < fuel)%nat ->
  walk_from fuel w (Some h) = Ok (map (fun x => ivalue (items w x)) l).
Proof.
  revert h fuel. induction l as [|x l IH]; simpl; intros h fuel C OKs E F.
  - subst h. destruct fuel; [lia|]. simpl. rewrite E. reflexivity.
  - destruct C as (-> & nx & N & C). destruct fuel; [lia|]. simpl.
    rewrite OKs by (left; reflexivity). simpl. rewrite N.
    rewrite (IH nx fuel C) by (auto; lia). reflexivity.
Qed.

Lemma walk_bounded_chain w h l e n :
  chain w h l e -> (forall x, In x l -> iok (items w x) = true) -> iok (items w e) = false ->
  (length l <= n)%nat ->
  walk_bounded n w (Some h) = map (fun x => ivalue (items w x)) l.
Proof.
  revert h n. induction l as [|x l IH]; simpl; intros h n C OKs E F.
  - subst h. destruct n; [reflexivity|]. simpl. rewrite E. reflexivity.
  - destruct C as (-> & nx & N & C). destruct n; [lia|]. simpl.
    rewrite OKs by (left; reflexivity). simpl. rewrite N.
    rewrite (IH nx n C) by (auto; lia). reflexivity.
Qed.

Lemma walk_bounded_none n w : walk_bounded n w None = [].
Proof. destruct n; reflexivity. Qed.
