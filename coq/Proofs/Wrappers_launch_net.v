(* C15 — Operation.Limit (CAS), Signal/Launch, Worker.Signal/Launch and StartGroup nets: invariants over every reachable state. *)
From FunV Require Import Base.Tac Model.LaunchNet Proofs.Wrappers_lock Proofs.Wrappers_once_net Proofs.Wrappers_limit_net.
Local Open Scope Z_scope.

Lemma steps_reach {S L} (step : S -> L -> option S) (P : S -> Prop) :
  (forall s l s', P s -> step s l = Some s' -> P s') ->
  forall ls s s', P s -> steps step s ls = Some s' -> P s'.
Proof.
  intros Hs. induction ls as [|l ls IH]; intros s s' Hp H; simpl in H; [now inv H|].
  destruct (step s l) eqn:E; [|discriminate]. eapply IH; [|exact H]. eapply Hs; eauto.
Qed.

(* ================================================================== Operation.Limit: CAS retry loop *)
Section CasNet.
Variable n : Z.
Hypothesis Hn : 0 < n.

Definition cthread_ok (s : cstate) (t : Z) : Prop :=
  match c_pc s t with
  | CIdle | CDone _ => ~ In t (c_active s) /\ ~ In t (c_running s)
  | CEntry => In t (c_active s) /\ ~ In t (c_running s)
  | CLoaded cur => In t (c_active s) /\ ~ In t (c_running s) /\ 0 <= cur <= c_counter s /\ cur < n
  | CRunning => In t (c_active s) /\ In t (c_running s)
  end.

Record cinv (s : cstate) : Prop := {
  ci_cnt : 0 <= c_counter s <= n;
  ci_thr : forall t, cthread_ok s t;
  ci_nodup : NoDup (c_active s);
  ci_nodup_r : NoDup (c_running s);
  ci_runs : Z.of_nat (c_runs s) = c_counter s;
  ci_calls : c_calls s = (c_rets_ran s + c_rets_skipped s + length (c_active s))%nat;
  ci_ran : (c_rets_ran s + length (c_running s) = c_runs s)%nat;
  ci_skipped : (0 < c_rets_skipped s)%nat -> c_counter s = n
}.

Lemma cinv_init : cinv cinit.
Proof.
  constructor; simpl; try lia.
  - intros t. unfold cthread_ok. simpl. tauto.
  - constructor.
  - constructor.
Qed.

Ltac cothers Ithr x :=
  let Hx := fresh "Hx" in
  pose proof (Ithr x) as Hx; unfold cthread_ok in Hx |- *; simpl in *;
  destruct (c_pc _ x) eqn:?; rewrite ?remove1_in; simpl; intuition (try congruence; try lia).

(* the invariant is the one of the code as written: with the retry *)
Lemma cinv_step s l s' : cinv s -> cstep_exec true n s l = Some s' -> cinv s'.
Proof.
  intros I H. pose proof I as [Icnt Ithr Ind Indr Iruns Icalls Iran Iskip].
  destruct l as [t|t|t|t]; simpl in H;
    pose proof (Ithr t) as Ht; unfold cthread_ok in Ht;
    destruct (c_pc s t) eqn:Pt; try discriminate.
  - (* call *)
    inv H. destruct Ht as [Ha Hr]. constructor; simpl; auto; try lia.
    + intros x. unfold cthread_ok. simpl. upd_cases x t; [simpl; tauto|]. cothers Ithr x.
    + constructor; assumption.
  - (* load *)
    destruct Ht as [Ha Hr]. destruct (c_counter s <? n) eqn:Cn; inv H.
    + apply Z.ltb_lt in Cn. constructor; simpl; auto; try lia.
      intros x. unfold cthread_ok. simpl. upd_cases x t; [simpl; intuition lia|]. cothers Ithr x.
    + apply Z.ltb_ge in Cn. constructor; simpl; auto; try lia.
      * intros x. unfold cthread_ok. simpl. upd_cases x t; [simpl; rewrite remove1_in; tauto|]. cothers Ithr x.
      * now apply remove1_nodup.
      * pose proof (remove1_length t (c_active s) Ind Ha). lia.
  - (* compare-and-swap *)
    destruct Ht as (Ha & Hr & Hcur & Hlt). destruct (c_counter s =? cur) eqn:Ce; inv H.
    + apply Z.eqb_eq in Ce. subst cur. constructor; simpl; auto; try lia.
      * intros x. unfold cthread_ok. simpl. upd_cases x t; [simpl; tauto|]. cothers Ithr x.
      * constructor; assumption.
    + (* lost the race: re-read *)
      constructor; simpl; auto; try lia.
      intros x. unfold cthread_ok. simpl. upd_cases x t; [simpl; tauto|]. cothers Ithr x.
  - (* the operation returned *)
    inv H. destruct Ht as [Ha Hr].
    constructor; simpl; auto; try lia.
    + intros x. unfold cthread_ok. simpl. upd_cases x t; [simpl; rewrite !remove1_in; tauto|]. cothers Ithr x.
    + now apply remove1_nodup.
    + now apply remove1_nodup.
    + pose proof (remove1_length t (c_active s) Ind Ha). lia.
    + pose proof (remove1_length t (c_running s) Indr Hr). lia.
Qed.

Lemma cinv_reach s : creach true n s -> cinv s.
Proof. induction 1; eauto using cinv_init, cinv_step. Qed.

(* Operation.Limit(n) with its Load / CompareAndSwap retry loop: never more than n executions are started, and when no
   call is in progress exactly min(n, calls) were *)
Theorem limit_cas_net_proof s : creach true n s ->
  Z.of_nat (c_runs s) <= n /\ (c_active s = [] -> Z.of_nat (c_runs s) = Z.min n (Z.of_nat (c_calls s))).
Proof.
  intros Hr. apply cinv_reach in Hr. destruct Hr as [Icnt Ithr Ind Indr Iruns Icalls Iran Iskip].
  split; [lia|]. intros Q.
  assert (R : c_running s = []).
  { destruct (c_running s) as [|h r] eqn:E; [reflexivity|]. exfalso.
    pose proof (Ithr h) as Hh. unfold cthread_ok in Hh. rewrite Q, E in Hh. simpl in Hh.
    destruct (c_pc s h); intuition. }
  rewrite R in Iran. rewrite Q in Icalls. simpl in *.
  destruct (c_rets_skipped s) eqn:RS; [lia|]. assert (c_counter s = n) by (apply Iskip; lia). lia.
Qed.
End CasNet.

(* without the retry (`current < n && CAS(current, current+1)`) the property is false: two callers load 0, one wins the
   CAS, the other is turned away although the limit 2 has not been reached *)
Definition cas_noretry_labels : list clabel := [CCall 1; CCall 2; CLoad 1; CLoad 2; CCas 1; CCas 2; CEnd 1].
Definition cas_noretry_state : cstate :=
  match steps (cstep_exec false 2) cinit cas_noretry_labels with Some s => s | None => cinit end.

Lemma creach_steps_gen retry n ls : forall s s', creach retry n s -> steps (cstep_exec retry n) s ls = Some s' -> creach retry n s'.
Proof.
  induction ls as [|l ls IH]; intros s s' Hr H; simpl in H; [now inv H|].
  destruct (cstep_exec retry n s l) eqn:E; [|discriminate]. eapply IH; [|exact H]. eapply creach_step; eauto.
Qed.

Theorem limit_cas_noretry_refuted :
  creach false 2 cas_noretry_state /\ c_active cas_noretry_state = [] /\
  c_calls cas_noretry_state = 2%nat /\ c_runs cas_noretry_state = 1%nat.
Proof.
  split.
  - apply (creach_steps_gen false 2 cas_noretry_labels cinit); [apply creach_init|]. vm_compute. reflexivity.
  - repeat split; vm_compute; reflexivity.
Qed.

(* ================================================================== Operation.Signal / Operation.Launch *)
Record sinv (s : sstate) : Prop := {
  si_closed : s_closed s = true <-> s_bg s = BClosed;
  si_sig : forall t, s_pc s t = WReturned false -> s_closed s = true;
  si_ctx : forall t, s_pc s t = WReturned true -> s_cancelled s t = true
}.

Lemma sinv_init : sinv sinit.
Proof. constructor; simpl; try discriminate. split; discriminate. Qed.

Lemma sinv_step s l s' : sinv s -> sstep_exec true s l = Some s' -> sinv s'.
Proof.
  intros [Icl Isig Ictx] H. destruct l as [| | |t|t|t|t]; simpl in H.
  - destruct (s_bg s) eqn:B; inv H. constructor; simpl; auto. rewrite Icl. split; discriminate.
  - destruct (s_bg s) eqn:B; inv H. constructor; simpl; auto. rewrite Icl. split; discriminate.
  - destruct (s_bg s) eqn:B; inv H. constructor; simpl; auto. tauto.
  - destruct (s_pc s t) eqn:P; inv H. constructor; simpl; auto.
    + intros x Hx. upd_cases x t; [discriminate|eauto].
    + intros x Hx. upd_cases x t; [discriminate|eauto].
  - destruct (s_pc s t) eqn:P; try discriminate. rewrite orb_false_r in H. destruct (s_closed s) eqn:C; inv H.
    constructor; simpl; auto.
    intros x Hx. upd_cases x t; [discriminate|eauto].
  - destruct (s_pc s t) eqn:P; try discriminate. destruct (s_cancelled s t) eqn:C; inv H.
    constructor; simpl; auto.
    + intros x Hx. upd_cases x t; [discriminate|eauto].
    + intros x Hx. upd_cases x t; [assumption|eauto].
  - inv H. constructor; simpl; auto.
    intros x Hx. upd_cases x t; [reflexivity|eauto].
Qed.

Lemma sinv_reach s : sreach true s -> sinv s.
Proof. induction 1; eauto using sinv_init, sinv_step. Qed.

(* the waiter's return step is enabled only after the launched body's completion step: a waiter that has returned
   (other than through its own context) did so after the background operation finished and closed the channel *)
Theorem launch_waiter_waits_proof s : sreach true s ->
  forall t, (s_pc s t = WReturned false -> s_bg s = BClosed) /\ (s_pc s t = WReturned true -> s_cancelled s t = true).
Proof.
  intros Hr t. apply sinv_reach in Hr. destruct Hr as [Icl Isig Ictx]. split; [|apply Ictx].
  intros P. apply Icl. eapply Isig; eauto.
Qed.

Lemma launch_return_not_enabled_before_completion s t :
  s_closed s = false -> s_cancelled s t = false -> s_pc s t = WWaiting ->
  sstep_exec true s (SWRetSig t) = None /\ sstep_exec true s (SWRetCtx t) = None.
Proof. intros C X P. simpl. rewrite P, C, X. split; reflexivity. Qed.

(* the Launch of the tree before the fix (the returned operation never waits): the property is false *)
Theorem launch_unfixed_refuted :
  exists s, sreach false s /\ s_pc s 0 = WReturned false /\ s_bg s = BReady.
Proof.
  eexists. split.
  - eapply sreach_step with (l := SWRetSig 0). eapply sreach_step with (l := SWCall 0). apply sreach_init.
    all: reflexivity.
  - split; reflexivity.
Qed.

(* ================================================================== Worker.Signal / Worker.Launch *)
Definition v_finished (s : vstate) : bool := match v_bg s with VReady | VRunning => false | _ => true end.

Record vinv (R : Z) (s : vstate) : Prop := {
  vi_closed : v_closed s = true <-> v_bg s = VClosed;
  vi_armed : v_armed s = false -> v_closed s = true;
  vi_got : forall t v, v_pc s t = RGot v -> v = R /\ v_finished s = true;
  vi_cl : forall t, v_pc s t = RClosed -> v_closed s = true;
  vi_nil : forall t, v_pc s t = RNil -> v_closed s = true;
  vi_ctx : forall t, v_pc s t = RCtx -> v_cancelled s t = true
}.

Lemma vinv_init R : vinv R vinit.
Proof. constructor; simpl; try discriminate. split; discriminate. Qed.

Ltac vfin Icl Igot :=
  try solve [rewrite Icl; split; discriminate];
  try solve [tauto];
  try solve [intros x v Hx; destruct (Igot x v Hx) as [? ?]; first [tauto | congruence | (split; [assumption|reflexivity])]];
  try solve [intros;
             repeat match goal with
                    | H : context [upd _ ?t _ ?x] |- _ => upd_cases x t
                    | |- context [upd _ ?t _ ?x] => upd_cases x t
                    end;
             first [discriminate | assumption | reflexivity | solve [eauto]
                   | (match goal with H : RGot _ = RGot _ |- _ => inv H end; tauto)
                   | (match goal with H : v_pc _ ?x = RGot ?v |- _ => destruct (Igot x v H) as [? ?]; first [tauto | congruence | (split; [assumption|reflexivity])] end)]].

Lemma vinv_step R s l s' : vinv R s -> vstep_exec false R s l = Some s' -> vinv R s'.
Proof.
  intros [Icl Iarm Igot Iclo Inil Ictx] H. unfold v_finished in *. destruct l as [| | | | |t|t|t|t|t]; simpl in H.
  - destruct (v_bg s) eqn:B; inv H. constructor; simpl; auto; vfin Icl Igot.
  - destruct (v_bg s) eqn:B; inv H. constructor; simpl; auto; vfin Icl Igot.
  - destruct (v_bg s) eqn:B; try discriminate. destruct (v_lctx s); inv H. constructor; simpl; auto; vfin Icl Igot.
  - destruct (v_bg s) eqn:B; inv H. constructor; simpl; auto; vfin Icl Igot.
  - inv H. constructor; simpl; auto.
  - destruct (v_pc s t) eqn:P; inv H. destruct (v_armed s) eqn:A; constructor; simpl; auto; vfin Icl Igot.
  - destruct (v_pc s t) eqn:P; try discriminate. destruct (v_bg s) eqn:B; inv H. constructor; simpl; auto; vfin Icl Igot.
  - destruct (v_pc s t) eqn:P; try discriminate. destruct (v_closed s) eqn:C; inv H. constructor; simpl; auto; vfin Icl Igot.
  - destruct (v_pc s t) eqn:P; try discriminate. destruct (v_cancelled s t) eqn:C; inv H. constructor; simpl; auto; vfin Icl Igot.
  - inv H. constructor; simpl; auto; vfin Icl Igot.
Qed.

Lemma vinv_reach R s : vreach false R s -> vinv R s.
Proof. induction 1; eauto using vinv_init, vinv_step. Qed.

(* a waiter of Worker.Launch / Worker.Signal that received a value received the background worker's result, after it
   finished; one that saw the channel closed, or found the future disarmed, did so after the worker finished and the
   channel was closed *)
Theorem worker_launch_waits_proof R s : vreach false R s ->
  forall t, (forall v, v_pc s t = RGot v -> v = R /\ v_finished s = true) /\
            (v_pc s t = RClosed -> v_bg s = VClosed) /\
            (v_pc s t = RNil -> v_bg s = VClosed) /\
            (v_pc s t = RCtx -> v_cancelled s t = true).
Proof.
  intros Hr t. apply vinv_reach in Hr. destruct Hr as [Icl Iarm Igot Iclo Inil Ictx].
  split; [intros v; apply Igot|]. split; [intros P; apply Icl; eauto|]. split; [intros P; apply Icl; eauto|apply Ictx].
Qed.

(* a wait that gives up because its own context ended leaves the waiter re-waitable: the step changes nothing but that
   caller's program counter (in particular the future stays armed), so while the background worker has not finished a
   later wait with a live context has no enabled return step *)
Theorem launch_rewaitable_proof R s t s' : vstep_exec false R s (VWCtx t) = Some s' ->
  v_armed s' = v_armed s /\ v_bg s' = v_bg s /\ v_closed s' = v_closed s /\ v_lctx s' = v_lctx s /\
  v_cancelled s' = v_cancelled s /\ (forall x, x <> t -> v_pc s' x = v_pc s x).
Proof.
  simpl. destruct (v_pc s t); try discriminate. destruct (v_cancelled s t); intros H; inv H. simpl.
  repeat split. intros x N. now apply upd_other.
Qed.

Lemma launch_later_wait_blocks R s t : vreach false R s -> v_finished s = false -> v_cancelled s t = false -> v_pc s t = RIdle ->
  exists s1, vstep_exec false R s (VWCall t) = Some s1 /\ v_pc s1 t = RWaiting /\
             vstep_exec false R s1 (VWRecv t) = None /\ vstep_exec false R s1 (VWClosed t) = None /\ vstep_exec false R s1 (VWCtx t) = None.
Proof.
  intros Hr F C P. apply vinv_reach in Hr. destruct Hr as [Icl Iarm Igot Iclo Inil Ictx].
  assert (A : v_armed s = true).
  { destruct (v_armed s) eqn:A; [reflexivity|]. pose proof (Iarm eq_refl) as X. apply Icl in X. unfold v_finished in F. rewrite X in F. discriminate. }
  assert (Cl : v_closed s = false).
  { destruct (v_closed s) eqn:X; [|reflexivity]. pose proof (proj1 Icl eq_refl) as Y. unfold v_finished in F. rewrite Y in F. discriminate. }
  eexists. simpl. rewrite P, A. split; [reflexivity|]. simpl. rewrite upd_same. split; [reflexivity|].
  unfold v_finished in F. rewrite Cl, C. destruct (v_bg s); try discriminate; repeat split.
Qed.

(* the shape in which a context error disarms the future: after one timed-out wait a second wait returns nil at once
   while the background worker is still running *)
Definition launch_clear_labels : list vlabel := [VBgStart; VWCall 1; VCancel 1; VWCtx 1; VWCall 2].
Definition launch_clear_state : vstate :=
  match steps (vstep_exec true 7) vinit launch_clear_labels with Some s => s | None => vinit end.

Lemma vreach_steps_gen clear R ls : forall s s', vreach clear R s -> steps (vstep_exec clear R) s ls = Some s' -> vreach clear R s'.
Proof.
  induction ls as [|l ls IH]; intros s s' Hr H; simpl in H; [now inv H|].
  destruct (vstep_exec clear R s l) eqn:E; [|discriminate]. eapply IH; [|exact H]. eapply vreach_step; eauto.
Qed.

Theorem launch_rewaitable_refuted :
  vreach true 7 launch_clear_state /\ v_pc launch_clear_state 1 = RCtx /\ v_pc launch_clear_state 2 = RNil /\
  v_bg launch_clear_state = VRunning.
Proof.
  split.
  - apply (vreach_steps_gen true 7 launch_clear_labels vinit); [apply vreach_init|]. vm_compute. reflexivity.
  - repeat split; vm_compute; reflexivity.
Qed.

(* ================================================================== StartGroup *)
Section GroupNet.
Variable n : nat.

Record ginv (s : gstate) : Prop := {
  gi_counter : g_counter s = (g_ready s + g_running s + g_finishing s + match g_lpc s with GSpawn => 1 | _ => 0 end)%nat;
  gi_launched : g_launched s = (g_ready s + g_running s + g_finishing s + g_completed s)%nat;
  gi_lpc : match g_lpc s with GLaunched => g_launched s = n | _ => (g_launched s < n)%nat end;
  gi_wait : forall t, g_pc s t <> WIdle -> g_lpc s = GLaunched;
  gi_ret : forall t, g_pc s t = WReturned false -> g_completed s = n;
  gi_ctx : forall t, g_pc s t = WReturned true -> g_cancelled s t = true
}.

Lemma ginv_init : ginv (ginit n).
Proof.
  unfold ginit. constructor; simpl; try discriminate; try congruence; try (destruct n; simpl; lia).
Qed.

Ltac gfin Iwa :=
  try lia;
  try solve [intros x Hx; apply Iwa in Hx; congruence];
  try solve [intros x Hx; assert (g_lpc _ = GLaunched) by (apply (Iwa x); congruence); congruence];
  try solve [intros;
             repeat match goal with
                    | H : context [upd _ ?t _ ?x] |- _ => upd_cases x t
                    | |- context [upd _ ?t _ ?x] => upd_cases x t
                    end;
             first [discriminate | assumption | reflexivity | solve [eauto] | lia]].

Lemma ginv_step s l s' : ginv s -> gstep_exec n s l = Some s' -> ginv s'.
Proof.
  intros [Icn Ila Ilp Iwa Iret Ictx] H. destruct l as [| | | | |t|t|t|t]; simpl in H.
  - destruct (g_lpc s) eqn:L; inv H. constructor; simpl; auto; gfin Iwa.
  - destruct (g_lpc s) eqn:L; inv H. constructor; cbn -[Nat.eqb]; auto; gfin Iwa.
    + change (match n with 0%nat => false | S m' => (g_launched s =? m')%nat end) with (Nat.eqb (S (g_launched s)) n).
      destruct (Nat.eqb (S (g_launched s)) n); lia.
    + change (match n with 0%nat => false | S m' => (g_launched s =? m')%nat end) with (Nat.eqb (S (g_launched s)) n).
      destruct (Nat.eqb (S (g_launched s)) n) eqn:E; [apply Nat.eqb_eq in E; lia|apply Nat.eqb_neq in E; lia].
  - destruct (g_ready s) eqn:R; inv H. constructor; simpl; auto; gfin Iwa.
  - destruct (g_running s) eqn:R; inv H. constructor; simpl; auto; gfin Iwa.
  - destruct (g_finishing s) eqn:F; try discriminate. destruct (g_counter s) eqn:C; inv H.
    constructor; simpl; auto; gfin Iwa.
    intros x Hx. pose proof (Iret x Hx). assert (LL : g_lpc s = GLaunched) by (apply (Iwa x); congruence).
    rewrite LL in *. lia.
  - destruct (g_lpc s) eqn:L; try discriminate. destruct (g_pc s t) eqn:P; inv H.
    constructor; simpl; auto; gfin Iwa.
  - destruct (g_pc s t) eqn:P; try discriminate. destruct (g_counter s) eqn:C; inv H.
    assert (LL : g_lpc s = GLaunched) by (apply (Iwa t); congruence).
    constructor; simpl; auto; gfin Iwa.
    intros x Hx. upd_cases x t; [|eauto]. rewrite LL in *. lia.
  - destruct (g_pc s t) eqn:P; try discriminate. destruct (g_cancelled s t) eqn:C; inv H.
    assert (LL : g_lpc s = GLaunched) by (apply (Iwa t); congruence).
    constructor; simpl; auto; gfin Iwa.
  - inv H. constructor; simpl; auto; gfin Iwa.
Qed.

Lemma ginv_reach s : greach n s -> ginv s.
Proof. induction 1; eauto using ginv_init, ginv_step. Qed.

(* the waiter of a group of n background executions returns (other than through its own context) only after all n
   have finished and called Done *)
Theorem startgroup_waiter_waits_proof s : greach n s ->
  forall t, (g_pc s t = WReturned false -> g_completed s = n) /\ (g_pc s t = WReturned true -> g_cancelled s t = true).
Proof.
  intros Hr t. apply ginv_reach in Hr. destruct Hr as [Icn Ila Ilp Iwa Iret Ictx]. split; [apply Iret|apply Ictx].
Qed.
End GroupNet.

(* ================================================================== the replays only take steps of the nets *)
Lemma replay_reach {S} (tr : S -> cev -> option S) (P : S -> Prop) :
  (forall s e s', P s -> tr s e = Some s' -> P s') ->
  forall evs s s', P s -> replay tr s evs = Some s' -> P s'.
Proof.
  intros Ht. induction evs as [|e evs IH]; intros s s' Hp H; simpl in H; [now inv H|].
  destruct (tr s e) eqn:E; [|discriminate]. eapply IH; [|exact H]. eapply Ht; eauto.
Qed.

Lemma oreach_step' R s l s' : oreach R s -> ostep_exec R s l = Some s' -> oreach R s'.
Proof. intros; eapply oreach_step; eauto. Qed.

(* a trace accepted by the Once replay is a run of the Once net: the state it ends in is reachable *)
Theorem once_replay_sound R evs s : replay (once_tr R) oinit evs = Some s -> oreach R s.
Proof.
  apply (replay_reach (once_tr R) (oreach R)); [|apply oreach_init].
  intros s0 e s1 Hr H. destruct e as [t|t|t v|t v|t]; unfold once_tr in H; [| | | |discriminate].
  - eapply oreach_step; eauto.
  - eapply oreach_step; eauto.
  - eapply (steps_reach (ostep_exec R) (oreach R)); [apply oreach_step'| exact Hr | exact H].
  - remember (match o_pc s0 t with
              | OCalled => steps (ostep_exec R) s0 [OPass t; ORet t]
              | _ => ostep_exec R s0 (ORet t)
              end) as X eqn:EX.
    destruct X as [s2|]; [|discriminate].
    assert (R2 : oreach R s2).
    { symmetry in EX. destruct (o_pc s0 t);
        first [ eapply (steps_reach (ostep_exec R) (oreach R)); [apply oreach_step'| exact Hr | exact EX]
              | eapply oreach_step; eauto ]. }
    destruct (o_pc s2 t); try discriminate. destruct (_ =? _); inv H. exact R2.
Qed.

(* the same for the other replays *)
Ltac dec :=
  repeat match goal with
  | H : Some _ = Some _ |- _ => inv H
  | H : None = Some _ |- _ => discriminate H
  | H : (match ?x with _ => _ end) = Some _ |- _ => destruct x eqn:?
  end.

Lemma lreach_step' n val s l s' : lreach n val s -> lstep_exec n val s l = Some s' -> lreach n val s'.
Proof. intros; eapply lreach_step; eauto. Qed.
Lemma lreach_steps' n val s ls s' : lreach n val s -> steps (lstep_exec n val) s ls = Some s' -> lreach n val s'.
Proof. intros; eapply lreach_steps; eauto. Qed.

Theorem limit_replay_sound n evs s : replay (limit_tr n) linit evs = Some s -> lreach n idval s.
Proof.
  apply (replay_reach (limit_tr n) (lreach n idval)); [|apply lreach_init].
  intros s0 e s1 Hr H. destruct e as [t|t|t v|t v|t]; unfold limit_tr, pending_unlock in H; dec;
    eauto 6 using lreach_step', lreach_steps'.
Qed.

Lemma creach_step' n s l s' : creach true n s -> cstep_exec true n s l = Some s' -> creach true n s'.
Proof. intros; eapply creach_step; eauto. Qed.
Lemma creach_steps' n s ls s' : creach true n s -> steps (cstep_exec true n) s ls = Some s' -> creach true n s'.
Proof. intros; eapply creach_steps_gen; eauto. Qed.

Theorem climit_replay_sound n all evs s : replay (climit_tr n all) cinit evs = Some s -> creach true n s.
Proof.
  apply (replay_reach (climit_tr n all) (creach true n)); [|apply creach_init].
  intros s0 e s1 Hr H. destruct e as [t|t|t v|t v|t]; unfold climit_tr in H; dec;
    eauto 6 using creach_step', creach_steps'.
Qed.

Lemma mreach_step' s l s' : mreach s -> mstep_exec s l = Some s' -> mreach s'.
Proof. intros; eapply mreach_step; eauto. Qed.
Lemma mreach_steps' s ls s' : mreach s -> steps mstep_exec s ls = Some s' -> mreach s'.
Proof. intros Hr H. eapply (steps_reach mstep_exec mreach); eauto using mreach_step'. Qed.

Theorem lock_replay_sound evs s : replay lock_tr minit evs = Some s -> mreach s.
Proof.
  apply (replay_reach lock_tr mreach); [|apply mreach_init].
  intros s0 e s1 Hr H. destruct e as [t|t|t v|t v|t]; unfold lock_tr in H; dec;
    eauto 6 using mreach_step', mreach_steps'.
Qed.

Lemma sreach_step' s l s' : sreach true s -> sstep_exec true s l = Some s' -> sreach true s'.
Proof. intros; eapply sreach_step; eauto. Qed.
Lemma sreach_steps' s ls s' : sreach true s -> steps (sstep_exec true) s ls = Some s' -> sreach true s'.
Proof. intros Hr H. eapply (steps_reach (sstep_exec true) (sreach true)); eauto using sreach_step'. Qed.

Theorem signal_replay_sound evs s : replay signal_tr sinit evs = Some s -> sreach true s.
Proof.
  apply (replay_reach signal_tr (sreach true)); [|apply sreach_init].
  intros s0 e s1 Hr H. destruct e as [t|t|t v|t v|t]; unfold signal_tr in H; dec;
    eauto 6 using sreach_step', sreach_steps'.
Qed.

Lemma vreach_step' R s l s' : vreach false R s -> vstep_exec false R s l = Some s' -> vreach false R s'.
Proof. intros; eapply vreach_step; eauto. Qed.
Lemma vreach_steps' R s ls s' : vreach false R s -> steps (vstep_exec false R) s ls = Some s' -> vreach false R s'.
Proof. intros; eapply vreach_steps_gen; eauto. Qed.

Theorem send_replay_sound R evs s : replay (send_tr R) vinit evs = Some s -> vreach false R s.
Proof.
  apply (replay_reach (send_tr R) (vreach false R)); [|apply vreach_init].
  intros s0 e s1 Hr H. destruct e as [t|t|t v|t v|t]; unfold send_tr in H; dec;
    eauto 6 using vreach_step', vreach_steps'.
Qed.

Lemma greach_step' n s l s' : greach n s -> gstep_exec n s l = Some s' -> greach n s'.
Proof. intros; eapply greach_step; eauto. Qed.
Lemma greach_steps' n s ls s' : greach n s -> steps (gstep_exec n) s ls = Some s' -> greach n s'.
Proof. intros Hr H. eapply (steps_reach (gstep_exec n) (greach n)); eauto using greach_step'. Qed.

Lemma launch_all_reach n : forall k s s', greach n s -> launch_all n k s = Some s' -> greach n s'.
Proof.
  induction k as [|k IH]; intros s s' Hr H; cbn [launch_all] in H; [now inv H|].
  destruct (steps (gstep_exec n) s [GLInc; GLSpawn]) eqn:E; [|discriminate].
  eapply IH; [|exact H]. eapply greach_steps'; eauto.
Qed.

Theorem group_replay_sound n evs s0 s :
  launch_all n n (ginit n) = Some s0 -> replay (group_tr n) s0 evs = Some s -> greach n s.
Proof.
  intros L. apply (replay_reach (group_tr n) (greach n)); [|eapply launch_all_reach; [apply greach_init|exact L]].
  intros s1 e s2 Hr H. destruct e as [t|t|t v|t v|t]; unfold group_tr in H; dec;
    eauto 6 using greach_step', greach_steps'.
Qed.

(* non-vacuity of the launch nets *)
Example launch_net_nonvacuous :
  exists s, sreach true s /\ s_pc s 0 = WReturned false /\ s_bg s = BClosed.
Proof.
  destruct (steps (sstep_exec true) sinit [SWCall 0; SBgStart; SBgFinish; SBgClose; SWRetSig 0]) as [s|] eqn:E; [|vm_compute in E; discriminate E].
  exists s. split; [eapply sreach_steps'; [apply sreach_init|exact E]|]. vm_compute in E. inv E. split; reflexivity.
Qed.

Example group_net_nonvacuous :
  exists s, greach 2 s /\ g_pc s 0 = WReturned false /\ g_completed s = 2%nat.
Proof.
  destruct (steps (gstep_exec 2) (ginit 2)
              [GLInc; GLSpawn; GBStart; GLInc; GLSpawn; GWCall 0; GBFinish; GBStart; GBDone; GBFinish; GBDone; GWRet 0]) as [s|] eqn:E;
    [|vm_compute in E; discriminate E].
  exists s. split; [eapply greach_steps'; [apply greach_init|exact E]|]. vm_compute in E. inv E. split; reflexivity.
Qed.
