(* The synchronized dt.Set (Synchronize()/WithLock()) as an instance of Conc/LockedObject.v.

   Every method below is, in dt/set.go, `defer s.with(s.lock())` followed by a body that touches only
   the receiver: one critical section under the set's single mutex, no condition variable, no blocking,
   no cancellation. (Populate/Extend/UnmarshalJSON are sequences of Add calls, Iterator is a sequence of
   locked producer calls, Equal takes two locks: they are not single critical sections and are not
   operations of this object.) That the code has this shape is validated outside this file: by the
   lock-discipline check of C13 on the skeleton regenerated from dt/set.go, by the lock probe of the
   C18 driver (the producer runs under the set's mutex) and by the recorded concurrent histories, which
   are checked linearizable and whose witness order is re-run by the model (Corr/C18_corr.v, CLin). *)
From FunV Require Import Base.Tac Base.ListX Model.SetModel Proofs.SetModel_base Proofs.SetModel_inv Proofs.SetModel_ops.
From FunV Require Import Conc.LockedObject.
Local Open Scope Z_scope.

Inductive sop :=
| SAdd (v : Z) | SAddCheck (v : Z) | SDelete (v : Z) | SDeleteCheck (v : Z) | SCheck (v : Z) | SLen
| SOrder | SSort (k : Z) (choice : list Z).

Definition sseq (s : set) (o : sop) : set * res :=
  match o with
  | SAdd v => (fst (add_check s v), RUnit)
  | SAddCheck v => let '(s', b) := add_check s v in (s', RBool b)
  | SDelete v => (fst (delete_check s v), RUnit)
  | SDeleteCheck v => let '(s', b) := delete_check s v in (s', RBool b)
  | SCheck v => let '(s', b) := check s v in (s', RBool b)
  | SLen => let '(s', n) := len s in (s', RLen n)
  | SOrder => let '(s', p) := order s in (s', if p then RPanic else RUnit)
  | SSort k choice => match sort (lt_of k) choice s with Some s' => (s', RUnit) | None => (s, RBad) end
  end.

Definition rseq (r : rset) (o : sop) : rset * res :=
  match o with
  | SAdd v => (fst (r_add r v), RUnit)
  | SAddCheck v => let '(r', b) := r_add r v in (r', RBool b)
  | SDelete v => (fst (r_del r v), RUnit)
  | SDeleteCheck v => let '(r', b) := r_del r v in (r', RBool b)
  | SCheck v => (r, RBool (r_mem r v))
  | SLen => (r, RLen (r_len r))
  | SOrder => let '(r', p) := r_order r in (r', if p then RPanic else RUnit)
  | SSort k choice => match r_sort (lt_of k) choice r with Some r' => (r', RUnit) | None => (r, RBad) end
  end.

Definition never_blocked (_ : res) : bool := false.

Lemma sseq_sim s r o :
  abs s r -> abs (fst (sseq s o)) (fst (rseq r o)) /\ snd (sseq s o) = snd (rseq r o).
Proof.
  intros A. destruct o; cbn [sseq rseq].
  - split; [apply abs_add, A|reflexivity].
  - pose proof (abs_add _ _ v A) as [A' E]. destruct (add_check s v), (r_add r v). simpl in *. subst. auto.
  - split; [apply abs_del, A|reflexivity].
  - pose proof (abs_del _ _ v A) as [A' E]. destruct (delete_check s v), (r_del r v). simpl in *. subst. auto.
  - pose proof (abs_check _ _ v A) as [A' E]. destruct (check s v). simpl in *. subst. auto.
  - pose proof (abs_len_op _ _ A) as [A' E]. destruct (len s). simpl in *. subst. auto.
  - pose proof (abs_order _ _ A) as [A' E]. destruct (order s), (r_order r). simpl in *. subst. auto.
  - pose proof (abs_sort (lt_of k) choice _ _ A) as A'.
    destruct (sort (lt_of k) choice s), (r_sort (lt_of k) choice r); try contradiction; simpl; auto.
Qed.

Notation slegal := (legal set sop res sseq never_blocked RBad).
Notation rlegal := (legal rset sop res rseq never_blocked RBad).

Lemma legal_sim l : forall s s' r, slegal s l s' -> abs s r -> exists r', rlegal r l r' /\ abs s' r'.
Proof.
  induction l as [|e l IH]; intros s s' r L A; inversion L; subst.
  - exists r. split; [constructor|exact A].
  - pose proof (sseq_sim s r (le_op e) A) as [A1 E1].
    match goal with H : sseq s (le_op e) = _ |- _ => rewrite H in A1, E1 end. simpl in A1, E1.
    destruct (IH _ _ _ ltac:(eassumption) A1) as (r' & L' & A').
    exists r'. split; [|exact A'].
    eapply legal_op; eauto. destruct (rseq r (le_op e)) as [r1 x] eqn:E. simpl in *. subst. reflexivity.
  - destruct (IH _ _ _ ltac:(eassumption) A) as (r' & L' & A').
    exists r'. split; [|exact A']. eapply legal_cancel; eauto.
Qed.

Notation srun init := (run set sop res init sseq never_blocked RBad).
Notation slinearization init := (linearization set sop res init sseq never_blocked RBad).

(* Any number of goroutines calling the methods of one synchronized set, any overlap: the calls, ordered
   by their critical sections, form a sequential execution that (a) respects real time, (b) returns
   exactly the results that were returned, and (c) is also an execution of the REFERENCE set with the
   same results, ending in a reference state that abstracts the set's final state. *)
Theorem sync_linearizable init r0 tr c :
  abs init r0 -> srun init tr = Some c ->
  slinearization init tr c /\
  (forall a b, In a (hist c) -> In b (lin c) -> (c_ret a < le_inv b)%nat -> precedes (c_entry a) b (lin c)) /\
  exists r', rlegal r0 (lin c) r' /\ abs (st c) r'.
Proof.
  intros A R. pose proof (lo_linearizable _ _ _ _ _ _ _ _ _ R) as Lz.
  split; [exact Lz|]. split; [exact (lo_realtime _ _ _ _ _ _ _ _ _ R)|].
  exact (legal_sim _ _ _ _ (lz_legal _ _ _ _ _ _ _ _ _ Lz) A).
Qed.

(* non-vacuity: two goroutines on an ordered synchronized set, overlapping AddCheck 1 / AddCheck 1 / DeleteCheck 1 *)
Definition sync_init : set := synchronize (fst (order empty_set)).
Definition sync_trace : list (event sop) :=
  [Inv 0 (SAddCheck 1); Inv 1 (SAddCheck 1); Crit 1; Crit 0; Ret 0; Inv 0 (SDeleteCheck 1); Ret 1; Crit 0; Inv 1 SLen; Crit 1; Ret 1; Ret 0]%nat.

Example sync_trace_runs :
  match srun sync_init sync_trace with
  | Some c => map (fun e => (le_tid e, le_res e)) (lin c) = [(1, RBool false); (0, RBool true); (0, RBool true); (1, RLen 0)]%nat
  | None => False
  end.
Proof. vm_compute. reflexivity. Qed.
