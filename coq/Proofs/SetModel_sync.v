(* The synchronized dt.Set (Synchronize()/WithLock()) as an instance of Conc/LockedObject.v.

   Every method below is, in dt/set.go, `defer s.with(s.lock())` followed by a body that touches only
   the receiver: one critical section under the set's single mutex, no condition variable, no blocking,
   no cancellation. (Populate/Extend/UnmarshalJSON are sequences of Add calls, Iterator is a sequence of
   locked producer calls, Equal takes two locks: they are not single critical sections and are not
   operations of this object.) That the code has this shape is validated outside this file: by the
   lock-discipline check of C13 on the skeleton regenerated from dt/set.go, by the lock probe of the
   C18 driver (the producer runs under the set's mutex) and by the recorded concurrent histories, which
   are checked linearizable and whose witness order is re-run by the model (Corr/C18_corr.v, CLin). *)
From FunV Require Import Base.Tac Base.ListX Model.SetModel Proofs.SetModel_base Proofs.SetModel_inv Proofs.SetModel_ops Proofs.SetModel_refine.
From FunV Require Import Conc.LockedObject.
Local Open Scope Z_scope.

Inductive sop :=
| SAdd (v : Z) | SAddCheck (v : Z) | SDelete (v : Z) | SDeleteCheck (v : Z) | SCheck (v : Z) | SLen
| SOrder | SSort (k : Z) (choice : list Z)
| SSynchronize (l : lockid) | SWithLock (l : lockid).   (* atomic operations on the mutex slot *)

Definition sseq (s : set) (o : sop) : set * res :=
  match o with
  | SAdd v => (fst (add_check s v), RUnit)
  | SAddCheck v => let '(s', b) := add_check s v in (s', RBool b)
  | SDelete v => (fst (delete_check s v), RUnit)
  | SDeleteCheck v => let '(s', b) := delete_check s v in (s', RBool b)
  | SCheck v => let '(s', b) := check s v in (s', RBool b)
  | SLen => let '(s', n) := len s in (s', RLen n)
  | SOrder => let '(s', p) := order s in (s', if p then RPanic else RUnit)
  | SSort k choice => match sort (lt_of k) choice s with Some s' => (s', RUnit) | None => (s, RBad) end
  | SSynchronize l => (synchronize s l, RUnit)
  | SWithLock l => let '(s', p) := with_lock s l in (s', if p then RPanic else RUnit)
  end.

(* reference state: the reference set and the identity of the mutex (write-once) *)
Definition rstate := (rset * option lockid)%type.

Definition rseq_set (r : rset) (o : sop) : rset * res :=
  match o with
  | SAdd v => (fst (r_add r v), RUnit)
  | SAddCheck v => let '(r', b) := r_add r v in (r', RBool b)
  | SDelete v => (fst (r_del r v), RUnit)
  | SDeleteCheck v => let '(r', b) := r_del r v in (r', RBool b)
  | SCheck v => (r, RBool (r_mem r v))
  | SLen => (r, RLen (r_len r))
  | SOrder => let '(r', p) := r_order r in (r', if p then RPanic else RUnit)
  | SSort k choice => match r_sort (lt_of k) choice r with Some r' => (r', RUnit) | None => (r, RBad) end
  | SSynchronize _ | SWithLock _ => (r, RUnit)
  end.

Definition rseq (rk : rstate) (o : sop) : rstate * res :=
  let '(r, k) := rk in
  match o with
  | SSynchronize l => ((r, first_wins k l), RUnit)
  | SWithLock l =>
      if Z.eqb l 0 then ((r, k), RPanic)
      else ((r, first_wins k l), match k with None => RUnit | Some c => if Z.eqb c l then RUnit else RPanic end)
  | _ => let '(r', x) := rseq_set r o in ((r', k), x)
  end.

Definition abs2 (s : set) (rk : rstate) : Prop := abs s (fst rk) /\ s_mtx s = snd rk.

Definition never_blocked (_ : res) : bool := false.

Lemma sseq_mtx_other s o :
  match o with SSynchronize _ | SWithLock _ => True | _ => s_mtx (fst (sseq s o)) = s_mtx s end.
Proof.
  destruct o; cbn [sseq]; try exact I.
  - apply mtx_add.
  - destruct (add_check s v) as [s' b] eqn:E. change s' with (fst (s', b)). rewrite <- E. apply mtx_add.
  - apply mtx_del.
  - destruct (delete_check s v) as [s' b] eqn:E. change s' with (fst (s', b)). rewrite <- E. apply mtx_del.
  - unfold check. apply mtx_lock.
  - unfold len. apply mtx_lock.
  - destruct (order s) as [s' b] eqn:E. change s' with (fst (s', b)). rewrite <- E. apply mtx_order.
  - destruct (sort (lt_of k) choice s) as [s'|] eqn:E; cbn [fst]; [eapply mtx_sort; eauto|reflexivity].
Qed.

Lemma sseq_sim s rk o :
  abs2 s rk -> abs2 (fst (sseq s o)) (fst (rseq rk o)) /\ snd (sseq s o) = snd (rseq rk o).
Proof.
  destruct rk as [r k]. intros [A K]. cbn [fst snd] in A, K. pose proof (sseq_mtx_other s o) as M.
  unfold abs2. destruct o; cbn [sseq rseq rseq_set] in *.
  - cbn [fst snd] in *. split; [split; [apply abs_add, A|congruence]|reflexivity].
  - pose proof (abs_add _ _ v A) as [A' E]. destruct (add_check s v), (r_add r v). cbn [fst snd] in *. subst.
    split; [split; [assumption|congruence]|reflexivity].
  - cbn [fst snd] in *. split; [split; [apply abs_del, A|congruence]|reflexivity].
  - pose proof (abs_del _ _ v A) as [A' E]. destruct (delete_check s v), (r_del r v). cbn [fst snd] in *. subst.
    split; [split; [assumption|congruence]|reflexivity].
  - pose proof (abs_check _ _ v A) as [A' E]. destruct (check s v). cbn [fst snd] in *. subst.
    split; [split; [assumption|congruence]|reflexivity].
  - pose proof (abs_len_op _ _ A) as [A' E]. destruct (len s). cbn [fst snd] in *. subst.
    split; [split; [assumption|congruence]|reflexivity].
  - pose proof (abs_order _ _ A) as [A' E]. destruct (order s), (r_order r). cbn [fst snd] in *. subst.
    split; [split; [assumption|congruence]|reflexivity].
  - pose proof (abs_sort (lt_of k0) choice _ _ A) as A'.
    destruct (sort (lt_of k0) choice s), (r_sort (lt_of k0) choice r); try contradiction; cbn [fst snd] in *;
      (split; [split; [assumption|congruence]|reflexivity]).
  - cbn [fst snd]. split; [|reflexivity]. split; [apply abs_synchronize, A|].
    unfold synchronize. cbn [s_mtx]. rewrite mtx_set_first, K. reflexivity.
  - pose proof (abs_with_lock _ _ l A) as A'. unfold with_lock in *.
    destruct (Z.eqb l 0); cbn [fst snd] in *; [split; [split; assumption|reflexivity]|].
    rewrite K in *. destruct k as [c|]; cbn [mtx_set fst snd negb first_wins s_mtx] in *.
    + split; [split; [assumption|reflexivity]|]. destruct (Z.eqb c l); reflexivity.
    + split; [split; [assumption|reflexivity]|reflexivity].
Qed.

Notation slegal := (legal set sop res sseq never_blocked RBad).
Notation rlegal := (legal rstate sop res rseq never_blocked RBad).

Lemma legal_sim l : forall s s' rk, slegal s l s' -> abs2 s rk -> exists rk', rlegal rk l rk' /\ abs2 s' rk'.
Proof.
  induction l as [|e l IH]; intros s s' rk L A; inversion L; subst.
  - exists rk. split; [constructor|exact A].
  - pose proof (sseq_sim s rk (le_op e) A) as [A1 E1].
    match goal with H : sseq s (le_op e) = _ |- _ => rewrite H in A1, E1 end. simpl in A1, E1.
    destruct (IH _ _ _ ltac:(eassumption) A1) as (rk' & L' & A').
    exists rk'. split; [|exact A'].
    eapply legal_op; eauto. destruct (rseq rk (le_op e)) as [r1 x] eqn:E. simpl in *. subst. reflexivity.
  - destruct (IH _ _ _ ltac:(eassumption) A) as (rk' & L' & A').
    exists rk'. split; [|exact A']. eapply legal_cancel; eauto.
Qed.

(* the reference's mutex, once installed, survives every legal execution *)
Lemma rseq_lock_stable rk o l : snd rk = Some l -> snd (fst (rseq rk o)) = Some l.
Proof.
  destruct rk as [r k]. cbn [snd]. intros ->. destruct o; cbn [rseq]; try (destruct (rseq_set r _); reflexivity).
  - reflexivity.
  - destruct (Z.eqb l0 0); reflexivity.
Qed.

Lemma rlegal_lock_stable es : forall rk rk' l, rlegal rk es rk' -> snd rk = Some l -> snd rk' = Some l.
Proof.
  induction es as [|e es IH]; intros rk rk' l L K; inversion L; subst; auto.
  - eapply IH; [eassumption|]. pose proof (rseq_lock_stable rk (le_op e) l K) as Q.
    match goal with H : rseq rk (le_op e) = _ |- _ => rewrite H in Q end. exact Q.
  - eapply IH; eauto.
Qed.

Notation srun init := (run set sop res init sseq never_blocked RBad).
Notation slinearization init := (linearization set sop res init sseq never_blocked RBad).

(* Any number of goroutines calling the methods of one synchronized set (including further Synchronize() /
   WithLock() calls), any overlap: the calls, ordered by their critical sections, form a sequential
   execution that (a) respects real time, (b) returns exactly the results that were returned, (c) is also an
   execution of the REFERENCE set with the same results, ending in a reference state that abstracts the set's
   final state, and (d) THE LOCK IS ONE LOCK: if the set starts with mutex l installed, every state reached
   still has exactly l installed -- the single mutex the LockedObject premise is about. *)
Theorem sync_linearizable init r0 l tr c :
  abs init r0 -> s_mtx init = Some l -> srun init tr = Some c ->
  slinearization init tr c /\
  (forall a b, In a (hist c) -> In b (lin c) -> (c_ret a < le_inv b)%nat -> precedes (c_entry a) b (lin c)) /\
  (exists r', rlegal (r0, Some l) (lin c) (r', Some l) /\ abs (st c) r') /\
  s_mtx (st c) = Some l.
Proof.
  intros A K R. pose proof (lo_linearizable _ _ _ _ _ _ _ _ _ R) as Lz.
  split; [exact Lz|]. split; [exact (lo_realtime _ _ _ _ _ _ _ _ _ R)|].
  destruct (legal_sim _ _ _ (r0, Some l) (lz_legal _ _ _ _ _ _ _ _ _ Lz) (conj A K)) as ([r' k'] & L' & A' & K').
  cbn [fst snd] in A', K'.
  assert (Hk : k' = Some l) by exact (rlegal_lock_stable _ _ _ l L' eq_refl).
  rewrite Hk in L', K'.
  split; [exists r'; split; [exact L'|exact A']|exact K'].
Qed.

(* non-vacuity: two goroutines on an ordered synchronized set, overlapping AddCheck 1 / AddCheck 1 / DeleteCheck 1,
   while thread 2 calls Synchronize() again and a rejected WithLock *)
Definition sync_init : set := synchronize (fst (order empty_set)) 5%Z.
Definition sync_trace : list (event sop) :=
  [Inv 0 (SAddCheck 1); Inv 1 (SAddCheck 1); Inv 2 (SSynchronize (-1)%Z); Crit 1; Crit 2; Crit 0; Ret 0; Ret 2; Inv 2 (SWithLock 9%Z);
   Inv 0 (SDeleteCheck 1); Ret 1; Crit 2; Crit 0; Inv 1 SLen; Crit 1; Ret 1; Ret 0; Ret 2]%nat.

Example sync_trace_runs :
  match srun sync_init sync_trace with
  | Some c => map (fun e => (le_tid e, le_res e)) (lin c) =
                [(1, RBool false); (2, RUnit); (0, RBool true); (2, RPanic); (0, RBool true); (1, RLen 0)]%nat
              /\ s_mtx (st c) = Some 5
  | None => False
  end.
Proof. vm_compute. split; reflexivity. Qed.
