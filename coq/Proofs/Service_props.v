(* C10 — the property theorems, derived from the invariants SInv (Service_inv.v) and TInv
   (Service_trace.v).  Every statement is about an arbitrary run `run c init ls = Some s`:
   arbitrary configuration c (outcomes of Run/Shutdown/Cleanup/ErrorHandler), arbitrary number of
   Start/Wait/Close/Running callers, arbitrary interleaving of the atomic steps. *)
From FunV Require Import Base.Tac Model.ServiceModel Proofs.Service_inv Proofs.Service_trace.

Local Arguments Nat.leb : simpl never.
Local Arguments Nat.eqb : simpl never.

Definition reach (c : cfg) (ls : list label) (s : state) : Prop := run c init ls = Some s.

Lemma inv_run_from : forall c ls ls0 s0 s,
  SInv c s0 -> TInv c ls0 s0 -> run c s0 ls = Some s -> SInv c s /\ TInv c (ls0 ++ ls) s.
Proof.
  induction ls as [|l ls IH]; cbn; intros ls0 s0 s SI TI H.
  - inv H. rewrite app_nil_r. auto.
  - destruct (step c s0 l) as [s1|] eqn:E; [|discriminate].
    replace (ls0 ++ l :: ls) with ((ls0 ++ [l]) ++ ls) by (rewrite <- app_assoc; reflexivity).
    apply (IH (ls0 ++ [l]) s1 s); [eapply sinv_step; eauto | eapply tinv_step; eauto | assumption].
Qed.

Lemma inv_reach : forall c ls s, reach c ls s -> SInv c s /\ TInv c ls s.
Proof. intros c ls s H. apply (inv_run_from c ls [] init s (sinv_init c) (tinv_init c) H). Qed.

Lemma reach_split : forall c pre x post s, reach c (pre ++ x :: post) s ->
  exists s1 s2, reach c pre s1 /\ step c s1 x = Some s2 /\ run c s2 post = Some s.
Proof.
  unfold reach. intros c pre x post s H.
  apply run_app in H. destruct H as [s1 [H1 H2]]. cbn in H2.
  destruct (step c s1 x) as [s2|] eqn:E; [|discriminate]. eauto.
Qed.

(* ---------------------------------------------------------------- vocabulary of the statements *)

(* phase p is over in history ls: its function returned (or panicked), or it is not configured *)
Definition returned (c : cfg) (p : phase) (ls : list label) : Prop :=
  is_absent (outc c p) = true \/ In (LEnd p) ls.

Definition all_returned (c : cfg) (ls : list label) : Prop :=
  returned c PRun ls /\ returned c PSd ls /\ returned c PCl ls.

(* the service context has ended: Run returned (a nil Run panics at once), Close was called, or the
   context given to Start was cancelled *)
Definition ctx_ended (c : cfg) (ls : list label) : Prop :=
  returned c PRun ls \/ In (LInv KClose) ls \/ In LParentCancel ls.

Definition is_inv (l : label) : bool := match l with LInv _ => true | _ => false end.

Lemma returned_of_cnt : forall c p ls b,
  cntl (is_end p) ls = Nat.b2n (b && negb (is_absent (outc c p))) -> b = true -> returned c p ls.
Proof.
  intros c p ls b H Hb. subst b. unfold returned.
  destruct (is_absent (outc c p)); [left; reflexivity|right].
  cbn in H. destruct (cntl_pos_in (is_end p) ls) as [l [Hin Hl]]; [lia|].
  destruct l; cbn in Hl; try discriminate. destruct p, p0; cbn in Hl; try discriminate; assumption.
Qed.

Lemma finished_all_returned : forall c ls s, SInv c s -> TInv c ls s -> 13 <= mrank (mn s) -> all_returned c ls.
Proof.
  intros c ls s SI TI Hm. pose proof (si_g_mn _ _ SI) as Hd.
  repeat split.
  - apply (returned_of_cnt c PRun ls _ (ti_erun _ _ _ TI)). lia.
  - apply (returned_of_cnt c PSd ls _ (ti_esd _ _ _ TI)). lia.
  - apply (returned_of_cnt c PCl ls _ (ti_ecl _ _ _ TI)). lia.
Qed.

Lemma fin_rank : forall c s, SInv c s -> fFin s = true -> 13 <= mrank (mn s).
Proof. intros c s SI H. rewrite (si_fin _ _ SI) in H. lia. Qed.

(* ---------------------------------------------------------------- 1. Run at most once *)

Lemma run_at_most_once : forall c ls s, reach c ls s -> cntl (is_begin PRun) ls <= 1.
Proof.
  intros c ls s H. destruct (inv_reach _ _ _ H) as [_ TI]. rewrite (ti_brun _ _ _ TI).
  destruct (_ && _); cbn; lia.
Qed.

(* ---------------------------------------------------------------- 2. exactly one Start returns nil *)

Lemma exactly_one_start_nil : forall c ls s, reach c ls s ->
  (* at most one nil; the other results are ErrServiceAlreadyStarted / ErrServiceReturned by the type sres *)
  cntl is_nilret ls <= 1 /\
  (* ErrServiceReturned only once Run, Shutdown and Cleanup have returned *)
  (forall pre i post, ls = pre ++ LRet i (RStart SReturned) :: post -> all_returned c pre) /\
  (* as soon as any Start call has returned, exactly one call has returned nil or is committed to return nil *)
  (1 <= cntl is_startret ls ->
   cntl is_nilret ls + cnt is_retnil (callers s) + cnt is_sbody (callers s) = 1).
Proof.
  intros c ls s H. destruct (inv_reach _ _ _ H) as [SI TI]. split; [|split].
  - pose proof (ti_nil _ _ _ TI). destruct (1 <=? brank (body s)); cbn in *; lia.
  - intros pre i post E. subst ls. destruct (reach_split _ _ _ _ _ H) as [s1 [s2 [H1 [Hs _]]]].
    destruct (inv_reach _ _ _ H1) as [SI1 TI1].
    cbn in Hs. unfold step_ret in Hs.
    destruct (nth_error (callers s1) i) as [pc|] eqn:En; [|discriminate].
    pose proof (Forall_nth _ _ _ _ _ (ti_callers _ _ _ TI1) En) as Hok.
    destruct pc; try discriminate. destruct r; cbn in Hs; try discriminate. cbn in Hok.
    eapply finished_all_returned; eauto using fin_rank.
  - intros Hr. pose proof (ti_nil _ _ _ TI) as Hn. pose proof (ti_sret _ _ _ TI Hr).
    replace (1 <=? brank (body s)) with true in Hn by lia. exact Hn.
Qed.

Lemma cnt_all_gone : forall p l, Forall (fun pc => pc = Gone) l -> p Gone = false -> cnt p l = 0.
Proof.
  unfold cnt. induction l as [|h t IH]; cbn; intros H Hp; [reflexivity|].
  inv H. rewrite Hp. apply IH; assumption.
Qed.

(* when every call has returned and at least one of them was a Start: exactly one nil *)
Lemma exactly_one_start_nil_quiescent : forall c ls s, reach c ls s ->
  Forall (fun pc => pc = Gone) (callers s) -> 1 <= cntl is_startret ls -> cntl is_nilret ls = 1.
Proof.
  intros c ls s H Hg Hr. destruct (exactly_one_start_nil _ _ _ H) as [_ [_ H3]]. specialize (H3 Hr).
  rewrite (cnt_all_gone is_retnil), (cnt_all_gone is_sbody) in H3 by auto. lia.
Qed.

(* ---------------------------------------------------------------- 3. Shutdown *)

Lemma shutdown_once_after_ctx_end : forall c ls s, reach c ls s ->
  cntl (is_begin PSd) ls <= 1 /\
  (forall pre post, ls = pre ++ LBegin PSd :: post -> ctx_ended c pre) /\
  (fFin s = true -> is_absent (oSd c) = false -> cntl (is_begin PSd) ls = 1 /\ In (LEnd PSd) ls).
Proof.
  intros c ls s H. destruct (inv_reach _ _ _ H) as [SI TI]. split; [|split].
  - rewrite (ti_bsd _ _ _ TI). destruct (_ && _); cbn; lia.
  - intros pre post E. subst ls. destruct (reach_split _ _ _ _ _ H) as [s1 [s2 [H1 [Hs _]]]].
    destruct (inv_reach _ _ _ H1) as [SI1 TI1].
    cbn in Hs. destruct (sd s1) eqn:Ed; try discriminate.
    assert (Hc : ctxDone s1 = true) by (apply (si_g_sd _ _ SI1); rewrite Ed; cbn; lia).
    destruct (ti_ctx _ _ _ TI1 Hc) as [Hm | [Hcl | Hp]].
    + left. apply (returned_of_cnt c PRun pre _ (ti_erun _ _ _ TI1)). lia.
    + right; left. destruct (cntl_pos_in _ _ Hcl) as [l [Hin Hl]].
      destruct l as [[]| | | | | | | ]; cbn in Hl; try discriminate. assumption.
    + right; right. destruct (cntl_pos_in _ _ Hp) as [l [Hin Hl]].
      destruct l; cbn in Hl; try discriminate. assumption.
  - intros Hf Ha. pose proof (fin_rank _ _ SI Hf) as Hm. pose proof (si_g_mn _ _ SI) as Hd. split.
    + rewrite (ti_bsd _ _ _ TI). rewrite Ha. replace (3 <=? drank (sd s)) with true by lia. reflexivity.
    + destruct (returned_of_cnt c PSd ls _ (ti_esd _ _ _ TI)) as [Hx|Hin]; [lia| |assumption].
      cbn in Hx. congruence.
Qed.

(* ---------------------------------------------------------------- 4. Cleanup *)

Lemma cleanup_once_after_run_and_shutdown : forall c ls s, reach c ls s ->
  cntl (is_begin PCl) ls <= 1 /\
  (forall pre post, ls = pre ++ LBegin PCl :: post -> returned c PRun pre /\ returned c PSd pre) /\
  (fFin s = true -> is_absent (oCl c) = false -> cntl (is_begin PCl) ls = 1 /\ In (LEnd PCl) ls).
Proof.
  intros c ls s H. destruct (inv_reach _ _ _ H) as [SI TI]. split; [|split].
  - rewrite (ti_bcl _ _ _ TI). destruct (_ && _); cbn; lia.
  - intros pre post E. subst ls. destruct (reach_split _ _ _ _ _ H) as [s1 [s2 [H1 [Hs _]]]].
    destruct (inv_reach _ _ _ H1) as [SI1 TI1].
    cbn in Hs. destruct (mn s1) eqn:Em; try discriminate.
    pose proof (si_g_mn _ _ SI1) as Hd. rewrite Em in Hd. cbn in Hd. split.
    + apply (returned_of_cnt c PRun pre _ (ti_erun _ _ _ TI1)). rewrite Em. reflexivity.
    + apply (returned_of_cnt c PSd pre _ (ti_esd _ _ _ TI1)). lia.
  - intros Hf Ha. pose proof (fin_rank _ _ SI Hf) as Hm. split.
    + rewrite (ti_bcl _ _ _ TI). rewrite Ha. replace (9 <=? mrank (mn s)) with true by lia. reflexivity.
    + destruct (returned_of_cnt c PCl ls _ (ti_ecl _ _ _ TI)) as [Hx|Hin]; [lia| |assumption].
      cbn in Hx. congruence.
Qed.

(* ---------------------------------------------------------------- 5. ErrorHandler *)

Lemma error_handler_once_after_cleanup_nonnil : forall c ls s, reach c ls s ->
  cntl (is_begin PEh) ls <= 1 /\
  (forall pre post, ls = pre ++ LBegin PEh :: post ->
     all_returned c pre /\
     (* the collector handed to the handler is not empty *)
     (forall s1, reach c pre s1 -> ec_is_empty (ec s1) = false)).
Proof.
  intros c ls s H. destruct (inv_reach _ _ _ H) as [SI TI]. split.
  - rewrite (ti_beh _ _ _ TI). destruct (_ && _ && _); cbn; lia.
  - intros pre post E. subst ls. destruct (reach_split _ _ _ _ _ H) as [s1 [s2 [H1 [Hs _]]]].
    destruct (inv_reach _ _ _ H1) as [SI1 TI1].
    cbn in Hs. destruct (eh s1) eqn:Ee; try discriminate.
    assert (Hm : 15 <= mrank (mn s1)) by (apply (si_g_eh _ _ SI1); rewrite Ee; cbn; lia).
    split.
    + eapply finished_all_returned; eauto. lia.
    + intros s1' H1'. unfold reach in *. rewrite H1 in H1'. inv H1'.
      rewrite (si_ec _ _ SI1). rewrite ec_empty_finished; [| lia | apply (si_g_mn _ _ SI1); lia | rewrite Ee; cbn; lia].
      pose proof (si_cfg _ _ SI1) as Hc. unfold pcs_cfg_ok in Hc. rewrite Ee in Hc.
      destruct (agg_nonnil c); [reflexivity|].
      rewrite !andb_false_r in Hc. discriminate.
Qed.

(* ---------------------------------------------------------------- 6/7. Wait *)

Lemma wait_ret_state : forall c pre i r post s, reach c (pre ++ LRet i (RWait r) :: post) s ->
  exists s1, reach c pre s1 /\ SInv c s1 /\ TInv c pre s1 /\
             (r <> WNotStarted -> fFin s1 = true) /\ wres_ok c r.
Proof.
  intros c pre i r post s H. destruct (reach_split _ _ _ _ _ H) as [s1 [s2 [H1 [Hs _]]]].
  destruct (inv_reach _ _ _ H1) as [SI1 TI1]. exists s1.
  split; [assumption|]. split; [assumption|]. split; [assumption|]. split.
  - intros Hr. cbn in Hs. unfold step_ret in Hs.
    destruct (nth_error (callers s1) i) as [pc|] eqn:En; [|discriminate].
    pose proof (Forall_nth _ _ _ _ _ (ti_callers _ _ _ TI1) En) as Hok.
    destruct pc; try discriminate.
    destruct r0, r; cbn in Hs; try discriminate; cbn in Hok; try tauto; congruence.
  - cbn in Hs. unfold step_ret in Hs.
    destruct (nth_error (callers s1) i) as [pc|] eqn:En; [|discriminate].
    pose proof (Forall_nth _ _ _ _ _ (ti_callers _ _ _ TI1) En) as Hok.
    destruct pc; try discriminate.
    destruct r0, r; cbn in Hs; try discriminate; cbn in Hok; cbn; try tauto.
    destruct Hok as [_ Hok].
    assert (e = e0).
    { destruct (ecs_eqb e e0) eqn:Ee; [|discriminate].
      unfold ecs_eqb in Ee. repeat rewrite andb_true_iff in Ee.
      destruct Ee as [[[[[[[A1 A2] A3] A4] A5] A6] A7] A8].
      apply eqb_prop in A1, A2, A3, A4, A5, A6, A7, A8. apply ecs_eq; assumption. }
    subst e0. exact Hok.
Qed.

Lemma wait_blocks_until_all_returned : forall c ls s, reach c ls s ->
  forall pre i r post, ls = pre ++ LRet i (RWait r) :: post -> r <> WNotStarted -> all_returned c pre.
Proof.
  intros c ls s H pre i r post E Hr. subst ls.
  destruct (wait_ret_state _ _ _ _ _ _ H) as [s1 [H1 [SI1 [TI1 [Hf _]]]]].
  eapply finished_all_returned; eauto using fin_rank.
Qed.

(* the aggregate: exactly the errors the phases returned, the panic values and the ErrRecoveredPanic
   marker if any phase panicked, nil iff nothing failed (wres_ok) *)
Lemma wait_error_complete : forall c ls s, reach c ls s ->
  forall pre i r post, ls = pre ++ LRet i (RWait r) :: post -> wres_ok c r.
Proof.
  intros c ls s H pre i r post E. subst ls.
  destruct (wait_ret_state _ _ _ _ _ _ H) as [s1 [_ [_ [_ [_ Hw]]]]]. exact Hw.
Qed.

(* ---------------------------------------------------------------- 8. Running() after Wait *)

Lemma fin_mono : forall c s l s', step c s l = Some s' -> fFin s = true -> fFin s' = true.
Proof.
  intros c s l s' H Hf.
  destruct s as [fr ff fs b cs cd pd ss es ms w e eh0 sd0 mn0 cl]. cbn in Hf. subst ff.
  destruct l as [k | t | p | p | i r | h i | | ]; cbn in H.
  - inv H. reflexivity.
  - destruct t as [i | | | ]; cbn in H.
    + unfold step_caller in H; cbn in H.
      destruct (nth_error cl i) as [pc|]; [|discriminate].
      destruct pc; try discriminate; cbn in H;
        try (inv H; reflexivity).
      * destruct b; try discriminate; inv H; reflexivity.
      * unfold step_body in H; cbn in H. destruct b; try discriminate; inv H; reflexivity.
      * destruct w; [|discriminate]. inv H. reflexivity.
    + unfold step_eh in H; cbn in H. destruct eh0; try discriminate; cbn in H;
        try (inv H; reflexivity).
      * destruct ms; [|discriminate]. inv H. reflexivity.
      * destruct es; [|discriminate]. inv H. reflexivity.
      * inv H. destruct (is_panic (oEh c)); reflexivity.
    + unfold step_sd in H; cbn in H. destruct sd0; try discriminate; cbn in H;
        try (inv H; reflexivity).
      * destruct cd; [|discriminate]. inv H. reflexivity.
      * inv H. destruct (is_err (oSd c)); reflexivity.
      * inv H. destruct (is_panic (oSd c)); reflexivity.
    + unfold step_main in H; cbn in H. destruct mn0; try discriminate; cbn in H;
        try (inv H; reflexivity).
      * destruct (is_absent (oRun c)); [|discriminate]. inv H. reflexivity.
      * inv H. destruct (is_err (oRun c)); reflexivity.
      * inv H. destruct (is_panic (oRun c)); [|destruct (is_absent (oRun c))]; reflexivity.
      * destruct ss; [|discriminate]. inv H. reflexivity.
      * destruct (is_absent (oCl c)); [|discriminate]. inv H. reflexivity.
      * inv H. destruct (is_err (oCl c)); reflexivity.
      * inv H. destruct (is_panic (oCl c)); reflexivity.
  - destruct p; cbn in H.
    + destruct mn0; try discriminate. destruct (is_absent (oRun c)); [discriminate|]. inv H. reflexivity.
    + destruct sd0; try discriminate. inv H. reflexivity.
    + destruct mn0; try discriminate. destruct (is_absent (oCl c)); [discriminate|]. inv H. reflexivity.
    + destruct eh0; try discriminate. inv H. reflexivity.
  - destruct p; cbn in H.
    + destruct mn0; try discriminate. inv H. reflexivity.
    + destruct sd0; try discriminate. inv H. reflexivity.
    + destruct mn0; try discriminate. inv H. reflexivity.
    + destruct eh0; try discriminate. inv H. reflexivity.
  - unfold step_ret in H; cbn in H.
    destruct (nth_error cl i) as [pc|]; [|discriminate].
    destruct pc, r; try discriminate; cbn in H;
      try (match type of H with (if ?b then _ else _) = _ => destruct b; [|discriminate] end);
      inv H; reflexivity.
  - destruct h.
    + destruct (nth_error cl i) as [[]|]; try discriminate. inv H. reflexivity.
    + destruct (nth_error cl i) as [[]|]; try discriminate. destruct b; try discriminate. inv H. reflexivity.
  - destruct mn0; try discriminate. inv H. reflexivity.
  - inv H. destruct cs; reflexivity.
Qed.

Lemma nth_upd : forall A (l : list A) i j x y,
  nth_error (upd l i x) j = Some y -> (i = j /\ y = x) \/ nth_error l j = Some y.
Proof.
  induction l as [|h t IH]; intros i j x y H; cbn in *.
  - destruct i; destruct j; discriminate.
  - destruct i, j; cbn in *; auto.
    + inv H. auto.
    + destruct (IH _ _ _ _ H) as [[-> ->]|]; auto.
Qed.

(* caller j does not hold the result `true` of a Running call *)
Definition no_true_at (j : nat) (cl : list cpc) : Prop :=
  forall pc, nth_error cl j = Some pc -> pc <> RRet true.

Lemma no_true_upd : forall j cl i pc', no_true_at j cl -> pc' <> RRet true -> no_true_at j (upd cl i pc').
Proof.
  intros j cl i pc' H Hp pc E. destruct (nth_upd _ _ _ _ _ _ E) as [[_ ->]|E']; auto.
Qed.

Lemma no_true_snoc : forall j cl pc', no_true_at j cl -> pc' <> RRet true -> no_true_at j (cl ++ [pc']).
Proof.
  intros j cl pc' H Hp pc E.
  destruct (Nat.lt_ge_cases j (length cl)) as [Hl|Hl].
  - rewrite nth_error_app1 in E by assumption. auto.
  - rewrite nth_error_app2 in E by assumption.
    destruct (j - length cl); cbn in E; [inv E; assumption|destruct n; discriminate].
Qed.

(* generic case analysis of one step: destruct every scrutinee until the successor state is explicit *)
Ltac crush_step H :=
  unfold step, step_tau, step_caller, step_body, step_eh, step_sd, step_main, step_begin, step_end, step_ret in H;
  repeat (cbn in H;
          match type of H with
          | Some _ = Some _ => fail 1
          | context [match ?x with _ => _ end] => destruct x; try discriminate
          end);
  inv H.

Ltac split_ifs :=
  repeat match goal with |- context [if ?b then _ else _] => destruct b end.

Ltac nt_tac :=
  cbn; split_ifs; cbn;
  first [ assumption
        | apply no_true_upd; [assumption | discriminate]
        | apply no_true_snoc; [assumption | discriminate] ].

(* once isFinished is set, a caller that does not yet hold `true` never will *)
Lemma no_true_step : forall c s l s' j, step c s l = Some s' -> fFin s = true ->
  no_true_at j (callers s) -> no_true_at j (callers s').
Proof.
  intros c s l s' j H Hf Hn.
  destruct s as [fr ff fs b cs cd pd ss es ms w e eh0 sd0 mn0 cl]. cbn in Hf, Hn. subst ff.
  destruct l as [k | t | p | p | i r | h i | | ]; [destruct k | destruct t | destruct p | destruct p | | destruct h | | ];
    crush_step H; nt_tac.
Qed.

Lemma no_true_run : forall c ls s s' j, run c s ls = Some s' -> fFin s = true ->
  no_true_at j (callers s) -> fFin s' = true /\ no_true_at j (callers s').
Proof.
  induction ls as [|l ls IH]; cbn; intros s s' j H Hf Hn.
  - inv H. auto.
  - destruct (step c s l) as [s1|] eqn:E; [|discriminate].
    eapply IH; eauto using fin_mono, no_true_step.
Qed.

Lemma upd_length : forall A (l : list A) i x, length (upd l i x) = length l.
Proof. induction l as [|h t IH]; intros i x; cbn; [destruct i; reflexivity|]. destruct i; cbn; auto. Qed.

(* callers are numbered in order of invocation *)
Lemma callers_length_step : forall c s l s', step c s l = Some s' ->
  length (callers s') = length (callers s) + Nat.b2n (is_inv l).
Proof.
  intros c s l s' H.
  destruct s as [fr ff fs b cs cd pd ss es ms w e eh0 sd0 mn0 cl].
  destruct l as [k | t | p | p | i r | h i | | ]; [destruct k | destruct t | destruct p | destruct p | | destruct h | | ];
    crush_step H; cbn; split_ifs; cbn; rewrite ?upd_length, ?app_length; cbn; lia.
Qed.

Lemma callers_length_run : forall c ls s s', run c s ls = Some s' ->
  length (callers s') = length (callers s) + cntl is_inv ls.
Proof.
  induction ls as [|l ls IH]; cbn; intros s s' H.
  - inv H. unfold cntl; cbn. lia.
  - destruct (step c s l) as [s1|] eqn:E; [|discriminate].
    rewrite (IH _ _ H), (callers_length_step _ _ _ _ E).
    unfold cntl; cbn. destruct (is_inv l); cbn; lia.
Qed.

(* A Running() call made after a Wait call returned (with anything but ErrServiceNotStarted) reports
   false: caller j is invoked after the Wait's return (callers are numbered by invocation, so j is at
   least the number of invocations before that return). *)
Lemma running_false_after_wait : forall c ls s, reach c ls s ->
  forall pre i r mid j b post,
    ls = pre ++ LRet i (RWait r) :: mid ++ LRet j (RRunning b) :: post ->
    r <> WNotStarted -> cntl is_inv pre <= j -> b = false.
Proof.
  intros c ls s H pre i r mid j b post E Hr Hj. subst ls.
  destruct (wait_ret_state _ _ _ _ _ _ H) as [s1 [H1 [SI1 [TI1 [Hf _]]]]]. specialize (Hf Hr).
  pose proof (callers_length_run _ _ _ _ H1) as Hlen. cbn in Hlen.
  unfold reach in H. apply run_app in H. destruct H as [s1' [H1' H2]].
  unfold reach in H1. rewrite H1 in H1'. inv H1'.
  assert (Hn : no_true_at j (callers s1')).
  { intros pc E. assert (j < length (callers s1')) by (apply nth_error_Some; congruence). lia. }
  replace (LRet i (RWait r) :: mid ++ LRet j (RRunning b) :: post)
    with ((LRet i (RWait r) :: mid) ++ LRet j (RRunning b) :: post) in H2 by reflexivity.
  apply run_app in H2. destruct H2 as [s3 [H3 H4]].
  destruct (no_true_run _ _ _ _ j H3 Hf Hn) as [_ Hn3].
  cbn in H4. destruct (step_ret s3 j (RRunning b)) as [s4|] eqn:Es; [|discriminate].
  unfold step_ret in Es. destruct (nth_error (callers s3) j) as [pc|] eqn:En; [|discriminate].
  specialize (Hn3 _ En). destruct pc; try discriminate.
  destruct b0, b; cbn in Es; try discriminate; congruence.
Qed.

(* ---------------------------------------------------------------- non-vacuity: concrete runs *)

Definition cfg_all_fail := MkCfg OErr OPanic OErr OOk.

(* one Start, a blocked Wait, Close; every phase runs; Wait returns the complete aggregate; Running false *)
Definition demo_log : list label :=
  [LInv KStart; LTau (TCaller 0); LTau (TCaller 0); LTau (TCaller 0); LTau (TCaller 0); LTau (TCaller 0);
   LTau (TCaller 0); LTau (TCaller 0); LTau (TCaller 0); LTau (TCaller 0); LTau (TCaller 0); LTau (TCaller 0); LTau (TCaller 0);
   LRet 0 (RStart SNil); LBegin PRun;
   LInv KWait; LTau (TCaller 1); LTau (TCaller 1);
   LInv KClose; LTau (TCaller 2); LTau (TCaller 2); LTau (TCaller 2); LRet 2 RClose;
   LTau TSd; LBegin PSd; LEnd PSd; LTau TSd; LTau TSd; LTau TSd;
   LEnd PRun; LTau TMain; LTau TMain; LTau TMain; LTau TMain; LTau TMain;
   LBegin PCl; LEnd PCl; LTau TMain; LTau TMain; LTau TMain; LTau TMain; LTau TMain; LTau TMain;
   LTau TEh; LTau TEh; LTau TEh; LTau TEh; LBegin PEh; LEnd PEh; LTau TEh; LTau TEh; LTau TEh;
   LTau (TCaller 1); LTau (TCaller 1);
   LRet 1 (RWait (WAgg (MkEc true false false true true false false true)));
   LInv KRunning; LTau (TCaller 3); LRet 3 (RRunning false)].

Example demo_reachable : exists s, reach cfg_all_fail demo_log s /\ fFin s = true /\ wg s = 0.
Proof. eexists. split; [vm_compute; reflexivity|]. split; reflexivity. Qed.

(* the premises of the ordering theorems are satisfiable: this log contains each phase and a Wait return *)
Example demo_has_events :
  In (LBegin PSd) demo_log /\ In (LBegin PCl) demo_log /\ In (LBegin PEh) demo_log /\
  In (LRet 0 (RStart SNil)) demo_log /\ In (LRet 3 (RRunning false)) demo_log.
Proof. cbn. intuition. Qed.

(* a second Start on a finished service reports ErrServiceReturned, a concurrent one ErrServiceAlreadyStarted *)
Example demo_second_start : exists s,
  reach (MkCfg OAbsent OAbsent OAbsent OAbsent)
    [LInv KStart; LInv KStart; LTau (TCaller 1); LTau (TCaller 0); LTau (TCaller 0);
     LTau (TCaller 0); LTau (TCaller 0); LTau (TCaller 0); LTau (TCaller 0); LTau (TCaller 0); LTau (TCaller 0); LTau (TCaller 0);
     LTau (TCaller 0); LTau (TCaller 0); LTau (TCaller 0); LTau (TCaller 1); LRet 1 (RStart SAlready); LRet 0 (RStart SNil)] s.
Proof. eexists. vm_compute. reflexivity. Qed.

(* ---------------------------------------------------------------- 9. a signal never overtakes a Recover

   Every `close(signal)` / flag store that lets another goroutine (or a Wait caller) proceed happens
   after the deferred erc.Recover of the same goroutine recorded the phase's outcome, panic included. *)

Definition sd_recorded (c : cfg) (e : ecs) : Prop :=
  tSdErr e = is_err (oSd c) /\ tSdPan e = is_panic (oSd c) /\ (is_panic (oSd c) = true -> tMark e = true).
Definition run_recorded (c : cfg) (e : ecs) : Prop :=
  tRunErr e = is_err (oRun c) /\ tRunPan e = is_panic (oRun c) /\
  (is_panic (oRun c) || is_absent (oRun c) = true -> tMark e = true).
Definition cl_recorded (c : cfg) (e : ecs) : Prop :=
  tClErr e = is_err (oCl c) /\ tClPan e = is_panic (oCl c) /\ (is_panic (oCl c) = true -> tMark e = true).

Lemma shutdown_panic_recorded_before_signal : forall c ls s, reach c ls s ->
  sdSig s = true -> sd_recorded c (ec s).
Proof.
  intros c ls s H Hs. destruct (inv_reach _ _ _ H) as [SI _].
  rewrite (si_sdsig _ _ SI) in Hs. rewrite (si_ec _ _ SI). unfold sd_recorded, ec_of; cbn.
  replace (5 <=? drank (sd s)) with true by lia. replace (6 <=? drank (sd s)) with true by lia.
  rewrite !andb_true_r. repeat split. intros Hp. rewrite Hp. cbn. rewrite orb_true_r. reflexivity.
Qed.

(* the main goroutine's chain: ehSignal is closed after Run's outcome is recorded; isFinished is stored
   (and mainSignal closed) after Run's, Shutdown's and Cleanup's outcomes are recorded *)
Lemma run_recorded_before_eh_signal : forall c ls s, reach c ls s ->
  ehSig s = true -> run_recorded c (ec s) /\ sd_recorded c (ec s).
Proof.
  intros c ls s H Hs. destruct (inv_reach _ _ _ H) as [SI _].
  rewrite (si_ehsig _ _ SI) in Hs. pose proof (si_g_mn _ _ SI) as Hd.
  rewrite (si_ec _ _ SI). unfold run_recorded, sd_recorded, ec_of; cbn.
  replace (4 <=? mrank (mn s)) with true by lia. replace (6 <=? mrank (mn s)) with true by lia.
  replace (5 <=? drank (sd s)) with true by lia. replace (6 <=? drank (sd s)) with true by lia.
  rewrite !andb_true_r. repeat split.
  - intros Hp. rewrite Hp. reflexivity.
  - intros Hp. rewrite Hp. cbn. rewrite orb_true_r. reflexivity.
Qed.

Lemma all_recorded_before_finished : forall c ls s, reach c ls s ->
  fFin s = true \/ mainSig s = true ->
  run_recorded c (ec s) /\ sd_recorded c (ec s) /\ cl_recorded c (ec s).
Proof.
  intros c ls s H Hs. destruct (inv_reach _ _ _ H) as [SI _].
  assert (Hm : 13 <= mrank (mn s)).
  { destruct Hs as [Hs|Hs]; [apply (fin_rank _ _ SI Hs)|]. rewrite (si_mainsig _ _ SI) in Hs. lia. }
  pose proof (si_g_mn _ _ SI) as Hd.
  rewrite (si_ec _ _ SI). unfold run_recorded, sd_recorded, cl_recorded, ec_of; cbn.
  replace (4 <=? mrank (mn s)) with true by lia. replace (6 <=? mrank (mn s)) with true by lia.
  replace (11 <=? mrank (mn s)) with true by lia. replace (12 <=? mrank (mn s)) with true by lia.
  replace (5 <=? drank (sd s)) with true by lia. replace (6 <=? drank (sd s)) with true by lia.
  rewrite !andb_true_r. repeat split.
  - intros Hp. rewrite Hp. reflexivity.
  - intros Hp. rewrite Hp. cbn. rewrite orb_true_r. reflexivity.
  - intros Hp. rewrite Hp. cbn. rewrite !orb_true_r. reflexivity.
Qed.

(* ---------------------------------------------------------------- the swapped defer order is refuted

   Variant of the Shutdown goroutine in which `defer erc.Recover(ec)` is registered BEFORE
   `defer close(shutdownSignal)` (so the signal is closed first, the panic recorded afterwards); every
   other step is unchanged.  The goroutine used when no Shutdown is configured is left as it is. *)

Definition step_sd_swapped (c : cfg) (s : state) : option state :=
  if is_absent (oSd c) then step_sd c s
  else match sd s with
       | D4 => Some (set_sd D5 (set_sdSig true s))                                             (* close(shutdownSignal) *)
       | D5 => Some (set_sd D6 (if is_panic (oSd c) then set_ec (add_SdPan (ec s)) s else s))  (* Recover *)
       | _ => step_sd c s
       end.

Definition step_swapped (c : cfg) (s : state) (l : label) : option state :=
  match l with LTau TSd => step_sd_swapped c s | _ => step c s l end.

Fixpoint run_swapped (c : cfg) (s : state) (ls : list label) : option state :=
  match ls with
  | [] => Some s
  | l :: ls' => match step_swapped c s l with Some s' => run_swapped c s' ls' | None => None end
  end.

Definition cfg_sd_panic := MkCfg OOk OPanic OAbsent OAbsent.

(* Start; Run returns; Shutdown panics; the signal is closed; the main goroutine finishes; a Wait that
   arrives now takes the isFinished fast path while the panic is not yet recorded *)
Definition swapped_log : list label :=
  [LInv KStart; LTau (TCaller 0); LTau (TCaller 0); LTau (TCaller 0); LTau (TCaller 0); LTau (TCaller 0); LTau (TCaller 0);
   LTau (TCaller 0); LTau (TCaller 0); LTau (TCaller 0); LTau (TCaller 0); LTau (TCaller 0); LTau (TCaller 0);
   LRet 0 (RStart SNil); LBegin PRun; LEnd PRun; LTau TMain; LTau TMain; LTau TMain;
   LTau TSd; LBegin PSd; LEnd PSd; LTau TSd;
   LTau TMain; LTau TMain; LTau TMain; LTau TMain;
   LInv KWait; LTau (TCaller 1); LTau (TCaller 1); LRet 1 (RWait WNil)].

Lemma wait_error_complete_swapped_refuted :
  exists s, run_swapped cfg_sd_panic init swapped_log = Some s /\
            In (LRet 1 (RWait WNil)) swapped_log /\ ~ wres_ok cfg_sd_panic WNil.
Proof.
  eexists. split; [vm_compute; reflexivity|]. split; [cbn; tauto|]. cbn. discriminate.
Qed.

Lemma shutdown_panic_recorded_before_signal_swapped_refuted :
  exists ls s, run_swapped cfg_sd_panic init ls = Some s /\ sdSig s = true /\ ~ sd_recorded cfg_sd_panic (ec s).
Proof.
  exists (firstn 23 swapped_log). eexists. split; [vm_compute; reflexivity|]. split; [reflexivity|].
  unfold sd_recorded; cbn. intros [_ [H _]]. discriminate.
Qed.

(* the same log is not a run of the real step relation: there the panic is recorded before the signal *)
Example swapped_log_not_a_run : run cfg_sd_panic init swapped_log = None.
Proof. vm_compute. reflexivity. Qed.
