(* Lemmas about the pieces of Model/SetModel.v: the hash (sorted association list), the element
   store, the decidable permutation test and the stable insertion sort. Stdlib + lia. *)
From FunV Require Import Base.Tac Base.ListX Model.SetModel.
Local Open Scope Z_scope.

(* ------------------------------------------------------------------ generic list facts *)
Lemma filter_perm {A} (f : A -> bool) (a b : list A) : Permutation a b -> Permutation (filter f a) (filter f b).
Proof.
  induction 1; simpl.
  - constructor.
  - destruct (f x); auto.
  - destruct (f x), (f y); auto. apply perm_swap.
  - etransitivity; eauto.
Qed.

Lemma filter_all {A} (f : A -> bool) (l : list A) : (forall x, In x l -> f x = true) -> filter f l = l.
Proof.
  induction l as [|a l IH]; simpl; intros H; [reflexivity|].
  rewrite (H a (or_introl eq_refl)). f_equal. apply IH. intros; apply H; auto.
Qed.

Lemma existsb_eqb_In (v : Z) (l : list Z) : existsb (Z.eqb v) l = true <-> In v l.
Proof.
  rewrite existsb_exists. split.
  - intros (x & Hin & E). apply Z.eqb_eq in E. subst. exact Hin.
  - intros H. exists v. split; [exact H|apply Z.eqb_refl].
Qed.

Lemma bool_eq_iff (a b : bool) : (a = true <-> b = true) -> a = b.
Proof. destruct a, b; intuition congruence. Qed.

(* ------------------------------------------------------------------ perm_b *)
Lemma perm_b_spec a b : perm_b a b = true <-> Permutation a b.
Proof.
  unfold perm_b, count. rewrite forallb_forall. split.
  - intros H. apply (Permutation_count_occ Z.eq_dec). intros x.
    destruct (in_dec Z.eq_dec x (a ++ b)) as [Hin|Hn].
    + apply Nat.eqb_eq. apply H, Hin.
    + rewrite in_app_iff in Hn.
      rewrite (proj1 (count_occ_not_In Z.eq_dec a x)) by tauto.
      rewrite (proj1 (count_occ_not_In Z.eq_dec b x)) by tauto. reflexivity.
  - intros P x _. apply Nat.eqb_eq. apply (Permutation_count_occ Z.eq_dec). exact P.
Qed.

Lemma perm_b_congr a b b' : Permutation b b' -> perm_b a b = perm_b a b'.
Proof.
  intros P. apply bool_eq_iff. rewrite !perm_b_spec. split; intros Q.
  - etransitivity; eauto.
  - etransitivity; [exact Q|symmetry; exact P].
Qed.

(* ------------------------------------------------------------------ hash *)
Fixpoint h_sorted (m : hmap) : Prop :=
  match m with
  | [] => True
  | (k, _) :: m' => (forall k', In k' (h_keys m') -> k < k') /\ h_sorted m'
  end.

Lemma h_get_set_same m k e : h_get (h_set m k e) k = Some e.
Proof.
  induction m as [|[k' e'] m IH]; simpl.
  - rewrite Z.eqb_refl. reflexivity.
  - destruct (Z.eqb_spec k k'); simpl.
    + rewrite Z.eqb_refl. reflexivity.
    + destruct (Z.ltb_spec k k'); simpl.
      * rewrite Z.eqb_refl. reflexivity.
      * destruct (Z.eqb_spec k k'); [contradiction|]. exact IH.
Qed.

Lemma h_get_set_other m k e j : j <> k -> h_get (h_set m k e) j = h_get m j.
Proof.
  intros N. induction m as [|[k' e'] m IH]; simpl.
  - destruct (Z.eqb_spec j k); [contradiction|reflexivity].
  - destruct (Z.eqb_spec k k'); simpl.
    + subst. destruct (Z.eqb_spec j k'); [contradiction|reflexivity].
    + destruct (Z.ltb_spec k k'); simpl.
      * destruct (Z.eqb_spec j k); [contradiction|reflexivity].
      * destruct (Z.eqb_spec j k'); [reflexivity|exact IH].
Qed.

Lemma h_get_del_same m k : h_get (h_del m k) k = None.
Proof.
  induction m as [|[k' e'] m IH]; simpl; [reflexivity|].
  destruct (Z.eqb_spec k' k); simpl; [exact IH|].
  destruct (Z.eqb_spec k k'); [subst; contradiction|exact IH].
Qed.

Lemma h_get_del_other m k j : j <> k -> h_get (h_del m k) j = h_get m j.
Proof.
  intros N. induction m as [|[k' e'] m IH]; simpl; [reflexivity|].
  destruct (Z.eqb_spec k' k); simpl.
  - subst. destruct (Z.eqb_spec j k); [contradiction|exact IH].
  - destruct (Z.eqb_spec j k'); [reflexivity|exact IH].
Qed.

Lemma h_get_in m k : h_get m k <> None <-> In k (h_keys m).
Proof.
  induction m as [|[k' e'] m IH]; simpl; [intuition congruence|].
  destruct (Z.eqb_spec k k').
  - subst. split; [auto|discriminate].
  - rewrite IH. intuition congruence.
Qed.

Lemma h_check_in m k : h_check m k = true <-> In k (h_keys m).
Proof.
  rewrite <- h_get_in. unfold h_check. destruct (h_get m k); intuition congruence.
Qed.

Lemma h_get_none_notin m k : h_get m k = None <-> ~ In k (h_keys m).
Proof. rewrite <- h_get_in. destruct (h_get m k); intuition congruence. Qed.

Lemma h_keys_set_in m k e x : In x (h_keys (h_set m k e)) <-> x = k \/ In x (h_keys m).
Proof.
  rewrite <- !h_get_in. destruct (Z.eq_dec x k) as [->|N].
  - rewrite h_get_set_same. intuition congruence.
  - rewrite h_get_set_other by exact N. intuition congruence.
Qed.

Lemma h_keys_del m k : h_keys (h_del m k) = filter (fun x => negb (Z.eqb x k)) (h_keys m).
Proof.
  induction m as [|[k' e'] m IH]; simpl; [reflexivity|].
  destruct (Z.eqb k' k); simpl; [exact IH|f_equal; exact IH].
Qed.

Lemma h_sorted_set m k e : h_sorted m -> h_sorted (h_set m k e).
Proof.
  induction m as [|[k' e'] m IH]; simpl; [tauto|].
  intros [Hlt Hs]. destruct (Z.eqb_spec k k'); simpl.
  - subst. tauto.
  - destruct (Z.ltb_spec k k'); simpl.
    + split; [|tauto]. intros x [<-|Hx]; [lia|]. specialize (Hlt x Hx). lia.
    + split; [|apply IH, Hs]. intros x Hx. apply h_keys_set_in in Hx. destruct Hx as [->|Hx]; [lia|auto].
Qed.

Lemma h_sorted_del m k : h_sorted m -> h_sorted (h_del m k).
Proof.
  induction m as [|[k' e'] m IH]; simpl; [tauto|].
  intros [Hlt Hs]. destruct (Z.eqb k' k); simpl; [auto|].
  split; [|auto]. intros x Hx. rewrite h_keys_del in Hx. apply filter_In in Hx. apply Hlt, Hx.
Qed.

Lemma h_sorted_nodup m : h_sorted m -> NoDup (h_keys m).
Proof.
  induction m as [|[k e] m IH]; simpl; [constructor|].
  intros [Hlt Hs]. constructor; [|auto]. intros Hin. specialize (Hlt k Hin). lia.
Qed.

(* keys after a set: same list when present, one more (somewhere) when absent *)
Lemma h_keys_set_present m k e : h_sorted m -> In k (h_keys m) -> h_keys (h_set m k e) = h_keys m.
Proof.
  induction m as [|[k' e'] m IH]; simpl; [tauto|].
  intros [Hlt Hs] Hin. destruct (Z.eqb_spec k k'); simpl; [subst; reflexivity|].
  destruct Hin as [->|Hin]; [contradiction|].
  destruct (Z.ltb_spec k k'); simpl.
  - specialize (Hlt k Hin). lia.
  - f_equal. auto.
Qed.

Lemma h_keys_set_absent m k e : ~ In k (h_keys m) -> Permutation (h_keys (h_set m k e)) (h_keys m ++ [k]).
Proof.
  induction m as [|[k' e'] m IH]; simpl; [reflexivity|].
  intros N. destruct (Z.eqb_spec k k'); simpl; [subst; tauto|].
  destruct (Z.ltb_spec k k'); simpl.
  - change (Permutation (k :: (k' :: h_keys m)) ((k' :: h_keys m) ++ [k])). apply Permutation_cons_append.
  - constructor. apply IH. tauto.
Qed.

(* ------------------------------------------------------------------ element store *)
Lemma st_items_push st h v : st_items (st_push_back st h v) = st_items st ++ [v].
Proof. unfold st_items, st_push_back. rewrite map_app. reflexivity. Qed.

Lemma st_remove_in st h p : In p (fst (st_remove st h)) <-> In p st /\ fst p <> h.
Proof.
  unfold st_remove. cbn [fst]. rewrite filter_In. cbv beta.
  match goal with |- context [Z.eqb ?a ?b] => destruct (Z.eqb_spec a b) as [e|n] end; simpl.
  - split; [intros [_ H]; discriminate|intros [_ H]; contradiction].
  - split; intros [H _]; auto.
Qed.

(* removing the element that carries value k, when handles and values are both duplicate-free *)
Lemma st_remove_items st h k :
  NoDup (map fst st) -> In (h, k) st ->
  st_items (fst (st_remove st h)) = filter (fun x => negb (Z.eqb x k)) (st_items st) \/ ~ NoDup (st_items st).
Proof.
  intros ND Hin. destruct (ListDec.NoDup_dec Z.eq_dec (st_items st)) as [NDv|]; [left|right; assumption].
  unfold st_remove, st_items. simpl.
  induction st as [|[h' k'] st IH]; simpl in *; [reflexivity|].
  inversion ND as [|? ? Hn ND']; subst. inversion NDv as [|? ? Hnv NDv']; subst.
  destruct Hin as [E|Hin].
  - inversion E; subst. rewrite !Z.eqb_refl. simpl.
    rewrite !filter_all; [reflexivity| |].
    + intros x Hx. destruct (Z.eqb_spec x k); [subst; contradiction|reflexivity].
    + intros [h2 k2] Hx. simpl. destruct (Z.eqb_spec h2 h); [|reflexivity].
      subst. exfalso. apply Hn. apply in_map_iff. exists (h, k2). auto.
  - destruct (Z.eqb_spec h' h); simpl.
    + subst. exfalso. apply Hn. apply in_map_iff. exists (h, k). auto.
    + destruct (Z.eqb_spec k' k); simpl.
      * subst. exfalso. apply Hnv. apply in_map_iff. exists (h, k). auto.
      * f_equal. apply IH; auto.
Qed.

(* ------------------------------------------------------------------ stable insertion sort *)
Section Sort.
Variable lt : Z -> Z -> bool.

Fixpoint v_ins (x : Z) (l : list Z) : list Z :=
  match l with
  | [] => [x]
  | y :: l' => if lt y x then y :: v_ins x l' else x :: y :: l'
  end.
Definition v_sort (l : list Z) : list Z := fold_right v_ins [] l.

Lemma st_ins_items x l : st_items (st_ins lt x l) = v_ins (snd x) (st_items l).
Proof.
  induction l as [|y l IH]; simpl; [reflexivity|]. destruct (lt (snd y) (snd x)); simpl; [f_equal; exact IH|reflexivity].
Qed.

Lemma st_sort_items st : st_items (st_sort lt st) = v_sort (st_items st).
Proof.
  induction st as [|x st IH]; simpl; [reflexivity|]. unfold st_sort in *. simpl. rewrite st_ins_items, IH. reflexivity.
Qed.

Lemma st_ins_perm x l : Permutation (st_ins lt x l) (x :: l).
Proof.
  induction l as [|y l IH]; simpl; [reflexivity|]. destruct (lt (snd y) (snd x)); [|reflexivity].
  rewrite IH. apply perm_swap.
Qed.

Lemma st_sort_perm st : Permutation (st_sort lt st) st.
Proof.
  induction st as [|x st IH]; simpl; [reflexivity|]. unfold st_sort in *. simpl. rewrite st_ins_perm. constructor. exact IH.
Qed.

Lemma v_ins_perm x l : Permutation (v_ins x l) (x :: l).
Proof.
  induction l as [|y l IH]; simpl; [reflexivity|]. destruct (lt y x); [|reflexivity].
  rewrite IH. apply perm_swap.
Qed.

Lemma v_sort_perm l : Permutation (v_sort l) l.
Proof.
  induction l as [|x l IH]; simpl; [reflexivity|]. rewrite v_ins_perm. constructor. exact IH.
Qed.

(* sortedness: no element is lt its predecessor *)
Fixpoint v_sorted (l : list Z) : Prop :=
  match l with
  | [] => True
  | x :: l' => match l' with [] => True | y :: _ => lt y x = false /\ v_sorted l' end
  end.

Hypothesis lt_irrefl : forall a, lt a a = false.
Hypothesis lt_trans : forall a b c, lt a b = true -> lt b c = true -> lt a c = true.
Hypothesis lt_neg_trans : forall a b c, lt a b = false -> lt b c = false -> lt a c = false.

Lemma lt_asym a b : lt a b = true -> lt b a = false.
Proof.
  intros H. destruct (lt b a) eqn:E; [|reflexivity].
  pose proof (lt_trans _ _ _ H E) as H1. rewrite lt_irrefl in H1. discriminate.
Qed.

Lemma v_ins_sorted x l : v_sorted l -> v_sorted (v_ins x l).
Proof.
  induction l as [|y l IH]; simpl v_ins; [simpl; tauto|].
  intros S. destruct (lt y x) eqn:E.
  - assert (S' : v_sorted l) by (destruct l; simpl in *; tauto).
    specialize (IH S'). destruct l as [|z l].
    + simpl. split; [apply lt_asym, E|exact I].
    + simpl v_ins in *. destruct (lt z x) eqn:E2.
      * change (lt z y = false /\ v_sorted (z :: v_ins x l)). split; [simpl in S; tauto|exact IH].
      * change (lt x y = false /\ v_sorted (x :: z :: l)). split; [apply lt_asym, E|exact IH].
  - change (lt y x = false /\ v_sorted (y :: l)). tauto.
Qed.

Lemma v_sort_sorted l : v_sorted (v_sort l).
Proof. induction l as [|x l IH]; simpl; [exact I|apply v_ins_sorted, IH]. Qed.

(* a sorted list is a fixed point of the stable sort *)
Lemma v_ins_head x l : v_sorted (x :: l) -> v_ins x l = x :: l.
Proof.
  destruct l as [|y l]; simpl; [reflexivity|]. intros [E _]. rewrite E. reflexivity.
Qed.

Lemma v_sort_fixed l : v_sorted l -> v_sort l = l.
Proof.
  induction l as [|x l IH]; simpl; [reflexivity|]. intros S.
  assert (S' : v_sorted l) by (destruct l; simpl in *; tauto).
  rewrite IH by exact S'. apply v_ins_head. exact S.
Qed.
End Sort.
