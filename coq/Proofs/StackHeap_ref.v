(* The LIFO reference for dt.Stack: every stack is a plain list (top first) of item identities,
   values live in a separate map; no next pointers, no sentinel chain, no length field.
   Definitions only; the refinement proof is in StackHeap_sim.v.

   Identities are natural numbers handed out by a counter in the order in which the code allocates
   (an item per Push / NewItem / decoded JSON element, one sentinel per stack at its first
   initialisation, one temporary stack per UnmarshalJSON) so that the model's addresses and the
   reference's identities coincide and handle tables can be compared literally.

   What the reference fixes:
     Push = cons, Pop = tail (returning the head), Len = length, Head/Next walk = iterator = the list,
     Item.Append(n) = cons n on the receiver's stack if the receiver belongs to one and n is a valid
       item that belongs to none; otherwise nothing changes and the receiver is returned,
     Item.Remove = delete that item from its list (true) / nothing (false) for items in no stack,
       the sentinel and nil,
     Item.Set = change the value (refused on a sentinel),
     In(s) = membership in s's list (the sentinel of s also answers true),
     PopIterator = yield the list, leave [],  Append(vs...) = push each,
     UnmarshalJSON(vs) = vs ++ list,  MarshalJSON = the list,
     Item.Attach(t) = pop t's items one by one and Item.Append each to the receiver,
     Next() of an item that has left its stack = what followed it at that moment. *)
From FunV Require Import Base.Tac Model.StackHeap.
Local Open Scope Z_scope.

Record rstate := mkR {
  rseq : nat -> list nat;      (* items of each stack, top first *)
  rsen : nat -> option nat;    (* its sentinel, once the stack has been initialised *)
  rval : nat -> Z;             (* Value() *)
  rok : nat -> bool;           (* Ok() *)
  rnx : nat -> option nat;     (* Next() of an item that is in no stack *)
  rif : nat;                   (* identities handed out so far *)
  rsf : nat }.                 (* stacks handed out so far *)

Definition rinit : rstate :=
  mkR (fun _ => []) (fun _ => None) (fun _ => 0) (fun _ => false) (fun _ => None) 0 2.

Definition set_rseq (r : rstate) (s : nat) (l : list nat) : rstate :=
  mkR (upd (rseq r) s l) (rsen r) (rval r) (rok r) (rnx r) (rif r) (rsf r).
Definition set_rnx (r : rstate) (f : nat -> option nat) : rstate :=
  mkR (rseq r) (rsen r) (rval r) (rok r) f (rif r) (rsf r).

Definition mem (x : nat) (l : list nat) : bool := existsb (Nat.eqb x) l.

(* x belongs to stack s: it is one of its items or its sentinel *)
Definition r_in (r : rstate) (x s : nat) : bool := mem x (rseq r s) || onat_eqb (rsen r s) (Some x).
Definition r_owner (r : rstate) (x : nat) : option nat := find (r_in r x) (seq 0 (rsf r)).

(* the element after x in l (d after the last one) *)
Fixpoint succ_in (x : nat) (l : list nat) (d : option nat) : option nat :=
  match l with
  | [] => d
  | y :: l' => if Nat.eqb x y then (match l' with [] => d | z :: _ => Some z end) else succ_in x l' d
  end.

Definition top (r : rstate) (s : nat) : option nat :=
  match rseq r s with x :: _ => Some x | [] => rsen r s end.

Definition r_next (r : rstate) (x : nat) : option nat :=
  match r_owner r x with
  | None => rnx r x
  | Some s => if mem x (rseq r s) then succ_in x (rseq r s) (rsen r s) else None
  end.

Definition r_alloc (r : rstate) (v : Z) (ok : bool) : rstate * nat :=
  (mkR (rseq r) (rsen r) (upd (rval r) (rif r) v) (upd (rok r) (rif r) ok) (upd (rnx r) (rif r) None) (S (rif r)) (rsf r),
   rif r).

(* first use of a zero-value stack: it gets its sentinel *)
Definition r_init (r : rstate) (s : nat) : rstate :=
  match rsen r s with
  | Some _ => r
  | None => let '(r1, e) := r_alloc r 0 false in
            mkR (rseq r1) (upd (rsen r1) s (Some e)) (rval r1) (rok r1) (rnx r1) (rif r1) (rsf r1)
  end.

Definition r_cons (r : rstate) (s x : nat) : rstate := set_rseq r s (x :: rseq r s).

Definition r_push (r : rstate) (s : nat) (v : Z) : rstate :=
  let r1 := r_init r s in
  let '(r2, x) := r_alloc r1 v true in
  r_cons r2 s x.

Definition r_pop (r : rstate) (s : nat) : rstate * option nat :=
  let r1 := r_init r s in
  match rseq r1 s with
  | [] => (r1, rsen r1 s)
  | x :: l => (set_rseq (set_rnx r1 (upd (rnx r1) x (match l with y :: _ => Some y | [] => rsen r1 s end))) s l, Some x)
  end.

Definition r_head (r : rstate) (s : nat) : rstate * option nat :=
  let r1 := r_init r s in (r1, top r1 s).

Definition r_values (r : rstate) (s : nat) : list Z := map (rval r) (rseq r s).

Fixpoint r_appendv (r : rstate) (s : nat) (vs : list Z) : rstate :=
  match vs with [] => r | v :: vs' => r_appendv (r_push r s v) s vs' end.

(* PopIterator: pop until the stack is empty (the last Pop returns the sentinel and ends the iteration) *)
Fixpoint r_pop_all (n : nat) (r : rstate) (s : nat) : rstate :=
  match n with O => fst (r_pop r s) | S k => r_pop_all k (fst (r_pop r s)) s end.

Definition r_popiter (r : rstate) (s : nat) : rstate * list Z :=
  (r_pop_all (length (rseq r s)) r s, r_values r s).

Definition r_walk (r : rstate) (s : nat) : rstate * list Z :=
  let r1 := r_init r s in (r1, r_values r1 s).

Definition r_append (r : rstate) (it n : option nat) : res (rstate * option nat) :=
  match n with
  | None => Ok (r, it)
  | Some n' =>
      match it with
      | None => Panic
      | Some i =>
          match r_owner r i with
          | None => Ok (r, it)
          | Some s =>
              match r_owner r n' with
              | Some _ => Ok (r, it)
              | None => if negb (rok r n') then Ok (r, it) else Ok (r_cons r s n', Some n')
              end
          end
      end
  end.

Definition r_remove (r : rstate) (it : option nat) : rstate * bool :=
  match it with
  | None => (r, false)
  | Some i =>
      match r_owner r i with
      | None => (r, false)
      | Some s =>
          if negb (mem i (rseq r s)) then (r, false)      (* the sentinel *)
          else (set_rseq (set_rnx r (upd (rnx r) i (succ_in i (rseq r s) (rsen r s)))) s
                         (filter (fun y => negb (Nat.eqb i y)) (rseq r s)), true)
      end
  end.

Definition r_is_sentinel (r : rstate) (i : nat) : bool :=
  match r_owner r i with Some s => negb (mem i (rseq r s)) | None => false end.

Definition r_set (r : rstate) (it : option nat) (v : Z) : res (rstate * bool) :=
  match it with
  | None => Panic
  | Some i =>
      if r_is_sentinel r i then Ok (r, false)
      else Ok (mkR (rseq r) (rsen r) (upd (rval r) i v) (upd (rok r) i true) (rnx r) (rif r) (rsf r), true)
  end.

(* pop every item of t and hand it to Item.Append of `it`; with follow = true the receiver of the next
   Append is the result of the previous one (Item.Attach), otherwise it stays the same (UnmarshalJSON) *)
Fixpoint r_move_all (n : nat) (follow : bool) (r : rstate) (it : option nat) (t : nat) : res rstate :=
  match n with
  | O => Ok (fst (r_pop r t))      (* the Pop that finds t empty ends the loop *)
  | S k => let '(r1, x) := r_pop r t in
           do y <- r_append r1 it x;
           r_move_all k follow (fst y) (if follow then snd y else it) t
  end.

Definition r_attach (r : rstate) (it : option nat) (st : option nat) : res (rstate * bool) :=
  match st with
  | None => Ok (r, false)
  | Some t =>
      match rseq r t with
      | [] => Ok (r, false)
      | _ :: _ =>
          match it with
          | None => Panic
          | Some i =>
              if onat_eqb (Some t) (r_owner r i) then Ok (r, false)
              else do r1 <- r_move_all (length (rseq r t)) true r it t; Ok (r1, true)
          end
      end
  end.

(* UnmarshalJSON(vs): the decoded values are pushed on a temporary stack in order, which is then
   moved item by item onto s: the values end up in their original order on top of s *)
Fixpoint r_fill (r : rstate) (head : option nat) (vs : list Z) : res (rstate * option nat) :=
  match vs with
  | [] => Ok (r, head)
  | v :: vs' =>
      let '(r1, e) := r_alloc r 0 true in
      do a <- r_set r1 (Some e) v;
      do b <- r_append (fst a) head (Some e);
      r_fill (fst b) (snd b) vs'
  end.

Definition r_unmarshal (r : rstate) (s : nat) (vs : list Z) : res rstate :=
  let ns := rsf r in
  let r0 := mkR (rseq r) (rsen r) (rval r) (rok r) (rnx r) (rif r) (S (rsf r)) in
  let '(r1, head) := r_head r0 ns in
  do a <- r_fill r1 head vs;
  let '(r2, head') := r_head (fst a) s in
  r_move_all (length (rseq r2 ns)) false r2 head' ns.

(* ------------------------------------------------------------------ sessions *)

Record rsess := mkRS { rsr : rstate; rhtab : list nat; rstab : list nat }.

Definition rsinit : rsess := mkRS rinit [] [0%nat; 1%nat].

Definition rhandle (rs : rsess) (h : Z) : option nat :=
  if h <? 0 then None else nth_error (rhtab rs) (Z.to_nat h).
Definition rstack_at (rs : rsess) (k : nat) : nat := nth k (rstab rs) 0%nat.

Definition rret_item (rs : rsess) (r : rstate) (it : option nat) : rsess * ret :=
  let '(tab, h) := note_item (rhtab rs) it in (mkRS r tab (rstab rs), RItem h).
Definition rwith (rs : rsess) (r : rstate) : rsess := mkRS r (rhtab rs) (rstab rs).

Definition rstep (rs : rsess) (o : op) : res (rsess * ret) :=
  let r := rsr rs in
  match o with
  | OPush k v => Ok (rwith rs (r_push r (rstack_at rs k) v), RUnit)
  | OPop k => let '(r1, it) := r_pop r (rstack_at rs k) in Ok (rret_item rs r1 it)
  | OHead k => let '(r1, it) := r_head r (rstack_at rs k) in Ok (rret_item rs r1 it)
  | OLen k => Ok (rs, RZ (Z.of_nat (length (rseq r (rstack_at rs k)))))
  | OAppendV k vs => Ok (rwith rs (r_appendv r (rstack_at rs k) vs), RUnit)
  | OIter k => Ok (rs, RList (r_values r (rstack_at rs k)))
  | OPopIter k => let '(r1, l) := r_popiter r (rstack_at rs k) in Ok (rwith rs r1, RList l)
  | OWalk k => let '(r1, l) := r_walk r (rstack_at rs k) in Ok (rwith rs r1, RList l)
  | OMarshal k => let '(r1, l) := r_walk r (rstack_at rs k) in Ok (rwith rs r1, RList l)
  | OUnmarshal k vs => do r1 <- r_unmarshal r (rstack_at rs k) vs; Ok (rwith rs r1, RBool true)
  | OUnmarshalBad k => Ok (rs, RBool false)
  | ONewItem v => let '(r1, i) := r_alloc r v true in Ok (rret_item rs r1 (Some i))
  | OZeroItem => let '(r1, i) := r_alloc r 0 false in Ok (rret_item rs r1 (Some i))
  | INext h => match rhandle rs h with None => Panic | Some i => Ok (rret_item rs r (r_next r i)) end
  | IOk h => Ok (rs, RBool (match rhandle rs h with None => false | Some i => rok r i end))
  | IIn h k => match rhandle rs h with None => Panic
               | Some i => Ok (rs, RBool (onat_eqb (r_owner r i) (Some (rstack_at rs k)))) end
  | IValue h => match rhandle rs h with None => Panic | Some i => Ok (rs, RZ (rval r i)) end
  | ISet h v => do x <- r_set r (rhandle rs h) v; Ok (rwith rs (fst x), RBool (snd x))
  | IAppend h n => do x <- r_append r (rhandle rs h) (rhandle rs n); Ok (rret_item rs (fst x) (snd x))
  | IRemove h => let '(r1, b) := r_remove r (rhandle rs h) in Ok (rwith rs r1, RBool b)
  | IAttach h k => do x <- r_attach r (rhandle rs h) (option_map (rstack_at rs) k); Ok (rwith rs (fst x), RBool (snd x))
  | IDetach h => Hang    (* no sequence-level meaning; excluded by rguard *)
  end.

Fixpoint robserve_stacks (eager : bool) (r : rstate) (ss : list nat) : rstate * list sobs :=
  match ss with
  | [] => (r, [])
  | s :: ss' =>
      let r1 := if eager then r_init r s else r in
      let o := mkSobs (if eager then r_values r1 s else []) (r_values r1 s) (Z.of_nat (length (rseq r1 s))) in
      let '(r2, os) := robserve_stacks eager r1 ss' in
      (r2, o :: os)
  end.

Definition robserve_handle (r : rstate) (s0 s1 : nat) (i : nat) : Z * Z :=
  (4 * b2z (rok r i) + 2 * b2z (onat_eqb (r_owner r i) (Some s1)) + b2z (onat_eqb (r_owner r i) (Some s0)), rval r i).

Definition robserve (eager : bool) (rs : rsess) : rsess * (list sobs * list (Z * Z)) :=
  let '(r1, os) := robserve_stacks eager (rsr rs) (rstab rs) in
  (rwith rs r1, (os, map (robserve_handle r1 (rstack_at rs 0) (rstack_at rs 1)) (rhtab rs))).

Fixpoint rrun (eager : bool) (rs : rsess) (ops : list op) : list stepobs :=
  match ops with
  | [] => []
  | o :: ops' =>
      match rstep rs o with
      | Ok (rs1, x) => let '(rs2, (os, hs)) := robserve eager rs1 in SObs x os hs :: rrun eager rs2 ops'
      | Panic => [SObs RPanic [] []]
      | Hang => [SObs RHang [] []]
      end
  end.

(* ------------------------------------------------------------------ the guard
   Item.Remove of the item that currently is the top of its stack is the known finding
   C16:Item.Remove:attached-head; Item.Detach is outside the property's operations. *)
Definition r_is_top (r : rstate) (i : nat) : bool :=
  match r_owner r i with
  | Some s => match rseq r s with x :: _ => Nat.eqb x i | [] => false end
  | None => false
  end.

Definition rguard (rs : rsess) (o : op) : bool :=
  match o with
  | IRemove h => match rhandle rs h with Some i => negb (r_is_top (rsr rs) i) | None => true end
  | IDetach _ => false
  | _ => true
  end.

Fixpoint avoids_remove_head (eager : bool) (rs : rsess) (ops : list op) : bool :=
  match ops with
  | [] => true
  | o :: ops' =>
      rguard rs o &&
      match rstep rs o with
      | Ok (rs1, _) => avoids_remove_head eager (fst (robserve eager rs1)) ops'
      | _ => true
      end
  end.
