(* C19: machine-integer and bit-level lemmas for Model/Hdr.v.
   wrap/shift helpers are the identity / plain arithmetic inside their ranges, and
   bitLen x = Z.log2 x + 1 for every positive int64 (no finite sweep: every stage of
   bitLen is the same step "threshold 2^(k-1), shift by k", captured once by [spec_shift]). *)
From FunV Require Import Base.Tac Model.Hdr.
Local Open Scope Z_scope.

Lemma two31_eq : two31 = 2 ^ 31. Proof. reflexivity. Qed.
Lemma two32_eq : two32 = 2 ^ 32. Proof. reflexivity. Qed.
Lemma two63_eq : two63 = 2 ^ 63. Proof. reflexivity. Qed.
Lemma two64_eq : two64 = 2 ^ 64. Proof. reflexivity. Qed.

Lemma wrap64_id z : - 2 ^ 63 <= z < 2 ^ 63 -> wrap64 z = z.
Proof.
  intros H. unfold wrap64. rewrite two63_eq.
  destruct ((- 2 ^ 63 <=? z) && (z <? 2 ^ 63)) eqn:E; [reflexivity|lia].
Qed.

Lemma wrap32_id z : - 2 ^ 31 <= z < 2 ^ 31 -> wrap32 z = z.
Proof.
  intros H. unfold wrap32. rewrite two31_eq.
  destruct ((- 2 ^ 31 <=? z) && (z <? 2 ^ 31)) eqn:E; [reflexivity|lia].
Qed.

(* the fast path of wrap32/wrap64 agrees with the modular formula (so the definition is
   the usual two's-complement wrap) *)
Lemma wrap64_mod z : wrap64 z = (z + 2 ^ 63) mod 2 ^ 64 - 2 ^ 63.
Proof.
  unfold wrap64. rewrite two63_eq, two64_eq.
  destruct ((- 2 ^ 63 <=? z) && (z <? 2 ^ 63)) eqn:E; [|reflexivity].
  rewrite Z.mod_small; lia.
Qed.

Lemma wrap32_mod z : wrap32 z = (z + 2 ^ 31) mod 2 ^ 32 - 2 ^ 31.
Proof.
  unfold wrap32. rewrite two31_eq, two32_eq.
  destruct ((- 2 ^ 31 <=? z) && (z <? 2 ^ 31)) eqn:E; [|reflexivity].
  rewrite Z.mod_small; lia.
Qed.

Lemma pow2_pos n : 0 < 2 ^ n \/ n < 0.
Proof. destruct (Z.le_gt_cases 0 n); [left; apply Z.pow_pos_nonneg; lia|right; lia]. Qed.

Lemma pow2_gt0 n : 0 <= n -> 0 < 2 ^ n.
Proof. intros. apply Z.pow_pos_nonneg; lia. Qed.

Lemma pow2_le a b : 0 <= a <= b -> 2 ^ a <= 2 ^ b.
Proof. intros. apply Z.pow_le_mono_r; lia. Qed.

Lemma pow2_lt a b : 0 <= a < b -> 2 ^ a < 2 ^ b.
Proof. intros. apply Z.pow_lt_mono_r; lia. Qed.

Lemma pow2_add a b : 0 <= a -> 0 <= b -> 2 ^ (a + b) = 2 ^ a * 2 ^ b.
Proof. intros. apply Z.pow_add_r; lia. Qed.

Lemma shl64_spec x s :
  0 <= s < 64 -> - 2 ^ 63 <= x * 2 ^ s < 2 ^ 63 -> shl64 x s = x * 2 ^ s.
Proof.
  intros Hs Hx. unfold shl64.
  destruct ((s <? 0) || (64 <=? s)) eqn:E; [lia|].
  rewrite Z.shiftl_mul_pow2 by lia. apply wrap64_id; assumption.
Qed.

Lemma shl32_spec x s :
  0 <= s < 32 -> - 2 ^ 31 <= x * 2 ^ s < 2 ^ 31 -> shl32 x s = x * 2 ^ s.
Proof.
  intros Hs Hx. unfold shl32.
  destruct ((s <? 0) || (32 <=? s)) eqn:E; [lia|].
  rewrite Z.shiftl_mul_pow2 by lia. apply wrap32_id; assumption.
Qed.

Lemma shr64_spec x s : 0 <= s < 64 -> shr64 x s = x / 2 ^ s.
Proof.
  intros Hs. unfold shr64.
  destruct ((s <? 0) || (64 <=? s)) eqn:E; [lia|].
  apply Z.shiftr_div_pow2; lia.
Qed.

(* ------------------------------------------------------------------ bitLen *)
Definition bl_spec (x : Z) : Z := if x <=? 0 then 0 else Z.log2 x + 1.

Lemma spec_shift k x : 1 <= k -> 2 ^ (k - 1) <= x -> bl_spec x = bl_spec (x / 2 ^ k) + k.
Proof.
  intros Hk Hx.
  assert (Hp : 0 < 2 ^ (k - 1)) by (apply pow2_gt0; lia).
  assert (Hx0 : 0 < x) by lia.
  assert (Hk2 : 0 < 2 ^ k) by (apply pow2_gt0; lia).
  unfold bl_spec.
  destruct (x <=? 0) eqn:E1; [lia|].
  assert (Hl : k - 1 <= Z.log2 x) by (apply Z.log2_le_pow2; lia).
  destruct (x / 2 ^ k <=? 0) eqn:E2.
  - (* 2^(k-1) <= x < 2^k *)
    assert (x / 2 ^ k = 0).
    { assert (0 <= x / 2 ^ k) by (apply Z.div_pos; lia). lia. }
    assert (x < 2 ^ k).
    { apply Z.div_small_iff in H; lia. }
    assert (Z.log2 x < k) by (apply Z.log2_lt_pow2; lia). lia.
  - rewrite <- Z.shiftr_div_pow2 by lia.
    rewrite Z.log2_shiftr by lia.
    assert (2 ^ k <= x).
    { destruct (Z.lt_ge_cases x (2 ^ k)); [|assumption].
      rewrite Z.div_small in E2 by lia. lia. }
    assert (k <= Z.log2 x) by (apply Z.log2_le_pow2; lia). lia.
Qed.

Lemma bitlen_stage_spec thr k x n :
  1 <= k < 64 -> thr = 2 ^ (k - 1) -> 0 <= x ->
  let '(x', n') := bitlen_stage thr k (x, n) in
  bl_spec x' + n' = bl_spec x + n /\ 0 <= x' /\
  ((x < thr /\ x' = x) \/ (thr <= x /\ x' = x / 2 ^ k)).
Proof.
  intros Hk Ht Hx. unfold bitlen_stage.
  destruct (x >=? thr) eqn:E.
  - rewrite shr64_spec by lia. subst thr.
    assert (0 < 2 ^ k) by (apply pow2_gt0; lia).
    split; [rewrite (spec_shift k x) by lia; lia|].
    split; [apply Z.div_pos; lia|]. right. split; [lia|reflexivity].
  - split; [reflexivity|]. split; [assumption|]. left. split; [lia|reflexivity].
Qed.

Lemma bitlen_loop_spec fuel : forall x n,
  0 <= x -> x < 2 ^ (16 * Z.of_nat fuel - 1) ->
  let '(x', n') := bitlen_loop fuel x n in
  bl_spec x' + n' = bl_spec x + n /\ 0 <= x' < 32768.
Proof.
  induction fuel as [|f IH]; intros x n H0 Hb.
  - simpl in Hb. change (2 ^ (-1)) with 0 in Hb. lia.
  - cbn [bitlen_loop]. destruct (x >=? 32768) eqn:E.
    + rewrite shr64_spec by lia.
      destruct f as [|f'].
      * (* fuel 1: x < 2^15 contradicts the test *)
        change (2 ^ (16 * Z.of_nat 1 - 1)) with 32768 in Hb. lia.
      * assert (Hd : 0 <= x / 2 ^ 16) by (apply Z.div_pos; lia).
        assert (Hu : x / 2 ^ 16 < 2 ^ (16 * Z.of_nat (S f') - 1)).
        { apply Z.div_lt_upper_bound; [lia|].
          rewrite <- pow2_add by lia.
          replace (16 + (16 * Z.of_nat (S f') - 1)) with (16 * Z.of_nat (S (S f')) - 1) by lia.
          assumption. }
        specialize (IH (x / 2 ^ 16) (n + 16) Hd Hu).
        destruct (bitlen_loop (S f') (x / 2 ^ 16) (n + 16)) as [x' n'].
        destruct IH as [IH1 IH2]. split; [|assumption].
        rewrite IH1. rewrite (spec_shift 16 x) by lia. lia.
    + split; [reflexivity|lia].
Qed.

Lemma bitLen_bl_spec x : 0 <= x < 2 ^ 63 -> bitLen x = bl_spec x.
Proof.
  intros Hx. unfold bitLen.
  pose proof (bitlen_loop_spec 4 x 0 (proj1 Hx)) as HL.
  change (2 ^ (16 * Z.of_nat 4 - 1)) with (2 ^ 63) in HL. specialize (HL (proj2 Hx)).
  destruct (bitlen_loop 4 x 0) as [x1 n1]. destruct HL as [E1 B1].
  assert (K8 : 1 <= 8 < 64) by lia. assert (K4 : 1 <= 4 < 64) by lia. assert (K2 : 1 <= 2 < 64) by lia.
  assert (P1 : 0 <= x1) by lia.
  pose proof (bitlen_stage_spec 128 8 x1 n1 K8 eq_refl P1) as H2.
  destruct (bitlen_stage 128 8 (x1, n1)) as [x2 n2]. destruct H2 as (E2 & P2 & C2).
  assert (B2 : x2 < 128).
  { destruct C2 as [[? ->]|[? ->]]; [lia|]. apply Z.div_lt_upper_bound; lia. }
  pose proof (bitlen_stage_spec 8 4 x2 n2 K4 eq_refl P2) as H3.
  destruct (bitlen_stage 8 4 (x2, n2)) as [x3 n3]. destruct H3 as (E3 & P3 & C3).
  assert (B3 : x3 < 8).
  { destruct C3 as [[? ->]|[? ->]]; [lia|]. apply Z.div_lt_upper_bound; lia. }
  pose proof (bitlen_stage_spec 2 2 x3 n3 K2 eq_refl P3) as H4.
  destruct (bitlen_stage 2 2 (x3, n3)) as [x4 n4]. destruct H4 as (E4 & P4 & C4).
  assert (B4 : x4 < 2).
  { destruct C4 as [[? ->]|[? ->]]; [lia|]. apply Z.div_lt_upper_bound; lia. }
  assert (Hs : bl_spec x4 + n4 = bl_spec x) by lia.
  rewrite <- Hs.
  destruct (x4 >=? 1) eqn:E.
  - assert (x4 = 1) by lia. subst x4. change (bl_spec 1) with 1. lia.
  - assert (x4 = 0) by lia. subst x4. change (bl_spec 0) with 0. lia.
Qed.

(* bitLen x = floor(log2 x) + 1 for every positive int64 *)
Lemma bitlen_spec x : 0 < x < 2 ^ 63 -> bitLen x = Z.log2 x + 1.
Proof.
  intros Hx. rewrite bitLen_bl_spec by lia. unfold bl_spec.
  destruct (x <=? 0) eqn:E; [lia|reflexivity].
Qed.

Lemma bitLen_nonpos x : x <= 0 -> bitLen x = 0.
Proof.
  intros Hx. unfold bitLen. cbn [bitlen_loop].
  destruct (x >=? 32768) eqn:E0; [lia|].
  unfold bitlen_stage.
  destruct (x >=? 128) eqn:E1; [lia|].
  destruct (x >=? 8) eqn:E2; [lia|].
  destruct (x >=? 2) eqn:E3; [lia|].
  destruct (x >=? 1) eqn:E4; [lia|reflexivity].
Qed.

Example bitlen_examples :
  map bitLen [1; 2; 3; 4; 255; 256; 32767; 32768; 2 ^ 62; 2 ^ 63 - 1] = [1; 2; 2; 3; 8; 9; 15; 16; 63; 63].
Proof. vm_compute. reflexivity. Qed.
