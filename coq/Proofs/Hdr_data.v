(* C19: the histogram in terms of the recorded data.  Recording in-range values always succeeds
   and conserves the total; ValueAtQuantile (after its rank is computed) returns
   highestEquivalent(exact order statistic); Min/Max bracket the extreme recorded values;
   Export/Import and Merge into an empty histogram of the same shape give an Equal histogram;
   no walk reaches an invariant panic. *)
From FunV Require Import Base.Tac Model.Hdr Proofs.Hdr_bits Proofs.Hdr_geom Proofs.Hdr_walk.
Local Open Scope Z_scope.

(* recorded data: (value, number of occurrences) in call order *)
Definition recs := list (Z * Z).

Definition weight (P : Z -> bool) (l : recs) : Z :=
  fold_right (fun vn acc => (if P (fst vn) then snd vn else 0) + acc) 0 l.

Definition record_all (h : hist) (l : recs) : hist :=
  fold_left (fun h vn => fst (record_values h (fst vn) (snd vn))) l h.

Fixpoint record_oks (h : hist) (l : recs) : list bool :=
  match l with
  | [] => []
  | vn :: t => snd (record_values h (fst vn) (snd vn)) :: record_oks (fst (record_values h (fst vn) (snd vn))) t
  end.

Definition all_true (l : list bool) : Prop := Forall (fun b => b = true) l.

Section Data.
Variables (lo hi sig : Z).
Hypothesis SH : shape_ok lo hi sig.
Local Notation u := (Z.log2 lo).
Local Notation m := (scm_of sig).

Definition valid_recs (l : recs) : Prop := Forall (fun vn => lo <= fst vn <= hi /\ 0 <= snd vn) l.

Definition w_all (l : recs) : Z := weight (fun _ => true) l.

Lemma weight_cons P vn l : weight P (vn :: l) = (if P (fst vn) then snd vn else 0) + weight P l.
Proof. reflexivity. Qed.

Lemma weight_nonneg P l : valid_recs l -> 0 <= weight P l.
Proof.
  induction 1 as [|vn t [_ Hn] _ IH]; [simpl; lia|]. rewrite weight_cons. destruct (P (fst vn)); lia.
Qed.

Lemma weight_mono P Q l : valid_recs l ->
  (forall v, lo <= v <= hi -> P v = true -> Q v = true) -> weight P l <= weight Q l.
Proof.
  intros V H. induction V as [|vn t [Hv Hn] _ IH]; [simpl; lia|]. rewrite !weight_cons.
  specialize (H (fst vn) Hv). destruct (P (fst vn)), (Q (fst vn)); try lia;
  try (specialize (H eq_refl); discriminate).
Qed.

Lemma weight_split P Q R l :
  (forall v, P v = (Q v || R v)) -> (forall v, Q v && R v = false) -> weight P l = weight Q l + weight R l.
Proof.
  intros H1 H2. induction l as [|vn t IH]; [reflexivity|]. rewrite !weight_cons, IH.
  specialize (H1 (fst vn)). specialize (H2 (fst vn)).
  destruct (P (fst vn)), (Q (fst vn)), (R (fst vn)); simpl in *; try discriminate; lia.
Qed.

Lemma top_same a b : same_geom a b -> top u m a = top u m b.
Proof. intros (_ & _ & _ & _ & _ & _ & _ & _ & E & _). unfold top. rewrite E. reflexivity. Qed.

(* recording a list of in-range values: all accepted, totals and cumulative counts as expected *)
Lemma record_all_spec l : forall h,
  wf lo hi sig h -> valid_recs l -> h_total h + w_all l < 2 ^ 63 ->
  let h' := record_all h l in
  wf lo hi sig h' /\ same_geom h' h /\
  h_total h' = h_total h + w_all l /\
  (forall q, cum (h_counts h') q = cum (h_counts h) q + weight (fun v => cidx u m v <=? q) l) /\
  all_true (record_oks h l).
Proof.
  induction l as [|vn t IH]; intros h W V Hs.
  - cbn. split; [assumption|]. split; [apply same_geom_refl|]. split; [unfold w_all; simpl; lia|].
    split; [intros; simpl; lia|constructor].
  - inversion V as [|? ? [Hv Hn] Vt]; subst.
    unfold w_all in Hs. rewrite weight_cons in Hs. cbn [fst snd] in Hs.
    change (weight (fun _ => true) t) with (w_all t) in Hs.
    pose proof (weight_nonneg (fun _ => true) t Vt) as Wt. change (weight (fun _ => true) t) with (w_all t) in Wt.
    pose proof (record_values_spec lo hi sig h (fst vn) (snd vn) W Hn ltac:(lia)) as (Eok & W' & S' & _ & Hacc).
    destruct (accepts_in_range lo hi sig h (fst vn) W (in_range_lt_top lo hi sig SH h (fst vn) W Hv)) as [A Ei].
    destruct (Hacc A) as (T' & Cum' & _).
    specialize (IH (fst (record_values h (fst vn) (snd vn))) W' Vt ltac:(lia)).
    destruct IH as (W'' & S'' & T'' & Cum'' & Oks).
    cbn [record_all fold_left record_oks]. fold (record_all (fst (record_values h (fst vn) (snd vn))) t).
    split; [assumption|]. split; [eapply same_geom_trans; eassumption|].
    split; [rewrite T'', T'; unfold w_all; rewrite weight_cons; cbn [fst snd]; lia|].
    split.
    + intros q. rewrite Cum'', Cum', Ei. rewrite weight_cons. lia.
    + constructor; [rewrite Eok; assumption|assumption].
Qed.

Section Recorded.
Variables (h0 : hist) (l : recs).
Hypothesis N0 : new_hist lo hi sig = Ok h0.
Hypothesis V : valid_recs l.
Hypothesis Small : w_all l < 2 ^ 63.

Let h := record_all h0 l.

Lemma h0_facts : wf lo hi sig h0 /\ h_total h0 = 0 /\ (forall i, h_counts h0 i = 0).
Proof.
  destruct (new_wf lo hi sig SH) as (h1 & E & W & T & C). rewrite N0 in E. inversion E; subst. auto.
Qed.

Lemma recorded_facts :
  wf lo hi sig h /\ same_geom h h0 /\ h_total h = w_all l /\
  (forall q, cum (h_counts h) q = weight (fun v => cidx u m v <=? q) l) /\
  all_true (record_oks h0 l).
Proof.
  destruct h0_facts as (W0 & T0 & C0).
  destruct (record_all_spec l h0 W0 V ltac:(lia)) as (W & S & T & C & O).
  split; [assumption|]. split; [assumption|]. split; [unfold h; lia|]. split; [|assumption].
  intros q. unfold h. rewrite C. rewrite (cum_zero _ _ C0). lia.
Qed.

(* every in-range record succeeds and TotalCount is the number of recorded occurrences *)
Lemma recorded_total : all_true (record_oks h0 l) /\ total_count h = w_all l.
Proof. destruct recorded_facts as (_ & _ & T & _ & O). auto. Qed.

Lemma in_range_top e : lo <= e <= hi -> 0 <= e < top u m h.
Proof. destruct recorded_facts as (W & _). apply in_range_lt_top; assumption. Qed.

Lemma cum_at e : lo <= e <= hi ->
  weight (fun v => v <=? e) l <= cum (h_counts h) (cidx u m e) /\
  cum (h_counts h) (cidx u m e - 1) <= weight (fun v => v <? e) l.
Proof.
  intros He. destruct recorded_facts as (W & _ & _ & C & _). pose proof (wf_geom _ _ _ _ W) as G.
  destruct SH as (_ & Hlo & _).
  rewrite !C. split; apply weight_mono; try assumption; intros v Hv Hp.
  - pose proof (cidx_mono _ _ _ _ G v e ltac:(lia)). lia.
  - destruct (v <? e) eqn:E; [reflexivity|].
    pose proof (cidx_mono _ _ _ _ G e v ltac:(lia)). lia.
Qed.

Lemma cell_high_highest e r : lo <= e <= hi -> cell_high lo sig (cidx u m e) r -> r = highest u m e.
Proof.
  intros He (b & s & C & Ei & ->). destruct recorded_facts as (W & _). pose proof (wf_geom _ _ _ _ W) as G.
  destruct SH as (_ & Hlo & _).
  destruct (cell_of _ _ _ _ G e ltac:(lia)) as [Ce _].
  destruct (canonical_index_inj _ _ _ _ G _ _ _ _ C Ce Ei) as [-> ->].
  unfold highest, lowest, width. reflexivity.
Qed.

Lemma cell_low_lowest e r : lo <= e <= hi -> cell_low lo sig (cidx u m e) r -> r = lowest u m e.
Proof.
  intros He (b & s & C & Ei & ->). destruct recorded_facts as (W & _). pose proof (wf_geom _ _ _ _ W) as G.
  destruct SH as (_ & Hlo & _).
  destruct (cell_of _ _ _ _ G e ltac:(lia)) as [Ce _].
  destruct (canonical_index_inj _ _ _ _ G _ _ _ _ C Ce Ei) as [-> ->].
  unfold lowest. reflexivity.
Qed.

(* e is the k-th smallest recorded occurrence: fewer than k occurrences are below e, at least k are <= e *)
Definition is_kth (k e : Z) : Prop :=
  lo <= e <= hi /\ weight (fun v => v <? e) l < k <= weight (fun v => v <=? e) l.

Theorem quantile_exact k e : is_kth k e -> value_at_rank h k = Ok (highest u m e).
Proof.
  intros (He & Hk). destruct recorded_facts as (W & _). pose proof (wf_geom _ _ _ _ W) as G.
  destruct (cum_at e He) as [A B].
  pose proof (cidx_range _ _ _ _ G e (in_range_top e He)) as Hq.
  destruct (value_at_rank_spec lo hi sig h W k (cidx u m e) Hq ltac:(lia)) as (r & E & C).
  rewrite E. f_equal. apply cell_high_highest; assumption.
Qed.

(* the property's bound: exact <= v, v - exact < bucket width at exact <= max(2^floor(log2 min), exact/10^sigfigs) *)
Theorem quantile_bound k e : is_kth k e ->
  exists v, value_at_rank h k = Ok v /\ e <= v /\ v - e < width u m e /\
            width u m e <= Z.max (2 ^ Z.log2 lo) (e / 10 ^ sig).
Proof.
  intros K. pose proof K as (He & _). exists (highest u m e). split; [apply quantile_exact; assumption|].
  destruct recorded_facts as (W & _). pose proof (wf_geom _ _ _ _ W) as G.
  destruct SH as (Hs & Hlo & _).
  pose proof (lowest_le _ _ _ _ G e ltac:(lia)) as [L1 L2].
  split; [assumption|]. split; [unfold highest in *; lia|].
  apply (width_bound _ _ _ _ G); [lia|].
  split; [apply Z.pow_pos_nonneg; lia|apply shc_ge_pow10; assumption].
Qed.

(* Min: e is the smallest value recorded with a positive count *)
Theorem min_exact e : lo <= e <= hi -> weight (fun v => v <? e) l = 0 -> 0 < weight (fun v => v =? e) l ->
  hist_min h = Ok (lowest u m e).
Proof.
  intros He Hz Hp. destruct recorded_facts as (W & _). pose proof (wf_geom _ _ _ _ W) as G.
  destruct (cum_at e He) as [A B].
  pose proof (cidx_range _ _ _ _ G e (in_range_top e He)) as Hq.
  pose proof (cum_nonneg (h_counts h) (cidx u m e - 1) (wf_nonneg _ _ _ _ W)).
  assert (Hle : weight (fun v => v =? e) l <= weight (fun v => v <=? e) l).
  { apply weight_mono; [assumption|]. intros v _ Hv. lia. }
  assert (Hc : 0 < h_counts h (cidx u m e)).
  { rewrite (cum_step _ (cidx u m e)) in A by lia. lia. }
  destruct (hist_min_spec lo hi sig h W (cidx u m e) Hq ltac:(lia) Hc) as (r & E & C).
  rewrite E. f_equal. apply cell_low_lowest; assumption.
Qed.

Theorem min_bracket e : lo <= e <= hi -> weight (fun v => v <? e) l = 0 -> 0 < weight (fun v => v =? e) l ->
  exists v, hist_min h = Ok v /\ v <= e /\ e - v < width u m e /\
            width u m e <= Z.max (2 ^ Z.log2 lo) (e / 10 ^ sig).
Proof.
  intros He Hz Hp. exists (lowest u m e). split; [apply min_exact; assumption|].
  destruct recorded_facts as (W & _). pose proof (wf_geom _ _ _ _ W) as G.
  destruct SH as (Hs & Hlo & _).
  pose proof (lowest_le _ _ _ _ G e ltac:(lia)) as [L1 L2].
  split; [assumption|]. split; [unfold highest in *; lia|].
  apply (width_bound _ _ _ _ G); [lia|].
  split; [apply Z.pow_pos_nonneg; lia|apply shc_ge_pow10; assumption].
Qed.

(* Max: e is the largest value recorded with a positive count *)
Theorem max_exact e : lo <= e <= hi -> weight (fun v => e <? v) l = 0 -> 0 < weight (fun v => v =? e) l ->
  hist_max h = Ok (highest u m e).
Proof.
  intros He Hz Hp. destruct recorded_facts as (W & _ & T & _). pose proof (wf_geom _ _ _ _ W) as G.
  destruct (cum_at e He) as [A B].
  pose proof (cidx_range _ _ _ _ G e (in_range_top e He)) as Hq.
  assert (S1 : w_all l = weight (fun v => v <=? e) l + weight (fun v => e <? v) l).
  { apply weight_split; intros v; lia. }
  assert (S2 : weight (fun v => v <=? e) l = weight (fun v => v <? e) l + weight (fun v => v =? e) l).
  { apply weight_split; intros v; lia. }
  pose proof (cum_le_total lo hi sig h W (cidx u m e)) as Cle.
  assert (Hc : 0 < h_counts h (cidx u m e)).
  { rewrite (cum_step _ (cidx u m e)) in A by lia. lia. }
  destruct (hist_max_spec lo hi sig h W (cidx u m e) Hq ltac:(lia) Hc) as (r & E & C).
  rewrite E. f_equal. apply cell_high_highest; assumption.
Qed.

Theorem max_bracket e : lo <= e <= hi -> weight (fun v => e <? v) l = 0 -> 0 < weight (fun v => v =? e) l ->
  exists v, hist_max h = Ok v /\ e <= v /\ v - e < width u m e /\
            width u m e <= Z.max (2 ^ Z.log2 lo) (e / 10 ^ sig).
Proof.
  intros He Hz Hp. exists (highest u m e). split; [apply max_exact; assumption|].
  destruct recorded_facts as (W & _). pose proof (wf_geom _ _ _ _ W) as G.
  destruct SH as (Hs & Hlo & _).
  pose proof (lowest_le _ _ _ _ G e ltac:(lia)) as [L1 L2].
  split; [assumption|]. split; [unfold highest in *; lia|].
  apply (width_bound _ _ _ _ G); [lia|].
  split; [apply Z.pow_pos_nonneg; lia|apply shc_ge_pow10; assumption].
Qed.

End Recorded.

(* ------------------------------------------------------------------ Export / Import / Equals *)
Lemma import_total_spec f : (forall j, 0 <= f j) -> forall n i acc,
  0 <= acc -> acc + sum_from f i n < 2 ^ 63 -> import_total n i f acc = acc + sum_from f i n.
Proof.
  intros Hf. induction n as [|n IH]; intros i acc Ha Hs; cbn [import_total sum_from] in *; [lia|].
  pose proof (Hf i). pose proof (sum_from_nonneg f n Hf (i + 1)).
  destruct (f i >? 0) eqn:E.
  - rewrite wrap64_id by lia. rewrite IH by lia. lia.
  - rewrite IH by lia. lia.
Qed.

Lemma counts_eq_loop_true a b : forall n i,
  (forall j, i <= j < i + Z.of_nat n -> h_counts a j = h_counts b j) -> i + Z.of_nat n <= h_len b ->
  counts_eq_loop n i a b = Ok true.
Proof.
  induction n as [|n IH]; intros i He Hl; cbn [counts_eq_loop]; [reflexivity|].
  destruct (h_len b <=? i) eqn:E1; [lia|].
  rewrite (He i) by lia. rewrite Z.eqb_refl. cbn [negb]. apply IH; [intros j Hj; apply He; lia|lia].
Qed.

Lemma equals_true a b :
  same_geom a b -> h_total a = h_total b -> 0 <= h_len a <= h_len b ->
  (forall j, 0 <= j < h_len a -> h_counts a j = h_counts b j) -> equals a b = Ok true.
Proof.
  intros (E1 & E2 & E3 & E4 & E5 & E6 & E7 & E8 & E9 & E10) Et Hl Hc. unfold equals.
  rewrite E1, E2, E3, E4, E5, E6, E7, E8, E9, E10, Et, !Z.eqb_refl. cbn [andb negb].
  apply counts_eq_loop_true; [intros j Hj; apply Hc; lia|lia].
Qed.

Lemma same_geom_sym a b : same_geom a b -> same_geom b a.
Proof. unfold same_geom. intuition congruence. Qed.

Lemma wf_shape h : wf lo hi sig h -> h_lo h = lo /\ h_hi h = hi /\ h_sig h = sig.
Proof.
  intros W. destruct (wf_new _ _ _ _ W) as (h0 & N0 & (E1 & E2 & _ & E4 & _)).
  destruct (new_hist_geom lo hi sig SH) as (h1 & E & _ & L1 & L2 & L3 & _).
  rewrite N0 in E. inversion E; subst. lia.
Qed.

Theorem export_import_equal h : wf lo hi sig h ->
  exists h', import (export h) = Ok h' /\ equals h h' = Ok true /\ equals h' h = Ok true /\
             total_count h' = total_count h.
Proof.
  intros W. destruct (wf_shape h W) as (L1 & L2 & L3).
  destruct (wf_new _ _ _ _ W) as (h0 & N0 & S0).
  unfold import, export. cbn [s_lo s_hi s_sig s_len s_counts]. rewrite L1, L2, L3, N0.
  pose proof S0 as (_ & _ & _ & _ & _ & _ & _ & _ & _ & Ec).
  rewrite (wf_len _ _ _ _ W), Ec.
  destruct (h_clen h0 <? h_clen h0) eqn:E; [lia|].
  pose proof (clen_pos lo hi sig h W) as Cp.
  assert (Et : import_total (Z.to_nat (h_clen h0)) 0 (h_counts h) 0 = h_total h).
  { pose proof (wf_small _ _ _ _ W) as Sm. rewrite (wf_total _ _ _ _ W) in Sm. unfold cum in Sm.
    rewrite Ec in Sm. replace (Z.to_nat (h_clen h0 - 1 + 1)) with (Z.to_nat (h_clen h0)) in Sm by lia.
    rewrite (import_total_spec (h_counts h) (wf_nonneg _ _ _ _ W) (Z.to_nat (h_clen h0)) 0 0 ltac:(lia) ltac:(lia)).
    rewrite (wf_total _ _ _ _ W). unfold cum. rewrite Ec.
    replace (Z.to_nat (h_clen h0 - 1 + 1)) with (Z.to_nat (h_clen h0)) by lia. lia. }
  rewrite Et.
  eexists. split; [reflexivity|].
  assert (S1 : same_geom h (mkHist (h_lo h0) (h_hi h0) (h_unit h0) (h_sig h0) (h_hcm h0) (h_shc h0) (h_mask h0)
                                   (h_sbc h0) (h_bc h0) (h_clen h0) (h_total h) (h_clen h0) (h_counts h))).
  { unfold same_geom in *. cbn. assumption. }
  split; [|split].
  - apply equals_true; [assumption|reflexivity| |reflexivity].
    cbn [h_len]. rewrite (wf_len _ _ _ _ W). lia.
  - apply equals_true; [apply same_geom_sym; assumption|reflexivity| |reflexivity].
    cbn [h_len]. rewrite (wf_len _ _ _ _ W). lia.
  - reflexivity.
Qed.

(* ------------------------------------------------------------------ Merge *)
Section Merge.
Variables hs t0 : hist.                    (* the source; the target before the merge *)
Hypothesis Ws : wf lo hi sig hs.
Hypothesis Wt0 : wf lo hi sig t0.
Hypothesis St0 : same_geom t0 hs.
Hypothesis Sum : h_total t0 + h_total hs < 2 ^ 63.

Definition tinv (p : Z) (t : hist) : Prop :=
  wf lo hi sig t /\ same_geom t hs /\
  (forall i, h_counts t i = h_counts t0 i + (if i <=? p then h_counts hs i else 0)) /\
  h_total t = h_total t0 + cum (h_counts hs) p.

Lemma merge_loop_spec : forall fuel p it t,
  it_at lo sig hs p it -> tinv p t -> h_clen hs - p <= Z.of_nat fuel ->
  exists t', merge_loop fuel hs it t 0 = Ok (t', 0) /\
             wf lo hi sig t' /\ same_geom t' hs /\
             (forall i, h_counts t' i = h_counts t0 i + h_counts hs i) /\
             h_total t' = h_total t0 + h_total hs.
Proof.
  pose proof (wf_geom _ _ _ _ Ws) as G.
  assert (T0nn : 0 <= h_total t0).
  { rewrite (wf_total _ _ _ _ Wt0). apply cum_nonneg. apply (wf_nonneg _ _ _ _ Wt0). }
  induction fuel as [|f IH]; intros p it t Hat (Wt & St & Ct & Tt) Hf.
  - destruct Hat as ((? & ?) & _). lia.
  - cbn [merge_loop]. assert (Hpl : -1 <= p) by (destruct Hat as ((? & _) & _); lia).
    destruct (iter_next_spec lo hi sig hs Ws p it Hat) as [A B].
    pose proof (cum_le_total lo hi sig hs Ws p) as Cle.
    destruct (Z.le_gt_cases (h_total hs) (cum (h_counts hs) p)) as [C|C].
    + rewrite (A C). eexists. split; [reflexivity|]. split; [assumption|]. split; [assumption|].
      assert (Ecum : cum (h_counts hs) p = cum (h_counts hs) (h_clen hs - 1)).
      { rewrite <- (wf_total _ _ _ _ Ws). lia. }
      split; [|lia].
      intros i. rewrite Ct. destruct (i <=? p) eqn:Ei; [reflexivity|].
      destruct (Z.lt_ge_cases i (h_clen hs)).
      * rewrite (cum_flat_zero (h_counts hs) p (h_clen hs - 1) i (wf_nonneg _ _ _ _ Ws) Ecum); lia.
      * rewrite (wf_out _ _ _ _ Ws i); lia.
    + destruct (B C) as (Hp1 & it' & E & Hat'). rewrite E.
      pose proof Hat' as (Hp' & Hidx' & Hto' & Hc').
      destruct Hc' as [(? & _)|(Hp0 & Cn & Hb & Hca & Hv & Hh & Hv0 & Hht & Hhe)]; [lia|].
      rewrite Hca.
      destruct (h_counts hs (p + 1) =? 0) eqn:E0.
      * apply (IH (p + 1) it' t Hat'); [|lia].
        split; [assumption|]. split; [assumption|]. split.
        -- intros i. rewrite Ct. destruct (Z.eq_dec i (p + 1)) as [->|].
           ++ destruct (p + 1 <=? p) eqn:E1; [lia|]. destruct (p + 1 <=? p + 1) eqn:E2; [lia|lia].
           ++ destruct (i <=? p) eqn:E1, (i <=? p + 1) eqn:E2; try reflexivity; lia.
        -- rewrite (cum_step _ (p + 1)) by lia. replace (p + 1 - 1) with p by lia. lia.
      * (* RecordValues(valueFromIdx, countAtIdx) on the target: accepted, at index p + 1 *)
        remember (i_value it') as v eqn:Ev. set (c := h_counts hs (p + 1)) in *.
        pose proof (wf_nonneg _ _ _ _ Ws (p + 1)) as Cnn. fold c in Cnn.
        pose proof (cum_le_total lo hi sig hs Ws (p + 1)) as Cle1.
        rewrite (cum_step _ (p + 1)) in Cle1 by lia. replace (p + 1 - 1) with p in Cle1 by lia. fold c in Cle1.
        pose proof (record_values_spec lo hi sig t v c Wt ltac:(lia) ltac:(lia)) as (Eok & W' & S' & _ & Hacc).
        assert (Hvt : 0 <= v < top u m t).
        { rewrite (top_same t hs St).
          rewrite Hh in Hht. assert (0 < 2 ^ (u + i_bucket it')).
          { apply pow2_gt0. pose proof (g_u _ _ _ _ G). pose proof (canonical_bounds _ _ _ _ G _ _ Cn). lia. }
          lia. }
        destruct (accepts_in_range lo hi sig t v Wt Hvt) as [Acc Ei].
        destruct (Hacc Acc) as (T' & _ & Cp').
        assert (Eidx : cidx u m v = p + 1).
        { unfold cidx. rewrite Hv. destruct (index_roundtrip _ _ _ _ G _ _ Cn) as [-> ->]. lia. }
        destruct (record_values t v c) as [t1 ok] eqn:Er. cbn [fst snd] in *.
        rewrite Eok, Acc.
        apply (IH (p + 1) it' t1 Hat'); [|lia].
        split; [assumption|]. split; [eapply same_geom_trans; eassumption|]. split.
        -- intros i. rewrite Cp', Ei, Eidx, Ct.
           destruct (i =? p + 1) eqn:E1.
           ++ assert (i = p + 1) by lia. subst i.
              destruct (p + 1 <=? p) eqn:E2; [lia|]. destruct (p + 1 <=? p + 1) eqn:E3; [|lia]. unfold c. lia.
           ++ destruct (i <=? p) eqn:E2, (i <=? p + 1) eqn:E3; try reflexivity; lia.
        -- rewrite T', Tt. rewrite (cum_step _ (p + 1)) by lia. replace (p + 1 - 1) with p by lia. unfold c. lia.
Qed.

(* Merge of two histograms of the same shape: nothing dropped, counts and totals add up *)
Theorem merge_same_shape :
  exists t', merge t0 hs = Ok (t', 0) /\ wf lo hi sig t' /\ same_geom t' hs /\
             (forall i, h_counts t' i = h_counts t0 i + h_counts hs i) /\
             h_total t' = h_total t0 + h_total hs.
Proof.
  assert (I : tinv (-1) t0).
  { split; [assumption|]. split; [assumption|]. split.
    - intros i. destruct (i <=? -1) eqn:Ei; [|lia]. rewrite (wf_out _ _ _ _ Ws i); lia.
    - rewrite cum_neg by lia. lia. }
  unfold merge.
  apply (merge_loop_spec (walk_fuel hs) (-1) iter_init t0 (it_at_init lo hi sig hs Ws) I).
  unfold walk_fuel. lia.
Qed.

End Merge.

Theorem merge_into_empty_equal hs t : wf lo hi sig hs -> new_hist lo hi sig = Ok t ->
  exists t', merge t hs = Ok (t', 0) /\ equals t' hs = Ok true /\ total_count t' = total_count hs.
Proof.
  intros Ws N0. destruct (new_wf lo hi sig SH) as (t0 & E & Wt & Tt & Ct). rewrite N0 in E. inversion E; subst t0.
  destruct (wf_new _ _ _ _ Ws) as (h0 & N1 & S1). rewrite N0 in N1. inversion N1; subst h0.
  pose proof (wf_small _ _ _ _ Ws) as Sm.
  destruct (merge_same_shape hs t Ws Wt (same_geom_sym _ _ S1) ltac:(lia)) as (t' & Em & W' & S' & C' & T').
  exists t'. split; [assumption|]. split; [|unfold total_count; lia].
  apply equals_true; [assumption|lia| |intros; rewrite C', Ct; lia].
  pose proof S' as (_ & _ & _ & _ & _ & _ & _ & _ & _ & Ec).
  rewrite (wf_len _ _ _ _ W'), (wf_len _ _ _ _ Ws), Ec.
  pose proof (clen_pos lo hi sig hs Ws). lia.
Qed.

(* WindowedHistogram.Merge: m.Reset(), then every window merged in; the result holds every window's counts *)
Fixpoint sum_totals (l : list hist) : Z := match l with [] => 0 | h :: t => h_total h + sum_totals t end.
Fixpoint sum_counts (l : list hist) (i : Z) : Z := match l with [] => 0 | h :: t => h_counts h i + sum_counts t i end.

Lemma w_merge_all_spec : forall (l : list hist) (mh : hist),
  Forall (wf lo hi sig) l -> wf lo hi sig mh -> h_total mh + sum_totals l < 2 ^ 63 ->
  exists m', w_merge_all l mh = Ok m' /\ wf lo hi sig m' /\
             h_total m' = h_total mh + sum_totals l /\
             (forall i, h_counts m' i = h_counts mh i + sum_counts l i).
Proof.
  induction l as [|h t IH]; intros mh Wl Wm Hs.
  - exists mh. cbn. split; [reflexivity|]. split; [assumption|]. split; [lia|intros; lia].
  - inversion Wl as [|? ? Wh Wt]; subst. cbn [w_merge_all sum_totals sum_counts] in *.
    assert (Tnn : 0 <= sum_totals t).
    { clear -Wt. induction Wt as [|x r Wx _ IHr]; cbn; [lia|].
      assert (0 <= h_total x) by (rewrite (wf_total _ _ _ _ Wx); apply cum_nonneg; apply (wf_nonneg _ _ _ _ Wx)). lia. }
    assert (Sg : same_geom mh h).
    { destruct (wf_new _ _ _ _ Wm) as (a & Na & Sa). destruct (wf_new _ _ _ _ Wh) as (b & Nb & Sb).
      rewrite Na in Nb. inversion Nb; subst b. eapply same_geom_trans; [eassumption|apply same_geom_sym; assumption]. }
    destruct (merge_same_shape h mh Wh Wm Sg ltac:(lia)) as (m1 & Em & W1 & _ & C1 & T1).
    rewrite Em.
    destruct (IH m1 Wt W1 ltac:(lia)) as (m' & E' & W' & T' & C').
    exists m'. split; [assumption|]. split; [assumption|]. split; [lia|].
    intros i. rewrite C', C1. lia.
Qed.

(* ------------------------------------------------------------------ no walk panics or runs out of fuel *)
Section NoPanic.
Variable h : hist.
Hypothesis W : wf lo hi sig h.

Lemma min_loop_total : forall fuel p it,
  it_at lo sig h p it -> h_clen h - p <= Z.of_nat fuel -> exists r, min_loop fuel h it = Ok r.
Proof.
  induction fuel as [|f IH]; intros p it Hat Hf.
  - destruct Hat as ((? & ?) & _). lia.
  - cbn [min_loop]. destruct (iter_next_spec lo hi sig h W p it Hat) as [A B].
    destruct (Z.le_gt_cases (h_total h) (cum (h_counts h) p)) as [C|C].
    + rewrite (A C). eauto.
    + destruct (B C) as (Hp1 & it' & E & Hat'). rewrite E.
      destruct (negb (i_count_at it' =? 0)); [eauto|]. apply (IH (p + 1) it' Hat'). lia.
Qed.

Lemma max_loop_total : forall fuel p it mx,
  it_at lo sig h p it -> 0 <= mx < top u m h -> h_clen h - p <= Z.of_nat fuel ->
  exists r, max_loop fuel h it mx = Ok r.
Proof.
  pose proof (wf_geom _ _ _ _ W) as G.
  induction fuel as [|f IH]; intros p it mx Hat Hmx Hf.
  - destruct Hat as ((? & ?) & _). lia.
  - cbn [max_loop]. assert (Hpl : -1 <= p) by (destruct Hat as ((? & _) & _); lia).
    destruct (iter_next_spec lo hi sig h W p it Hat) as [A B].
    destruct (Z.le_gt_cases (h_total h) (cum (h_counts h) p)) as [C|C].
    + rewrite (A C). rewrite (highest_spec _ _ _ _ G mx Hmx). eauto.
    + destruct (B C) as (Hp1 & it' & E & Hat'). rewrite E.
      apply (IH (p + 1) it' _ Hat'); [|lia].
      destruct (negb (i_count_at it' =? 0)); [|assumption].
      destruct Hat' as (_ & _ & _ & [(? & _)|(Hp0 & Cn & Hb & Hca & Hv & Hh & Hv0 & Hht & Hhe)]); [lia|].
      split; [|assumption]. rewrite Hh.
      assert (0 < 2 ^ (u + i_bucket it')).
      { apply pow2_gt0. pose proof (g_u _ _ _ _ G). pose proof (canonical_bounds _ _ _ _ G _ _ Cn). lia. }
      lia.
Qed.

(* no sequence of iterator steps, and none of the queries built on it, reaches an invariant panic *)
Theorem walks_never_panic :
  (forall p it, it_at lo sig h p it -> iter_next h it <> SPanic) /\
  (forall k, exists r, value_at_rank h k = Ok r) /\
  (exists r, hist_min h = Ok r) /\ (exists r, hist_max h = Ok r).
Proof.
  pose proof (wf_geom _ _ _ _ W) as G.
  split; [intros p it; apply (iter_never_panics lo hi sig h W)|].
  split; [apply (value_at_rank_total lo hi sig h W)|].
  split.
  - apply (min_loop_total (walk_fuel h) (-1) iter_init (it_at_init lo hi sig h W)). unfold walk_fuel. lia.
  - apply (max_loop_total (walk_fuel h) (-1) iter_init 0 (it_at_init lo hi sig h W)).
    + pose proof (in_range_lt_top lo hi sig SH h lo W). destruct SH as (_ & ? & ? & _). lia.
    + unfold walk_fuel. lia.
Qed.

End NoPanic.
End Data.
