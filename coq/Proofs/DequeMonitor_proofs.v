(* Proofs/DequeMonitor_proofs.v — the Broadcast discipline of the repaired pubsub.Deque (Model/DequeMonitor.v):
   every critical section that changes the data broadcasts all three conds, hence (Conc/Monitor.v) no thread is
   ever parked while its predicate holds.  Stdlib + lia; no axioms. *)
From Coq Require Import PrimFloat.
From FunV Require Import Base.Tac Conc.Monitor Model.QueueMonitor Model.DequeMonitor
                         Proofs.QueueMonitor_exec Proofs.QueueMonitor_proofs.
Local Open Scope Z_scope.

Definition bcasts_all (sg : list sig) : Prop := forall c, deque_cond c -> In (Broadcast c) sg.

Lemma bcast_all_all : bcasts_all BCAST_ALL.
Proof. intros c [->|[->| ->]]; simpl; auto. Qed.

Lemma bcasts_all_app_l a b : bcasts_all a -> bcasts_all (a ++ b).
Proof. intros H c Hc. apply in_or_app. left. auto. Qed.
Lemma bcasts_all_app_r a b : bcasts_all b -> bcasts_all (a ++ b).
Proof. intros H c Hc. apply in_or_app. right. auto. Qed.

Lemma add_at_cases f v d :
  fst (fst (add_at f v d)) = d \/ bcasts_all (snd (fst (add_at f v d))).
Proof.
  unfold add_at. destruct (d_closed d); [left; reflexivity|].
  destruct (t_add (d_trk d)) as [t' e]. destruct e; simpl; auto. right. apply bcast_all_all.
Qed.

Lemma pop_at_cases f d :
  fst (fst (pop_at f d)) = d \/ bcasts_all (snd (fst (pop_at f d))).
Proof.
  unfold pop_at. destruct (d_closed d); [left; reflexivity|].
  destruct f.
  - destruct (d_items d); simpl; auto. right. apply bcast_all_all.
  - destruct (rev (d_items d)); simpl; auto. right. apply bcast_all_all.
Qed.

Lemma force_push_cases f v d :
  fst (fst (force_push f v d)) = d \/ bcasts_all (snd (fst (force_push f v d))).
Proof.
  unfold force_push.
  destruct (t_cap (d_trk d) =? t_len (d_trk d)).
  - pose proof (pop_at_cases (negb f) d) as X. destruct (pop_at (negb f) d) as [[d1 sg1] r1]. simpl in X.
    pose proof (add_at_cases f v d1) as Y. destruct (add_at f v d1) as [[d2 sg2] e]. simpl in *.
    destruct X as [X|X]; [subst d1|right; apply bcasts_all_app_l; auto].
    destruct Y as [Y|Y]; [left; auto|right; apply bcasts_all_app_r; auto].
  - pose proof (add_at_cases f v d) as Y. destruct (add_at f v d) as [[d2 sg2] e]. simpl in *.
    destruct Y as [Y|Y]; [left; auto|right; auto].
Qed.

(* the repaired Deque: a critical section that changes anything broadcasts everything *)
Lemma dbody_cases o d : fst (dbody o d) = d \/ bcasts_all (snd (dbody o d)).
Proof.
  unfold dbody, dop_run. destruct o; simpl; auto.
  - pose proof (add_at_cases front v d) as X. destruct (add_at front v d) as [[d' sg] e]. exact X.
  - apply pop_at_cases.
  - pose proof (force_push_cases front v d) as X. destruct (force_push front v d) as [[d' sg] e]. exact X.
  - right. apply bcast_all_all.
  - apply pop_at_cases.
  - pose proof (add_at_cases front v d) as X. destruct (add_at front v d) as [[d' sg] e]. exact X.
Qed.

Lemma add_at_closed f v d : d_closed (fst (fst (add_at f v d))) = d_closed d.
Proof.
  unfold add_at. destruct (d_closed d) eqn:E; simpl; auto.
  destruct (t_add (d_trk d)) as [t' e]. destruct e; simpl; auto.
Qed.

Lemma pop_at_closed f d : d_closed (fst (fst (pop_at f d))) = d_closed d.
Proof.
  unfold pop_at. destruct (d_closed d) eqn:E; simpl; auto.
  destruct f; [destruct (d_items d)|destruct (rev (d_items d))]; simpl; auto.
Qed.

Lemma force_push_closed f v d : d_closed (fst (fst (force_push f v d))) = d_closed d.
Proof.
  unfold force_push. destruct (t_cap (d_trk d) =? t_len (d_trk d)).
  - pose proof (pop_at_closed (negb f) d) as X. destruct (pop_at (negb f) d) as [[d1 sg1] r1]. simpl in X.
    pose proof (add_at_closed f v d1) as Y. destruct (add_at f v d1) as [[d2 sg2] e]. simpl in *. congruence.
  - pose proof (add_at_closed f v d) as Y. destruct (add_at f v d) as [[d2 sg2] e]. simpl in *. congruence.
Qed.

(* only Close changes the flag, and only to true *)
Lemma dbody_closed o d :
  d_closed (fst (dbody o d)) = d_closed d \/ (d_closed (fst (dbody o d)) = true /\ bcasts_all (snd (dbody o d))).
Proof.
  unfold dbody, dop_run. destruct o; simpl; auto.
  - pose proof (add_at_closed front v d) as X. destruct (add_at front v d) as [[d' sg] e]. auto.
  - left. apply pop_at_closed.
  - pose proof (force_push_closed front v d) as X. destruct (force_push front v d) as [[d' sg] e]. auto.
  - right. split; auto. apply bcast_all_all.
  - left. apply pop_at_closed.
  - pose proof (add_at_closed front v d) as X. destruct (add_at front v d) as [[d' sg] e]. auto.
Qed.

Section DequeProg.
Variable prog : tid -> op ddata.
Hypothesis DP : deque_prog prog.

Lemma dp_body t b : body_of ddata prog t b -> (exists o, b = dbody o) \/ b = (fun d => (d, [])).
Proof.
  destruct (DP t) as [[p Hp]|(w & Hw & _ & _ & Hs)].
  - intros [H|(w & H & ->)]; rewrite Hp in H; destruct p; simpl in H; inv H; left; eexists; reflexivity.
  - intros [H|(w' & H & ->)]; rewrite Hw in H; inv H.
    destruct Hs as [[p Hs]| Hs]; rewrite Hs; eauto.
Qed.

Lemma dp_body_cases t b d : body_of ddata prog t b -> fst (b d) = d \/ bcasts_all (snd (b d)).
Proof.
  intros H. destruct (dp_body t b H) as [[o ->]| ->]; [apply dbody_cases|left; reflexivity].
Qed.

Lemma dp_waiter t w :
  prog t = OWaiter w -> deque_cond (w_cond w) /\ (forall d, w_closed w d = d_closed d).
Proof.
  destruct (DP t) as [[p Hp]|(w' & Hw & Hc & Hcl & _)]; intros H.
  - rewrite Hp in H. destruct p; simpl in H; inv H; split; try reflexivity.
    + destruct front; simpl; unfold deque_cond; auto.
    + unfold deque_cond; simpl; auto.
  - rewrite Hw in H. inv H. auto.
Qed.

(* Broadcast discipline for each of nfront, nback, updates — whatever the waiters' predicates are *)
Theorem d_bcast c : deque_cond c -> bcast_discipline ddata prog c.
Proof.
  intros Hc t b Hb d u w Hu Hcw H0 H1.
  destruct (dp_body_cases t b d Hb) as [E|E]; [rewrite E in H1; congruence|auto].
Qed.

Theorem d_flag_closed : flag_discipline ddata prog d_closed.
Proof.
  split; [|split].
  - intros t w H d Hc. unfold w_wake. rewrite (proj2 (dp_waiter t w H) d), Hc. apply orb_true_r.
  - intros t b Hb d Hc. destruct (dp_body t b Hb) as [[o ->]| ->]; simpl; auto.
    destruct (dbody_closed o d) as [X|[X _]]; congruence.
  - intros t b Hb d H0 H1 u w Hu. destruct (dp_waiter u w Hu) as [Hc _].
    destruct (dp_body t b Hb) as [[o ->]| ->]; simpl in *; [|congruence].
    destruct (dbody_closed o d) as [X|[_ X]]; [congruence|auto].
Qed.

End DequeProg.

(* ================================================================== statements (used by Props/C07.v) *)

(* C07_deque.  For every program over the repaired Deque (any number of WaitFront/WaitBack/WaitPush*, pushes, pops,
   Force pushes, Closes, and arbitrary further waiters on the three conds), every schedule (no guard), EVERY
   reachable state — not only quiescent ones, which matters because the wait loops' own Signals make two waiters on
   one cond ping-pong for ever: a thread that is parked, or about to park, has a false predicate and the deque is
   open.  In particular: WaitFront/WaitBack parked => the deque is empty; WaitPush* parked => cap() <= len(). *)
Definition deque_stmt : Prop :=
  forall prog d0 hl ok s, deque_prog prog -> reach ddata prog d0 hl ok s ->
    forall t w, prog t = OWaiter w -> (thr s t = Parked \/ thr s t = Parking) ->
      w_P w (dat s) = false /\ d_closed (dat s) = false /\
      (forall f, w = waitpop_w f -> d_items (dat s) = []) /\
      (forall f v, w = waitpush_w f v -> has_room (d_trk (dat s)) = false).

Theorem deque_all : deque_stmt.
Proof.
  intros prog d0 hl ok s DP R t w Hp Hs.
  destruct (dp_waiter prog DP t w Hp) as [Hc Hcl].
  assert (Hs' : thr s t = Parking \/ thr s t = Parked) by tauto.
  pose proof (mon_parked_not_enabled ddata prog d0 hl ok (w_cond w) s (d_bcast prog DP _ Hc) R t w Hp eq_refl Hs') as X.
  unfold w_wake in X. apply orb_false_iff in X. destruct X as [X Y]. rewrite Hcl in Y.
  split; auto. split; auto. split.
  - intros f ->. simpl in X. unfold d_poppable in X. rewrite Y in X. simpl in X. destruct (d_items (dat s)); auto; discriminate.
  - intros f v ->. simpl in X. rewrite Y in X. simpl in X. exact X.
Qed.

(* C07_close_wakes_all (Deque): once closed, no waiter of any kind is parked or about to park *)
Definition deque_close_stmt : Prop :=
  forall prog d0 hl ok s, deque_prog prog -> reach ddata prog d0 hl ok s -> d_closed (dat s) = true ->
    forall t w, prog t = OWaiter w -> thr s t <> Parked /\ thr s t <> Parking.

Theorem deque_close : deque_close_stmt.
Proof.
  intros prog d0 hl ok s DP R Hc.
  exact (flag_none_parked ddata prog d0 hl d_closed ok s (d_flag_closed prog DP) R Hc).
Qed.

(* C07_already_true_no_block (Deque): WaitFront on a non-empty open deque (any waiter whose predicate holds when it
   looks) does not park: the only step that changes its state is its own return with the item *)
Definition deque_no_block_stmt : Prop :=
  forall prog d0 hl ok s l s' t w b, deque_prog prog -> reach ddata prog d0 hl ok s -> step ddata prog hl s l s' ->
    prog t = OWaiter w -> thr s t = InCrit b -> w_P w (dat s) = true ->
    (thr s' t = InCrit b /\ dat s' = dat s) \/ (l = LBody t /\ thr s' t = Done ROk).

Theorem deque_no_block : deque_no_block_stmt.
Proof. intros prog d0 hl ok s l s' t w b _ R St. eapply mon_already_true_no_block; eauto. Qed.

Definition deque_verdicts_stmt : Prop :=
  forall prog d0 hl ok s l s' t f r, deque_prog prog -> reach ddata prog d0 hl ok s -> step ddata prog hl s l s' ->
    prog t = OWaiter (waitpop_w f) -> thr s t <> Done r -> thr s' t = Done r ->
    match r with
    | ROk => d_items (dat s) <> [] /\ d_closed (dat s) = false /\ dat s' = fst (dbody (DWaitPop f) (dat s))
    | RClosed => d_closed (dat s) = true /\ dat s' = dat s
    | RCancelled => ended s t = true /\ dat s' = dat s
    end.

Theorem deque_verdicts : deque_verdicts_stmt.
Proof.
  intros prog d0 hl ok s l s' t f r DP R St Ht Hn Hd.
  pose proof (mon_safety ddata prog d0 hl ok s l s' t (waitpop_w f) r R St Ht Hn Hd) as X.
  destruct r; simpl in X.
  - destruct X as (_ & A & B). unfold d_poppable in A. apply andb_true_iff in A. destruct A as [A1 A2].
    apply negb_true_iff in A1. split; [destruct (d_items (dat s)); [discriminate|discriminate]|auto].
  - destruct X as (_ & A & B & C). auto.
  - destruct X as (_ & A & B). auto.
Qed.

Definition deque_ctx_stmt (hl : bool) (ok : state ddata -> label -> Prop) : Prop :=
  forall prog d0 s, deque_prog prog -> reach ddata prog d0 hl ok s ->
    forall t w, prog t = OWaiter w -> thr s t = Parked ->
      (ended s t = true -> In (w_cond w) (pendingB s)) /\ (quiescent s -> ended s t = false).

Theorem deque_ctx hl ok : ctx_guard ddata hl ok -> deque_ctx_stmt hl ok.
Proof.
  intros G prog d0 s _ R t w Hp Hs. split.
  - intros He. apply (proj1 (mon_ctx_inv ddata prog d0 hl ok s G R) t w); auto.
  - intros Q. eapply mon_no_lost_cancel; eauto.
Qed.

(* ================================================================== concrete schedules *)
Local Close Scope Z_scope.

Lemma dprog_is_deque_prog ops : deque_prog (dprog ops).
Proof. intros t. left. eexists. reflexivity. Qed.

(* non-vacuity: a WaitFront and a WaitBack really park on the empty deque; one PushBack wakes both (broadcastAll);
   the front waiter takes the item, the back waiter finds the deque empty again and re-parks; a WaitPushBack on a
   full deque parks and is served by a pop *)
Definition dex_ops : list dop := [DWaitPop true; DWaitPop false; DPush false 5%Z].
Example dex_runs :
  match exec_run (dprog dex_ops) false 3 (init ddata (dinit (THard 1%Z 0%Z)))
          (run_to_park 0 ++ run_to_park 1 ++ run_effect 2 [] ++ run_recheck 0 [] ++ run_repark 1 ++ [EHelper NFRONT]) with
  | Some s => thr s 0 = Done ROk /\ thr s 1 = Parked /\ d_items (dat s) = [] /\ quiescentb 3 s = true
  | None => False
  end.
Proof. vm_compute. repeat split; reflexivity. Qed.

Definition dex2_ops : list dop := [DWaitPush false 9%Z; DPop true].
Example dex2_runs :
  match exec_run (dprog dex2_ops) false 2 (init ddata (mkDD [1%Z] (THard 1%Z 1%Z) false))
          (run_to_park 0 ++ run_effect 1 [] ++ run_recheck 0 [] ++ [EHelper UPDATES]) with
  | Some s => thr s 0 = Done ROk /\ d_items (dat s) = [9%Z] /\ quiescentb 2 s = true
  | None => False
  end.
Proof. vm_compute. repeat split; reflexivity. Qed.

(* the cancellation race exists for the Deque's unlocked helpers as well: WaitFront parks with a dead context *)
Definition drace_sched : list elabel :=
  [EInvoke 0; EAcquire 0; EBody 0 []; ECtxEnd 0; EHelper NFRONT; EPark 0].

Definition lost_cancel_deque (hl : bool) : Prop :=
  exists prog d0 s t w, deque_prog prog /\ reachable ddata prog d0 hl s /\ quiescent s /\
    prog t = OWaiter w /\ thr s t = Parked /\ ended s t = true.

Theorem deque_ctx_unlocked_helper_refuted : lost_cancel_deque false.
Proof.
  destruct (opt_witness (exec_run (dprog [DWaitPop true]) false 1 (init ddata (dinit (TNoLimit 0%Z))) drace_sched)
              (fun s => quiescentb 1 s = true /\ thr s 0 = Parked /\ ended s 0 = true))
    as (s & E & Q & Hs & Hl).
  { vm_compute; repeat split; reflexivity. }
  destruct (exec_from_init ddata (dprog [DWaitPop true]) (dinit (TNoLimit 0%Z)) false 1 drace_sched s E) as [R B].
  exists (dprog [DWaitPop true]), (dinit (TNoLimit 0%Z)), s, 0, (waitpop_w true).
  split; [apply dprog_is_deque_prog|]. split; [exact R|].
  split; [apply (quiescentb_sound ddata (dprog [DWaitPop true]) 1 s B Q)|].
  split; [reflexivity|]. split; assumption.
Qed.

(* ================================================================== the capacity must be re-read (seeded C07-ind3-1)
   waitPushAfter's predicate is `dq.tracker.cap() > dq.tracker.len()` evaluated on the CURRENT tracker at every
   re-check (waitpush_w: has_room (d_trk d)); for a deque built with QueueOptions cap() is the dynamic soft quota.
   The variant that captures cap() once, when the call starts, is a different waiter: it can be parked - quiescently,
   in a race-free run - although the deque has room.  Quota tracker (soft 1, hard 3, credit 2), one item; the
   producer captures cap() = 1 and parks; a PushBack on burst credit raises the soft quota to 2 (len 2); one pop
   leaves len 1 < cap() 2: both broadcast, the producer re-checks `1 <= len` and parks again. *)
Definition waitpush_captured_w (front : bool) (v : Z) (cap0 : Z) : waiter ddata :=
  mkWaiter UPDATES (fun d => negb (d_closed d) && (t_len (d_trk d) <? cap0)%Z) d_closed (dbody (DWaitPush front v)) false.

Definition captured_prog : tid -> op ddata :=
  fun t => match t with
           | 0 => OWaiter (waitpush_captured_w false 9%Z 1%Z)
           | 1 => dcompile (DPush false 2%Z)
           | _ => dcompile (DPop true)
           end.

Lemma captured_prog_is_deque_prog : deque_prog captured_prog.
Proof.
  intros t. destruct t as [|[|t]]; simpl;
    [|left; exists (DPush false 2%Z); reflexivity|left; exists (DPop true); reflexivity].
  right. eexists. split; [reflexivity|]. split; [right; right; reflexivity|]. split; [reflexivity|].
  left. eexists. reflexivity.
Qed.

Definition captured_d0 : ddata := mkDD [1%Z] (TQuota 1%Z 3%Z 1%Z 2%float) false.
Definition captured_sched : list elabel :=
  run_to_park 0 ++ run_effect 1 [] ++ run_repark 0 ++ run_effect 2 [] ++ run_repark 0.

Definition captured_capacity_stuck : Prop :=
  exists prog d0 s t f v c0, deque_prog prog /\ reach ddata prog d0 true (@no_ctx_race ddata) s /\ quiescent s /\
    prog t = OWaiter (waitpush_captured_w f v c0) /\ thr s t = Parked /\
    has_room (d_trk (dat s)) = true /\ d_closed (dat s) = false.

Theorem deque_captured_capacity_refuted : captured_capacity_stuck.
Proof.
  destruct (opt_witness (exec_run_nr ddata captured_prog true 3 (init ddata captured_d0) captured_sched)
              (fun s => quiescentb 3 s = true /\ thr s 0 = Parked /\ has_room (d_trk (dat s)) = true /\ d_closed (dat s) = false))
    as (s & E & Q & Hs & Hr & Hc).
  { vm_compute; repeat split; reflexivity. }
  destruct (exec_nr_from_init ddata captured_prog captured_d0 true 3 captured_sched s E) as [R B].
  exists captured_prog, captured_d0, s, 0, false, 9%Z, 1%Z.
  split; [apply captured_prog_is_deque_prog|]. split; [exact R|].
  split; [apply (quiescentb_sound ddata captured_prog 3 s B Q)|].
  split; [reflexivity|]. auto.
Qed.

(* the code's waiter, which re-reads cap(), is never in that situation (deque_all) *)
Corollary deque_reread_capacity_ok :
  forall prog d0 hl ok s t f v, deque_prog prog -> reach ddata prog d0 hl ok s ->
    prog t = OWaiter (waitpush_w f v) -> thr s t = Parked -> has_room (d_trk (dat s)) = false.
Proof.
  intros prog d0 hl ok s t f v DP R Hp Hs.
  destruct (deque_all prog d0 hl ok s DP R t _ Hp (or_introl Hs)) as (_ & _ & _ & X). eapply X. reflexivity.
Qed.
