(* C01_complete_statement and C04_finite_input_eof_statement for EVERY construct family, with the side conditions
   under which they hold made explicit ([complete_ok]): at least one worker / output where the construct has
   workers / outputs (with none nothing is ever read), one input per goroutine for MergeIterators, and for
   GenerateParallel a generator that ends with the end-of-stream signal (a failure aborts the run: that case is
   refuted, C01_generate_failure_drops_in_flight). *)
From FunV Require Import Base.Tac Base.ListX Model.Pipelines
  Proofs.Pipelines_conserve Proofs.Pipelines_quiesce Proofs.Pipelines_nets Proofs.Pipelines_complete Proofs.Pipelines_closer
  Proofs.Pipelines_release Proofs.Pipelines_nodrop Proofs.Pipelines_completeness Proofs.Pipelines_progress
  Proofs.Pipelines_completeness_merge Proofs.Pipelines_completeness_split Proofs.Pipelines_completeness_pp
  Proofs.Pipelines_completeness_map Proofs.Pipelines_completeness_pbuf Proofs.Pipelines_completeness_chan.

Definition complete_ok (K : construct) (srcs : list (list Z)) : Prop :=
  match K with
  | KMap n | KProcessParallel n | KSplit n => 0 < n
  | KMerge n => length srcs = n
  | KGenerate n e => 0 < n /\ e = GEof
  | KParallelBuffer _ | KBuffer _ | KPump | KBufferedChannel _ => True
  end.

(* the single-pump constructs: a terminated un-aborted run has its consumer returned *)
Lemma sp_all_done_consumer b cap input s :
  reach (sp_net b) (sp_init cap input) s -> s_stopped s = false -> all_done s -> consumer_done s.
Proof.
  intros R Hs (AD & _).
  assert (ST : exists c, nth_error (s_procs s) 0 = Some c /\ p_st c <> PNotStarted).
  { clear Hs AD. induction R as [|s l s' R (c & Hc & Hn) H].
    - exists (running 1). split; [reflexivity|discriminate].
    - destruct (ctx_stable_step _ _ _ _ _ _ H Hc Hn) as (c' & H1 & _ & H3). eauto. }
  assert (NA : forall p pr, nth_error (s_procs s) p = Some pr -> p_st pr <> PAbandoned).
  { pose proof (reach_unstopped _ _ _ R Hs) as IR. clear R Hs AD ST. induction IR as [|s l s' R IH Hi H].
    - intros p pr Hp. destruct p as [|[|p]]; cbn in Hp; [inv Hp; discriminate|inv Hp; discriminate|destruct p; discriminate].
    - eapply no_abandon_step; eauto. }
  destruct ST as (c & Hc & Hn). exists c. split; auto.
  destruct (p_st c) eqn:E; auto; exfalso; [contradiction|eapply AD; eauto|eapply NA; eauto].
Qed.

(* C01_complete_statement, for every construct family *)
Theorem complete_all K srcs s :
  complete_ok K srcs -> reach (net_of K) (init_of K srcs) s -> s_stopped s = false -> all_done s ->
  Permutation (s_deliv s) (concat srcs).
Proof.
  destruct K; cbn [net_of init_of complete_ok]; intros Hok R Hs AD.
  - exact (map_complete n Hok (concat srcs) s R Hs AD).
  - exact (pp_complete n Hok (concat srcs) s R Hs AD).
  - exact (pbuf_complete n (concat srcs) s R Hs AD).
  - exact (sp_complete true cap (concat srcs) s R Hs (sp_all_done_consumer true cap (concat srcs) s R Hs AD)).
  - exact (sp_complete false 0 (concat srcs) s R Hs (sp_all_done_consumer false 0 (concat srcs) s R Hs AD)).
  - exact (chan_complete cap (concat srcs) s R Hs AD).
  - exact (merge_complete n srcs s Hok R Hs AD).
  - destruct Hok as (Hn & ->). exact (gen_eof_complete n (concat srcs) s Hn R Hs AD).
  - exact (split_complete n (concat srcs) s Hok R Hs AD).
Qed.

(* C04_finite_input_eof_statement, for every construct family: an un-aborted run that can go no further has
   finished - no goroutine runs, nobody is parked in once.Do - having delivered a permutation of the input *)
Theorem finite_input_eof_all K srcs s :
  complete_ok K srcs -> reach (net_of K) (init_of K srcs) s -> s_stopped s = false -> quiescent (net_of K) s ->
  all_done s /\ Permutation (s_deliv s) (concat srcs).
Proof.
  destruct K; cbn [net_of init_of complete_ok]; intros Hok R Hs Q.
  - exact (map_finite_input_eof n Hok (concat srcs) s R Hs Q).
  - exact (pp_finite_input_eof n Hok (concat srcs) s R Hs Q).
  - exact (pbuf_finite_input_eof n (concat srcs) s R Hs Q).
  - destruct (sp_quiescent_done true cap (concat srcs) s R Hs Q) as (A & _ & E). split; auto. now rewrite E.
  - destruct (sp_quiescent_done false 0 (concat srcs) s R Hs Q) as (A & _ & E). split; auto. now rewrite E.
  - exact (chan_finite_input_eof cap (concat srcs) s R Hs Q).
  - exact (merge_finite_input_eof n srcs s Hok R Hs Q).
  - destruct Hok as (Hn & ->). exact (gen_eof_finite_input_eof n (concat srcs) s Hn R Hs Q).
  - exact (split_finite_input_eof n (concat srcs) s Hok R Hs Q).
Qed.

(* C04_progress_exhaust, for every construct family: a reachable state of an un-aborted run that is not terminal
   has an enabled step *)
Corollary progress_exhaust_all K srcs s :
  complete_ok K srcs -> reach (net_of K) (init_of K srcs) s -> s_stopped s = false -> ~ all_done s -> ~ quiescent (net_of K) s.
Proof. intros Hok R Hs NA Q. apply NA. exact (proj1 (finite_input_eof_all K srcs s Hok R Hs Q)). Qed.
