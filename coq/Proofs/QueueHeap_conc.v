(* The concurrent half of C05: pubsub.Queue as an instance of Conc/LockedObject.v.

   State = the pointer-level queue model, seq = q_step (one critical section of each public method),
   blocked = the wait predicate of BlockingAdd / Wait / Receive is false, cancelled = context error.
   The premise that the Go methods ARE such critical sections (P1-P4 at the top of LockedObject.v)
   is validated by the skeleton checker of C13 and by the recorded concurrent histories of this
   property's driver, not here.  Distributor.Receive is two critical sections (Remove, then Wait);
   the first one has no effect when it does not return the item, so Receive is modelled as Wait
   (spec_receive_is_wait).  Distributor.Len reads tracker.len without the lock (C13's finding);
   its value semantics is Len's. *)
From FunV Require Import Base.Tac Conc.LockedObject Model.QueueHeap
     Proofs.QueueHeap_tracker Proofs.QueueHeap_spec Proofs.QueueHeap_refine Proofs.QueueHeap_props.
Local Open Scope Z_scope.

Notation q_run t := (run queue qop qres (make_queue t) q_step is_blocked cancelled).
Notation q_legal := (legal queue qop qres q_step is_blocked cancelled).
Notation s_legal := (legal qspec qop qres spec_step is_blocked cancelled).
Notation q_entry := (entry qop qres).

(* a legal execution of the pointer-level model is a legal execution of the FIFO specification *)
Lemma legal_refines (l : list q_entry) : forall q q', q_inv q -> q_legal q l q' ->
  s_legal (abs q) l (abs q') /\ q_inv q'.
Proof.
  induction l as [|e l IH]; intros q q' I L; inversion L as [ | s0 e0 l0 s1 s2 Hc Hs Hb Hl | s0 e0 l0 s2 Hc Hr Hl]; subst.
  - split; [constructor|assumption].
  - pose proof (q_step_abs q (le_op e) I) as E. pose proof (q_step_inv q (le_op e) I) as I1.
    rewrite Hs in E, I1. simpl in E, I1.
    destruct (IH _ _ I1 Hl) as [L' I']. split; [|assumption].
    eapply legal_op; eauto.
  - destruct (IH _ _ I Hl) as [L' I']. split; [|assumption].
    eapply legal_cancel; eauto.
Qed.

(* FIFO conservation along a legal execution of the specification: cancelled entries add nothing *)
Definition e_taken (l : list q_entry) : list Z := flat_map (fun e => taken1 (le_res e)) l.
Definition e_added (l : list q_entry) : list Z := flat_map (fun e => added1 (le_op e) (le_res e)) l.

Lemma s_legal_fifo (l : list q_entry) : forall s s', s_ok s -> s_legal s l s' ->
  e_taken l ++ items s' = items s ++ e_added l /\ s_ok s'.
Proof.
  induction l as [|e l IH]; intros s s' K L; inversion L as [ | s0 e0 l0 s1 s2 Hc Hs Hb Hl | s0 e0 l0 s2 Hc Hr Hl]; subst.
  - simpl. rewrite app_nil_r. split; [reflexivity|assumption].
  - pose proof (spec_step_fifo s (le_op e) K) as F. pose proof (spec_step_ok s (le_op e) K) as K1.
    rewrite Hs in F, K1. simpl in F, K1.
    destruct (IH _ _ K1 Hl) as [F' K']. split; [|assumption].
    unfold e_taken, e_added in *. simpl. rewrite <- !app_assoc, F', !app_assoc, F. reflexivity.
  - destruct (IH _ _ K Hl) as [F' K']. split; [|assumption].
    unfold e_taken, e_added in *. simpl. rewrite Hr. simpl.
    assert (A0 : added1 (le_op e) cancelled = []) by (destruct (le_op e); reflexivity).
    rewrite A0. simpl. assumption.
Qed.

Lemma q_legal_bound (l : list q_entry) : forall q q', q_legal q l q' -> t_bound (trk q') = t_bound (trk q).
Proof.
  induction l as [|e l IH]; intros q q' L;
    inversion L as [ | s0 e0 l0 s1 s2 Hc Hs Hb Hl | s0 e0 l0 s2 Hc Hr Hl]; subst; [reflexivity| |].
  - rewrite (IH _ _ Hl). pose proof (q_step_bound q (le_op e)) as Sb. rewrite Hs in Sb. exact Sb.
  - apply (IH _ _ Hl).
Qed.

(* C05_linearizable: every trace of the concurrent system over the queue model, for any number of
   threads and operations: the linearization is a legal execution of the pointer-level model, hence
   of the FIFO-with-tracker specification, with exactly the returned results, ending in the current
   state; stamps inv < lin < ret; ordered by linearization point. *)
Theorem c05_linearizable t tr c : q_run t tr = Some c ->
  linearization queue qop qres (make_queue t) q_step is_blocked cancelled tr c.
Proof. apply lo_linearizable. Qed.

Theorem c05_realtime t tr c : q_run t tr = Some c ->
  forall a b, In a (hist c) -> In b (lin c) -> (c_ret a < le_inv b)%nat -> precedes (c_entry a) b (lin c).
Proof. apply lo_realtime. Qed.

(* ... and at the level of the FIFO specification, with the property's clauses as corollaries:
   - the linearization is a legal execution of spec_step from the empty queue;
   - the current pointer structure represents the specification's final item list;
   - items handed out (in linearization order) followed by the items still queued are exactly the
     items accepted (in linearization order): FIFO, each at most once, only if added;
   - the tracker invariant and Len = |items| <= hard limit hold in the current state. *)
Theorem c05_linearizable_fifo t tr c : t_fresh t -> q_run t tr = Some c ->
  s_legal (spec_init t) (lin c) (abs (st c)) /\
  wfq (st c) /\
  e_taken (lin c) ++ contents (st c) = e_added (lin c) /\
  t_len (trk (st c)) = Z.of_nat (length (contents (st c))) /\
  t_ok (trk (st c)) /\
  (forall b, t_bound t = Some b -> Z.of_nat (length (contents (st c))) <= b).
Proof.
  intros [A B] R. pose proof (lz_legal _ _ _ _ _ _ _ _ _ (c05_linearizable t tr c R)) as L.
  destruct (legal_refines _ _ _ (make_queue_inv t A B) L) as [L' I'].
  rewrite make_queue_abs in L'.
  destruct (s_legal_fifo _ _ _ (spec_init_ok t A B) L') as [F K].
  split; [assumption|]. split; [apply I'|]. split; [exact F|].
  destruct K as [K1 K2]. simpl in K1, K2. split; [assumption|]. split; [assumption|].
  intros b Hb. rewrite <- K2. eapply t_ok_len_bound; [eassumption|].
  rewrite (q_legal_bound _ _ _ L). exact Hb.
Qed.

(* C05_ctx_error_no_effect: an operation that returns the context error is a Cancel event: it left
   the object state unchanged and deleting it from the linearization leaves a legal execution to the
   same final state *)
Theorem c05_ctx_error_no_effect t tr c : q_run t tr = Some c ->
  forall e, In e (lin c) -> le_cancel e = true ->
    le_res e = RErr ECtx /\
    nth_error tr (le_lin e) = Some (Cancel (le_tid e)) /\
    exists l1 l2 s, lin c = l1 ++ e :: l2 /\
      q_legal (make_queue t) l1 s /\ q_legal s [e] s /\ q_legal s l2 (st c) /\
      q_legal (make_queue t) (l1 ++ l2) (st c).
Proof. apply lo_cancel_no_effect. Qed.

(* conversely, in the concurrent system only a Cancel event produces the context error: an
   effective critical section of the queue never returns it *)
Theorem c05_ctx_only_from_cancel t tr c : t_fresh t -> q_run t tr = Some c ->
  forall e, In e (lin c) -> le_res e = RErr ECtx -> le_cancel e = true.
Proof.
  intros [A B] R e He Hr. destruct (le_cancel e) eqn:C; [reflexivity|exfalso].
  pose proof (lz_legal _ _ _ _ _ _ _ _ _ (c05_linearizable t tr c R)) as L.
  apply in_split in He. destruct He as (l1 & l2 & E). rewrite E in L.
  apply legal_app_inv in L. destruct L as (s & L1 & L2).
  destruct (legal_refines _ _ _ (make_queue_inv t A B) L1) as [_ I].
  inversion L2 as [ | s0 e0 l0 s1 s2 Hc Hs Hb Hl | s0 e0 l0 s2 Hc Hr' Hl]; subst; [|congruence].
  pose proof (q_step_not_ctx s (le_op e) I) as N. rewrite Hs in N. simpl in N. unfold cancelled in N. congruence.
Qed.

(* only an effective critical section changes the queue *)
Theorem c05_state_change_only_at_effective_crit :
  forall (c : config queue qop qres) ev c',
    step queue qop qres q_step is_blocked cancelled c ev = Some c' ->
    st c' = st c \/
    exists th op i, ev = Crit th /\ ph c th = Invoked op i /\
                    is_blocked (snd (q_step (st c) op)) = false /\ st c' = fst (q_step (st c) op).
Proof. apply lo_state_change_only_at_effective_crit. Qed.

(* non-vacuity: two producers and a consumer on a queue with hard limit 1; the consumer parks on
   the empty queue, is served after the first Add; the second producer's BlockingAdd parks on the
   full queue and gives up *)
Definition ex_t : tracker := Quota 1 1 0 f_one.
Definition ex_trace : list (event qop) :=
  [Inv 2%nat OWait; Crit 2%nat; Inv 0%nat (OAdd 5); Crit 0%nat; Inv 1%nat (OBlockingAdd 6); Ret 0%nat; Inv 0%nat (OAdd 7); Crit 0%nat;
   Crit 1%nat; Crit 2%nat; Cancel 1%nat; Ret 2%nat; Ret 1%nat; Ret 0%nat; Inv 0%nat OLen; Crit 0%nat; Ret 0%nat].

Example ex_trace_runs :
  match q_run ex_t ex_trace with
  | Some c =>
      map (fun e => (le_tid e, le_op e, le_res e)) (lin c) =
        [(0%nat, OAdd 5, RErr ENil); (0%nat, OAdd 7, RErr EFull); (2%nat, OWait, RItem 5);
         (1%nat, OBlockingAdd 6, RErr ECtx); (0%nat, OLen, RLen 0)] /\
      contents (st c) = []
  | None => False
  end.
Proof. vm_compute. split; reflexivity. Qed.
