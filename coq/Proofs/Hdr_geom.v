(* C19: bucket geometry.  New's result in closed form, and the index arithmetic
   (getBucketIndex, getSubBucketIdx, countsIndex, valueFromIndex, equivalent ranges)
   expressed with Z.log2 and division, derived from Z.log2 / Z.shiftr / Z.lor facts. *)
From FunV Require Import Base.Tac Model.Hdr Proofs.Hdr_bits.
Local Open Scope Z_scope.

(* the shapes for which New neither overflows int64 nor loops for ever *)
Definition shape_ok (lo hi sig : Z) : Prop :=
  1 <= sig <= 5 /\ 1 <= lo /\ lo <= hi /\ hi < 2 ^ 62 /\ Z.log2 lo + scm_of sig <= 62.

(* pure index functions: u = unitMagnitude, m = subBucketCountMagnitude *)
Definition bidx (u m v : Z) : Z := Z.max 0 (Z.log2 v - (u + m - 1)).
Definition sidx (u m v : Z) : Z := v / 2 ^ (bidx u m v + u).
Definition cidx (u m v : Z) : Z := bidx u m v * 2 ^ (m - 1) + sidx u m v.
Definition lowest (u m v : Z) : Z := sidx u m v * 2 ^ (bidx u m v + u).
Definition width (u m v : Z) : Z := 2 ^ (u + bidx u m v).
Definition highest (u m v : Z) : Z := lowest u m v + width u m v - 1.

Record geom (u m hi : Z) (h : hist) : Prop := {
  g_u : 0 <= u;
  g_m : 5 <= m <= 18;
  g_unit : h_unit h = u;
  g_hcm : h_hcm h = m - 1;
  g_shc : h_shc h = 2 ^ (m - 1);
  g_sbc : h_sbc h = 2 ^ m;
  g_mask : h_mask h = (2 ^ m - 1) * 2 ^ u;
  g_bc1 : 1 <= h_bc h;
  g_top : hi < 2 ^ (u + m + h_bc h - 1);
  g_top62 : u + m + h_bc h - 1 <= 62;
  g_clen : h_clen h = (h_bc h + 1) * 2 ^ (m - 1)
}.

Lemma scm_range sig : 1 <= sig <= 5 -> 5 <= scm_of sig <= 18.
Proof.
  intros H. assert (sig = 1 \/ sig = 2 \/ sig = 3 \/ sig = 4 \/ sig = 5) as C by lia.
  destruct C as [->|[->|[->|[->| ->]]]]; simpl; lia.
Qed.

(* 2^(scm-1) = subBucketHalfCount >= 10^sigfigs *)
Lemma shc_ge_pow10 sig : 1 <= sig <= 5 -> 10 ^ sig <= 2 ^ (scm_of sig - 1).
Proof.
  intros H. assert (sig = 1 \/ sig = 2 \/ sig = 3 \/ sig = 4 \/ sig = 5) as C by lia.
  destruct C as [->|[->|[->|[->| ->]]]]; vm_compute; discriminate.
Qed.

Lemma bucket_loop_spec hi : 0 <= hi < 2 ^ 62 -> forall fuel j n,
  0 <= j <= 62 -> 1 <= n -> n + (62 - j) <= 1000 -> 62 - j < Z.of_nat fuel ->
  exists bc, bucket_loop fuel hi (2 ^ j) n = Some bc /\ n <= bc /\ hi < 2 ^ (j + (bc - n)) /\
             j + (bc - n) <= 62.
Proof.
  intros Hhi. induction fuel as [|f IH]; intros j n Hj Hn Hb Hf; [lia|].
  cbn [bucket_loop]. destruct (2 ^ j <=? hi) eqn:E.
  - assert (j < 62).
    { destruct (Z.eq_dec j 62); [subst; lia|lia]. }
    assert (Hp : 0 < 2 ^ j) by (apply pow2_gt0; lia).
    assert (Hs : 2 ^ j * 2 ^ 1 = 2 ^ (j + 1)) by (rewrite pow2_add by lia; reflexivity).
    assert (2 ^ (j + 1) <= 2 ^ 62) by (apply pow2_le; lia).
    rewrite shl64_spec; [|lia|rewrite Hs; lia].
    rewrite Hs. rewrite wrap32_id by lia.
    destruct (IH (j + 1) (n + 1)) as (bc & E1 & E2 & E3 & E4); try lia.
    exists bc. split; [assumption|]. split; [lia|].
    replace (j + (bc - n)) with (j + 1 + (bc - (n + 1))) by lia. split; [assumption|lia].
  - exists n. split; [reflexivity|]. split; [lia|].
    replace (j + (n - n)) with j by lia. split; lia.
Qed.

Lemma pow2_half m : 1 <= m -> 2 ^ m = 2 * 2 ^ (m - 1).
Proof. intros. replace m with (1 + (m - 1)) at 1 by lia. rewrite pow2_add by lia. reflexivity. Qed.

Lemma new_hist_geom lo hi sig :
  shape_ok lo hi sig ->
  exists h, new_hist lo hi sig = Ok h /\ geom (Z.log2 lo) (scm_of sig) hi h /\
            h_lo h = lo /\ h_hi h = hi /\ h_sig h = sig /\ h_total h = 0 /\ h_len h = h_clen h /\
            (forall i, h_counts h i = 0).
Proof.
  intros (Hs & Hlo & Hle & Hhi & Hum).
  pose proof (scm_range sig Hs) as Hm. set (m := scm_of sig) in *.
  assert (Hu : 0 <= Z.log2 lo) by apply Z.log2_nonneg. set (u := Z.log2 lo) in *.
  assert (Hlo63 : lo < 2 ^ 63).
  { assert (2 ^ 62 < 2 ^ 63) by (apply pow2_lt; lia). lia. }
  unfold new_hist.
  destruct ((sig <? 1) || (5 <? sig)) eqn:E0; [lia|].
  fold m.
  assert (E1 : wrap32 (Z.max m 1 - 1) = m - 1).
  { rewrite wrap32_id; [lia|]. assert (2 ^ 31 = 2147483648) by reflexivity. lia. }
  rewrite E1.
  assert (E2 : Z.max (wrap32 (bitLen lo - 1)) 0 = u).
  { rewrite bitlen_spec by lia. fold u. rewrite wrap32_id; [lia|].
    assert (2 ^ 31 = 2147483648) by reflexivity. lia. }
  rewrite E2.
  replace (m - 1 + 1) with m by lia.
  assert (P18 : 2 ^ m <= 2 ^ 18) by (apply pow2_le; lia).
  assert (P5 : 2 ^ 5 <= 2 ^ m) by (apply pow2_le; lia).
  assert (E3 : wrap32 (2 ^ m) = 2 ^ m).
  { apply wrap32_id. change (2 ^ 18) with 262144 in P18. change (2 ^ 5) with 32 in P5.
    change (2 ^ 31) with 2147483648. lia. }
  rewrite E3.
  assert (Hh : 2 ^ m = 2 * 2 ^ (m - 1)) by (apply pow2_half; lia).
  assert (Pm1 : 0 < 2 ^ (m - 1)) by (apply pow2_gt0; lia).
  assert (E4 : Z.quot (2 ^ m) 2 = 2 ^ (m - 1)).
  { rewrite Z.quot_div_nonneg by lia. rewrite Hh. rewrite Z.mul_comm. apply Z.div_mul. lia. }
  rewrite E4.
  assert (Pu : 0 < 2 ^ u) by (apply pow2_gt0; lia).
  assert (Pum : 2 ^ m * 2 ^ u = 2 ^ (u + m)).
  { rewrite <- pow2_add by lia. f_equal. lia. }
  assert (Pum62 : 2 ^ (u + m) <= 2 ^ 62) by (apply pow2_le; lia).
  assert (P6263 : 2 ^ 62 < 2 ^ 63) by (apply pow2_lt; lia).
  assert (E5 : wrap32 (2 ^ m - 1) = 2 ^ m - 1).
  { apply wrap32_id. change (2 ^ 18) with 262144 in P18. change (2 ^ 5) with 32 in P5.
    change (2 ^ 31) with 2147483648. lia. }
  rewrite E5.
  assert (E6 : shl64 (2 ^ m - 1) u = (2 ^ m - 1) * 2 ^ u).
  { apply shl64_spec; [lia|]. nia. }
  rewrite E6.
  assert (E7 : shl64 (2 ^ m) u = 2 ^ (u + m)).
  { rewrite shl64_spec; [assumption|lia|]. rewrite Pum. lia. }
  rewrite E7.
  destruct (bucket_loop_spec hi ltac:(lia) 70%nat (u + m) 1) as (bc & B1 & B2 & B3 & B4); try lia.
  rewrite B1.
  assert (Hbc : bc <= 63) by lia.
  assert (E8 : wrap32 (wrap32 (bc + 1) * 2 ^ (m - 1)) = (bc + 1) * 2 ^ (m - 1)).
  { rewrite (wrap32_id (bc + 1)) by (change (2 ^ 31) with 2147483648; lia).
    apply wrap32_id. change (2 ^ 18) with 262144 in P18. change (2 ^ 31) with 2147483648. nia. }
  rewrite E8.
  destruct ((bc + 1) * 2 ^ (m - 1) <? 0) eqn:E9; [nia|].
  eexists. split; [reflexivity|]. cbn.
  split; [|repeat split; reflexivity].
  constructor; cbn; try lia; try reflexivity.
  - replace (u + m + bc - 1) with (u + m + (bc - 1)) by lia. assumption.
Qed.

(* ------------------------------------------------------------------ index arithmetic *)
Section Geom.
Variables (u m hi : Z) (h : hist).
Hypothesis G : geom u m hi h.

Let Hu : 0 <= u := g_u _ _ _ _ G.
Let Hm : 5 <= m <= 18 := g_m _ _ _ _ G.

Definition top : Z := 2 ^ (u + m + h_bc h - 1).

Lemma top_le : top <= 2 ^ 62.
Proof. unfold top. apply pow2_le. pose proof (g_top62 _ _ _ _ G). pose proof (g_bc1 _ _ _ _ G). lia. Qed.

Lemma p62_63 : 2 ^ 62 < 2 ^ 63.
Proof. apply pow2_lt; lia. Qed.

Lemma um62 : u + m <= 62.
Proof. pose proof (g_top62 _ _ _ _ G). pose proof (g_bc1 _ _ _ _ G). lia. Qed.

Lemma mask_bounds : 0 < (2 ^ m - 1) * 2 ^ u < 2 ^ 62.
Proof.
  assert (0 < 2 ^ u) by (apply pow2_gt0; lia).
  assert (2 ^ 5 <= 2 ^ m) by (apply pow2_le; lia). change (2 ^ 5) with 32 in H0.
  assert (2 ^ m * 2 ^ u = 2 ^ (u + m)) by (rewrite <- pow2_add by lia; f_equal; lia).
  assert (2 ^ (u + m) <= 2 ^ 62) by (apply pow2_le; pose proof um62; lia).
  split; nia.
Qed.

Lemma mask_log2 : Z.log2 ((2 ^ m - 1) * 2 ^ u) = u + m - 1.
Proof.
  assert (2 ^ 5 <= 2 ^ m) by (apply pow2_le; lia). change (2 ^ 5) with 32 in H.
  rewrite Z.log2_mul_pow2 by lia.
  replace (2 ^ m - 1) with (Z.pred (2 ^ m)) by lia.
  rewrite Z.log2_pred_pow2 by lia. lia.
Qed.

Lemma log2_lt63 v : 0 <= v < 2 ^ 63 -> Z.log2 v < 63.
Proof.
  intros Hv. destruct (Z.eq_dec v 0) as [->|]; [simpl; lia|].
  apply Z.log2_lt_pow2; lia.
Qed.

Lemma gbi v : 0 <= v < 2 ^ 63 -> get_bucket_index h v = bidx u m v.
Proof.
  intros Hv. unfold get_bucket_index, bidx.
  rewrite (g_mask _ _ _ _ G), (g_unit _ _ _ _ G), (g_hcm _ _ _ _ G).
  pose proof mask_bounds as Mb. pose proof mask_log2 as Ml. pose proof p62_63.
  set (mask := (2 ^ m - 1) * 2 ^ u) in *.
  assert (L0 : 0 <= Z.lor v mask) by (apply Z.lor_nonneg; lia).
  assert (L1 : Z.lor v mask <> 0).
  { intros E. apply Z.lor_eq_0_iff in E. lia. }
  assert (LL : Z.log2 (Z.lor v mask) = Z.max (Z.log2 v) (u + m - 1)).
  { rewrite Z.log2_lor by lia. rewrite Ml. reflexivity. }
  pose proof (log2_lt63 v Hv). pose proof um62.
  assert (L2 : Z.lor v mask < 2 ^ 63).
  { apply Z.log2_lt_pow2; lia. }
  rewrite bitlen_spec by lia. rewrite LL.
  pose proof (Z.log2_nonneg v).
  rewrite (wrap32_id (m - 1 + 1)) by (change (2 ^ 31) with 2147483648; lia).
  rewrite wrap32_id by (change (2 ^ 31) with 2147483648; lia).
  lia.
Qed.

Lemma bidx_nonneg v : 0 <= bidx u m v.
Proof. unfold bidx. lia. Qed.

Lemma bidx_lt_bc v : 0 <= v < top -> bidx u m v < h_bc h.
Proof.
  intros Hv. unfold bidx. pose proof (g_bc1 _ _ _ _ G).
  destruct (Z.eq_dec v 0) as [->|]; [simpl; lia|].
  assert (Z.log2 v < u + m + h_bc h - 1) by (apply Z.log2_lt_pow2; unfold top in Hv; lia).
  lia.
Qed.

Lemma bidx_le63 v : 0 <= v < 2 ^ 63 -> bidx u m v + u <= 62.
Proof. intros Hv. pose proof (log2_lt63 v Hv). pose proof um62. pose proof Hm. unfold bidx. lia. Qed.

(* canonical (bucket, sub-bucket) pairs: the ones the iterator visits and countsIndexFor produces *)
Definition canonical (b s : Z) : Prop :=
  (b = 0 /\ 0 <= s < 2 ^ m) \/ (1 <= b /\ 2 ^ (m - 1) <= s < 2 ^ m).

Lemma pm_half : 2 ^ m = 2 * 2 ^ (m - 1).
Proof. apply pow2_half; lia. Qed.

Lemma pm1_pos : 0 < 2 ^ (m - 1).
Proof. apply pow2_gt0; lia. Qed.

(* v lies in the cell of (bidx v, sidx v) and that pair is canonical *)
Lemma cell_of v : 0 <= v ->
  canonical (bidx u m v) (sidx u m v) /\
  sidx u m v * 2 ^ (bidx u m v + u) <= v < (sidx u m v + 1) * 2 ^ (bidx u m v + u).
Proof.
  intros Hv. set (b := bidx u m v). assert (Hb : 0 <= b) by apply bidx_nonneg.
  assert (Hd : 0 < 2 ^ (b + u)) by (apply pow2_gt0; lia).
  unfold sidx. fold b.
  split.
  - destruct (Z.eq_dec b 0) as [E|E].
    + left. split; [assumption|]. rewrite E in *. simpl (0 + u) in *.
      split; [apply Z.div_pos; lia|].
      apply Z.div_lt_upper_bound; [lia|].
      rewrite <- pow2_add by lia.
      destruct (Z.eq_dec v 0) as [->|]; [apply pow2_gt0; lia|].
      apply Z.log2_lt_pow2; [lia|]. unfold b, bidx in E. lia.
    + right. split; [lia|].
      assert (L : Z.log2 v = b + u + m - 1) by (unfold b, bidx in *; lia).
      assert (0 < v).
      { destruct (Z.eq_dec v 0) as [->|]; [simpl in L; lia|lia]. }
      pose proof (Z.log2_spec v H) as S. rewrite L in S.
      replace (Z.succ (b + u + m - 1)) with ((b + u) + m) in S by lia.
      replace (b + u + m - 1) with ((b + u) + (m - 1)) in S by lia.
      rewrite (pow2_add (b + u) m), (pow2_add (b + u) (m - 1)) in S by lia.
      split.
      * apply Z.div_le_lower_bound; lia.
      * apply Z.div_lt_upper_bound; lia.
  - split.
    + rewrite Z.mul_comm. apply Z.mul_div_le. lia.
    + rewrite Z.mul_comm. apply Z.mul_succ_div_gt. lia.
Qed.

(* every point of a canonical cell maps back to that cell *)
Lemma cell_char b s w :
  canonical b s -> s * 2 ^ (b + u) <= w < (s + 1) * 2 ^ (b + u) ->
  bidx u m w = b /\ sidx u m w = s.
Proof.
  intros C Hw.
  assert (Hb : 0 <= b) by (destruct C; lia).
  assert (Hd : 0 < 2 ^ (b + u)) by (apply pow2_gt0; lia).
  pose proof pm1_pos as P1. pose proof pm_half as Ph.
  assert (Hs0 : 0 <= s) by (destruct C; lia).
  assert (Hw0 : 0 <= w) by nia.
  assert (Eb : bidx u m w = b).
  { destruct C as [[-> Hs]|[Hb1 Hs]].
    - unfold bidx. destruct (Z.eq_dec w 0) as [->|]; [simpl; lia|].
      assert (w < 2 ^ (u + m)).
      { replace (u + m) with (m + (0 + u)) by lia. rewrite (pow2_add m (0 + u)) by lia. nia. }
      assert (Z.log2 w < u + m) by (apply Z.log2_lt_pow2; lia). lia.
    - unfold bidx.
      assert (Z.log2 w = b + u + m - 1).
      { apply Z.log2_unique; [lia|].
        replace (Z.succ (b + u + m - 1)) with (m + (b + u)) by lia.
        replace (b + u + m - 1) with ((m - 1) + (b + u)) by lia.
        rewrite (pow2_add m (b + u)), (pow2_add (m - 1) (b + u)) by lia. nia. }
      lia. }
  split; [assumption|].
  unfold sidx. rewrite Eb.
  symmetry. apply Z.div_unique with (r := w - s * 2 ^ (b + u)); [lia|ring].
Qed.

Lemma canonical_bounds b s : canonical b s -> 0 <= b /\ 0 <= s < 2 ^ m.
Proof. pose proof pm1_pos. intros [[-> ?]|[? ?]]; lia. Qed.

Lemma gsi v b : 0 <= v < 2 ^ 63 -> 0 <= b -> b + u <= 63 -> 0 <= v / 2 ^ (b + u) < 2 ^ m ->
  get_sub_bucket_idx h v b = v / 2 ^ (b + u).
Proof.
  intros Hv Hb Hbu Hr. unfold get_sub_bucket_idx. rewrite (g_unit _ _ _ _ G).
  rewrite shr64_spec by lia. apply wrap32_id.
  assert (2 ^ m <= 2 ^ 18) by (apply pow2_le; lia). change (2 ^ 18) with 262144 in H.
  change (2 ^ 31) with 2147483648. lia.
Qed.

Lemma gsi_bidx v : 0 <= v < 2 ^ 63 -> get_sub_bucket_idx h v (bidx u m v) = sidx u m v.
Proof.
  intros Hv. destruct (cell_of v (proj1 Hv)) as [C _].
  apply gsi; try assumption.
  - apply bidx_nonneg.
  - pose proof (bidx_le63 v Hv). lia.
  - apply canonical_bounds in C. exact (proj2 C).
Qed.

Lemma counts_index_spec b s : 0 <= b <= 63 -> 0 <= s < 2 ^ m ->
  counts_index h b s = b * 2 ^ (m - 1) + s.
Proof.
  intros Hb Hs. unfold counts_index. rewrite (g_hcm _ _ _ _ G), (g_shc _ _ _ _ G).
  pose proof pm1_pos as P1. pose proof pm_half as Ph.
  assert (P17 : 2 ^ (m - 1) <= 2 ^ 17) by (apply pow2_le; lia). change (2 ^ 17) with 131072 in P17.
  assert (T : 2 ^ 31 = 2147483648) by reflexivity.
  rewrite (wrap32_id (b + 1)) by lia.
  rewrite shl32_spec; [|lia|nia].
  rewrite (wrap32_id (s - 2 ^ (m - 1))) by lia.
  rewrite wrap32_id by nia. ring.
Qed.

Lemma cif v : 0 <= v < 2 ^ 63 -> counts_index_for h v = cidx u m v.
Proof.
  intros Hv. unfold counts_index_for. rewrite gbi by assumption. rewrite gsi_bidx by assumption.
  destruct (cell_of v (proj1 Hv)) as [C _]. apply canonical_bounds in C.
  pose proof (bidx_le63 v Hv).
  rewrite counts_index_spec; [reflexivity|lia|lia].
Qed.

Lemma cidx_range v : 0 <= v < top -> 0 <= cidx u m v < h_clen h.
Proof.
  intros Hv. rewrite (g_clen _ _ _ _ G). unfold cidx.
  destruct (cell_of v (proj1 Hv)) as [C _]. apply canonical_bounds in C.
  pose proof (bidx_lt_bc v Hv). pose proof pm1_pos. pose proof pm_half. nia.
Qed.

Lemma hi_lt_top : hi < top.
Proof. exact (g_top _ _ _ _ G). Qed.

Lemma top_63 : top < 2 ^ 63.
Proof. pose proof top_le. pose proof p62_63. lia. Qed.

(* RecordValues accepts every value below top, in particular every value in [lo, hi] *)
Lemma record_values_accepts hh v n :
  h_clen hh = h_clen h -> counts_index_for hh v = counts_index_for h v -> 0 <= v < top ->
  snd (record_values hh v n) = true.
Proof.
  intros E1 E2 Hv. unfold record_values. rewrite E2, E1.
  pose proof top_63. rewrite cif by lia. pose proof (cidx_range v Hv).
  destruct ((cidx u m v <? 0) || (h_clen h <=? cidx u m v)) eqn:E; [lia|reflexivity].
Qed.

Lemma value_from_index_spec b s : canonical b s -> b < h_bc h ->
  value_from_index h b s = s * 2 ^ (b + u) /\ 0 <= s * 2 ^ (b + u) /\ (s + 1) * 2 ^ (b + u) <= top.
Proof.
  intros C Hb. pose proof (canonical_bounds b s C) as [Hb0 Hs].
  pose proof (g_top62 _ _ _ _ G) as T62.
  assert (Hd : 0 < 2 ^ (b + u)) by (apply pow2_gt0; lia).
  assert (Ht : (s + 1) * 2 ^ (b + u) <= top).
  { unfold top. replace (u + m + h_bc h - 1) with ((m + (b + u)) + (h_bc h - 1 - b)) by lia.
    rewrite (pow2_add (m + (b + u)) (h_bc h - 1 - b)), (pow2_add m (b + u)) by lia.
    assert (1 <= 2 ^ (h_bc h - 1 - b)) by (assert (0 < 2 ^ (h_bc h - 1 - b)) by (apply pow2_gt0; lia); lia).
    set (D := 2 ^ (b + u)) in *. set (E := 2 ^ (h_bc h - 1 - b)) in *. set (M := 2 ^ m) in *.
    assert (A1 : (s + 1) * D <= M * D) by nia.
    assert (A2 : M * D * 1 <= M * D * E) by (apply Z.mul_le_mono_nonneg_l; nia).
    lia. }
  pose proof top_63.
  unfold value_from_index. rewrite (g_unit _ _ _ _ G).
  rewrite shl64_spec; [|lia|nia]. split; [reflexivity|]. split; [nia|assumption].
Qed.

Lemma lowest_spec v : 0 <= v < top -> lowest_equivalent_value h v = lowest u m v.
Proof.
  intros Hv. pose proof top_63. unfold lowest_equivalent_value, lowest.
  rewrite gbi by lia. rewrite gsi_bidx by lia.
  destruct (cell_of v (proj1 Hv)) as [C _].
  apply value_from_index_spec; [assumption|]. apply bidx_lt_bc; assumption.
Qed.

Lemma size_spec v : 0 <= v < top -> size_of_equivalent_value_range h v = Some (width u m v).
Proof.
  intros Hv. pose proof top_63. unfold size_of_equivalent_value_range, width.
  rewrite gbi by lia. rewrite gsi_bidx by lia. rewrite (g_sbc _ _ _ _ G), (g_unit _ _ _ _ G).
  destruct (cell_of v (proj1 Hv)) as [C _]. apply canonical_bounds in C.
  destruct (sidx u m v <? 2 ^ m) eqn:E; [|lia].
  pose proof (bidx_le63 v ltac:(lia)). pose proof (bidx_nonneg v).
  rewrite shl64_spec; [f_equal; lia|lia|].
  assert (2 ^ (u + bidx u m v) <= 2 ^ 62) by (apply pow2_le; lia).
  assert (0 < 2 ^ (u + bidx u m v)) by (apply pow2_gt0; lia).
  pose proof p62_63. lia.
Qed.

Lemma lowest_le v : 0 <= v -> lowest u m v <= v <= highest u m v.
Proof.
  intros Hv. destruct (cell_of v Hv) as [_ R]. unfold highest, lowest, width.
  replace (u + bidx u m v) with (bidx u m v + u) by lia. lia.
Qed.

Lemma highest_lt_top v : 0 <= v < top -> 0 <= lowest u m v /\ highest u m v < top.
Proof.
  intros Hv. destruct (cell_of v (proj1 Hv)) as [C R].
  pose proof (value_from_index_spec _ _ C (bidx_lt_bc v Hv)) as (_ & A & B).
  unfold highest, lowest, width. replace (u + bidx u m v) with (bidx u m v + u) by lia. lia.
Qed.

Lemma highest_spec v : 0 <= v < top -> highest_equivalent_value h v = Some (highest u m v).
Proof.
  intros Hv. unfold highest_equivalent_value, next_non_equivalent_value.
  rewrite size_spec by assumption. rewrite lowest_spec by assumption.
  pose proof (highest_lt_top v Hv) as [A B]. pose proof top_63. unfold highest in *.
  assert (0 < width u m v) by (unfold width; apply pow2_gt0; pose proof (bidx_nonneg v); lia).
  rewrite (wrap64_id (lowest u m v + width u m v)) by lia.
  rewrite wrap64_id by lia. reflexivity.
Qed.

(* all values of one equivalent range share bucket, sub-bucket, hence lowest/highest/width *)
Lemma same_cell v w : 0 <= v -> lowest u m v <= w <= highest u m v ->
  bidx u m w = bidx u m v /\ sidx u m w = sidx u m v.
Proof.
  intros Hv Hw. destruct (cell_of v Hv) as [C R].
  apply cell_char; [assumption|].
  unfold highest, lowest, width in Hw. replace (u + bidx u m v) with (bidx u m v + u) in Hw by lia. lia.
Qed.

Lemma same_cell_ranges v w : 0 <= v -> lowest u m v <= w <= highest u m v ->
  lowest u m w = lowest u m v /\ highest u m w = highest u m v /\ cidx u m w = cidx u m v.
Proof.
  intros Hv Hw. destruct (same_cell v w Hv Hw) as [E1 E2].
  unfold highest, lowest, width, cidx. rewrite E1, E2. auto.
Qed.

(* index round trip: the value the iterator computes for a cell maps back to the cell *)
Lemma index_roundtrip b s : canonical b s ->
  bidx u m (s * 2 ^ (b + u)) = b /\ sidx u m (s * 2 ^ (b + u)) = s.
Proof.
  intros C. apply cell_char; [assumption|].
  pose proof (canonical_bounds b s C) as [Hb _].
  assert (0 < 2 ^ (b + u)) by (apply pow2_gt0; lia). lia.
Qed.

(* canonical pairs are in bijection with counts indices *)
Lemma canonical_index_inj b s b' s' : canonical b s -> canonical b' s' ->
  b * 2 ^ (m - 1) + s = b' * 2 ^ (m - 1) + s' -> b = b' /\ s = s'.
Proof.
  pose proof pm1_pos as P. pose proof pm_half as Ph.
  intros [[-> Hs]|[Hb Hs]] [[-> Hs']|[Hb' Hs']] E; try nia.
  assert (b = b') by nia. subst. lia.
Qed.

Lemma cidx_mono v w : 0 <= v <= w -> cidx u m v <= cidx u m w.
Proof.
  intros Hvw. unfold cidx.
  destruct (cell_of v ltac:(lia)) as [Cv Rv]. destruct (cell_of w ltac:(lia)) as [Cw Rw].
  pose proof pm1_pos as P. pose proof pm_half as Ph.
  assert (Hb : bidx u m v <= bidx u m w).
  { unfold bidx. pose proof (Z.log2_le_mono v w ltac:(lia)). lia. }
  destruct (Z.eq_dec (bidx u m v) (bidx u m w)) as [E|E].
  - rewrite E. assert (sidx u m v <= sidx u m w); [|lia].
    unfold sidx. rewrite E. apply Z.div_le_mono; [|lia].
    apply pow2_gt0. pose proof (bidx_nonneg w). lia.
  - pose proof (canonical_bounds _ _ Cv). pose proof (canonical_bounds _ _ Cw).
    destruct Cw as [[Z0 ?]|[? ?]]; [pose proof (bidx_nonneg v); lia|]. nia.
Qed.

(* the equivalent range is no wider than max(2^unit, v / 10^sigfigs) when 2^(m-1) >= 10^sigfigs *)
Lemma width_bound v p : 0 <= v -> 0 < p <= 2 ^ (m - 1) -> width u m v <= Z.max (2 ^ u) (v / p).
Proof.
  intros Hv Hp. unfold width. destruct (cell_of v Hv) as [C R].
  destruct C as [[E _]|[Hb Hs]].
  - rewrite E. replace (u + 0) with u by lia. lia.
  - assert (Hd : 0 < 2 ^ (bidx u m v + u)) by (apply pow2_gt0; lia).
    assert (2 ^ (u + bidx u m v) <= v / p); [|lia].
    replace (u + bidx u m v) with (bidx u m v + u) by lia.
    apply Z.div_le_lower_bound; [lia|]. nia.
Qed.

End Geom.

Example geom_example :
  match new_hist 1 2048 3 with
  | Ok h => (h_bc h, h_clen h, counts_index_for h 2048, highest_equivalent_value h 2048) = (2, 3072, 2048, Some 2049)
  | _ => False
  end.
Proof. vm_compute. reflexivity. Qed.
