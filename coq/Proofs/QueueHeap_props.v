(* The sequential clauses of C05 stated on the pointer-level queue model (q_step / q_try), for every
   state reachable by any operation list.  Each is transferred from the specification through the
   refinement theorem [q_step_refines]. *)
From FunV Require Import Base.Tac Model.QueueHeap
     Proofs.QueueHeap_tracker Proofs.QueueHeap_spec Proofs.QueueHeap_refine.
Local Open Scope Z_scope.

(* a tracker as produced by the constructors: invariant holds, length 0 *)
Definition t_fresh (t : tracker) : Prop := t_ok t /\ t_len t = 0.

Lemma t_fresh_unlimited : t_fresh (NoLimit 0).
Proof. split; simpl; lia. Qed.

Lemma t_fresh_hard c : 0 <= c -> t_fresh (HardLimit c 0).
Proof. split; simpl; lia. Qed.

Lemma t_fresh_validated hl sq bc t : validate_opts hl sq bc = Some t -> t_fresh t.
Proof. intros H. destruct (validate_opts_ok _ _ _ _ H) as (A & B & _). split; assumption. Qed.

Lemma valid_options hl sq bc :
  ((exists t, validate_opts hl sq bc = Some t) <-> (0 < hl /\ sq <= hl /\ PrimFloat.ltb bc f_zero = false)) /\
  (forall t, validate_opts hl sq bc = Some t -> t_fresh t /\ t_bound t = Some hl).
Proof.
  split; [apply validate_opts_accepts_iff|].
  intros t H. split; [eapply t_fresh_validated; eassumption|]. apply (validate_opts_ok _ _ _ _ H).
Qed.

Lemma qreach_q_inv t q : t_fresh t -> qreach t q -> q_inv q.
Proof. intros [A B]. apply qreach_inv; assumption. Qed.

Lemma qreach_step t q o : qreach t q -> qreach t (fst (q_step q o)).
Proof.
  intros [ops E]. exists (ops ++ [o]). rewrite run_ops_app. simpl. rewrite <- E.
  destruct (q_step q o); reflexivity.
Qed.

Lemma q_step_abs q o : q_inv q -> spec_step (abs q) o = (abs (fst (q_step q o)), snd (q_step q o)).
Proof. intros [W K]. apply q_step_refines; assumption. Qed.

(* ---- queue_refines_fifo *)

(* for every operation list: the pointer-level run and the FIFO specification give the same
   results, the walk over the links equals the specification's item list, and what was handed out
   followed by what is still linked is exactly what was accepted, in order (each once, only if added) *)
Theorem queue_refines_fifo t ops : t_fresh t ->
  let q := fst (run_ops q_step (make_queue t) ops) in
  let rs := snd (run_ops q_step (make_queue t) ops) in
  let s := fst (run_ops spec_step (spec_init t) ops) in
  rs = snd (run_ops spec_step (spec_init t) ops) /\
  contents q = items s /\ trk q = strk s /\ closed q = sclosed s /\
  taken rs ++ contents q = added ops rs /\
  wfq q /\ (forall r, In r rs -> r <> RPanic).
Proof.
  intros [A B]. pose proof (make_queue_inv t A B) as I.
  destruct (run_refines ops (make_queue t) I) as [E I'].
  rewrite make_queue_abs in E.
  pose proof (spec_run_fifo ops (spec_init t) (spec_init_ok t A B)) as F.
  rewrite E in *. simpl in *.
  split; [reflexivity|]. split; [reflexivity|]. split; [reflexivity|]. split; [reflexivity|].
  split; [exact F|]. split; [apply I'|].
  (* no panic: by induction over the run *)
  clear E F I'. revert I. generalize (make_queue t). induction ops as [|o ops IH]; intros q I r Hr; simpl in *; [contradiction|].
  pose proof (q_step_no_panic q o I) as N. pose proof (q_step_inv q o I) as I1.
  destruct (q_step q o) as [q1 r1]; simpl in *.
  specialize (IH q1 I1). destruct (run_ops q_step q1 ops) as [q2 rs]; simpl in *.
  destruct Hr as [Hr|Hr]; [subst; assumption|apply IH; assumption].
Qed.

(* the same for the try-form *)
Theorem queue_refines_fifo_try t ops : t_fresh t ->
  snd (run_ops q_try (make_queue t) ops) = snd (run_ops spec_try (spec_init t) ops) /\
  abs (fst (run_ops q_try (make_queue t) ops)) = fst (run_ops spec_try (spec_init t) ops).
Proof.
  intros [A B]. destruct (run_try_refines ops (make_queue t) (make_queue_inv t A B)) as [E _].
  rewrite make_queue_abs in E. rewrite E. split; reflexivity.
Qed.

(* ---- len_exact_and_bounded *)

Lemma q_step_bound q o : t_bound (trk (fst (q_step q o))) = t_bound (trk q).
Proof.
  assert (PA : forall v, t_bound (trk (fst (add_step q v))) = t_bound (trk q)).
  { intros v. unfold add_step, do_add. destruct (closed q); [reflexivity|].
    pose proof (t_add_bound (trk q)) as TB. destruct (t_add (trk q)) as [t' e]; simpl in *.
    destruct e; simpl; assumption. }
  assert (PP : forall q, t_bound (trk (fst (res_of_pop (pop_front q)))) = t_bound (trk q)).
  { intros q0. unfold pop_front. destruct (link (qheap q0 (front q0))); simpl; [apply t_remove_bound|reflexivity]. }
  assert (PW : forall q, t_bound (trk (fst (wait_step q))) = t_bound (trk q)).
  { intros q0. unfold wait_step. destruct (t_len (trk q0) =? 0); [destruct (closed q0); reflexivity|apply PP]. }
  assert (PR : forall q, t_bound (trk (fst (remove_step q))) = t_bound (trk q)).
  { intros q0. unfold remove_step. destruct (t_len (trk q0) =? 0); [reflexivity|apply PP]. }
  destruct o.
  - apply PA.
  - simpl. destruct (closed q); [reflexivity|]. destruct (t_cap (trk q) >? t_len (trk q)); [apply PA|reflexivity].
  - apply PR.
  - apply PW.
  - reflexivity.
  - reflexivity.
  - apply PA.
  - change (q_step q OReceive) with (match remove_step q with (q', RNotOk) => wait_step q' | r => r end).
    specialize (PR q). destruct (remove_step q) as [q1 r1]; simpl in PR.
    destruct r1; try exact PR. rewrite (PW q1). exact PR.
  - reflexivity.
Qed.

Lemma run_bound ops : forall q, t_bound (trk (fst (run_ops q_step q ops))) = t_bound (trk q).
Proof.
  induction ops as [|o ops IH]; intros q; simpl; [reflexivity|].
  pose proof (q_step_bound q o) as S1.
  destruct (q_step q o) as [q1 r1]; simpl in *. specialize (IH q1).
  destruct (run_ops q_step q1 ops) as [q2 rs]; simpl in *. congruence.
Qed.

Lemma qreach_bound t q : qreach t q -> t_bound (trk q) = t_bound t.
Proof. intros [ops E]. subst q. rewrite run_bound. reflexivity. Qed.

(* Len (and the Distributor's Len) is the exact number of linked items = tracker.length; the tracker
   invariant 0 <= length <= softQuota <= hardLimit holds; the number of items never exceeds the
   configured hard limit (capacity) *)
Theorem len_exact_and_bounded t q : t_fresh t -> qreach t q ->
  q_step q OLen = (q, RLen (Z.of_nat (length (contents q)))) /\
  q_step q ODLen = (q, RLen (Z.of_nat (length (contents q)))) /\
  t_len (trk q) = Z.of_nat (length (contents q)) /\
  t_ok (trk q) /\
  (forall b, t_bound t = Some b -> Z.of_nat (length (contents q)) <= b).
Proof.
  intros Ft R. pose proof (qreach_q_inv t q Ft R) as [W [A B]]. simpl in A, B.
  simpl. rewrite B. split; [reflexivity|]. split; [reflexivity|]. split; [reflexivity|].
  split; [assumption|]. intros b Hb. rewrite <- B. eapply t_ok_len_bound; [eassumption|].
  rewrite (qreach_bound t q R). assumption.
Qed.

(* ---- add_error_iff *)

Definition q_add_rule (q : queue) : qerr := if closed q then EClosed else t_add_rule (trk q).

Lemma q_add_result q v : q_inv q ->
  snd (q_step q (OAdd v)) = RErr (q_add_rule q) /\ snd (q_step q (OSend v)) = RErr (q_add_rule q) /\
  (q_add_rule q <> ENil -> fst (q_step q (OAdd v)) = q /\ fst (q_step q (OSend v)) = q) /\
  (q_add_rule q = ENil -> contents (fst (q_step q (OAdd v))) = contents q ++ [v] /\
                          t_len (trk (fst (q_step q (OAdd v)))) = t_len (trk q) + 1).
Proof.
  intros I. pose proof I as [W [A B]]. simpl in A, B.
  pose proof (q_step_abs q (OAdd v) I) as E.
  destruct (spec_add_rule (abs q) v (proj2 I)) as (S1 & S2 & S3 & S4).
  assert (Rule : s_add_rule (abs q) = q_add_rule q) by reflexivity.
  rewrite E in S1, S4. simpl in S1, S4. rewrite Rule in *.
  change (q_step q (OSend v)) with (q_step q (OAdd v)).
  split; [assumption|]. split; [assumption|]. split.
  - intros N. assert (X : fst (q_step q (OAdd v)) = q).
    { simpl. unfold add_step, do_add. unfold q_add_rule in N. destruct (closed q) eqn:Cl; [reflexivity|].
      rewrite <- (t_add_rule_correct _ A) in N.
      pose proof (t_add_error_unchanged (trk q) N) as U.
      destruct (t_add (trk q)) as [t' e]; simpl in *. subst t'.
      destruct e; try congruence; destruct q; reflexivity. }
    split; assumption.
  - intros N. split; [apply S4; assumption|].
    simpl. unfold add_step, do_add. unfold q_add_rule in N. destruct (closed q) eqn:Cl; [discriminate|].
    rewrite <- (t_add_rule_correct _ A) in N.
    destruct (t_add_ok_len _ A N) as (_ & L & _).
    destruct (t_add (trk q)) as [t' e]; simpl in *. subst e. simpl. assumption.
Qed.

(* Add fails exactly when the sequential rules say so (DESIGN C05):
     closed            ErrQueueClosed, always and first;
     quota tracker     ErrQueueFull <-> length >= softQuota /\ length = hardLimit,
                       ErrQueueNoCredit <-> softQuota <= length < hardLimit /\ credit < 1;
     hard-limit tracker ErrQueueFull <-> length >= capacity (never no-credit);
     unlimited         never;
   and a failed Add leaves the queue unchanged. *)
Theorem add_error_iff t q v : t_fresh t -> qreach t q ->
  let r := snd (q_step q (OAdd v)) in
  (closed q = true -> r = RErr EClosed) /\
  (closed q = false ->
     match trk q with
     | Quota sq hl l cr =>
         (r = RErr EFull <-> (l >= sq /\ l = hl)) /\
         (r = RErr ENoCredit <-> (sq <= l < hl /\ credit_lt_1 cr = true)) /\
         (r = RErr ENil <-> (l < sq \/ (l < hl /\ credit_lt_1 cr = false))) /\
         r <> RErr EClosed
     | HardLimit c l => (r = RErr EFull <-> l >= c) /\ (r = RErr ENil <-> l < c) /\ r <> RErr ENoCredit /\ r <> RErr EClosed
     | NoLimit _ => r = RErr ENil
     end) /\
  (r <> RErr ENil -> fst (q_step q (OAdd v)) = q) /\
  snd (q_step q (OSend v)) = r.
Proof.
  intros Ft R. pose proof (qreach_q_inv t q Ft R) as I.
  destruct (q_add_result q v I) as (S1 & S2 & S3 & S4). pose proof I as [W [A B]]. simpl in A, B.
  cbv zeta. rewrite S1, S2. unfold q_add_rule in *.
  assert (Inj : forall a b, RErr a = RErr b <-> a = b) by (intros a b; split; congruence).
  split; [intros C; rewrite C; reflexivity|]. split; [|split; [|reflexivity]].
  - intros C. rewrite C in *. rewrite <- (t_add_rule_correct _ A).
    destruct (trk q) as [l|c l|sq hl l cr] eqn:T.
    + reflexivity.
    + rewrite !Inj. split; [apply hard_full_iff|]. split.
      * simpl. destruct (l >=? c) eqn:G; simpl; split; intros; try discriminate; try lia; reflexivity.
      * destruct (hard_add_cases c l) as [X|X]; rewrite X; split; intros Y; inversion Y.
    + assert (Lb : l <= hl) by (simpl in A; lia). rewrite !Inj.
      split; [apply quota_full_iff|]. split; [apply quota_nocredit_iff; assumption|].
      split; [apply quota_accept_iff; assumption|].
      destruct (quota_add_never_other sq hl l cr _ eq_refl) as [X|[X|X]]; rewrite X; intros Y; inversion Y.
  - intros N. apply S3. congruence.
Qed.

(* ---- quota_dynamics (queue level): what a successful Add / a successful take does to the tracker *)
Theorem quota_dynamics t q v : t_fresh t -> qreach t q ->
  forall sq hl l cr, trk q = Quota sq hl l cr -> closed q = false ->
  (* successful add over the quota: exactly one credit, quota raised to length+1 *)
  (l >= sq -> l <> hl -> credit_lt_1 cr = false ->
     trk (fst (q_step q (OAdd v))) = Quota (l + 1) hl (l + 1) (PrimFloat.sub cr f_one)) /\
  (* add below the quota: only the length changes *)
  (l < sq -> trk (fst (q_step q (OAdd v))) = Quota sq hl (l + 1) cr) /\
  (* a take on a non-empty queue: quota lowered by at most one (exactly when softQuota > 1 and the
     new length is below half of it), credit += (softQuota'-length')/softQuota', capped at hardLimit-softQuota' *)
  (0 < l -> exists sq',
     trk (fst (q_step q ORemove)) =
       Quota sq' hl (l - 1)
         (cap_credit (z2f (hl - sq')) (PrimFloat.add cr (PrimFloat.div (z2f (sq' - (l - 1))) (z2f sq')))) /\
     sq - 1 <= sq' <= sq /\ (sq' = sq - 1 <-> (sq > 1 /\ l - 1 < sq / 2)) /\ 1 <= sq' /\ 0 < sq' - (l - 1)).
Proof.
  intros Ft R sq hl l cr T C. pose proof (qreach_q_inv t q Ft R) as I. pose proof I as [W [A B]]. simpl in A, B.
  rewrite T in A. split; [|split].
  - intros H1 H2 H3. simpl. unfold add_step, do_add. rewrite C, T, (quota_add_over sq hl l cr H1 H2 H3). reflexivity.
  - intros H1. simpl. unfold add_step, do_add. rewrite C, T, (quota_add_below sq hl l cr H1). reflexivity.
  - intros L. destruct (quota_remove_dynamics sq hl l cr A L) as (sq' & E & R1 & R2 & R3 & R4 & R5).
    exists sq'. split; [|tauto].
    pose proof (q_step_abs q ORemove I) as S.
    assert (Ne : contents q <> []).
    { intros X. rewrite T, X in B. simpl in B. lia. }
    destruct (contents q) as [|x rest] eqn:Cq; [congruence|].
    destruct (spec_take_front (abs q) x rest (proj2 I) Cq) as (S1 & _ & _).
    assert (TT : t_remove (trk q) = trk (fst (q_step q ORemove))).
    { rewrite S1 in S. exact (f_equal (fun p => strk (fst p)) S). }
    rewrite <- TT, T. exact E.
Qed.

(* ---- close_semantics *)
Theorem close_semantics t q : t_fresh t -> qreach t q ->
  (* Close sets the flag and touches nothing else *)
  (let q' := fst (q_step q OClose) in
   snd (q_step q OClose) = RErr ENil /\ closed q' = true /\ contents q' = contents q /\ trk q' = trk q) /\
  (* once closed, always closed *)
  (closed q = true -> forall o, closed (fst (q_step q o)) = true) /\
  (* after Close every kind of add fails with ErrQueueClosed and changes nothing *)
  (closed q = true -> forall v,
     q_step q (OAdd v) = (q, RErr EClosed) /\ q_step q (OBlockingAdd v) = (q, RErr EClosed) /\
     q_step q (OSend v) = (q, RErr EClosed)) /\
  (* queued items remain removable, oldest first, closed or not *)
  (forall v rest, contents q = v :: rest ->
     forall o, (o = ORemove \/ o = OWait \/ o = OReceive) ->
       snd (q_step q o) = RItem v /\ contents (fst (q_step q o)) = rest /\ closed (fst (q_step q o)) = closed q) /\
  (* closed and empty: Wait / Receive report ErrQueueClosed (open and empty: they block), Remove not-ok *)
  (contents q = [] ->
     q_step q ORemove = (q, RNotOk) /\
     q_step q OWait = (q, if closed q then RErr EClosed else RBlocked) /\
     q_step q OReceive = (q, if closed q then RErr EClosed else RBlocked)).
Proof.
  intros Ft R. pose proof (qreach_q_inv t q Ft R) as I. pose proof I as [W [A B]]. simpl in A, B.
  split; [|split; [|split; [|split]]].
  - simpl. destruct W as [addrs Rp]. repeat split; reflexivity.
  - intros C o. pose proof (q_step_abs q o I) as E.
    pose proof (spec_closed_monotone (abs q) o C) as M. rewrite E in M. exact M.
  - intros C v. simpl. unfold add_step, do_add. rewrite C. auto.
  - intros v rest Cq o Ho. pose proof (q_step_abs q o I) as E.
    destruct (spec_take_front (abs q) v rest (proj2 I) Cq) as (S1 & S2 & S3).
    destruct Ho as [X|[X|X]]; subst o; [rewrite S1 in E|rewrite S2 in E|rewrite S3 in E];
      inversion E as [[E1 E2 E3 E4]]; auto.
  - intros Cq. assert (L : t_len (trk q) = 0) by (rewrite B, Cq; reflexivity).
    assert (Wt : wait_step q = (q, if closed q then RErr EClosed else RBlocked)).
    { unfold wait_step. rewrite L. simpl. destruct (closed q); reflexivity. }
    assert (Rm : remove_step q = (q, RNotOk)).
    { unfold remove_step. rewrite L. reflexivity. }
    simpl. rewrite Rm. auto.
Qed.

(* ---- a context error has no effect (sequential, try-form) *)
Lemma q_step_not_ctx q o : q_inv q -> snd (q_step q o) <> cancelled.
Proof.
  intros I. pose proof (q_step_abs q o I) as E.
  pose proof (spec_step_not_ctx (abs q) o (proj2 I)) as N. rewrite E in N. exact N.
Qed.

Lemma q_step_blocked_no_effect q o : is_blocked (snd (q_step q o)) = true -> fst (q_step q o) = q.
Proof.
  assert (PA : forall v, is_blocked (snd (add_step q v)) = true -> fst (add_step q v) = q).
  { intros v. unfold add_step. destruct (do_add q v); simpl. discriminate. }
  assert (PP : forall q0, is_blocked (snd (res_of_pop (pop_front q0))) = true -> fst (res_of_pop (pop_front q0)) = q0).
  { intros q0. unfold pop_front. destruct (link (qheap q0 (front q0))); simpl; discriminate. }
  assert (PW : forall q0, is_blocked (snd (wait_step q0)) = true -> fst (wait_step q0) = q0).
  { intros q0. unfold wait_step. destruct (t_len (trk q0) =? 0); [destruct (closed q0); reflexivity|apply PP]. }
  destruct o; simpl; try discriminate; try apply PA; try apply PW.
  - destruct (closed q); [discriminate|]. destruct (t_cap (trk q) >? t_len (trk q)); [apply PA|reflexivity].
  - unfold remove_step. destruct (t_len (trk q) =? 0); [discriminate|apply PP].
  - unfold remove_step. destruct (t_len (trk q) =? 0) eqn:L.
    + apply PW.
    + unfold pop_front. destruct (link (qheap q (front q))); simpl; discriminate.
Qed.

(* try-form: a blocking operation called with a cancelled context reports the context error exactly
   when its wait predicate is false, and then the queue is unchanged; in particular BlockingAdd's
   predicate is the code's cap() > len(), Wait's/Receive's is "non-empty or closed" *)
Theorem ctx_error_no_effect_seq t q o : t_fresh t -> qreach t q ->
  (snd (q_try q o) = RErr ECtx <-> is_blocked (snd (q_step q o)) = true) /\
  (snd (q_try q o) = RErr ECtx -> fst (q_try q o) = q) /\
  (snd (q_try q o) = RErr ECtx ->
     match o with
     | OBlockingAdd _ => closed q = false /\ t_cap (trk q) <= t_len (trk q)
     | OWait | OReceive => closed q = false /\ contents q = []
     | _ => False
     end).
Proof.
  intros Ft R. pose proof (qreach_q_inv t q Ft R) as I.
  destruct (try_of_ctx q_step q o (q_step_not_ctx q o I)) as (T1 & T2 & T3).
  split; [exact T1|]. split; [exact T2|].
  intros X. apply T1 in X. pose proof (q_step_abs q o I) as E.
  assert (Bs : is_blocked (snd (spec_step (abs q) o)) = true) by (rewrite E; exact X).
  destruct (spec_step_blocked (abs q) o (proj2 I) Bs) as [_ M]. exact M.
Qed.

(* non-vacuity of the reachability premise *)
Example qreach_example : exists t q, t_fresh t /\ qreach t q /\ contents q = [7; 8] /\ closed q = true.
Proof.
  exists (Quota 2 3 0 f_one), (fst (run_ops q_step (make_queue (Quota 2 3 0 f_one)) [OAdd 7; OAdd 8; OClose])).
  split; [split; simpl; lia|]. split; [eexists; reflexivity|]. split; reflexivity.
Qed.
