(* C01_complete / C04_finite_input_eof / C04_progress_exhaust for Iterator.ParallelBuffer(k): every advance of the
   consumer runs  go once.Do(runner); the runner launches m = max 1 k workers (context 2), waits for them, cancels
   context 2, closes the buffer (channel 1, capacity k) and returns - which releases the goroutines parked in
   once.Do; worker j reads its Split output (the first read starts the splitter) and sends to the buffer; the
   splitter closes the Split pipe (channel 0) on return. Any k, any input, any interleaving; un-aborted runs. *)
From FunV Require Import Base.Tac Base.ListX Model.Pipelines
  Proofs.Pipelines_conserve Proofs.Pipelines_quiesce Proofs.Pipelines_nets Proofs.Pipelines_complete Proofs.Pipelines_closer
  Proofs.Pipelines_release Proofs.Pipelines_nodrop Proofs.Pipelines_completeness Proofs.Pipelines_progress
  Proofs.Pipelines_completeness_split Proofs.Pipelines_completeness_map.

Section PBuf.
Variable k : nat.
Notation m := (max 1 k).
Notation N := (pbuf_net k).

Lemma Hm : 0 < m. Proof. lia. Qed.

Lemma B0 : nth_error (n_procs N) 0 = Some (usr (cons_once_prog 2 1)). Proof. reflexivity. Qed.
Lemma B1 : nth_error (n_procs N) 1 = Some (bg (pump_prog 0 0)). Proof. reflexivity. Qed.
Lemma B2 : nth_error (n_procs N) 2 = Some (bg (runner_prog m 2 true)). Proof. reflexivity. Qed.
Lemma Bw j : j < m -> nth_error (n_procs N) (3 + j) = Some (wgp (mapw_prog j)).
Proof. intros H. cbn [pbuf_net n_procs]. exact (nth_workers _ _ _ (fun j => wgp (mapw_prog j)) m j H). Qed.
Lemma Bdesc p d : nth_error (n_procs N) p = Some d ->
  (p = 0 /\ d = usr (cons_once_prog 2 1)) \/ (p = 1 /\ d = bg (pump_prog 0 0)) \/ (p = 2 /\ d = bg (runner_prog m 2 true)) \/
  (exists j, j < m /\ p = 3 + j /\ d = wgp (mapw_prog j)).
Proof. intros H. cbn [pbuf_net n_procs] in H. apply nth_workers_inv in H. exact H. Qed.

Lemma brunner_instr pc i :
  nth_error (runner_prog m 2 true) pc = Some i ->
  (pc < m /\ i = ISpawn (3 + pc) (GId 2) (pc + 1)) \/ (pc = m /\ i = IWgWait None (m + 1)) \/
  (pc = m + 1 /\ i = ICancel 2 (m + 2)) \/ (pc = m + 2 /\ i = IClose 1 (m + 3)) \/ (pc = m + 3 /\ i = IExit).
Proof.
  unfold runner_prog. intros H. destruct (Nat.lt_ge_cases pc m) as [Hlt|Hge].
  - left. split; auto. rewrite nth_error_app1 in H by (rewrite len_spawns; lia). unfold spawns in H.
    rewrite nth_error_map, (nth_error_nth' _ 0) in H by (rewrite seq_length; lia). rewrite seq_nth in H by lia. cbn in H. inv H.
    f_equal; lia.
  - right. rewrite nth_error_app2 in H by (rewrite len_spawns; lia). rewrite len_spawns in H.
    remember (pc - m) as r eqn:Er. destruct r as [|[|r]]; cbn [app nth_error] in H.
    + inv H. left. split; auto. lia.
    + inv H. right. left. split; auto. lia.
    + destruct r as [|[|r]]; cbn in H.
      * inv H. right. right. left. split; auto. lia.
      * inv H. right. right. right. split; auto. lia.
      * destruct r; discriminate.
Qed.

Lemma brunner_exit : nth_error (runner_prog m 2 true) (m + 3) = Some IExit.
Proof.
  unfold runner_prog. rewrite nth_error_app2 by (rewrite len_spawns; lia). rewrite len_spawns.
  replace (m + 3 - m) with 3 by lia. reflexivity.
Qed.

Lemma hand_disc_pbuf_net : hand_disc N = true.
Proof.
  unfold hand_disc. cbn [pbuf_net n_procs]. apply forallb_app'.
  - cbn [forallb usr bg d_prog]. rewrite andb_true_r.
    replace (forallb (hand_disc_instr (runner_prog m 2 true)) (runner_prog m 2 true)) with true; [reflexivity|].
    symmetry. apply forallb_forall. intros i Hi. apply In_nth_error in Hi as (q & Hq).
    apply brunner_instr in Hq as [(_ & ->)|[(_ & ->)|[(_ & ->)|[(_ & ->)|(_ & ->)]]]]; reflexivity.
  - apply forallb_map_seq. intros j _. reflexivity.
Qed.

Lemma b_cons_cur s c d i :
  cur_instr N s 0 = Some (c, d, i) ->
  (p_pc c = 0 /\ i = ICheck GOwn 1 5) \/ (p_pc c = 1 /\ i = IGoOnce 2 GOwn 2) \/ (p_pc c = 2 /\ i = IRecv 1 GOwn 3 4 4) \/
  (p_pc c = 3 /\ i = IDeliver 0) \/ (p_pc c = 4 /\ i = ICancel 1 5) \/ (p_pc c = 5 /\ i = IExit).
Proof.
  intros Hc. apply cur_instr_inv in Hc as (_ & Hd & _ & Hi). rewrite B0 in Hd. inv Hd. cbn [d_prog usr cons_once_prog] in Hi.
  destruct (p_pc c) as [|[|[|[|[|[|q]]]]]]; cbn in Hi; inv Hi; auto 8. destruct q; discriminate.
Qed.

Lemma b_worker_cur s j c d i :
  j < m -> cur_instr N s (3 + j) = Some (c, d, i) ->
  (p_pc c = 0 /\ i = ICheck GOwn 1 5) \/ (p_pc c = 1 /\ i = ISpawn 1 (GId (3 + j)) 2) \/ (p_pc c = 2 /\ i = IRecv 0 (GId (3 + j)) 3 4 4) \/
  (p_pc c = 3 /\ i = ISend 1 GOwn 0 5 5) \/ (p_pc c = 4 /\ i = ICancel (3 + j) 5) \/ (p_pc c = 5 /\ i = IExit).
Proof.
  intros Hj Hc. apply cur_instr_inv in Hc as (_ & Hd & _ & Hi). rewrite (Bw j Hj) in Hd. inv Hd. cbn [d_prog wgp mapw_prog] in Hi.
  destruct (p_pc c) as [|[|[|[|[|[|q]]]]]]; cbn in Hi; inv Hi; auto 8. destruct q; discriminate.
Qed.

Lemma b_pump_cur s pr d i :
  cur_instr N s 1 = Some (pr, d, i) ->
  (p_pc pr = 0 /\ i = ISrc 0 GOwn 1 2 2) \/ (p_pc pr = 1 /\ i = ISend 0 GOwn 0 2 2) \/ (p_pc pr = 2 /\ i = IClose 0 3) \/ (p_pc pr = 3 /\ i = IExit).
Proof. intros Hc. apply cur_instr_inv in Hc as (_ & Hd & _ & Hi). rewrite B1 in Hd. inv Hd. cbn [d_prog bg] in Hi. apply pump_instr in Hi. exact Hi. Qed.

Lemma b_runner_cur s pr d i :
  cur_instr N s 2 = Some (pr, d, i) ->
  (p_pc pr < m /\ i = ISpawn (3 + p_pc pr) (GId 2) (p_pc pr + 1)) \/ (p_pc pr = m /\ i = IWgWait None (m + 1)) \/
  (p_pc pr = m + 1 /\ i = ICancel 2 (m + 2)) \/ (p_pc pr = m + 2 /\ i = IClose 1 (m + 3)) \/ (p_pc pr = m + 3 /\ i = IExit).
Proof. intros Hc. apply cur_instr_inv in Hc as (_ & Hd & _ & Hi). rewrite B2 in Hd. inv Hd. cbn [d_prog bg] in Hi. apply brunner_instr. exact Hi. Qed.

Definition b_wpast (s : state) (j : nat) : Prop :=
  exists c, nth_error (s_procs s) (3 + j) = Some c /\ (p_st c = PDone \/ (p_st c = PRun /\ p_pc c = 5)).
Definition b_ppast (s : state) : Prop :=
  exists pr, nth_error (s_procs s) 1 = Some pr /\ (p_st pr = PDone \/ (p_st pr = PRun /\ p_pc pr = 3)).
Definition b_cpast (s : state) : Prop :=
  exists c, nth_error (s_procs s) 0 = Some c /\ (p_st c = PDone \/ (p_st c = PRun /\ p_pc c = 5)).
Definition b_wdone (s : state) : Prop := forall j, j < m -> isdone s (3 + j).

Record bv (s : state) : Prop := {
  bv_na : forall p pr, nth_error (s_procs s) p = Some pr -> p_st pr <> PAbandoned;
  bv_len : length (s_chans s) = 2 /\ length (s_srcs s) = 1;
  bv_b0 : unbuffered s 0;
  bv_c1 : exists c, nth_error (s_chans s) 1 = Some c /\ c_cap c = k;
  bv_d : s_drop s = [];
  bv_cc : exists c, nth_error (s_procs s) 0 = Some c /\ p_st c <> PNotStarted /\ p_ctx c = 1;
  bv_wc : forall j c, j < m -> nth_error (s_procs s) (3 + j) = Some c -> p_st c <> PNotStarted -> p_ctx c = 2;
  bv_u : forall c, In c (s_canc s) -> (exists j, j < m /\ c = 3 + j /\ b_wpast s j) \/ (c = 2 /\ b_wdone s) \/ (c = 1 /\ b_cpast s /\ b_wdone s);
  bv_q : closedb s 1 = true -> b_wdone s;
  bv_q2 : forall c, nth_error (s_procs s) 0 = Some c -> p_st c = PRun -> p_pc c = 4 -> b_wdone s;
  bv_cl : forall j c, j < m -> nth_error (s_procs s) (3 + j) = Some c -> p_st c = PDone \/ (p_st c = PRun /\ 4 <= p_pc c) -> closedb s 0 = true;
  bv_pp : closedb s 0 = true -> b_ppast s;
  bv_pd : forall pr, nth_error (s_procs s) 1 = Some pr -> p_st pr = PDone \/ (p_st pr = PRun /\ p_pc pr = 3) -> closedb s 0 = true;
  bv_e : forall pr, nth_error (s_procs s) 1 = Some pr -> p_st pr = PDone \/ (p_st pr = PRun /\ 2 <= p_pc pr) -> nth_error (s_srcs s) 0 = Some [];
  bv_k : forall j c, j < m -> nth_error (s_procs s) (3 + j) = Some c -> p_st c = PRun -> 2 <= p_pc c <= 4 -> started s 1;
  bv_b : forall c, nth_error (s_procs s) 0 = Some c -> p_st c = PDone \/ (p_st c = PRun /\ 4 <= p_pc c) -> drained s 1;
  bv_ck : forall c, nth_error (s_procs s) 0 = Some c -> p_st c = PRun -> 2 <= p_pc c <= 4 -> started s 2;
  bv_rs : forall c, nth_error (s_procs s) 2 = Some c -> p_st c = PRun -> forall j, j < p_pc c -> j < m -> started s (3 + j);
  bv_r : forall c, nth_error (s_procs s) 2 = Some c -> p_st c = PDone \/ (p_st c = PRun /\ m + 1 <= p_pc c) -> b_wdone s;
  bv_rl : forall c, nth_error (s_procs s) 2 = Some c -> p_st c = PDone \/ (p_st c = PRun /\ p_pc c = m + 3) -> closedb s 1 = true
}.

Lemma b_canc_closed0 s x : bv s -> cancelledb N s x = true -> closedb s 0 = true.
Proof.
  intros V H. unfold cancelledb in H. apply existsb_exists in H as (a & Ha & _).
  assert (W0 : b_wdone s -> closedb s 0 = true).
  { intros W. destruct (W 0 Hm) as (w & Hw & Dw). exact (bv_cl _ V 0 w Hm Hw (or_introl Dw)). }
  destruct (bv_u _ V a Ha) as [(j & Hj & _ & (c & Hc & Hfin))|[(_ & W)|(_ & _ & W)]]; auto.
  apply (bv_cl _ V j c Hj Hc). destruct Hfin as [E|(E & Epc)]; [auto|right; split; auto; lia].
Qed.

Lemma b_ctx2_live s : bv s -> cancelledb N s 2 = true -> b_wdone s.
Proof.
  intros V H. unfold cancelledb in H. apply existsb_exists in H as (a & Ha & Hd).
  destruct (bv_u _ V a Ha) as [(j & Hj & -> & _)|[(_ & W)|(_ & _ & W)]]; auto.
  exfalso. unfold std_desc in Hd. cbn in Hd. destruct j; cbn in Hd; discriminate.
Qed.

Lemma b_ctx1_live s : bv s -> cancelledb N s 1 = true -> b_cpast s.
Proof.
  intros V H. unfold cancelledb in H. apply existsb_exists in H as (a & Ha & Hd).
  destruct (bv_u _ V a Ha) as [(j & Hj & -> & _)|[(-> & _)|(_ & P & _)]]; auto.
  - exfalso. unfold std_desc in Hd. cbn in Hd. destruct j; cbn in Hd; discriminate.
  - exfalso. cbn in Hd. discriminate.
Qed.

Lemma b_worker_sees_nothing s j pr d i :
  bv s -> j < m -> cur_instr N s (3 + j) = Some (pr, d, i) -> cancelledb N s 2 = true \/ closedb s 1 = true -> False.
Proof.
  intros V Hj Hc Hy. assert (W : b_wdone s) by (destruct Hy as [E|E]; [apply b_ctx2_live; auto|apply (bv_q _ V); auto]).
  destruct (W j Hj) as (w & Hw1 & Hw2). apply cur_instr_inv in Hc as (Hp & _ & Hr & _). rewrite Hp in Hw1. inv Hw1. congruence.
Qed.

Lemma b_pump_sees_nothing s pr d i :
  bv s -> cur_instr N s 1 = Some (pr, d, i) -> p_pc pr < 3 -> (exists x, cancelledb N s x = true) \/ closedb s 0 = true -> False.
Proof.
  intros V Hc Hpc Hy.
  assert (Cl : closedb s 0 = true) by (destruct Hy as [(x & E)|E]; [eapply b_canc_closed0; eauto|exact E]).
  destruct (bv_pp _ V Cl) as (p0 & Hp0 & Hfin). apply cur_instr_inv in Hc as (Hp & _ & Hr & _). rewrite Hp in Hp0. inv Hp0.
  destruct Hfin as [E|(_ & E)]; [congruence|lia].
Qed.

Lemma b_wdone_step s l s' : step N s l = Some s' -> b_wdone s -> b_wdone s'.
Proof. intros H W j Hj. eapply isdone_mono; eauto. Qed.

Lemma b_past_gen s l s' p d q :
  nth_error (n_procs N) p = Some d -> nth_error (d_prog d) q = Some IExit ->
  step N s l = Some s' -> (forall x xr, nth_error (s_procs s') x = Some xr -> p_st xr <> PAbandoned) ->
  (exists c, nth_error (s_procs s) p = Some c /\ (p_st c = PDone \/ (p_st c = PRun /\ p_pc c = q))) ->
  (exists c, nth_error (s_procs s') p = Some c /\ (p_st c = PDone \/ (p_st c = PRun /\ p_pc c = q))).
Proof.
  intros Hd Hk H NA (c & Hc & Hfin).
  destruct (at_exit_step N s l s' p c d H Hc Hd NA) as (c' & Hc' & Hfin').
  - destruct Hfin as [E|(E & Epc)]; [auto|right; split; auto]. rewrite Epc. exact Hk.
  - exists c'. split; auto. destruct Hfin' as [E|(E & Epc)]; auto. right. split; auto.
    destruct Hfin as [E0|(_ & E0)]; [|congruence]. exfalso.
    pose proof (done_untouched _ _ _ _ _ _ H Hc E0) as X. rewrite Hc' in X. inv X. congruence.
Qed.

Lemma b_proc_exists s p : ginv N s -> p < 3 + m -> exists pr, nth_error (s_procs s) p = Some pr.
Proof.
  intros I Hp. destruct (nth_error (s_procs s) p) as [pr|] eqn:E; [eauto|]. exfalso. apply nth_error_None in E.
  rewrite (gi_len _ _ I) in E. cbn [pbuf_net n_procs] in E. rewrite app_length, map_length, seq_length in E. cbn [length] in E. lia.
Qed.

Lemma hinv_pbuf input s : reach N (pbuf_init k input) s -> hinv N s.
Proof.
  intros R. eapply hinv_reach; eauto using hand_disc_pbuf_net. unfold pbuf_init. apply hinv_mk_init.
  intros pr [<-|[<-|[<-|Hin]]]; auto. unfold idles in Hin. apply repeat_spec in Hin. now subst.
Qed.

Lemma goonce_started s p arm s' pr d q g k0 :
  cur_instr N s p = Some (pr, d, IGoOnce q g k0) -> step N s (LStep p arm) = Some s' ->
  (exists qp, nth_error (s_procs s) q = Some qp) -> started s' q.
Proof.
  intros Hc H (qp & Hq). destruct (p_st qp) eqn:Est;
    try (eapply started_mono; eauto; exists qp; split; auto; congruence).
  pose proof Hc as Hc'. apply cur_instr_inv in Hc' as (Hp & _ & Hr & _).
  assert (p <> q) by (intros ->; rewrite Hp in Hq; inv Hq; congruence).
  cbn [step] in H. rewrite Hc in H. cbn [exec] in H. destruct arm; [discriminate|]. rewrite Hq, Est in H. inv H.
  exists (mkProc PRun 0 (p_hand qp) (resolve pr g)). split; [|discriminate].
  unfold setp, set_procs; cbn [s_procs]. rewrite start_procs. rewrite nth_error_upd_other by auto.
  eapply nth_error_upd_same; eauto.
Qed.

Lemma b_ctx1_wdone s : bv s -> cancelledb N s 1 = true -> b_wdone s.
Proof.
  intros V H. unfold cancelledb in H. apply existsb_exists in H as (a & Ha & Hd).
  destruct (bv_u _ V a Ha) as [(j & Hj & -> & _)|[(-> & _)|(_ & _ & W)]]; auto.
  - exfalso. unfold std_desc in Hd. cbn in Hd. destruct j; cbn in Hd; discriminate.
  - exfalso. cbn in Hd. discriminate.
Qed.

Lemma b_cons_ctx s c : bv s -> nth_error (s_procs s) 0 = Some c -> p_ctx c = 1.
Proof. intros V Hc. destruct (bv_cc _ V) as (c0 & H0 & _ & E). rewrite Hc in H0. inv H0. exact E. Qed.

Lemma bv_step input s l s' :
  reach N (pbuf_init k input) s -> internal l = true -> bv s -> step N s l = Some s' -> bv s'.
Proof.
  intros R Hint V H.
  assert (I : ginv N s) by (eapply ginv_reach; eauto using wf_pbuf_net, ginv_pbuf_init).
  pose proof (hinv_pbuf input s R) as HI.
  assert (NA : forall p pr, nth_error (s_procs s') p = Some pr -> p_st pr <> PAbandoned).
  { eapply no_abandon_step; eauto. apply (bv_na _ V). }
  assert (KC0 : closedb s 0 = true -> closedb s' 0 = true) by (eapply closed_mono; eauto).
  assert (KC1 : closedb s 1 = true -> closedb s' 1 = true) by (eapply closed_mono; eauto).
  pose proof (b_wdone_step _ _ _ H) as KW.
  assert (WP : forall j, j < m -> b_wpast s j -> b_wpast s' j).
  { intros j Hj. apply (b_past_gen s l s' (3 + j) _ 5 (Bw j Hj) eq_refl H NA). }
  assert (CP : b_cpast s -> b_cpast s').
  { apply (b_past_gen s l s' 0 _ 5 B0 eq_refl H NA). }
  assert (PAST : forall c, (exists j, j < m /\ c = 3 + j /\ b_wpast s j) \/ (c = 2 /\ b_wdone s) \/ (c = 1 /\ b_cpast s /\ b_wdone s) ->
                           (exists j, j < m /\ c = 3 + j /\ b_wpast s' j) \/ (c = 2 /\ b_wdone s') \/ (c = 1 /\ b_cpast s' /\ b_wdone s')).
  { intros c [(j & Hj & E & P)|[(E & W)|(E & P & W)]]; [left; exists j; repeat split; auto|right; left; auto|right; right; auto]. }
  destruct (lens_step _ _ _ _ H) as (L1 & L2).
  split.
  - exact NA.
  - destruct (bv_len _ V). split; congruence.
  - eapply unbuffered_step; eauto. apply (bv_b0 _ V).
  - destruct (bv_c1 _ V) as (c & Hc & E). destruct (cap_step _ _ _ _ _ _ H Hc) as (c' & Hc' & E'). exists c'. split; auto. congruence.
  - (* nothing is dropped *)
    destruct (drop_cause N s l s' HI H) as [E|(p & pr & d & ch & g & ko & ke & kr & Hc & Hcause)]; [rewrite E; apply (bv_d _ V)|].
    exfalso. pose proof Hc as Hc0. apply cur_instr_inv in Hc as (Hp & Hd & Hr & Hi).
    apply Bdesc in Hd as [(-> & ->)|[(-> & ->)|[(-> & ->)|(j & Hj & -> & ->)]]].
    + apply b_cons_cur in Hc0. intuition discriminate.
    + destruct (b_pump_cur _ _ _ _ Hc0) as [(_ & E)|[(Epc & E)|[(_ & E)|(_ & E)]]]; try discriminate. inv E.
      eapply (b_pump_sees_nothing s _ _ _ V Hc0); [lia|]. destruct Hcause as [E|E]; [left; eauto|right; exact E].
    + apply b_runner_cur in Hc0. intuition discriminate.
    + destruct (b_worker_cur s j _ _ _ Hj Hc0) as [(_ & E)|[(_ & E)|[(_ & E)|[(_ & E)|[(_ & E)|(_ & E)]]]]]; try discriminate. inv E.
      eapply (b_worker_sees_nothing s j _ _ _ V Hj Hc0). cbn [resolve] in Hcause.
      rewrite (bv_wc _ V j pr Hj Hp) in Hcause by congruence. exact Hcause.
  - destruct (bv_cc _ V) as (c & Hc & Hs & E). destruct (ctx_stable_step _ _ _ _ _ _ H Hc Hs) as (c' & H1 & H2 & H3).
    exists c'. split; auto. split; auto. congruence.
  - (* the workers run under context 2 *)
    intros j c' Hj Hc' Hs'. destruct (b_proc_exists s (3 + j) I) as (c & Hc); [lia|].
    destruct (p_st c) eqn:Est.
    + destruct (spawn_ctx _ _ _ _ _ _ _ H Hc Est Hc' Hs') as (p & arm & pr & d & g & q0 & -> & Hne & Hsp & Ectx).
      rewrite Ectx. assert (Hd : exists d0, nth_error (n_procs N) p = Some d0) by (destruct Hsp as [X|X]; apply cur_instr_inv in X as (_ & X & _); eauto).
      destruct Hd as (d0 & Hd). apply Bdesc in Hd as [(-> & ->)|[(-> & ->)|[(-> & ->)|(j' & Hj' & -> & ->)]]].
      * destruct Hsp as [X|X]; apply b_cons_cur in X;
          destruct X as [(_ & E)|[(_ & E)|[(_ & E)|[(_ & E)|[(_ & E)|(_ & E)]]]]]; try discriminate; inv E; lia.
      * destruct Hsp as [X|X]; apply b_pump_cur in X; intuition discriminate.
      * destruct Hsp as [X|X]; apply b_runner_cur in X;
          destruct X as [(_ & E)|[(_ & E)|[(_ & E)|[(_ & E)|(_ & E)]]]]; try discriminate; inv E; reflexivity.
      * destruct Hsp as [X|X]; apply (b_worker_cur s j') in X; auto;
          destruct X as [(_ & E)|[(_ & E)|[(_ & E)|[(_ & E)|[(_ & E)|(_ & E)]]]]]; try discriminate; inv E; lia.
    + assert (Hns : p_st c <> PNotStarted) by congruence.
      destruct (ctx_stable_step _ _ _ _ _ _ H Hc Hns) as (c2 & Hc2 & Ectx & _). rewrite Hc' in Hc2. inv Hc2. rewrite Ectx. eapply (bv_wc _ V); eauto.
    + assert (Hns : p_st c <> PNotStarted) by congruence.
      destruct (ctx_stable_step _ _ _ _ _ _ H Hc Hns) as (c2 & Hc2 & Ectx & _). rewrite Hc' in Hc2. inv Hc2. rewrite Ectx. eapply (bv_wc _ V); eauto.
    + assert (Hns : p_st c <> PNotStarted) by congruence.
      destruct (ctx_stable_step _ _ _ _ _ _ H Hc Hns) as (c2 & Hc2 & Ectx & _). rewrite Hc' in Hc2. inv Hc2. rewrite Ectx. eapply (bv_wc _ V); eauto.
  - (* who cancels *)
    intros x Hx.
    destruct (canc_by _ _ _ _ Hint H) as [Ec|(p & pr & d & c & q0 & -> & Hc)].
    + rewrite Ec in Hx. apply PAST. apply (bv_u _ V x Hx).
    + pose proof Hc as Hc0. pose proof H as H0. cbn [step] in H. rewrite Hc in H. cbn [exec] in H. inv H. unf. cbn [s_canc s_procs] in *.
      apply cur_instr_inv in Hc as (Hp & Hd & Hr & Hi).
      destruct Hx as [<-|Hx]; [|apply PAST; apply (bv_u _ V x Hx)].
      apply Bdesc in Hd as [(-> & ->)|[(-> & ->)|[(-> & ->)|(j & Hj & -> & ->)]]].
      * apply b_cons_cur in Hc0. destruct Hc0 as [(_ & E)|[(_ & E)|[(_ & E)|[(_ & E)|[(Epc & E)|(_ & E)]]]]]; try discriminate. inv E.
        right. right. split; auto. split; [|apply KW; eapply (bv_q2 _ V); eauto].
        eexists. split; [unf; cbn [s_procs]; eapply nth_error_upd_same; eauto|]. right. split; reflexivity.
      * apply b_pump_cur in Hc0. intuition discriminate.
      * apply b_runner_cur in Hc0. destruct Hc0 as [(_ & E)|[(_ & E)|[(Epc & E)|[(_ & E)|(_ & E)]]]]; try discriminate. inv E.
        right. left. split; auto. apply KW. eapply (bv_r _ V); eauto. right. split; auto. lia.
      * apply (b_worker_cur s j) in Hc0; auto.
        destruct Hc0 as [(_ & E)|[(_ & E)|[(_ & E)|[(_ & E)|[(Epc & E)|(_ & E)]]]]]; try discriminate. inv E.
        left. exists j. split; auto. split; auto. eexists. split; [unf; cbn [s_procs]; eapply nth_error_upd_same; eauto|]. right. split; reflexivity.
  - (* the buffer is closed only after every worker has returned *)
    intros Hcl'. destruct (closedb s 1) eqn:Ecl; [apply KW, (bv_q _ V); auto|].
    destruct (closed_by _ _ _ _ _ H Ecl Hcl') as (p & pr & d & q0 & -> & Hc).
    pose proof Hc as Hc0. apply cur_instr_inv in Hc as (Hp & Hd & Hr & Hi). apply KW.
    apply Bdesc in Hd as [(-> & ->)|[(-> & ->)|[(-> & ->)|(j & Hj & -> & ->)]]].
    + apply b_cons_cur in Hc0. intuition discriminate.
    + apply b_pump_cur in Hc0. intuition discriminate.
    + apply b_runner_cur in Hc0. destruct Hc0 as [(_ & E)|[(_ & E)|[(_ & E)|[(Epc & E)|(_ & E)]]]]; try discriminate.
      eapply (bv_r _ V); eauto. right. split; auto. lia.
    + apply (b_worker_cur s j) in Hc0; auto. intuition discriminate.
  - (* the consumer cancels its iterator only after every worker has returned *)
    intros c' Hc' Hr' Hpc'.
    destruct (pc_step _ _ _ _ _ _ H Hc' Hr') as [Same|[(E0 & _)|[(arm & pr & d & i & -> & Hc & Hin)|[(q & pr & d & ch & g & ko & ke & kr & -> & Hc & E)|(q & pr & d & ch & g & ki & ke & kr & -> & Hc & E)]]]].
    + apply KW. eapply (bv_q2 _ V); eauto.
    + lia.
    + rewrite Hpc' in Hin. pose proof Hc as Hc0. apply b_cons_cur in Hc0.
      destruct Hc0 as [(_ & ->)|[(_ & ->)|[(_ & ->)|[(_ & ->)|[(_ & ->)|(_ & ->)]]]]]; cbn [targets In] in Hin; try (intuition lia).
      apply KW. cbn [step] in H. rewrite Hc in H. apply cur_instr_inv in Hc as (Hp & _ & _ & _).
      destruct (recv_err_cause _ _ _ _ _ _ _ _ _ _ _ _ _ Hp H Hc') as [E|E]; [lia| |apply (bv_q _ V); exact E].
      apply b_ctx1_wdone; auto. cbn [resolve] in E. now rewrite (b_cons_ctx _ _ V Hp) in E.
    + apply b_cons_cur in Hc. intuition discriminate.
    + apply b_cons_cur in Hc. destruct Hc as [(_ & E1)|[(_ & E1)|[(_ & E1)|[(_ & E1)|[(_ & E1)|(_ & E1)]]]]]; inv E1. lia.
  - (* a worker leaves only after it saw the Split pipe closed *)
    intros j c' Hj Hc' Hfin.
    destruct Hfin as [Ed|(Er & Epc)].
    + destruct (done_from _ _ _ _ _ _ H Hc' Ed) as [Same|(pr & d & Hc)].
      * apply KC0. eapply (bv_cl _ V); eauto.
      * apply KC0. pose proof (b_worker_cur s j _ _ _ Hj Hc) as X. apply cur_instr_inv in Hc as (Hp & _ & Hr & _).
        destruct X as [(_ & E)|[(_ & E)|[(_ & E)|[(_ & E)|[(_ & E)|(E5 & _)]]]]]; try discriminate.
        eapply (bv_cl _ V); eauto. right. split; auto. lia.
    + destruct (pc_step _ _ _ _ _ _ H Hc' Er) as [Same|[(E0 & _)|[(arm & pr & d & i & -> & Hc & Hin)|[(q & pr & d & ch & g & ko & ke & kr & -> & Hc & E)|(q & pr & d & ch & g & ki & ke & kr & -> & Hc & E)]]]].
      * apply KC0. eapply (bv_cl _ V); eauto.
      * lia.
      * pose proof (b_worker_cur s j _ _ _ Hj Hc) as X. cbn [step] in H. rewrite Hc in H. apply cur_instr_inv in Hc as (Hp & _ & Hr & _).
        apply KC0.
        destruct X as [(E0 & ->)|[(E0 & ->)|[(E0 & ->)|[(E0 & ->)|[(E0 & ->)|(E0 & ->)]]]]]; cbn [targets In] in Hin; try lia.
        -- eapply b_canc_closed0; eauto. eapply check_err_cause; eauto. lia.
        -- destruct (recv_end_cause _ _ _ _ _ _ _ _ _ _ _ _ _ H Hc') as [E|(c0 & Hc0 & Hcl0 & _)]; [lia|eapply b_canc_closed0; eauto|].
           unfold closedb. now rewrite Hc0.
        -- destruct (send_err_cause _ _ _ _ _ _ _ _ _ _ _ _ _ H Hc') as [E|E]; [lia|eapply b_canc_closed0; eauto|].
           destruct (bv_q _ V E 0 Hm) as (w & Hw & Dw). exact (bv_cl _ V 0 w Hm Hw (or_introl Dw)).
        -- eapply (bv_cl _ V); eauto. right. split; auto. lia.
      * exfalso. destruct (b_worker_cur s j _ _ _ Hj Hc) as [(_ & E1)|[(_ & E1)|[(_ & E1)|[(_ & E1)|[(_ & E1)|(_ & E1)]]]]]; inv E1. lia.
      * exfalso. destruct (b_worker_cur s j _ _ _ Hj Hc) as [(_ & E1)|[(_ & E1)|[(_ & E1)|[(_ & E1)|[(_ & E1)|(_ & E1)]]]]]; inv E1. lia.
  - (* the Split pipe is closed by the splitter only, on its way out *)
    intros Hcl'. destruct (closedb s 0) eqn:Ecl; [apply (b_past_gen s l s' 1 _ 3 B1 eq_refl H NA); apply (bv_pp _ V); auto|].
    destruct (closed_by _ _ _ _ _ H Ecl Hcl') as (p & pr & d & q0 & -> & Hc).
    pose proof Hc as Hc0. apply cur_instr_inv in Hc as (Hp & Hd & Hr & Hi).
    apply Bdesc in Hd as [(-> & ->)|[(-> & ->)|[(-> & ->)|(j & Hj & -> & ->)]]].
    + apply b_cons_cur in Hc0. intuition discriminate.
    + destruct (b_pump_cur _ _ _ _ Hc0) as [(_ & E)|[(_ & E)|[(_ & E)|(_ & E)]]]; try discriminate. inv E.
      cbn [step] in H. rewrite Hc0 in H. cbn [exec] in H. exec_cases H; inv H;
        (eexists; split; [unf; cbn [s_procs]; eapply nth_error_upd_same; eauto|right; split; reflexivity]).
    + apply b_runner_cur in Hc0. intuition discriminate.
    + apply (b_worker_cur s j) in Hc0; auto. intuition discriminate.
  - (* the splitter past its close: the Split pipe is closed *)
    intros pr' Hp' Hfin.
    destruct Hfin as [Ed|(Er & Epc)].
    + destruct (done_from _ _ _ _ _ _ H Hp' Ed) as [Same|(pr & d & Hc)].
      * apply KC0. eapply (bv_pd _ V); eauto.
      * apply KC0. pose proof (b_pump_cur _ _ _ _ Hc) as X. apply cur_instr_inv in Hc as (Hp & _ & Hr & _).
        destruct X as [(_ & E)|[(_ & E)|[(_ & E)|(E3 & _)]]]; try discriminate. eapply (bv_pd _ V); eauto.
    + destruct (pc_step _ _ _ _ _ _ H Hp' Er) as [Same|[(E0 & _)|[(arm & pr & d & i & -> & Hc & Hin)|[(q & pr & d & ch & g & ko & ke & kr & -> & Hc & E)|(q & pr & d & ch & g & ki & ke & kr & -> & Hc & E)]]]].
      * apply KC0. eapply (bv_pd _ V); eauto.
      * lia.
      * pose proof (b_pump_cur _ _ _ _ Hc) as X. cbn [step] in H. rewrite Hc in H.
        destruct X as [(E0 & ->)|[(E0 & ->)|[(E0 & ->)|(E0 & ->)]]]; cbn [targets In] in Hin; try lia.
        eapply close_effect; eauto. destruct (bv_b0 _ V) as (c0 & Hc0 & _). congruence.
      * exfalso. destruct (b_pump_cur _ _ _ _ Hc) as [(_ & E1)|[(_ & E1)|[(_ & E1)|(_ & E1)]]]; inv E1. lia.
      * exfalso. apply b_pump_cur in Hc. intuition discriminate.
  - (* the splitter passes to its close only after the input is exhausted *)
    intros pr' Hp' Hfin.
    assert (KEEP : nth_error (s_srcs s) 0 = Some [] -> nth_error (s_srcs s') 0 = Some []) by (eapply src_empty_step; eauto).
    destruct Hfin as [Ed|(Er & Epc)].
    + destruct (done_from _ _ _ _ _ _ H Hp' Ed) as [Same|(pr & d & Hc)].
      * apply KEEP. eapply (bv_e _ V); eauto.
      * apply KEEP. pose proof (b_pump_cur _ _ _ _ Hc) as X. apply cur_instr_inv in Hc as (Hp & _ & Hr & _).
        destruct X as [(_ & E)|[(_ & E)|[(_ & E)|(E3 & _)]]]; try discriminate. eapply (bv_e _ V); eauto. right. split; auto. lia.
    + destruct (pc_step _ _ _ _ _ _ H Hp' Er) as [Same|[(E0 & _)|[(arm & pr & d & i & -> & Hc & Hin)|[(q & pr & d & ch & g & ko & ke & kr & -> & Hc & E)|(q & pr & d & ch & g & ki & ke & kr & -> & Hc & E)]]]].
      * apply KEEP. eapply (bv_e _ V); eauto.
      * lia.
      * pose proof (b_pump_cur _ _ _ _ Hc) as X. pose proof Hc as Hc0. cbn [step] in H. rewrite Hc in H.
        apply cur_instr_inv in Hc as (Hp & _ & Hr & _).
        destruct X as [(E0 & ->)|[(E0 & ->)|[(E0 & ->)|(E0 & ->)]]]; cbn [targets In] in Hin; try lia.
        -- destruct (src_end_cause _ _ _ _ _ _ _ _ _ _ _ _ _ H Hp') as [E|[E|E]]; [lia| |apply KEEP; exact E|].
           ++ exfalso. eapply (b_pump_sees_nothing s _ _ _ V Hc0); [lia|left; eauto].
           ++ exfalso. destruct (bv_len _ V) as (_ & L). apply nth_error_None in E. lia.
        -- exfalso. destruct (send_err_cause _ _ _ _ _ _ _ _ _ _ _ _ _ H Hp') as [E|E]; [lia| |].
           ++ eapply (b_pump_sees_nothing s _ _ _ V Hc0); [lia|left; eauto].
           ++ eapply (b_pump_sees_nothing s _ _ _ V Hc0); [lia|right; exact E].
        -- apply KEEP. eapply (bv_e _ V); eauto. right. split; auto. lia.
      * exfalso. destruct (b_pump_cur _ _ _ _ Hc) as [(_ & E1)|[(_ & E1)|[(_ & E1)|(_ & E1)]]]; inv E1. lia.
      * exfalso. apply b_pump_cur in Hc. intuition discriminate.
  - (* a worker past its first read has started the splitter *)
    intros j c' Hj Hc' Er Hpc.
    destruct (pc_step _ _ _ _ _ _ H Hc' Er) as [Same|[(E0 & _)|[(arm & pr & d & i & -> & Hc & Hin)|[(q & pr & d & ch & g & ko & ke & kr & -> & Hc & E)|(q & pr & d & ch & g & ki & ke & kr & -> & Hc & E)]]]].
    + eapply started_mono; eauto. eapply (bv_k _ V); eauto.
    + lia.
    + pose proof (b_worker_cur s j _ _ _ Hj Hc) as X. pose proof Hc as Hc0. apply cur_instr_inv in Hc as (Hp & _ & Hr & _).
      destruct X as [(E0 & ->)|[(E0 & ->)|[(E0 & ->)|[(E0 & ->)|[(E0 & ->)|(E0 & ->)]]]]]; cbn [targets In] in Hin;
        try lia; try (eapply started_mono; eauto; eapply (bv_k _ V); eauto; lia).
      eapply spawn_started; eauto. apply b_proc_exists; auto. lia.
    + exfalso. destruct (b_worker_cur s j _ _ _ Hj Hc) as [(_ & E1)|[(_ & E1)|[(_ & E1)|[(_ & E1)|[(_ & E1)|(_ & E1)]]]]]; inv E1. lia.
    + pose proof (b_worker_cur s j _ _ _ Hj Hc) as X. apply cur_instr_inv in Hc as (Hp & _ & Hr & _).
      destruct X as [(_ & E1)|[(_ & E1)|[(E0 & E1)|[(_ & E1)|[(_ & E1)|(_ & E1)]]]]]; try discriminate.
      eapply started_mono; eauto. eapply (bv_k _ V); eauto. lia.
  - (* the consumer leaves only after it saw the buffer closed and drained *)
    intros c' Hc' Hfin.
    assert (KEEP : drained s 1 -> drained s' 1) by (eapply drained_step; eauto).
    assert (LIVE : forall c, nth_error (s_procs s) 0 = Some c -> p_st c = PRun -> p_pc c <> 5 -> cancelledb N s (resolve c GOwn) = true -> False).
    { intros c Hc Hr Hpc Hcan. cbn [resolve] in Hcan. rewrite (b_cons_ctx _ _ V Hc) in Hcan.
      destruct (b_ctx1_live _ V Hcan) as (c0 & H0 & [E|(_ & E)]); rewrite Hc in H0; inv H0; congruence. }
    destruct Hfin as [Ed|(Er & Epc)].
    + destruct (done_from _ _ _ _ _ _ H Hc' Ed) as [Same|(pr & d & Hc)].
      * apply KEEP. eapply (bv_b _ V); eauto.
      * apply KEEP. pose proof (b_cons_cur _ _ _ _ Hc) as X. apply cur_instr_inv in Hc as (Hp & _ & Hr & _).
        destruct X as [(_ & E)|[(_ & E)|[(_ & E)|[(_ & E)|[(_ & E)|(E6 & _)]]]]]; try discriminate.
        eapply (bv_b _ V); eauto. right. split; auto. lia.
    + destruct (pc_step _ _ _ _ _ _ H Hc' Er) as [Same|[(E0 & _)|[(arm & pr & d & i & -> & Hc & Hin)|[(q & pr & d & ch & g & ko & ke & kr & -> & Hc & E)|(q & pr & d & ch & g & ki & ke & kr & -> & Hc & E)]]]].
      * apply KEEP. eapply (bv_b _ V); eauto.
      * lia.
      * pose proof (b_cons_cur _ _ _ _ Hc) as X. cbn [step] in H. rewrite Hc in H. apply cur_instr_inv in Hc as (Hp & _ & Hr & _).
        destruct X as [(E0 & ->)|[(E0 & ->)|[(E0 & ->)|[(E0 & ->)|[(E0 & ->)|(E0 & ->)]]]]]; cbn [targets In] in Hin.
        -- exfalso. eapply (LIVE pr); eauto; [lia|]. eapply check_err_cause; eauto. lia.
        -- lia.
        -- destruct (recv_end_cause _ _ _ _ _ _ _ _ _ _ _ _ _ H Hc') as [E|E]; [lia| |apply KEEP; exact E].
           exfalso. eapply (LIVE pr); eauto. lia.
        -- lia.
        -- apply KEEP. eapply (bv_b _ V); eauto. right. split; auto. lia.
        -- destruct Hin.
      * exfalso. apply b_cons_cur in Hc. intuition discriminate.
      * exfalso. pose proof (b_cons_cur _ _ _ _ Hc) as X.
        destruct X as [(_ & E1)|[(_ & E1)|[(_ & E1)|[(_ & E1)|[(_ & E1)|(_ & E1)]]]]]; inv E1. lia.
  - (* the consumer past its once.Do has started the runner *)
    intros c' Hc' Er Hpc.
    destruct (pc_step _ _ _ _ _ _ H Hc' Er) as [Same|[(E0 & _)|[(arm & pr & d & i & -> & Hc & Hin)|[(q & pr & d & ch & g & ko & ke & kr & -> & Hc & E)|(q & pr & d & ch & g & ki & ke & kr & -> & Hc & E)]]]].
    + eapply started_mono; eauto. eapply (bv_ck _ V); eauto.
    + lia.
    + pose proof (b_cons_cur _ _ _ _ Hc) as X. pose proof Hc as Hc0. apply cur_instr_inv in Hc as (Hp & _ & Hr & _).
      destruct X as [(E0 & ->)|[(E0 & ->)|[(E0 & ->)|[(E0 & ->)|[(E0 & ->)|(E0 & ->)]]]]]; cbn [targets In] in Hin;
        try lia; try (eapply started_mono; eauto; eapply (bv_ck _ V); eauto; lia).
      eapply goonce_started; eauto. apply b_proc_exists; auto. lia.
    + exfalso. apply b_cons_cur in Hc. intuition discriminate.
    + pose proof (b_cons_cur _ _ _ _ Hc) as X. apply cur_instr_inv in Hc as (Hp & _ & Hr & _).
      destruct X as [(_ & E1)|[(_ & E1)|[(E0 & E1)|[(_ & E1)|[(_ & E1)|(_ & E1)]]]]]; try discriminate.
      eapply started_mono; eauto. eapply (bv_ck _ V); eauto. lia.
  - (* the runner has launched the workers it is past *)
    intros c' Hc' Er j Hjp Hj.
    destruct (pc_step _ _ _ _ _ _ H Hc' Er) as [Same|[(E0 & _)|[(arm & pr & d & i & -> & Hc & Hin)|[(q & pr & d & ch & g & ko & ke & kr & -> & Hc & E)|(q & pr & d & ch & g & ki & ke & kr & -> & Hc & E)]]]].
    + eapply started_mono; eauto. eapply (bv_rs _ V); eauto.
    + lia.
    + pose proof (b_runner_cur _ _ _ _ Hc) as X. pose proof Hc as Hc0. apply cur_instr_inv in Hc as (Hp & _ & Hr & _).
      destruct X as [(E0 & ->)|[(E0 & ->)|[(E0 & ->)|[(E0 & ->)|(E0 & ->)]]]]; cbn [targets In] in Hin.
      * destruct Hin as [Hin|[]]. destruct (Nat.eq_dec j (p_pc pr)) as [->|Hne].
        -- eapply spawn_started; eauto. apply b_proc_exists; auto. lia.
        -- eapply started_mono; eauto. eapply (bv_rs _ V); eauto. lia.
      * eapply started_mono; eauto. eapply (bv_rs _ V); eauto. lia.
      * eapply started_mono; eauto. eapply (bv_rs _ V); eauto. lia.
      * eapply started_mono; eauto. eapply (bv_rs _ V); eauto. lia.
      * destruct Hin.
    + exfalso. apply b_runner_cur in Hc. intuition discriminate.
    + exfalso. apply b_runner_cur in Hc. intuition discriminate.
  - (* the runner is past wg.Wait only when every worker has returned *)
    intros c' Hc' Hfin.
    destruct Hfin as [Ed|(Er & Epc)].
    + destruct (done_from _ _ _ _ _ _ H Hc' Ed) as [Same|(pr & d & Hc)].
      * apply KW. eapply (bv_r _ V); eauto.
      * apply KW. pose proof (b_runner_cur _ _ _ _ Hc) as X. apply cur_instr_inv in Hc as (Hp & _ & Hr & _).
        destruct X as [(_ & E)|[(_ & E)|[(_ & E)|[(_ & E)|(E3 & _)]]]]; try discriminate. eapply (bv_r _ V); eauto. right. split; auto. lia.
    + destruct (pc_step _ _ _ _ _ _ H Hc' Er) as [Same|[(E0 & _)|[(arm & pr & d & i & -> & Hc & Hin)|[(q & pr & d & ch & g & ko & ke & kr & -> & Hc & E)|(q & pr & d & ch & g & ki & ke & kr & -> & Hc & E)]]]].
      * apply KW. eapply (bv_r _ V); eauto.
      * lia.
      * pose proof (b_runner_cur _ _ _ _ Hc) as X. pose proof Hc as Hc0. cbn [step] in H. rewrite Hc in H.
        apply cur_instr_inv in Hc as (Hp & _ & Hr & _). apply KW.
        destruct X as [(E0 & ->)|[(E0 & ->)|[(E0 & ->)|[(E0 & ->)|(E0 & ->)]]]]; cbn [targets In] in Hin; try lia.
        -- cbn [exec] in H. destruct arm; [discriminate|]. destruct (s_wg s =? 0) eqn:Ew; [|discriminate]. apply Nat.eqb_eq in Ew.
           intros j Hj. destruct (bv_rs _ V pr Hp Hr j) as (w & Hw & Hws); [lia|auto|].
           exists w. split; auto. rewrite (gi_wg _ _ I) in Ew.
           pose proof (wgc_zero_inv _ _ _ _ _ Ew Hw (Bw j Hj) eq_refl) as Rb. unfold runb in Rb.
           destruct (p_st w) eqn:Est; auto; [contradiction|discriminate|exfalso; eapply (bv_na _ V); eauto].
        -- eapply (bv_r _ V); eauto. right. split; auto. lia.
        -- eapply (bv_r _ V); eauto. right. split; auto. lia.
      * exfalso. apply b_runner_cur in Hc. intuition discriminate.
      * exfalso. apply b_runner_cur in Hc. intuition discriminate.
  - (* the runner past its close: the buffer is closed *)
    intros c' Hc' Hfin.
    destruct Hfin as [Ed|(Er & Epc)].
    + destruct (done_from _ _ _ _ _ _ H Hc' Ed) as [Same|(pr & d & Hc)].
      * apply KC1. eapply (bv_rl _ V); eauto.
      * apply KC1. pose proof (b_runner_cur _ _ _ _ Hc) as X. apply cur_instr_inv in Hc as (Hp & _ & Hr & _).
        destruct X as [(_ & E)|[(_ & E)|[(_ & E)|[(_ & E)|(E3 & _)]]]]; try discriminate. eapply (bv_rl _ V); eauto.
    + destruct (pc_step _ _ _ _ _ _ H Hc' Er) as [Same|[(E0 & _)|[(arm & pr & d & i & -> & Hc & Hin)|[(q & pr & d & ch & g & ko & ke & kr & -> & Hc & E)|(q & pr & d & ch & g & ki & ke & kr & -> & Hc & E)]]]].
      * apply KC1. eapply (bv_rl _ V); eauto.
      * lia.
      * pose proof (b_runner_cur _ _ _ _ Hc) as X. cbn [step] in H. rewrite Hc in H.
        destruct X as [(E0 & ->)|[(E0 & ->)|[(E0 & ->)|[(E0 & ->)|(E0 & ->)]]]]; cbn [targets In] in Hin; try lia.
        eapply close_effect; eauto. destruct (bv_c1 _ V) as (c1 & Hc1 & _). congruence.
      * exfalso. apply b_runner_cur in Hc. intuition discriminate.
      * exfalso. apply b_runner_cur in Hc. intuition discriminate.
Qed.

Lemma pbuf_init_worker input j c : nth_error (s_procs (pbuf_init k input)) (3 + j) = Some c -> c = idle.
Proof.
  intros Hc. unfold pbuf_init, mk_init in Hc; cbn [s_procs] in Hc. rewrite nth3 in Hc.
  apply nth_error_In in Hc. unfold idles in Hc. apply repeat_spec in Hc. exact Hc.
Qed.

Lemma bv_init input : bv (pbuf_init k input).
Proof.
  split.
  - intros p pr Hp. unfold pbuf_init, mk_init in Hp; cbn [s_procs] in Hp. apply nth_error_In in Hp.
    destruct Hp as [<-|[<-|[<-|Hin]]]; try discriminate. unfold idles in Hin. apply repeat_spec in Hin. subst. discriminate.
  - split; reflexivity.
  - eexists. split; [reflexivity|split; reflexivity].
  - eexists. split; reflexivity.
  - reflexivity.
  - exists (running 1). split; [reflexivity|split; [discriminate|reflexivity]].
  - intros j c Hj Hc Hs. apply pbuf_init_worker in Hc. subst. contradiction Hs. reflexivity.
  - intros c [].
  - intros Hc. unfold pbuf_init in Hc. rewrite closedb_mk_init in Hc. discriminate.
  - intros c Hc _ Hpc. cbn in Hc. inv Hc. cbn in Hpc. lia.
  - intros j c Hj Hc Hfin. apply pbuf_init_worker in Hc. subst. destruct Hfin as [E|(E & _)]; discriminate.
  - intros Hc. unfold pbuf_init in Hc. rewrite closedb_mk_init in Hc. discriminate.
  - intros pr Hp Hfin. cbn in Hp. inv Hp. destruct Hfin as [E|(E & _)]; discriminate.
  - intros pr Hp Hfin. cbn in Hp. inv Hp. destruct Hfin as [E|(E & _)]; discriminate.
  - intros j c Hj Hc Er _. apply pbuf_init_worker in Hc. subst. discriminate.
  - intros c Hc Hfin. cbn in Hc. inv Hc. cbn in Hfin. destruct Hfin as [E|(_ & E)]; [discriminate|lia].
  - intros c Hc _ Hpc. cbn in Hc. inv Hc. cbn in Hpc. lia.
  - intros c Hc Er. cbn in Hc. inv Hc. discriminate.
  - intros c Hc Hfin. cbn in Hc. inv Hc. destruct Hfin as [E|(E & _)]; discriminate.
  - intros c Hc Hfin. cbn in Hc. inv Hc. destruct Hfin as [E|(E & _)]; discriminate.
Qed.

Lemma bv_ireach input s : ireach N (pbuf_init k input) s -> bv s.
Proof.
  induction 1 as [|s l s' R IH Hi H]; [apply bv_init|]. eapply bv_step; eauto. apply ireach_reach. exact R.
Qed.

(* C01_complete for Iterator.ParallelBuffer(k), any k: a terminated run that nothing aborted delivered a permutation
   of the input *)
Theorem pbuf_complete input s :
  reach N (pbuf_init k input) s -> s_stopped s = false -> all_done s -> Permutation (s_deliv s) input.
Proof.
  intros R Hs (AD & _). pose proof (bv_ireach input s (reach_unstopped _ _ _ R Hs)) as V.
  pose proof (hinv_pbuf input s R) as HI.
  destruct (bv_cc _ V) as (c & Hc & Hns & _).
  assert (Dc : p_st c = PDone).
  { destruct (p_st c) eqn:E; auto; [contradiction|exfalso; eapply AD; eauto|exfalso; eapply (bv_na _ V); eauto]. }
  destruct (bv_b _ V c Hc (or_introl Dc)) as (c1 & Hc1 & Hcl1 & Eb1).
  assert (W : b_wdone s). { apply (bv_q _ V). unfold closedb. now rewrite Hc1. }
  destruct (W 0 Hm) as (w & Hw & Dw).
  pose proof (bv_cl _ V 0 w Hm Hw (or_introl Dw)) as Cl.
  destruct (bv_pp _ V Cl) as (pr & Hp & Hfin).
  assert (Dp : p_st pr = PDone) by (destruct Hfin as [E|(E & _)]; [auto|exfalso; eapply AD; eauto]).
  pose proof (bv_e _ V pr Hp (or_introl Dp)) as Es.
  destruct (bv_len _ V) as (Lc & Ls).
  destruct (bv_b0 _ V) as (b0 & Hb0 & _ & Eb0).
  assert (Esrc : concat (s_srcs s) = []).
  { destruct (s_srcs s) as [|l0 [|]]; cbn in Ls; try lia. cbn in Es. inv Es. reflexivity. }
  assert (Ebuf : bufs (s_chans s) = []).
  { unfold bufs. destruct (s_chans s) as [|x0 [|x1 [|]]]; cbn in Lc; try lia. cbn in Hb0, Hc1. inv Hb0. inv Hc1. cbn. now rewrite Eb0, Eb1. }
  assert (Eh : hands (s_procs s) = []).
  { apply hands_none. intros q Hin. apply In_nth_error in Hin as (p & Hq).
    destruct (HI p q Hq) as [E|([E|E] & _)]; auto; exfalso; [eapply AD; eauto|eapply (bv_na _ V); eauto]. }
  pose proof (reach_conserves _ _ _ R) as P. unfold tokens in P at 1.
  rewrite Esrc, Ebuf, Eh, (bv_d _ V) in P. cbn [app] in P. rewrite app_nil_r in P.
  etransitivity; [exact P|]. unfold pbuf_init. rewrite tokens_mk_init; [cbn; now rewrite app_nil_r|apply hands_running_idles].
Qed.

(* deadlock freedom *)
Theorem pbuf_deadlock_free input s :
  reach N (pbuf_init k input) s -> s_stopped s = false -> quiescent N s -> all_done s.
Proof.
  intros R Hs Q. pose proof (bv_ireach input s (reach_unstopped _ _ _ R Hs)) as V.
  assert (I : ginv N s) by (eapply ginv_reach; eauto using wf_pbuf_net, ginv_pbuf_init).
  assert (STUCK : forall p pr d i, cur_instr N s p = Some (pr, d, i) -> (exists arm s', step N s (LStep p arm) = Some s') -> False).
  { intros p pr d i _ (arm & s' & E). rewrite (Q (LStep p arm) eq_refl) in E. discriminate. }
  assert (CUR : forall p pr, nth_error (s_procs s) p = Some pr -> p_st pr = PRun -> exists d i, cur_instr N s p = Some (pr, d, i)).
  { intros p pr Hp Hr. destruct (nth_error (n_procs N) p) as [d|] eqn:Hd.
    - pose proof (gi_pc _ _ I p pr d Hp Hd Hr) as Hpc.
      destruct (nth_error (d_prog d) (p_pc pr)) as [i|] eqn:Ei; [|apply nth_error_None in Ei; lia].
      exists d, i. apply cur_instr_mk; auto.
    - exfalso. apply nth_error_None in Hd. rewrite <- (gi_len _ _ I) in Hd.
      assert (p < length (s_procs s)) by (apply nth_error_Some; congruence). lia. }
  destruct (bv_b0 _ V) as (c0 & Hc0 & Hcap0 & Hb0). destruct (bv_c1 _ V) as (c1 & Hc1 & Hcap1).
  assert (WGZ : (forall j pr, j < m -> nth_error (s_procs s) (3 + j) = Some pr -> p_st pr <> PRun) -> s_wg s = 0).
  { intros NW. rewrite (gi_wg _ _ I). apply wgc_zero. intros p pr d Hp Hd Hw.
    apply Bdesc in Hd as [(-> & ->)|[(-> & ->)|[(-> & ->)|(j & Hj & -> & ->)]]]; try discriminate.
    unfold runb. destruct (p_st pr) eqn:E; auto. exfalso. eapply NW; eauto. }
  assert (RUNNER : s_wg s = 0 -> forall cl, nth_error (s_procs s) 2 = Some cl -> p_st cl = PRun -> False).
  { intros Hwg cl Hcl Hr. destruct (CUR _ _ Hcl Hr) as (d & i & Hc).
    destruct (b_runner_cur _ _ _ _ Hc) as [(_ & ->)|[(_ & ->)|[(_ & ->)|[(_ & ->)|(_ & ->)]]]];
      try (eapply STUCK; eauto; apply (enabled_noguard N s _ _ _ _ Hc); reflexivity).
    eapply STUCK; eauto. exists false. eapply wgwait_enabled; eauto. }
  destruct (bv_cc _ V) as (c & Hc & Hns & _).
  (* 1: the consumer has returned *)
  assert (Dc : p_st c = PDone).
  { destruct (p_st c) eqn:Ec; auto; [contradiction| |exfalso; eapply (bv_na _ V); eauto]. exfalso.
    destruct (CUR _ _ Hc Ec) as (d & i & Hcur).
    destruct (b_cons_cur _ _ _ _ Hcur) as [(_ & ->)|[(_ & ->)|[(Epc & ->)|[(_ & ->)|[(_ & ->)|(_ & ->)]]]]];
      try (eapply STUCK; eauto; apply (enabled_noguard N s _ _ _ _ Hcur); reflexivity).
    destruct (c_buf c1) as [|x r] eqn:Eb1;
      [|eapply STUCK; eauto; exists false; eexists; cbn [step]; rewrite Hcur; cbn [exec]; rewrite Hc1, Eb1; reflexivity].
    destruct (c_closed c1) eqn:Ecl1;
      [eapply STUCK; eauto; exists false; eexists; cbn [step]; rewrite Hcur; cbn [exec]; rewrite Hc1, Eb1, Ecl1; reflexivity|].
    assert (NW : forall j pr, j < m -> nth_error (s_procs s) (3 + j) = Some pr -> p_st pr <> PRun).
    { intros j pr Hj Hp Hr. destruct (CUR _ _ Hp Hr) as (dw & iw & Hw).
      destruct (b_worker_cur s j _ _ _ Hj Hw) as [(_ & ->)|[(_ & ->)|[(Epw & ->)|[(_ & ->)|[(_ & ->)|(_ & ->)]]]]];
        try (eapply STUCK; eauto; apply (enabled_noguard N s _ _ _ _ Hw); reflexivity).
      - destruct (c_closed c0) eqn:Ecl0;
          [eapply STUCK; eauto; exists false; eexists; cbn [step]; rewrite Hw; cbn [exec]; rewrite Hc0, Hb0, Ecl0; reflexivity|].
        destruct (bv_k _ V j pr Hj Hp Hr) as (pp & Hpp & Hps); [lia|].
        destruct (p_st pp) eqn:Ep; [contradiction| | |eapply (bv_na _ V); eauto].
        + destruct (CUR _ _ Hpp Ep) as (dp & ip & Hpc).
          destruct (b_pump_cur _ _ _ _ Hpc) as [(_ & ->)|[(_ & ->)|[(_ & ->)|(_ & ->)]]];
            try (eapply STUCK; eauto; apply (enabled_noguard N s _ _ _ _ Hpc); reflexivity).
          destruct (p_hand pp) as [v|] eqn:Eh.
          * pose proof (Q (LRdv 1 (3 + j)) eq_refl) as X. cbn [step] in X. replace (1 =? 3 + j) with false in X by reflexivity.
            rewrite Hpc, Hw, Eh, Hc0, Hcap0, Ecl0 in X. cbn in X. discriminate.
          * eapply STUCK; eauto. exists false. cbn [step]. rewrite Hpc. cbn [exec]. rewrite Eh. eauto.
        + pose proof (bv_pd _ V pp Hpp (or_introl Ep)) as X. unfold closedb in X. rewrite Hc0 in X. congruence.
      - (* at its send: there is room in the buffer, or (k = 0) it meets the consumer at its receive *)
        destruct (p_hand pr) as [v|] eqn:Eh; [|eapply STUCK; eauto; exists false; cbn [step]; rewrite Hw; cbn [exec]; rewrite Eh; eauto].
        destruct (Nat.eq_dec k 0) as [Ek|Ek].
        + pose proof (Q (LRdv (3 + j) 0) eq_refl) as X. cbn [step] in X. replace (3 + j =? 0) with false in X by reflexivity.
          rewrite Hw, Hcur, Eh, Hc1, Hcap1, Ecl1, Ek in X. cbn in X. discriminate.
        + eapply STUCK; eauto. exists false. cbn [step]. rewrite Hw. cbn [exec]. rewrite Eh, Hc1, Ecl1, Eb1, Hcap1. cbn [length].
          destruct (0 <? k) eqn:E; [eauto|apply Nat.ltb_ge in E; lia]. }
    pose proof (WGZ NW) as Hwg.
    destruct (bv_ck _ V c Hc Ec) as (cl & Hcl & Hcs); [lia|].
    destruct (p_st cl) eqn:Ecl2; [contradiction|eapply RUNNER; eauto| |eapply (bv_na _ V); eauto].
    pose proof (bv_rl _ V cl Hcl (or_introl Ecl2)) as Hclosed. unfold closedb in Hclosed. rewrite Hc1 in Hclosed. congruence. }
  (* 2: the buffer is closed and drained, every worker has returned, the Split pipe is closed, the splitter is past its close *)
  destruct (bv_b _ V c Hc (or_introl Dc)) as (d1 & Hd1 & Hdcl & _).
  assert (W : b_wdone s). { apply (bv_q _ V). unfold closedb. now rewrite Hd1. }
  assert (NW : forall j pr, j < m -> nth_error (s_procs s) (3 + j) = Some pr -> p_st pr <> PRun).
  { intros j pr Hj Hp Hr. destruct (W j Hj) as (w & Hw1 & Hw2). rewrite Hp in Hw1. inv Hw1. congruence. }
  pose proof (WGZ NW) as Hwg.
  destruct (W 0 Hm) as (w & Hw & Dw).
  pose proof (bv_cl _ V 0 w Hm Hw (or_introl Dw)) as Cl.
  destruct (bv_pp _ V Cl) as (pr & Hp & Hfin).
  assert (S3 : forall p q, nth_error (s_procs s) p = Some q -> p_st q <> PRun).
  { intros p q Hq Er. destruct (CUR _ _ Hq Er) as (d & i & Hcur). pose proof Hcur as Hcur0.
    apply cur_instr_inv in Hcur as (_ & Hd & _ & Hi).
    apply Bdesc in Hd as [(-> & ->)|[(-> & ->)|[(-> & ->)|(j & Hj & -> & ->)]]].
    - rewrite Hc in Hq. inv Hq. congruence.
    - rewrite Hp in Hq. inv Hq. destruct Hfin as [E|(_ & Epc)]; [congruence|].
      destruct (b_pump_cur _ _ _ _ Hcur0) as [(E0 & _)|[(E0 & _)|[(E0 & _)|(_ & ->)]]]; try lia.
      eapply STUCK; eauto. apply (enabled_noguard N s _ _ _ _ Hcur0); reflexivity.
    - eapply RUNNER; eauto.
    - eapply NW; eauto. }
  split; [exact S3|].
  (* nobody is left parked in once.Do: the runner has returned, so a parked goroutine could leave *)
  destruct (s_oncew s) as [|q] eqn:Eo; auto. exfalso.
  destruct (gi_once _ _ I) as (po & Hpo & Hnsp); [lia|].
  assert (Hd : is_done s (n_once N) = true).
  { unfold is_done. rewrite Hpo. destruct (p_st po) eqn:Est; auto; [exfalso; eapply S3; eauto|exfalso; eapply (bv_na _ V); eauto]. }
  pose proof (Q LOnceRel eq_refl) as Hs0. cbn [step] in Hs0. rewrite Eo, Hd in Hs0. discriminate.
Qed.

(* C04_finite_input_eof for Iterator.ParallelBuffer *)
Theorem pbuf_finite_input_eof input s :
  reach N (pbuf_init k input) s -> s_stopped s = false -> quiescent N s -> all_done s /\ Permutation (s_deliv s) input.
Proof. intros R Hs Q. pose proof (pbuf_deadlock_free input s R Hs Q) as A. split; auto. eapply pbuf_complete; eauto. Qed.

Corollary pbuf_progress input s :
  reach N (pbuf_init k input) s -> s_stopped s = false -> ~ all_done s -> ~ quiescent N s.
Proof. intros R Hs NA Q. apply NA. eapply pbuf_deadlock_free; eauto. Qed.

End PBuf.
