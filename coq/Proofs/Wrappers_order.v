(* C15 — Join / merge order and PreHook / PostHook order, for all scripts. *)
From FunV Require Import Base.Tac Model.Wrappers Proofs.Wrappers_retry.
Local Open Scope Z_scope.

(* ------------------------------------------------------------------ Join over a list of scripted parts *)
(* a part: its id, its script, the unread rest of its script *)
Definition part := (Z * list outcome * list outcome)%type.
Definition pid (p : part) : Z := fst (fst p).
Definition part_fn (k : kind) (p : part) : fn := FBase k (pid p) (snd (fst p)).
Definition part_st (p : part) : st := SBase (snd p).
Definition part_outcome (p : part) : outcome := head_outcome (snd p).

(* wf.Join(a, b, c) = ((wf.merge(a)).merge(b)).merge(c) *)
Definition join_fn (J : fn -> fn -> fn) (k : kind) (p0 : part) (ps : list part) : fn :=
  fold_left (fun f p => J f (part_fn k p)) ps (part_fn k p0).
Definition join_st (p0 : part) (ps : list part) : st :=
  fold_left (fun s p => STwo s (part_st p)) ps (part_st p0).

(* the parts that run in one call: each part in order, up to and including the first one after which the join stops *)
Fixpoint run_prefix (cont : outcome -> bool) (ps : list part) : list part :=
  match ps with
  | [] => []
  | p :: t => p :: (if cont (part_outcome p) then run_prefix cont t else [])
  end.

Definition all_cont (cont : outcome -> bool) (ps : list part) : bool := forallb (fun p => cont (part_outcome p)) ps.

Lemma run_prefix_snoc cont l p :
  run_prefix cont (l ++ [p]) = if all_cont cont l then l ++ [p] else run_prefix cont l.
Proof.
  induction l as [|q l IH]; simpl; [destruct (cont (part_outcome p)); reflexivity|].
  destruct (cont (part_outcome q)); simpl; [rewrite IH; destruct (all_cont cont l); reflexivity|reflexivity].
Qed.

Lemma run_prefix_all cont l : all_cont cont l = true -> run_prefix cont l = l.
Proof.
  induction l as [|q l IH]; simpl; [reflexivity|]. intros H. apply andb_prop in H. destruct H as [A B].
  rewrite A. now rewrite IH.
Qed.

Lemma all_cont_snoc cont l p : all_cont cont (l ++ [p]) = all_cont cont l && cont (part_outcome p).
Proof. unfold all_cont. rewrite forallb_app. simpl. now rewrite andb_true_r. Qed.

Lemma join_fn_snoc J k p0 ps p : join_fn J k p0 (ps ++ [p]) = J (join_fn J k p0 ps) (part_fn k p).
Proof. unfold join_fn. now rewrite fold_left_app. Qed.
Lemma join_st_snoc p0 ps p : join_st p0 (ps ++ [p]) = STwo (join_st p0 ps) (part_st p).
Proof. unfold join_st. now rewrite fold_left_app. Qed.

Definition evs (c : Z) (ps : list part) : list (Z * Z) := map (fun p => (pid p, c)) ps.

(* Worker.Join / Processor.Join: in order, as long as there is no error and the context does not expire *)
Definition contW (o : outcome) : bool := match o with OOk _ => true | _ => false end.

Lemma joinW_step k : errkind k = true -> forall ps p0 w,
  wcancelled w = false ->
  exists r s' w',
    run (join_fn FJoinW k p0 ps) (join_st p0 ps) w = (r, s', w') /\
    wlog w' = rev (evs (wcall w) (run_prefix contW (p0 :: ps))) ++ wlog w /\
    wcall w' = wcall w /\
    r = outcome_result k (part_outcome (last (run_prefix contW (p0 :: ps)) p0)) /\
    (if all_cont contW (p0 :: ps) then r = Ret 0 [] /\ wcancelled w' = false
     else match r with Pan _ => True | Ret _ e => e <> [] \/ wcancelled w' = true end).
Proof.
  intros K. induction ps as [|p ps IH] using rev_ind; intros p0 w Hc.
  - unfold join_fn, join_st. cbn [fold_left]. unfold part_fn, part_st. rewrite run_base.
    fold (part_outcome p0). fold (base_world (pid p0) (part_outcome p0) w).
    eexists _, _, _. split; [reflexivity|]. cbn [run_prefix all_cont forallb].
    split; [rewrite base_world_log; destruct (contW (part_outcome p0)); reflexivity|].
    split; [apply base_world_call|]. split; [destruct (contW (part_outcome p0)); reflexivity|].
    unfold base_world. destruct (part_outcome p0) eqn:O; cbn [contW andb outcome_cancels outcome_result];
      destruct k; try discriminate; cbn [proj]; try (split; [reflexivity|exact Hc]); try (left; discriminate); try exact I; right; reflexivity.
  - rewrite join_fn_snoc, join_st_snoc. cbn [run].
    destruct (IH p0 w Hc) as (r & s' & w' & E & L & C & R & A). rewrite E.
    change (p0 :: ps ++ [p]) with ((p0 :: ps) ++ [p]). rewrite run_prefix_snoc, all_cont_snoc.
    destruct (all_cont contW (p0 :: ps)) eqn:AC.
    + (* every earlier part succeeded and the context is live: the next part runs *)
      destruct A as [-> Cw]. cbn [is_nil negb]. rewrite Cw.
      unfold part_fn, part_st. rewrite run_base. fold (part_outcome p). fold (base_world (pid p) (part_outcome p) w').
      eexists _, _, _. split; [reflexivity|].
      split; [rewrite base_world_log, L, C; unfold evs; rewrite map_app, rev_app_distr;
              rewrite (run_prefix_all contW (p0 :: ps) AC); reflexivity|].
      split; [now rewrite base_world_call|].
      split; [now rewrite last_last|].
      cbn [andb]. unfold base_world.
      destruct (part_outcome p) eqn:O; cbn [contW outcome_cancels outcome_result];
        destruct k; try discriminate; cbn [proj]; try (split; [reflexivity|exact Cw]); try (left; discriminate); try exact I; right; reflexivity.
    + (* an earlier part stopped the join *)
      cbn [andb].
      destruct r as [v e|q].
      * destruct A as [Ne|Cw].
        -- destruct e; [congruence|]. cbn [is_nil negb]. eexists _, _, _. split; [reflexivity|]. repeat split; try assumption. now left.
        -- destruct e; cbn [is_nil negb].
           ++ rewrite Cw. eexists _, _, _. split; [reflexivity|]. repeat split; try assumption.
              ** (* the stopping part was a cancel: its visible result is (0, nil) as well *)
                 rewrite <- R. destruct (last (run_prefix contW (p0 :: ps)) p0) as [[i1 s1] r1] eqn:LL.
                 unfold part_outcome in R. cbn [snd] in R. destruct (head_outcome r1); cbn [outcome_result] in R; destruct k; try discriminate; cbn [proj] in R; congruence.
              ** now right.
           ++ eexists _, _, _. split; [reflexivity|]. repeat split; try assumption. now left.
      * eexists _, _, _. split; [reflexivity|]. repeat split; assumption.
Qed.

(* Operation.Join: in order, as long as the context does not expire (a panic propagates) *)
Definition contO (o : outcome) : bool := match o with OPanic _ | OCancel _ => false | _ => true end.

Lemma joinO_step : forall ps p0 w,
  wcancelled w = false ->
  exists r s' w',
    run (join_fn FJoinO KOperation p0 ps) (join_st p0 ps) w = (r, s', w') /\
    wlog w' = rev (evs (wcall w) (run_prefix contO (p0 :: ps))) ++ wlog w /\
    wcall w' = wcall w /\
    (if all_cont contO (p0 :: ps) then r = Ret 0 [] /\ wcancelled w' = false
     else match r with Pan _ => True | Ret _ _ => wcancelled w' = true end).
Proof.
  induction ps as [|p ps IH] using rev_ind; intros p0 w Hc.
  - unfold join_fn, join_st. cbn [fold_left]. unfold part_fn, part_st. rewrite run_base.
    fold (part_outcome p0). fold (base_world (pid p0) (part_outcome p0) w).
    eexists _, _, _. split; [reflexivity|]. cbn [run_prefix all_cont forallb].
    split; [rewrite base_world_log; destruct (contO (part_outcome p0)); reflexivity|].
    split; [apply base_world_call|].
    unfold base_world. destruct (part_outcome p0) eqn:O; cbn [contO andb outcome_cancels outcome_result proj];
      try (split; [reflexivity|exact Hc]); try exact I; reflexivity.
  - rewrite join_fn_snoc, join_st_snoc. cbn [run].
    destruct (IH p0 w Hc) as (r & s' & w' & E & L & C & A). rewrite E.
    change (p0 :: ps ++ [p]) with ((p0 :: ps) ++ [p]). rewrite run_prefix_snoc, all_cont_snoc.
    destruct (all_cont contO (p0 :: ps)) eqn:AC.
    + destruct A as [-> Cw]. rewrite Cw.
      unfold part_fn, part_st. rewrite run_base. fold (part_outcome p). fold (base_world (pid p) (part_outcome p) w').
      assert (LG : wlog (base_world (pid p) (part_outcome p) w') = rev (evs (wcall w) ((p0 :: ps) ++ [p])) ++ wlog w).
      { rewrite base_world_log, L, C. unfold evs. rewrite map_app, rev_app_distr.
        rewrite (run_prefix_all contO (p0 :: ps) AC). reflexivity. }
      cbn [andb]. unfold base_world in *.
      destruct (part_outcome p) eqn:O; cbn [contO outcome_cancels outcome_result proj] in *;
        eexists _, _, _; (split; [reflexivity|]); (split; [exact LG|]); (split; [exact C|]);
        try (split; [reflexivity|exact Cw]); try exact I; reflexivity.
    + cbn [andb]. destruct r as [v e|q].
      * rewrite A. eexists _, _, _. split; [reflexivity|]. repeat split; assumption.
      * eexists _, _, _. split; [reflexivity|]. repeat split; assumption.
Qed.

(* ------------------------------------------------------------------ the property-level statement *)
(* One call of a Join of any number of parts, on a live context: the parts execute in the order in which they
   were joined, each at most once, and exactly the parts up to and including the first one that stops the join. *)
Theorem join_order_worker k p0 ps w : errkind k = true -> wcancelled w = false ->
  let '(r, _, w') := run (join_fn FJoinW k p0 ps) (join_st p0 ps) w in
  wlog w' = rev (evs (wcall w) (run_prefix contW (p0 :: ps))) ++ wlog w /\
  r = outcome_result k (part_outcome (last (run_prefix contW (p0 :: ps)) p0)).
Proof.
  intros K Hc. destruct (joinW_step k K ps p0 w Hc) as (r & s' & w' & E & L & _ & R & _). rewrite E. tauto.
Qed.

Theorem join_order_operation p0 ps w : wcancelled w = false ->
  let '(_, _, w') := run (join_fn FJoinO KOperation p0 ps) (join_st p0 ps) w in
  wlog w' = rev (evs (wcall w) (run_prefix contO (p0 :: ps))) ++ wlog w.
Proof.
  intros Hc. destruct (joinO_step ps p0 w Hc) as (r & s' & w' & E & L & _). rewrite E. exact L.
Qed.

(* run_prefix is a prefix of the parts, in their order *)
Lemma run_prefix_is_prefix cont l : exists t, l = run_prefix cont l ++ t.
Proof.
  induction l as [|p l [t IH]]; [exists []; reflexivity|]. simpl.
  destruct (cont (part_outcome p)); [exists t; simpl; now f_equal|exists l; reflexivity].
Qed.

(* ------------------------------------------------------------------ PreHook / PostHook *)
(* for ARBITRARY hook and function stacks the hook's effects on the world precede (PreHook) / follow (PostHook)
   the function's; these equations are the definition of the model unfolded once *)
Lemma pre_rec_seq h f sh sf w :
  run (FPreRec h f) (STwo sh sf) w =
  let '(rh, sh', w1) := run h sh w in
  match run f sf w1 with
  | (Pan p, sf', w2) => (Pan p, STwo sh' sf', w2)
  | (Ret v e, sf', w2) => (Ret v (join (hook_err rh) e), STwo sh' sf', w2)
  end.
Proof. reflexivity. Qed.

Lemma post_rec_seq h f sh sf w :
  run (FPostRec h f) (STwo sh sf) w =
  match run f sf w with
  | (Pan p, sf', w1) => (Pan p, STwo sh sf', w1)
  | (Ret v e, sf', w1) => let '(rh, sh', w2) := run h sh w1 in (Ret v (join (hook_err rh) e), STwo sh' sf', w2)
  end.
Proof. reflexivity. Qed.

(* over scripted hook (id hi) and function (id fi): the order log of one call *)
Section Hooks.
Variables (hk fk : kind) (hi fi : Z) (hs fs : list outcome).
Let H := FBase hk hi hs.
Let F := FBase fk fi fs.

Definition ho (hr : list outcome) := head_outcome hr.

(* Worker/Processor/Producer.PreHook: hook, then function, always both; a panic of the hook is reported, not raised *)
Theorem pre_rec_order hr fr w :
  let '(r, _, w') := run (FPreRec H F) (STwo (SBase hr) (SBase fr)) w in
  wlog w' = (fi, wcall w) :: (hi, wcall w) :: wlog w /\
  r = match outcome_result fk (head_outcome fr) with
      | Pan p => Pan p
      | Ret v e => Ret v (join (hook_err (outcome_result hk (head_outcome hr))) e)
      end.
Proof.
  rewrite pre_rec_seq. unfold H, F. rewrite !run_base.
  fold (base_world hi (head_outcome hr) w). fold (base_world fi (head_outcome fr) (base_world hi (head_outcome hr) w)).
  destruct (outcome_result fk (head_outcome fr)); (split; [now rewrite !base_world_log, base_world_call|reflexivity]).
Qed.

(* Operation/Future.PreHook: hook, then function; a panicking hook stops the call before the function *)
Theorem pre_prop_order hr fr w :
  let '(r, _, w') := run (FPreProp H F) (STwo (SBase hr) (SBase fr)) w in
  match outcome_result hk (head_outcome hr) with
  | Pan p => wlog w' = (hi, wcall w) :: wlog w /\ r = Pan p
  | Ret _ _ => wlog w' = (fi, wcall w) :: (hi, wcall w) :: wlog w /\ r = outcome_result fk (head_outcome fr)
  end.
Proof.
  cbn [run]. unfold H, F. rewrite run_base. fold (base_world hi (head_outcome hr) w).
  destruct (outcome_result hk (head_outcome hr)).
  - rewrite run_base. fold (base_world fi (head_outcome fr) (base_world hi (head_outcome hr) w)).
    split; [now rewrite !base_world_log, base_world_call|reflexivity].
  - split; [now rewrite base_world_log|reflexivity].
Qed.

(* Worker/Processor/Producer.PostHook: function, then hook; the hook is skipped if the function panics *)
Theorem post_rec_order hr fr w :
  let '(r, _, w') := run (FPostRec H F) (STwo (SBase hr) (SBase fr)) w in
  match outcome_result fk (head_outcome fr) with
  | Pan p => wlog w' = (fi, wcall w) :: wlog w /\ r = Pan p
  | Ret v e => wlog w' = (hi, wcall w) :: (fi, wcall w) :: wlog w /\
               r = Ret v (join (hook_err (outcome_result hk (head_outcome hr))) e)
  end.
Proof.
  rewrite post_rec_seq. unfold H, F. rewrite run_base. fold (base_world fi (head_outcome fr) w).
  destruct (outcome_result fk (head_outcome fr)).
  - rewrite run_base. fold (base_world hi (head_outcome hr) (base_world fi (head_outcome fr) w)).
    split; [now rewrite !base_world_log, base_world_call|reflexivity].
  - split; [now rewrite base_world_log|reflexivity].
Qed.

(* Operation/Future.PostHook: function, then hook — unconditionally (deferred); a panic of the hook wins *)
Theorem post_defer_order hr fr w :
  let '(r, _, w') := run (FPostDefer H F) (STwo (SBase hr) (SBase fr)) w in
  wlog w' = (hi, wcall w) :: (fi, wcall w) :: wlog w /\
  r = match outcome_result hk (head_outcome hr) with
      | Pan q => Pan q
      | Ret _ _ => outcome_result fk (head_outcome fr)
      end.
Proof.
  cbn [run]. unfold H, F. rewrite !run_base.
  fold (base_world fi (head_outcome fr) w). fold (base_world hi (head_outcome hr) (base_world fi (head_outcome fr) w)).
  destruct (outcome_result hk (head_outcome hr)); (split; [now rewrite !base_world_log, base_world_call|reflexivity]).
Qed.
End Hooks.

(* ------------------------------------------------------------------ non-vacuity *)
Example join_example :
  observe (FJoinW (FJoinW (FBase KWorker 1 [OOk 0; OOk 0]) (FBase KWorker 2 [OOk 0; OErr 0 7])) (FBase KWorker 3 [OOk 0; OOk 0])) 2
  = ([Ret 0 []; Ret 0 [LErr 7]], [(1, 0); (2, 0); (3, 0); (1, 1); (2, 1)]).
Proof. reflexivity. Qed.

Example join_cancel_example :
  observe (FJoinO (FBase KOperation 1 [OOk 0; OCancel 0]) (FBase KOperation 2 [])) 3
  = ([Ret 0 []; Ret 0 []; Ret 0 []], [(1, 0); (2, 0); (1, 1); (1, 2)]).
Proof. reflexivity. Qed.

Example hook_example :
  observe (FPreRec (FBase KOperation 1 [OPanic 3]) (FBase KWorker 2 [OErr 0 5])) 1 = ([Ret 0 [LPanicVal 3; LRecovered; LErr 5]], [(1, 0); (2, 0)])
  /\ observe (FPostDefer (FBase KFunc 1 [OOk 0]) (FBase KOperation 2 [OPanic 4])) 1 = ([Pan 4], [(2, 0); (1, 0)])
  /\ observe (FPostRec (FBase KFunc 1 [OOk 0]) (FBase KWorker 2 [OPanic 4])) 1 = ([Pan 4], [(2, 0)]).
Proof. repeat split; reflexivity. Qed.
