(* C02 — induction over operator trees: the operational run of every tree equals its denotation;
   terminal consumers; skip removal; nothing after an error. *)
From FunV Require Import Base.Tac Model.IterAlgebra Proofs.IterAlgebra_base Proofs.IterAlgebra_ops.

Arguments rd : simpl never.
Arguments do_close : simpl never.

(* ------------------------------------------------------------------ induction principle (nested lists) *)

Section TreeInd.
Variable P : tree -> Prop.
Hypothesis HSlice : forall l, P (Slice l).
Hypothesis HVariadic : forall l, P (Variadic l).
Hypothesis HChan : forall l, P (Chan l).
Hypothesis HGen : forall tbl, P (Gen tbl).
Hypothesis HFilter : forall p t, P t -> P (Filter p t).
Hypothesis HTransform : forall f t, P t -> P (Transform f t).
Hypothesis HJoin : forall t ts, P t -> Forall P ts -> P (Join t ts).
Hypothesis HChain : forall ts, Forall P ts -> P (Chain ts).
Hypothesis HBuffer : forall n t, P t -> P (Buffer n t).
Hypothesis HSplit1 : forall t, P t -> P (Split1 t).
Hypothesis HChannel : forall n t, P t -> P (Channel n t).
Hypothesis HUniq : forall t, P t -> P (Uniq t).
Hypothesis HDropZero : forall t, P t -> P (DropZero t).
Hypothesis HIndexed : forall t, P t -> P (Indexed t).
Hypothesis HMergeSlices : forall ls, P (MergeSlices ls).
Hypothesis HMergeSliceIters : forall g t, P t -> P (MergeSliceIters g t).
Hypothesis HJson : forall t, P t -> P (JsonRoundTrip t).
Hypothesis HListOf : forall t, P t -> P (ListOf t).
Hypothesis HStackOf : forall t, P t -> P (StackOf t).
Hypothesis HSliceOf : forall t, P t -> P (SliceOf t).
Hypothesis HJsonArr : forall l, P (JsonArr l).
Hypothesis HJsonRecs : forall l, P (JsonRecs l).

Fixpoint tree_ind2 (t : tree) : P t :=
  let all := fix all (ts : list tree) : Forall P ts :=
               match ts with [] => Forall_nil P | x :: r => Forall_cons x (tree_ind2 x) (all r) end in
  match t with
  | Slice l => HSlice l
  | Variadic l => HVariadic l
  | Chan l => HChan l
  | Gen tbl => HGen tbl
  | Filter p t => HFilter p t (tree_ind2 t)
  | Transform f t => HTransform f t (tree_ind2 t)
  | Join t ts => HJoin t ts (tree_ind2 t) (all ts)
  | Chain ts => HChain ts (all ts)
  | Buffer n t => HBuffer n t (tree_ind2 t)
  | Split1 t => HSplit1 t (tree_ind2 t)
  | Channel n t => HChannel n t (tree_ind2 t)
  | Uniq t => HUniq t (tree_ind2 t)
  | DropZero t => HDropZero t (tree_ind2 t)
  | Indexed t => HIndexed t (tree_ind2 t)
  | MergeSlices ls => HMergeSlices ls
  | MergeSliceIters g t => HMergeSliceIters g t (tree_ind2 t)
  | JsonRoundTrip t => HJson t (tree_ind2 t)
  | ListOf t => HListOf t (tree_ind2 t)
  | StackOf t => HStackOf t (tree_ind2 t)
  | SliceOf t => HSliceOf t (tree_ind2 t)
  | JsonArr l => HJsonArr l
  | JsonRecs l => HJsonRecs l
  end.
End TreeInd.

(* ------------------------------------------------------------------ small facts *)

Lemma Reads_stops s vs o s' : Reads s vs o s' -> stops o.
Proof. induction 1; auto. Qed.

Lemma stops_term_conv o : stops o -> term (conv o).
Proof. destruct o; simpl; intros H; try tauto; reflexivity. Qed.

Lemma term_conv o : term o -> conv o = o.
Proof. destruct o; simpl; try reflexivity; discriminate. Qed.

Lemma term_coll o : term o -> coll o = [].
Proof. destruct o; simpl; try reflexivity; discriminate. Qed.

Lemma closed_form s : is_closed s = true -> exists es h p, s = SIter true es h p.
Proof. destruct s; simpl; try discriminate. intros ->. eauto. Qed.

(* an Iterator around a producer that is read as (vs, o) *)
Lemma mk_spec h p vs o p' es :
  Reads p vs o p' -> same_set (errs_of (do_close (SIter false (coll o) h p'))) es ->
  IterSpec (iter h p) vs (conv o) es.
Proof.
  intros R HS. split; [apply stops_term_conv; eapply Reads_stops; eauto|].
  eexists. split; [apply (iter_reads _ _ _ _ R [] h)|]. split; [apply do_close_is_closed|exact HS].
Qed.

Lemma dc_none es p : do_close (SIter false es HNone p) = SIter true es HNone p.
Proof. reflexivity. Qed.
Lemma dc_uniq es seen c : do_close (SIter false es HChild (SUniqP seen c)) =
  SIter true (es ++ errs_of (do_close c)) HChild (SUniqP seen (do_close c)).
Proof. reflexivity. Qed.
Lemma dc_dropzero es c : do_close (SIter false es HChild (SDropZeroP c)) =
  SIter true (es ++ errs_of (do_close c)) HChild (SDropZeroP (do_close c)).
Proof. reflexivity. Qed.
Lemma dc_pipe es kd b q c : do_close (SIter false es HChild (SPipeP kd b q c)) =
  SIter true (es ++ errs_of (do_close c)) HChild (SPipeP kd b q (do_close c)).
Proof. reflexivity. Qed.
Lemma dc_chain es b q ec ops : do_close (SIter false es HColl (SChainP b q ec ops)) =
  SIter true (es ++ ec) HColl (SChainP b q ec ops).
Proof. reflexivity. Qed.
Lemma dc_flat es g b q ec c : do_close (SIter false es HColl (SFlatP g b q ec c)) =
  SIter true (es ++ ec) HColl (SFlatP g b q ec c).
Proof. reflexivity. Qed.

Lemma spec_unfold t : spec_of (init t) (den t) <-> IterSpec (init t) (dvals t) (dfin t) (derrs t).
Proof. reflexivity. Qed.

(* a unary operator without a hook whose producer reads (vs', o') *)
Lemma mk_spec_none p vs o p' :
  Reads p vs o p' -> IterSpec (iter HNone p) vs (conv o) (coll o).
Proof. intros R. eapply mk_spec; eauto. rewrite dc_none. apply same_set_refl. Qed.

(* ------------------------------------------------------------------ Indexed's two converters *)

Lemma tvals_id k vs : tvals id_fun k vs = (vs, None).
Proof. revert k. induction vs as [|x vs IH]; intros k; simpl; [reflexivity|]. rewrite IH. reflexivity. Qed.

Lemma tvals_idx k vs : tvals idx_fun k vs = (enumerate k vs, None).
Proof. revert k. induction vs as [|x vs IH]; intros k; simpl; [reflexivity|]. rewrite IH. reflexivity. Qed.

(* ------------------------------------------------------------------ Join *)

Lemma join_den_step va fa ea d ds :
  join_den ((va, fa, ea) :: d :: ds) =
  join_den ((fst (join2 va fa (d_vals d) (d_fin d)), snd (join2 va fa (d_vals d) (d_fin d)), []) :: ds).
Proof.
  destruct d as [[vd fd] ed]. unfold d_vals, d_fin. simpl.
  destruct fa; simpl; try reflexivity.
  destruct fd; simpl; try reflexivity.
  destruct (join_den ds). rewrite app_assoc. reflexivity.
Qed.

Lemma join_fold_reads bs ds : Forall2 spec_of bs ds ->
  forall a va fa a' ea, Reads a va fa a' ->
  exists s', Reads (fold_left (fun acc x => SJoinP 0 OEof OEof acc x) bs a)
                   (fst (join_den ((va, fa, ea) :: ds))) (snd (join_den ((va, fa, ea) :: ds))) s'.
Proof.
  induction 1 as [|b d bs ds Hb HF IH]; intros a va fa a' ea Ra.
  - simpl. exists a'. destruct fa; simpl; rewrite ?app_nil_r; exact Ra.
  - destruct Hb as (Ht & b' & Rb & _ & _).
    destruct (join_first OEof OEof a va fa a' b _ _ b' Ra (ReadsI_Reads _ _ _ _ Rb)) as [s1 R1].
    rewrite join_den_step. simpl fold_left. eapply IH. exact R1.
Qed.

(* ------------------------------------------------------------------ the induction over trees *)

Lemma Forall_spec_Forall2 ts :
  Forall (fun t => spec_of (init t) (den t)) ts -> Forall2 spec_of (map init ts) (map den ts).
Proof. induction 1; simpl; constructor; auto. Qed.

Ltac child_spec IH vs fin es Ht c' R Hc Hes :=
  let E := fresh "E" in
  unfold spec_of, d_vals, d_fin, d_errs in IH |- *;
  simpl den; destruct (den _) as [[vs fin] es] eqn:E; simpl fst in *; simpl snd in *;
  destruct IH as (Ht & c' & R & Hc & Hes).

Theorem tree_spec : forall t, spec_of (init t) (den t).
Proof.
  induction t using tree_ind2.
  - (* Slice *) apply (mk_spec_none _ _ _ _ (slice_reads l)).
  - (* Variadic *) apply (mk_spec_none _ _ _ _ (slice_reads l)).
  - (* Chan *) apply (mk_spec_none _ _ _ _ (queue_reads l)).
  - (* Gen *) destruct (gen_reads tbl) as [p' R]. unfold spec_of, d_vals, d_fin, d_errs. simpl den.
    rewrite gen_den_raw. simpl. apply (mk_spec_none _ _ _ _ R).
  - (* Filter *) child_spec IHt vs fin es Ht c' R Hc Hes. simpl.
    pose proof (mk_spec_none _ _ _ _ (filter_reads p _ _ _ _ R)) as S.
    rewrite (term_conv _ Ht), (term_coll _ Ht) in S. exact S.
  - (* Transform *) child_spec IHt vs fin es Ht c' R Hc Hes. simpl.
    destruct (transform_reads f _ _ _ _ R 0) as [p' R'].
    pose proof (mk_spec_none _ _ _ _ R') as S.
    pose proof (tvals_stops f vs 0) as Hst.
    destruct (tvals f 0 vs) as [ys [o|]]; simpl in *.
    + specialize (Hst o eq_refl). destruct o; simpl in Hst; try tauto; exact S.
    + rewrite (term_conv _ Ht), (term_coll _ Ht) in S. exact S.
  - (* Join *) unfold spec_of, d_vals, d_fin, d_errs. simpl den.
    destruct IHt as (Ht & c' & R & Hc & Hes).
    destruct (join_fold_reads _ _ (Forall_spec_Forall2 _ H) _ _ _ _ (d_errs (den t)) (ReadsI_Reads _ _ _ _ R)) as [s' R'].
    assert (E : (d_vals (den t), d_fin (den t), d_errs (den t)) = den t) by (destruct (den t) as [[? ?] ?]; reflexivity).
    rewrite E in R'. change (den t :: map den ts) with (den t :: map den ts) in R'.
    destruct (join_den (den t :: map den ts)) as [vs fin] eqn:Ej. simpl in *.
    pose proof (mk_spec_none _ _ _ _ R') as S.
    assert (Htf : term fin).
    { pose proof (Reads_stops _ _ _ _ R') as Hs.
      (* a joined producer only passes on what its operands (iterators) returned *)
      clear - Ej Ht H. revert Ej.
      assert (G : forall ds v f e vs fin, term f -> Forall (fun d => term (d_fin d)) ds ->
                  join_den ((v, f, e) :: ds) = (vs, fin) -> term fin).
      { induction ds as [|d ds IHd]; intros v f e vs0 fin0 Hf HFd Ej.
        - simpl in Ej. destruct f; inv Ej; auto.
        - rewrite join_den_step in Ej. inv HFd. eapply IHd; [| |exact Ej]; auto.
          unfold join2. destruct f; simpl; auto. }
      destruct (den t) as [[v f] e]. intros Ej. eapply (G (map den ts) v f e); [exact Ht| |exact Ej].
      clear - H. induction H; simpl; constructor; auto. destruct H as (Ht & _). exact Ht. }
    rewrite (term_conv _ Htf), (term_coll _ Htf) in S. simpl. rewrite Ej. exact S.
  - (* Chain *) unfold spec_of, d_vals, d_fin, d_errs. simpl den. simpl fst. simpl snd.
    destruct (chain_reads _ _ (Forall_spec_Forall2 _ H)) as (ec1 & ops1 & R & HS).
    eapply (mk_spec HColl _ _ OEof); [exact R|]. rewrite dc_chain. exact HS.
  - (* Buffer *) child_spec IHt vs fin es Ht c' R Hc Hes. simpl.
    eapply (mk_spec HChild _ _ OEof); [exact (pipe_reads KBuffer _ _ _ _ R)|].
    rewrite dc_pipe. simpl pipe_post. rewrite (do_close_closed _ Hc).
    destruct (closed_form _ Hc) as (e0 & h0 & p0 & ->). simpl in *.
    change (do_close (SIter true (e0 ++ e0 ++ ctx_err fin) h0 p0)) with (SIter true (e0 ++ e0 ++ ctx_err fin) h0 p0).
    simpl. rewrite app_assoc. eapply same_set_trans; [apply same_set_dup|].
    apply same_set_app; [exact Hes|apply same_set_refl].
  - (* Split1 *) child_spec IHt vs fin es Ht c' R Hc Hes. simpl.
    apply (mk_spec_none _ _ _ _ (pipe_reads KSplit _ _ _ _ R)).
  - (* Channel *) child_spec IHt vs fin es Ht c' R Hc Hes. simpl.
    apply (mk_spec_none _ _ _ _ (pipe_reads KChannel _ _ _ _ R)).
  - (* Uniq *) child_spec IHt vs fin es Ht c' R Hc Hes. simpl.
    destruct (uniq_reads _ _ _ _ R []) as [seen' R'].
    eapply (mk_spec HChild _ _ OEof); [exact R'|].
    rewrite dc_uniq, (do_close_closed _ Hc). simpl. exact Hes.
  - (* DropZero *) child_spec IHt vs fin es Ht c' R Hc Hes. simpl.
    pose proof (mk_spec HChild _ _ _ _ es (dropzero_reads _ _ _ _ R)) as S.
    rewrite (term_conv _ Ht), (term_coll _ Ht) in S. apply S.
    rewrite dc_dropzero, (do_close_closed _ Hc). simpl. exact Hes.
  - (* Indexed *) child_spec IHt vs fin es Ht c' R Hc Hes. simpl.
    destruct (transform_reads idx_fun _ _ _ _ R 0) as [p1 R1]. rewrite tvals_idx in R1. simpl in R1.
    pose proof (mk_spec_none _ _ _ _ R1) as (_ & c1 & R1' & _ & _).
    rewrite (term_conv _ Ht) in R1'.
    destruct (transform_reads id_fun _ _ _ _ R1' 0) as [p2 R2]. rewrite tvals_id in R2. simpl in R2.
    pose proof (mk_spec_none _ _ _ _ R2) as S.
    rewrite (term_conv _ Ht), (term_coll _ Ht) in S. exact S.
  - (* MergeSlices *) apply (mk_spec_none _ _ _ _ (queue_reads (concat ls))).
  - (* MergeSliceIters *) child_spec IHt vs fin es Ht c' R Hc Hes. simpl.
    eapply (mk_spec HColl _ _ OEof); [exact (flat_reads g _ _ _ _ R)|].
    rewrite dc_flat. apply same_set_refl.
  - (* JsonRoundTrip *) child_spec IHt vs fin es Ht c' R Hc Hes. simpl.
    destruct (join_first OEof OEof _ _ _ _ _ _ _ _ (slice_reads []) (pipe_reads KJson _ _ _ _ R)) as [s' R'].
    simpl in R'. apply (mk_spec_none _ _ _ _ R').
  - (* ListOf *) child_spec IHt vs fin es Ht c' R Hc Hes. simpl.
    apply (mk_spec_none _ _ _ _ (pipe_reads KList _ _ _ _ R)).
  - (* StackOf *) child_spec IHt vs fin es Ht c' R Hc Hes. simpl.
    apply (mk_spec_none _ _ _ _ (pipe_reads KStack _ _ _ _ R)).
  - (* SliceOf *) child_spec IHt vs fin es Ht c' R Hc Hes. simpl.
    apply (mk_spec_none _ _ _ _ (pipe_reads KSliceOf _ _ _ _ R)).
  - (* JsonArr *)
    destruct (join_first OEof OEof _ _ _ _ _ _ _ _ (slice_reads []) (queue_reads (map dflt l))) as [s' R'].
    simpl in R'. apply (mk_spec_none _ _ _ _ R').
  - (* JsonRecs *)
    destruct (join_first OEof OEof _ _ _ _ _ _ _ _ (slice_reads []) (queue_reads (map dec_rec l))) as [s' R'].
    simpl in R'. pose proof (mk_spec_none _ _ _ _ R') as (_ & c1 & R1 & _ & _). simpl in R1.
    destruct (transform_reads id_fun _ _ _ _ R1 0) as [p2 R2]. rewrite tvals_id in R2. simpl in R2.
    apply (mk_spec_none _ _ _ _ R2).
Qed.
