(* C10 — structural invariant of the Service transition system (no callers, no trace):
   every shared variable is a function of the program counters, for every reachable state,
   any number of callers and every interleaving.  Stdlib + lia. *)
From FunV Require Import Base.Tac Model.ServiceModel.

Local Arguments Nat.leb : simpl never.
Local Arguments Nat.eqb : simpl never.

Definition brank (b : bpc) : nat :=
  match b with BNone => 0 | B0 => 1 | B1 => 2 | B2 => 3 | B3 => 4 | B4 => 5 | B5 => 6 | B6 => 7 | B7 => 8 | B8 => 9 | B9 => 10 | BDone => 11 end.
Definition erank (e : epc) : nat :=
  match e with ENone => 0 | E0 => 1 | E1 => 2 | E2 => 3 | E3 => 4 | E4 => 5 | E5 => 6 | E6 => 7 | E6n => 7 | E7 => 8 | E8 => 9 | EDone => 10 end.
Definition drank (d : dpc) : nat :=
  match d with DNone => 0 | D0 => 1 | D1 => 2 | D2 => 3 | D3 => 4 | D4 => 5 | D4n => 5 | D5 => 6 | D6 => 7 | DDone => 8 end.
Definition mrank (m : mpc) : nat :=
  match m with MNone => 0 | M0 => 1 | M1 => 2 | M2 => 3 | M3 => 4 | M4 => 5 | M5 => 6 | M6 => 7 | M7 => 8 | M8 => 9 | M9 => 10
             | M10 => 11 | M11 => 12 | M12 => 13 | M13 => 14 | M14 => 15 | MDone => 16 end.

(* some phase failed (or Run is nil, which panics): the aggregate is non-nil once the service finished *)
Definition agg_nonnil (c : cfg) : bool :=
  is_err (oRun c) || is_panic (oRun c) || is_absent (oRun c) ||
  is_err (oSd c) || is_panic (oSd c) || is_err (oCl c) || is_panic (oCl c).

(* the collector as a function of the program counters *)
Definition ec_of (c : cfg) (m : mpc) (d : dpc) (e : epc) : ecs :=
  let ehp := is_panic (oEh c) && (8 <=? erank e) && agg_nonnil c in
  MkEc (is_err (oRun c) && (4 <=? mrank m))
       (is_panic (oRun c) && (6 <=? mrank m))
       (is_err (oSd c) && (5 <=? drank d))
       (is_panic (oSd c) && (6 <=? drank d))
       (is_err (oCl c) && (11 <=? mrank m))
       (is_panic (oCl c) && (12 <=? mrank m))
       ehp
       ((is_panic (oRun c) || is_absent (oRun c)) && (6 <=? mrank m) || is_panic (oSd c) && (6 <=? drank d)
        || is_panic (oCl c) && (12 <=? mrank m) || ehp).

(* program counters that exist only for some configurations *)
Definition pcs_cfg_ok (c : cfg) (m : mpc) (d : dpc) (e : epc) : bool :=
  match m with
  | M1 => negb (is_absent (oRun c))
  | M2 => negb (is_absent (oRun c)) && negb (is_panic (oRun c))
  | M8 => negb (is_absent (oCl c))
  | M9 => negb (is_absent (oCl c)) && negb (is_panic (oCl c))
  | M10 => negb (is_absent (oCl c))
  | _ => true
  end &&
  match d with
  | D1 | D2 | D4 => negb (is_absent (oSd c))
  | D3 => negb (is_absent (oSd c)) && negb (is_panic (oSd c))
  | D4n => is_absent (oSd c)
  | _ => true
  end &&
  match e with
  | E3 => negb (is_absent (oEh c))
  | E4 | E5 | E6 => negb (is_absent (oEh c)) && agg_nonnil c
  | E6n => negb (is_absent (oEh c)) && negb (agg_nonnil c)
  | _ => true
  end.

Definition done_e (e : epc) : nat := match e with EDone => 1 | _ => 0 end.
Definition done_d (d : dpc) : nat := match d with DDone => 1 | _ => 0 end.
Definition done_m (m : mpc) : nat := match m with MDone => 1 | _ => 0 end.
Definition adds (b : bpc) : nat :=
  match b with BNone | B0 | B1 => 0 | B2 | B3 | B4 => 1 | B5 | B6 => 2 | _ => 3 end.

Record SInv (c : cfg) (s : state) : Prop := {
  si_run : fRun s = (2 <=? brank (body s)) && (mrank (mn s) <=? 13);
  si_fin : fFin s = (13 <=? mrank (mn s));
  si_sta : fSta s = (10 <=? brank (body s));
  si_cancel : cancelSet s = (5 <=? brank (body s));
  si_sdsig : sdSig s = (7 <=? drank (sd s));
  si_ehsig : ehSig s = (8 <=? mrank (mn s));
  si_mainsig : mainSig s = (15 <=? mrank (mn s));
  si_eh : (erank (eh s) =? 0) = (brank (body s) <=? 3);
  si_sd : (drank (sd s) =? 0) = (brank (body s) <=? 6);
  si_mn : (mrank (mn s) =? 0) = (brank (body s) <=? 8);
  si_wg : wg s + done_e (eh s) + done_d (sd s) + done_m (mn s) = adds (body s);
  si_g_eh : 2 <= erank (eh s) -> 15 <= mrank (mn s);
  si_g_mn : 7 <= mrank (mn s) -> 7 <= drank (sd s);
  si_g_sd : 2 <= drank (sd s) -> ctxDone s = true;
  si_g_ctx : 5 <= mrank (mn s) -> ctxDone s = true;
  si_cfg : pcs_cfg_ok c (mn s) (sd s) (eh s) = true;
  si_ec : ec s = ec_of c (mn s) (sd s) (eh s)
}.


Ltac bool_atoms :=
  repeat match goal with
         | |- context [is_panic ?o] => let b := fresh "bp" in remember (is_panic o) as b; clear dependent o
         end.

Lemma ecs_eq : forall a b,
  tRunErr a = tRunErr b -> tRunPan a = tRunPan b -> tSdErr a = tSdErr b -> tSdPan a = tSdPan b ->
  tClErr a = tClErr b -> tClPan a = tClPan b -> tEhPan a = tEhPan b -> tMark a = tMark b -> a = b.
Proof. intros [] []; cbn; intros; subst; reflexivity. Qed.

Lemma sinv_init : forall c, SInv c init.
Proof. intro c. constructor; cbn; try reflexivity; try lia. apply ecs_eq; cbn; lia. Qed.

(* ec_is_empty of the collector once all phases are over and the handler has not yet run *)
Lemma ec_empty_finished : forall c m d e,
  15 <= mrank m -> 7 <= drank d -> erank e < 8 ->
  ec_is_empty (ec_of c m d e) = negb (agg_nonnil c).
Proof.
  intros c m d e Hm Hd He.
  assert (E1 : (4 <=? mrank m) = true) by lia. assert (E2 : (6 <=? mrank m) = true) by lia.
  assert (E3 : (11 <=? mrank m) = true) by lia. assert (E4 : (12 <=? mrank m) = true) by lia.
  assert (E5 : (5 <=? drank d) = true) by lia. assert (E6 : (6 <=? drank d) = true) by lia.
  assert (E7 : (8 <=? erank e) = false) by lia.
  unfold ec_is_empty, ec_of, agg_nonnil; cbn.
  rewrite E1, E2, E3, E4, E5, E6, E7.
  destruct (oRun c), (oSd c), (oCl c); cbn; try reflexivity; destruct (is_panic (oEh c)); reflexivity.
Qed.

Ltac case_bools :=
  repeat match goal with
         | |- context [if ?b then _ else _] => destruct b eqn:?
         end.

(* one tactic for every conjunct after a step has been executed symbolically *)
Ltac rw_out :=
  repeat match goal with
         | E : oEh ?c = _ |- context [oEh ?c] => rewrite E
         | E : oEh ?c = _, H : context [oEh ?c] |- _ => rewrite E in H
         | E : oRun ?c = _ |- context [oRun ?c] => rewrite E
         | E : oRun ?c = _, H : context [oRun ?c] |- _ => rewrite E in H
         | E : oSd ?c = _ |- context [oSd ?c] => rewrite E
         | E : oSd ?c = _, H : context [oSd ?c] |- _ => rewrite E in H
         | E : oCl ?c = _ |- context [oCl ?c] => rewrite E
         | E : oCl ?c = _, H : context [oCl ?c] |- _ => rewrite E in H
         end.

Ltac fin_tac :=
  cbn in *;
  try assumption; try reflexivity;
  try match goal with |- _ = ec_of _ _ _ _ => apply ecs_eq; cbn end;
  rw_out; cbn in *;
  try lia;
  try (unfold pcs_cfg_ok in *; cbn in *; rw_out; cbn in *; lia).

Lemma adds_facts : forall b,
  adds b <= 3 /\ (3 <= brank b -> 1 <= adds b) /\ (6 <= brank b -> 2 <= adds b) /\ (8 <= brank b -> adds b = 3) /\
  (brank b <= 2 -> adds b = 0).
Proof. destruct b; cbn; lia. Qed.
Lemma done_e_facts : forall e, done_e e <= 1 /\ (done_e e = 1 <-> erank e = 10).
Proof. destruct e; cbn; lia. Qed.
Lemma done_d_facts : forall d, done_d d <= 1 /\ (done_d d = 1 <-> drank d = 8).
Proof. destruct d; cbn; lia. Qed.
Lemma done_m_facts : forall m, done_m m <= 1 /\ (done_m m = 1 <-> mrank m = 16).
Proof. destruct m; cbn; lia. Qed.

Ltac wg_tac b e d m :=
  pose proof (adds_facts b); pose proof (done_e_facts e); pose proof (done_d_facts d); pose proof (done_m_facts m);
  cbn in *; lia.

Lemma sinv_step : forall c s l s', SInv c s -> step c s l = Some s' -> SInv c s'.
Proof.
  intros c s l s' I H.
  destruct s as [fr ff fs b cs cd pd ss es ms w e eh0 sd0 mn0 cl].
  destruct I as [Irun Ifin Ista Icancel Isd Ieh Imain Ieh0 Isd0 Imn0 Iwg Ige Igm Igs Igc Icfg Iec].
  cbn in *.
  destruct l as [k | t | p | p | i r | h i | | ]; cbn in H.
  - (* LInv *) inv H. constructor; fin_tac.
  - (* LTau *)
    destruct t as [i | | | ]; cbn in H.
    + (* caller *)
      unfold step_caller in H; cbn in H.
      destruct (nth_error cl i) as [pc|] eqn:En; [|discriminate].
      destruct pc; try discriminate; cbn in H.
      * inv H. constructor; fin_tac.
      * destruct b; try discriminate; inv H; constructor; fin_tac.
      * unfold step_body in H; cbn in H.
        destruct b; try discriminate; inv H; constructor; fin_tac;
          try (destruct eh0; cbn in *; lia); try (destruct sd0; cbn in *; lia); try (destruct mn0; cbn in *; lia).
      * inv H. constructor; fin_tac.
      * inv H. constructor; fin_tac.
      * destruct w; [|discriminate]. inv H. constructor; fin_tac.
      * inv H. constructor; fin_tac.
      * inv H. constructor; fin_tac.
      * inv H. constructor; fin_tac.
      * inv H. constructor; fin_tac.
      * inv H. constructor; fin_tac.
      * inv H. constructor; fin_tac.
    + (* EH *)
      unfold step_eh in H; cbn in H.
      destruct eh0; try discriminate; cbn in H.
      * destruct ms; [|discriminate]. inv H. constructor; fin_tac.
      * destruct es; [|discriminate]. inv H. constructor; fin_tac.
      * inv H. destruct (oEh c) eqn:Eo; constructor; fin_tac.
      * inv H.
        rewrite ec_empty_finished by (cbn; lia).
        destruct (agg_nonnil c) eqn:Ea; constructor; fin_tac.
      * inv H. destruct (oEh c) eqn:Eo; constructor; fin_tac.
      * inv H. constructor; fin_tac.
      * inv H. constructor; fin_tac.
      * inv H. constructor; fin_tac. wg_tac b E8 sd0 mn0.
    + (* SD *)
      unfold step_sd in H; cbn in H.
      destruct sd0; try discriminate; cbn in H.
      * destruct cd; [|discriminate]. inv H. destruct (oSd c) eqn:Eo; constructor; fin_tac.
      * inv H. destruct (oSd c) eqn:Eo; constructor; fin_tac.
      * inv H. destruct (oSd c) eqn:Eo; constructor; fin_tac.
      * inv H. destruct (oSd c) eqn:Eo; constructor; fin_tac.
      * inv H. constructor; fin_tac.
      * inv H. constructor; fin_tac. wg_tac b eh0 D6 mn0.
    + (* MAIN *)
      unfold step_main in H; cbn in H.
      destruct mn0; try discriminate; cbn in H.
      * destruct (oRun c) eqn:Eo; cbn in H; try discriminate; inv H; constructor; fin_tac.
      * inv H. destruct (oRun c) eqn:Eo; constructor; fin_tac.
      * inv H. constructor; fin_tac.
      * inv H. destruct (oRun c) eqn:Eo; constructor; fin_tac.
      * destruct ss; [|discriminate]. inv H. constructor; fin_tac.
      * inv H. constructor; fin_tac.
      * destruct (oCl c) eqn:Eo; cbn in H; try discriminate; inv H; constructor; fin_tac.
      * inv H. destruct (oCl c) eqn:Eo; constructor; fin_tac.
      * inv H. destruct (oCl c) eqn:Eo; constructor; fin_tac.
      * inv H. constructor; fin_tac.
      * inv H. constructor; fin_tac.
      * inv H. constructor; fin_tac.
      * inv H. constructor; fin_tac. wg_tac b eh0 sd0 M14.
  - (* LBegin *)
    destruct p; cbn in H.
    + destruct mn0; try discriminate. destruct (oRun c) eqn:Eo; cbn in H; try discriminate; inv H; constructor; fin_tac.
    + destruct sd0; try discriminate. inv H. constructor; fin_tac.
    + destruct mn0; try discriminate. destruct (oCl c) eqn:Eo; cbn in H; try discriminate; inv H; constructor; fin_tac.
    + destruct eh0; try discriminate. inv H. constructor; fin_tac.
  - (* LEnd *)
    destruct p; cbn in H.
    + destruct mn0; try discriminate. inv H. destruct (oRun c) eqn:Eo; constructor; fin_tac.
    + destruct sd0; try discriminate. inv H. destruct (oSd c) eqn:Eo; constructor; fin_tac.
    + destruct mn0; try discriminate. inv H. destruct (oCl c) eqn:Eo; constructor; fin_tac.
    + destruct eh0; try discriminate. inv H. constructor; fin_tac.
  - (* LRet *)
    unfold step_ret in H; cbn in H.
    destruct (nth_error cl i) as [pc|]; [|discriminate].
    destruct pc, r; try discriminate; cbn in H;
      try (match type of H with (if ?b then _ else _) = _ => destruct b; [|discriminate] end);
      inv H; constructor; fin_tac.
  - (* LYield *)
    destruct h.
    + destruct (nth_error cl i) as [[]|]; try discriminate. inv H. constructor; fin_tac.
    + destruct (nth_error cl i) as [[]|]; try discriminate. destruct b; try discriminate. inv H. constructor; fin_tac.
  - (* LYieldMain *) destruct mn0; try discriminate. inv H. constructor; fin_tac.
  - (* LParentCancel *)
    destruct cs; inv H; constructor; fin_tac.
Qed.
