(* C01_complete / C04_finite_input_eof / C04_progress_exhaust for Iterator.BufferedChannel / Channel: the pump
   (read the input, send to the channel, close it on return) is launched at construction; a receiver takes from
   the channel until it is closed. Any capacity, input, interleaving; runs that nothing aborted. *)
From FunV Require Import Base.Tac Base.ListX Model.Pipelines
  Proofs.Pipelines_conserve Proofs.Pipelines_quiesce Proofs.Pipelines_nets Proofs.Pipelines_complete Proofs.Pipelines_closer
  Proofs.Pipelines_release Proofs.Pipelines_nodrop Proofs.Pipelines_completeness Proofs.Pipelines_progress
  Proofs.Pipelines_completeness_split.

Notation CN := chan_net.

Lemma hand_disc_chan_net : hand_disc CN = true. Proof. reflexivity. Qed.

Lemma h_cons_cur s c d i :
  cur_instr CN s 0 = Some (c, d, i) ->
  (p_pc c = 0 /\ i = IRecv 0 GOwn 1 2 2) \/ (p_pc c = 1 /\ i = IDeliver 0) \/ (p_pc c = 2 /\ i = IExit).
Proof.
  intros Hc. apply cur_instr_inv in Hc as (_ & Hd & _ & Hi). cbn in Hd. inv Hd. cbn [d_prog usr] in Hi.
  destruct (p_pc c) as [|[|[|q]]]; cbn in Hi; inv Hi; auto. destruct q; discriminate.
Qed.

Lemma h_pump_cur s pr d i :
  cur_instr CN s 1 = Some (pr, d, i) ->
  (p_pc pr = 0 /\ i = ISrc 0 GOwn 1 2 2) \/ (p_pc pr = 1 /\ i = ISend 0 GOwn 0 2 2) \/ (p_pc pr = 2 /\ i = IClose 0 3) \/ (p_pc pr = 3 /\ i = IExit).
Proof. intros Hc. apply cur_instr_inv in Hc as (_ & Hd & _ & Hi). cbn in Hd. inv Hd. cbn [d_prog bg] in Hi. apply pump_instr in Hi. exact Hi. Qed.

Lemma h_desc p d : nth_error (n_procs CN) p = Some d ->
  (p = 0 /\ d = usr [IRecv 0 GOwn 1 2 2; IDeliver 0; IExit]) \/ (p = 1 /\ d = bg (pump_prog 0 0)).
Proof. intros H. destruct p as [|[|p]]; cbn in H; [inv H; auto|inv H; auto|destruct p; discriminate]. Qed.

Definition h_ppast (s : state) : Prop :=
  exists pr, nth_error (s_procs s) 1 = Some pr /\ (p_st pr = PDone \/ (p_st pr = PRun /\ p_pc pr = 3)).

Record hv (s : state) : Prop := {
  hv_na : forall p pr, nth_error (s_procs s) p = Some pr -> p_st pr <> PAbandoned;
  hv_ns : forall p pr, nth_error (s_procs s) p = Some pr -> p_st pr <> PNotStarted;
  hv_len : length (s_chans s) = 1 /\ length (s_srcs s) = 1;
  hv_c : s_canc s = [];
  hv_d : s_drop s = [];
  hv_pp : closedb s 0 = true -> h_ppast s;
  hv_pd : forall pr, nth_error (s_procs s) 1 = Some pr -> p_st pr = PDone \/ (p_st pr = PRun /\ p_pc pr = 3) -> closedb s 0 = true;
  hv_e : forall pr, nth_error (s_procs s) 1 = Some pr -> p_st pr = PDone \/ (p_st pr = PRun /\ 2 <= p_pc pr) -> nth_error (s_srcs s) 0 = Some [];
  hv_b : forall c, nth_error (s_procs s) 0 = Some c -> p_st c = PDone \/ (p_st c = PRun /\ p_pc c = 2) -> drained s 0
}.

Lemma h_not_cancelled s x : hv s -> cancelledb CN s x = false.
Proof. intros V. unfold cancelledb. now rewrite (hv_c _ V). Qed.

Lemma h_pump_sees_open s pr d i : hv s -> cur_instr CN s 1 = Some (pr, d, i) -> p_pc pr < 3 -> closedb s 0 = true -> False.
Proof.
  intros V Hc Hpc Cl. destruct (hv_pp _ V Cl) as (p0 & Hp0 & Hfin). apply cur_instr_inv in Hc as (Hp & _ & Hr & _). rewrite Hp in Hp0. inv Hp0.
  destruct Hfin as [E|(_ & E)]; [congruence|lia].
Qed.

Lemma hinv_chan cap input s : reach CN (chan_init cap input) s -> hinv CN s.
Proof.
  intros R. eapply hinv_reach; eauto using hand_disc_chan_net. unfold chan_init. apply hinv_mk_init.
  intros pr [<-|[<-|[]]]; reflexivity.
Qed.

Lemma hv_step cap input s l s' :
  reach CN (chan_init cap input) s -> internal l = true -> hv s -> step CN s l = Some s' -> hv s'.
Proof.
  intros R Hint V H.
  pose proof (hinv_chan cap input s R) as HI.
  assert (NA : forall p pr, nth_error (s_procs s') p = Some pr -> p_st pr <> PAbandoned).
  { eapply no_abandon_step; eauto. apply (hv_na _ V). }
  assert (KC : closedb s 0 = true -> closedb s' 0 = true) by (eapply closed_mono; eauto).
  destruct (lens_step _ _ _ _ H) as (L1 & L2).
  split.
  - exact NA.
  - intros p pr' Hp' En.
    assert (Lp : length (s_procs s') = length (s_procs s)).
    { pose proof (gi_len _ _ (ginv_reach _ _ _ wf_chan_net (ginv_chan_init cap input) R)).
      pose proof (gi_len _ _ (ginv_reach _ _ _ wf_chan_net (ginv_chan_init cap input) (reach_step _ _ _ _ _ R H))). lia. }
    destruct (nth_error (s_procs s) p) as [pr|] eqn:Hp.
    + destruct (ctx_stable_step _ _ _ _ _ _ H Hp (hv_ns _ V p pr Hp)) as (q & Hq & _ & Hs). rewrite Hp' in Hq. inv Hq. contradiction.
    + apply nth_error_None in Hp. assert (p < length (s_procs s')) by (apply nth_error_Some; congruence). lia.
  - destruct (hv_len _ V). split; congruence.
  - destruct (canc_by _ _ _ _ Hint H) as [Ec|(p & pr & d & c & q & -> & Hc)]; [rewrite Ec; apply (hv_c _ V)|].
    exfalso. pose proof Hc as Hc0. apply cur_instr_inv in Hc as (_ & Hd & _ & _).
    apply h_desc in Hd as [(-> & ->)|(-> & ->)]; [apply h_cons_cur in Hc0|apply h_pump_cur in Hc0]; intuition discriminate.
  - destruct (drop_cause CN s l s' HI H) as [E|(p & pr & d & ch & g & ko & ke & kr & Hc & Hcause)]; [rewrite E; apply (hv_d _ V)|].
    exfalso. pose proof Hc as Hc0. apply cur_instr_inv in Hc as (_ & Hd & _ & _).
    apply h_desc in Hd as [(-> & ->)|(-> & ->)].
    + apply h_cons_cur in Hc0. intuition discriminate.
    + destruct (h_pump_cur _ _ _ _ Hc0) as [(_ & E)|[(Epc & E)|[(_ & E)|(_ & E)]]]; try discriminate. inv E.
      destruct Hcause as [E|E]; [rewrite (h_not_cancelled _ _ V) in E; discriminate|]. eapply (h_pump_sees_open s _ _ _ V Hc0); [lia|exact E].
  - intros Hcl'. destruct (closedb s 0) eqn:Ecl.
    + destruct (hv_pp _ V Ecl) as (c & Hc & Hfin).
      destruct (at_exit_step CN s l s' 1 c _ H Hc eq_refl NA) as (c' & Hc' & Hfin').
      * destruct Hfin as [E|(E & Epc)]; [auto|right; split; auto]. rewrite Epc. reflexivity.
      * exists c'. split; auto. destruct Hfin' as [E|(E & Epc)]; auto. right. split; auto.
        destruct Hfin as [E0|(_ & E0)]; [|congruence]. exfalso.
        pose proof (done_untouched _ _ _ _ _ _ H Hc E0) as X. rewrite Hc' in X. inv X. congruence.
    + destruct (closed_by _ _ _ _ _ H Ecl Hcl') as (p & pr & d & q & -> & Hc).
      pose proof Hc as Hc0. apply cur_instr_inv in Hc as (Hp & Hd & _ & _).
      apply h_desc in Hd as [(-> & ->)|(-> & ->)]; [apply h_cons_cur in Hc0; intuition discriminate|].
      destruct (h_pump_cur _ _ _ _ Hc0) as [(_ & E)|[(_ & E)|[(_ & E)|(_ & E)]]]; try discriminate. inv E.
      cbn [step] in H. rewrite Hc0 in H. cbn [exec] in H. exec_cases H; inv H;
        (eexists; split; [unf; cbn [s_procs]; eapply nth_error_upd_same; eauto|right; split; reflexivity]).
  - intros pr' Hp' Hfin.
    destruct Hfin as [Ed|(Er & Epc)].
    + destruct (done_from _ _ _ _ _ _ H Hp' Ed) as [Same|(pr & d & Hc)].
      * apply KC. eapply (hv_pd _ V); eauto.
      * apply KC. pose proof (h_pump_cur _ _ _ _ Hc) as X. apply cur_instr_inv in Hc as (Hp & _ & Hr & _).
        destruct X as [(_ & E)|[(_ & E)|[(_ & E)|(E3 & _)]]]; try discriminate. eapply (hv_pd _ V); eauto.
    + destruct (pc_step _ _ _ _ _ _ H Hp' Er) as [Same|[(E0 & _)|[(arm & pr & d & i & -> & Hc & Hin)|[(q & pr & d & ch & g & ko & ke & kr & -> & Hc & E)|(q & pr & d & ch & g & ki & ke & kr & -> & Hc & E)]]]].
      * apply KC. eapply (hv_pd _ V); eauto.
      * lia.
      * pose proof (h_pump_cur _ _ _ _ Hc) as X. cbn [step] in H. rewrite Hc in H.
        destruct X as [(E0 & ->)|[(E0 & ->)|[(E0 & ->)|(E0 & ->)]]]; cbn [targets In] in Hin; try lia.
        eapply close_effect; eauto. destruct (hv_len _ V) as (Lc & _). intros En. apply nth_error_None in En. lia.
      * exfalso. destruct (h_pump_cur _ _ _ _ Hc) as [(_ & E1)|[(_ & E1)|[(_ & E1)|(_ & E1)]]]; inv E1. lia.
      * exfalso. apply h_pump_cur in Hc. intuition discriminate.
  - intros pr' Hp' Hfin.
    assert (KEEP : nth_error (s_srcs s) 0 = Some [] -> nth_error (s_srcs s') 0 = Some []) by (eapply src_empty_step; eauto).
    destruct Hfin as [Ed|(Er & Epc)].
    + destruct (done_from _ _ _ _ _ _ H Hp' Ed) as [Same|(pr & d & Hc)].
      * apply KEEP. eapply (hv_e _ V); eauto.
      * apply KEEP. pose proof (h_pump_cur _ _ _ _ Hc) as X. apply cur_instr_inv in Hc as (Hp & _ & Hr & _).
        destruct X as [(_ & E)|[(_ & E)|[(_ & E)|(E3 & _)]]]; try discriminate. eapply (hv_e _ V); eauto. right. split; auto. lia.
    + destruct (pc_step _ _ _ _ _ _ H Hp' Er) as [Same|[(E0 & _)|[(arm & pr & d & i & -> & Hc & Hin)|[(q & pr & d & ch & g & ko & ke & kr & -> & Hc & E)|(q & pr & d & ch & g & ki & ke & kr & -> & Hc & E)]]]].
      * apply KEEP. eapply (hv_e _ V); eauto.
      * lia.
      * pose proof (h_pump_cur _ _ _ _ Hc) as X. pose proof Hc as Hc0. cbn [step] in H. rewrite Hc in H.
        apply cur_instr_inv in Hc as (Hp & _ & Hr & _).
        destruct X as [(E0 & ->)|[(E0 & ->)|[(E0 & ->)|(E0 & ->)]]]; cbn [targets In] in Hin; try lia.
        -- destruct (src_end_cause _ _ _ _ _ _ _ _ _ _ _ _ _ H Hp') as [E|[E|E]]; [lia| |apply KEEP; exact E|].
           ++ rewrite (h_not_cancelled _ _ V) in E. discriminate.
           ++ exfalso. destruct (hv_len _ V) as (_ & L). apply nth_error_None in E. lia.
        -- exfalso. destruct (send_err_cause _ _ _ _ _ _ _ _ _ _ _ _ _ H Hp') as [E|E]; [lia| |].
           ++ rewrite (h_not_cancelled _ _ V) in E. discriminate.
           ++ eapply (h_pump_sees_open s _ _ _ V Hc0); [lia|exact E].
        -- apply KEEP. eapply (hv_e _ V); eauto. right. split; auto. lia.
      * exfalso. destruct (h_pump_cur _ _ _ _ Hc) as [(_ & E1)|[(_ & E1)|[(_ & E1)|(_ & E1)]]]; inv E1. lia.
      * exfalso. apply h_pump_cur in Hc. intuition discriminate.
  - intros c' Hc' Hfin.
    assert (KEEP : drained s 0 -> drained s' 0) by (eapply drained_step; eauto).
    destruct Hfin as [Ed|(Er & Epc)].
    + destruct (done_from _ _ _ _ _ _ H Hc' Ed) as [Same|(pr & d & Hc)].
      * apply KEEP. eapply (hv_b _ V); eauto.
      * apply KEEP. pose proof (h_cons_cur _ _ _ _ Hc) as X. apply cur_instr_inv in Hc as (Hp & _ & Hr & _).
        destruct X as [(_ & E)|[(_ & E)|(E2 & _)]]; try discriminate. eapply (hv_b _ V); eauto.
    + destruct (pc_step _ _ _ _ _ _ H Hc' Er) as [Same|[(E0 & _)|[(arm & pr & d & i & -> & Hc & Hin)|[(q & pr & d & ch & g & ko & ke & kr & -> & Hc & E)|(q & pr & d & ch & g & ki & ke & kr & -> & Hc & E)]]]].
      * apply KEEP. eapply (hv_b _ V); eauto.
      * lia.
      * pose proof (h_cons_cur _ _ _ _ Hc) as X. cbn [step] in H. rewrite Hc in H. apply cur_instr_inv in Hc as (Hp & _ & Hr & _).
        destruct X as [(E0 & ->)|[(E0 & ->)|(E0 & ->)]]; cbn [targets In] in Hin; try lia.
        destruct (recv_end_cause _ _ _ _ _ _ _ _ _ _ _ _ _ H Hc') as [E|E]; [lia| |apply KEEP; exact E].
        rewrite (h_not_cancelled _ _ V) in E. discriminate.
      * exfalso. apply h_cons_cur in Hc. intuition discriminate.
      * exfalso. destruct (h_cons_cur _ _ _ _ Hc) as [(_ & E1)|[(_ & E1)|(_ & E1)]]; inv E1. lia.
Qed.

Lemma hv_init cap input : hv (chan_init cap input).
Proof.
  split.
  - intros p pr Hp. destruct p as [|[|p]]; cbn in Hp; [inv Hp; discriminate|inv Hp; discriminate|destruct p; discriminate].
  - intros p pr Hp. destruct p as [|[|p]]; cbn in Hp; [inv Hp; discriminate|inv Hp; discriminate|destruct p; discriminate].
  - split; reflexivity.
  - reflexivity.
  - reflexivity.
  - intros Hc. unfold chan_init in Hc. rewrite closedb_mk_init in Hc. discriminate.
  - intros pr Hp Hfin. cbn in Hp. inv Hp. cbn in Hfin. destruct Hfin as [E|(_ & E)]; [discriminate|lia].
  - intros pr Hp Hfin. cbn in Hp. inv Hp. cbn in Hfin. destruct Hfin as [E|(_ & E)]; [discriminate|lia].
  - intros c Hc Hfin. cbn in Hc. inv Hc. cbn in Hfin. destruct Hfin as [E|(_ & E)]; [discriminate|lia].
Qed.

Lemma hv_ireach cap input s : ireach CN (chan_init cap input) s -> hv s.
Proof.
  induction 1 as [|s l s' R IH Hi H]; [apply hv_init|]. eapply hv_step; eauto. apply ireach_reach. exact R.
Qed.

Theorem chan_complete cap input s :
  reach CN (chan_init cap input) s -> s_stopped s = false -> all_done s -> Permutation (s_deliv s) input.
Proof.
  intros R Hs (AD & _). pose proof (hv_ireach cap input s (reach_unstopped _ _ _ R Hs)) as V.
  pose proof (hinv_chan cap input s R) as HI.
  assert (I : ginv CN s) by (eapply ginv_reach; eauto using wf_chan_net, ginv_chan_init).
  assert (EX : forall p, p < 2 -> exists pr, nth_error (s_procs s) p = Some pr /\ p_st pr = PDone).
  { intros p Hp. destruct (nth_error (s_procs s) p) as [pr|] eqn:E.
    - exists pr. split; auto. destruct (p_st pr) eqn:Est; auto; exfalso; [eapply (hv_ns _ V); eauto|eapply AD; eauto|eapply (hv_na _ V); eauto].
    - exfalso. apply nth_error_None in E. rewrite (gi_len _ _ I) in E. cbn in E. lia. }
  destruct (EX 0) as (c & Hc & Dc); [lia|]. destruct (EX 1) as (pr & Hp & Dp); [lia|].
  destruct (hv_b _ V c Hc (or_introl Dc)) as (c0 & Hc0 & _ & Hb).
  pose proof (hv_e _ V pr Hp (or_introl Dp)) as Es.
  destruct (hv_len _ V) as (Lc & Ls).
  assert (Esrc : concat (s_srcs s) = []).
  { destruct (s_srcs s) as [|l0 [|]]; cbn in Ls; try lia. cbn in Es. inv Es. reflexivity. }
  assert (Ebuf : bufs (s_chans s) = []).
  { unfold bufs. destruct (s_chans s) as [|c1 [|]]; cbn in Lc; try lia. cbn in Hc0. inv Hc0. cbn. now rewrite Hb. }
  assert (Eh : hands (s_procs s) = []).
  { apply hands_none. intros q Hin. apply In_nth_error in Hin as (p & Hq).
    destruct (HI p q Hq) as [E|([E|E] & _)]; auto; exfalso; [eapply AD; eauto|eapply (hv_na _ V); eauto]. }
  pose proof (reach_conserves _ _ _ R) as P. unfold tokens in P at 1.
  rewrite Esrc, Ebuf, Eh, (hv_d _ V) in P. cbn [app] in P. rewrite app_nil_r in P.
  etransitivity; [exact P|]. unfold chan_init. rewrite tokens_mk_init; [cbn; now rewrite app_nil_r|reflexivity].
Qed.

Theorem chan_deadlock_free cap input s :
  reach CN (chan_init cap input) s -> s_stopped s = false -> quiescent CN s -> all_done s.
Proof.
  intros R Hs Q. pose proof (hv_ireach cap input s (reach_unstopped _ _ _ R Hs)) as V.
  assert (I : ginv CN s) by (eapply ginv_reach; eauto using wf_chan_net, ginv_chan_init).
  assert (STUCK : forall p pr d i, cur_instr CN s p = Some (pr, d, i) -> (exists arm s', step CN s (LStep p arm) = Some s') -> False).
  { intros p pr d i _ (arm & s' & E). rewrite (Q (LStep p arm) eq_refl) in E. discriminate. }
  assert (CUR : forall p pr, nth_error (s_procs s) p = Some pr -> p_st pr = PRun -> exists d i, cur_instr CN s p = Some (pr, d, i)).
  { intros p pr Hp Hr. destruct (nth_error (n_procs CN) p) as [d|] eqn:Hd.
    - pose proof (gi_pc _ _ I p pr d Hp Hd Hr) as Hpc.
      destruct (nth_error (d_prog d) (p_pc pr)) as [i|] eqn:Ei; [|apply nth_error_None in Ei; lia].
      exists d, i. apply cur_instr_mk; auto.
    - exfalso. apply nth_error_None in Hd. rewrite <- (gi_len _ _ I) in Hd.
      assert (p < length (s_procs s)) by (apply nth_error_Some; congruence). lia. }
  assert (EX : forall p, p < 2 -> exists pr, nth_error (s_procs s) p = Some pr).
  { intros p Hp. destruct (nth_error (s_procs s) p) as [pr|] eqn:E; [eauto|]. exfalso. apply nth_error_None in E. rewrite (gi_len _ _ I) in E. cbn in E. lia. }
  destruct (EX 0) as (c & Hc); [lia|]. destruct (EX 1) as (pr & Hp); [lia|].
  destruct (hv_len _ V) as (Lc & _).
  assert (CH : exists c0, nth_error (s_chans s) 0 = Some c0).
  { destruct (nth_error (s_chans s) 0) eqn:E; [eauto|]. apply nth_error_None in E. lia. }
  destruct CH as (c0 & Hc0).
  (* the pump is not running *)
  assert (Dp : p_st pr <> PRun).
  { intros Ep. destruct (CUR _ _ Hp Ep) as (dp & ip & Hpc).
    destruct (h_pump_cur _ _ _ _ Hpc) as [(_ & ->)|[(_ & ->)|[(_ & ->)|(_ & ->)]]];
      try (eapply STUCK; eauto; apply (enabled_noguard CN s _ _ _ _ Hpc); reflexivity).
    destruct (p_hand pr) as [v|] eqn:Eh; [|eapply STUCK; eauto; exists false; cbn [step]; rewrite Hpc; cbn [exec]; rewrite Eh; eauto].
    destruct (c_closed c0) eqn:Ecl; [eapply STUCK; eauto; exists false; cbn [step]; rewrite Hpc; cbn [exec]; rewrite Eh, Hc0, Ecl; eauto|].
    destruct (length (c_buf c0) <? c_cap c0) eqn:Eroom;
      [eapply STUCK; eauto; exists false; cbn [step]; rewrite Hpc; cbn [exec]; rewrite Eh, Hc0, Ecl, Eroom; eauto|].
    (* the channel is full: the receiver can take, or (capacity 0) meets the pump *)
    destruct (p_st c) eqn:Ec; [exact (hv_ns _ V 0 c Hc Ec)| | |exact (hv_na _ V 0 c Hc Ec)].
    - destruct (CUR _ _ Hc Ec) as (dc & ic & Hcc).
      destruct (h_cons_cur _ _ _ _ Hcc) as [(_ & ->)|[(_ & ->)|(_ & ->)]];
        try (eapply STUCK; eauto; apply (enabled_noguard CN s _ _ _ _ Hcc); reflexivity).
      destruct (c_buf c0) as [|x r] eqn:Eb;
        [|eapply STUCK; eauto; exists false; eexists; cbn [step]; rewrite Hcc; cbn [exec]; rewrite Hc0, Eb; reflexivity].
      cbn [length] in Eroom. apply Nat.ltb_ge in Eroom. assert (Ecap : c_cap c0 = 0) by lia.
      pose proof (Q (LRdv 1 0) eq_refl) as X. cbn [step] in X. rewrite Hpc, Hcc, Eh, Hc0, Ecap, Ecl in X. cbn in X. discriminate.
    - destruct (hv_b _ V c Hc (or_introl Ec)) as (c1 & Hc1 & Hcl1 & _). rewrite Hc0 in Hc1. inv Hc1. congruence. }
  assert (Dp' : p_st pr = PDone).
  { destruct (p_st pr) eqn:E; auto; exfalso; [exact (hv_ns _ V 1 pr Hp E)|apply Dp; reflexivity|exact (hv_na _ V 1 pr Hp E)]. }
  pose proof (hv_pd _ V pr Hp (or_introl Dp')) as Cl.
  assert (S3 : forall p q, nth_error (s_procs s) p = Some q -> p_st q <> PRun).
  { intros p q Hq Er. destruct (CUR _ _ Hq Er) as (d & i & Hcur). pose proof Hcur as Hcur0.
    apply cur_instr_inv in Hcur as (_ & Hd & _ & _). apply h_desc in Hd as [(-> & ->)|(-> & ->)].
    - destruct (h_cons_cur _ _ _ _ Hcur0) as [(_ & ->)|[(_ & ->)|(_ & ->)]];
        try (eapply STUCK; eauto; apply (enabled_noguard CN s _ _ _ _ Hcur0); reflexivity).
      unfold closedb in Cl. rewrite Hc0 in Cl.
      eapply STUCK; eauto. exists false. cbn [step]. rewrite Hcur0. cbn [exec]. rewrite Hc0. destruct (c_buf c0); [rewrite Cl|]; eauto.
    - rewrite Hp in Hq. inv Hq. congruence. }
  split; [exact S3|].
  destruct (s_oncew s) as [|q] eqn:Eo; auto. exfalso.
  destruct (gi_once _ _ I) as (po & Hpo & Hnsp); [lia|].
  assert (Hd : is_done s (n_once CN) = true).
  { unfold is_done. rewrite Hpo. destruct (p_st po) eqn:Est; auto; [exfalso; eapply S3; eauto|exfalso; eapply (hv_na _ V); eauto]. }
  pose proof (Q LOnceRel eq_refl) as Hs0. cbn [step] in Hs0. rewrite Eo, Hd in Hs0. discriminate.
Qed.

Theorem chan_finite_input_eof cap input s :
  reach CN (chan_init cap input) s -> s_stopped s = false -> quiescent CN s -> all_done s /\ Permutation (s_deliv s) input.
Proof. intros R Hs Q. pose proof (chan_deadlock_free cap input s R Hs Q) as A. split; auto. eapply chan_complete; eauto. Qed.
