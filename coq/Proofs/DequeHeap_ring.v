(* Ring invariant of the pointer-level deque model and the two splices (insert after, unlink). *)
From FunV Require Import Base.Tac Base.ListX Model.DequeHeap.

(* ------------------------------------------------------------------ heap *)

Lemma upd_same h a n : upd h a n a = n.
Proof. unfold upd. rewrite Nat.eqb_refl. reflexivity. Qed.

Lemma upd_other h a n b : b <> a -> upd h a n b = h b.
Proof. unfold upd. intros. destruct (Nat.eqb_spec b a); congruence. Qed.

Lemma next_set_next h a x b : next (set_next h a x b) = if Nat.eqb b a then x else next (h b).
Proof. unfold set_next, upd. destruct (Nat.eqb b a); reflexivity. Qed.
Lemma prev_set_next h a x b : prev (set_next h a x b) = prev (h b).
Proof. unfold set_next, upd. destruct (Nat.eqb_spec b a); subst; reflexivity. Qed.
Lemma item_set_next h a x b : item (set_next h a x b) = item (h b).
Proof. unfold set_next, upd. destruct (Nat.eqb_spec b a); subst; reflexivity. Qed.
Lemma next_set_prev h a x b : next (set_prev h a x b) = next (h b).
Proof. unfold set_prev, upd. destruct (Nat.eqb_spec b a); subst; reflexivity. Qed.
Lemma prev_set_prev h a x b : prev (set_prev h a x b) = if Nat.eqb b a then x else prev (h b).
Proof. unfold set_prev, upd. destruct (Nat.eqb b a); reflexivity. Qed.
Lemma item_set_prev h a x b : item (set_prev h a x b) = item (h b).
Proof. unfold set_prev, upd. destruct (Nat.eqb_spec b a); subst; reflexivity. Qed.
Lemma next_upd h a nd b : next (upd h a nd b) = if Nat.eqb b a then next nd else next (h b).
Proof. unfold upd. destruct (Nat.eqb b a); reflexivity. Qed.
Lemma prev_upd h a nd b : prev (upd h a nd b) = if Nat.eqb b a then prev nd else prev (h b).
Proof. unfold upd. destruct (Nat.eqb b a); reflexivity. Qed.
Lemma item_upd h a nd b : item (upd h a nd b) = if Nat.eqb b a then item nd else item (h b).
Proof. unfold upd. destruct (Nat.eqb b a); reflexivity. Qed.
Lemma eqb_ne a b : a <> b -> Nat.eqb a b = false.
Proof. intros. destruct (Nat.eqb_spec a b); congruence. Qed.

Ltac hrw := repeat (rewrite ?next_set_next, ?prev_set_next, ?item_set_next, ?next_set_prev, ?prev_set_prev, ?item_set_prev,
                     ?next_upd, ?prev_upd, ?item_upd, ?Nat.eqb_refl; simpl).
Ltac eqcases := repeat (match goal with
          | |- context [Nat.eqb ?a ?b] => destruct (Nat.eqb_spec a b); simpl; subst; try congruence; try lia
          end).
Ltac heap_cases := hrw; eqcases; try reflexivity; try congruence.

(* ------------------------------------------------------------------ cyclic pairs *)

(* consecutive pairs of l, the last element paired with f *)
Fixpoint cp (f : nat) (l : list nat) : list (nat * nat) :=
  match l with
  | [] => []
  | x :: t => (x, hd f t) :: cp f t
  end.

Definition cpairs (l : list nat) : list (nat * nat) := cp (hd ROOT l) l.

Definition link_ok (h : heap) (p : nat * nat) : Prop :=
  next (h (fst p)) = snd p /\ prev (h (snd p)) = fst p.

(* the cycle cyc: no address twice; next/prev agree along it and around the end *)
Definition ring (h : heap) (cyc : list nat) : Prop :=
  NoDup cyc /\ Forall (link_ok h) (cpairs cyc).

Lemma hd_app_one (f x : nat) (l : list nat) : hd f (l ++ [x]) = hd x l.
Proof. destruct l; reflexivity. Qed.

Lemma cp_app_one f l x : cp f (l ++ [x]) = cp x l ++ [(x, f)].
Proof.
  induction l as [|y t IH]; simpl; [reflexivity|].
  rewrite IH, hd_app_one. reflexivity.
Qed.

Lemma cp_fst f l a b : In (a, b) (cp f l) -> In a l.
Proof.
  induction l as [|x t IH]; simpl; [tauto|].
  intros [E|H]; [inversion E; auto|auto].
Qed.

Lemma cp_snd f l a b : In (a, b) (cp f l) -> In b (tl l) \/ b = f.
Proof.
  induction l as [|x t IH]; simpl; [tauto|].
  intros [E|H].
  - inversion E; subst. destruct t; simpl; auto.
  - destruct (IH H) as [H1|H1]; [|auto]. left. destruct t; simpl in *; [tauto|auto].
Qed.

Lemma cpairs_cons x l : cpairs (x :: l) = (x, hd x l) :: cp x l.
Proof. reflexivity. Qed.

Lemma cpairs_snoc x l : cpairs (l ++ [x]) = cp x l ++ [(x, hd x l)].
Proof. unfold cpairs. rewrite cp_app_one, hd_app_one. reflexivity. Qed.

Lemma ring_rot h x l : ring h (x :: l) <-> ring h (l ++ [x]).
Proof.
  unfold ring. rewrite cpairs_cons, cpairs_snoc, Forall_app, !Forall_cons_iff.
  assert (P : NoDup (x :: l) <-> NoDup (l ++ [x])).
  { split; intros N; (eapply Permutation_NoDup; [|exact N]);
      [apply Permutation_cons_append|symmetry; apply Permutation_cons_append]. }
  rewrite P. split.
  - intros [N [F1 F2]]. repeat split; try assumption; try apply F1. constructor.
  - intros [N [F1 [F2 _]]]. repeat split; try assumption; apply F2.
Qed.

Lemma ring_rot_app h a : forall b, ring h (a ++ b) -> ring h (b ++ a).
Proof.
  induction a as [|x a IH]; intros b H; simpl in *.
  - rewrite app_nil_r. assumption.
  - apply ring_rot in H. rewrite <- app_assoc in H. apply IH in H.
    rewrite <- app_assoc in H. exact H.
Qed.

Lemma link_ok_frame h h' c d :
  next (h' c) = next (h c) -> prev (h' d) = prev (h d) -> link_ok h (c, d) -> link_ok h' (c, d).
Proof. unfold link_ok; simpl. intros -> ->. tauto. Qed.

(* ------------------------------------------------------------------ insert after *)

Section Ins.
Variables (h : heap) (e n : nat) (v : Z).
Hypothesis Hne : n <> e.
Hypothesis Hns : n <> next (h e).

Lemma ins_next a : next (ins_after h e n v a) =
  if Nat.eqb a n then next (h e) else if Nat.eqb a e then n else next (h a).
Proof. unfold ins_after. cbv zeta. hrw. rewrite (eqb_ne e n) by congruence. hrw. eqcases. Qed.

Lemma ins_prev a : prev (ins_after h e n v a) =
  if Nat.eqb a n then e else if Nat.eqb a (next (h e)) then n else prev (h a).
Proof.
  unfold ins_after. cbv zeta. hrw. rewrite ?(eqb_ne e n), ?(eqb_ne n e) by congruence. hrw.
  rewrite ?(eqb_ne e n), ?(eqb_ne n e) by congruence. hrw. eqcases.
Qed.

Lemma ins_item a : item (ins_after h e n v a) = if Nat.eqb a n then v else item (h a).
Proof. unfold ins_after. cbv zeta. hrw. reflexivity. Qed.
End Ins.

Lemma ring_head h e t : ring h (e :: t) -> next (h e) = hd e t /\ prev (h (hd e t)) = e.
Proof. intros [_ F]. rewrite cpairs_cons in F. inversion F; subst. assumption. Qed.

Lemma hd_in_or (e : nat) t : hd e t = e /\ t = [] \/ In (hd e t) t.
Proof. destruct t; simpl; auto. Qed.

Lemma ins_after_ring h e t n v :
  ring h (e :: t) -> ~ In n (e :: t) -> ring (ins_after h e n v) (e :: n :: t).
Proof.
  intros R Hn. destruct (ring_head _ _ _ R) as [Hs _]. destruct R as [N F].
  assert (Hne : n <> e) by (intros ->; apply Hn; left; reflexivity).
  assert (Hns : n <> next (h e)).
  { rewrite Hs. intros E. apply Hn. destruct (hd_in_or e t) as [[E1 _]|I]; [left; congruence|right; congruence]. }
  split.
  - inversion N; subst. constructor.
    + intros [E|I]; [congruence|auto].
    + constructor; [intros I; apply Hn; right; assumption|assumption].
  - rewrite cpairs_cons in F. inversion F as [|? ? _ F']; subst.
    change (cpairs (e :: n :: t)) with ((e, n) :: (n, hd e t) :: cp e t).
    constructor; [|constructor].
    + split; simpl.
      * rewrite ins_next by assumption. heap_cases.
      * rewrite ins_prev by assumption. heap_cases.
    + split; simpl.
      * rewrite ins_next by assumption. heap_cases.
      * rewrite ins_prev by assumption. rewrite <- Hs. heap_cases.
    + rewrite Forall_forall in *. intros [c d] I. specialize (F' _ I).
      pose proof (cp_fst _ _ _ _ I) as Ic. pose proof (cp_snd _ _ _ _ I) as Id.
      inversion N as [|? ? Ne Nt]; subst.
      assert (c <> e) by (intros ->; auto).
      assert (c <> n) by (intros ->; apply Hn; right; assumption).
      assert (d <> n).
      { intros ->. apply Hn. destruct Id as [Id| ->]; [right|left; reflexivity]. destruct t; [destruct Id|right; exact Id]. }
      assert (d <> next (h e)).
      { rewrite Hs. destruct t as [|s t']; [destruct I|]. simpl hd. simpl tl in Id.
        inversion Nt as [|? ? Ns _]; subst. destruct Id as [Id| ->].
        - intros ->. apply Ns. assumption.
        - intros E. apply Ne. left. congruence. }
      apply (link_ok_frame h); [| |assumption].
      * rewrite ins_next by assumption. heap_cases.
      * rewrite ins_prev by assumption. heap_cases.
Qed.

(* ------------------------------------------------------------------ unlink *)

Section Unl.
Variables (h : heap) (it : nat).
Hypothesis Hp : prev (h it) <> it.

Lemma unl_next a : next (unlink h it a) = if Nat.eqb a (prev (h it)) then next (h it) else next (h a).
Proof. unfold unlink. cbv zeta. hrw. reflexivity. Qed.

Lemma unl_prev a : prev (unlink h it a) = if Nat.eqb a (next (h it)) then prev (h it) else prev (h a).
Proof. unfold unlink. cbv zeta. hrw. rewrite (eqb_ne it (prev (h it))) by congruence. reflexivity. Qed.

Lemma unl_item a : item (unlink h it a) = item (h a).
Proof. unfold unlink. cbv zeta. hrw. reflexivity. Qed.
End Unl.

Lemma unlink_ring h p it t : ring h (p :: it :: t) -> ring (unlink h it) (p :: t).
Proof.
  intros [N F].
  change (cpairs (p :: it :: t)) with ((p, it) :: (it, hd p t) :: cp p t) in F.
  apply Forall_cons_iff in F. destruct F as [[_ L1] F1].
  apply Forall_cons_iff in F1. destruct F1 as [[L2 _] F2]. simpl in L1, L2.
  apply NoDup_cons_iff in N. destruct N as [Np N1]. apply NoDup_cons_iff in N1. destruct N1 as [Nit Nt].
  assert (Hp : prev (h it) <> it) by (rewrite L1; intros ->; apply Np; left; reflexivity).
  split.
  - constructor; [intros I; apply Np; right; assumption|assumption].
  - rewrite cpairs_cons. constructor.
    + split; simpl.
      * rewrite unl_next by assumption. rewrite L1, L2. heap_cases.
      * rewrite unl_prev by assumption. rewrite L1, L2. heap_cases.
    + rewrite Forall_forall in *. intros [c d] I. specialize (F2 _ I).
      pose proof (cp_fst _ _ _ _ I) as Ic. pose proof (cp_snd _ _ _ _ I) as Id.
      assert (c <> p) by (intros ->; apply Np; right; assumption).
      assert (d <> hd p t).
      { destruct t as [|s t']; [destruct I|]. simpl hd. simpl tl in Id.
        inversion Nt as [|? ? Ns _]; subst. destruct Id as [Id| ->].
        - intros ->. apply Ns. assumption.
        - intros E. apply Np. right. left. congruence. }
      apply (link_ok_frame h); [| |assumption].
      * rewrite unl_next by assumption. rewrite L1. heap_cases.
      * rewrite unl_prev by assumption. rewrite L2. heap_cases.
Qed.

(* ------------------------------------------------------------------ rings through the root *)

Lemma last_snoc (l : list nat) (x d : nat) : last (l ++ [x]) d = x.
Proof. apply last_last. Qed.

Lemma root_next h l : ring h (ROOT :: l) -> next (h ROOT) = hd ROOT l.
Proof. intros R. apply (ring_head _ _ _ R). Qed.

Lemma root_prev h l : ring h (ROOT :: l) -> prev (h ROOT) = last l ROOT.
Proof.
  intros R. destruct (list_snoc_cases l) as [->|(l' & b & ->)].
  - destruct (ring_head _ _ _ R) as [_ H]. exact H.
  - rewrite last_snoc. change (ROOT :: l' ++ [b]) with ((ROOT :: l') ++ [b]) in R.
    apply ring_rot in R. destruct (ring_head _ _ _ R) as [_ H]. exact H.
Qed.

Lemma hd_root_nil l : ~ In ROOT l -> hd ROOT l = ROOT -> l = [].
Proof. destruct l; simpl; [reflexivity|]. intros H E. exfalso. apply H. left. assumption. Qed.

Lemma last_root_nil l : ~ In ROOT l -> last l ROOT = ROOT -> l = [].
Proof.
  destruct (list_snoc_cases l) as [->|(l' & b & ->)]; [reflexivity|].
  rewrite last_snoc. intros H ->. exfalso. apply H. apply in_or_app. right. left. reflexivity.
Qed.

Lemma ring_root_notin h l : ring h (ROOT :: l) -> ~ In ROOT l.
Proof. intros [N _]. inversion N; assumption. Qed.

(* push at the front / at the back *)
Lemma push_front_ring h l n v :
  ring h (ROOT :: l) -> ~ In n (ROOT :: l) -> ring (ins_after h ROOT n v) (ROOT :: n :: l).
Proof. apply ins_after_ring. Qed.

Lemma push_back_ring h l n v :
  ring h (ROOT :: l) -> ~ In n (ROOT :: l) -> ring (ins_after h (last l ROOT) n v) (ROOT :: l ++ [n]).
Proof.
  intros R Hn. destruct (list_snoc_cases l) as [->|(l' & e & ->)].
  - simpl. apply ins_after_ring; assumption.
  - rewrite last_snoc.
    change (ROOT :: l' ++ [e]) with ((ROOT :: l') ++ [e]) in R.
    apply ring_rot in R.
    assert (Hn' : ~ In n (e :: ROOT :: l')).
    { intros I. apply Hn. simpl in *. rewrite in_app_iff. simpl. tauto. }
    pose proof (ins_after_ring _ _ _ _ v R Hn') as R'.
    change (e :: n :: ROOT :: l') with ([e; n] ++ (ROOT :: l')) in R'.
    apply ring_rot_app in R'. simpl in R'. rewrite <- app_assoc. exact R'.
Qed.

(* pop at the front / at the back *)
Lemma pop_front_ring h it l : ring h (ROOT :: it :: l) -> ring (unlink h it) (ROOT :: l).
Proof. apply unlink_ring. Qed.

Lemma pop_back_ring h it l : ring h (ROOT :: l ++ [it]) -> ring (unlink h it) (ROOT :: l).
Proof.
  intros R. destruct (list_snoc_cases l) as [->|(l' & p & ->)].
  - simpl in R. apply unlink_ring in R. exact R.
  - replace (ROOT :: (l' ++ [p]) ++ [it]) with ((ROOT :: l') ++ [p; it]) in R
      by (simpl; rewrite <- app_assoc; reflexivity).
    apply ring_rot_app in R. simpl in R.
    apply unlink_ring in R. apply ring_rot in R. exact R.
Qed.

(* ------------------------------------------------------------------ walking the ring *)

Lemma walk_next_path h : forall t a fuel,
  Forall (link_ok h) (cp ROOT (a :: t)) -> ~ In ROOT t -> (length t <= fuel)%nat ->
  walk_next h a fuel = map (fun x => item (h x)) t.
Proof.
  induction t as [|b t IH]; intros a fuel F NI L.
  - simpl in F. inversion F as [|? ? [E _] _]; subst. simpl in E.
    destruct fuel; simpl; [reflexivity|]. rewrite E. reflexivity.
  - destruct fuel as [|fuel]; [simpl in L; lia|].
    change (cp ROOT (a :: b :: t)) with ((a, b) :: cp ROOT (b :: t)) in F.
    inversion F as [|? ? [E _] F']; subst. simpl in E.
    simpl. rewrite E.
    destruct (Nat.eqb_spec b ROOT) as [->|_]; [exfalso; apply NI; left; reflexivity|].
    f_equal. apply IH; [assumption| |simpl in L; lia].
    intros I. apply NI. right. assumption.
Qed.

Lemma NoDup_bounded_length (l : list nat) n : NoDup l -> (forall a, In a l -> (a < n)%nat) -> (length l <= n)%nat.
Proof.
  intros N B. rewrite <- (seq_length n 0). apply NoDup_incl_length; [assumption|].
  intros a I. apply in_seq. specialize (B a I). lia.
Qed.

Lemma walk_next_ring h l fuel :
  ring h (ROOT :: l) -> (length l <= fuel)%nat -> walk_next h ROOT fuel = map (fun x => item (h x)) l.
Proof.
  intros R L. apply walk_next_path; [|apply (ring_root_notin _ _ R)|assumption].
  destruct R as [_ F]. exact F.
Qed.


(* the backward walk: a pair (c, d) of the cycle says prev d = c *)
Lemma walk_prev_path h : forall t a fuel,
  Forall (link_ok h) (cp a (ROOT :: t)) -> ~ In ROOT t -> (length t <= fuel)%nat ->
  walk_prev h a fuel = rev (map (fun x => item (h x)) t).
Proof.
  induction t as [|b t IH] using rev_ind; intros a fuel F NI L.
  - simpl in F. inversion F as [|? ? [_ E] _]; subst. simpl in E.
    destruct fuel; simpl; [reflexivity|]. rewrite E. reflexivity.
  - change (ROOT :: t ++ [b]) with ((ROOT :: t) ++ [b]) in F. rewrite cp_app_one in F.
    apply Forall_app in F. destruct F as [F1 F2]. inversion F2 as [|? ? [_ E] _]; subst. simpl in E.
    rewrite app_length in L. simpl in L. destruct fuel as [|fuel]; [lia|].
    simpl. rewrite E.
    destruct (Nat.eqb_spec b ROOT) as [->|_]; [exfalso; apply NI; apply in_or_app; right; left; reflexivity|].
    rewrite map_app, rev_app_distr. simpl. f_equal.
    apply IH; [assumption| |lia]. intros I. apply NI. apply in_or_app. left. assumption.
Qed.

Lemma walk_prev_ring h l fuel :
  ring h (ROOT :: l) -> (length l <= fuel)%nat -> walk_prev h ROOT fuel = rev (map (fun x => item (h x)) l).
Proof.
  intros R L. apply walk_prev_path; [|apply (ring_root_notin _ _ R)|assumption].
  destruct R as [_ F]. exact F.
Qed.
