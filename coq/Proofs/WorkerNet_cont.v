(* Continue mode on the refined networks (Process / Map / Generate): every terminated run has
   processed each item exactly once, reports exactly the reportable failures, and (Map / Generate)
   has delivered exactly the outputs of the items that succeeded — nothing abandoned. *)
From FunV Require Import Base.Tac Base.ListX Model.WorkerConf Model.WorkerGroup Model.WorkerNet
  Proofs.WorkerConf_table Proofs.WorkerGroup_inv Proofs.WorkerNet_inv.
Open Scope nat_scope.

Definition no_vfailed (w : wst) : bool := match w with VFailed => false | _ => true end.

Lemma ex_vdone_set i w' l : existsb vdone (set_nth i w' l) = true -> vdone w' = false -> existsb vdone l = true.
Proof.
  revert i; induction l as [|a l IH]; intros [|i] H Hw; simpl in *; try discriminate.
  - rewrite Hw in H. simpl in H. rewrite H. apply orb_true_r.
  - apply orb_prop in H. destruct H as [H|H]; [rewrite H; reflexivity|]. rewrite (IH _ H Hw). apply orb_true_r.
Qed.

Lemma all_vdone_nth l i w : forallb vdone l = true -> nth_error l i = Some w -> w = VDone.
Proof.
  revert i; induction l as [|a l IH]; intros [|i] H E; simpl in *; try discriminate; apply andb_prop in H; destruct H as [H1 H2].
  - inv E. destruct w; try discriminate. reflexivity.
  - eauto.
Qed.

Lemma all_vdone_ex l : l <> [] -> forallb vdone l = true -> existsb vdone l = true.
Proof. destruct l as [|a l]; [congruence|]. simpl. intros _ H. apply andb_prop in H. destruct H as [H _]. rewrite H. reflexivity. Qed.

Lemma no_vfailed_nth l j : forallb no_vfailed l = true -> nth_error l j = Some VFailed -> False.
Proof.
  revert j; induction l as [|a l IH]; intros [|j] G1 G2; simpl in *; try discriminate.
  - inv G2. discriminate.
  - apply andb_prop in G1. destruct G1. eauto.
Qed.

Section Cont.
Variable c : conf.
Variable gen has_out : bool.
Variable cap : nat.
Variable f : Z -> outcome.
Variable n : nat.
Variable input : list Z.
Hypothesis n_pos : n >= 1.
Hypothesis all_continue : forall x, In x input -> continue (decision_of c f x) = true.

Notation exec := (WorkerNet.exec c gen has_out cap f).
Notation init := (WorkerNet.init gen).
Notation reach := (WorkerNet_inv.reach c gen has_out cap f).

Ltac exec_inv H :=
  unfold WorkerNet.exec in H;
  repeat match type of H with
  | context [recover_wrapper (run_user ?o)] => rewrite (recover_returns o) in H
  | context [match ?x with _ => _ end] => destruct x eqn:?; try discriminate H
  end;
  inv H.

Definition src_empty (s : st) : Prop := spl s = SDone /\ inp s = [].

Definition inv_cont (s : st) : Prop :=
  failed s = false /\ forallb no_vfailed (wk s) = true /\ lost s = [] /\ drop s = [] /\
  (closed s = true -> spl s = SDone) /\
  (gen = false -> spl s = SDone -> inp s = []) /\
  (gen = true -> spl s = SDone) /\
  (existsb vdone (wk s) = true -> src_empty s) /\
  (canc s = true -> forallb vdone (wk s) = true /\ src_empty s).

Ltac fwd :=
  intros;
  repeat match goal with
  | H : ?x = ?x -> _ |- _ => specialize (H eq_refl)
  | H : ?P -> _, E : ?P |- _ => specialize (H E)
  | H : _ /\ _ |- _ => destruct H
  | Ha : forallb vdone (wk ?s) = true, E : nth_error (wk ?s) ?i = Some ?w |- _ =>
      pose proof (all_vdone_nth _ _ _ Ha E); discriminate
  | Hw : forallb no_vfailed (wk ?s) = true, E : nth_error (wk ?s) ?i = Some VFailed |- _ =>
      exfalso; exact (no_vfailed_nth _ _ Hw E)
  end;
  try congruence; auto.

Ltac pose_ex s :=
  try match goal with |- context [set_nth ?i ?w (wk s)] =>
    assert (existsb vdone (set_nth i w (wk s)) = true -> existsb vdone (wk s) = true)
      by (let G := fresh in intros G; apply ex_vdone_set in G; auto)
  end.

Lemma inv_cont_step s l s' : reach (init n input) s -> inv_cont s -> exec s l = Some s' -> inv_cont s'.
Proof.
  intros R (Hf & Hw & Hl & Hd & Hcl & Hg0 & Hg1 & He & Hc) H.
  assert (Ne : wk s <> []).
  { pose proof (wk_length _ _ _ _ _ _ _ _ R) as Len. intros E. rewrite E in Len. simpl in Len. lia. }
  assert (K : forall i x, nth_error (wk s) i = Some (VBusy x) -> continue (can_continue c (with_recover (f x))) = true).
  { intros i x E. apply all_continue. eapply vbusy_in_input; eauto. }
  clear R.
  unfold inv_cont, src_empty in *.
  destruct l; exec_inv H; simpl;
    try (match goal with E : nth_error (wk s) ?i = Some (VBusy ?x) |- _ => specialize (K _ _ E) end);
    try congruence;
    try (exfalso; solve [fwd]);
    pose_ex s;
    repeat split; try (apply forallb_set_nth); try solve [fwd].
  (* KClose *)
  all: try (apply andb_prop in Heqb; destruct Heqb as [Ha _]; pose proof (He (all_vdone_ex _ Ne Ha)); solve [fwd]).
Qed.

Lemma inv_cont_reach s : reach (init n input) s -> inv_cont s.
Proof.
  induction 1 as [|s l s' R IH H].
  - unfold inv_cont, src_empty, WorkerNet.init. simpl.
    assert (A : forallb no_vfailed (repeat VLoop n) = true) by (clear; induction n; simpl; auto).
    assert (B : existsb vdone (repeat VLoop n) = false) by (clear; induction n; simpl; auto).
    rewrite B. repeat split; auto; try discriminate; destruct gen; auto; discriminate.
  - eapply inv_cont_step; eauto.
Qed.

Theorem net_continue_mode_complete s :
  reach (init n input) s -> terminated s = true ->
  Permutation (proc s) input /\
  drop s = [] /\ lost s = [] /\ failed s = false /\
  (forall x xe, In x input -> In xe (recorded c f x) -> In xe (res s)) /\
  (forall xe, In xe (res s) -> In (fst xe) input /\ In xe (recorded c f (fst xe))) /\
  (res s = [] <-> forall x, In x input -> reportable c f x = false) /\
  (has_out = true -> Permutation (delivered s) (filter (succ f) input)).
Proof.
  intros R T. destruct (inv_cont_reach _ R) as (Hf & Hw & Hl & Hd & Hcl & Hg0 & Hg1 & He & Hc).
  unfold terminated in T. apply andb_prop in T. destruct T as [T To]. apply andb_prop in T. destruct T as [T Tc].
  apply andb_prop in T. destruct T as [Ts Ta].
  pose proof (wk_length _ _ _ _ _ _ _ _ R) as Len.
  assert (Ne : wk s <> []) by (intros E; rewrite E in Len; simpl in Len; lia).
  destruct (He (all_vdone_ex _ Ne Ta)) as (Es & Ei).
  assert (P : Permutation (proc s) input).
  { pose proof (net_token_conservation _ _ _ _ _ _ _ _ R) as TC.
    unfold vbusy in TC. rewrite (forallb_vdone_flat vbusyw _ eq_refl Ta), Es, Ei, Hd in TC. simpl in TC. rewrite app_nil_r in TC. exact TC. }
  split; [exact P|]. split; [exact Hd|]. split; [exact Hl|]. split; [exact Hf|].
  pose proof (net_result_contains_exactly_processed_failures _ _ _ _ _ _ _ _ R) as RC.
  split; [|split; [|split]].
  - intros x xe Hx Hxe. apply RC. rewrite (recorded_fst _ _ _ _ Hxe). split; auto.
    eapply Permutation_in; [symmetry; exact P|exact Hx].
  - intros xe Hxe. apply RC in Hxe. destruct Hxe as [H1 H2]. split; auto. eapply Permutation_in; eauto.
  - rewrite (net_result_nil_iff_no_reportable_failure _ _ _ _ _ _ _ _ R). split; intros G x Hx; apply G.
    + eapply Permutation_in; [symmetry; exact P|exact Hx].
    + eapply Permutation_in; eauto.
  - intros Ho. pose proof (net_output_conservation _ _ _ _ _ _ _ _ Ho R) as OC.
    unfold vsending in OC. rewrite (forallb_vdone_flat vsendw _ eq_refl Ta), Hl in OC.
    destruct (out s); [|discriminate]. simpl in OC. rewrite app_nil_r in OC.
    rewrite OC. clear -P. induction P; simpl; auto.
    + destruct (succ f x); auto.
    + destruct (succ f x), (succ f y); auto. apply perm_swap.
    + eapply perm_trans; eauto.
Qed.

End Cont.
