(* C19: the exact boundary of New's termination.  For sigfigs in 1..5 and 1 <= min <= max < 2^63
   (any int64 max), New returns iff max < 2^62 and floor(log2 min) + subBucketCountMagnitude <= 62
   (= shape_ok); otherwise smallestUntrackableValue wraps to 0 (directly, or through -2^63) and the
   bucket-count loop `for suv <= max { suv <<= 1 }` never ends: the model's fuelled loop runs out of
   fuel, and does so for EVERY amount of fuel. *)
From FunV Require Import Base.Tac Model.Hdr Proofs.Hdr_bits Proofs.Hdr_geom.
Local Open Scope Z_scope.

Lemma loop_zero hi : 0 <= hi -> forall fuel n, bucket_loop fuel hi 0 n = None.
Proof.
  intros Hh. induction fuel as [|f IH]; intros n; [reflexivity|]. cbn [bucket_loop].
  destruct (0 <=? hi) eqn:E; [|lia]. change (shl64 0 1) with 0. apply IH.
Qed.

Lemma loop_min hi : 0 <= hi -> forall fuel n, bucket_loop fuel hi (- 2 ^ 63) n = None.
Proof.
  intros Hh [|f] n; [reflexivity|]. cbn [bucket_loop].
  destruct (- 2 ^ 63 <=? hi) eqn:E; [|lia]. change (shl64 (- 2 ^ 63) 1) with 0. apply loop_zero. assumption.
Qed.

Lemma loop_pow hi : 2 ^ 62 <= hi -> forall fuel j n, 0 <= j <= 62 -> bucket_loop fuel hi (2 ^ j) n = None.
Proof.
  intros Hh. assert (0 < 2 ^ 62) by (apply pow2_gt0; lia).
  induction fuel as [|f IH]; intros j n Hj; [reflexivity|]. cbn [bucket_loop].
  assert (2 ^ j <= 2 ^ 62) by (apply pow2_le; lia).
  destruct (2 ^ j <=? hi) eqn:E; [|lia].
  destruct (Z.eq_dec j 62) as [->|].
  - change (shl64 (2 ^ 62) 1) with (- 2 ^ 63). apply loop_min. lia.
  - assert (Hs : 2 ^ j * 2 ^ 1 = 2 ^ (j + 1)) by (rewrite pow2_add by lia; reflexivity).
    assert (2 ^ (j + 1) <= 2 ^ 62) by (apply pow2_le; lia).
    assert (2 ^ 62 < 2 ^ 63) by (apply pow2_lt; lia).
    assert (0 < 2 ^ (j + 1)) by (apply pow2_gt0; lia).
    rewrite shl64_spec; [|lia|rewrite Hs; lia]. rewrite Hs. apply IH. lia.
Qed.

Lemma wrap64_pow_ge64 k : 64 <= k -> wrap64 (2 ^ k) = 0.
Proof.
  intros Hk. rewrite wrap64_mod. replace k with (64 + (k - 64)) by lia. rewrite pow2_add by lia.
  rewrite Z.add_comm, Z.mul_comm, Z_mod_plus_full. reflexivity.
Qed.

(* the loop New runs, for any fuel: it starts from smallestUntrackableValue = int64(subBucketCount) << unit *)
Lemma new_hist_loop lo hi sig : 1 <= sig <= 5 -> 1 <= lo < 2 ^ 63 ->
  bucket_loop 70 hi (wrap64 (2 ^ (scm_of sig + Z.log2 lo))) 1 = None -> new_hist lo hi sig = Diverge.
Proof.
  intros Hs Hlo Hloop.
  pose proof (scm_range sig Hs) as Hm. set (m := scm_of sig) in *.
  assert (Hu : 0 <= Z.log2 lo) by apply Z.log2_nonneg.
  assert (Hu63 : Z.log2 lo < 63) by (apply Z.log2_lt_pow2; lia). set (u := Z.log2 lo) in *.
  unfold new_hist.
  destruct ((sig <? 1) || (5 <? sig)) eqn:E0; [lia|].
  fold m.
  assert (E1 : wrap32 (Z.max m 1 - 1) = m - 1).
  { rewrite wrap32_id; [lia|]. assert (2 ^ 31 = 2147483648) by reflexivity. lia. }
  rewrite E1.
  assert (E2 : Z.max (wrap32 (bitLen lo - 1)) 0 = u).
  { rewrite bitlen_spec by lia. fold u. rewrite wrap32_id; [lia|].
    assert (2 ^ 31 = 2147483648) by reflexivity. lia. }
  rewrite E2.
  replace (m - 1 + 1) with m by lia.
  assert (P18 : 2 ^ m <= 2 ^ 18) by (apply pow2_le; lia).
  assert (P5 : 2 ^ 5 <= 2 ^ m) by (apply pow2_le; lia).
  assert (E3 : wrap32 (2 ^ m) = 2 ^ m).
  { apply wrap32_id. change (2 ^ 18) with 262144 in P18. change (2 ^ 5) with 32 in P5.
    change (2 ^ 31) with 2147483648. lia. }
  rewrite E3.
  assert (E7 : shl64 (2 ^ m) u = wrap64 (2 ^ (m + u))).
  { unfold shl64. destruct ((u <? 0) || (64 <=? u)) eqn:E; [lia|].
    rewrite Z.shiftl_mul_pow2 by lia. rewrite <- pow2_add by lia. reflexivity. }
  rewrite E7, Hloop. reflexivity.
Qed.

Theorem new_terminates_iff lo hi sig :
  1 <= sig <= 5 -> 1 <= lo -> lo <= hi -> hi < 2 ^ 63 ->
  (hi < 2 ^ 62 /\ Z.log2 lo + scm_of sig <= 62 -> exists h, new_hist lo hi sig = Ok h) /\
  (2 ^ 62 <= hi \/ 62 < Z.log2 lo + scm_of sig -> new_hist lo hi sig = Diverge) /\
  (* ... and no amount of fuel would help: the real loop does not terminate *)
  (2 ^ 62 <= hi \/ 62 < Z.log2 lo + scm_of sig ->
   forall fuel, bucket_loop fuel hi (wrap64 (2 ^ (scm_of sig + Z.log2 lo))) 1 = None).
Proof.
  intros Hs Hlo Hle Hhi.
  pose proof (scm_range sig Hs) as Hm.
  assert (Hu : 0 <= Z.log2 lo) by apply Z.log2_nonneg.
  assert (Hu63 : Z.log2 lo < 63) by (apply Z.log2_lt_pow2; lia).
  assert (Never : 2 ^ 62 <= hi \/ 62 < Z.log2 lo + scm_of sig ->
                  forall fuel, bucket_loop fuel hi (wrap64 (2 ^ (scm_of sig + Z.log2 lo))) 1 = None).
  { intros Bad fuel.
    destruct (Z.le_gt_cases 64 (scm_of sig + Z.log2 lo)) as [H64|H64].
    - rewrite wrap64_pow_ge64 by assumption. apply loop_zero. lia.
    - destruct (Z.eq_dec (scm_of sig + Z.log2 lo) 63) as [E63|N63].
      + rewrite E63. change (wrap64 (2 ^ 63)) with (- 2 ^ 63). apply loop_min. lia.
      + destruct Bad as [Bad|Bad]; [|lia].
        assert (2 ^ (scm_of sig + Z.log2 lo) <= 2 ^ 62) by (apply pow2_le; lia).
        assert (2 ^ 62 < 2 ^ 63) by (apply pow2_lt; lia).
        assert (0 < 2 ^ (scm_of sig + Z.log2 lo)) by (apply pow2_gt0; lia).
        rewrite wrap64_id by lia. apply loop_pow; [assumption|lia]. }
  split; [|split].
  - intros [A B]. destruct (new_hist_geom lo hi sig) as (h & E & _); [unfold shape_ok; lia|]. eauto.
  - intros Bad. apply new_hist_loop; [assumption| |apply Never; assumption].
    assert (2 ^ 62 < 2 ^ 63) by (apply pow2_lt; lia). lia.
  - exact Never.
Qed.

Example new_diverges_examples :
  new_hist (2 ^ 50) (2 ^ 51) 5 = Diverge /\ new_hist 1 (2 ^ 62) 1 = Diverge /\ new_hist (2 ^ 58) (2 ^ 59) 1 = Diverge /\
  exists h, new_hist 1 (2 ^ 62 - 1) 1 = Ok h.
Proof. repeat split; try (vm_compute; reflexivity). eexists. vm_compute. reflexivity. Qed.
