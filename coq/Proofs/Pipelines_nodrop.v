(* C01: who can drop an item, and why GenerateParallel's end-of-stream never makes anybody do so.

   Part 1 (any network that passes the static check [hand_disc]): a goroutine holds an item only while
   it stands at a send or at the user's function; hence the ONLY step that drops an item is a send that
   gives up - its context is cancelled, or the channel is closed ([drop_cause]).
   Part 2 (gen_net n GEof, any n, input, interleaving): in a run that nothing aborted no context is
   cancelled and the pipe is not closed while a worker is still running; so no send ever gives up and
   nothing is dropped ([gen_eof_no_drop]). The worker that sees the end of the stream returns - it does
   not cancel the group. *)
From FunV Require Import Base.Tac Base.ListX Model.Pipelines
  Proofs.Pipelines_conserve Proofs.Pipelines_quiesce Proofs.Pipelines_nets Proofs.Pipelines_complete Proofs.Pipelines_closer.

Definition holds (i : instr) : bool := match i with ISend _ _ _ _ _ | IDeliver _ => true | _ => false end.
Definition holds_at (prog : list instr) (k : nat) : bool :=
  match nth_error prog k with Some j => holds j | None => false end.
Definition takes (i : instr) : option nat :=
  match i with ISrc _ _ ki _ _ | IRecv _ _ ki _ _ => Some ki | _ => None end.
Definition hand_disc_instr (prog : list instr) (i : instr) : bool :=
  match takes i with Some ki => holds_at prog ki | None => true end.
(* the static check: whatever takes an item (a read of the input, a receive) continues at a send or at
   the user's function *)
Definition hand_disc (N : net) : bool :=
  forallb (fun d => forallb (hand_disc_instr (d_prog d)) (d_prog d)) (n_procs N).

Notation holding N p pr :=
  ((p_st pr = PRun \/ p_st pr = PAbandoned) /\
   exists d i, nth_error (n_procs N) p = Some d /\ nth_error (d_prog d) (p_pc pr) = Some i /\ holds i = true).

Definition hinv (N : net) (s : state) : Prop :=
  forall p pr, nth_error (s_procs s) p = Some pr -> p_hand pr = None \/ holding N p pr.

Lemma hand_disc_takes N p d i ki :
  hand_disc N = true -> nth_error (n_procs N) p = Some d -> In i (d_prog d) -> takes i = Some ki ->
  exists i', nth_error (d_prog d) ki = Some i' /\ holds i' = true.
Proof.
  unfold hand_disc. intros H Hd Hi Ht. rewrite forallb_forall in H. specialize (H d (nth_error_In _ _ Hd)).
  rewrite forallb_forall in H. specialize (H i Hi). unfold hand_disc_instr in H. rewrite Ht in H.
  unfold holds_at in H. destruct (nth_error (d_prog d) ki) as [i'|]; [eauto|discriminate].
Qed.

Ltac unf := unfold setp, set_procs, dropped, set_drop, set_canc, set_chans, set_srcs, set_deliv, set_oncew, set_wg in *.

(* the hand of the goroutine that executed an instruction *)
Lemma exec_hand N s p pr d i arm s' pr' :
  nth_error (s_procs s) p = Some pr -> p_st pr = PRun ->
  exec N s p pr d i arm = Some s' -> nth_error (s_procs s') p = Some pr' ->
  p_hand pr' = None \/ (p_hand pr' = p_hand pr /\ holds i = false) \/ (p_st pr' = PRun /\ takes i = Some (p_pc pr')).
Proof.
  intros Hp Hr H Hp'.
  pose proof (exec_shape _ _ _ _ _ _ _ _ Hp Hr H) as Hsh.
  assert (X : forall y, s_procs s' = upd (s_procs s) p y -> pr' = y).
  { intros y E. rewrite E in Hp'. apply nth_error_upd in Hp' as [[_ ->]|[Hn _]]; congruence. }
  assert (X2 : forall q z y, s_procs s' = upd (upd (s_procs s) q z) p y -> pr' = y).
  { intros q z y E. rewrite E in Hp'. apply nth_error_upd in Hp' as [[_ ->]|[Hn _]]; congruence. }
  destruct i; cbn [exec] in H; exec_cases H; inv H; cbn [holds takes];
    try (match goal with
         | |- context [start _ _ _ _ _] => idtac
         | _ => rewrite (X _ eq_refl); cbn [p_hand p_st p_pc goto goto_h]; auto; fail
         end).
  - (* ISpawn, started *)
    match goal with _ : nth_error (s_procs (setp (start _ _ ?q0 ?qp0 ?c0) _ ?y0)) _ = Some _ |- _ =>
      rewrite (X2 q0 (mkProc PRun 0 (p_hand qp0) c0) y0) by (unf; cbn [s_procs]; now rewrite start_procs) end.
    cbn [p_hand goto]; auto.
  - (* IGoOnce, started *)
    match goal with _ : nth_error (s_procs (setp (start _ _ ?q0 ?qp0 ?c0) _ ?y0)) _ = Some _ |- _ =>
      rewrite (X2 q0 (mkProc PRun 0 (p_hand qp0) c0) y0) by (unf; cbn [s_procs]; now rewrite start_procs) end.
    cbn [p_hand goto]; auto.
  - (* IExit *)
    rewrite (X (mkProc PDone (p_pc pr) None (p_ctx pr))); [auto|]. unf. destruct (d_wg d); reflexivity.
Qed.

Lemma hinv_step N s l s' : hand_disc N = true -> hinv N s -> step N s l = Some s' -> hinv N s'.
Proof.
  intros Hd I H p0 pr0 Hp0.
  assert (SAME : forall pr, nth_error (s_procs s) p0 = Some pr -> p_hand pr0 = p_hand pr -> p_pc pr0 = p_pc pr ->
                 (p_st pr0 = p_st pr \/ p_st pr0 = PAbandoned /\ p_st pr = PRun) -> p_hand pr0 = None \/ holding N p0 pr0).
  { intros pr Hp Eh Epc Est. destruct (I _ _ Hp) as [E|(Es & dd & ii & H1 & H2 & H3)]; [left; congruence|right].
    split; [destruct Est as [E|(E & _)]; [rewrite E; exact Es|auto]|]. exists dd, ii. rewrite Epc. auto. }
  destruct l; cbn [step] in H.
  - destruct (cur_instr N s p) as [[[pr d] i]|] eqn:Ec; [|discriminate].
    apply cur_instr_inv in Ec as (Hp & Hdd & Hr & Hi).
    pose proof (exec_shape _ _ _ _ _ _ _ _ Hp Hr H) as Hsh.
    destruct (Nat.eq_dec p0 p) as [->|Hn].
    + destruct (exec_hand _ _ _ _ _ _ _ _ _ Hp Hr H Hp0) as [E|[(E & Eh)|(Est & Et)]]; [auto| |].
      * destruct (I _ _ Hp) as [E0|(_ & dd & ii & H1 & H2 & H3)]; [left; congruence|].
        rewrite Hdd in H1. inv H1. rewrite Hi in H2. inv H2. congruence.
      * right. split; [auto|]. destruct (hand_disc_takes N p d i _ Hd Hdd (nth_error_In _ _ Hi) Et) as (i' & E1 & E2). eauto.
    + destruct Hsh as [pr' E1 _ _ _ | pr' _ _ _ E1 _ _ | q qp c pr' _ Hq Hqs _ _ E1 _ _ _ | q g k qp pr' _ _ _ E1 _ _ _];
        rewrite E1 in Hp0; rewrite nth_error_upd_other in Hp0 by auto; try (eapply I; eauto; fail).
      apply nth_error_upd in Hp0 as [[-> ->]|[Hn2 Hp0]]; [|eapply I; eauto].
      left. cbn [p_hand]. destruct (I _ _ Hq) as [E|([Es|Es] & _)]; [auto|congruence|congruence].
  - destruct (p =? q) eqn:Epq; [discriminate|]. apply Nat.eqb_neq in Epq.
    destruct (cur_instr N s p) as [[[pr d] i]|] eqn:Ec; [|discriminate]. destruct i; try discriminate.
    destruct (cur_instr N s q) as [[[qr dq] iq]|] eqn:Eq; [|discriminate]. destruct iq; try discriminate.
    apply cur_instr_inv in Ec as (Hp & _ & _ & _). apply cur_instr_inv in Eq as (Hq & Hdq & _ & Hiq).
    exec_cases H. inv H. unf. cbn [s_procs] in Hp0.
    apply nth_error_upd in Hp0 as [[-> ->]|[Hn Hp0]].
    + right. split; [left; reflexivity|]. cbn [p_pc goto_h].
      destruct (hand_disc_takes N p0 dq _ k_item Hd Hdq (nth_error_In _ _ Hiq) eq_refl) as (i' & E1 & E2). eauto.
    + apply nth_error_upd in Hp0 as [[-> ->]|[Hn2 Hp0]]; [left; reflexivity|eapply I; eauto].
  - exec_cases H. inv H. eapply I; eauto.
  - inv H. eapply I; eauto.
  - inv H. eapply I; eauto.
  - exec_cases H; inv H. unfold set_stopped in Hp0. unf. cbn [s_procs] in Hp0.
    apply nth_error_upd in Hp0 as [[-> ->]|[Hn Hp0]]; [|eapply I; eauto].
    eapply SAME; eauto.
Qed.

Lemma hinv_reach N s0 s : hand_disc N = true -> hinv N s0 -> reach N s0 s -> hinv N s.
Proof. intros Hd I R. induction R; auto. eapply hinv_step; eauto. Qed.

Lemma hinv_mk_init N ps caps srcs : (forall pr, In pr ps -> p_hand pr = None) -> hinv N (mk_init ps caps srcs).
Proof. intros H p pr Hp. left. apply H. eapply nth_error_In; eauto. Qed.

(* ---- what one instruction does to the list of dropped items ---- *)
Lemma exec_drop N s p pr d i arm s' :
  exec N s p pr d i arm = Some s' ->
  s_drop s' = s_drop s \/ (s_drop s' = s_drop s ++ ol (p_hand pr) /\ holds i = false) \/
  (exists ch g ko ke kr, i = ISend ch g ko ke kr /\ (cancelledb N s (resolve pr g) = true \/ closedb s ch = true)).
Proof.
  intros H. destruct i; cbn [exec] in H; exec_cases H; inv H; unfold start; cbv zeta; unf;
    repeat match goal with |- context [if ?b then _ else _] => destruct b end; cbn [s_drop holds];
    try (left; reflexivity); try (right; left; split; reflexivity).
  - right. right. do 5 eexists. split; [reflexivity|left; assumption].
  - right. right. do 5 eexists. split; [reflexivity|right]. unfold closedb.
    match goal with E : nth_error (s_chans s) _ = Some _ |- _ => rewrite E end. assumption.
Qed.

(* drop_cause: the only step that drops an item is a send that gives up *)
Theorem drop_cause N s l s' :
  hinv N s -> step N s l = Some s' ->
  s_drop s' = s_drop s \/
  exists p pr d ch g ko ke kr, cur_instr N s p = Some (pr, d, ISend ch g ko ke kr) /\
                               (cancelledb N s (resolve pr g) = true \/ closedb s ch = true).
Proof.
  intros I H.
  assert (NH : forall p pr d i, cur_instr N s p = Some (pr, d, i) -> holds i = false -> p_hand pr = None).
  { intros p pr d i Hc Hh. apply cur_instr_inv in Hc as (Hp & Hd & _ & Hi).
    destruct (I _ _ Hp) as [E|(_ & dd & ii & H1 & H2 & H3)]; auto. rewrite Hd in H1. inv H1. rewrite Hi in H2. inv H2. congruence. }
  destruct l; cbn [step] in H.
  - destruct (cur_instr N s p) as [[[pr d] i]|] eqn:Ec; [|discriminate].
    destruct (exec_drop _ _ _ _ _ _ _ _ H) as [E|[(E & Eh)|(ch & g & ko & ke & kr & -> & Hcause)]]; auto.
    + left. rewrite E, (NH _ _ _ _ Ec Eh). cbn. apply app_nil_r.
    + right. exists p, pr, d, ch, g, ko, ke, kr. auto.
  - destruct (p =? q); [discriminate|].
    destruct (cur_instr N s p) as [[[pr d] i]|] eqn:Ec; [|discriminate]. destruct i; try discriminate.
    destruct (cur_instr N s q) as [[[qr dq] iq]|] eqn:Eq; [|discriminate]. destruct iq; try discriminate.
    exec_cases H. inv H. left. unf. cbn [s_drop]. rewrite (NH _ _ _ _ Eq eq_refl). cbn. apply app_nil_r.
  - exec_cases H. inv H. auto.
  - inv H. auto.
  - inv H. auto.
  - exec_cases H; inv H; auto.
Qed.

(* ---- contexts are cancelled by ICancel only (internal steps) ---- *)
Lemma canc_by N s l s' :
  internal l = true -> step N s l = Some s' ->
  s_canc s' = s_canc s \/ exists p pr d c k, l = LStep p false /\ cur_instr N s p = Some (pr, d, ICancel c k).
Proof.
  intros Hi H. destruct l; try discriminate; cbn [step] in H.
  - destruct (cur_instr N s p) as [[[pr d] i]|] eqn:Ec; [|discriminate].
    destruct i; cbn [exec] in H; exec_cases H; inv H; unfold start; cbv zeta; unf;
      repeat match goal with |- context [if ?b then _ else _] => destruct b end; cbn [s_canc]; auto.
    right. do 5 eexists. split; [reflexivity|exact Ec].
  - destruct (p =? q); [discriminate|].
    destruct (cur_instr N s p) as [[[pr d] i]|]; [|discriminate]. destruct i; try discriminate.
    destruct (cur_instr N s q) as [[[qr dq] iq]|]; [|discriminate]. destruct iq; try discriminate.
    exec_cases H. inv H. auto.
  - exec_cases H. inv H. auto.
Qed.

(* a receive that does not continue at its item target saw the context cancelled or the channel closed *)
Lemma recv_err_cause N s p pr d ch g ki ke kr arm s' pr' :
  nth_error (s_procs s) p = Some pr ->
  exec N s p pr d (IRecv ch g ki ke kr) arm = Some s' -> nth_error (s_procs s') p = Some pr' -> p_pc pr' <> ki ->
  cancelledb N s (resolve pr g) = true \/ closedb s ch = true.
Proof.
  intros Hp H Hp' Hne. cbn [exec] in H. exec_cases H; inv H; unf; cbn [s_procs] in Hp';
    apply nth_error_upd in Hp' as [[_ ->]|[Hn _]]; try congruence; cbn [p_pc goto goto_h] in Hne; try congruence; auto.
  right. unfold closedb. match goal with E : nth_error (s_chans s) _ = Some _ |- _ => rewrite E end. assumption.
Qed.

(* ---- where a running goroutine's pc comes from ---- *)
Lemma pc_step N s l s' p pr' :
  step N s l = Some s' -> nth_error (s_procs s') p = Some pr' -> p_st pr' = PRun ->
  nth_error (s_procs s) p = Some pr'
  \/ (p_pc pr' = 0 /\ exists pr, nth_error (s_procs s) p = Some pr /\ p_st pr = PNotStarted)
  \/ (exists arm pr d i, l = LStep p arm /\ cur_instr N s p = Some (pr, d, i) /\ In (p_pc pr') (targets i))
  \/ (exists q pr d ch g ko ke kr, l = LRdv p q /\ cur_instr N s p = Some (pr, d, ISend ch g ko ke kr) /\ p_pc pr' = ko)
  \/ (exists q pr d ch g ki ke kr, l = LRdv q p /\ cur_instr N s p = Some (pr, d, IRecv ch g ki ke kr) /\ p_pc pr' = ki).
Proof.
  intros H Hp' Hr'. destruct l; cbn [step] in H.
  - destruct (cur_instr N s p0) as [[[pr0 d0] i0]|] eqn:Ec; [|discriminate].
    pose proof Ec as Ec0. apply cur_instr_inv in Ec as (Hp0 & _ & Hr0 & _).
    pose proof (exec_shape _ _ _ _ _ _ _ _ Hp0 Hr0 H) as Hsh.
    destruct (Nat.eq_dec p p0) as [->|Hn].
    + right. right. left. exists arm, pr0, d0, i0. split; [reflexivity|split; [exact Ec0|]].
      destruct Hsh as [pr1 E1 _ _ (_ & M2 & _) | pr1 _ Est _ E1 _ _ | q qp c pr1 _ _ _ _ _ E1 _ _ (_ & M2 & _) | q g k qp pr1 _ _ _ E1 _ _ (_ & M2 & _)];
        rewrite E1 in Hp'; apply nth_error_upd in Hp' as [[_ ->]|[Hx _]]; try congruence; auto.
    + destruct Hsh as [pr1 E1 _ _ _ | pr1 _ _ _ E1 _ _ | q qp c pr1 _ Hq Hqs _ _ E1 _ _ _ | q g k qp pr1 _ _ _ E1 _ _ _];
        rewrite E1 in Hp'; rewrite nth_error_upd_other in Hp' by auto; auto.
      apply nth_error_upd in Hp' as [[-> ->]|[Hx Hp']]; auto.
      right. left. split; [reflexivity|eauto].
  - destruct (p0 =? q) eqn:Epq; [discriminate|]. apply Nat.eqb_neq in Epq.
    destruct (cur_instr N s p0) as [[[pr0 d0] i0]|] eqn:Ec; [|discriminate]. destruct i0; try discriminate.
    destruct (cur_instr N s q) as [[[qr dq] iq]|] eqn:Eq; [|discriminate]. destruct iq; try discriminate.
    exec_cases H. inv H. unf. cbn [s_procs] in Hp'.
    apply nth_error_upd in Hp' as [[-> ->]|[Hn Hp']].
    + do 4 right. exists p0. do 7 eexists. split; [reflexivity|split; [exact Eq|reflexivity]].
    + apply nth_error_upd in Hp' as [[-> ->]|[Hn2 Hp']]; auto.
      do 3 right. left. exists q. do 7 eexists. split; [reflexivity|split; [exact Ec|reflexivity]].
  - exec_cases H. inv H. auto.
  - inv H. auto.
  - inv H. auto.
  - exec_cases H; inv H. unfold set_stopped in Hp'. unf. cbn [s_procs] in Hp'.
    apply nth_error_upd in Hp' as [[-> ->]|[Hn Hp']]; [discriminate|auto].
Qed.

Lemma cancelled_nonempty N s c : cancelledb N s c = true -> s_canc s <> [].
Proof. unfold cancelledb. intros H E. rewrite E in H. discriminate. Qed.

Lemma hd_cons_init n out : forallb (hand_disc_instr (cons_init_prog n out)) (cons_init_prog n out) = true.
Proof.
  apply forallb_forall. intros i Hi. apply In_nth_error in Hi as (k & Hk).
  apply cons_instr_cases in Hk as [(_ & ->)|[(_ & ->)|(m & _ & Hm)]]; try reflexivity.
  destruct m as [|[|[|[|[|[|m]]]]]]; cbn in Hm; try (destruct m; discriminate); inv Hm; try reflexivity.
  unfold hand_disc_instr. cbn [takes]. unfold holds_at. replace (n + 3) with (n + 1 + 2) by lia. rewrite cons_init_hi. reflexivity.
Qed.

Lemma hand_disc_gen_net n e : hand_disc (gen_net n e) = true.
Proof.
  unfold hand_disc. cbn [gen_net n_procs]. apply forallb_app'.
  - cbn [forallb usr bg d_prog]. rewrite hd_cons_init. reflexivity.
  - apply forallb_map_seq. intros j _. destruct e; reflexivity.
Qed.

(* ================================================================ GenerateParallel, generator ends with io.EOF *)
Section GenEof.
Variable n : nat.
Notation N := (gen_net n GEof).

Lemma G0 : nth_error (n_procs N) 0 = Some (usr (cons_init_prog n 0)). Proof. reflexivity. Qed.
Lemma G2 : nth_error (n_procs N) 2 = Some (bg (closer_prog 0)). Proof. reflexivity. Qed.
Lemma Gw j : j < n -> nth_error (n_procs N) (3 + j) = Some (wgp (gen_prog GEof)).
Proof. intros H. cbn [gen_net n_procs]. exact (nth_workers _ _ _ (fun _ => wgp (gen_prog GEof)) n j H). Qed.
Lemma Gwk j : j < n -> exists prog, nth_error (n_procs N) (3 + j) = Some (wgp prog).
Proof. intros H. eexists. apply Gw. exact H. Qed.
Lemma Gdesc p d : nth_error (n_procs N) p = Some d ->
  (p = 0 /\ d = usr (cons_init_prog n 0)) \/ (p = 1 /\ d = bg [IExit]) \/ (p = 2 /\ d = bg (closer_prog 0)) \/
  (exists j, j < n /\ p = 3 + j /\ d = wgp (gen_prog GEof)).
Proof. intros H. cbn [gen_net n_procs] in H. apply nth_workers_inv in H. exact H. Qed.
Lemma Gharm p d i : nth_error (n_procs N) p = Some d -> p <> 0 -> p <> 2 -> In i (d_prog d) -> harmless 0 i = true.
Proof.
  intros Hd H0 H2 Hi. apply Gdesc in Hd as [(-> & _)|[(-> & ->)|[(-> & _)|(j & _ & -> & ->)]]]; try congruence;
    eapply harmless_forall; eauto; reflexivity.
Qed.

Definition alldone (s : state) : Prop := forall j, j < n -> isdone s (3 + j).

Record g2 (s : state) : Prop := {
  g_h : hinv N s;
  g_c : cinv N n 0 s;
  g_d : s_drop s = [];
  g_w : forall j pr, j < n -> nth_error (s_procs s) (3 + j) = Some pr -> p_st pr = PRun -> p_pc pr < 3 \/ p_pc pr = 6;
  g_q : s_canc s <> [] \/ closedb s 0 = true -> alldone s;
  g_q2 : forall c, nth_error (s_procs s) 0 = Some c -> p_st c = PRun -> p_pc c = n + 5 -> alldone s
}.

(* a running worker is at the context test, at the generator call, at the send, or at the return *)
Lemma worker_cur s j pr d i :
  g2 s -> j < n -> cur_instr N s (3 + j) = Some (pr, d, i) ->
  (p_pc pr = 0 /\ i = ICheck GOwn 1 6) \/ (p_pc pr = 1 /\ i = ISrc 0 GOwn 2 6 6) \/
  (p_pc pr = 2 /\ i = ISend 0 GOwn 0 6 6) \/ (p_pc pr = 6 /\ i = IExit).
Proof.
  intros G Hj Hc. apply cur_instr_inv in Hc as (Hp & Hd & Hr & Hi). rewrite (Gw j Hj) in Hd. inv Hd. cbn [d_prog wgp] in Hi.
  destruct (g_w _ G j pr Hj Hp Hr) as [Hlt|Heq].
  - destruct (p_pc pr) as [|[|[|k]]]; [| | |lia]; cbn in Hi; inv Hi; auto 6.
  - rewrite Heq in Hi. cbn in Hi. inv Hi. auto 6.
Qed.

Lemma cons_cur s c d i :
  cur_instr N s 0 = Some (c, d, i) ->
  (p_pc c = 0 /\ i = ICheck GOwn 1 (n + 6)) \/ (1 <= p_pc c <= n /\ i = ISpawn (3 + (p_pc c - 1)) (GId 2) (p_pc c + 1)) \/
  (p_pc c = n + 1 /\ i = ISpawn 2 GOwn (n + 2)) \/ (p_pc c = n + 2 /\ i = IRecv 0 GOwn (n + 3) (n + 5) (n + 5)) \/
  (p_pc c = n + 3 /\ i = IDeliver (n + 4)) \/ (p_pc c = n + 4 /\ i = ICheck GOwn (n + 2) (n + 6)) \/
  (p_pc c = n + 5 /\ i = ICancel 1 (n + 6)) \/ (p_pc c = n + 6 /\ i = IExit).
Proof.
  intros H. apply (cur0 N n 0 G0) in H. apply cons_instr_cases in H as [(E & ->)|[(E & ->)|(m & E & Hm)]]; auto.
  do 6 (destruct m as [|m]; [cbn in Hm; inv Hm; intuition lia|]). destruct m; discriminate.
Qed.

Lemma alldone_mono s l s' : step N s l = Some s' -> alldone s -> alldone s'.
Proof. intros H A j Hj. eapply isdone_mono; eauto. Qed.

(* the closer is past its wait: the iterator's context was cancelled, or every worker has returned *)
Lemma closer_past_done s cl : g2 s -> nth_error (s_procs s) 2 = Some cl -> p_st cl = PRun -> 1 <= p_pc cl -> alldone s.
Proof.
  intros G Hcl Hr Hpc. destruct (ci_past _ _ _ _ (g_c _ G) cl Hcl) as [E|E]; [right; auto| |exact E].
  apply (g_q _ G). left. eapply cancelled_nonempty; eauto.
Qed.

Lemma g2_step s l s' : internal l = true -> g2 s -> step N s l = Some s' -> g2 s'.
Proof.
  intros Hint G H. pose proof (alldone_mono _ _ _ H) as AM.
  split.
  - eapply hinv_step; eauto using hand_disc_gen_net, g_h.
  - eapply (cinv_step N n 0 G0 G2 Gwk Gharm (wf_gen_net n GEof)); eauto using g_c.
  - (* nothing is dropped *)
    destruct (drop_cause N s l s' (g_h _ G) H) as [E|(p & pr & d & ch & g & ko & ke & kr & Hc & Hcause)]; [rewrite E; apply (g_d _ G)|].
    exfalso. pose proof Hc as Hc0. apply cur_instr_inv in Hc as (Hp & Hd & Hr & Hi).
    apply Gdesc in Hd as [(-> & ->)|[(-> & ->)|[(-> & ->)|(j & Hj & -> & ->)]]].
    + apply cons_cur in Hc0. intuition discriminate.
    + cbn [d_prog bg] in Hi. destruct (p_pc pr) as [|k]; [|destruct k]; cbn in Hi; discriminate.
    + cbn [d_prog bg] in Hi. apply closer_instr in Hi. intuition discriminate.
    + destruct (worker_cur _ _ _ _ _ G Hj Hc0) as [(_ & E)|[(_ & E)|[(_ & E)|(_ & E)]]]; try discriminate. inv E.
      assert (A : alldone s).
      { apply (g_q _ G). destruct Hcause as [E|E]; [left; eapply cancelled_nonempty; eauto|right; exact E]. }
      destruct (A j Hj) as (w & Hw1 & Hw2). rewrite Hp in Hw1. inv Hw1. congruence.
  - (* where the workers are *)
    intros j pr' Hj Hp' Hr'.
    destruct (pc_step _ _ _ _ _ _ H Hp' Hr') as [Same|[(E0 & _)|[(arm & pr & d & i & -> & Hc & Hin)|[(q & pr & d & ch & g & ko & ke & kr & -> & Hc & E)|(q & pr & d & ch & g & ki & ke & kr & -> & Hc & E)]]]].
    + eapply (g_w _ G); eauto.
    + lia.
    + destruct (worker_cur _ _ _ _ _ G Hj Hc) as [(_ & ->)|[(_ & ->)|[(_ & ->)|(_ & ->)]]]; cbn [targets In] in Hin; intuition lia.
    + destruct (worker_cur _ _ _ _ _ G Hj Hc) as [(_ & E1)|[(_ & E1)|[(_ & E1)|(_ & E1)]]]; inv E1. lia.
    + destruct (worker_cur _ _ _ _ _ G Hj Hc) as [(_ & E1)|[(_ & E1)|[(_ & E1)|(_ & E1)]]]; discriminate.
  - (* a context is cancelled / the pipe is closed only when every worker has returned *)
    intros Hyp. destruct (closedb s 0) eqn:Ecl; [apply AM, (g_q _ G); auto|].
    destruct (canc_by _ _ _ _ Hint H) as [Ec|(p & pr & d & c & k & -> & Hc)].
    + destruct Hyp as [Hne|Hcl']; [rewrite Ec in Hne; apply AM, (g_q _ G); auto|].
      destruct (closed_by _ _ _ _ _ H Ecl Hcl') as (p & pr & d & k & -> & Hc).
      destruct (close_out_who N n 0 G0 G2 Gharm _ _ _ _ _ Hc) as (-> & Epc).
      apply cur_instr_inv in Hc as (Hp & _ & Hr & _). apply AM. eapply closer_past_done; eauto. lia.
    + apply AM. pose proof Hc as Hc0. apply cur_instr_inv in Hc as (Hp & Hd & Hr & Hi).
      apply Gdesc in Hd as [(-> & ->)|[(-> & ->)|[(-> & ->)|(j & Hj & -> & ->)]]].
      * apply cons_cur in Hc0. destruct Hc0 as [(_ & E)|[(_ & E)|[(_ & E)|[(_ & E)|[(_ & E)|[(_ & E)|[(Epc & E)|(_ & E)]]]]]]]; try discriminate.
        eapply (g_q2 _ G); eauto.
      * cbn [d_prog bg] in Hi. destruct (p_pc pr) as [|k0]; [|destruct k0]; cbn in Hi; discriminate.
      * cbn [d_prog bg] in Hi. apply closer_instr in Hi as [(_ & E)|[(Epc & E)|[(_ & E)|(_ & E)]]]; try discriminate.
        eapply closer_past_done; eauto. lia.
      * destruct (worker_cur _ _ _ _ _ G Hj Hc0) as [(_ & E)|[(_ & E)|[(_ & E)|(_ & E)]]]; discriminate.
  - (* the consumer cancels its iterator only after it saw the pipe closed / a context cancelled *)
    intros c' Hc' Hr' Hpc'.
    destruct (pc_step _ _ _ _ _ _ H Hc' Hr') as [Same|[(E0 & _)|[(arm & pr & d & i & -> & Hc & Hin)|[(q & pr & d & ch & g & ko & ke & kr & -> & Hc & E)|(q & pr & d & ch & g & ki & ke & kr & -> & Hc & E)]]]].
    + apply AM. eapply (g_q2 _ G); eauto.
    + lia.
    + rewrite Hpc' in Hin. pose proof Hc as Hc0. apply cons_cur in Hc0.
      destruct Hc0 as [(_ & ->)|[(Hk & ->)|[(_ & ->)|[(_ & ->)|[(_ & ->)|[(_ & ->)|[(_ & ->)|(_ & ->)]]]]]]]; cbn [targets In] in Hin; try (intuition lia).
      apply AM, (g_q _ G). cbn [step] in H. rewrite Hc in H. apply cur_instr_inv in Hc as (Hp & _ & _ & _).
      destruct (recv_err_cause _ _ _ _ _ _ _ _ _ _ _ _ _ Hp H Hc') as [E|E]; [lia|left; eapply cancelled_nonempty; eauto|right; exact E].
    + apply cons_cur in Hc. intuition discriminate.
    + apply cons_cur in Hc. destruct Hc as [(_ & E1)|[(_ & E1)|[(_ & E1)|[(_ & E1)|[(_ & E1)|[(_ & E1)|[(_ & E1)|(_ & E1)]]]]]]]; inv E1. lia.
Qed.

Lemma g2_init input : g2 (gen_init n input).
Proof.
  unfold gen_init, fanin_init. split.
  - apply hinv_mk_init. intros pr [<-|[<-|[<-|Hin]]]; auto. unfold idles in Hin. apply repeat_spec in Hin. now subst.
  - apply cinv_init. apply (ginv_gen_init n GEof input).
  - reflexivity.
  - intros j pr Hj Hp Hr. exfalso. unfold mk_init in Hp; cbn [s_procs] in Hp. rewrite nth3 in Hp.
    apply nth_error_In in Hp. unfold idles in Hp. apply repeat_spec in Hp. subst. discriminate.
  - intros [Hc|Hc]; [contradiction Hc; reflexivity|]. rewrite closedb_mk_init in Hc. discriminate.
  - intros c Hc _ Hpc. cbn in Hc. inv Hc. cbn in Hpc. lia.
Qed.

Lemma g2_ireach input s : ireach N (gen_init n input) s -> g2 s.
Proof. induction 1 as [|s l s' R IH Hi H]; [apply g2_init|eapply g2_step; eauto]. Qed.

(* C01_generate_eof_no_drop *)
Theorem gen_eof_no_drop input s :
  reach N (gen_init n input) s -> s_stopped s = false -> s_drop s = [].
Proof. intros R Hs. apply (g_d s). apply (g2_ireach input). apply reach_unstopped; auto. Qed.

(* ... because the end of the stream cancels nothing: while a worker has not returned, no context is
   cancelled and the pipe is open *)
Theorem gen_eof_no_cancel input s :
  reach N (gen_init n input) s -> s_stopped s = false -> (exists j, j < n /\ ~ isdone s (3 + j)) ->
  s_canc s = [] /\ closedb s 0 = false.
Proof.
  intros R Hs (j & Hj & Hnd). pose proof (g2_ireach input s (reach_unstopped _ _ _ R Hs)) as G.
  destruct (s_canc s) eqn:Ec; [destruct (closedb s 0) eqn:Ecl; [|auto]|]; exfalso; apply Hnd, (g_q _ G); auto.
  left. rewrite Ec. discriminate.
Qed.

End GenEof.

(* ---- the contrast: a generator whose end is a FAILURE (or is taken for one: an end-of-stream error that
        wraps io.EOF compared with != instead of errors.Is) cancels the group, and a value another worker
        has generated but not sent yet is dropped - in a run that nothing else aborted ---- *)
Definition gen_fail_labels : list label :=
  [LStep 0 false; LStep 0 false; LStep 0 false;     (* the consumer's first advance starts workers 3 and 4 *)
   LStep 3 false; LStep 3 false;                    (* worker 3: ctx ok; the generator returns the value 1 *)
   LStep 4 false; LStep 4 false;                    (* worker 4: ctx ok; the generator has no more values *)
   LStep 4 false;                                   (* ... which cancels the group (GFail) / returns (GEof) *)
   LStep 3 true].                                   (* worker 3's send: the ctx.Done arm *)

Example gen_fail_drops_in_flight :
  exists s, run_labels (gen_net 2 GFail) gen_fail_labels (gen_init 2 [1]%Z) = Some s /\
            s_stopped s = false /\ s_drop s = [1]%Z /\ s_deliv s = [].
Proof. eexists. split; [vm_compute; reflexivity|]. repeat split. Qed.

Example gen_eof_cannot_drop_in_flight : run_labels (gen_net 2 GEof) gen_fail_labels (gen_init 2 [1]%Z) = None.
Proof. vm_compute. reflexivity. Qed.
