(* C01: who can drop an item, and why GenerateParallel's end-of-stream never makes anybody do so.

   Part 1 (any network that passes the static check [hand_disc]): a goroutine holds an item only while
   it stands at a send or at the user's function; hence the ONLY step that drops an item is a send that
   gives up - its context is cancelled, or the channel is closed ([drop_cause]).
   Part 2 (gen_net n GEof, any n, input, interleaving): in a run that nothing aborted no context is
   cancelled and the pipe is not closed while a worker is still running; so no send ever gives up and
   nothing is dropped ([gen_eof_no_drop]). The worker that sees the end of the stream returns - it does
   not cancel the group. *)
From FunV Require Import Base.Tac Base.ListX Model.Pipelines
  Proofs.Pipelines_conserve Proofs.Pipelines_quiesce Proofs.Pipelines_nets Proofs.Pipelines_complete Proofs.Pipelines_closer.

Definition holds (i : instr) : bool := match i with ISend _ _ _ _ _ | IDeliver _ => true | _ => false end.
Definition holds_at (prog : list instr) (k : nat) : bool :=
  match nth_error prog k with Some j => holds j | None => false end.
Definition takes (i : instr) : option nat :=
  match i with ISrc _ _ ki _ _ | IRecv _ _ ki _ _ => Some ki | _ => None end.
Definition hand_disc_instr (prog : list instr) (i : instr) : bool :=
  match takes i with Some ki => holds_at prog ki | None => true end.
(* the static check: whatever takes an item (a read of the input, a receive) continues at a send or at
   the user's function *)
Definition hand_disc (N : net) : bool :=
  forallb (fun d => forallb (hand_disc_instr (d_prog d)) (d_prog d)) (n_procs N).

Definition holding (N : net) (p : pid) (pr : proc) : Prop :=
  (p_st pr = PRun \/ p_st pr = PAbandoned) /\
  exists d i, nth_error (n_procs N) p = Some d /\ nth_error (d_prog d) (p_pc pr) = Some i /\ holds i = true.

Definition hinv (N : net) (s : state) : Prop :=
  forall p pr, nth_error (s_procs s) p = Some pr -> p_hand pr = None \/ holding N p pr.

Lemma hand_disc_takes N p d i ki :
  hand_disc N = true -> nth_error (n_procs N) p = Some d -> In i (d_prog d) -> takes i = Some ki ->
  exists i', nth_error (d_prog d) ki = Some i' /\ holds i' = true.
Proof.
  unfold hand_disc. intros H Hd Hi Ht. rewrite forallb_forall in H. specialize (H d (nth_error_In _ _ Hd)).
  rewrite forallb_forall in H. specialize (H i Hi). unfold hand_disc_instr in H. rewrite Ht in H.
  unfold holds_at in H. destruct (nth_error (d_prog d) ki) as [i'|]; [eauto|discriminate].
Qed.

Ltac unf := unfold setp, set_procs, dropped, set_drop, set_canc, set_chans, set_srcs, set_deliv, set_oncew, set_wg in *.

(* the hand of the goroutine that executed an instruction *)
Lemma exec_hand N s p pr d i arm s' pr' :
  nth_error (s_procs s) p = Some pr -> p_st pr = PRun ->
  exec N s p pr d i arm = Some s' -> nth_error (s_procs s') p = Some pr' ->
  p_hand pr' = None \/ (p_hand pr' = p_hand pr /\ holds i = false) \/ (p_st pr' = PRun /\ takes i = Some (p_pc pr')).
Proof.
  intros Hp Hr H Hp'.
  pose proof (exec_shape _ _ _ _ _ _ _ _ Hp Hr H) as Hsh.
  assert (X : forall y, s_procs s' = upd (s_procs s) p y -> pr' = y).
  { intros y E. rewrite E in Hp'. apply nth_error_upd in Hp' as [[_ ->]|[Hn _]]; congruence. }
  assert (X2 : forall q z y, s_procs s' = upd (upd (s_procs s) q z) p y -> pr' = y).
  { intros q z y E. rewrite E in Hp'. apply nth_error_upd in Hp' as [[_ ->]|[Hn _]]; congruence. }
  destruct i; cbn [exec] in H; exec_cases H; inv H; cbn [holds takes];
    try (match goal with
         | |- context [start _ _ _ _ _] => idtac
         | _ => rewrite (X _ eq_refl); cbn [p_hand p_st p_pc goto goto_h]; auto; fail
         end).
  - (* ISpawn, started *)
    erewrite (X2 q _ _); [cbn [p_hand goto]; auto|]. unf. cbn [s_procs]. now rewrite start_procs.
  - (* IGoOnce, started *)
    erewrite (X2 q _ _); [cbn [p_hand goto]; auto|]. unf. cbn [s_procs]. now rewrite start_procs.
  - (* IExit *)
    rewrite (X (mkProc PDone (p_pc pr) None (p_ctx pr))); [auto|]. unf. destruct (d_wg d); reflexivity.
Qed.

Lemma hinv_step N s l s' : hand_disc N = true -> hinv N s -> step N s l = Some s' -> hinv N s'.
Proof.
  intros Hd I H p0 pr0 Hp0.
  assert (SAME : forall pr, nth_error (s_procs s) p0 = Some pr -> p_hand pr0 = p_hand pr -> p_pc pr0 = p_pc pr ->
                 (p_st pr0 = p_st pr \/ p_st pr0 = PAbandoned /\ p_st pr = PRun) -> p_hand pr0 = None \/ holding N p0 pr0).
  { intros pr Hp Eh Epc Est. destruct (I _ _ Hp) as [E|((Es & dd & ii & H1 & H2 & H3))]; [left; congruence|right].
    split; [destruct Est as [E|(E & _)]; [rewrite E; exact Es|auto]|]. exists dd, ii. rewrite Epc. auto. }
  destruct l; cbn [step] in H.
  - destruct (cur_instr N s p) as [[[pr d] i]|] eqn:Ec; [|discriminate].
    apply cur_instr_inv in Ec as (Hp & Hdd & Hr & Hi).
    pose proof (exec_shape _ _ _ _ _ _ _ _ Hp Hr H) as Hsh.
    destruct (Nat.eq_dec p0 p) as [->|Hn].
    + destruct (exec_hand _ _ _ _ _ _ _ _ _ Hp Hr H Hp0) as [E|[(E & Eh)|(Est & Et)]]; [auto| |].
      * destruct (I _ _ Hp) as [E0|(_ & dd & ii & H1 & H2 & H3)]; [left; congruence|].
        rewrite Hdd in H1. inv H1. rewrite Hi in H2. inv H2. congruence.
      * right. split; [auto|]. destruct (hand_disc_takes N p d i _ Hd Hdd (nth_error_In _ _ Hi) Et) as (i' & E1 & E2). eauto.
    + destruct Hsh as [pr' E1 _ _ _ | pr' _ _ _ E1 _ _ | q qp c pr' _ Hq Hqs _ _ E1 _ _ _ | q g k qp pr' _ _ _ E1 _ _ _];
        rewrite E1 in Hp0; rewrite nth_error_upd_other in Hp0 by auto; try (eapply I; eauto; fail).
      apply nth_error_upd in Hp0 as [[-> ->]|[Hn2 Hp0]]; [|eapply I; eauto].
      left. cbn [p_hand]. destruct (I _ _ Hq) as [E|((Es|Es) & _)]; [auto|congruence|congruence].
  - destruct (p =? q) eqn:Epq; [discriminate|]. apply Nat.eqb_neq in Epq.
    destruct (cur_instr N s p) as [[[pr d] i]|] eqn:Ec; [|discriminate]. destruct i; try discriminate.
    destruct (cur_instr N s q) as [[[qr dq] iq]|] eqn:Eq; [|discriminate]. destruct iq; try discriminate.
    apply cur_instr_inv in Ec as (Hp & _ & _ & _). apply cur_instr_inv in Eq as (Hq & Hdq & _ & Hiq).
    exec_cases H. inv H. unf. cbn [s_procs] in Hp0.
    apply nth_error_upd in Hp0 as [[-> ->]|[Hn Hp0]].
    + right. split; [left; reflexivity|]. cbn [p_pc goto_h].
      destruct (hand_disc_takes N p0 dq _ k_item Hd Hdq (nth_error_In _ _ Hiq) eq_refl) as (i' & E1 & E2). eauto.
    + apply nth_error_upd in Hp0 as [[-> ->]|[Hn2 Hp0]]; [left; reflexivity|eapply I; eauto].
  - exec_cases H. inv H. eapply I; eauto.
  - inv H. eapply I; eauto.
  - inv H. eapply I; eauto.
  - exec_cases H; inv H. unfold set_stopped in Hp0. unf. cbn [s_procs] in Hp0.
    apply nth_error_upd in Hp0 as [[-> ->]|[Hn Hp0]]; [|eapply I; eauto].
    eapply SAME; eauto.
Qed.

Lemma hinv_reach N s0 s : hand_disc N = true -> hinv N s0 -> reach N s0 s -> hinv N s.
Proof. intros Hd I R. induction R; auto. eapply hinv_step; eauto. Qed.

Lemma hinv_mk_init N ps caps srcs : (forall pr, In pr ps -> p_hand pr = None) -> hinv N (mk_init ps caps srcs).
Proof. intros H p pr Hp. left. apply H. eapply nth_error_In; eauto. Qed.

(* ---- what one instruction does to the list of dropped items ---- *)
Lemma exec_drop N s p pr d i arm s' :
  exec N s p pr d i arm = Some s' ->
  s_drop s' = s_drop s \/ (s_drop s' = s_drop s ++ ol (p_hand pr) /\ holds i = false) \/
  (exists ch g ko ke kr, i = ISend ch g ko ke kr /\ (cancelledb N s (resolve pr g) = true \/ closedb s ch = true)).
Proof.
  intros H. destruct i; cbn [exec] in H; exec_cases H; inv H; unfold start; cbv zeta; unf;
    repeat match goal with |- context [if ?b then _ else _] => destruct b end; cbn [s_drop holds];
    try (left; reflexivity); try (right; left; split; reflexivity).
  - right. right. do 5 eexists. split; [reflexivity|left; assumption].
  - right. right. do 5 eexists. split; [reflexivity|right]. unfold closedb.
    match goal with E : nth_error (s_chans s) _ = Some _ |- _ => rewrite E end. assumption.
Qed.

(* drop_cause: the only step that drops an item is a send that gives up *)
Theorem drop_cause N s l s' :
  hinv N s -> step N s l = Some s' ->
  s_drop s' = s_drop s \/
  exists p pr d ch g ko ke kr, cur_instr N s p = Some (pr, d, ISend ch g ko ke kr) /\
                               (cancelledb N s (resolve pr g) = true \/ closedb s ch = true).
Proof.
  intros I H.
  assert (NH : forall p pr d i, cur_instr N s p = Some (pr, d, i) -> holds i = false -> p_hand pr = None).
  { intros p pr d i Hc Hh. apply cur_instr_inv in Hc as (Hp & Hd & _ & Hi).
    destruct (I _ _ Hp) as [E|(_ & dd & ii & H1 & H2 & H3)]; auto. rewrite Hd in H1. inv H1. rewrite Hi in H2. inv H2. congruence. }
  destruct l; cbn [step] in H.
  - destruct (cur_instr N s p) as [[[pr d] i]|] eqn:Ec; [|discriminate].
    destruct (exec_drop _ _ _ _ _ _ _ _ H) as [E|[(E & Eh)|(ch & g & ko & ke & kr & -> & Hcause)]]; auto.
    + left. rewrite E, (NH _ _ _ _ Ec Eh). cbn. apply app_nil_r.
    + right. exists p, pr, d, ch, g, ko, ke, kr. auto.
  - destruct (p =? q); [discriminate|].
    destruct (cur_instr N s p) as [[[pr d] i]|] eqn:Ec; [|discriminate]. destruct i; try discriminate.
    destruct (cur_instr N s q) as [[[qr dq] iq]|] eqn:Eq; [|discriminate]. destruct iq; try discriminate.
    exec_cases H. inv H. left. unf. cbn [s_drop]. rewrite (NH _ _ _ _ Eq eq_refl). cbn. apply app_nil_r.
  - exec_cases H. inv H. auto.
  - inv H. auto.
  - inv H. auto.
  - exec_cases H; inv H; auto.
Qed.

(* ---- contexts are cancelled by ICancel only (internal steps) ---- *)
Lemma canc_by N s l s' :
  internal l = true -> step N s l = Some s' ->
  s_canc s' = s_canc s \/ exists p pr d c k, l = LStep p false /\ cur_instr N s p = Some (pr, d, ICancel c k).
Proof.
  intros Hi H. destruct l; try discriminate; cbn [step] in H.
  - destruct (cur_instr N s p) as [[[pr d] i]|] eqn:Ec; [|discriminate].
    destruct i; cbn [exec] in H; exec_cases H; inv H; unfold start; cbv zeta; unf;
      repeat match goal with |- context [if ?b then _ else _] => destruct b end; cbn [s_canc]; auto.
    right. do 5 eexists. split; reflexivity.
  - destruct (p =? q); [discriminate|].
    destruct (cur_instr N s p) as [[[pr d] i]|]; [|discriminate]. destruct i; try discriminate.
    destruct (cur_instr N s q) as [[[qr dq] iq]|]; [|discriminate]. destruct iq; try discriminate.
    exec_cases H. inv H. auto.
  - exec_cases H. inv H. auto.
Qed.

(* a receive that does not continue at its item target saw the context cancelled or the channel closed *)
Lemma recv_err_cause N s p pr d ch g ki ke kr arm s' pr' :
  nth_error (s_procs s) p = Some pr ->
  exec N s p pr d (IRecv ch g ki ke kr) arm = Some s' -> nth_error (s_procs s') p = Some pr' -> p_pc pr' <> ki ->
  cancelledb N s (resolve pr g) = true \/ closedb s ch = true.
Proof.
  intros Hp H Hp' Hne. cbn [exec] in H. exec_cases H; inv H; unf; cbn [s_procs] in Hp';
    apply nth_error_upd in Hp' as [[_ ->]|[Hn _]]; try congruence; cbn [p_pc goto goto_h] in Hne; try congruence; auto.
  right. unfold closedb. match goal with E : nth_error (s_chans s) _ = Some _ |- _ => rewrite E end. assumption.
Qed.
