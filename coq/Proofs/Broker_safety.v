(* Safety invariants of the broker model (every configuration, every wake discipline):
   publications are distinct; every message is at exactly one place of the pipeline;
   a subscriber's log contains only taken (hence published) messages, none twice. *)
From Coq Require Import Permutation.
From FunV Require Import Base.Tac Model.BrokerModel Proofs.Broker_base.

Definition lmsg (l : lpc) : list msg := match l with LSend m => [m] | _ => [] end.
Definition flow (st : state) : list msg := taken st ++ dist st ++ lmsg (loop st).


Section S.
Variable c : cfg.
Variable wake : state -> nat -> bool.

(* ---------- callers and publications *)
Record InvPub (st : state) : Prop := {
  ip_fresh : forall k m, call st k = CPub m -> In m (issued st) /\ ~ In m (pubd st);
  ip_uniq : forall k k' m, call st k = CPub m -> call st k' = CPub m -> k = k';
  ip_incl : incl (pubd st) (issued st);
  ip_nodup : NoDup (pubd st)
}.

Lemma InvPub_step : forall st e st', InvPub st -> step c wake st e = Some st' -> InvPub st'.
Proof.
  intros st e st' [F U I N] H. step_inv H; ssimpl.
  all: constructor; ssimpl; auto.
  all: try (intros; upd_cases; try congruence; eauto; fail).
  - intros k0 m0 E. upd_cases.
    + inv E. split; [rewrite in_app_iff; simpl; auto|]. apply memb_false in Heqb. intros X; apply Heqb, I, X.
    + destruct (F _ _ E). split; auto. rewrite in_app_iff; auto.
  - intros k0 k' m0 E1 E2. apply memb_false in Heqb. upd_cases; try congruence; eauto.
    all: match goal with
         | A : CPub _ = CPub _, B : call _ _ = CPub _ |- _ => inv A; apply F in B as [X _]; tauto
         end.
  - intros x Hx. rewrite in_app_iff; auto.
  - intros k0 m0 E. upd_cases; [discriminate|]. destruct (F _ _ E). split; auto.
    rewrite in_app_iff; simpl. intros [X|[X|[]]]; auto. subst. apply n. eapply U; eauto.
  - intros x Hx. rewrite in_app_iff in Hx; simpl in Hx. destruct Hx as [X|[X|[]]]; auto. subst. apply (F _ _ Heqc0).
  - apply NoDup_snoc; auto. apply (F _ _ Heqc0).
Qed.

Lemma InvPub_init : InvPub init.
Proof. constructor; simpl; intros; try discriminate; auto. intros x []. constructor. Qed.

(* ---------- the pipeline *)
Record InvFlow (st : state) : Prop := {
  if_nodup : NoDup (flow st);
  if_incl : incl (flow st) (pubd st)
}.

Lemma flow_move1 : forall (t : list nat) m d l, t ++ (m :: d) ++ l = (t ++ [m]) ++ d ++ l.
Proof. intros. rewrite <- app_assoc. reflexivity. Qed.

Lemma NoDup_remove_mid : forall (a b : list nat) x, NoDup (a ++ x :: b) -> NoDup (a ++ b).
Proof. intros. eapply NoDup_remove_1; eauto. Qed.

Lemma NoDup_swap_tail : forall (t d : list nat) m, NoDup (t ++ d ++ [m]) -> NoDup ((t ++ [m]) ++ d).
Proof.
  intros. rewrite <- app_assoc. eapply Permutation_NoDup; [|eauto].
  apply Permutation_app_head, Permutation_app_comm.
Qed.

Ltac flow_incl I :=
  let x := fresh "x" in let Hx := fresh "Hx" in
  intros x Hx; specialize (I x); rewrite ?in_app_iff in *; simpl in *; rewrite ?in_app_iff in *; simpl in *; tauto.

Lemma InvFlow_step : forall st e st', InvPub st -> InvFlow st -> step c wake st e = Some st' -> InvFlow st'.
Proof.
  intros st e st' P [N I] H. unfold flow in *. step_inv H; ssimpl.
  all: constructor; unfold flow; ssimpl.
  all: repeat match goal with
       | E : loop _ = _ |- _ => rewrite E in *; clear E
       | E : dist _ = _ |- _ => rewrite E in *; clear E
       end; simpl in *; rewrite ?app_nil_r in *.
  all: try exact N; try exact I.
  all: try (flow_incl I).
  all: try (rewrite <- app_assoc; simpl; exact N).
  all: try (rewrite app_assoc in N; apply NoDup_app_l in N; exact N).
  all: try (apply NoDup_app_l in N; exact N).
  all: try (apply NoDup_remove_mid in N; exact N).
  all: try (apply NoDup_swap_tail; exact N).
  - (* EPub *) destruct (ip_fresh _ P _ _ Heqc0) as [_ Hn].
    rewrite app_assoc. apply NoDup_snoc; auto.
Qed.

Lemma InvFlow_init : InvFlow init.
Proof. constructor; unfold flow; simpl; [constructor|intros x []]. Qed.

(* ---------- workers and deliveries *)
Definition log (st : state) (s : sid) : list msg := rcv st s ++ ch st s.

Record InvW (st : state) : Prop := {
  iw_taken : forall w m r v mu p, wk st w = WBusy m r v mu p -> In m (taken st);
  iw_uniq : forall w w' m r v mu p r' v' mu' p',
      wk st w = WBusy m r v mu p -> wk st w' = WBusy m r' v' mu' p' -> w = w';
  iw_log_taken : forall s m, In m (log st s) -> In m (taken st);
  iw_log_nodup : forall s, NoDup (log st s);
  iw_pend : forall w m r v mu p, wk st w = WBusy m r v mu p ->
      NoDup p /\ incl p v /\ forall s, In m (log st s) -> In s v /\ ~ In s p
}.

Lemma InvW_init : InvW init.
Proof. constructor; unfold log; simpl; intros; try discriminate; try tauto. constructor. Qed.

Lemma log_recv : forall (r cc : list msg) m, (r ++ [m]) ++ cc = r ++ m :: cc.
Proof. intros; rewrite <- app_assoc; reflexivity. Qed.


Ltac fn_contra FN T :=
  exfalso; eapply NoDup_app_disj; [exact FN | first [eassumption | eapply T; eauto] | rewrite ?in_app_iff; simpl; auto].

Lemma NoDup_insert_mid : forall (a b : list nat) x, NoDup (a ++ b) -> ~ In x (a ++ b) -> NoDup (a ++ x :: b).
Proof.
  intros a b x N X. rewrite in_app_iff in X.
  apply NoDup_app_intro; [eapply NoDup_app_l; eauto| |].
  - constructor; [tauto| eapply NoDup_app_r; eauto].
  - intros y Ha [E|Hb]; subst; [tauto|]. eapply NoDup_app_disj; eauto.
Qed.

Lemma InvW_step : forall st e st', InvFlow st -> InvW st -> step c wake st e = Some st' -> InvW st'.
Proof.
  intros st e st' [FN _] [T U LT LN P] H. unfold flow, log in *. step_inv H; ssimpl.
  all: try (constructor; unfold log; ssimpl; auto; fail).
  all: constructor; unfold log; ssimpl.
  all: try (intros; busy_unsub; eauto; fail).
  all: try (wsolve; fail).
  all: try (intros; rewrite in_app_iff; eauto; fail).
  all: repeat match goal with
       | E : loop _ = _ |- _ => rewrite E in FN
       | E : dist _ = _ |- _ => rewrite E in FN
       end; simpl in FN.
  - (* take, channel *) intros; upd_cases; winv; rewrite in_app_iff; simpl; eauto.
  - intros; upd_cases; winv; eauto; fn_contra FN T.
  - intros; upd_cases; winv; eauto. split; [constructor|]. split; [intros x []|].
    intros s Hs. apply LT in Hs. fn_contra FN T.
  - (* take, buffer *) intros; upd_cases; winv; rewrite in_app_iff; simpl; eauto.
  - intros; upd_cases; winv; eauto; fn_contra FN T.
  - intros; upd_cases; winv; eauto. split; [constructor|]. split; [intros x []|].
    intros s Hs. apply LT in Hs. fn_contra FN T.
  - (* range next *) intros; upd_cases; winv; eauto.
    destruct (P _ _ _ _ _ _ Heqw0) as (N1 & I1 & L1).
    boolp.
    split; [apply NoDup_snoc; auto|]. split.
    + intros x Hx. rewrite in_app_iff in *; simpl in *. destruct Hx as [X|X]; auto.
    + intros s0 Hs0. destruct (L1 _ Hs0). split; [rewrite in_app_iff; auto|].
      rewrite in_app_iff; simpl. intros [X|[X|[]]]; subst; auto.
  - (* send, rendezvous *)
    intros s0 m0 Hm. upd_cases; eauto. rewrite <- app_assoc, in_app_iff in Hm. simpl in Hm.
    destruct Hm as [X|[X|X]]; subst; eauto using in_or_app.
  - intros s0. upd_cases; auto.
    destruct (P _ _ _ _ _ _ Heqw0) as (N1 & I1 & L1). boolp.
    rewrite <- app_assoc. simpl. apply NoDup_insert_mid; auto. intros X; apply L1 in X; tauto.
  - intros w0 m0 r0 v0 mu0 p0 E. boolp. upd_cases; winv.
    + destruct (P _ _ _ _ _ _ Heqw0) as (N1 & I1 & L1).
      split; [apply NoDup_rem; auto|]. split; [intros x Hx; apply In_rem in Hx; apply I1; tauto|].
      intros s0 Hs0. upd_cases.
      * split; [apply I1; auto|]. rewrite In_rem; tauto.
      * destruct (L1 _ Hs0). split; auto. rewrite In_rem; tauto.
    + destruct (P _ _ _ _ _ _ E) as (N1 & I1 & L1). split; auto. split; auto.
      intros s0 Hs0. upd_cases; auto.
      rewrite <- app_assoc, in_app_iff in Hs0. simpl in Hs0.
      destruct Hs0 as [X|[X|X]]; [apply L1; rewrite in_app_iff; auto| | apply L1; rewrite in_app_iff; auto].
      subst. exfalso. apply n. eapply U; eauto.
  - (* send, buffered *)
    intros s0 m0 Hm. upd_cases; eauto. rewrite app_assoc, in_app_iff in Hm; simpl in Hm.
    destruct Hm as [X|[X|[]]]; subst; eauto.
  - intros s0. upd_cases; auto.
    destruct (P _ _ _ _ _ _ Heqw0) as (N1 & I1 & L1). boolp.
    rewrite app_assoc. apply NoDup_snoc; auto. intros X; apply L1 in X; tauto.
  - intros w0 m0 r0 v0 mu0 p0 E. boolp. upd_cases; winv.
    + destruct (P _ _ _ _ _ _ Heqw0) as (N1 & I1 & L1).
      split; [apply NoDup_rem; auto|]. split; [intros x Hx; apply In_rem in Hx; apply I1; tauto|].
      intros s0 Hs0. upd_cases.
      * split; [apply I1; auto|]. rewrite In_rem; tauto.
      * destruct (L1 _ Hs0). split; auto. rewrite In_rem; tauto.
    + destruct (P _ _ _ _ _ _ E) as (N1 & I1 & L1). split; auto. split; auto.
      intros s0 Hs0. upd_cases; auto.
      rewrite app_assoc, in_app_iff in Hs0. simpl in Hs0.
      destruct Hs0 as [X|[X|[]]]; auto.
      subst. exfalso. apply n. eapply U; eauto.
  - (* drop send *)
    intros w0 m0 r0 v0 mu0 p0 E. upd_cases; winv; eauto.
    destruct (P _ _ _ _ _ _ Heqw0) as (N1 & I1 & L1).
    split; [apply NoDup_rem; auto|]. split; [intros x Hx; apply In_rem in Hx; apply I1; tauto|].
    intros s0 Hs0. destruct (L1 _ Hs0). split; auto. rewrite In_rem; tauto.
  - (* recv *) intros s0 m0 Hm. upd_cases; eauto. apply LT with s. rewrite Heql. rewrite log_recv in Hm; auto.
  - intros s0. upd_cases; auto. rewrite log_recv. rewrite <- Heql; auto.
  - intros w0 m0 r0 v0 mu0 p0 E. destruct (P _ _ _ _ _ _ E) as (N1 & I1 & L1). split; auto. split; auto.
    intros s0 Hs0. upd_cases; auto. apply L1. rewrite Heql. rewrite log_recv in Hs0; auto.
  - (* stale key (break variant) *) intros w0 m0 r0 v0 mu0 p0 E. upd_cases; winv; eauto.
    destruct (P _ _ _ _ _ _ Heqw0) as (N1 & I1 & L1). split; auto. split.
    + intros x Hx. apply in_or_app; left; auto.
    + intros s0 Hs0. destruct (L1 _ Hs0). split; auto. apply in_or_app; auto.
Qed.

(* ---------- all together, for every reachable state *)
Record Safe (st : state) : Prop := { sf_pub : InvPub st; sf_flow : InvFlow st; sf_w : InvW st }.

Lemma safe_reach : forall st, reach c wake st -> Safe st.
Proof.
  induction 1 as [|st e st' R [P F Wk] H].
  - constructor; [apply InvPub_init|apply InvFlow_init|apply InvW_init].
  - constructor; [eapply InvPub_step|eapply InvFlow_step|eapply InvW_step]; eauto.
Qed.

(* C08, "only published, never twice": every configuration, every reachable state, every subscriber *)
Lemma only_published_no_dup : forall st s, reach c wake st ->
  NoDup (pubd st) /\ incl (rcv st s) (pubd st) /\ NoDup (rcv st s).
Proof.
  intros st s R. destruct (safe_reach st R) as [P F Wk]. split; [apply P|]. split.
  - intros m Hm. apply (if_incl _ F). unfold flow. rewrite in_app_iff; left.
    apply (iw_log_taken _ Wk s). unfold log; rewrite in_app_iff; auto.
  - pose proof (iw_log_nodup _ Wk s) as N. unfold log in N. eapply NoDup_app_l; eauto.
Qed.

End S.
