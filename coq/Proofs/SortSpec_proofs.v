From FunV Require Import Base.Tac Base.ListX Model.SortSpec.

(* adjacent-pair predicate *)
Fixpoint adj (R : Z -> Z -> Prop) (l : list Z) : Prop :=
  match l with
  | x :: l' => match l' with y :: _ => R x y /\ adj R l' | [] => True end
  | [] => True
  end.

Lemma adj_cons2 R x y l : adj R (x :: y :: l) <-> R x y /\ adj R (y :: l).
Proof. reflexivity. Qed.

Lemma adj_tail R x l : adj R (x :: l) -> adj R l.
Proof. destruct l; simpl; tauto. Qed.

Lemma adj_app R l1 x l2 : adj R (l1 ++ x :: l2) <-> adj R (l1 ++ [x]) /\ adj R (x :: l2).
Proof.
  induction l1 as [|a l1 IH]; simpl app.
  - simpl. tauto.
  - destruct l1 as [|b l1].
    + simpl app. rewrite adj_cons2. simpl. tauto.
    + simpl app in *. rewrite !adj_cons2. rewrite IH. tauto.
Qed.

Lemma adj_rev R l : adj R (rev l) <-> adj (fun x y => R y x) l.
Proof.
  induction l as [|a l IH]; [simpl; tauto|].
  destruct l as [|b l]; [simpl; tauto|].
  rewrite adj_cons2. rewrite <- IH. clear IH.
  change (rev (a :: b :: l)) with ((rev l ++ [b]) ++ [a]).
  rewrite <- app_assoc. simpl app. rewrite adj_app. simpl rev. simpl. tauto.
Qed.

Lemma adj_nth R l :
  adj R l <-> (forall i x y, nth_error l i = Some x -> nth_error l (S i) = Some y -> R x y).
Proof.
  induction l as [|a l IH].
  - simpl. split; [intros _ [|i] x y H; discriminate|tauto].
  - destruct l as [|b l].
    + simpl. split; [intros _ [|[|i]] x y H1 H2; simpl in *; discriminate|tauto].
    + rewrite adj_cons2, IH. split.
      * intros [H S] [|i] x y H1 H2; simpl in H1, H2.
        -- inv H1. inv H2. exact H.
        -- eapply S; eauto.
      * intros H. split; [apply (H 0%nat); reflexivity|].
        intros i x y H1 H2. apply (H (S i)); assumption.
Qed.

Section WithLt.
Variable lt : Z -> Z -> bool.

Definition sortedR : Z -> Z -> Prop := fun x y => lt y x = false.   (* successor y is not lt x *)
Definition sorted (l : list Z) : Prop := adj sortedR l.

(* the property's wording: no adjacent pair is out of order *)
Definition no_adjacent_out_of_order (l : list Z) : Prop :=
  forall i x y, nth_error l i = Some x -> nth_error l (S i) = Some y -> lt y x = false.

Lemma sorted_iff_no_adjacent l : sorted l <-> no_adjacent_out_of_order l.
Proof. apply adj_nth. Qed.

Theorem is_sorted_iff l : is_sorted lt l = true <-> no_adjacent_out_of_order l.
Proof.
  rewrite <- sorted_iff_no_adjacent. unfold sorted.
  induction l as [|a l IH]; [simpl; tauto|].
  destruct l as [|b l]; [simpl; tauto|].
  rewrite adj_cons2. unfold sortedR at 1.
  change (is_sorted lt (a :: b :: l)) with (if lt b a then false else is_sorted lt (b :: l)).
  destruct (lt b a); [split; [discriminate|intros [H _]; discriminate]|].
  rewrite IH. tauto.
Qed.

Theorem is_sorted_short l : (length l <= 1)%nat -> is_sorted lt l = true.
Proof. destruct l as [|a [|b l]]; simpl; intros; try reflexivity; lia. Qed.

(* ---- Heap ---- *)
Hypothesis lt_irrefl : forall a, lt a a = false.
Hypothesis lt_trans : forall a b c, lt a b = true -> lt b c = true -> lt a c = true.
Hypothesis lt_neg_trans : forall a b c, lt a b = false -> lt b c = false -> lt a c = false.

Lemma lt_asym a b : lt a b = true -> lt b a = false.
Proof.
  intros H. destruct (lt b a) eqn:E; [|reflexivity].
  pose proof (lt_trans _ _ _ H E) as H1. rewrite lt_irrefl in H1. discriminate.
Qed.

Definition rsortedR : Z -> Z -> Prop := fun x y => lt x y = false.

Lemma ins_rev_perm t r : Permutation (ins_rev lt t r) (t :: r).
Proof.
  induction r as [|x r IH]; simpl; [reflexivity|].
  destruct (lt t x); [|reflexivity].
  rewrite IH. apply perm_swap.
Qed.

Lemma ins_rev_head t r : exists z rest, ins_rev lt t r = z :: rest /\ (z = t \/ exists r', r = z :: r' /\ lt t z = true).
Proof.
  destruct r as [|x r]; simpl; [eauto|].
  destruct (lt t x) eqn:E; eauto 8.
Qed.

Lemma ins_rev_sorted t r : adj rsortedR r -> adj rsortedR (ins_rev lt t r).
Proof.
  induction r as [|x r IH]; simpl ins_rev; [simpl; tauto|].
  intros S. destruct (lt t x) eqn:E.
  - pose proof (IH (adj_tail _ _ _ S)) as S'.
    destruct (ins_rev_head t r) as (z & rest & Hz & Hc). rewrite Hz in *.
    rewrite adj_cons2. split; [|exact S'].
    destruct Hc as [->|(r' & -> & Hl)].
    + unfold rsortedR. apply lt_asym, E.
    + apply (proj1 (adj_cons2 _ _ _ _) S).
  - rewrite adj_cons2. split; [exact E|exact S].
Qed.

Lemma heap_push_perm t l : Permutation (heap_push lt t l) (t :: l).
Proof.
  unfold heap_push. rewrite <- Permutation_rev, ins_rev_perm. constructor. symmetry. apply Permutation_rev.
Qed.

Lemma heap_push_sorted t l : sorted l -> sorted (heap_push lt t l).
Proof.
  unfold sorted, heap_push. intros S.
  assert (S' : adj rsortedR (rev l)).
  { apply (adj_rev rsortedR l). exact S. }
  apply ins_rev_sorted with (t := t) in S'.
  apply (adj_rev sortedR (ins_rev lt t (rev l))). exact S'.
Qed.

(* head of a sorted list is minimal: nothing in the tail is lt it *)
Lemma sorted_head_min a l : sorted (a :: l) -> forall w, In w l -> lt w a = false.
Proof.
  revert a. induction l as [|b l IH]; intros a S w Hin; [destruct Hin|].
  apply adj_cons2 in S. destruct S as [Hab S].
  destruct Hin as [->|Hin]; [exact Hab|].
  eapply lt_neg_trans; [apply (IH b S w Hin)|exact Hab].
Qed.

(* all runs of pushes/pops from any sorted heap *)
Fixpoint pushed (ops : list hop) : list Z :=
  match ops with [] => [] | HPush v :: o => v :: pushed o | HPop :: o => pushed o end.

Fixpoint somes (l : list (option Z)) : list Z :=
  match l with [] => [] | Some v :: l' => v :: somes l' | None :: l' => somes l' end.

Lemma heap_step_sorted l o : sorted l -> sorted (fst (heap_step lt l o)).
Proof.
  destruct o as [v|]; simpl; [apply heap_push_sorted|].
  destruct l as [|x l]; simpl; [tauto|apply adj_tail].
Qed.

Theorem heap_run_conserves ops : forall l,
  Permutation (somes (fst (heap_run lt l ops)) ++ snd (heap_run lt l ops)) (pushed ops ++ l).
Proof.
  induction ops as [|o ops IH]; intros l; [reflexivity|].
  simpl heap_run. destruct (heap_step lt l o) as [l1 r] eqn:E1.
  destruct (heap_run lt l1 ops) as [rs l2] eqn:E2.
  specialize (IH l1). rewrite E2 in IH. simpl in IH.
  destruct o as [v|]; simpl in E1.
  - inv E1. simpl. rewrite IH. rewrite heap_push_perm. symmetry. apply Permutation_middle.
  - destruct l as [|x l]; inv E1; simpl; [exact IH|].
    rewrite IH. apply Permutation_middle.
Qed.

(* every pop returns a value that no remaining element is lt; None only when empty *)
Fixpoint pops_minimal (l : list Z) (ops : list hop) : Prop :=
  match ops with
  | [] => True
  | o :: ops' =>
      let '(l1, r) := heap_step lt l o in
      match o with
      | HPop => match r with
                | Some v => (forall w, In w l1 -> lt w v = false)
                | None => l = []
                end
      | HPush _ => True
      end /\ pops_minimal l1 ops'
  end.

Theorem heap_pops_minimal ops : forall l, sorted l -> pops_minimal l ops.
Proof.
  induction ops as [|o ops IH]; intros l S; [exact I|].
  simpl. pose proof (heap_step_sorted l o S) as S1.
  destruct (heap_step lt l o) as [l1 r] eqn:E1. simpl in S1.
  split; [|apply IH, S1].
  destruct o as [v|]; [exact I|]. simpl in E1.
  destruct l as [|x l]; inv E1; [reflexivity|].
  apply sorted_head_min, S.
Qed.

(* the sequence of popped values is itself in non-decreasing lt order when no push intervenes *)
Lemma sorted_nil : sorted []. Proof. exact I. Qed.
End WithLt.

(* non-vacuity: the harness's strict weak orders meet the hypotheses *)
Example ltb_is_swo :
  (forall a, Z.ltb a a = false) /\
  (forall a b c, Z.ltb a b = true -> Z.ltb b c = true -> Z.ltb a c = true) /\
  (forall a b c, Z.ltb a b = false -> Z.ltb b c = false -> Z.ltb a c = false).
Proof. repeat split; intros; lia. Qed.

Example heap_example :
  heap_run Z.ltb [] [HPush 3; HPush 1; HPush 2; HPop; HPush 0; HPop; HPop; HPop; HPop]%Z
  = ([Some 1; Some 0; Some 2; Some 3; None]%Z, []).
Proof. reflexivity. Qed.

(* statements in the exact shape used by Props/C17.v *)
Definition strict_weak_order (lt : Z -> Z -> bool) : Prop :=
  (forall a, lt a a = false) /\
  (forall a b c, lt a b = true -> lt b c = true -> lt a c = true) /\
  (forall a b c, lt a b = false -> lt b c = false -> lt a c = false).

Lemma heap_conserves_from_empty (lt : Z -> Z -> bool) (ops : list hop) :
  Permutation (somes (fst (heap_run lt [] ops)) ++ snd (heap_run lt [] ops)) (pushed ops).
Proof. rewrite <- (app_nil_r (pushed ops)). apply heap_run_conserves. Qed.

Lemma heap_pops_minimal_from_empty (lt : Z -> Z -> bool) :
  strict_weak_order lt -> forall ops, pops_minimal lt [] ops.
Proof. intros (H1 & H2 & H3) ops. apply heap_pops_minimal; auto. exact I. Qed.

Example ltb_swo : strict_weak_order Z.ltb.
Proof. repeat split; intros; lia. Qed.
Example gtb_swo : strict_weak_order (fun a b => Z.ltb b a).
Proof. repeat split; intros; lia. Qed.
Example mod3_swo : strict_weak_order (fun a b => Z.ltb (a mod 3) (b mod 3)).
Proof. repeat split; intros; lia. Qed.

(* ---- NewHeapFromIterator: a heap built from any consumed prefix is a heap ---- *)
Lemma heap_from_list_gen (lt : Z -> Z -> bool) :
  strict_weak_order lt -> forall l h, sorted lt h ->
    sorted lt (fold_left (fun h v => heap_push lt v h) l h) /\
    Permutation (fold_left (fun h v => heap_push lt v h) l h) (h ++ l).
Proof.
  intros (H1 & H2 & H3). induction l as [|v l IH]; intros h S; simpl.
  - rewrite app_nil_r. split; [exact S|reflexivity].
  - destruct (IH (heap_push lt v h) (heap_push_sorted lt H1 H2 v h S)) as [S' P]. split; [exact S'|].
    rewrite P. rewrite (heap_push_perm lt v h). simpl. apply Permutation_middle.
Qed.

Lemma heap_from_list_sorted_perm (lt : Z -> Z -> bool) :
  strict_weak_order lt -> forall l, sorted lt (heap_from_list lt l) /\ Permutation (heap_from_list lt l) l.
Proof. intros W l. apply (heap_from_list_gen lt W l []). exact I. Qed.

(* ... and stays one under every later push/pop sequence *)
Lemma heap_from_list_pops_minimal (lt : Z -> Z -> bool) :
  strict_weak_order lt -> forall l ops, pops_minimal lt (heap_from_list lt l) ops.
Proof.
  intros W l ops. destruct (heap_from_list_sorted_perm lt W l) as [S _]. destruct W as (H1 & H2 & H3).
  apply heap_pops_minimal; auto.
Qed.

Lemma heap_from_list_conserves (lt : Z -> Z -> bool) :
  strict_weak_order lt -> forall l ops,
    Permutation (somes (fst (heap_run lt (heap_from_list lt l) ops)) ++ snd (heap_run lt (heap_from_list lt l) ops)) (pushed ops ++ l).
Proof.
  intros W l ops. rewrite heap_run_conserves. apply Permutation_app_head. apply (heap_from_list_sorted_perm lt W l).
Qed.
