(* C19: the statements exported to Props/C19.v, phrased over the model's own functions
   (new_hist, record_values, run_hops, value_at_rank, ...) for histograms reachable from New by
   arbitrary op lists, plus non-vacuity examples. *)
From FunV Require Import Base.Tac Model.Hdr Proofs.Hdr_bits Proofs.Hdr_geom Proofs.Hdr_walk Proofs.Hdr_data.
Local Open Scope Z_scope.

(* ------------------------------------------------------------------ finite minimum / maximum, existence of the k-th occurrence *)
Lemma min_exists (P : Z -> bool) (vs : list Z) :
  (exists x, In x vs /\ P x = true) ->
  exists x, In x vs /\ P x = true /\ forall y, In y vs -> P y = true -> x <= y.
Proof.
  induction vs as [|a vs IH]; intros (x & Hx & Px); [destruct Hx|].
  destruct (existsb P vs) eqn:Ex.
  - apply existsb_exists in Ex. destruct (IH Ex) as (z & Hz & Pz & Mz).
    destruct (P a) eqn:Pa.
    + destruct (Z.le_gt_cases a z).
      * exists a. split; [left; reflexivity|]. split; [assumption|].
        intros y [->|Hy] Py; [lia|]. specialize (Mz y Hy Py). lia.
      * exists z. split; [right; assumption|]. split; [assumption|].
        intros y [->|Hy] Py; [lia|]. apply Mz; assumption.
    + exists z. split; [right; assumption|]. split; [assumption|].
      intros y [->|Hy] Py; [congruence|]. apply Mz; assumption.
  - assert (Hno : forall y, In y vs -> P y = false).
    { intros y Hy. destruct (P y) eqn:Py; [|reflexivity].
      assert (existsb P vs = true) by (apply existsb_exists; eauto). congruence. }
    destruct Hx as [->|Hx]; [|rewrite (Hno x Hx) in Px; discriminate].
    exists x. split; [left; reflexivity|]. split; [assumption|].
    intros y [->|Hy] Py; [lia|]. rewrite (Hno y Hy) in Py. discriminate.
Qed.

Lemma max_exists (P : Z -> bool) (vs : list Z) :
  (exists x, In x vs /\ P x = true) ->
  exists x, In x vs /\ P x = true /\ forall y, In y vs -> P y = true -> y <= x.
Proof.
  intros (x & Hx & Px).
  destruct (min_exists (fun z => P (- z)) (map Z.opp vs)) as (z & Hz & Pz & Mz).
  { exists (- x). split; [apply in_map; assumption|]. rewrite Z.opp_involutive. assumption. }
  apply in_map_iff in Hz. destruct Hz as (w & <- & Hw). rewrite Z.opp_involutive in Pz.
  exists w. split; [assumption|]. split; [assumption|].
  intros y Hy Py. specialize (Mz (- y) (in_map Z.opp vs y Hy)). rewrite Z.opp_involutive in Mz.
  specialize (Mz Py). lia.
Qed.

Lemma weight_ext_in P Q (l : recs) :
  (forall v, In v (map fst l) -> P v = Q v) -> weight P l = weight Q l.
Proof.
  induction l as [|vn t IH]; intros H; [reflexivity|]. rewrite !weight_cons.
  rewrite (H (fst vn)) by (left; reflexivity). rewrite IH; [reflexivity|].
  intros v Hv. apply H. right. assumption.
Qed.

Lemma weight_pos_in P (l : recs) : 0 < weight P l -> exists v, In v (map fst l) /\ P v = true.
Proof.
  induction l as [|vn t IH]; intros H; [simpl in H; lia|]. rewrite weight_cons in H.
  destruct (P (fst vn)) eqn:E.
  - exists (fst vn). split; [left; reflexivity|assumption].
  - destruct (IH ltac:(lia)) as (v & Hv & Pv). exists v. split; [right; assumption|assumption].
Qed.

(* every rank 1..total has an exact order statistic *)
Lemma kth_exists lo hi (l : recs) k :
  valid_recs lo hi l -> 1 <= k <= w_all l -> exists e, is_kth lo hi l k e.
Proof.
  intros V Hk. set (vs := map fst l).
  assert (Hin : forall v, In v vs -> lo <= v <= hi).
  { intros v Hv. apply in_map_iff in Hv. destruct Hv as (vn & <- & Hvn).
    unfold valid_recs in V. rewrite Forall_forall in V. apply (V vn Hvn). }
  destruct (weight_pos_in (fun _ => true) l ltac:(unfold w_all in Hk; lia)) as (v0 & Hv0 & _).
  destruct (max_exists (fun _ => true) vs (ex_intro _ v0 (conj Hv0 eq_refl))) as (xm & Hxm & _ & Mx).
  assert (Em : weight (fun v => v <=? xm) l = w_all l).
  { apply weight_ext_in. intros v Hv. specialize (Mx v Hv eq_refl). lia. }
  set (P := fun e => k <=? weight (fun v => v <=? e) l).
  destruct (min_exists P vs) as (e & He & Pe & Me).
  { exists xm. split; [assumption|]. unfold P. rewrite Em. lia. }
  exists e. split; [apply Hin; assumption|]. split; [|unfold P in Pe; lia].
  destruct (Z.lt_ge_cases (weight (fun v => v <? e) l) k) as [|Hge]; [assumption|exfalso].
  destruct (weight_pos_in (fun v => v <? e) l ltac:(lia)) as (v1 & Hv1 & Pv1).
  destruct (max_exists (fun v => v <? e) vs (ex_intro _ v1 (conj Hv1 Pv1))) as (e' & He' & Pe' & Me').
  assert (E' : weight (fun v => v <=? e') l = weight (fun v => v <? e) l).
  { apply weight_ext_in. intros v Hv. destruct (v <? e) eqn:E1.
    - specialize (Me' v Hv E1). lia.
    - lia. }
  specialize (Me e' He'). unfold P in Me. rewrite E' in Me. specialize (Me ltac:(lia)). lia.
Qed.

(* n calls of iterator.next() in a row (stops at the first call that returns false or panics) *)
Fixpoint iter_run (n : nat) (h : hist) (it : iter) : step :=
  match n with
  | O => SNext it
  | S k => match iter_next h it with SNext it' => iter_run k h it' | r => r end
  end.

Section Main.
Variables (lo hi sig : Z) (h0 : hist).
Hypothesis SH : shape_ok lo hi sig.
Hypothesis N0 : new_hist lo hi sig = Ok h0.
Local Notation u := (Z.log2 lo).
Local Notation m := (scm_of sig).

Lemma h0_wf : wf lo hi sig h0 /\ h_total h0 = 0 /\ (forall i, h_counts h0 i = 0).
Proof. apply (h0_facts lo hi sig SH h0 [] N0). Qed.

(* New terminates without panic on every valid shape, with this geometry *)
Lemma new_total : exists h, new_hist lo hi sig = Ok h /\
  h_unit h = Z.log2 lo /\ h_sbc h = 2 ^ scm_of sig /\ h_shc h = 2 ^ (scm_of sig - 1) /\
  h_mask h = (2 ^ scm_of sig - 1) * 2 ^ Z.log2 lo /\
  1 <= h_bc h /\ hi < h_sbc h * 2 ^ (h_unit h + h_bc h - 1) /\
  h_clen h = (h_bc h + 1) * h_shc h /\ h_len h = h_clen h.
Proof.
  destruct (new_hist_geom lo hi sig SH) as (h & E & G & _ & _ & _ & _ & L & _).
  exists h. split; [assumption|]. destruct G.
  split; [assumption|]. split; [assumption|]. split; [assumption|]. split; [assumption|]. split; [assumption|].
  split; [|split; [|assumption]].
  - rewrite g_sbc, g_unit. rewrite <- pow2_add by lia.
    replace (m + (u + h_bc h - 1)) with (u + m + h_bc h - 1) by lia. assumption.
  - rewrite g_clen, g_shc. reflexivity.
Qed.

(* every value in [lo, hi] gets a valid counts index, so RecordValues accepts it *)
Lemma record_in_range_succeeds v : lo <= v <= hi ->
  0 <= counts_index_for h0 v < h_clen h0 /\ forall n, snd (record_values h0 v n) = true.
Proof.
  intros Hv. destruct h0_wf as (W & _). pose proof (wf_geom _ _ _ _ W) as G.
  pose proof (in_range_lt_top lo hi sig SH h0 v W Hv) as Hvt.
  pose proof (top_63 _ _ _ _ G). rewrite (cif _ _ _ _ G) by lia.
  split; [apply (cidx_range _ _ _ _ G); assumption|].
  intros n. apply (record_values_accepts _ _ _ _ G h0 v n eq_refl eq_refl Hvt).
Qed.

(* equivalent ranges: contain v, have width 2^(unit+bucket), within the promised precision *)
Lemma equiv_range v : lo <= v <= hi ->
  exists hv, highest_equivalent_value h0 v = Some hv /\
    lowest_equivalent_value h0 v <= v <= hv /\
    hv - lowest_equivalent_value h0 v + 1 = 2 ^ (h_unit h0 + get_bucket_index h0 v) /\
    hv - lowest_equivalent_value h0 v + 1 <= Z.max (2 ^ Z.log2 lo) (v / 10 ^ sig).
Proof.
  intros Hv. destruct h0_wf as (W & _). pose proof (wf_geom _ _ _ _ W) as G.
  pose proof (in_range_lt_top lo hi sig SH h0 v W Hv) as Hvt. pose proof (top_63 _ _ _ _ G).
  destruct SH as (Hs & Hlo & _).
  exists (highest u m v). rewrite (highest_spec _ _ _ _ G) by assumption.
  rewrite (lowest_spec _ _ _ _ G) by assumption. rewrite (gbi _ _ _ _ G) by lia. rewrite (g_unit _ _ _ _ G).
  split; [reflexivity|]. split; [apply (lowest_le _ _ _ _ G); lia|].
  assert (E : highest u m v - lowest u m v + 1 = width u m v) by (unfold highest; lia).
  rewrite E. split; [reflexivity|].
  apply (width_bound _ _ _ _ G); [lia|].
  split; [apply Z.pow_pos_nonneg; lia|apply shc_ge_pow10; assumption].
Qed.

(* index round trip: the ends of v's equivalent range map to v's counts index *)
Lemma index_roundtrip_range v : lo <= v <= hi ->
  counts_index_for h0 (lowest_equivalent_value h0 v) = counts_index_for h0 v /\
  forall hv, highest_equivalent_value h0 v = Some hv -> counts_index_for h0 hv = counts_index_for h0 v.
Proof.
  intros Hv. destruct h0_wf as (W & _). pose proof (wf_geom _ _ _ _ W) as G.
  pose proof (in_range_lt_top lo hi sig SH h0 v W Hv) as Hvt. pose proof (top_63 _ _ _ _ G).
  pose proof (lowest_le _ _ _ _ G v ltac:(lia)) as [L1 L2].
  pose proof (highest_lt_top _ _ _ _ G v Hvt) as [L0 Lt].
  rewrite (lowest_spec _ _ _ _ G) by assumption.
  split.
  - rewrite !(cif _ _ _ _ G) by lia.
    apply (same_cell_ranges _ _ _ _ G v (lowest u m v)); lia.
  - intros hv E. rewrite (highest_spec _ _ _ _ G) in E by assumption. inversion E; subst hv.
    rewrite !(cif _ _ _ _ G) by lia.
    apply (same_cell_ranges _ _ _ _ G v (highest u m v)); lia.
Qed.

(* ---- histograms reachable from New by any list of RecordValues (any value, n >= 0) and Reset *)
Section Reach.
Variable ops : list hop.
Hypothesis Onn : ops_nonneg ops.
Hypothesis Osmall : ops_weight ops < 2 ^ 63.

Lemma reach_wf : wf lo hi sig (run_hops h0 ops).
Proof.
  destruct h0_wf as (W & T & _).
  apply (total_conserved_gen lo hi sig ops h0 h0 W (same_geom_refl h0) Onn). lia.
Qed.

(* totalCount = sum of the counts = occurrences accepted since the last Reset *)
Lemma total_conserved :
  h_total (run_hops h0 ops) = spec_total h0 0 ops /\
  h_total (run_hops h0 ops) = cum (h_counts (run_hops h0 ops)) (h_clen (run_hops h0 ops) - 1).
Proof.
  destruct h0_wf as (W & T & _).
  destruct (total_conserved_gen lo hi sig ops h0 h0 W (same_geom_refl h0) Onn ltac:(lia)) as (_ & _ & A & B).
  rewrite T in A. auto.
Qed.

Lemma iter_run_never_panics : forall n, iter_run n (run_hops h0 ops) iter_init <> SPanic.
Proof.
  assert (G : forall n p it, it_at lo sig (run_hops h0 ops) p it -> iter_run n (run_hops h0 ops) it <> SPanic).
  { induction n as [|n IH]; intros p it Hat; [discriminate|]. cbn [iter_run].
    destruct (iter_next_spec lo hi sig _ reach_wf p it Hat) as [A B].
    destruct (Z.le_gt_cases (h_total (run_hops h0 ops)) (cum (h_counts (run_hops h0 ops)) p)) as [C|C].
    - rewrite (A C). discriminate.
    - destruct (B C) as (_ & it' & E & Hat'). rewrite E. apply (IH _ _ Hat'). }
  intros n. apply (G n (-1)). apply (it_at_init lo hi sig _ reach_wf).
Qed.

Lemma iterator_never_panics :
  (forall p it, it_at lo sig (run_hops h0 ops) p it -> iter_next (run_hops h0 ops) it <> SPanic) /\
  (forall k, exists r, value_at_rank (run_hops h0 ops) k = Ok r) /\
  (exists r, hist_min (run_hops h0 ops) = Ok r) /\ (exists r, hist_max (run_hops h0 ops) = Ok r).
Proof. apply (walks_never_panic lo hi sig SH _ reach_wf). Qed.

(* no valid sequence of calls trips the invariant panics: any number of iterator steps, every rank
   given to ValueAtQuantile's walk, Min and Max all return normally (and within the model's fuel) *)
Lemma no_invariant_panic :
  (forall n, iter_run n (run_hops h0 ops) iter_init <> SPanic) /\
  (forall k, exists r, value_at_rank (run_hops h0 ops) k = Ok r) /\
  (exists r, hist_min (run_hops h0 ops) = Ok r) /\ (exists r, hist_max (run_hops h0 ops) = Ok r).
Proof.
  split; [exact iter_run_never_panics|]. destruct iterator_never_panics as (_ & A). exact A.
Qed.

Lemma reach_export_import_equal :
  exists h', import (export (run_hops h0 ops)) = Ok h' /\
             equals (run_hops h0 ops) h' = Ok true /\ equals h' (run_hops h0 ops) = Ok true /\
             total_count h' = total_count (run_hops h0 ops).
Proof. apply (export_import_equal lo hi sig SH _ reach_wf). Qed.

Lemma reach_merge_into_empty_equal :
  exists t', merge h0 (run_hops h0 ops) = Ok (t', 0) /\ equals t' (run_hops h0 ops) = Ok true /\
             total_count t' = total_count (run_hops h0 ops).
Proof. apply (merge_into_empty_equal lo hi sig SH _ h0 reach_wf N0). Qed.

End Reach.

(* ---- WindowedHistogram.Merge over windows that are reachable histograms of the same shape *)
Definition ops_ok (ops : list hop) : Prop := ops_nonneg ops /\ ops_weight ops < 2 ^ 63.

Lemma window_merge_total (idx : Z) (opss : list (list hop)) (mops : list hop) :
  Forall ops_ok opss -> ops_ok mops -> sum_totals (map (run_hops h0) opss) < 2 ^ 63 ->
  exists w', w_merge (mkW idx (map (run_hops h0) opss) (run_hops h0 mops)) = Ok w' /\
             w_h w' = map (run_hops h0) opss /\ w_idx w' = idx /\
             h_total (w_m w') = sum_totals (map (run_hops h0) opss) /\
             (forall i, h_counts (w_m w') i = sum_counts (map (run_hops h0) opss) i).
Proof.
  intros Hs [Mn Mw] Sm. unfold w_merge. cbn [w_h w_m w_idx].
  assert (Wl : Forall (wf lo hi sig) (map (run_hops h0) opss)).
  { apply Forall_map. eapply Forall_impl; [|exact Hs]. intros ops [A B]. apply reach_wf; assumption. }
  destruct (reset_wf lo hi sig _ (reach_wf mops Mn Mw)) as [Wm Tm].
  destruct (w_merge_all_spec lo hi sig _ _ Wl Wm ltac:(lia)) as (m' & E & W' & T' & C').
  rewrite E. eexists. split; [reflexivity|]. cbn [w_h w_m w_idx].
  split; [reflexivity|]. split; [reflexivity|]. split; [lia|].
  intros i. rewrite C'. unfold reset. cbn [h_counts]. lia.
Qed.

(* ---- recorded data *)
Section Recorded.
Variable l : recs.
Hypothesis V : valid_recs lo hi l.
Hypothesis Small : w_all l < 2 ^ 63.

Lemma records_succeed_and_count :
  all_true (record_oks h0 l) /\ total_count (record_all h0 l) = w_all l.
Proof. apply (recorded_total lo hi sig SH h0 l N0 V Small). Qed.

(* for every rank 1 <= k <= total there is an exact order statistic e, and value_at_rank returns a value v
   with e <= v, v - e below one bucket width at e, which is at most max(2^floor(log2 min), e / 10^sigfigs) *)
Lemma quantile_bound_all k : 1 <= k <= w_all l ->
  exists e v, is_kth lo hi l k e /\ value_at_rank (record_all h0 l) k = Ok v /\
              e <= v /\ v - e < 2 ^ (h_unit h0 + get_bucket_index h0 e) /\
              2 ^ (h_unit h0 + get_bucket_index h0 e) <= Z.max (2 ^ Z.log2 lo) (e / 10 ^ sig).
Proof.
  intros Hk. destruct (kth_exists lo hi l k V Hk) as (e & K). exists e.
  destruct (quantile_bound lo hi sig SH h0 l N0 V Small k e K) as (v & E & A & B & C).
  exists v. destruct h0_wf as (W & _). pose proof (wf_geom _ _ _ _ W) as G. pose proof K as (He & _).
  pose proof (in_range_lt_top lo hi sig SH h0 e W He) as Het. pose proof (top_63 _ _ _ _ G).
  rewrite (gbi _ _ _ _ G) by lia. rewrite (g_unit _ _ _ _ G). unfold width in *. auto.
Qed.

Lemma width_model e : lo <= e <= hi -> width u m e = 2 ^ (h_unit h0 + get_bucket_index h0 e).
Proof.
  intros He. destruct h0_wf as (W & _). pose proof (wf_geom _ _ _ _ W) as G.
  pose proof (in_range_lt_top lo hi sig SH h0 e W He) as Het. pose proof (top_63 _ _ _ _ G).
  rewrite (gbi _ _ _ _ G) by lia. rewrite (g_unit _ _ _ _ G). reflexivity.
Qed.

(* Min / Max bracket the smallest / largest value recorded with a positive count, with the same precision *)
Lemma min_bracket_model e :
  lo <= e <= hi -> weight (fun v => v <? e) l = 0 -> 0 < weight (fun v => v =? e) l ->
  exists v, hist_min (record_all h0 l) = Ok v /\ v <= e /\
            e - v < 2 ^ (h_unit h0 + get_bucket_index h0 e) /\
            2 ^ (h_unit h0 + get_bucket_index h0 e) <= Z.max (2 ^ Z.log2 lo) (e / 10 ^ sig).
Proof.
  intros He Hz Hp. destruct (min_bracket lo hi sig SH h0 l N0 V Small e He Hz Hp) as (v & A & B & C & D).
  exists v. rewrite <- (width_model e He). auto.
Qed.

Lemma max_bracket_model e :
  lo <= e <= hi -> weight (fun v => e <? v) l = 0 -> 0 < weight (fun v => v =? e) l ->
  exists v, hist_max (record_all h0 l) = Ok v /\ e <= v /\
            v - e < 2 ^ (h_unit h0 + get_bucket_index h0 e) /\
            2 ^ (h_unit h0 + get_bucket_index h0 e) <= Z.max (2 ^ Z.log2 lo) (e / 10 ^ sig).
Proof.
  intros He Hz Hp. destruct (max_bracket lo hi sig SH h0 l N0 V Small e He Hz Hp) as (v & A & B & C & D).
  exists v. rewrite <- (width_model e He). auto.
Qed.

End Recorded.
End Main.

(* ------------------------------------------------------------------ non-vacuity *)
Example shape_ok_example : shape_ok 1 2048 3 /\ shape_ok 1000 100000000 3 /\ shape_ok (2 ^ 49 - 1) (2 ^ 55) 1.
Proof. unfold shape_ok. repeat split; vm_compute; congruence. Qed.

Definition ex_recs : recs := [(2048, 1); (1, 2); (500, 10); (2047, 1); (1024, 3)].

Example valid_example : valid_recs 1 2048 ex_recs /\ w_all ex_recs = 17 /\ is_kth 1 2048 ex_recs 9 500 /\ is_kth 1 2048 ex_recs 17 2048.
Proof.
  split; [repeat constructor; cbn; lia|]. split; [reflexivity|].
  split; (split; [lia|vm_compute; split; congruence]).
Qed.

Example run_example :
  match new_hist 1 2048 3 with
  | Ok h0 => let h := record_all h0 ex_recs in
             (record_oks h0 ex_recs, total_count h, value_at_rank h 9, value_at_rank h 17, hist_min h, hist_max h)
             = ([true; true; true; true; true], 17, Ok 500, Ok 2049, Ok 1, Ok 2049)
  | _ => False
  end.
Proof. vm_compute. reflexivity. Qed.

Example ops_example :
  ops_nonneg [HRecord 5 2; HRecord 99999 1; HReset; HRecord 7 3] /\
  match new_hist 1 2048 3 with
  | Ok h0 => spec_total h0 0 [HRecord 5 2; HRecord 99999 1; HReset; HRecord 7 3] = 3 /\
             h_total (run_hops h0 [HRecord 5 2; HRecord 99999 1; HReset; HRecord 7 3]) = 3
  | _ => False
  end.
Proof. split; [repeat constructor; lia|]. vm_compute. split; reflexivity. Qed.


Example window_example :
  match new_hist 1 2048 3 with
  | Ok h0 =>
      match w_merge (mkW 0 [run_hops h0 [HRecord 5 2]; run_hops h0 [HRecord 2048 1; HRecord 7 4]] (run_hops h0 [HRecord 9 9])) with
      | Ok w' => (h_total (w_m w'), h_counts (w_m w') 5, hist_max (w_m w')) = (7, 2, Ok 2049)
      | _ => False
      end
  | _ => False
  end.
Proof. vm_compute. reflexivity. Qed.
