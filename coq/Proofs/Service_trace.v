(* C10 — invariant relating the history (the list of labels executed so far) and the callers'
   program counters to the state, for every run, any number of callers, every interleaving. *)
From FunV Require Import Base.Tac Model.ServiceModel Proofs.Service_inv.

Local Arguments Nat.leb : simpl never.
Local Arguments Nat.eqb : simpl never.

(* ---------------------------------------------------------------- runs *)

Lemma run_app : forall c a b s s', run c s (a ++ b) = Some s' ->
  exists m, run c s a = Some m /\ run c m b = Some s'.
Proof.
  induction a as [|l a IH]; cbn; intros b s s' H.
  - eauto.
  - destruct (step c s l) as [s1|]; [|discriminate]. eauto.
Qed.

Lemma run_snoc : forall c a l s s1 s2, run c s a = Some s1 -> step c s1 l = Some s2 -> run c s (a ++ [l]) = Some s2.
Proof.
  induction a as [|x a IH]; cbn; intros l s s1 s2 H1 H2.
  - inv H1. rewrite H2. reflexivity.
  - destruct (step c s x); [|discriminate]. eauto.
Qed.

Lemma sinv_run : forall c ls s s', SInv c s -> run c s ls = Some s' -> SInv c s'.
Proof.
  induction ls as [|l ls IH]; cbn; intros s s' I H.
  - inv H. assumption.
  - destruct (step c s l) eqn:E; [|discriminate]. eauto using sinv_step.
Qed.

(* ---------------------------------------------------------------- counting *)

Definition cntl (p : label -> bool) (ls : list label) : nat := length (filter p ls).
Definition cnt (p : cpc -> bool) (l : list cpc) : nat := length (filter p l).

Arguments cntl : simpl never.
Arguments cnt : simpl never.

Lemma cntl_snoc : forall p ls l, cntl p (ls ++ [l]) = cntl p ls + Nat.b2n (p l).
Proof. intros. unfold cntl. rewrite filter_app, app_length. cbn. destruct (p l); reflexivity. Qed.

Lemma cnt_snoc : forall p l x, cnt p (l ++ [x]) = cnt p l + Nat.b2n (p x).
Proof. intros. unfold cnt. rewrite filter_app, app_length. cbn. destruct (p x); reflexivity. Qed.

Lemma cnt_upd : forall p l i a b, nth_error l i = Some a ->
  cnt p (upd l i b) + Nat.b2n (p a) = cnt p l + Nat.b2n (p b).
Proof.
  unfold cnt. induction l as [|h t IH]; intros i a b H.
  - destruct i; discriminate.
  - destruct i; cbn in *.
    + inv H. destruct (p a), (p b); cbn; lia.
    + specialize (IH _ _ b H). destruct (p h); cbn; lia.
Qed.

Lemma cntl_pos_in : forall p ls, 1 <= cntl p ls -> exists l, In l ls /\ p l = true.
Proof.
  unfold cntl. induction ls as [|x ls IH]; cbn; intros H; [lia|].
  destruct (p x) eqn:E; [exists x; auto|]. destruct (IH H) as [l [? ?]]. exists l; auto.
Qed.

Lemma in_cntl_pos : forall p ls l, In l ls -> p l = true -> 1 <= cntl p ls.
Proof.
  unfold cntl. induction ls as [|x ls IH]; cbn; intros l H Hp; [tauto|].
  destruct H as [->|H]; [rewrite Hp; cbn; lia|]. specialize (IH _ H Hp). destruct (p x); cbn; lia.
Qed.

Lemma in_cntl_pos_c : forall p (l : list cpc) x, In x l -> p x = true -> 1 <= cnt p l.
Proof.
  unfold cnt. induction l as [|h t IH]; cbn; intros x H Hp; [tauto|].
  destruct H as [->|H]; [rewrite Hp; cbn; lia|]. specialize (IH _ H Hp). destruct (p h); cbn; lia.
Qed.

Lemma Forall_upd : forall A (P : A -> Prop) l i x, Forall P l -> P x -> Forall P (upd l i x).
Proof.
  induction l as [|h t IH]; intros i x H Hx; cbn; [destruct i; constructor|].
  inv H. destruct i; constructor; auto.
Qed.

Lemma Forall_nth : forall A (P : A -> Prop) l i x, Forall P l -> nth_error l i = Some x -> P x.
Proof. intros A P l i x H E. rewrite Forall_forall in H. apply H. eapply nth_error_In; eauto. Qed.

(* ---------------------------------------------------------------- label classes *)

Definition phase_eqb (a b : phase) : bool :=
  match a, b with PRun, PRun | PSd, PSd | PCl, PCl | PEh, PEh => true | _, _ => false end.
Definition is_begin (p : phase) (l : label) : bool := match l with LBegin q => phase_eqb p q | _ => false end.
Definition is_end (p : phase) (l : label) : bool := match l with LEnd q => phase_eqb p q | _ => false end.
Definition is_nilret (l : label) : bool := match l with LRet _ (RStart SNil) => true | _ => false end.
Definition is_startret (l : label) : bool := match l with LRet _ (RStart _) => true | _ => false end.
Definition is_closeinv (l : label) : bool := match l with LInv KClose => true | _ => false end.
Definition is_pcancel (l : label) : bool := match l with LParentCancel => true | _ => false end.

Definition is_sbody (pc : cpc) : bool := match pc with SBody => true | _ => false end.
Definition is_retnil (pc : cpc) : bool := match pc with SRet SNil => true | _ => false end.
Definition is_closepc (pc : cpc) : bool := match pc with C0 | C1 | C2 | CRet => true | _ => false end.

(* ---------------------------------------------------------------- what a Wait result must look like *)

Definition any_panic (c : cfg) : bool :=
  is_panic (oRun c) || is_absent (oRun c) || is_panic (oSd c) || is_panic (oCl c).

Definition wres_ok (c : cfg) (r : wres) : Prop :=
  match r with
  | WNotStarted => True
  | WNil => agg_nonnil c = false
  | WAgg e => agg_nonnil c = true /\
              tRunErr e = is_err (oRun c) /\ tRunPan e = is_panic (oRun c) /\
              tSdErr e = is_err (oSd c) /\ tSdPan e = is_panic (oSd c) /\
              tClErr e = is_err (oCl c) /\ tClPan e = is_panic (oCl c) /\
              (any_panic c = true -> tMark e = true)
  end.

Lemma resolve_ok : forall c m d e, 13 <= mrank m -> 7 <= drank d -> wres_ok c (resolve (ec_of c m d e)).
Proof.
  intros c m d e Hm Hd.
  assert (E1 : (4 <=? mrank m) = true) by lia. assert (E2 : (6 <=? mrank m) = true) by lia.
  assert (E3 : (11 <=? mrank m) = true) by lia. assert (E4 : (12 <=? mrank m) = true) by lia.
  assert (E5 : (5 <=? drank d) = true) by lia. assert (E6 : (6 <=? drank d) = true) by lia.
  unfold resolve, ec_is_empty, ec_of, wres_ok, agg_nonnil, any_panic; cbn.
  rewrite E1, E2, E3, E4, E5, E6.
  destruct (oRun c), (oSd c), (oCl c); cbn;
    destruct (is_panic (oEh c)); cbn; destruct (8 <=? erank e); cbn; repeat split; auto.
Qed.

(* ---------------------------------------------------------------- caller-local invariant *)

Definition cpc_ok (c : cfg) (fin sta : bool) (b : bpc) (pc : cpc) : Prop :=
  match pc with
  | SRet SReturned => fin = true
  | SRet _ => b = BDone
  | W2 => sta = true
  | W3 => fin = true
  | WRet WNotStarted => True
  | WRet r => fin = true /\ wres_ok c r
  | _ => True
  end.

Lemma cpc_ok_mono : forall c fin sta b fin' sta' b' pc,
  (fin = true -> fin' = true) -> (sta = true -> sta' = true) -> (b = BDone -> b' = BDone) ->
  cpc_ok c fin sta b pc -> cpc_ok c fin' sta' b' pc.
Proof.
  intros c fin sta b fin' sta' b' pc H1 H2 H3 H.
  destruct pc as [ | | |r| | | | |r| | | | | | | | ]; cbn in *; auto; destruct r; cbn in *; intuition.
Qed.

Definition outc (c : cfg) (p : phase) : outcome :=
  match p with PRun => oRun c | PSd => oSd c | PCl => oCl c | PEh => oEh c end.

Record TInv (c : cfg) (ls : list label) (s : state) : Prop := {
  ti_callers : Forall (cpc_ok c (fFin s) (fSta s) (body s)) (callers s);
  ti_brun : cntl (is_begin PRun) ls = Nat.b2n ((2 <=? mrank (mn s)) && negb (is_absent (oRun c)));
  ti_erun : cntl (is_end PRun) ls = Nat.b2n ((3 <=? mrank (mn s)) && negb (is_absent (oRun c)));
  ti_bsd : cntl (is_begin PSd) ls = Nat.b2n ((3 <=? drank (sd s)) && negb (is_absent (oSd c)));
  ti_esd : cntl (is_end PSd) ls = Nat.b2n ((4 <=? drank (sd s)) && negb (is_absent (oSd c)));
  ti_bcl : cntl (is_begin PCl) ls = Nat.b2n ((9 <=? mrank (mn s)) && negb (is_absent (oCl c)));
  ti_ecl : cntl (is_end PCl) ls = Nat.b2n ((10 <=? mrank (mn s)) && negb (is_absent (oCl c)));
  ti_beh : cntl (is_begin PEh) ls = Nat.b2n ((6 <=? erank (eh s)) && negb (is_absent (oEh c)) && agg_nonnil c);
  ti_ctx : ctxDone s = true -> 5 <= mrank (mn s) \/ 1 <= cntl is_closeinv ls \/ 1 <= cntl is_pcancel ls;
  ti_parent : parentDone s = true -> 1 <= cntl is_pcancel ls;
  ti_close : cnt is_closepc (callers s) <= cntl is_closeinv ls;
  ti_nil : cntl is_nilret ls + cnt is_retnil (callers s) + cnt is_sbody (callers s) = Nat.b2n (1 <=? brank (body s));
  ti_sbody : cnt is_sbody (callers s) = Nat.b2n ((1 <=? brank (body s)) && (brank (body s) <=? 10));
  ti_sret : 1 <= cntl is_startret ls -> 1 <= brank (body s)
}.

Lemma tinv_init : forall c, TInv c [] init.
Proof. intro c. constructor; unfold cnt, cntl; cbn; try reflexivity; try lia; try discriminate. constructor. Qed.

Ltac rw_out :=
  repeat match goal with
         | E : oEh ?c = _ |- context [oEh ?c] => rewrite E
         | E : oEh ?c = _, H : context [oEh ?c] |- _ => rewrite E in H
         | E : oRun ?c = _ |- context [oRun ?c] => rewrite E
         | E : oRun ?c = _, H : context [oRun ?c] |- _ => rewrite E in H
         | E : oSd ?c = _ |- context [oSd ?c] => rewrite E
         | E : oSd ?c = _, H : context [oSd ?c] |- _ => rewrite E in H
         | E : oCl ?c = _ |- context [oCl ?c] => rewrite E
         | E : oCl ?c = _, H : context [oCl ?c] |- _ => rewrite E in H
         | E : agg_nonnil ?c = _ |- context [agg_nonnil ?c] => rewrite E
         end.

(* callers unchanged or one caller updated, global fields fin/sta/body possibly advanced *)
Ltac callers_tac :=
  match goal with
  | |- Forall _ (upd _ _ _) =>
      apply Forall_upd;
      [ match goal with
        | H : Forall _ ?cl |- Forall _ ?cl =>
            first [ exact H
                  | eapply Forall_impl; [|exact H]; intros ? ?; eapply cpc_ok_mono; [| | |eassumption];
                    cbn; intros; first [assumption | reflexivity | discriminate | congruence | lia] ]
        end
      | cbn; first [exact I | reflexivity | assumption | (split; [assumption|]) | idtac ] ]
  | H : Forall _ ?cl |- Forall _ ?cl =>
      first [ exact H
            | eapply Forall_impl; [|exact H]; intros ? ?; eapply cpc_ok_mono; [| | |eassumption];
              cbn; intros; first [assumption | reflexivity | discriminate | congruence | lia] ]
  end.

Ltac cnt_facts cl i pc x En :=
  pose proof (cnt_upd is_retnil cl i pc x En);
  pose proof (cnt_upd is_sbody cl i pc x En);
  pose proof (cnt_upd is_closepc cl i pc x En).

(* each goal is solved from the few hypotheses that concern it (lia is slow on the full context) *)
Ltac cnt_goal Jcfg :=
  match goal with
  | |- cntl ?p ?ls + _ = _ =>
      match goal with
      | H : cntl p ls = _ |- _ =>
          let J := fresh "J" in
          pose proof Jcfg as J; unfold pcs_cfg_ok in J; cbn in J; rw_out; cbn in J; clear - H J; cbn in *; lia
      end
  | |- cntl ?p ?ls = _ =>
      match goal with
      | H : cntl p ls = _ |- _ =>
          let J := fresh "J" in
          pose proof Jcfg as J; unfold pcs_cfg_ok in J; cbn in J; rw_out; cbn in J; clear - H J; cbn in *; lia
      end
  end.

Ltac callers_goal Inil Isb Iclose :=
  repeat match goal with H : cnt _ (upd _ _ _) + _ = _ |- _ => revert H end;
  clear - Inil Isb Iclose; intros; cbn in *; lia.

Ltac t_fin :=
  cbn in *; rewrite ?cntl_snoc; cbn in *; rw_out; cbn in *; rewrite ?Nat.add_0_r;
  try assumption; try reflexivity.

Ltac ctx_goal Ictx :=
  let Hc := fresh "Hc" in
  intros Hc;
  first [ solve [left; lia]
        | destruct (Ictx Hc) as [?|[?|?]]; [left; lia | right; left; lia | right; right; lia] ].

Ltac fin Jcfg Inil Isb Iclose :=
  constructor; t_fin;
  try solve [callers_tac]; try solve [cnt_goal Jcfg]; try solve [callers_goal Inil Isb Iclose];
  try solve [match goal with Ictx : _ -> _ \/ _ \/ _ |- _ -> _ \/ _ \/ _ => ctx_goal Ictx end].

Lemma tinv_step : forall c ls s l s', SInv c s -> TInv c ls s -> step c s l = Some s' -> TInv c (ls ++ [l]) s'.
Proof.
  intros c ls s l s' SI I H.
  destruct s as [fr ff fs b cs cd pd ss es ms w e eh0 sd0 mn0 cl].
  destruct SI as [Jrun Jfin Jsta Jcancel Jsd Jeh Jmain Jeh0 Jsd0 Jmn0 Jwg Jge Jgm Jgs Jgc Jcfg Jec].
  destruct I as [Ic Ibrun Ierun Ibsd Iesd Ibcl Iecl Ibeh Ictx Ipar Iclose Inil Isb Isret].
  cbn in *.
  destruct l as [k | t | p | p | i r | h i | | ]; cbn in H.
  - (* LInv *)
    inv H. constructor; cbn; rewrite ?cntl_snoc, ?cnt_snoc; cbn; rewrite ?Nat.add_0_r; try assumption.
    + apply Forall_app; split; [assumption|]. constructor; [|constructor]. destruct k; exact I.
    + intros Hc. destruct (Ictx Hc) as [?|[?|?]]; [left|right;left|right;right]; lia.
    + clear - Iclose. destruct k; cbn; lia.
    + clear - Inil. destruct k; cbn; lia.
    + clear - Isb. destruct k; cbn; lia.
  - (* LTau *)
    destruct t as [i | | | ]; cbn in H.
    + (* caller *)
      unfold step_caller in H; cbn in H.
      destruct (nth_error cl i) as [pc|] eqn:En; [|discriminate].
      pose proof (Forall_nth _ _ _ _ _ Ic En) as Hs.
      destruct pc; try discriminate; cbn in H.
      * (* S0 *) destruct ff eqn:Eff; inv H; [cnt_facts cl i S0 (SRet SReturned) En | cnt_facts cl i S0 S1 En];
          fin Jcfg Inil Isb Iclose.
      * (* S1 *) destruct b; try discriminate; inv H.
        -- cnt_facts cl i S1 SBody En. fin Jcfg Inil Isb Iclose; try solve [intros; lia].
        -- cnt_facts cl i S1 (SRet SAlready) En. fin Jcfg Inil Isb Iclose.
      * (* SBody *)
        unfold step_body in H; cbn in H.
        destruct b; try discriminate; inv H; try solve [fin Jcfg Inil Isb Iclose; intros; first [lia | tauto]].
        (* B9 *) cnt_facts cl i SBody (SRet SNil) En. fin Jcfg Inil Isb Iclose; try solve [intros; lia].
      * (* W0 *) destruct ff eqn:Eff; inv H; [cnt_facts cl i W0 W3 En | cnt_facts cl i W0 W1 En]; fin Jcfg Inil Isb Iclose.
      * (* W1 *) destruct fs eqn:Efs; inv H; [cnt_facts cl i W1 W2 En | cnt_facts cl i W1 (WRet WNotStarted) En]; fin Jcfg Inil Isb Iclose.
      * (* W2 *) destruct w; [|discriminate]. inv H. cnt_facts cl i W2 W3 En. fin Jcfg Inil Isb Iclose.
        apply Forall_upd; [assumption|]. cbn in *.
        pose proof (adds_facts b); pose proof (done_e_facts eh0); pose proof (done_d_facts sd0); pose proof (done_m_facts mn0).
        clear - Hs Jwg H2 H3 H4 H5. lia.
      * (* W3 *) inv H. cnt_facts cl i W3 (WRet (resolve (ec_of c mn0 sd0 eh0))) En.
        cbn in Hs.
        assert (Hw : wres_ok c (resolve (ec_of c mn0 sd0 eh0))) by (apply resolve_ok; [clear - Hs; lia | apply Jgm; clear - Hs; lia]).
        fin Jcfg Inil Isb Iclose.
        apply Forall_upd; [assumption|]. cbn. destruct (resolve (ec_of c mn0 sd0 eh0)); cbn in *; auto.
      * (* C0 *) destruct fr eqn:Efr; inv H; [cnt_facts cl i C0 C1 En | cnt_facts cl i C0 CRet En]; fin Jcfg Inil Isb Iclose.
      * (* C1 *) destruct cs eqn:Ecs; inv H; [cnt_facts cl i C1 C2 En | cnt_facts cl i C1 CRet En]; fin Jcfg Inil Isb Iclose.
      * (* C2 *) inv H. cnt_facts cl i C2 CRet En. fin Jcfg Inil Isb Iclose.
        intros _. right. left.
        assert (1 <= cnt is_closepc cl) by (eapply (in_cntl_pos_c is_closepc); [eapply nth_error_In; eauto | reflexivity]).
        lia.
      * (* R0 *) destruct fr eqn:Efr; inv H; [cnt_facts cl i R0 R1 En | cnt_facts cl i R0 (RRet false) En]; fin Jcfg Inil Isb Iclose.
      * (* R1 *) inv H. cnt_facts cl i R1 (RRet (negb (13 <=? mrank mn0))) En. fin Jcfg Inil Isb Iclose.
    + (* EH *)
      unfold step_eh in H; cbn in H.
      destruct eh0; try discriminate; cbn in H.
      * destruct ms; [|discriminate]. inv H. fin Jcfg Inil Isb Iclose.
      * destruct es; [|discriminate]. inv H. fin Jcfg Inil Isb Iclose.
      * inv H. destruct (oEh c) eqn:Eo; fin Jcfg Inil Isb Iclose.
      * inv H. rewrite ec_empty_finished by (cbn; lia).
        destruct (agg_nonnil c) eqn:Ea; fin Jcfg Inil Isb Iclose.
      * inv H. destruct (oEh c) eqn:Eo; fin Jcfg Inil Isb Iclose.
      * inv H. fin Jcfg Inil Isb Iclose.
      * inv H. fin Jcfg Inil Isb Iclose.
      * inv H. fin Jcfg Inil Isb Iclose.
    + (* SD *)
      unfold step_sd in H; cbn in H.
      destruct sd0; try discriminate; cbn in H.
      * destruct cd; [|discriminate]. inv H. destruct (oSd c) eqn:Eo; fin Jcfg Inil Isb Iclose.
      * inv H. destruct (oSd c) eqn:Eo; fin Jcfg Inil Isb Iclose.
      * inv H. destruct (oSd c) eqn:Eo; fin Jcfg Inil Isb Iclose.
      * inv H. destruct (oSd c) eqn:Eo; fin Jcfg Inil Isb Iclose.
      * inv H. fin Jcfg Inil Isb Iclose.
      * inv H. fin Jcfg Inil Isb Iclose.
    + (* MAIN *)
      unfold step_main in H; cbn in H.
      destruct mn0; try discriminate; cbn in H.
      * destruct (oRun c) eqn:Eo; cbn in H; try discriminate; inv H; fin Jcfg Inil Isb Iclose; try solve [intros; left; lia].
      * inv H. destruct (oRun c) eqn:Eo; fin Jcfg Inil Isb Iclose.
      * inv H. fin Jcfg Inil Isb Iclose; try solve [intros; left; lia].
      * inv H. destruct (oRun c) eqn:Eo; fin Jcfg Inil Isb Iclose.
      * destruct ss; [|discriminate]. inv H. fin Jcfg Inil Isb Iclose.
      * inv H. fin Jcfg Inil Isb Iclose.
      * destruct (oCl c) eqn:Eo; cbn in H; try discriminate; inv H; fin Jcfg Inil Isb Iclose.
      * inv H. destruct (oCl c) eqn:Eo; fin Jcfg Inil Isb Iclose.
      * inv H. destruct (oCl c) eqn:Eo; fin Jcfg Inil Isb Iclose.
      * inv H. fin Jcfg Inil Isb Iclose.
      * inv H. fin Jcfg Inil Isb Iclose.
      * inv H. fin Jcfg Inil Isb Iclose.
      * inv H. fin Jcfg Inil Isb Iclose.
  - (* LBegin *)
    destruct p; cbn in H.
    + destruct mn0; try discriminate. destruct (oRun c) eqn:Eo; cbn in H; try discriminate; inv H; fin Jcfg Inil Isb Iclose.
    + destruct sd0; try discriminate. inv H. destruct (oSd c) eqn:Eo; fin Jcfg Inil Isb Iclose.
    + destruct mn0; try discriminate. destruct (oCl c) eqn:Eo; cbn in H; try discriminate; inv H; fin Jcfg Inil Isb Iclose.
    + destruct eh0; try discriminate. inv H. destruct (oEh c) eqn:Eo; fin Jcfg Inil Isb Iclose.
  - (* LEnd *)
    destruct p; cbn in H.
    + destruct mn0; try discriminate. inv H. destruct (oRun c) eqn:Eo; fin Jcfg Inil Isb Iclose.
    + destruct sd0; try discriminate. inv H. destruct (oSd c) eqn:Eo; fin Jcfg Inil Isb Iclose.
    + destruct mn0; try discriminate. inv H. destruct (oCl c) eqn:Eo; fin Jcfg Inil Isb Iclose.
    + destruct eh0; try discriminate. inv H. fin Jcfg Inil Isb Iclose.
  - (* LRet *)
    unfold step_ret in H; cbn in H.
    destruct (nth_error cl i) as [pc|] eqn:En; [|discriminate].
    pose proof (Forall_nth _ _ _ _ _ Ic En) as Hs.
    destruct pc, r; try discriminate; cbn in H.
    + destruct r0, r; cbn in H; try discriminate; inv H;
        [cnt_facts cl i (SRet SNil) Gone En | cnt_facts cl i (SRet SAlready) Gone En | cnt_facts cl i (SRet SReturned) Gone En];
        fin Jcfg Inil Isb Iclose; cbn in Hs; intros _;
        first [ solve [subst b; cbn; lia] | solve [clear - Hs Jmn0; destruct b; cbn in *; lia] ].
    + destruct (wres_eqb r0 r); [|discriminate]. inv H. cnt_facts cl i (WRet r0) Gone En. fin Jcfg Inil Isb Iclose.
    + inv H. cnt_facts cl i CRet Gone En. fin Jcfg Inil Isb Iclose.
    + destruct (Bool.eqb b0 b1); [|discriminate]. inv H. cnt_facts cl i (RRet b0) Gone En. fin Jcfg Inil Isb Iclose.
  - (* LYield *)
    destruct h.
    + destruct (nth_error cl i) as [[]|]; try discriminate. inv H. fin Jcfg Inil Isb Iclose.
    + destruct (nth_error cl i) as [[]|]; try discriminate. destruct b; try discriminate. inv H. fin Jcfg Inil Isb Iclose.
  - (* LYieldMain *) destruct mn0; try discriminate. inv H. fin Jcfg Inil Isb Iclose.
  - (* LParentCancel *)
    destruct cs; inv H; fin Jcfg Inil Isb Iclose; intros; try (right; right); lia.
Qed.
