(* List / permutation / sortedness lemmas shared by several models. *)
From FunV Require Import Base.Tac.
From Coq Require Export Permutation Sorting.Sorted.

Section ListX.
Context {A : Type}.

Lemma rev_eq_nil (l : list A) : rev l = [] -> l = [].
Proof. destruct l as [|a l]; [reflexivity|]. simpl. intros H. destruct (rev l); discriminate. Qed.

Lemma removelast_app_one (l : list A) (x : A) : removelast (l ++ [x]) = l.
Proof. apply removelast_last. Qed.

Lemma last_app_one (l : list A) (x d : A) : last (l ++ [x]) d = x.
Proof. apply last_last. Qed.

Lemma list_snoc_cases (l : list A) : l = [] \/ exists l' x, l = l' ++ [x].
Proof.
  destruct l as [|a l]; [left; reflexivity|right].
  destruct (exists_last (l:=a::l)) as (l' & x & E); [discriminate|]. eauto.
Qed.

Lemma Permutation_snoc (l : list A) (x : A) : Permutation (l ++ [x]) (x :: l).
Proof. symmetry. apply Permutation_cons_append. Qed.

End ListX.
