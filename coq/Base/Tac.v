(* Shared tactics. Stdlib only. *)
From Coq Require Export List Arith ZArith Lia Bool.
From Coq Require Export ZifyBool ZifyNat ZifyN.
Export ListNotations.

Ltac inv H := inversion H; subst; clear H.
Ltac destr_if := match goal with |- context [if ?c then _ else _] => destruct c eqn:? end.
Ltac destr_if_in H := match type of H with context [if ?c then _ else _] => destruct c eqn:? end.
Ltac destr_match := match goal with |- context [match ?c with _ => _ end] => destruct c eqn:? end.
Ltac destr_match_in H := match type of H with context [match ?c with _ => _ end] => destruct c eqn:? end.
