"""C10 — srv.Service lifecycle: each phase once, in order, errors complete."""
DRIVER = "c10"
TRUSTED = [
    "sync.Once, sync/atomic, channels (close / receive), context cancellation, fun.WaitGroup and the erc.Collector mutex are model primitives (one atomic step each); goroutine scheduling fairness and goroutine exit are trusted",
    "errors.Is on the aggregate is modelled as membership in a token set (one token per phase error / panic value, plus ErrRecoveredPanic)",
    "yield hooks srv/verif_on.go (build tag verif; points Start.checked, Start.launched, main.finished; VerifWaitGoroutines) and the call-log recorder of harness/cmd/c10",
    "the acceptance search (Model/ServiceAccept.v: memoised depth-first search over hidden steps, node budget 20000, measured maximum 1129 on 22k recorded logs); a log it cannot place within the budget is reported as a mismatch, never accepted",
]
ASSUMPTIONS = [
    "the ErrorHandler is set before Start and not changed afterwards; Run/Shutdown/Cleanup/ErrorHandler do not call back into the Service",
    "theorems quantify over every interleaving of the modelled atomic steps, any number of Start/Close/Wait/Running callers and every outcome in {absent, ok, error, panic}^4 (partial in DESIGN's sense: the runtime primitives are modelled, not verified)",
]
EXPLANATION = ("Theorems in coq/Props/C10.v are invariants over every run of the transition system coq/Model/ServiceModel.v "
               "(Start/Close/Wait/Running callers, the three service goroutines with their deferred chains in LIFO order). "
               "The model is tied to /repo by replaying every recorded call log of the real srv.Service (hook-driven schedules and "
               "free-running concurrent callers) through the model's executable `accepts` under vm_compute; the property's direct "
               "oracles are evaluated on the same logs independently of the model.")
READY = True
LEVEL_TEXT = ("Machine-checked Coq theorems (inductive invariants of the step relation, any number of callers, every interleaving, every "
              "outcome combination): Run at most once; exactly one Start returns nil; Shutdown once and only after the context ended; "
              "Cleanup once after Run and Shutdown returned; ErrorHandler at most once, after Cleanup, non-nil aggregate; Wait returns only "
              "after all phases returned with a complete aggregate; Running() false after Wait.")
LEVEL_NOTE = ("partial: sync.Once, atomics, channels, context, WaitGroup and the Collector are model primitives (modelled, not verified); "
              "the hand-written model is tied to the code by call-log acceptance (vm_compute) on ~2.5k recorded runs per quick check, "
              "including deterministic race placements through the verif yield hooks and panic windows (a panic value whose formatter parks inside erc.Recover while a late Wait/Running/Start is issued).")
TECHNIQUE = "Coq proof (inductive invariants over an interleaving transition system) + vm_compute call-log acceptance against the real srv.Service under yield-hook schedules"
