"""C19 — HDR histogram conserves counts and answers quantiles within its precision."""
DRIVER = "c19"
TRUSTED = [
    "the float expressions of hdrhist.New that depend only on sigfigs (Pow10, Log2, Ceil, Pow) are the table 5/8/11/15/18 in the model; "
    "all five values are compared with the implementation on every run",
    "ValueAtQuantile's rank int64(q/100*float64(total)+0.5) is modelled with Coq primitive binary64 floats (kernel primitives) and compared "
    "with the implementation's value on every quantile case; the quantile theorem quantifies over the rank",
    "Go int32/int64 conversions, shifts with a uint count, slice indexing and fun.Invariant panics are modelled by hand (wrap32/wrap64/shl/shr, option/res results)",
    "Mean and StdDev (float summaries) are outside the property and not modelled",
    "several live histograms: the model treats histograms and snapshots as values (Export copies, Import/Merge/New touch one store entry); "
    "Import adopting the snapshot's slice is honoured by the driver (a snapshot is imported at most once and never touched afterwards)",
]
ASSUMPTIONS = [
    "shape: 1 <= sigfigs <= 5, 1 <= min <= max < 2^62 and floor(log2 min) + subBucketCountMagnitude(sigfigs) <= 62 "
    "(exact boundary, proved as C19_new_rejects_or_terminates: for 1 <= min <= max < 2^63 New returns iff this holds; otherwise "
    "smallestUntrackableValue wraps to 0 and the bucket loop never ends)",
    "recorded values lie in [min, max], counts passed to RecordValues are >= 0 and the total stays below 2^63",
]
EXPLANATION = ("Theorems in coq/Props/C19.v about the integer model coq/Model/Hdr.v of dt/hdrhist (New's geometry, bitLen, index arithmetic, "
               "RecordValues, iterator, ValueAtQuantile, Min, Max, Merge, Export/Import, Equals), for all shapes, all values and all call sequences; "
               "the model is tied to /repo by re-running it under vm_compute on every generated (shape, script) case and comparing geometry, "
               "bucket/sub-bucket/counts indices, equivalent ranges, record results, totals, ranks, quantile answers, Min, Max, round-trip and merge results "
               "with what the real histogram returned; multi-histogram cases run Export/Import/Merge/Reset/RecordValues over a store of live histograms and snapshots and evaluate every oracle per histogram against its own data (aliasing between histograms is reported as C19:Export:aliased / C19:Import:aliased); independent Go oracles check the property itself on the implementation.")
READY = True
LEVEL_TEXT = ("Machine-checked Coq theorems over all shapes/values/op lists: bitLen = log2+1; every in-range value gets a valid counts index; "
              "equivalent ranges contain the value and are no wider than max(2^floor(log2 min), v/10^sigfigs); TotalCount is conserved; "
              "value_at_rank returns highestEquivalent(exact order statistic); Min/Max bracket; iterator never panics; Export/Import and "
              "Merge-into-empty give an Equal histogram with nothing dropped; WindowedHistogram over arbitrary record/Rotate/Merge lists: "
              "merged TotalCount = occurrences of the newest n rotation periods, Merge idempotent, Rotate drops exactly the oldest period. Model tied to /repo by differential correspondence on every run.")
LEVEL_NOTE = ("Trusted: Coq kernel + vm_compute + primitive floats for the rank; hand-written Z model with explicit int32/int64 wraps; "
              "sigfigs->magnitude table; correspondence is differential testing (about 1.7k cases quick, incl. geometry and index internals).")
TECHNIQUE = "Coq proof (Z.log2/shift lemmas, induction over op lists and iterator walks) + vm_compute correspondence against dt/hdrhist"
