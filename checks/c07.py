"""C07 — blocking queue/deque operations never miss a wake-up."""
DRIVER = "c07"
TRUSTED = [
    "Go's sync.Mutex / sync.Cond (Wait = atomic register-and-unlock; Signal wakes one registered waiter, Broadcast all), context "
    "cancellation and goroutine scheduling are MODELLED by Conc/Monitor.v (which additionally allows spurious wake-ups), not verified; "
    "scheduler fairness (a runnable goroutine eventually runs) is trusted: 'promptly' is proved as 'a wake-up is pending' / 'at quiescence'",
    "that every method of Queue/Deque is one critical section of the monitor (lock released only inside cond.Wait) is the premise checked "
    "by C05/C06/C13, not here; the signal lists of the model (who Signals/Broadcasts what) are hand-transcribed from queue.go/deque.go and "
    "exercised by the scenarios and the seeded mutations",
    "quiescence detection of the driver: stop-the-world goroutine snapshots (runtime.Stack) parsed for `sync.Cond.Wait` / `chan receive` states",
    "Go int modelled by Z; the quota tracker's float64 credit is a Coq primitive float (IEEE binary64, kernel primitive)",
]
ASSUMPTIONS = [
    "C07_queue_consumers / C07_ctx_wakes hold for helper goroutines that broadcast under the mutex (the code after "
    "fixes_pending/C07-helper-broadcast-locked.diff) or for schedules without the cancellation race; the unguarded statement for an "
    "unlocked helper is refuted by a concrete schedule (C07_*_unlocked_helper_refuted)",
    "the Deque is the code as repaired by C06-deque-wakeups.diff; the Queue's doAdd broadcasts nupdates (C20-nupdates-broadcast.diff); "
    "the variant that only Signals is refuted (C07_nupdates_mixed_refuted_before_fix)",
]
EXPLANATION = ("Queue and Deque are instances (coq/Model/QueueMonitor.v, DequeMonitor.v) of the generic monitor transition system "
               "coq/Conc/Monitor.v whose critical sections, waiter predicates and Signal/Broadcast lists are transcribed from the code. "
               "Theorems in coq/Props/C07.v quantify over every assignment of operations to unboundedly many threads, every tracker state, "
               "and every schedule of the monitor's atomic steps: nempty obeys the Signal+exit-broadcast cascade discipline, nupdates and "
               "the Deque's three conds the Broadcast discipline, Close leaves nobody parked, a call whose predicate holds does not park, "
               "verdicts are justified. Concrete refuting schedules are replayed by an executable step function proved sound for the step "
               "relation. The tie to /repo: harness/cmd/c07 runs scenarios (parked consumers/producers x burst, race, Close and cancel "
               "patterns) on the real Queue/Distributor/Deque with 10 s deadlines, decides 'blocked at quiescence' from goroutine "
               "snapshots, applies the property's direct oracles, and prints each scenario with its outcome as a Coq term that "
               "coq/Corr/C07_corr.v checks against the outcomes the model allows.")
READY = True
LEVEL_TEXT = ("Machine-checked Coq theorems over all numbers of blocked consumers/producers/iterators, all operation mixes and all "
              "interleavings of signal, lock re-acquisition and re-check: pending-wake invariant and no parked consumer on a non-empty "
              "queue at quiescence (Signal + exit-broadcast cascade); no operation ever parked on nupdates / nfront / nback / updates "
              "while its predicate holds (Broadcast discipline, every reachable state); closed container => nobody parked; "
              "already-true calls do not park; cancelled waiters have a pending wake-up; justified verdicts. Model tied to /repo by "
              "scenario correspondence and direct oracles on every run.")
LEVEL_NOTE = ("Partial in DESIGN's sense: the theorems are about all schedules of the MODELLED atomic steps (sync.Cond/Mutex/context semantics "
              "are Monitor.v's model); 'promptly' = 'a wake-up is pending in every reachable state' and 'not parked at quiescence'; scheduler "
              "fairness trusted. The cascade/ctx theorems need helpers that broadcast under the lock (or race-free schedules); the unguarded "
              "form is refuted for unlocked helpers. Signal lists are hand-transcribed (no regenerated skeleton / wake_ok checker); "
              "correspondence is scenario-based differential testing (about 900 scenarios quick) with snapshot-based quiescence.")
TECHNIQUE = ("Coq proof (inductive invariants over a monitor transition system, any number of threads and any schedule; refutations by "
             "vm_compute replay of concrete schedules) + vm_compute correspondence of recorded scenarios against pubsub.Queue/Deque")
DRIVER_TIMEOUT = {"quick": 600, "thorough": 6000}


def regenerate(V):
    """The case files import Corr/C07_corr.vo, which `make Props/C07.vo` does not rebuild: build it here so that it is
    always consistent with the current Conc/Monitor.vo and the models."""
    ok, out = V.coq_make(["Corr/C07_corr.vo"])
    return {"ok": ok, "log": "" if ok else out[-2000:], "what": "Corr/C07_corr.vo does not build", "obligations": []}
SEARCH_SEEDS = 1
SEARCH_TIMEOUT = 900
