"""C12 — error aggregation (ers.Join / ers.Stack / ers.Wrap / ParsePanic / erc.Collector) is lossless and
errors.Is / errors.As / Unwind-consistent."""
DRIVER = "c12"
TRUSTED = [
    "Go's errors.Is / errors.As traversal (==, Is/As method, Unwrap() error, Unwrap() []error; go1.20+) is modelled once "
    "as go_is / go_as in coq/Model/ErrTree.v and not verified; likewise fmt.Errorf(%w) (one wrapper with Unwrap() error; a plain "
    "error when the operand is nil) and errors.Join (drops nils, nil when nothing is left)",
    "error values are immutable finite trees whose objects carry the identity the driver's registry gives them; a *ers.Stack "
    "is represented by the list of its nodes' err fields up to the zero-valued sentinel node that ends every chain built from a "
    "zero Stack; identity comparison against an interior node of a stack is modelled as false (such nodes are never targets); "
    "a stack that is pushed to after it was embedded in another error (aliasing of the live head, cf. Collector.Resolve, C13) "
    "is outside the model and the driver never does it",
    "errors.Is guards its == with reflectlite.TypeOf(target).Comparable() (standard library): the uncomparable slice-/map-based "
    "user error types (TypedU) are therefore matched only through their own Is method, and == on two of them (which would panic) "
    "is never evaluated by the modelled code",
    "fun.Iterator plumbing used by erc.Consume / erc.Stream (ReadOne's context check, AddError into the iterator's own ers.Stack, "
    "Observe = Join(Close(), loop error, ParsePanic(recover()))) is transcribed in observe_loop and belongs to C02; the driver's "
    "scripted producer (item / failing source / cancel-then-item) is deterministic, no timing involved; context.Canceled is one "
    "pointer error (id 90); erc.WithTime (ers/timestamp.go) is not modelled",
    "the only type with an Unwind() []error method in the universe is *ers.Stack, so the precedence of Unwind() over "
    "Unwrap() []error in Stack.Push / internal.Unwind is transcribed but only exercised through *ers.Stack",
    "concurrent Collector: the premise of Conc/LockedObject (Add / Len / Resolve / Iterator are each one critical section under ec.mu; Iterator is modelled as a snapshot taken under the lock) "
    "is not proved here; it is exercised by the concurrent stress of this driver (every Iterator()/Len()/Resolve() snapshot taken while producers Add is checked for prefix consistency against atomic stamps, in a child process so that a runtime crash is a verdict) and checked syntactically by C13's skeleton; "
    "sync.Mutex is modelled, not verified",
]
ASSUMPTIONS = [
    "is_join_iff / as_join_iff / is_exactly_nodes assume well-formed operands (no nil inside a stack's chain); "
    "C12_programs_wf proves that every value any program of the API builds is well-formed",
    "errors.Is targets are errors that an aggregation keeps whole (constants, pointer errors, typed errors, %w wrappers); "
    "a stack or multi used as a target is flattened by Join and is outside the property",
    "parse_panic_marked excludes a []error panic value (known finding C12:ParsePanic:error-slice, refutation proved)",
]
EXPLANATION = ("Theorems in coq/Props/C12.v over all finite error trees / all programs / all traces of concurrent Collector "
               "calls; the model is tied to /repo by re-running it under vm_compute on every generated program and comparing "
               "with what the real ers/erc code returned (result identity, ers.Unwind, Stack.Unwind, errors.Is for every leaf "
               "of the universe, errors.As per type, Len, ers.Ok); direct oracles on the implementation at every aggregation "
               "node plus a concurrent Collector stress.")
READY = True
LEVEL_TEXT = ("Machine-checked Coq theorems over all finite error trees: Join is nil iff no constituent was supplied; Join of one "
              "constituent is that constituent; Unwind(Join) = supplied constituents, each once, most recent first; errors.Is on the "
              "result = errors.Is on some operand for every target (both directions) and finds exactly the nodes of the tree; "
              "errors.As likewise; erc.Consume/Stream (after Adds through Add/Handler/Check/Collect/When/Recover/RecoverHook) hold exactly what was added, delivered and carried by the iterator; FilterExclude is all-or-nothing; Ok/Wrap/Wrapf/RemoveOk/Append never drop an error that still holds a constituent, including inner layers obtained with errors.Unwrap; ParsePanic marks every panic except a []error value (refutation proved, known finding); the "
              "Collector holds exactly the constituents added, sequentially and (LockedObject instance) for every concurrent trace. "
              "Model tied to /repo by differential correspondence on every run.")
LEVEL_NOTE = ("Trusted: Coq kernel + vm_compute; hand-written tree model of ers.Stack/Join/Wrap/ParsePanic/internal.Unwind/"
              "erc.Collector; errors.Is/As, fmt.Errorf and errors.Join are modelled (standard library); correspondence is "
              "differential testing (6k programs quick); the one-critical-section premise for the concurrent Collector is "
              "exercised by stress, not proved.")
TECHNIQUE = ("Coq proof (nested structural induction over error trees and programs; LockedObject instance for the Collector) "
             "+ vm_compute correspondence against ers/erc + direct oracles on the implementation")
