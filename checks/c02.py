"""C02 — sequential iterator pipelines equal their functional specification."""
DRIVER = "c02"
TRUSTED = [
    "context: the model runs every pipeline under a live context (ctx.Err() = nil); cancellation of derived contexts on Close is not modelled (it only reaches sub-iterators that are never read again)",
    "goroutine-backed order-preserving operators (Buffer, Split(1), Channel/BufferedChannel, Chain, MergeSlices, MergeSliceIterators) are sequentialised in the model: the background loop runs at the operator's first call and fills a queue; their schedules are C01/C04's subject. The REAL operators are run by the driver, so a loss or reordering shows as a disagreement",
    "eager conversions (MarshalJSON, List/Stack Populate, risky.Slice) run at construction time in Go and at the first read in the model (no state is shared between subtrees, so the difference is unobservable)",
    "encoding/json (bytes compared with a 10-line render of the value list), dt.List / dt.Stack internals (C16), errors.Is and ers.Stack (C12) are trusted; error collections are compared as sets of ids (errors.Is against sentinel errors)",
    "Uniq's use of Next()/Value() is modelled as ReadOne (the cached value field is not modelled); MergeSliceIterators' and Indexed's intermediate converter iterators are modelled on Z with the pair (i,v) encoded as i*1000+v",
    "user functions are total functions of (call index, input) without re-entrancy into the pipeline",
]
ASSUMPTIONS = [
    "reading of the property fixed in DESIGN.md: truncation is per iterator — a plain error ends the iterator whose user function returned it (and is reported by that iterator's Close, and by enclosing iterators that install a close hook: Uniq, DropZeroValues, Buffer, Chain, MergeSliceIterators); ErrCurrentOpAbort / context errors returned by a user function are passed through unchanged and end the enclosing Join as well; itertool.Chain continues with the next operand after any error",
    "statements are of the form `exists n0, forall n >= n0, run n ... = Some ...`: the fuel of the retry loops is a modelling device; the theorems show the loops terminate and the result does not depend on the fuel",
]
EXPLANATION = ("Theorems in coq/Props/C02.v over all operator trees (20 operators), all inputs, all user functions "
               "(arbitrary Coq functions of call index and input) and all fault positions: draining ReadOne from the initial "
               "state of the transcribed pipeline yields the denotation's values, ends with its terminating error, returns io.EOF "
               "afterwards, and Close reports exactly the denotation's error ids; skip removal; Reduce = fold; Count = length. "
               "The operational model (ReadOne's closed flag / skip-retry / collected-vs-terminating errors / doClose hooks, "
               "Transform.Producer's retry loop, Producer.Join's five-stage machine, Filter, Uniq, DropZeroValues, the drain loops) "
               "is tied to /repo by re-running it under vm_compute on every generated tree and comparing with what the real "
               "pipeline (built from the real constructors and methods) yielded, how it ended, what ReadOne returned afterwards and "
               "which error ids Close() reported. A plain-slice functional oracle written in Go checks the implementation directly.")
READY = True
LEVEL_TEXT = ("Machine-checked Coq theorems (axiom-free): for every finite operator tree, input and user-function table, the "
              "operational model of the fun.Iterator pipeline yields exactly the functional denotation (values, terminating error, "
              "Close error ids), for ReadOne, Next/Value, Slice, Count and Reduce; ErrIteratorSkip removes exactly that element; "
              "after an error every ReadOne returns io.EOF. Model tied to /repo by differential correspondence on every run.")
LEVEL_NOTE = ("Trusted: Coq kernel + vm_compute; hand-written model of iterator.go/producer.go/transform.go/itertool.go; "
              "goroutine-backed operators sequentialised (schedules are C01/C04); correspondence is differential testing "
              "(20k random trees + fault-position corpus in the quick tier); encoding/json, dt.List/Stack, errors.Is trusted.")
TECHNIQUE = "Coq proof (fuel-monotone big-step semantics, induction over operator trees) + vm_compute correspondence against the real fun.Iterator pipelines + plain-slice oracle"
DRIVER_TIMEOUT = {"quick": 900, "thorough": 7200}
