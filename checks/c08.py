"""C08 — broker delivers each message exactly once, in order, to every subscriber."""
DRIVER = "c08"
TRUSTED = [
    "Go channels, select, context, sync.Map (Range: each present key at most once; keys deleted or added concurrently may or may not appear) and goroutine scheduling are model primitives of coq/Model/BrokerModel.v, not verified",
    "the distributor back-ends are FIFO buffers with a capacity and a full-policy in the model (Queue/Deque internals are C05/C06/C07's subject); quota refusals of a limited Queue are nondeterministic in the model",
    "the driver synthesises the schedule of model events from the observed event-loop order (tapped distributor) and delivery logs; Coq replays it through `step` and is the judge",
    "quiescence of the real broker is read from stop-the-world goroutine snapshots (runtime.Stack) plus the distributor's length",
]
ASSUMPTIONS = [
    "subscribers keep receiving (a rendezvous with a subscriber is always possible); scheduler fairness",
    "C08_subscribed_throughout_exactly_once: the back-end wakes a parked receiver when the buffer is non-empty or its context ended (premise discharged for Queue/Deque by C07)",
    "publications are identified by distinct message ids",
]
EXPLANATION = ("Theorems in coq/Props/C08.v are invariants over every reachable state of the broker transition system "
               "(any number of callers, subscribers, messages, workers; every BrokerOptions/back-end; every interleaving). "
               "The model is tied to /repo on every run: the driver runs the real pubsub.Broker over channel, Queue, Deque, "
               "blocking bounded Deque, LIFO(Force-push) and limited Queue distributors, checks the direct oracles on the "
               "per-subscriber delivery logs, and emits each run as a Coq case that the model must accept step by step and "
               "whose logs it must reproduce.")
READY = True
LEVEL_TEXT = ("Machine-checked Coq theorems over the broker model: every subscriber only receives published messages and none twice "
              "(all configurations); with one dispatch worker every log is in distributor order = Publish-rendezvous order and no two "
              "subscribers disagree; for a lossless broker a subscriber that never unsubscribes gets every message published while it "
              "was subscribed exactly once at quiescence. The clause 'before its Unsubscribe was called' is refuted "
              "(C08_unsubscribe_inflight_refuted) and reproduced on the code as a known finding.")
LEVEL_NOTE = ("Partial in DESIGN's sense: theorems quantify over all interleavings of the MODELLED atomic steps; channels, select, "
              "context and sync.Map.Range are model primitives; 'eventually' is rendered as quiescence (scheduler fairness trusted); "
              "the back-end's no-lost-wake-up property is a premise (C07). Correspondence replays schedules synthesised from phased "
              "runs (subscriber set changes at observed-idle points, the in-flight-unsubscribe corpus); runs in which subscribers join "
              "while publishers are running are checked by the Go oracles only.")
TECHNIQUE = "Coq proof (inductive invariants of a transition system) + vm_compute replay of schedules recorded from the real broker"
DRIVER_TIMEOUT = {"quick": 900, "thorough": 3000}
