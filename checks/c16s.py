"""C16 (dt.Stack half) — temporary spec; the lead merges DRIVERS/PROPS into checks/c16.py."""
import vcheck as _V

DRIVERS = ["c16stack"]
PROPS = ["C16_stack"]
TRUSTED = [
    "encoding/json (byte syntax of elements) is Go's; the model works on the decoded sequence",
    "fun.Iterator (Producer.Iterator, Next/Value/Close) is used as the client would; only Stack.Producer/ProducerPop are modelled",
]
ASSUMPTIONS = [
    "operation lists avoid Item.Remove of the current head item (known finding C16:Item.Remove:attached-head) and Item.Detach (outside the property's operation list; defective, see report)",
]
EXPLANATION = ("Theorems in coq/Props/C16_stack.v over all operation lists on two stacks with arbitrary handles; the pointer-level model "
               "coq/Model/StackHeap.v is tied to /repo/dt/stack.go by re-running it under vm_compute on every generated case and comparing with "
               "what the real dt.Stack showed after every step.")
READY = False
LEVEL_TEXT = "Machine-checked Coq theorems about a statement-by-statement model of dt/stack.go; model tied to /repo by differential correspondence on every run."
LEVEL_NOTE = "Trusted: Coq kernel + vm_compute; hand-written model; correspondence is differential testing (3k sequences quick)."
TECHNIQUE = "Coq proof (invariant + refinement over arbitrary op lists) + vm_compute correspondence against dt.Stack"

# the findings of this half are filed under property C16 (the temporary id C16s exists only until the merge)
_orig_known = _V.known_findings
def _known(pid):
    return _orig_known("C16" if pid == "C16s" else pid)
_V.known_findings = _known
