"""C17 — List sorting, IsSorted and Heap agree with the ordering relation."""
DRIVER = "c17"
TRUSTED = [
    "sort.SliceStable is modelled as a stable sort (Go standard library trusted)",
    "comparison functions are total, side-effect free Go functions (family lt_of 0..5 in the harness)",
    "fun.Iterator / Observe / Run delivering a prefix of the source to NewHeapFromIterator is trusted; the driver reads the consumed prefix off the returned heap's Len()",
]
ASSUMPTIONS = [
    "lt is a strict weak order for the Heap minimality theorem (irreflexive, transitive, negatively transitive); IsSorted theorems hold for every lt",
    "sort theorems: the list is well-formed before the call (C16 invariant WF, which every reachable world satisfies); sortedness of SortMerge needs only asymmetry of lt; SortQuick's sorter is a Section hypothesis (stable_sort_contract)",
]
EXPLANATION = ("Theorems in coq/Props/C17.v over all lists / all push-pop sequences / all comparison functions; "
               "the model is tied to /repo by re-running it under vm_compute on every generated case and comparing with "
               "what dt.List.IsSorted / dt.Heap returned.")
READY = True
LEVEL_TEXT = ("Machine-checked Coq theorems: IsSorted(lt) <-> no adjacent pair out of order for every list and every lt; "
              "Heap: for every push/pop sequence popped+remaining is a permutation of pushed, and for every strict weak order each pop "
              "returns a value nothing inside is lt, also for heaps built by NewHeapFromIterator from any consumed prefix (iterator completed, failed, cancelled); SortMerge (pointer-level model): permutation of the same elements for every lt, "
              "sorted for every asymmetric lt, result well-formed and owned by the receiver; SortQuick: permutation, sorted and stable "
              "for every sorter meeting the stable-sort contract (the model's executable sorter meets it for every strict weak order). "
              "Model tied to /repo by differential correspondence on every run.")
LEVEL_NOTE = ("Trusted: Coq kernel + vm_compute; hand-written list-level model of Heap.Push's backward scan and IsSorted, "
              "pointer-level model of SortMerge/SortQuick (coq/Model/ListHeap.v); correspondence is differential testing "
              "(1.5k cases quick); sort.SliceStable is trusted to meet the stable-sort contract.")
TECHNIQUE = "Coq proof (induction over lists / op sequences) + vm_compute correspondence against dt.List/dt.Heap"
