"""C14 — fun.WaitGroup: Wait returns iff the counter is zero or its context ended."""
DRIVER = "c14"
TRUSTED = [
    "Go's sync.Mutex and sync.Cond are MODELLED (Conc/Monitor.v): Lock/Unlock mutual exclusion, cond.Wait registers on the wait list and "
    "releases the lock atomically, Signal wakes one registered waiter, Broadcast all; the model additionally allows spurious wake-ups",
    "context cancellation and the per-Wait helper goroutine `go func(){ <-ctx.Done(); cond.Broadcast() }()` are modelled as a flag per call and a "
    "multiset of pending broadcasts; goroutine scheduling fairness (a runnable goroutine eventually runs) is trusted, so 'is released' means "
    "'has been taken off the wait list / a wake-up is pending', and on the implementation 'returns well before a 10 s deadline'",
    "each WaitGroup method body is one critical section of the model (transcribed by hand from sync.go; the data part is the function wg_add "
    "that the differential correspondence runs against the real Add/Inc/Done/Num/IsDone/Wait on every check)",
    "Launch/DoTimes/Operation.Add/StartGroup: spawn model (Inc in the caller before `go`, deferred Done after the operation) written by hand from "
    "sync.go:84-93 and operation.go:82,91,95,237-239; other users of the same group are assumed balanced (never take away more than they put in)",
    "Go int is 64-bit; the model counter is Z (no overflow modelled)",
]
ASSUMPTIONS = [
    "none beyond the trusted base for the theorems about fun.WaitGroup as it is now; `wait_ctx_wake_unlocked_helper_refuted` documents the shape before "
    "the repair of sync.go:134 (helper goroutine broadcasting without the mutex), for which the cancellation half is false",
]
EXPLANATION = ("Theorems in coq/Props/C14.v over ANY assignment of Add/Inc/Done/Num/IsDone/Wait calls to unboundedly many threads and EVERY schedule "
               "of the monitor model coq/Conc/Monitor.v (lock, park, wake, re-check, context end, helper broadcast): Wait returns only at an instant at "
               "which the counter is zero or its context has ended; no thread is ever parked in Wait while the counter is zero (every waiter is released, "
               "any number of rounds); a parked waiter whose context has ended always has its helper's broadcast pending; the counter is the sum of the completed non-panicking Adds; a negative Add panics and changes nothing; goroutines "
               "started by Launch/DoTimes are counted from before they start until after they end, and DoTimes/StartGroup with ANY count n grow the counter by exactly max(0,n) (a non-positive count is a no-op); the launched goroutine calls Done on every exit path (return, panic, Goexit) whatever the launch context; Wait's zero-check and park are one critical section (refuted for a check outside the mutex). The model is tied to /repo on every run: sequential "
               "differential of wg_step against the real WaitGroup, and concurrent rounds / cancellation / Launch scenarios whose outcome the model predicts.")
READY = True
LEVEL_TEXT = ("Machine-checked Coq theorems (axiom-free) on a code-level model of fun.WaitGroup as an instance of a generic mutex+cond monitor transition "
              "system: safety of Wait's return, no waiter parked at zero in every reachable state for any number of waiters/workers/rounds/schedules, "
              "counter = sum of completed Adds, negative Add panics unchanged, Launch/DoTimes coverage, a cancelled waiter always has a wake-up pending "
              "(all schedules; refuted for the pre-repair helper that broadcast without the mutex). partial: the Go runtime primitives and the scheduler "
              "are modelled, not verified.")
LEVEL_NOTE = ("Trusted: Coq kernel + vm_compute; hand transcription of sync.go into Model/WaitGroupModel.v; sync.Mutex/sync.Cond/context semantics as modelled in "
              "Conc/Monitor.v; scheduler fairness. Correspondence = differential testing (about 4k sequential cases, 1500 multi-round concurrent scenarios, "
              "500 cancellation, 700 Launch and 500 DoTimes-with-any-count, 400 launch-context/exit-path scenarios and ~10k Wait-races-last-Done rounds per quick run; thorough adds a GOMAXPROCS=64 stress hunting the cancellation race that the repair "
              "of sync.go:134 closed); blocking verdicts only with 10 s bounds.")
TECHNIQUE = ("Coq proof (inductive invariants over a mutex/condition-variable transition system, any number of threads, any schedule) "
             "+ vm_compute correspondence against the real fun.WaitGroup (sequential differential and concurrent scenarios with stamped histories)")
