"""C11 — Orchestrator and service wrappers run all submitted work and collect all errors."""
DRIVER = "c11"
TRUSTED = [
    "modelled, not verified: pubsub.Queue as an atomic FIFO (Add/Remove/Wait/Close), context cancellation as a monotone flag, "
    "sync.WaitGroup / fun.WaitGroup as a counter, erc.Collector as a list, goroutine creation, the Split/channel hand-off of "
    "Iterator.ProcessParallel (one splitter holding at most one item, N symmetric workers), errors.Is through erc/ers joins",
    "the srv.Service life cycle is used as a contract (Start is an atomic test-and-set, Run is invoked once by the service's own "
    "goroutine, Wait returns only after the service finished and yields its error/panic): that contract is property C10",
    "Go scheduler fairness (a runnable goroutine eventually runs): the theorems are safety invariants plus token conservation; "
    "'exactly once while the pool keeps running' is 'never lost, never duplicated' in every reachable state",
    "the harness linearises its event log with one mutex (Add and cancel() are executed while holding it)",
]
ASSUMPTIONS = [
    "service / job / cleanup outcomes are one of ok, error, panic, blocks-until-cancel (then nil or error), or a control-valued error "
    "(is / wraps io.EOF, context.Canceled, context.DeadlineExceeded, ErrIteratorSkip; ErrCurrentOpAbort behaves as an ordinary error); ids are distinct per job/cleanup function",
    "pool_job_errors_surfaced holds except for control-valued errors of jobs of the plain WorkerPool (pool_job_errors_surfaced_refuted; "
    "known finding C11:WorkerPool:control-error-dropped)",
    "Cleanup is modelled with timeout 0 (its internal context is never cancelled before all functions returned)",
]
EXPLANATION = ("Theorems in coq/Props/C11.v are inductive invariants over every reachable state of four executable transition systems "
               "(Orchestrator run loop, Group, WorkerPool/HandlerWorkerPool, Cleanup) transcribed from srv/orchestrator.go and "
               "srv/implementations.go, for any number of services/jobs/workers, any outcome assignment and every interleaving of the "
               "modelled steps. The Go driver runs the real srv code under scripted scenarios (Add before start / while running / racing "
               "cancel / after cancel; services fresh / running / finished / started by their owner while the orchestrator picks them up - also "
               "placed exactly with the srv yield hooks; outcomes ok/err/panic/blocks/control-valued errors), checks the property's oracles directly on the recorded event log and "
               "prints the log as a Coq term; the model's executable acceptor must accept every log (vm_compute).")
READY = True
LEVEL_TEXT = ("Machine-checked Coq theorems (inductive invariants, unbounded services/jobs/workers, all interleavings of the modelled steps): "
              "orchestrator starts every accepted service at most once, awaits it and reports every failure; Group starts all members, keeps "
              "their context alive until they return or the group's context ends, awaits all; worker pools run each accepted job at most once "
              "and never lose one while running (token conservation); Cleanup runs every accepted function exactly once, failures never block "
              "the others, all errors surfaced. Model tied to /repo by event-log acceptance on every run.")
LEVEL_NOTE = ("Partial in DESIGN.md's sense: queue, channels, context, WaitGroup, error collector and the Service life cycle (C10) are model "
              "primitives; theorems quantify over all interleavings of the modelled atomic steps, scheduler fairness is trusted; the tie to the "
              "code is differential (recorded event logs of ~4000 scenario runs per quick check, ~40000 thorough replayed through the model's acceptor).")
TECHNIQUE = "Coq proof (inductive invariants over transition systems, token conservation) + vm_compute acceptance of event logs recorded on the real srv code"
DRIVER_TIMEOUT = {"quick": 900, "thorough": 6000}
