"""C16 — dt.List (and dt.Stack) stay well-formed and match a sequence model."""
DRIVERS = ["c16", "c16stack"]
PROPS = ["C16", "C16_stack"]
TRUSTED = [
    "sort.SliceStable is modelled as a stable sort (Go standard library trusted); SortQuick is only run with strict weak orders",
    "encoding/json byte syntax is trusted; MarshalJSON/UnmarshalJSON are modelled at the level of the decoded value sequence",
    "fun.Iterator plumbing around the four list producers is trusted; the producers themselves are modelled as cursor machines and compared drained",
    "dt/verif_export.go (build tag verif): raw root/next/prev/list accessors used by the driver's observations",
    "Stack: fun.Iterator around Stack.Producer/ProducerPop is used as the client would; only the producers are modelled",
]
ASSUMPTIONS = [
    "handles are elements of the world (allocated nodes) or nil; methods called on a nil receiver panic in the code and are Panic in the model (excluded from the theorems' conclusions, included in correspondence)",
    "Extend(l, l) on one and the same list is outside the property (does not terminate in the code for len >= 2); never generated",
    "theorems about operation sequences are proved under the decidable guard avoids_swap (no *successful* Swap; known finding C16:List.Swap:success, refuted for the unguarded statement)",
    "Stack theorems: operation lists avoid Item.Remove of the current head item (known finding C16:Item.Remove:attached-head, refuted for the unguarded statement) and Item.Detach (outside the property's operation list; modelled faithfully, correspondence-only)",
]
EXPLANATION = ("Theorems in coq/Props/C16.v about the pointer-level model coq/Model/ListHeap.v (heap of nodes, two or more lists, "
               "every method transcribed statement by statement) and in coq/Props/C16_stack.v about coq/Model/StackHeap.v (dt/stack.go likewise). The models are tied to /repo by re-running it under vm_compute on "
               "every generated operation sequence and comparing, after every step, both walk directions, Slice, Len and "
               "owner/ok/value/next/prev of every element handle with what the real dt.List showed; a plain-slice reference "
               "implementation in the Go driver is the direct oracle.")
READY = True
LEVEL_TEXT = ("Machine-checked Coq theorems over all operation sequences and all handle choices on a code-level heap model of dt.List: "
              "well-formedness (ring, ownership, length) is preserved, the list refines a plain sequence, walks/Slice/Len/In agree, "
              "rejected operations change nothing; known finding Swap refuted by witness and excluded by a decidable guard. The same for dt.Stack (LIFO reference, head-removal finding refuted and guarded).")
LEVEL_NOTE = ("Trusted: Coq kernel + vm_compute; hand-written pointer-level model; correspondence is differential testing "
              "(3k sequences quick); sort.SliceStable, encoding/json and fun.Iterator trusted.")
TECHNIQUE = "Coq proof (ring invariant, refinement to list Z, induction over op sequences) + vm_compute correspondence against dt.List"
DRIVER_TIMEOUT = {"quick": 900, "thorough": 6000}
