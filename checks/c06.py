"""C06 — pubsub.Deque is a linearizable bounded double-ended queue."""
DRIVER = "c06"
TRUSTED = [
    "Go's sync.Mutex / sync.Cond / context are modelled (each public Deque method = one critical section; a blocking method parks only inside cond.Wait and re-checks its predicate after waking) - not verified",
    "Go int is modelled by Z (no overflow; lengths stay far below 2^63); the quota tracker's float64 credit is a Coq primitive float (IEEE binary64)",
    "the linearizability search over recorded histories (Go, harness/cmd/c06) and its sequential specification mirror; every linearization it finds is re-validated by Coq against the model",
    "wake-up behaviour is exercised by scenarios with 10 s deadlines, not proved here (C07)",
]
ASSUMPTIONS = [
    "options are valid DequeOptions (new_deque o = Some d0); theorems quantify over every such o and every operation list",
    "concurrent half: the code is a monitor (premise of Conc/LockedObject.v): all state is touched under dq.mtx, which is released only inside cond.Wait",
]
EXPLANATION = ("Theorems in coq/Props/C06.v about the pointer-level ring model coq/Model/DequeHeap.v (root sentinel, addAfter/pop writes in "
               "the code's order, the three trackers transcribed from tracker.go) for all valid options and all operation lists: the ring "
               "stays well formed, refines a two-ended list, Len <= capacity, a failing push changes nothing, a Force push at capacity evicts "
               "exactly the item at the opposite end, a closed deque rejects everything; the monitor theorem of Conc/LockedObject.v is "
               "instantiated for linearizability. The model is tied to /repo on every run: sequential differential on the real deque "
               "(results, Len, forward and reverse contents after every step), recorded concurrent histories linearized in Go and "
               "re-validated in Coq, and wake-up scenarios with 10 s deadlines.")
READY = True
LEVEL_TEXT = ("Machine-checked Coq theorems over all valid DequeOptions and all operation sequences on a pointer-level model of the ring and "
              "trackers: well-formedness preserved, refinement to a two-ended list with capacity and closed flag, Len <= capacity, failing push "
              "has no effect, Force push at capacity evicts exactly one item from the opposite end, closed deque rejects all; linearizability "
              "of every history of the monitor by instantiating the generic locked-object theorem. Model tied to /repo by differential "
              "correspondence, history linearization re-validated in Coq, and direct oracles on every run.")
LEVEL_NOTE = ("Sequential half full; concurrent half partial: linearizability is proved for all interleavings of the modelled critical sections, "
              "the monitor shape of the Go code and the Go runtime primitives are trusted/exercised by recorded histories (4000 quick, 60000 thorough, <= 12 ops, 2-6 goroutines). "
              "Wake-up discipline theorems belong to C07; here only scenario tests with 10 s deadlines. Trusted: Coq kernel + vm_compute, "
              "hand-written model, Go driver incl. its linearizability search.")
TECHNIQUE = "Coq proof (ring invariant + refinement by induction over op lists; generic monitor linearizability theorem) + vm_compute correspondence against pubsub.Deque, WGL-style history search re-validated in Coq"
DRIVER_TIMEOUT = {"quick": 1500, "thorough": 6000}
