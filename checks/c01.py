"""C01 — parallel iterator stages deliver every item exactly once."""
DRIVER = "c01"
TRUSTED = [
    "Go channels (hand-off atomicity, close, buffered FIFO), select, context cancellation, fun.WaitGroup (C14), sync.Once and goroutine start/exit are PRIMITIVES of the GoLite model coq/Model/Pipelines.v, not verified",
    "the networks (map_net, pp_net, pbuf_net, buffer_net, fanin_net, split_net, ...) are hand translations of iterator.go / transform.go / producer.go / chan.go / process.go; they are tied to /repo at the level of OUTCOMES (delivered multiset / order), not traces: the properties are schedule dependent",
    "user functions (processors, transforms, generators) are total and do not re-enter the pipeline",
]
ASSUMPTIONS = [
    "nothing aborts the run (no processing error in abort mode, no cancellation, no early Close) for the completeness statements; conservation holds in every reachable state, aborted or not, with the explicit 'dropped' summand",
    "scheduler fairness (a runnable goroutine eventually runs) for termination of the real runs",
]
EXPLANATION = ("Theorems in coq/Props/C01.v are about every interleaving of the modelled atomic steps, for every input, worker count and "
               "buffer size. Each run of the check executes the REAL Split / ProcessParallel / ParallelForEach / Worker / Map / ParallelBuffer / "
               "Buffer / MergeIterators / GenerateParallel (generator ending with io.EOF / an error wrapping io.EOF / a real error = aborted run; free "
               "schedule and a driver-controlled schedule in which the call producing the last value returns only after another worker's call "
               "reported the end) / concurrent ReadOne / 2-8 fan-out stages (ParallelForEach pools, Split, Map) draining ONE channel-backed iterator of 10^5+ distinct values "
               "on seeded inputs with Gosched/sleep jitter and varied GOMAXPROCS, "
               "applies the multiset (and order) oracle, and hands every observed outcome to Coq, where it must be an outcome the model allows "
               "(a permutation of the input; the input itself for Buffer / one worker) and where the model network of the same construct is "
               "executed on the same input.")
READY = True
LEVEL_TEXT = ("Machine-checked Coq theorems over GoLite networks of the parallel stages (any input, worker count, buffer size, schedule): "
              "C01_conservation - remaining + in hands + in channels + delivered + dropped is a permutation of the input in every reachable state "
              "of every construct (proved once for ANY network); C01_no_early_close - Map, MergeIterators, GenerateParallel close their output only "
              "after the wait group drained and every worker returned (or the iterator's context was cancelled); C01_order_single / "
              "C01_complete_single_pump - Buffer (and Chain, MergeSlices, MergeSliceIterators, dt.Map, adt.Map) deliver the input list itself, "
              "never drop; C01_complete_partial - every construct: with empty hands, delivered + still-in-input + still-buffered + explicitly "
              "dropped is a permutation of the input (nothing duplicated or invented, ever); C01_drop_only_by_a_send_that_gives_up - in any network "
              "passing the static check hand_disc the only step that drops an item is a send whose context is cancelled or whose channel is closed; "
              "C01_generate_eof_no_drop / C01_generate_eof_cancels_nothing - GenerateParallel (worker = explicit ctx.Err() test, generator call, send; "
              "any workers, input, schedule) whose generator ends with the end-of-stream signal (io.EOF, bare or wrapped) cancels nothing while a "
              "worker is running and never drops an item in an un-aborted run; C01_generate_failure_drops_in_flight - the contrast: treating the "
              "end as a failure (cancel-on-failure edge) drops a value that is generated and not yet sent; C01_shared_input_conservation / "
              "C01_atomic_reads_exactly_once / C01_next_value_hand_off_refuted - several fan-out stages over one concurrency-safe input are concurrent "
              "callers of the atomic ReadOne (conservation for any number of them); reading with Next;Value through the shared value field loses one "
              "item and duplicates another with two readers.")
LEVEL_NOTE = ("Partial in DESIGN's sense: channel hand-off atomicity, WaitGroup, context and goroutine exit are model primitives. "
              "C01_complete (un-aborted terminated run delivers a permutation of the input) is now a THEOREM for every construct family - Map / "
              "Transform.ProcessParallel, Iterator.ProcessParallel, ParallelBuffer, Buffer, Chain & co., BufferedChannel, MergeIterators, GenerateParallel, "
              "Split - for every worker count, buffer size, input and interleaving (C01_complete = C01_complete_statement under the explicit side "
              "conditions complete_ok: at least one worker / output, one input per MergeIterators goroutine, GenerateParallel's generator ending with "
              "the end-of-stream signal - the failure-ending one is refuted), via C01_no_abort_no_drop and per-family invariants ('nothing is cancelled / "
              "closed while a sender runs', 'whoever returned found its input exhausted', 'the consumer leaves only after the pipe is closed and drained'). "
              "Historically it was stated "
              "(C01_complete_statement) for the multi-worker ones, where it is reduced to 'no explicit drop happened' (C01_complete_partial) and "
              "checked by executing the model on every harness case (dropped = [] and delivered ~ input under vm_compute). The tie to /repo is "
              "outcome-level (multiset/order of real runs vs. what the model allows), because the property quantifies over schedules that cannot "
              "be replayed deterministically.")
TECHNIQUE = "Coq proof (inductive invariants over a small-step interleaving semantics) + outcome-level vm_compute correspondence against real runs"
DRIVER_TIMEOUT = {"quick": 900, "thorough": 3000}
