"""C05 — pubsub.Queue is a linearizable bounded FIFO."""
DRIVER = "c05"
TRUSTED = [
    "Go's sync.Mutex (mutual exclusion) and sync.Cond (atomic unlock-and-park) are modelled, not verified: "
    "the concurrent theorems are about all interleavings of whole critical sections (Conc/LockedObject.v); that each "
    "public Queue method IS one critical section (lock released only inside cond.Wait, nothing written between wake-up "
    "and re-check, cancel path writes nothing) is checked on the source by C13's skeleton checker and exercised here by "
    "the recorded concurrent histories, not proved",
    "float64 arithmetic of the quota tracker's credit = Coq primitive floats (IEEE binary64 under vm_compute); Go int = Z "
    "(no 64-bit wrap-around)",
    "the history recorder and the WGL search in harness/cmd/c05 (every order it finds is re-validated by Coq against the "
    "Coq specification; only a verdict 'no order exists' rests on the Go mirror of the spec)",
    "pubsub/verif_export.go (verif build tag): snapshot of tracker fields / closed flag / link walk used by the direct oracles",
]
ASSUMPTIONS = [
    "t_fresh t: the tracker is one the constructors build (NewUnlimitedQueue; NewQueue after QueueOptions.Validate; "
    "fixed-capacity tracker with capacity >= 0) — C05_valid_options proves Validate yields exactly these",
    "Distributor.Receive (Remove, then Wait) is modelled as Wait: its first critical section has no effect unless it returns "
    "the item (spec_receive_is_wait); Distributor.Len is modelled as Len (it reads tracker.len without the lock: C13)",
    "BlockingAdd's wait predicate is the code's `cap() > len()` (soft quota), not Add's admission rule; a BlockingAdd parked "
    "on a full queue is not failed by Close (it re-parks) — a liveness matter left to C07, every result it can return is "
    "covered by the sequential specification",
]
EXPLANATION = ("Theorems in coq/Props/C05.v: refinement of the pointer-level queue (entries/links/sentinel/back, three trackers, "
               "float credit) to a FIFO list for every operation list; Len exact and bounded; Add's error iff the limit/credit "
               "rules; quota dynamics; Close semantics; and, by instantiating the generic monitor theorem Conc/LockedObject.v with "
               "the queue's critical-section function, linearizability with real-time order and 'context error = no effect' for "
               "every trace with any number of goroutines. Tied to /repo on every run: sequential differential in try-form "
               "(results, Len, soft quota per step; final link walk) against BOTH the pointer model and the spec, evaluated in "
               "coqc by vm_compute; recorded concurrent histories (2-6 goroutines) whose linearization order is re-validated "
               "in Coq; direct oracles on the implementation (FIFO, Len, admission on the implementation's own tracker fields, "
               "quota dynamics, close, error/ctx results have no effect).")
READY = True
LEVEL_TEXT = ("Machine-checked Coq theorems over a code-level model: sequential half full strength (all op sequences, all valid "
              "QueueOptions incl. unlimited): FIFO refinement, Len exact/bounded, Add error iff rules, quota dynamics, close "
              "semantics, ctx error no effect; concurrent half: linearizability + real-time order + cancel-no-effect for all "
              "interleavings of the modelled critical sections (any number of threads).")
LEVEL_NOTE = ("Concurrent half is 'partial' in DESIGN's sense: mutex/cond are modelled; the one-critical-section-per-method premise is "
              "validated by C13's skeleton check and by ~400 (quick) recorded histories per run, each re-validated in Coq. "
              "Correspondence is differential testing (2.5k sequences quick). Trusted: Coq kernel + vm_compute + primitive floats.")
TECHNIQUE = ("Coq proof (refinement by induction over op lists; generic monitor-linearizability theorem instantiated) + vm_compute "
             "correspondence on sequential runs and on recorded concurrent histories of the real pubsub.Queue")
DRIVER_TIMEOUT = {"quick": 600, "thorough": 3000}
