"""C20 — non-destructive Queue/Deque iterators see every item in order and never crash."""
DRIVER = "c20"
TRUSTED = [
    "Go runtime: sync.Mutex, sync.Cond (Wait = atomic unlock-and-park; Signal/Broadcast make the woken goroutines runnable before returning), context, goroutine scheduling fairness",
    "the per-wait helper goroutine `go func(){ <-ctx.Done(); mu.Lock(); cond.Broadcast(); mu.Unlock() }()` (locked since fixes_pending/C07-helper-broadcast-locked.diff) is modelled as a broadcast performed at the cancellation / at the return of waitForNew, ordered with the critical sections; the unlocked variant's race is analysed in Conc/Monitor.v (C07/C14), not here",
    "harness: quiescence is read from the runtime's goroutine status (sync.Cond.Wait) after every driver operation has returned; yield hook pubsub.Queue.Producer.unlocked (build tag verif)",
    "user values are plain int64; tracker.add()'s accept/reject verdict is an input of the model's step (LAdd / LAddRej): the tracker arithmetic is C05's model, the iterators never read the tracker",
]
ASSUMPTIONS = [
    "Queue theorems: any number of iterators, any schedule of the modelled atomic segments (S0, S1, unlocked window, waitForNew entry/re-check, S3) interleaved with Add/Remove/Close/cancel; 'not blocked' is stated for Parked (no pending wake), i.e. at quiescence",
    "Deque order theorems assume no concurrent Pop of an element the cursor stands on (the property allows omissions under concurrent removal); never-panics / never-invents hold for every schedule",
]
EXPLANATION = ("Theorems in coq/Props/C20.v over every reachable state of a pointer-level transition system (queue entries with links, "
               "deque ring with stale pointers of popped elements, iterator goroutines split at their real atomic segments); the model is tied "
               "to /repo by running the same schedules on the real Queue.Producer / Deque.Producer* through the yield hook and comparing "
               "every observation under vm_compute.")
READY = True
LEVEL_TEXT = ("Machine-checked Coq theorems about a code-level model of Queue.Producer/waitForNew/popFront/doAdd and Deque.confProducer/element.wait: "
              "for every schedule the Queue iterator yields a contiguous run of the added items starting at the front it first saw (in order, each once, "
              "nothing invented, nothing skipped), never dereferences nil, is never parked while an unseen item, Close or its cancellation is present, "
              "and ends with EOF after Close; Deque iterators never panic or invent, follow container order absent removals and the non-blocking ones end at the end.")
LEVEL_NOTE = ("Partial in DESIGN.md's sense: the theorems quantify over all interleavings of the MODELLED atomic segments; sync.Mutex/sync.Cond/context and "
              "scheduler fairness are modelled, not verified, and 'promptly' is read as 'not parked at quiescence'. Correspondence is schedule-directed differential "
              "testing on the real code (about 15k schedules quick, incl. bounded queues with rejected Adds and cancellation placed between the ctx check and cond.Wait).")
TECHNIQUE = "Coq proof (inductive invariants over a transition system with unboundedly many iterator threads) + vm_compute correspondence on yield-hook schedules of the real iterators"
DRIVER_TIMEOUT = {"quick": 900, "thorough": 6000}
