"""C13 — concurrency-safe types are free of data races.

Proof side: the synchronisation skeleton of every covered type is RE-EXTRACTED FROM THE GO
SOURCE on every run (`regenerate` below runs /verif/translator on V.REPO into coq/Gen/), and
coq/Props/C13.v proves `forall s, reachable prog_T s -> ~ race s` for each type T by
`lockset_sound` (coq/Skel/LocksetSound.v, proved once for all skeleton programs) applied to the
reflective check `lockset_ok guards prog_T = true` (vm_compute on the regenerated term).

Search side: harness/cmd/c13, built WITH -race, runs every pair of public operations of every
covered type concurrently in a subprocess per scenario and reports race-detector hits.
"""
import json, os, re, shutil, tempfile

DRIVER = "c13"
RACE = True            # the driver is built with the race detector
NO_CASES_OK = True     # the tie to /repo is the translator, not a cases_*.v correspondence
SEARCH_SEEDS = 1
SEARCH_TIMEOUT = 2400
DRIVER_TIMEOUT = {"quick": 900, "thorough": 7200}
READY = True

# types with a theorem in Props/C13.v
PROVED = ["WaitGroup", "Collector", "Synchronized", "Atomic", "Once", "Map", "Pool", "Queue", "Deque", "Set",
          "limitExec", "ttlExec", "Wrappers", "Broker"]
# translated and reported, but not provable by a lockset argument (see LEVEL_NOTE); exercised by the -race driver only
UNPROVED = []

TRUSTED = [
    "the translator /verif/translator (Go, go/ast only): its normalisation of lock idioms (defer, Lock/With helpers inlined from source), "
    "inlining of same-type/same-package helpers, escape rule for closures and method values, loop splitting, the table of methods "
    "reached through guarded fields (regionMethods) and of trusted concurrent primitives; its output for the current tree is kept in coq/Gen/expected/",
    "Go's sync.Mutex / sync.RWMutex / sync.Cond (atomic unlock-and-park) / sync.Once (modelled as an exclusive section followed by a shared hold) "
    "/ sync.Map / sync.Pool / sync/atomic / channels are modelled, not verified",
    "limitExec fast path (Worker/Producer/Processor/Future .Limit): the read of the cached result inside `if counter.CompareAndSwap(n, n)` is "
    "modelled as an atomic (translator rule 11): it is ordered after the last write by the atomic store of the counter because the slow path "
    "no longer writes once the counter holds n; this value-dependent publication argument is NOT machine-checked (the slow path is)",
    "captured locals: a local of a still-running function that an escaping closure assigns becomes an unguarded pseudo-field (translator rule 10); "
    "ordering of such accesses by channel operations is not modelled (a correct hand-off would be rejected, never accepted silently)",
    "the guard map coq/Skel/Guards.v is NOT trusted: lockset_sound holds for every guard map",
    "the Go race detector (used only to find a replayable failing input; it has no false positives)",
]
ASSUMPTIONS = [
    "user supplied callbacks do not re-enter the object and are themselves race free",
    "one iterator / producer closure value (Queue.Producer, Deque.Producer*, Set.Iterator) is used by one goroutine at a time: its cursor is private to it",
    "dt.Set is used in its synchronised configuration (Synchronize() or WithLock() called before the set is shared)",
    "values stored in the containers are not mutated through shared references by the client (adt.Synchronized.Get returns the stored value)",
    "panic paths run the same deferred unlocks as return paths (not modelled separately)",
]
EXPLANATION = ("coq/Props/C13.v: for every covered type, for any number of client threads calling its public entries (exported methods and "
               "escaped closures) in any interleaving, no reachable state of the regenerated skeleton has two threads at a plain access "
               "to the same field with one write. The skeleton is regenerated from /repo by the translator on every run; the -race driver "
               "runs every pair of operations concurrently to find a replayable race when an obligation breaks.")
LEVEL_TEXT = ("Machine-checked Coq theorem lockset_sound (all skeleton programs, all guard maps, any number of threads, every interleaving; "
              "Mutex, RWMutex, Cond.Wait, goroutine spawn, sync.Once) instantiated by reflection on skeletons re-extracted from the Go source "
              "on every run: C13_race_free_<T> for WaitGroup, Collector, Synchronized, Atomic, Once, Map, Pool, Queue, Deque, Set, ttlExec, "
              "limitExec and the Limit wrappers (slow path), the Lock/WithLock/Once/TTL wrappers and Broker.")
LEVEL_NOTE = ("Full over the skeleton abstraction; the source-to-skeleton translator is trusted (syntactic, fails loudly with Unknown). "
              "Not covered by the proof: the lock-free fast path of limitExec / the Limit wrappers (publication by an atomic counter, "
              "trusted, see trusted_base; their slow path IS covered), pubsub.Distributor as a value type (its closures are covered as entries of "
              "Queue/Deque), and the known finding C13:Collector.Resolve:live-stack (that escape is excluded from the skeleton).")
TECHNIQUE = "source-to-model translator (go/ast) + Coq-verified lockset checker (reflection, vm_compute) + -race pairwise drivers for replay"

MONITORS = [("Queue", "Queue.mu"), ("Deque", "Deque.mtx"), ("WaitGroup", "WaitGroup.mu"), ("Collector", "Collector.mu"),
            ("Synchronized", "Synchronized.mtx")]

_hold = []  # keeps the per-property lock for the whole check run


def regenerate(V):
    """Run the translator on V.REPO into coq/Gen and evaluate the per-type obligations."""
    # one C13 run at a time (a run against a scratch copy must not interleave with a run against /repo)
    lk = V.Lock("c13-run")
    lk.__enter__()
    _hold.append(lk)

    info = dict(ok=False, what="", log="", obligations=[])
    trdir = os.path.join(V.VERIF, "translator")
    trbin = os.path.join(V.VERIF, "build", "translator")
    with V.Lock("go-translator"):
        rc, out, _ = V.run(["go", "build", "-o", trbin, "."], cwd=trdir, env=V.GOENV, timeout=600)
    if rc != 0:
        info["what"] = "translator does not build"
        info["log"] = out
        return info
    tmp = tempfile.mkdtemp(prefix="c13gen-", dir=os.path.join(V.VERIF, "build"))
    try:
        rc, out, _ = V.run([trbin, "-repo", V.REPO, "-out", tmp], timeout=300)
        info["log"] = out
        if rc != 0:
            info["what"] = "translator failed on " + V.REPO
            return info
        manifest = json.load(open(os.path.join(tmp, "manifest.json")))
        gen = os.path.join(V.COQ, "Gen")
        changed = []
        with V.Lock("coq"):
            os.makedirs(gen, exist_ok=True)
            for f in sorted(os.listdir(tmp)):
                src, dst = os.path.join(tmp, f), os.path.join(gen, f)
                new = open(src).read()
                old = open(dst).read() if os.path.exists(dst) else None
                if new != old:
                    with open(dst, "w") as fh:
                        fh.write(new)
                    if f.endswith(".v"):
                        changed.append(f)
        info["changed_since_last_run"] = changed
    finally:
        shutil.rmtree(tmp, ignore_errors=True)

    # differs from the reviewed copy?
    exp = os.path.join(V.COQ, "Gen", "expected")
    diff = []
    for t in PROVED + UNPROVED:
        a, b = os.path.join(V.COQ, "Gen", "Skel_%s.v" % t), os.path.join(exp, "Skel_%s.v" % t)
        if not os.path.exists(b) or open(a).read() != open(b).read():
            diff.append(t)
    info["differs_from_expected"] = diff

    types = {t["name"]: t for t in manifest["types"]}
    unknowns = {n: (t.get("unknowns") or []) for n, t in types.items()}

    # build the checker and the generated terms, then evaluate the reflective obligations one by one
    targets = ["Skel/Guards.vo", "Skel/AtomicShape.vo"] + ["Gen/Skel_%s.vo" % t for t in PROVED + UNPROVED]
    ok, out = V.coq_make(targets)
    if not ok:
        info["what"] = "the regenerated skeletons do not compile"
        info["log"] += "\n" + out[-3000:]
        info["obligations"] = [dict(name="lockset_ok guards prog_%s = true" % t, ok=False) for t in PROVED]
        return info
    lines = ["From Coq Require Import List String.",
             "From FunV Require Import Skel.Syntax Skel.Lockset Skel.Guards.",
             "From FunV Require Import " + " ".join("Gen.Skel_%s" % t for t in PROVED + UNPROVED) + ".",
             "Open Scope string_scope."]
    for t in PROVED + UNPROVED:
        lines.append('Eval vm_compute in ("OBLIGATION", "%s", lockset_ok guards prog_%s, report guards prog_%s).' % (t, t, t))
    # informational: the monitor shape of the methods (premise of Conc/LockedObject.v; lemmas in Skel/AtomicShapeInst.v)
    lines.insert(2, "From Coq Require Import Ascii Bool. From FunV Require Import Skel.AtomicShape.")
    lines.append('Fixpoint is_closure_name (s : string) : bool := match s with EmptyString => false | String c r => (Ascii.eqb c "@" || Ascii.eqb c "(")%bool || is_closure_name r end.')
    for t, m in MONITORS:
        lines.append('Eval vm_compute in ("MONITOR", "%s", atomic_shape_ok guards "%s" (restrict (fun n => negb (is_closure_name n)) prog_%s)).' % (t, m, t))
    scratch = os.path.join(V.BUILD, "c13_obligations.v")
    os.makedirs(V.BUILD, exist_ok=True)
    with open(scratch, "w") as fh:
        fh.write("\n".join(lines) + "\n")
    with V.Lock("coq"):
        rc, out, _ = V.run(["coqc", "-Q", V.COQ, "FunV", os.path.basename(scratch)], cwd=V.BUILD, timeout=900)
    if rc != 0:
        info["what"] = "could not evaluate the lockset obligations"
        info["log"] += "\n" + out[-3000:]
        return info
    flat = re.sub(r"\s+", " ", out)
    results, reports = {}, {}
    for m in re.finditer(r'\("OBLIGATION", "(\w+)", (true|false), (.*?)\) : string \* string', flat):
        results[m.group(1)] = (m.group(2) == "true")
        reports[m.group(1)] = re.findall(r'\("([^"]*)", "([^"]*)"\)', m.group(3))
    info["monitor_shape_of_methods"] = {mm.group(1): mm.group(2) == "true" for mm in re.finditer(r'\("MONITOR", "(\w+)", (true|false)\)', flat)}
    broken = []
    for t in PROVED:
        good = results.get(t, False) and not unknowns.get(t)
        info["obligations"].append(dict(name="lockset_ok guards prog_%s = true" % t, ok=good,
                                        entries=len(types.get(t, {}).get("entries") or []),
                                        instrs=types.get(t, {}).get("instrs", 0)))
        if not good:
            why = "; ".join("%s: %s" % (e, w) for e, w in reports.get(t, [])[:4]) or "not evaluated"
            if unknowns.get(t):
                why += " | Unknown: " + "; ".join(unknowns[t][:3])
            broken.append("%s (%s)" % (t, why))
    info["unproved_types"] = {t: dict(lockset_ok=results.get(t), report=reports.get(t, [])[:6]) for t in UNPROVED}
    info["covered_types"] = PROVED
    info["ok"] = not broken
    if broken:
        info["what"] = "lockset_ok fails for " + " || ".join(broken)
        V.log("C13 obligations broken: " + info["what"])
    return info
