"""C15 — function wrappers keep their execution-count, exclusion and waiting contracts."""
DRIVER = "c15"
TRUSTED = [
    "sync.Once (exactly one caller runs the body, every other caller of Do blocks until it has returned), sync.Mutex, "
    "sync/atomic loads/stores/CAS, close(ch)/receive-from-closed, unbuffered send/receive rendezvous and fun.WaitGroup (C14) "
    "are primitives of the transition systems in coq/Model/LaunchNet.v, not verified",
    "ers.Join is modelled as concatenation of error leaves; the order of leaves inside an aggregated error is not compared (C12)",
    "the wrapped function is an arbitrary finite outcome script (value, error kind, panic, context cancellation); it does not "
    "re-enter the wrapper it is wrapped in",
    "Go evaluates call arguments left to right (PreHook/PostHook of Worker/Processor rely on it)",
]
ASSUMPTIONS = [
    "Limit theorems: n > 0 (the constructors panic otherwise; the model's `valid` and the harness observe that panic)",
    "limitExec counts executions that RETURN: an execution that panics does not use up the limit (model, theorem "
    "limit_runs_min_n_calls and harness oracle all say min(n, calls - panicking calls)); Operation.Limit counts every started execution",
    "a Once whose single execution panics leaves later callers with the zero value (sync.Once semantics; stated in once_runs_once_all_see_result)",
    "concurrent theorems: each thread id performs one call (unboundedly many thread ids), the waiter of StartGroup is used after StartGroup returned",
]
EXPLANATION = ("Theorems in coq/Props/C15.v: sequential contracts over ALL outcome scripts, all n and all call counts on the executable "
               "wrapper models of Model/Wrappers.v (Retry, Limit, Once, Join, PreHook/PostHook); concurrent contracts as invariants over every "
               "reachable state (any number of threads, any interleaving) of the transition systems of Model/LaunchNet.v (Once, limitExec, "
               "Operation.Limit, Lock, Signal/Launch, Worker.Signal/Launch, StartGroup). Tie to /repo: the real wrappers are built from random "
               "wrapper trees and called; results, panics and the order log are re-computed by the model under vm_compute; stamped event traces "
               "of real concurrent runs are replayed through the step functions of the transition systems; independent Go oracles written from "
               "the property text (invocation counter, max-concurrency gauge, completion flag read at the moment a caller/waiter returns).")
READY = True
LEVEL_TEXT = ("Machine-checked Coq theorems. Sequential (full, all scripts / n / call counts): Retry makes min(n, first non-retryable attempt) "
              "attempts and reports failures only when no attempt succeeded; Limit(n) runs min(n, calls) times and then returns the last result; "
              "Once runs once and every caller sees its result; Join and PreHook/PostHook run their parts in the documented order. Concurrent "
              "(partial: invariants over all interleavings of modelled atomic steps): Once exactly once and nobody returns before it finished; adt.Once Do/Resolve (with the `called` flag that is set before the constructor runs) return only after the execution finished, fast-path variant refuted; Operation.Limit's Load/CompareAndSwap retry loop runs min(n, calls) times, no-retry variant refuted; a launched waiter stays re-waitable after a wait that gave up on its own context (WorkerFuture's pipe.ch state modelled), state-clearing variant refuted; "
              "limitExec runs min(n, calls) times with the cached-output invariant; Lock mutual exclusion; Launch/Signal/StartGroup waiters "
              "return only after the background execution(s) finished. Models tied to /repo by differential correspondence and trace replay on every run.")
LEVEL_NOTE = ("partial for the concurrent theorems (once_exactly_once_all_see_result, adt_once_do_waits, limit_concurrent_runs_min_n_calls, lock_mutual_exclusion, "
              "launch_waiter_waits and companions): sync.Once, sync.Mutex, atomics, channels and fun.WaitGroup are model primitives, the Go "
              "scheduler and memory model are not modelled; the harness exercises them with K goroutines and deterministic verdicts. "
              "Sequential theorems are full strength on the code-level model. Trusted: Coq kernel + vm_compute; hand-written models; "
              "correspondence is differential testing (about 13k sequential cases and 280 concurrent runs with trace replay in the quick tier; 80k+ in thorough). Not modelled: TTL (wall-clock), Jitter/Delay/After, Operation.Go/Background (no waiter is returned).")
TECHNIQUE = ("Coq proof (induction over scripts/call counts; inductive invariants over reachable states of transition systems) + vm_compute "
             "correspondence against the real wrappers + trace replay of real concurrent runs + direct Go oracles")
