"""C18 — dt.Set behaves as a mathematical set (optionally insertion-ordered)."""
DRIVER = "c18"
TRUSTED = [
    "dt.List is used through its sequence semantics (element store: push_back / remove handle / stable sort / iterate); "
    "that the pointer-level list refines it is property C16, that SortQuick/SortMerge are stable sorts is C17",
    "Go map iteration order is an arbitrary permutation of the keys: the driver observes the order the implementation used "
    "(forceSetupOrdered, Extend/MarshalJSON from an unordered set) and feeds it to the model, which validates it is a permutation",
    "encoding/json for int values; sync.Mutex (C18_sync is the LockedObject instance: every method body is one critical section)",
    "the Go linearizability search and reference set in harness/cmd/c18 (direct oracle)",
    "goroutine snapshots (runtime.Stack) decide 'parked in sync.Mutex.Lock' for the lock-identity probes (10 s deadline)",
    "Go race detector: the driver is built with -race; iterator-vs-writer stress on a synchronized set runs in a child process whose race reports become oracle failures",
]
ASSUMPTIONS = [
    "comparison functions are strict weak orders for the 'sorted after Sort' clause (ids 0..4 of the harness family)",
    "Equal is read for two distinct sets (s.Equal(s) on a synchronized set self-deadlocks; outside the property)",
]
EXPLANATION = ("Theorems in coq/Props/C18.v over arbitrary operation lists on a code-level model of dt/set.go (hash index + element store); "
               "the model is tied to /repo by re-running it under vm_compute on every generated case (operations, oracle choices and the "
               "implementation's return values, Len and drained iterator after every step); a Go reference set checks the implementation directly; "
               "recorded concurrent histories of a synchronized set are checked linearizable and their witness order is re-run by the model.")
READY = True
LEVEL_TEXT = ("Machine-checked Coq theorems: SetInv (hash/list bijection) preserved by every operation; refinement of Check/Len/AddCheck/DeleteCheck/"
              "iterator to a reference finite set with insertion order; Equal iff same members (and order); JSON round trip; the mutex slot is write-once (first mutex installed stays); synchronized set = LockedObject instance over that single lock. "
              "Model tied to /repo by differential correspondence on every run.")
LEVEL_NOTE = ("Trusted: Coq kernel + vm_compute; hand-written model of dt/set.go over a sequence-level element store (C16/C17 cover dt.List itself); "
              "correspondence is differential testing (2.5k cases quick); concurrent part: proof over modelled critical sections + recorded histories + lock probe.")
TECHNIQUE = "Coq proof (invariant + refinement by induction over op lists) + vm_compute correspondence against dt.Set + linearizability search on recorded histories"
# the whole driver is built with -race (quick tier stays near one minute)
RACE = True
