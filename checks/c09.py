"""C09 — broker makes progress while subscribers read, and shuts down cleanly."""
DRIVER = "c09"
TRUSTED = [
    "Go channels, select, context, sync.Map, fun.WaitGroup and goroutine scheduling are model primitives of coq/Model/BrokerModel.v, not verified",
    "the distributor back-ends are FIFO buffers with a capacity and a full-policy in the model; their wake-up discipline enters C09_progress/C09_shutdown as the premise that a parked receiver is woken when the buffer is non-empty or its context ended (C07 is the check that discharges it for Queue/Deque)",
    "idleness of the real broker and 'blocked in sendMsg / Wait / an API select' are read from stop-the-world goroutine snapshots (runtime.Stack); the leak oracle polls the same snapshots for frames in github.com/tychoish/fun for up to 10 s",
    "the driver synthesises the schedule of model events from the observed event-loop order (tapped distributor), the delivery logs and what was left in subscription buffers; Coq replays it through `step` and is the judge",
]
ASSUMPTIONS = [
    "subscribers keep receiving (a rendezvous with a subscriber is always possible); scheduler fairness: 'eventually'/'promptly' are rendered as statements about states with no enabled internal step",
    "the back-end wakes a parked receiver when the buffer is non-empty or its context ended (no lost wake-up, C07)",
    "a blocking bounded back-end has capacity >= 1 (wf_cfg; NewDeque rejects capacity 0)",
    "the distributor is not closed by a third party while the broker runs",
]
EXPLANATION = ("Theorems in coq/Props/C09.v quantify over every reachable state of the broker transition system (any numbers of callers, "
               "subscribers, messages, workers; every back-end/option; Stop or cancellation at any point; every interleaving). The model is "
               "the repaired code (buffered Stats signal channel; Wait does not hold the mutex Stop needs); C09_stats_unbuffered_refuted "
               "shows the original Stats wedges the event loop. Tied to /repo on every run by bursts/stop sweeps on the real broker whose "
               "runs are replayed through the model, plus goroutine-stack oracles for idleness, leaks and context-bounded API calls.")
READY = True
LEVEL_TEXT = ("Machine-checked Coq theorems over the broker model: at every quiescent state with a live context the distributor is empty, the "
              "event loop is back at its select, every Publish/Subscribe/Unsubscribe/Stats call has returned and every accepted message has been "
              "dispatched (or evicted by a load-shedding back-end); at every quiescent state after Stop/cancel the loop and all workers have "
              "called wg.Done, so Wait returns; a blocked API call whose own context is cancelled can always return.")
LEVEL_NOTE = ("Partial in DESIGN's sense: all interleavings of the MODELLED atomic steps; channels, select, context, sync.Map, WaitGroup are "
              "model primitives; liveness is stated at quiescence (fairness trusted) and uses the back-end's no-lost-wake-up property as a premise "
              "(C07). Goroutine exit, 'promptly' (10 s bound) and the absence of leaked goroutines are exercised on the real broker by the "
              "driver's stack oracles, not proved.")
TECHNIQUE = "Coq proof (inductive invariants + quiescence analysis of a transition system) + vm_compute replay of recorded runs + goroutine-stack oracles"
DRIVER_TIMEOUT = {"quick": 1200, "thorough": 6000}
