"""C04 — pipelines terminate: no stuck consumer, no leaked goroutine."""
DRIVER = "c04"
TRUSTED = [
    "Go channels, select, context cancellation (propagation to derived contexts is atomic in the model), fun.WaitGroup (C14), sync.Once and goroutine start/exit are PRIMITIVES of the GoLite model coq/Model/Pipelines.v, not verified",
    "the networks are hand translations of iterator.go / transform.go / producer.go / chan.go / itertool / dt.Map / adt.Map; tied to /repo at the level of outcomes (goroutines left, consumer stuck, EOF reached) per (construct, n, workers, k, mode)",
    "the goroutine-leak oracle: runtime.Stack(all) filtered for frames in github.com/tychoish/fun, polled up to 10 s",
    "a source that blocks (modes blocked-close / blocked-cancel) is context-guarded, as the library documents for producers",
]
ASSUMPTIONS = [
    "scheduler fairness; 'promptly' is rendered as 'at quiescence' in the model and as 'within 10 s' in the harness",
    "C04_split carries the exact hypothesis under which closing Split outputs releases the splitter: the output that started it is closed or the user's context ends (otherwise refuted: known finding C04:Split:starter-abandoned)",
    "exhaust mode: C04_finite_input_eof / C04_progress_exhaust are proved for every construct family under complete_ok (>= 1 worker / output, one input per MergeIterators goroutine, end-of-stream generator); termination under a fair scheduler is not proved (no fairness notion in the development)",
]
EXPLANATION = ("Theorems in coq/Props/C04.v: for every construct, input, worker count, buffer size, cut point and interleaving, once the stop action "
               "(cancel | Close | Close-then-cancel) happened every reachable quiescent state has no running goroutine and nobody parked in once.Do; "
               "proved from (i) a decidable check on the network term (wf_net/static_under: every blocking instruction of every goroutine is "
               "ctx-guarded by a context under the cancelled root, wait-group members never wait unguarded), (ii) the invariant that the contexts "
               "of all started goroutines lie under that root, (iii) ctx_guarded_enabled. Split carries its starter hypothesis and the refutation. "
               "The driver runs every real construct through every (n, k, mode, workers) scenario - including Split with one consumer goroutine per output "
               "(own contexts; the starter output is closed / cancelled while the others keep reading), a receiver ranging over BufferedChannel/Channel "
               "while its context is cancelled, and GenerateParallel x {abort, ContinueOnError, ContinueOnPanic, both} x generator behaviours {ends, "
               "returns ctx.Err(), fails for ever ignoring ctx, panics for ever ignoring ctx} with a 'generator still called after the stop' counter - "
               "a lazy conversion stage downstream of every iterator construct failing with an ordinary error at item k+1 (consumer sees EOF and walks "
               "away), MergeIterators/Chain/Buffer over goroutine-backed inputs advanced once under a live application context, thousands of rounds of "
               "reading 0/1-item inputs to EOF at GOMAXPROCS 2/4/8 - and polls goroutine stacks; the observed outcome "
               "class must equal the one the executable model produces for the same scenario.")
READY = True
LEVEL_TEXT = ("Machine-checked Coq theorems over GoLite networks (any input, worker count, buffer size, cut point, schedule): "
              "C04_quiescent_all_done - for every construct, once the stop action (cancel | Close | Close-then-cancel) happened, every reachable "
              "quiescent state has no running goroutine (background or consumer) and nobody parked in once.Do, from (i) the static check "
              "wf_net/static_under on the network term, (ii) the invariant that every started goroutine's context lies under the cancelled root, "
              "(iii) C04_ctx_guarded_enabled; C04_split under the exact starter hypothesis and C04_split_starter_abandoned_refuted (known finding); "
              "C04_close_idempotent (Close is enabled in every state, a second Close is unobservable); C04_finite_input_eof_partial - deadlock "
              "freedom of un-aborted runs for the single-pump constructs (Buffer any size, Chain, MergeSlices, MergeSliceIterators, dt.Map, adt.Map); "
              "C04_loops_ctx_guarded(_constructs) - static check loops_guarded (every cycle of every control graph passes an instruction that consults "
              "a context: select with ctx.Done, wg.Wait(ctx), explicit ctx.Err() test; user code does not count) holds for every construct and bounds "
              "the instructions between two consultations; C04_unguarded_retry_loop_refuted - GenerateParallel's worker without its ctx.Err() test is "
              "rejected and spins for ever under ContinueOnError with a failing generator; C04_split_others_released / C04_range_receiver_released - "
              "the pump's deferred close is on its cancellation path, so Split consumers of non-starter outputs (live contexts) and a receiver ranging "
              "over BufferedChannel/Channel are released when the pump's context ends; C04_close_skipped_on_error_path_refuted - the counter-models; "
              "C04_eof_without_close_refuted - a downstream failure that surfaces as io.EOF must cancel like Close (ReadOne's doClose on any error); "
              "C04_consume_closes_input_on_every_exit - ChanSend.Consume over a goroutine-backed, already running input (executable nets, clean and "
              "close-only-on-success); C04_first_advance_context_limit - an iterator keeps the context of its first advance: a reader parked inside "
              "such an input is not released by the later caller's context (root cause of the known Split finding).")
LEVEL_NOTE = ("Partial in DESIGN's sense: channel hand-off, WaitGroup, context tree (cancellation reaches derived contexts atomically) and goroutine "
              "exit are model primitives; goroutine exit on the real code is observed by the stack-polling oracle only (10 s bounds, never short "
              "sleeps). The tie is outcome-level per scenario (leak count / stuck / EOF vs. the executable model's outcome for the same scenario). "
              "C04_finite_input_eof and C04_progress_exhaust are now THEOREMS for every construct family (Map, ProcessParallel, ParallelBuffer, Buffer, "
              "Chain & co., BufferedChannel, MergeIterators, GenerateParallel, Split; any worker count, buffer size, input, interleaving; side conditions "
              "complete_ok as for C01_complete): an un-aborted run that can go no further has every goroutine returned, nobody parked in once.Do, and "
              "delivered a permutation of the input - i.e. every reachable non-terminal state has an enabled step; "
              "termination (no infinite un-aborted run) is not proved. Blocking sources of the blocked-close/-cancel scenarios are represented in "
              "the model by a pump blocked in its ctx-guarded send.")
TECHNIQUE = "Coq proof (static guard check + context invariant + enabledness lemma over a small-step semantics) + goroutine-leak oracle on real runs, outcomes compared with the executable model under vm_compute"
DRIVER_TIMEOUT = {"quick": 900, "thorough": 3000}
