"""C03 — worker-group error contract: nothing lost, nothing leaked, abort stops."""
DRIVER = "c03"
TRUSTED = [
    "an error value is modelled by its errors.Is-profile (the list of sentinels errors.Is finds in it); that ers.Join / fmt.Errorf(%w) / "
    "ers.Stack / erc.Collector preserve the profile is C12's subject and is re-checked here on every error the real code produced",
    "network model primitives: the unbuffered pipe hand-off is one atomic step, context cancellation is one flag observed by ctx-guarded "
    "selects (either arm may fire once cancelled), fun.WaitGroup (C14) releases the resolver when every worker is done; Go scheduler fairness",
    "Model/WorkerNet.v refines the network per construct (Process / Map with output channel, closer and consumer / Generate without splitter and with its buffered pipe, "
    "every worker's top-of-loop ctx test its own step); the consumer is modelled as always willing to receive",
    "the harness's user function makes items that start after an aborting failure wait for the group's context (10 s limit) so that the "
    "count of items started after the first failure is schedule-independent; goroutine identity is read from runtime.Stack",
]
ASSUMPTIONS = [
    "user functions terminate and do not re-enter the worker group; ErrorHandler/ErrorResolver do not panic",
    "C03_continue_mode_complete: premise 'every failure on this input is one the configuration continues after' "
    "(implied by ContinueOnError+ContinueOnPanic when no failure is a bare io.EOF / context error: C03_continue_flags_continue)",
    "C03_classify_table: the failure is not a []error panic (known finding C03:ParsePanic:error-slice, C03_classify_table_refuted) and the "
    "case is well formed (the error's sentinel is listed in ExcludedErrors exactly for kind Excluded)",
    "C03_abort_bound (refined model, all three constructs): started-after-first-failure <= (N-1) + ctx tests other workers passed between the failing return and its cancel(); C03_abort_bound_prompt: <= N-1 when none did. C03_abort_bound_partial (coarser model): the bound is N + (items other workers finished between the failing function's return and its worker's cancel()); "
    "the property's plain 'N' needs that window to be empty (C03_abort_bound_atomic) and is otherwise refuted by a descheduled failing worker",
]
EXPLANATION = ("34 theorems in coq/Props/C03.v. Decision table (Model/WorkerConf.v): CanContinueOnError transcribed arm by arm over errors.Is-profiles, "
               "ParsePanic and the WithRecover wrappers; proved equal to the contract for all configurations (ExcludedErrors arbitrary) and all failure kinds (12 base kinds plus panics whose value is or wraps io.EOF / ErrIteratorSkip / ErrCurrentOpAbort / a context error, and returned errors wrapping ErrRecoveredPanic), "
               "with the []error panic refuted and characterised. Network (Model/WorkerGroup.v): splitter, pipe, N workers, cancel flag, logs, as an executable "
               "step function; invariants by induction over all reachable states: token conservation, result = reportable failures of the processed items, no "
               "un-recovered panic, continue-mode completeness, abort bound with ghost counters, failing worker never takes another item, one-worker determinism "
               "(= the sequential reference used by the correspondence). Tie to /repo: every cell of the table through the real WithRecover wrappers and the real "
               "CanContinueOnError; end-to-end fault sweeps through ProcessParallel / ParallelForEach / itertool.Worker / Map / Generate re-evaluated by vm_compute "
               "against the model; direct oracles written from the property text.")
READY = True
DRIVER_TIMEOUT = {"quick": 1500, "thorough": 20000}
SEARCH_SEEDS = 1
LEVEL_TEXT = ("Machine-checked Coq theorems. Decision table FULL: for every WorkerGroupConf (all option bits, arbitrary ExcludedErrors) and every failure kind "
              "CanContinueOnError records/continues exactly as the contract says (panics always recorded, marked ErrRecoveredPanic and governed by ContinueOnPanic whatever else their value matches — proved for every errors.Is-profile containing ErrRecoveredPanic —, EOF/Skip never recorded, "
              "context errors iff IncludeContextExpirationErrors, excluded errors never recorded and never aborting) — except a []error panic (known finding, refuted + characterised). "
              "Worker network PARTIAL (all interleavings of the modelled atomic steps; any N, input, user function): no panic escapes a worker; token conservation; "
              "result nil iff no processed item had a reportable failure; in continue mode every terminated run processed each item exactly once and reports exactly the "
              "reportable failures; in abort mode the failing worker takes no further item and items started after the first failing function returned <= (N-1) + ctx tests passed by other "
              "workers before its cancel() landed (<= N-1 when the cancel lands first; proved on the refined per-construct networks Process/Map/Generate); after cancellation quiescence implies every process is done.")
LEVEL_NOTE = ("Network theorems are partial in DESIGN's sense: they quantify over interleavings of the modelled atomic steps; the channel hand-off's atomicity, "
              "context cancellation and fun.WaitGroup are model primitives, the consumer of Map / Generate is modelled as always receiving, and the real schedules are only "
              "exercised by the harness (workers 1/2/4, single and double fault positions, all kinds and option bits). The property's plain bound 'NumWorkers' holds "
              "in the model only when cancel() follows the failing return before another worker finishes an item; otherwise the extra term is necessary (witness proved). "
              "Trusted: Coq kernel + vm_compute; hand-written model; errors.Is-profile abstraction of error values; Go drivers. "
              "Two defects were repaired (fixes_pending/C03-excluded-errors.diff, C03-abort-cancel.diff); one is a known finding (C03:ParsePanic:error-slice).")
TECHNIQUE = ("Coq proof: case analysis over all configurations for the decision table; inductive invariants over a transition system (N workers, any schedule) for the "
             "worker network; vm_compute correspondence against the real CanContinueOnError / WithRecover / ProcessParallel / Map / Generate; direct oracles with atomic start/end stamps")
